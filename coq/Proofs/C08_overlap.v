(* C08: eta in (0,1] (AM-GM), F in (0,1], R's integrand in (0,1], F = R = 1 without walk-off. *)
From Coq Require Import Reals Lra.
From Coquelicot Require Import Coquelicot.
From SpdVerif Require Import Spec.Overlap.
Local Open Scope R_scope.

Lemma W_h_pos Wp Ws : 0 < Wp -> 0 < Ws -> 0 < W_h Wp Ws.
Proof.
  intros Hp Hs. unfold W_h. apply Rinv_0_lt_compat, sqrt_lt_R0.
  assert (0 < / Wp ^ 2) by (apply Rinv_0_lt_compat, pow_lt; assumption).
  assert (0 < / Ws ^ 2) by (apply Rinv_0_lt_compat, pow_lt; assumption). lra.
Qed.

Lemma W_h_spec Wp Ws : 0 < Wp -> 0 < Ws -> / (W_h Wp Ws) ^ 2 = / Wp ^ 2 + / Ws ^ 2.
Proof.
  intros Hp Hs. unfold W_h.
  assert (H1 : 0 < / Wp ^ 2) by (apply Rinv_0_lt_compat, pow_lt; assumption).
  assert (H2 : 0 < / Ws ^ 2) by (apply Rinv_0_lt_compat, pow_lt; assumption).
  set (q := / Wp ^ 2 + / Ws ^ 2) in *. assert (Hq : 0 < q) by (unfold q; lra).
  assert (Hs' : 0 < sqrt q) by (apply sqrt_lt_R0; assumption).
  replace ((/ sqrt q) ^ 2) with (/ (sqrt q * sqrt q)) by (field; lra).
  rewrite sqrt_sqrt by lra. rewrite Rinv_inv. reflexivity.
Qed.

Lemma eta_range Wi Wh : 0 < Wi -> 0 < Wh -> 0 < eta Wi Wh <= 1.
Proof.
  intros Hi Hh. unfold eta.
  assert (Hd : 0 < Wi ^ 2 + Wh ^ 2) by (pose proof (pow_lt Wi 2 Hi); pose proof (pow_lt Wh 2 Hh); lra).
  set (r := 2 * Wi * Wh / (Wi ^ 2 + Wh ^ 2)).
  assert (Hr : 0 < r <= 1).
  { unfold r. split.
    - apply Rdiv_lt_0_compat; [|assumption]. apply Rmult_lt_0_compat; lra.
    - apply Rmult_le_reg_r with (Wi ^ 2 + Wh ^ 2); [assumption|]. unfold Rdiv. rewrite Rmult_assoc, Rinv_l by lra.
      pose proof (pow2_ge_0 (Wi - Wh)). nra. }
  split; [apply pow_lt; lra|]. replace 1 with (1 ^ 2) by ring. apply pow_incr. lra.
Qed.

Lemma eta_one_iff Wi Wh : 0 < Wi -> 0 < Wh -> (eta Wi Wh = 1 <-> Wi = Wh).
Proof.
  intros Hi Hh. unfold eta.
  assert (Hd : 0 < Wi ^ 2 + Wh ^ 2) by (pose proof (pow_lt Wi 2 Hi); pose proof (pow_lt Wh 2 Hh); lra).
  split.
  - intros H. set (r := 2 * Wi * Wh / (Wi ^ 2 + Wh ^ 2)) in *.
    assert (Hr : 0 < r) by (unfold r; apply Rdiv_lt_0_compat; [apply Rmult_lt_0_compat; lra|assumption]).
    assert (Hr1 : r = 1) by nra.
    unfold r in Hr1. apply (f_equal (fun v => v * (Wi ^ 2 + Wh ^ 2))) in Hr1.
    unfold Rdiv in Hr1. rewrite Rmult_assoc, Rinv_l in Hr1 by lra.
    assert (E2 : (Wi - Wh) * (Wi - Wh) = 0) by lra. apply Rmult_integral in E2. lra.
  - intros ->. replace (2 * Wh * Wh / (Wh ^ 2 + Wh ^ 2)) with 1 by (field; lra). ring.
Qed.

(* ---- F *)
Lemma gauss_continuous t : continuous (fun t => exp (- t ^ 2)) t.
Proof.
  apply continuity_pt_filterlim. apply continuity_pt_comp with (f1 := fun t => - t ^ 2) (f2 := exp).
  - reg.
  - apply derivable_continuous_pt, derivable_pt_exp.
Qed.

Lemma gauss_ex_RInt a b : ex_RInt (fun t => exp (- t ^ 2)) a b.
Proof. apply (ex_RInt_continuous (V := R_CompleteNormedModule)). intros; apply gauss_continuous. Qed.

Lemma F_walkoff_eq x : x <> 0 -> F_walkoff x = RInt (fun t => exp (- t ^ 2)) 0 x / x.
Proof.
  intros Hx. unfold F_walkoff, erf. destruct (Req_EM_T x 0); [contradiction|].
  assert (0 < sqrt PI) by (apply sqrt_lt_R0, PI_RGT_0). field. split; lra.
Qed.

Lemma F_walkoff_0 : F_walkoff 0 = 1.
Proof. unfold F_walkoff. destruct (Req_EM_T 0 0) as [_|N]; [reflexivity|contradiction N; reflexivity]. Qed.

Lemma F_walkoff_range x : 0 < x -> 0 < F_walkoff x <= 1.
Proof.
  intros Hx. rewrite F_walkoff_eq by lra.
  assert (Hpos : 0 < RInt (fun t => exp (- t ^ 2)) 0 x).
  { apply RInt_gt_0; [assumption| |intros; apply gauss_continuous]. intros; apply exp_pos. }
  assert (Hle : RInt (fun t => exp (- t ^ 2)) 0 x <= x).
  { replace x with (RInt (fun _ => 1) 0 x) at 2.
    2:{ rewrite RInt_const. unfold scal; simpl; unfold mult; simpl. ring. }
    apply RInt_le; [lra|apply gauss_ex_RInt|apply ex_RInt_const|].
    intros t _. rewrite <- exp_0. destruct (Req_dec t 0) as [->|Ht].
    - right. f_equal. ring.
    - left. apply exp_increasing. assert (0 < t ^ 2) by (replace (t ^ 2) with (Rsqr t) by (unfold Rsqr; ring); apply Rlt_0_sqr; assumption). lra. }
  split.
  - apply Rdiv_lt_0_compat; assumption.
  - apply Rmult_le_reg_r with x; [assumption|]. unfold Rdiv. rewrite Rmult_assoc, Rinv_l by lra. lra.
Qed.

Lemma F_walkoff_range0 x : 0 <= x -> 0 < F_walkoff x <= 1.
Proof. intros [H|<-]; [apply F_walkoff_range; assumption|rewrite F_walkoff_0; lra]. Qed.

(* ---- R *)
Lemma R_exponent_nonpos Wp Ws d1 d2 : 0 < Wp -> 0 < Ws -> R_exponent Wp Ws d1 d2 <= 0.
Proof.
  intros Hp Hs. unfold R_exponent.
  assert (Hp2 : 0 < Wp ^ 2) by (apply pow_lt; assumption). assert (Hs2 : 0 < Ws ^ 2) by (apply pow_lt; assumption).
  set (a := Wp ^ 2) in *. set (b := Ws ^ 2) in *.
  replace (- (d1 ^ 2 + d2 ^ 2) / a + (d1 + d2) ^ 2 * b / (2 * a * (a + b)))
    with (- ((2 * a * (d1 ^ 2 + d2 ^ 2) + b * (d1 - d2) ^ 2) / (2 * a * (a + b)))) by (field; lra).
  assert (0 <= (2 * a * (d1 ^ 2 + d2 ^ 2) + b * (d1 - d2) ^ 2) / (2 * a * (a + b))).
  { apply Rmult_le_pos.
    - pose proof (pow2_ge_0 d1). pose proof (pow2_ge_0 d2). pose proof (pow2_ge_0 (d1 - d2)). nra.
    - left. apply Rinv_0_lt_compat. nra. }
  lra.
Qed.

Lemma R_integrand_range Wp Ws L tanrho z1 z2 : 0 < Wp -> 0 < Ws -> 0 < R_integrand Wp Ws L tanrho z1 z2 <= 1.
Proof.
  intros Hp Hs. unfold R_integrand. split; [apply exp_pos|].
  rewrite <- exp_0. pose proof (R_exponent_nonpos Wp Ws (walk_d L tanrho z1) (walk_d L tanrho z2) Hp Hs) as H.
  destruct H as [H|H]; [left; apply exp_increasing; assumption|right; f_equal; assumption].
Qed.

Lemma R_no_walkoff Wp Ws L : Wp <> 0 -> R_walkoff Wp Ws L 0 = 1.
Proof.
  intros Hp. unfold R_walkoff.
  assert (E : forall z1 z2, R_integrand Wp Ws L 0 z1 z2 = 1).
  { intros. unfold R_integrand, R_exponent, walk_d. rewrite <- exp_0. f_equal. unfold Rdiv. ring. }
  rewrite (RInt_ext _ (fun _ => 2)).
  2:{ intros z1 _. rewrite (RInt_ext _ (fun _ => 1)) by (intros; apply E).
      rewrite RInt_const. unfold scal; simpl; unfold mult; simpl. ring. }
  rewrite RInt_const. unfold scal; simpl; unfold mult; simpl. field.
Qed.

(* ---- the iterated integral exists: the integrand is exp of a quadratic form in (1+z1, 1+z2); the inner integral is a
        differentiable (hence continuous) function of z1 by differentiation under the integral sign *)
Definition gq (A B z1 z2 : R) : R := exp (A * ((1 + z1) * (1 + z1)) + B * (1 + z1) * (1 + z2) + A * ((1 + z2) * (1 + z2))).

Lemma gq_derive A B v u : is_derive (fun z => gq A B z v) u (gq A B u v * (2 * A * (1 + u) + B * (1 + v))).
Proof. unfold gq. auto_derive; [exact I|]. ring. Qed.

Lemma gq_continuous_2 A B z1 z2 : continuous (fun t => gq A B z1 t) z2.
Proof.
  apply (ex_derive_continuous (fun t => gq A B z1 t)). unfold gq. auto_derive. exact I.
Qed.

Lemma c2d_poly_E A B x y : continuity_2d_pt (fun u v => A * ((1 + u) * (1 + u)) + B * (1 + u) * (1 + v) + A * ((1 + v) * (1 + v))) x y.
Proof.
  assert (Hu : continuity_2d_pt (fun u _ : R => 1 + u) x y)
    by (apply continuity_2d_pt_plus; [apply continuity_2d_pt_const|apply continuity_2d_pt_id1]).
  assert (Hv : continuity_2d_pt (fun _ v : R => 1 + v) x y)
    by (apply continuity_2d_pt_plus; [apply continuity_2d_pt_const|apply continuity_2d_pt_id2]).
  apply continuity_2d_pt_plus; [apply continuity_2d_pt_plus|].
  - apply continuity_2d_pt_mult; [apply continuity_2d_pt_const|].
    apply continuity_2d_pt_mult; assumption.
  - apply continuity_2d_pt_mult; [|assumption]. apply continuity_2d_pt_mult; [apply continuity_2d_pt_const|assumption].
  - apply continuity_2d_pt_mult; [apply continuity_2d_pt_const|].
    apply continuity_2d_pt_mult; assumption.
Qed.

Lemma gq_c2d A B x y : continuity_2d_pt (gq A B) x y.
Proof.
  unfold gq. apply (continuity_1d_2d_pt_comp exp).
  - apply derivable_continuous_pt, derivable_pt_exp.
  - apply c2d_poly_E.
Qed.

Lemma gq_inner_continuous A B z1 : continuous (fun u => RInt (fun t => gq A B u t) (-1) 1) z1.
Proof.
  apply (ex_derive_continuous (fun u => RInt (fun t => gq A B u t) (-1) 1)).
  eexists. apply (is_derive_RInt_param (fun u t => gq A B u t)).
  - apply filter_forall. intros u t _. eexists. apply gq_derive.
  - intros t _.
    apply (continuity_2d_pt_ext (fun u v => gq A B u v * (2 * A * (1 + u) + B * (1 + v)))).
    + intros u v. symmetry. apply is_derive_unique, gq_derive.
    + apply continuity_2d_pt_mult; [apply gq_c2d|].
      apply continuity_2d_pt_plus.
      * apply continuity_2d_pt_mult; [apply continuity_2d_pt_const|].
        apply continuity_2d_pt_plus; [apply continuity_2d_pt_const|apply continuity_2d_pt_id1].
      * apply continuity_2d_pt_mult; [apply continuity_2d_pt_const|].
        apply continuity_2d_pt_plus; [apply continuity_2d_pt_const|apply continuity_2d_pt_id2].
  - apply filter_forall. intros u. apply (ex_RInt_continuous (V := R_CompleteNormedModule)). intros; apply gq_continuous_2.
Qed.

Lemma R_integrand_gq Wp Ws L tanrho z1 z2 : 0 < Wp -> 0 < Ws ->
  R_integrand Wp Ws L tanrho z1 z2 =
  gq ((/ 2 * L * tanrho) ^ 2 * (Ws ^ 2 / (2 * Wp ^ 2 * (Wp ^ 2 + Ws ^ 2)) - / Wp ^ 2))
     (2 * (/ 2 * L * tanrho) ^ 2 * (Ws ^ 2 / (2 * Wp ^ 2 * (Wp ^ 2 + Ws ^ 2)))) z1 z2.
Proof.
  intros Hp Hs. unfold R_integrand, gq, R_exponent, walk_d. f_equal.
  assert (0 < Wp ^ 2) by (apply pow_lt; assumption). assert (0 < Ws ^ 2) by (apply pow_lt; assumption).
  field. split; lra.
Qed.

Lemma R_inner_ex Wp Ws L tanrho z1 : 0 < Wp -> 0 < Ws -> ex_RInt (fun z2 => R_integrand Wp Ws L tanrho z1 z2) (-1) 1.
Proof.
  intros Hp Hs. eapply ex_RInt_ext; [intros z2 _; symmetry; apply R_integrand_gq; assumption|].
  apply (ex_RInt_continuous (V := R_CompleteNormedModule)). intros; apply gq_continuous_2.
Qed.

Lemma R_inner_continuous Wp Ws L tanrho z1 : 0 < Wp -> 0 < Ws ->
  continuous (fun u => RInt (fun z2 => R_integrand Wp Ws L tanrho u z2) (-1) 1) z1.
Proof.
  intros Hp Hs. eapply continuous_ext; [|apply gq_inner_continuous].
  intros u. cbv beta. apply RInt_ext. intros z2 _. symmetry. apply R_integrand_gq; assumption.
Qed.

Lemma R_outer_ex Wp Ws L tanrho : 0 < Wp -> 0 < Ws ->
  ex_RInt (fun z1 => RInt (fun z2 => R_integrand Wp Ws L tanrho z1 z2) (-1) 1) (-1) 1.
Proof.
  intros Hp Hs. apply (ex_RInt_continuous (V := R_CompleteNormedModule)). intros; apply R_inner_continuous; assumption.
Qed.

(* R in (0,1] given that the iterated integral exists (the inner integral is continuous in z1; this is not proved here) *)
Lemma R_walkoff_range_partial Wp Ws L tanrho :
  0 < Wp -> 0 < Ws ->
  ex_RInt (fun z1 => RInt (fun z2 => R_integrand Wp Ws L tanrho z1 z2) (-1) 1) (-1) 1 ->
  (forall z1, ex_RInt (fun z2 => R_integrand Wp Ws L tanrho z1 z2) (-1) 1) ->
  0 <= R_walkoff Wp Ws L tanrho <= 1.
Proof.
  intros Hp Hs Hex Hin. unfold R_walkoff.
  assert (Hinner : forall z1, 0 <= RInt (fun z2 => R_integrand Wp Ws L tanrho z1 z2) (-1) 1 <= 2).
  { intros z1. split.
    - apply RInt_ge_0; [lra|apply Hin|]. intros z2 _. left. apply R_integrand_range; assumption.
    - replace 2 with (RInt (fun _ => 1) (-1) 1) by (rewrite RInt_const; unfold scal; simpl; unfold mult; simpl; ring).
      apply RInt_le; [lra|apply Hin|apply ex_RInt_const|]. intros z2 _. apply R_integrand_range; assumption. }
  split.
  - apply Rmult_le_pos; [lra|]. apply RInt_ge_0; [lra|exact Hex|]. intros z1 _. apply Hinner.
  - assert (RInt (fun z1 => RInt (fun z2 => R_integrand Wp Ws L tanrho z1 z2) (-1) 1) (-1) 1 <= 4).
    { replace 4 with (RInt (fun _ => 2) (-1) 1) by (rewrite RInt_const; unfold scal; simpl; unfold mult; simpl; ring).
      apply RInt_le; [lra|exact Hex|apply ex_RInt_const|]. intros z1 _. apply Hinner. }
    lra.
Qed.

Lemma R_walkoff_range Wp Ws L tanrho : 0 < Wp -> 0 < Ws -> 0 < R_walkoff Wp Ws L tanrho <= 1.
Proof.
  intros Hp Hs. split.
  - unfold R_walkoff. apply Rmult_lt_0_compat; [lra|].
    apply RInt_gt_0; [lra| |intros; apply R_inner_continuous; assumption].
    intros z1 _. apply RInt_gt_0; [lra| |].
    + intros z2 _. apply R_integrand_range; assumption.
    + intros z2 _. eapply continuous_ext; [intros t; symmetry; apply R_integrand_gq; assumption|]. apply gq_continuous_2.
  - apply R_walkoff_range_partial; try assumption; [apply R_outer_ex|intros; apply R_inner_ex]; assumption.
Qed.
