(* C19 — lemmas about floor/ceil, usize conversion and vector indexing used by the generated poling model. *)
From Coq Require Import Reals Lra Lia List ZArith.
From SpdVerif Require Import Base.Rx Base.PolingBase.
Local Open Scope R_scope.

Lemma Rceil_spec x : Rceil x - 1 < x <= Rceil x.
Proof.
  unfold Rceil. pose proof (Rfloor_spec (- x)) as [H1 H2]. unfold Rfloor in *. lra.
Qed.

Lemma Rceil_unique x (k : Z) : IZR k - 1 < x <= IZR k -> Rceil x = IZR k.
Proof.
  intros [H1 H2]. unfold Rceil.
  change (IZR (Int_part (- x))) with (Rfloor (- x)).
  rewrite (Rfloor_unique (- x) (- k)%Z); rewrite opp_IZR; lra.
Qed.

Lemma Rfloor_IZR k : Rfloor (IZR k) = IZR k.
Proof. apply Rfloor_unique. lra. Qed.

Lemma Rceil_IZR k : Rceil (IZR k) = IZR k.
Proof. apply Rceil_unique. lra. Qed.

Lemma Rfloor_INR n : Rfloor (INR n) = INR n.
Proof. rewrite INR_IZR_INZ. apply Rfloor_IZR. Qed.

Lemma Rceil_INR n : Rceil (INR n) = INR n.
Proof. rewrite INR_IZR_INZ. apply Rceil_IZR. Qed.

Lemma Rfloor_INR_plus n t : 0 <= t < 1 -> Rfloor (INR n + t) = INR n.
Proof. intros H. rewrite INR_IZR_INZ. apply Rfloor_unique. lra. Qed.

Lemma Rceil_INR_plus n t : 0 < t <= 1 -> Rceil (INR n + t) = INR (S n).
Proof.
  intros H. rewrite (INR_IZR_INZ (S n)). apply Rceil_unique.
  rewrite <- INR_IZR_INZ, S_INR. lra.
Qed.

Lemma Int_part_IZR k : Int_part (IZR k) = k.
Proof.
  pose proof (Rfloor_IZR k) as H. unfold Rfloor in H. now apply eq_IZR in H.
Qed.

Lemma usize_of_INR n : usize_of (INR n) = n.
Proof. unfold usize_of. rewrite INR_IZR_INZ, Int_part_IZR. apply Nat2Z.id. Qed.

Lemma usize_of_IZR k : usize_of (IZR k) = Z.to_nat k.
Proof. unfold usize_of. now rewrite Int_part_IZR. Qed.

Lemma vec_at_INR v n : vec_at v (INR n) = nth n v 0.
Proof. unfold vec_at. now rewrite usize_of_INR. Qed.

Lemma vec_at_IZR v k : vec_at v (IZR k) = nth (Z.to_nat k) v 0.
Proof. unfold vec_at. now rewrite usize_of_IZR. Qed.

(* a real that is the ceiling of a positive number is a positive natural number *)
Lemma Rceil_pos_nat x : 0 < x -> exists k : nat, (1 <= k)%nat /\ Rceil x = INR k.
Proof.
  intros Hx. pose proof (Rceil_spec x) as [H1 H2].
  unfold Rceil in *. set (m := (- Int_part (- x))%Z).
  assert (Hm : - IZR (Int_part (- x)) = IZR m) by (unfold m; now rewrite opp_IZR).
  rewrite Hm in *.
  assert (0 < m)%Z by (apply lt_IZR; lra).
  exists (Z.to_nat m). split; [lia|].
  rewrite INR_IZR_INZ, Z2Nat.id; [reflexivity | lia].
Qed.
