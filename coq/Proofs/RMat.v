(* A small matrix calculus over index functions nat -> nat -> R, with equality on the index range {0..n-1}^2 as a
   setoid, so that trace identities (cyclicity, transposition, orthogonal factorisations) are proved by rewriting. *)
From Coq Require Import Reals Lra Lia Arith Setoid Morphisms.
From SpdVerif Require Import Model.FinSum Proofs.FinSum_lemmas.
Local Open Scope R_scope.

Definition mat := nat -> nat -> R.
Definition meq (n : nat) (A B : mat) : Prop := forall i j, (i < n)%nat -> (j < n)%nat -> A i j = B i j.
Definition mmul (n : nat) (A B : mat) : mat := fun i j => rsum n (fun k => A i k * B k j).
Definition mT (A : mat) : mat := fun i j => A j i.
Definition mtr (n : nat) (A : mat) : R := rsum n (fun i => A i i).
Definition mI : mat := fun i j => if Nat.eqb i j then 1 else 0.
Definition mdiag (d : nat -> R) : mat := fun i j => if Nat.eqb i j then d i else 0.

Global Instance meq_equiv n : Equivalence (meq n).
Proof.
  split.
  - intros A i j _ _; reflexivity.
  - intros A B H i j Hi Hj; symmetry; apply H; assumption.
  - intros A B C H1 H2 i j Hi Hj; rewrite H1, H2 by assumption; reflexivity.
Qed.

Global Instance mmul_proper n : Proper (meq n ==> meq n ==> meq n) (mmul n).
Proof.
  intros A A' HA B B' HB i j Hi Hj. unfold mmul. apply rsum_ext. intros k Hk.
  rewrite HA, HB by assumption. reflexivity.
Qed.

Global Instance mT_proper n : Proper (meq n ==> meq n) mT.
Proof. intros A A' HA i j Hi Hj. unfold mT. apply HA; assumption. Qed.

Global Instance mtr_proper n : Proper (meq n ==> eq) (mtr n).
Proof. intros A A' HA. unfold mtr. apply rsum_ext. intros i Hi. apply HA; assumption. Qed.

Lemma mmul_assoc n A B C : meq n (mmul n (mmul n A B) C) (mmul n A (mmul n B C)).
Proof.
  intros i j _ _. unfold mmul.
  transitivity (rsum n (fun l => rsum n (fun k => A i k * B k l * C l j))).
  - apply rsum_ext; intros l _. rewrite <- rsum_scal_r. reflexivity.
  - rewrite rsum_switch. apply rsum_ext; intros k _. rewrite <- rsum_scal_l.
    apply rsum_ext; intros l _. ring.
Qed.

Lemma mtr_comm n A B : mtr n (mmul n A B) = mtr n (mmul n B A).
Proof.
  unfold mtr, mmul. rewrite rsum_switch. apply rsum_ext; intros k _. apply rsum_ext; intros i _. ring.
Qed.

Lemma mT_mmul n A B : meq n (mT (mmul n A B)) (mmul n (mT B) (mT A)).
Proof. intros i j _ _. unfold mT, mmul. apply rsum_ext; intros k _. ring. Qed.

Lemma mT_mT n A : meq n (mT (mT A)) A.
Proof. intros i j _ _. reflexivity. Qed.

Lemma mmul_I_r n A : meq n (mmul n A mI) A.
Proof.
  intros i j Hi Hj. unfold mmul, mI.
  rewrite <- (rsum_delta_l n j (fun k => A i k) Hj). apply rsum_ext; intros k _. ring.
Qed.

Lemma mmul_I_l n A : meq n (mmul n mI A) A.
Proof.
  intros i j Hi Hj. unfold mmul, mI.
  rewrite <- (rsum_delta_r n i (fun k => A k j) Hi). reflexivity.
Qed.

Lemma mT_diag n d : meq n (mT (mdiag d)) (mdiag d).
Proof.
  intros i j _ _. unfold mT, mdiag. rewrite (Nat.eqb_sym j i).
  destruct (Nat.eqb i j) eqn:E; [apply Nat.eqb_eq in E; subst; reflexivity|reflexivity].
Qed.

Lemma mdiag_mul n d e : meq n (mmul n (mdiag d) (mdiag e)) (mdiag (fun k => d k * e k)).
Proof.
  intros i j Hi Hj. unfold mmul, mdiag.
  transitivity (rsum n (fun k => (if Nat.eqb i k then 1 else 0) * (d i * (if Nat.eqb k j then e k else 0)))).
  - apply rsum_ext; intros k _. destruct (Nat.eqb i k); ring.
  - rewrite (rsum_delta_r n i (fun k => d i * (if Nat.eqb k j then e k else 0)) Hi).
    destruct (Nat.eqb i j); ring.
Qed.

Lemma mtr_diag n d : mtr n (mdiag d) = rsum n d.
Proof. unfold mtr, mdiag. apply rsum_ext; intros i _. rewrite Nat.eqb_refl. reflexivity. Qed.

Lemma mtr_mmul_sym n A B : mtr n (mmul n A B) = rsum n (fun i => rsum n (fun k => A i k * B k i)).
Proof. reflexivity. Qed.
