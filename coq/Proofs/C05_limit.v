(* C05 — zero-diffraction closed form of the GENERATED closure [pm_closure] (all 1/k coefficients Cs, Ci, Ds, Di, m and the
   imaginary parts of As, Ai, Bs, Bi, mx, my set to zero; collinear: A5 = A7 = 0), modulus, and the delta-k bookkeeping. *)
From Coq Require Import Reals Lra Psatz QArith.
From Coquelicot Require Import Coquelicot.
From SpdVerif Require Import Base.Rx Base.CxPM Model.PMParams Gen.PMIntegrand Proofs.C06_algebra Proofs.C06_swap Proofs.C06_defined
  Proofs.C05_closure.
Local Open Scope R_scope.

Lemma C_pair_eq (a b c d : R) : a = c -> b = d -> (a, b) = ((c, d) : C).
Proof. intros -> ->. reflexivity. Qed.

Section ZeroDiffraction.
  (* wx = Wx^2, wy = Wy^2 (pump), ss = Ws_SQ, si = Wi_SQ (collection modes), nn = 0.5 L tan(rho), psi_h = constant phase of hh *)
  Variables (apod : R -> R) (wx wy ss si nn psi_h ee ff z : R).
  Hypothesis Hss : 0 < ss.
  Hypothesis Hsi : 0 < si.
  Hypothesis Hwx : 0 <= wx.
  Hypothesis Hwy : 0 <= wy.

  Definition Sig (w : R) : R := w * ss + w * si + ss * si.

  Lemma Sig_pos w : 0 <= w -> 0 < Sig w.
  Proof. intros Hw. unfold Sig. assert (0 < ss * si) by (apply Rmult_lt_0_compat; assumption). nra. Qed.

  Let A1 : C := RtoC (- (wx + ss) / 4).
  Let A3 : C := RtoC (- (wx + si) / 4).
  Let A2 : C := RtoC (- (wy + ss) / 4).
  Let A4 : C := RtoC (- (wy + si) / 4).
  Let A8 : C := RtoC (- wx / 2).
  Let A9 : C := RtoC (- wy / 2).

  Lemma zd_det1 : pm_det A1 A3 A8 = RtoC (Sig wx / 4).
  Proof.
    unfold pm_det, A1, A3, A8, Sig, Cminus, Cplus, Copp, Cmult, RtoC; cbn [fst snd]. apply C_pair_eq; field.
  Qed.
  Lemma zd_det2 : pm_det A2 A4 A9 = RtoC (Sig wy / 4).
  Proof.
    unfold pm_det, A2, A4, A9, Sig, Cminus, Cplus, Copp, Cmult, RtoC; cbn [fst snd]. apply C_pair_eq; field.
  Qed.

  Lemma RtoC_neq_0 x : x <> 0 -> RtoC x <> RtoC 0.
  Proof. intros H E. apply H. apply (f_equal fst) in E. exact E. Qed.

  (* the closed form *)
  Theorem closure_zero_diffraction :
    pm_closure apod 1 A1 A3 A2 A4 0 0 0 0 A8 A9 0 nn (0, psi_h) (RtoC 0) (RtoC 0) (RtoC 0) ee ff z =
    Cmult (RtoC (apod z * (4 / sqrt (Sig wx * Sig wy)) * exp (- (nn * nn * (ss + si) / Sig wy) * ((1 + z) * (1 + z)))))
          (Cexp (0, psi_h + ee + ff * z)).
  Proof.
    pose proof (Sig_pos wx Hwx) as HSx. pose proof (Sig_pos wy Hwy) as HSy.
    unfold pm_closure. cbv zeta.
    (* the z-dependent coefficients collapse to the real constants *)
    assert (E0 : forall c : C, Cplus c (0, (0 + 0 * z) * 1 / 1) = c).
    { intros [x y]. unfold Cplus; cbn [fst snd]. apply C_pair_eq; field. }
    rewrite !E0.
    assert (Em : forall c : C, Cminus c (0, 0 * z * 1 / 1) = c).
    { intros [x y]. unfold Cminus, Cplus, Copp; cbn [fst snd]. apply C_pair_eq; field. }
    rewrite !Em.
    set (A6 := ((0, nn / 1 * (1 + z)) : C)).
    set (A10 := Cplus (0, psi_h) (0, (ee + ff * z) / 1)).
    (* exponent *)
    assert (Hd1 : pm_det A1 A3 A8 <> RtoC 0) by (rewrite zd_det1; apply RtoC_neq_0; lra).
    assert (Hd2 : pm_det A2 A4 A9 <> RtoC 0) by (rewrite zd_det2; apply RtoC_neq_0; lra).
    assert (H1 : A1 <> RtoC 0) by (apply RtoC_neq_0; lra).
    assert (H2 : A2 <> RtoC 0) by (apply RtoC_neq_0; lra).
    change (Cminus (Cmult (Cmult (RtoC 4) A1) A3) (Cmult A8 A8)) with (pm_det A1 A3 A8).
    change (Cminus (Cmult (Cmult (RtoC 4) A2) A4) (Cmult A9 A9)) with (pm_det A2 A4 A9).
    match goal with |- context [Cexp ?e] =>
      replace e with (pm_expo A1 A2 A3 A4 (RtoC 0) A6 (RtoC 0) A8 A9 A10)
    end.
    2:{ unfold pm_expo, pm_det. replace (Cmult (RtoC 0) (RtoC 0)) with (RtoC 0); [reflexivity|].
        unfold Cmult, RtoC; cbn [fst snd]. apply C_pair_eq; ring. }
    rewrite pm_expo_collinear by assumption.
    rewrite zd_det1, zd_det2.
    (* the exponent as a pair of reals *)
    assert (Ee : Cminus A10 (Cdiv (Cmult (Cmult A6 A6) (Cminus (Cplus A2 A4) A9)) (RtoC (Sig wy / 4))) =
                 Cplus (RtoC (- (nn * nn * (ss + si) / Sig wy) * ((1 + z) * (1 + z)))) (0, psi_h + ee + ff * z)).
    { unfold A10, A6, A2, A4, A9, Cminus, Cplus, Copp, Cdiv, Cinv, Cmult, RtoC; cbn [fst snd]. apply C_pair_eq; field; lra. }
    rewrite Ee, Cexp_plus, Cexp_real.
    (* the denominator *)
    assert (Ed : Cmult (RtoC (Sig wx / 4)) (RtoC (Sig wy / 4)) = RtoC (Sig wx * Sig wy / 16)).
    { rewrite <- RtoC_mult. f_equal. field. }
    rewrite Ed, Csqrt_real_nonneg by nra.
    assert (Hsq : sqrt (Sig wx * Sig wy / 16) = sqrt (Sig wx * Sig wy) / 4).
    { replace (Sig wx * Sig wy / 16) with (Sig wx * Sig wy * (/ 4 * / 4)) by field.
      rewrite sqrt_mult by nra. rewrite sqrt_square by lra. field. }
    rewrite Hsq.
    assert (Hs0 : sqrt (Sig wx * Sig wy) <> 0).
    { apply Rgt_not_eq, sqrt_lt_R0. nra. }
    set (sq := sqrt (Sig wx * Sig wy)) in *.
    set (ex := exp _). set (ph := Cexp (0, _)). destruct ph as [pr pi].
    unfold Cdiv, Cinv, Cmult, RtoC; cbn [fst snd]. apply C_pair_eq; field; assumption.
  Qed.

  (* modulus: |integrand| = |apod| (4 / sqrt(Sigma_x Sigma_y)) exp(-a^2 (1+z)^2) *)
  Corollary closure_zero_diffraction_modulus :
    Cmod (pm_closure apod 1 A1 A3 A2 A4 0 0 0 0 A8 A9 0 nn (0, psi_h) (RtoC 0) (RtoC 0) (RtoC 0) ee ff z) =
    Rabs (apod z) * (4 / sqrt (Sig wx * Sig wy)) * exp (- (nn * nn * (ss + si) / Sig wy) * ((1 + z) * (1 + z))).
  Proof.
    pose proof (Sig_pos wx Hwx) as HSx. pose proof (Sig_pos wy Hwy) as HSy.
    rewrite closure_zero_diffraction, Cmod_mult, Cmod_Cexp, Cmod_R. cbn [fst]. rewrite exp_0, Rmult_1_r.
    rewrite !Rabs_mult. rewrite (Rabs_pos_eq (exp _)) by (left; apply exp_pos).
    rewrite (Rabs_pos_eq (4 / _)); [reflexivity|].
    apply Rlt_le, Rdiv_lt_0_compat; [lra | apply sqrt_lt_R0; nra].
  Qed.
End ZeroDiffraction.

(* ---- what the coefficients of a collinear setup are, in these terms (generated definitions): the real parts are exactly the
   zero-diffraction values; what is dropped in the limit are DEL2s, DEL2i (waist position / k), Cs, Ci, Ds, Di, m (L / k). *)
Theorem collinear_coefficients p z :
  pm_collinear p ->
  fst (pm_A1 p z) = - (pm_Wx_SQ p + pm_Ws_SQ p) / 4 /\ fst (pm_A3 p z) = - (pm_Wx_SQ p + pm_Wi_SQ p) / 4 /\
  fst (pm_A2 p z) = - (pm_Wy_SQ p + pm_Ws_SQ p) / 4 /\ fst (pm_A4 p z) = - (pm_Wy_SQ p + pm_Wi_SQ p) / 4 /\
  fst (pm_A8 p z) = - pm_Wx_SQ p / 2 /\ fst (pm_A9 p z) = - pm_Wy_SQ p / 2 /\
  pm_A5 p = RtoC 0 /\ pm_A7 p = RtoC 0 /\
  pm_A6 p z = (0, pm_n p * (1 + z)) /\
  pm_A10 p z = (0, pm_ks_f p * p_z0s p + pm_ki_f p * p_z0i p + pm_ee p + pm_ff p * z) /\
  snd (pm_A1 p z) = - pm_DEL2s p + (pm_Cs p + pm_Ds p * z) /\ snd (pm_A3 p z) = - pm_DEL2i p + (pm_Ci p + pm_Di p * z) /\
  snd (pm_A2 p z) = - pm_DEL2s p + (pm_Cs p + pm_Ds p * z) /\ snd (pm_A4 p z) = - pm_DEL2i p + (pm_Ci p + pm_Di p * z) /\
  snd (pm_A8 p z) = - (pm_m p * z) /\ snd (pm_A9 p z) = - (pm_m p * z).
Proof.
  intros Hc.
  repeat split.
  - unfold pm_A1. rewrite (col_As p Hc). unfold pm_CsDs, Cplus; cbn [fst snd]. dec_norm. field.
  - unfold pm_A3. rewrite (col_Ai p Hc). unfold pm_CiDi, Cplus; cbn [fst snd]. dec_norm. field.
  - unfold pm_A2, pm_Bs, pm_CsDs, pm_GAM2s, pm_M2, Cplus; cbn [fst snd]. dec_norm. field.
  - unfold pm_A4, pm_Bi, pm_CiDi, pm_GAM2i, pm_M2, Cplus; cbn [fst snd]. dec_norm. field.
  - unfold pm_A8, pm_mx, pm_mz, pm_M2, Cminus, Cplus, Copp; cbn [fst snd]. dec_norm. field.
  - unfold pm_A9, pm_my, pm_mz, pm_M2, Cminus, Cplus, Copp; cbn [fst snd]. dec_norm. field.
  - apply col_A5, Hc.
  - apply col_A7, Hc.
  - unfold pm_A6. apply C_pair_eq; field.
  - unfold pm_A10. rewrite (col_hh p Hc). unfold Cplus; cbn [fst snd]. apply C_pair_eq; field.
  - unfold pm_A1. rewrite (col_As p Hc). unfold pm_CsDs, pm_Ds_z, pm_M2, Cplus; cbn [fst snd]. field.
  - unfold pm_A3. rewrite (col_Ai p Hc). unfold pm_CiDi, pm_Di_z, pm_M2, Cplus; cbn [fst snd]. field.
  - unfold pm_A2, pm_Bs, pm_CsDs, pm_Ds_z, pm_M2, Cplus; cbn [fst snd]. field.
  - unfold pm_A4, pm_Bi, pm_CiDi, pm_Di_z, pm_M2, Cplus; cbn [fst snd]. field.
  - unfold pm_A8, pm_mx, pm_mz, pm_z0, pm_M2, Cminus, Cplus, Copp; cbn [fst snd]. unfold Rdiv. rewrite Rinv_mult, Rinv_1. ring.
  - unfold pm_A9, pm_my, pm_mz, pm_z0, pm_M2, Cminus, Cplus, Copp; cbn [fst snd]. unfold Rdiv. rewrite Rinv_mult, Rinv_1. ring.
Qed.

(* delta-k bookkeeping: the linear phase coefficient is ff = (L / 2) (k_p - k_s - k_i - k_eff), with the pump wavenumber evaluated at
   omega_s + omega_i (index of the pump AT omega_s + omega_i), signal/idler wavenumbers at their own frequencies *)
Theorem delta_k_bookkeeping p :
  pm_ff p = 0.5 * p_L p * (pm_k_p p - pm_k_s p - pm_k_i p - p_k_eff p) /\
  pm_k_p p = p_n_p p * (p_omega_s p + p_omega_i p) / 299792458 /\
  pm_k_s p = signum (p_dirz_s p) * (p_n_s p * p_omega_s p / 299792458) /\
  pm_k_i p = signum (p_dirz_i p) * (p_n_i p * p_omega_i p / 299792458).
Proof.
  repeat split; try reflexivity. unfold pm_ff, pm_dksi. ring.
Qed.

(* the walk-off length of the closure is (L/2) tan(rho) for EVERY walk-off angle, of either sign *)
Lemma walkoff_length p : pm_n p = 0.5 * p_L p * tan (p_rho p).
Proof. unfold pm_n. replace (p_rho p / 1) with (p_rho p) by field. reflexivity. Qed.

(* an instance of the zero-diffraction closed form at concrete values (2 mm / 3 mm / 2.5 mm waists, walk-off length 0.07 mm): its
   hypotheses are satisfiable *)
Lemma zero_diffraction_instance z :
  Cmod (pm_closure (fun _ => 1) 1 (RtoC (- (6.25e-6 + 4e-6) / 4)) (RtoC (- (6.25e-6 + 9e-6) / 4)) (RtoC (- (6.25e-6 + 4e-6) / 4))
                   (RtoC (- (6.25e-6 + 9e-6) / 4)) 0 0 0 0 (RtoC (- (6.25e-6) / 2)) (RtoC (- (6.25e-6) / 2)) 0 0.00007 (0, 0.3)
                   (RtoC 0) (RtoC 0) (RtoC 0) 1.5 2 z) =
  Rabs 1 * (4 / sqrt (Sig 4e-6 9e-6 6.25e-6 * Sig 4e-6 9e-6 6.25e-6)) *
  exp (- (0.00007 * 0.00007 * (4e-6 + 9e-6) / Sig 4e-6 9e-6 6.25e-6) * ((1 + z) * (1 + z))).
Proof.
  exact (closure_zero_diffraction_modulus (fun _ => 1) 6.25e-6 6.25e-6 4e-6 9e-6 0.00007 0.3 1.5 2 z ltac:(lra) ltac:(lra) ltac:(lra) ltac:(lra)).
Qed.
