(* C14 / C15 — rounding-error bounds for the float evaluation of the generated grid formulas.
   1. one evaluation of Steps::value: |fl - exact| <= 4 u max(|start|,|end|), u = 2^-53 (FLX-53, i.e. binary64 absent
      overflow/underflow; and for binary64 = FLT(-1074,53) under the explicit guard that the four rounded intermediates are
      zero or normal);
   2. any split tree of the 1-D producer: every delivered value is within ((1+4u)^(depth+1) - 1) max(|start|,|end|) of the
      sequential real value. *)
From Coq Require Import List Arith Bool Lia Reals Lra ZArith.
From Flocq Require Import Core Relative.
From Interval Require Import Tactic.
From SpdVerif Require Import Base.GridOps Gen.Grid Model.Grid Model.Producer Model.C15_Float
  Proofs.C14_iter Proofs.C14_steps Proofs.C15_generic Proofs.C15_inst.
Import ListNotations.
Local Open Scope R_scope.

Lemma u53_val : u53 = / 9007199254740992.
Proof. unfold u53. simpl bpow. unfold Z.pow_pos; simpl. lra. Qed.
Lemma u53_pos : 0 < u53.
Proof. rewrite u53_val. lra. Qed.

Lemma rndX_rel x : exists d, Rabs d <= u53 /\ rndX x = x * (1 + d).
Proof. apply (relative_error_N_FLX_ex radix2 53 ltac:(lia) (fun z => negb (Z.even z)) x). Qed.

Lemma rndX_int z : (Z.abs z < 2 ^ 53)%Z -> rndX (IZR z) = IZR z.
Proof.
  intros H. unfold rndX. apply round_generic; [apply valid_rnd_N|].
  apply generic_format_FLX. apply (FLX_spec radix2 53 (IZR z) (Float radix2 z 0)).
  - unfold F2R; simpl. ring.
  - simpl. exact H.
Qed.

Lemma rnd64_rndX x : normal_or_zero x -> rnd64 x = rndX x.
Proof.
  intros [->|H].
  - unfold rnd64, rndX. rewrite !round_0; [reflexivity | apply valid_rnd_N | apply valid_rnd_N].
  - unfold rnd64, rndX. apply round_FLT_FLX. exact H.
Qed.

(* ---------------------------------------------------------------------------------------------- pure real algebra *)
Lemma three_factor d1 d2 d3 : Rabs d1 <= u53 -> Rabs d2 <= u53 -> Rabs d3 <= u53 ->
  Rabs ((1 + d1) * (1 + d2) * (1 + d3) - 1) <= 4 * u53.
Proof. rewrite u53_val. intros H1 H2 H3. interval with (i_prec 200). Qed.

Definition Mx (s e : R) : R := Rmax (Rabs s) (Rabs e).

Lemma convex_abs a b t : 0 <= t <= 1 -> Rabs (a * (1 - t) + b * t) <= Rmax (Rabs a) (Rabs b).
Proof.
  intros Ht. eapply Rle_trans; [apply Rabs_triang|]. rewrite !Rabs_mult.
  rewrite (Rabs_pos_eq (1 - t)) by lra. rewrite (Rabs_pos_eq t) by lra.
  pose proof (Rmax_l (Rabs a) (Rabs b)). pose proof (Rmax_r (Rabs a) (Rabs b)).
  pose proof (Rabs_pos a). pose proof (Rabs_pos b). nra.
Qed.

(* [s (1-t)(1+d1) + e t (1+d2)] (1+d3)(1+d4)  versus  s (1-t) + e t *)
Lemma eval_bound s e t d1 d2 d3 d4 : 0 <= t <= 1 ->
  Rabs d1 <= u53 -> Rabs d2 <= u53 -> Rabs d3 <= u53 -> Rabs d4 <= u53 ->
  Rabs ((s * (1 - t) * (1 + d1) + e * t * (1 + d2)) * (1 + d3) * (1 + d4) - (s * (1 - t) + e * t)) <= 4 * u53 * Mx s e.
Proof.
  intros Ht H1 H2 H3 H4.
  set (th1 := (1 + d1) * (1 + d3) * (1 + d4) - 1). set (th2 := (1 + d2) * (1 + d3) * (1 + d4) - 1).
  replace ((s * (1 - t) * (1 + d1) + e * t * (1 + d2)) * (1 + d3) * (1 + d4) - (s * (1 - t) + e * t))
    with (s * (1 - t) * th1 + e * t * th2) by (unfold th1, th2; ring).
  assert (T1 : Rabs th1 <= 4 * u53) by (apply three_factor; assumption).
  assert (T2 : Rabs th2 <= 4 * u53) by (apply three_factor; assumption).
  eapply Rle_trans; [apply Rabs_triang|]. rewrite !Rabs_mult.
  rewrite (Rabs_pos_eq (1 - t)) by lra. rewrite (Rabs_pos_eq t) by lra.
  unfold Mx. pose proof (Rmax_l (Rabs s) (Rabs e)). pose proof (Rmax_r (Rabs s) (Rabs e)).
  pose proof (Rabs_pos s). pose proof (Rabs_pos e). pose proof (Rabs_pos th1). pose proof (Rabs_pos th2). pose proof u53_pos.
  set (M := Rmax (Rabs s) (Rabs e)) in *.
  assert (A1 : Rabs s * (1 - t) * Rabs th1 <= M * (1 - t) * (4 * u53)).
  { apply Rmult_le_compat; try nra; try (apply Rmult_le_compat; lra). }
  assert (A2 : Rabs e * t * Rabs th2 <= M * t * (4 * u53)).
  { apply Rmult_le_compat; try nra; try (apply Rmult_le_compat; lra). }
  lra.
Qed.

(* ---------------------------------------------------------------------------------------------- one evaluation *)
Lemma INR_int_exact k : (INR k < 9007199254740992) -> rndX (INR k) = INR k.
Proof.
  intros H. rewrite INR_IZR_INZ. apply rndX_int.
  rewrite INR_IZR_INZ in H. apply lt_IZR in H. change (2 ^ 53)%Z with 9007199254740992%Z. lia.
Qed.

(* the float evaluation of the GENERATED Steps::value (FLX-53 rounding of every operation) *)
Theorem steps_value_float_bound s e n i : (2 <= n)%nat -> (i <= n - 1)%nat -> INR (n - 1) < 9007199254740992 ->
  Rabs (steps_value FXops s e n i - steps_value Rops s e n i) <= 4 * u53 * Mx s e.
Proof.
  intros Hn Hi Hd. unfold steps_value. destruct (Nat.ltb_spec 1 n) as [_|]; [|lia].
  cbn [FXops Rops o_add o_sub o_mul o_div o_nat].
  pose proof (INR_pred_pos n Hn) as Hdp. set (d := INR (n - 1)) in *.
  assert (Ei : INR i <= d) by (apply le_INR; exact Hi).
  assert (E0 : 0 <= INR i) by apply pos_INR.
  assert (Esub : rndX (d - INR i) = d - INR i).
  { unfold d. rewrite <- minus_INR by exact Hi. apply INR_int_exact.
    eapply Rle_lt_trans; [|exact Hd]. apply le_INR. lia. }
  rewrite Esub.
  destruct (rndX_rel (s * (d - INR i))) as (d1 & H1 & ->).
  destruct (rndX_rel (e * INR i)) as (d2 & H2 & ->).
  destruct (rndX_rel (s * (d - INR i) * (1 + d1) + e * INR i * (1 + d2))) as (d3 & H3 & ->).
  destruct (rndX_rel ((s * (d - INR i) * (1 + d1) + e * INR i * (1 + d2)) * (1 + d3) / d)) as (d4 & H4 & ->).
  set (t := INR i / d).
  assert (Ht : 0 <= t <= 1).
  { assert (Hi' : 0 < / d) by (apply Rinv_0_lt_compat; lra).
    assert (Hone : d * / d = 1) by (apply Rinv_r; lra). unfold t, Rdiv. split; nra. }
  replace ((s * (d - INR i) * (1 + d1) + e * INR i * (1 + d2)) * (1 + d3) / d * (1 + d4) - (s * (d - INR i) + e * INR i) / d)
    with ((s * (1 - t) * (1 + d1) + e * t * (1 + d2)) * (1 + d3) * (1 + d4) - (s * (1 - t) + e * t))
    by (unfold t; field; lra).
  apply eval_bound; assumption.
Qed.

(* the same for binary64 proper (FLT_exp (-1074) 53), under the explicit no-underflow guard on the four rounded intermediates
   (the exact arguments of the four roundings are zero or at least 2^-1022 in magnitude) *)
Definition steps_value_guard (s e : R) (n i : nat) : Prop :=
  let d := INR (n - 1) in
  let p1 := rnd64 (s * (d - INR i)) in let p2 := rnd64 (e * INR i) in
  normal_or_zero (s * (d - INR i)) /\ normal_or_zero (e * INR i) /\ normal_or_zero (p1 + p2) /\ normal_or_zero (rnd64 (p1 + p2) / d).

Theorem steps_value_binary64_bound s e n i : (2 <= n)%nat -> (i <= n - 1)%nat -> INR (n - 1) < 9007199254740992 ->
  steps_value_guard s e n i ->
  Rabs (steps_value F64ops s e n i - steps_value Rops s e n i) <= 4 * u53 * Mx s e.
Proof.
  intros Hn Hi Hd (G1 & G2 & G3 & G4).
  assert (E : steps_value F64ops s e n i = steps_value FXops s e n i).
  { unfold steps_value. destruct (Nat.ltb_spec 1 n) as [_|]; [|lia].
    cbn [F64ops FXops o_add o_sub o_mul o_div o_nat].
    assert (Esub64 : rnd64 (INR (n - 1) - INR i) = INR (n - 1) - INR i).
    { rewrite <- minus_INR by exact Hi. rewrite INR_IZR_INZ. unfold rnd64. apply round_generic; [apply valid_rnd_N|].
      apply generic_format_FLT. apply (FLT_spec radix2 (-1074) 53 _ (Float radix2 (Z.of_nat (n - 1 - i)) 0)).
      - unfold F2R; simpl. ring.
      - simpl. assert (H : INR (n - 1 - i) < 9007199254740992) by (eapply Rle_lt_trans; [apply le_INR|exact Hd]; lia).
        rewrite INR_IZR_INZ in H. apply lt_IZR in H. change (2 ^ 53)%Z with 9007199254740992%Z. lia.
      - simpl. lia. }
    assert (EsubX : rndX (INR (n - 1) - INR i) = INR (n - 1) - INR i).
    { rewrite <- minus_INR by exact Hi. apply INR_int_exact. eapply Rle_lt_trans; [apply le_INR|exact Hd]. lia. }
    rewrite Esub64, EsubX.
    rewrite (rnd64_rndX _ G1) in *. rewrite (rnd64_rndX _ G2) in *. rewrite (rnd64_rndX _ G3) in *. rewrite (rnd64_rndX _ G4). reflexivity. }
  rewrite E. apply steps_value_float_bound; assumption.
Qed.

(* ---------------------------------------------------------------------------------------------- split trees *)
Fixpoint depth (t : tree) : nat :=
  match t with Leaf => 0%nat | Node _ l r => S (Nat.max (depth l) (depth r)) end.

Definition nextE (x : R) : R := x * (1 + 4 * u53) + 4 * u53.
Definition iterE (k : nat) (x : R) : R := Nat.iter k nextE x.

Lemma nextE_ge x : 0 <= x -> x <= nextE x.
Proof. intros H. unfold nextE. pose proof u53_pos. nra. Qed.
Lemma nextE_mono x y : x <= y -> nextE x <= nextE y.
Proof. intros H. unfold nextE. pose proof u53_pos. nra. Qed.
Lemma iterE_nonneg k x : 0 <= x -> 0 <= iterE k x.
Proof. intros H. induction k as [|k IH]; [exact H|]. cbn. eapply Rle_trans; [exact IH | apply nextE_ge; exact IH]. Qed.
Lemma iterE_le j k x : 0 <= x -> (j <= k)%nat -> iterE j x <= iterE k x.
Proof.
  intros Hx H. induction H as [|k H IH]; [lra|]. cbn. eapply Rle_trans; [exact IH|]. apply nextE_ge. apply iterE_nonneg; exact Hx.
Qed.
Lemma iterE_shift k x : iterE k (nextE x) = iterE (S k) x.
Proof.
  unfold iterE. induction k as [|k IH]; [reflexivity|].
  change (nextE (Nat.iter k nextE (nextE x)) = nextE (Nat.iter (S k) nextE x)). f_equal. exact IH.
Qed.
Lemma iterE_closed k : iterE k 0 = (1 + 4 * u53) ^ k - 1.
Proof.
  induction k as [|k IH]; [cbn; lra|].
  change (iterE (S k) 0) with (nextE (iterE k 0)). rewrite IH. unfold nextE. simpl pow. ring.
Qed.

(* over the reals Steps::value is a convex combination of its endpoints *)
Lemma steps_value_convex s e m i : (2 <= m)%nat ->
  steps_value Rops s e m i = s * (1 - INR i / INR (m - 1)) + e * (INR i / INR (m - 1)).
Proof.
  intros Hm. unfold steps_value. destruct (Nat.ltb_spec 1 m) as [_|]; [|lia].
  cbn [Rops o_add o_sub o_mul o_div o_nat]. pose proof (INR_pred_pos m Hm). field. lra.
Qed.
Lemma frac_01 m i : (2 <= m)%nat -> (i <= m - 1)%nat -> 0 <= INR i / INR (m - 1) <= 1.
Proof.
  intros Hm Hi. pose proof (INR_pred_pos m Hm) as Hd. pose proof (pos_INR i). apply le_INR in Hi.
  assert (Hi' : 0 < / INR (m - 1)) by (apply Rinv_0_lt_compat; lra).
  assert (Hone : INR (m - 1) * / INR (m - 1) = 1) by (apply Rinv_r; lra). unfold Rdiv. split; nra.
Qed.

Section FloatTree.
Variables (s e : R) (n : nat).
Hypothesis Hbig : INR (n - 1) < 9007199254740992.

Let M := Mx s e.
Let v := steps_value Rops s e n.
Let D := prod1d FXops.

Lemma M_nonneg : 0 <= M.
Proof. unfold M, Mx. eapply Rle_trans; [apply Rabs_pos | apply Rmax_l]. Qed.

Lemma v_bound j : (1 <= n)%nat -> (j <= n - 1)%nat -> Rabs (v j) <= M.
Proof.
  intros Hn Hj. destruct (Nat.le_gt_cases 2 n) as [H2|H2].
  - unfold v. rewrite steps_value_convex by exact H2. apply convex_abs. apply frac_01; assumption.
  - assert (n = 1)%nat by lia. subst n. unfold v. rewrite steps_value_single. apply Rmax_l.
Qed.

Definition InvE (eps : R) (p : R * R * nat) (a b : nat) : Prop :=
  let '(s', e', m) := p in
  m = (b - a)%nat /\ (a <= b)%nat /\ (b <= n)%nat /\
  ((1 <= m)%nat -> Rabs (s' - v a) <= eps * M) /\ ((2 <= m)%nat -> Rabs (e' - v (b - 1)) <= eps * M).

Lemma value_err eps s' e' m a b i : 0 <= eps -> InvE eps (s', e', m) a b -> (i < m)%nat ->
  Rabs (steps_value FXops s' e' m i - v (a + i)) <= nextE eps * M.
Proof.
  intros He (Hm & Hab & Hbn & Hs & Hend) Hi. pose proof M_nonneg as HM. pose proof u53_pos as Hu.
  destruct (Nat.le_gt_cases 2 m) as [H2|H2].
  - specialize (Hs ltac:(lia)). specialize (Hend H2).
    assert (Hva : Rabs (v a) <= M) by (apply v_bound; lia).
    assert (Hvb : Rabs (v (b - 1)) <= M) by (apply v_bound; lia).
    assert (Hs' : Rabs s' <= (1 + eps) * M).
    { replace s' with ((s' - v a) + v a) by ring. eapply Rle_trans; [apply Rabs_triang|]. lra. }
    assert (He' : Rabs e' <= (1 + eps) * M).
    { replace e' with ((e' - v (b - 1)) + v (b - 1)) by ring. eapply Rle_trans; [apply Rabs_triang|]. lra. }
    assert (HMx : Mx s' e' <= (1 + eps) * M) by (unfold Mx; apply Rmax_lub; assumption).
    assert (F : Rabs (steps_value FXops s' e' m i - steps_value Rops s' e' m i) <= 4 * u53 * Mx s' e').
    { apply steps_value_float_bound; [exact H2 | lia |]. eapply Rle_lt_trans; [apply le_INR | exact Hbig]. lia. }
    assert (A : v (a + i) = steps_value Rops (v a) (v (b - 1)) m i).
    { unfold v. replace (b - 1)%nat with (a + m - 1)%nat by lia. symmetry. apply sub_affine; lia. }
    assert (P : Rabs (steps_value Rops s' e' m i - steps_value Rops (v a) (v (b - 1)) m i) <= eps * M).
    { rewrite !steps_value_convex by exact H2.
      set (t := INR i / INR (m - 1)).
      replace (s' * (1 - t) + e' * t - (v a * (1 - t) + v (b - 1) * t)) with ((s' - v a) * (1 - t) + (e' - v (b - 1)) * t) by ring.
      eapply Rle_trans; [apply convex_abs; apply frac_01; lia|]. apply Rmax_lub; assumption. }
    rewrite A.
    replace (steps_value FXops s' e' m i - steps_value Rops (v a) (v (b - 1)) m i)
      with ((steps_value FXops s' e' m i - steps_value Rops s' e' m i) + (steps_value Rops s' e' m i - steps_value Rops (v a) (v (b - 1)) m i)) by ring.
    eapply Rle_trans; [apply Rabs_triang|]. unfold nextE.
    assert (4 * u53 * Mx s' e' <= 4 * u53 * ((1 + eps) * M)) by (apply Rmult_le_compat_l; lra).
    nra.
  - assert (Em : m = 1%nat) by lia. assert (Ei : i = 0%nat) by lia. rewrite Em, Ei, Nat.add_0_r.
    change (steps_value FXops s' e' 1 0) with s'. specialize (Hs ltac:(lia)).
    eapply Rle_trans; [exact Hs|]. apply Rmult_le_compat_r; [exact HM | apply nextE_ge; exact He].
Qed.

Lemma InvE_weaken eps eps' p a b : eps <= eps' -> InvE eps p a b -> InvE eps' p a b.
Proof.
  destruct p as [[s' e'] m]. intros H (Hm & Hab & Hbn & Hs & He). pose proof M_nonneg.
  repeat split; try assumption.
  - intros H1. eapply Rle_trans; [apply Hs; exact H1|]. nra.
  - intros H2. eapply Rle_trans; [apply He; exact H2|]. nra.
Qed.

Lemma split_err eps p a b k : 0 <= eps -> InvE eps p a b -> (1 <= k <= b - a)%nat ->
  exists pl pr, p_split D p k = Ok (pl, pr) /\ InvE (nextE eps) pl a (a + k) /\ InvE (nextE eps) pr (a + k) b.
Proof.
  destruct p as [[s' e'] m]. intros He H Hk. pose proof H as (Hm & Hab & Hbn & Hs & Hend).
  unfold D, prod1d; cbn [p_split].
  rewrite (proj2 (Nat.leb_le 1 k)) by lia. rewrite (proj2 (Nat.leb_le k m)) by lia. cbn [andb].
  change (par1d_split_at FXops s' e' m k)
    with ((s', steps_value FXops s' e' m (k - 1), k), (steps_value FXops s' e' m k, e', (m - k)%nat)).
  exists (s', steps_value FXops s' e' m (k - 1), k), (steps_value FXops s' e' m k, e', (m - k)%nat).
  split; [reflexivity|]. pose proof M_nonneg as HM. pose proof (nextE_ge eps He) as Hge.
  split; unfold InvE.
  - repeat split; try lia.
    + intros _. eapply Rle_trans; [apply Hs; lia|]. nra.
    + intros Hk2. pose proof (value_err eps s' e' m a b (k - 1) He H ltac:(lia)) as V.
      replace (a + (k - 1))%nat with (a + k - 1)%nat in V by lia. exact V.
  - repeat split; try lia.
    + intros H1. apply (value_err eps s' e' m a b k He H). lia.
    + intros H2. eapply Rle_trans; [apply Hend; lia|]. nra.
Qed.

Theorem run_float_err : forall t eps p a b, 0 <= eps -> InvE eps p a b -> admissible 1 t (b - a) ->
  exists l, run D t p = Ok l /\ length l = (b - a)%nat /\
    forall i, (i < b - a)%nat -> Rabs (nth i l 0 - v (a + i)) <= iterE (S (depth t)) eps * M.
Proof.
  induction t as [|k l IHl r IHr]; intros eps p a b He HI Hadm.
  - destruct p as [[s' e'] m]. cbn [run]. unfold D, prod1d; cbn [p_items]. rewrite collect1d_seq.
    assert (Hm : m = (b - a)%nat) by (destruct HI as (Hm & _); exact Hm).
    eexists; split; [reflexivity|]. split; [rewrite seq1d_length; exact Hm|].
    intros i Hi. unfold seq1d, steps_len.
    rewrite (nth_indep _ 0 (steps_value FXops s' e' m 0)) by (rewrite map_length, seq_length; lia).
    rewrite (map_nth (steps_value FXops s' e' m) (seq 0 m) 0%nat), seq_nth by lia. cbn [plus depth iterE Nat.iter].
    apply (value_err eps s' e' m a b i He HI). lia.
  - cbn [admissible] in Hadm. destruct Hadm as (Hk & Hl & Hr).
    destruct (split_err eps p a b k He HI Hk) as (pl & pr & Es & Il & Ir).
    pose proof (Rle_trans _ _ _ He (nextE_ge eps He)) as He'.
    destruct (IHl (nextE eps) pl a (a + k)%nat He' Il) as (la & Ea & La & Ba); [replace (a + k - a)%nat with k by lia; exact Hl|].
    destruct (IHr (nextE eps) pr (a + k)%nat b He' Ir) as (lb & Eb & Lb & Bb); [replace (b - (a + k))%nat with (b - a - k)%nat by lia; exact Hr|].
    cbn [run]. rewrite Es; cbn [obind fst snd]. rewrite Ea, Eb; cbn [obind].
    eexists; split; [reflexivity|]. split; [rewrite app_length; lia|].
    intros i Hi. pose proof M_nonneg as HM. cbn [depth].
    destruct (Nat.lt_ge_cases i k) as [Hik|Hik].
    + rewrite app_nth1 by lia. eapply Rle_trans; [apply Ba; lia|].
      apply Rmult_le_compat_r; [exact HM|]. rewrite iterE_shift. apply iterE_le; [exact He | lia].
    + rewrite app_nth2 by lia. replace (length la) with k by lia.
      specialize (Bb (i - k)%nat ltac:(lia)). replace (a + k + (i - k))%nat with (a + i)%nat in Bb by lia.
      eapply Rle_trans; [exact Bb|]. apply Rmult_le_compat_r; [exact HM|]. rewrite iterE_shift. apply iterE_le; [exact He | lia].
Qed.

Lemma root_InvE : InvE 0 (root1d s e n) 0 n.
Proof.
  unfold root1d, InvE. repeat split; try lia.
  - intros H. unfold v. rewrite steps_value_first by exact H. rewrite Rminus_diag_eq by reflexivity. rewrite Rabs_R0. lra.
  - intros H. unfold v. rewrite steps_value_last by exact H. rewrite Rminus_diag_eq by reflexivity. rewrite Rabs_R0. lra.
Qed.

(* every value delivered by any admissible split tree, computed with every operation rounded (FLX-53), is within
   ((1+4u)^(depth+1) - 1) max(|s|,|e|) of the exact sequential value at the same position *)
Theorem run1d_float_bound t : admissible 1 t n ->
  exists l, run D t (root1d s e n) = Ok l /\ length l = n /\
    forall i, (i < n)%nat -> Rabs (nth i l 0 - steps_value Rops s e n i) <= ((1 + 4 * u53) ^ S (depth t) - 1) * Mx s e.
Proof.
  intros H. destruct (run_float_err t 0 (root1d s e n) 0%nat n (Rle_refl 0) root_InvE) as (l & E & L & B).
  - rewrite Nat.sub_0_r. exact H.
  - exists l. rewrite Nat.sub_0_r in L, B. repeat split; try assumption.
    intros i Hi. specialize (B i Hi). rewrite iterE_closed in B. exact B.
Qed.
End FloatTree.

(* numbers: depth <= 20 gives 1e-14, depth <= 64 (every tree rayon can build on a usize length) gives 3e-14 *)
Lemma depth_bound_numeric k : ((k <= 20)%nat -> (1 + 4 * u53) ^ S k - 1 <= 1e-14) /\ ((k <= 64)%nat -> (1 + 4 * u53) ^ S k - 1 <= 3e-14).
Proof.
  assert (Hb : 1 <= 1 + 4 * u53) by (pose proof u53_pos; lra).
  split; intros H.
  - eapply Rle_trans; [apply Rplus_le_compat_r; apply (Rle_pow _ (S k) 21 Hb); lia|]. rewrite u53_val. interval with (i_prec 200).
  - eapply Rle_trans; [apply Rplus_le_compat_r; apply (Rle_pow _ (S k) 65 Hb); lia|]. rewrite u53_val. interval with (i_prec 200).
Qed.

(* the binary64 guard is satisfiable: Steps(1, 2, 3).value(1) — every rounded intermediate (1, 2, 3, 1.5) is a normal number *)
Lemma rnd64_int z : (Z.abs z < 2 ^ 53)%Z -> rnd64 (IZR z) = IZR z.
Proof.
  intros H. unfold rnd64. apply round_generic; [apply valid_rnd_N|].
  apply generic_format_FLT. apply (FLT_spec radix2 (-1074) 53 _ (Float radix2 z 0)).
  - unfold F2R; simpl. ring.
  - simpl. exact H.
  - simpl. lia.
Qed.

Lemma normal_ge_one x : 1 <= Rabs x -> normal_or_zero x.
Proof.
  intros H. right. eapply Rle_trans; [|exact H].
  change 1 with (bpow radix2 0). apply bpow_le. lia.
Qed.

Example steps_value_guard_example : steps_value_guard 1 2 3 1.
Proof.
  unfold steps_value_guard. cbn zeta. change (INR (3 - 1)) with 2. change (INR 1) with 1.
  replace (1 * (2 - 1)) with (IZR 1) by (simpl; ring). replace (2 * 1) with (IZR 2) by (simpl; ring).
  rewrite (rnd64_int 1), (rnd64_int 2) by (simpl; lia).
  replace (IZR 1 + IZR 2) with (IZR 3) by (simpl; ring). rewrite (rnd64_int 3) by (simpl; lia).
  repeat split; apply normal_ge_one.
  - rewrite Rabs_pos_eq; simpl; lra.
  - rewrite Rabs_pos_eq; simpl; lra.
  - rewrite Rabs_pos_eq; simpl; lra.
  - rewrite Rabs_pos_eq; simpl; lra.
Qed.
