(* Non-vacuity witnesses for the hypotheses of the C07 theorems. *)
From Coq Require Import Reals Bool Lra List.
From Interval Require Import Tactic.
From SpdVerif Require Import Base.Rx Model.SpectrumSetup Gen.Spectrum Model.Spectrum
  Proofs.C07_envelope Proofs.C07_support Proofs.C07_defined.
From SpdVerif Require Import Spec.CrystalTypes Gen.Crystals Proofs.Sellmeier Model.Optics Model.Fresnel Proofs.C07_builtin.
Local Open Scope R_scope.

Ltac fields := cbn [omega_p omega_s0 omega_i0 fwhm threshold pp_off len power deff wpx wpy wsx wsy wix wiy theta_s_e theta_i_e
                    n_s n_i pm_re pm_im pm_singles].

Ltac fields_in H := cbn [omega_p omega_s0 omega_i0 fwhm threshold pp_off len power deff wpx wpy wsx wsy wix wiy theta_s_e theta_i_e
                    n_s n_i pm_re pm_im pm_singles] in H.

Lemma example_physical : physical example_setup /\ indices_pos example_setup 1.2e15 1.2e15.
Proof.
  unfold physical, indices_pos, lambda_p, frequency_to_vacuum_wavelength, example_setup; fields.
  repeat split; try lra; try interval.
Qed.

Lemma example_on_support : ~ off_support 1.2e15 1.2e15 example_setup.
Proof.
  intros [H|H].
  - unfold outside_box, example_setup in H; fields_in H.
    replace (1.2e15 - 1.2e15) with 0 in H by lra. rewrite Rabs_R0 in H. lra.
  - replace (1.2e15 + 1.2e15) with (omega_p example_setup) in H by (unfold example_setup; fields; lra).
    rewrite envelope_center in H. unfold example_setup in H; fields_in H. lra.
Qed.

Lemma example_off_support : off_support 2.5e15 1e14 example_setup /\ off_support 1.3e15 1.2e15 example_setup.
Proof.
  split.
  - left. unfold outside_box, example_setup; fields. right; right; left. lra.
  - right. unfold pump_spectral_amplitude, fwhm_to_spectral_width, frequency_to_vacuum_wavelength,
      vacuum_wavelength_to_frequency, example_setup; fields. interval.
Qed.

Lemma example_builtin : in_window KTP (lambda_um 1.2e15) /\ temp_ok 20 /\ unit_vec (0, 0, 1).
Proof.
  split; [|split].
  - unfold in_window, lambda_um, frequency_to_vacuum_wavelength. cbn [get_meta meta_KTP meta_range]. split; interval.
  - unfold temp_ok. lra.
  - unfold unit_vec, vnorm2, vdot, vx, vy, vz. cbn [fst snd]. ring.
Qed.

(* ---- further non-vacuity witnesses *)
Lemma example_defined : pump_spectral_amplitude_defined (omega_p example_setup) example_setup.
Proof. apply envelope_defined. apply (proj1 example_physical). Qed.

Lemma example_product_hyp :
  invalid_frequencies 1.2e15 1.2e15 example_setup = false /\ threshold example_setup <= pump_spectral_amplitude (1.2e15 + 1.2e15) example_setup.
Proof.
  pose proof example_on_support as Hon. split.
  - apply not_true_iff_false. rewrite invalid_frequencies_iff. intros H; apply Hon; left; exact H.
  - apply Rnot_lt_le. intros H; apply Hon; right; exact H.
Qed.

Lemma example_norm_center :
  0 <= jsi_normalization 1.2e15 1.2e15 example_setup /\ center_jsa example_setup <> 0 /\ center_jsi_singles example_setup <> 0.
Proof.
  destruct example_physical as [Hph Hidx]. destruct example_product_hyp as [Hi Ht].
  destruct (normalization_defined_pos 1.2e15 1.2e15 example_setup Hph) as (_ & Hn & _ & Hns); try lra; try exact Hidx.
  destruct (jsa_raw_product _ _ _ Hi Ht) as [Hraw Hsraw].
  set (a := pump_spectral_amplitude (1.2e15 + 1.2e15) example_setup) in *.
  assert (Ha : 0 < a) by (unfold a, pump_spectral_amplitude; apply exp_pos).
  split; [lra|]. split.
  - unfold center_jsa. change (omega_s0 example_setup) with 1.2e15. change (omega_i0 example_setup) with 1.2e15.
    rewrite Hraw. cbn [fst snd]. change (pm_re example_setup 1.2e15 1.2e15) with 1. change (pm_im example_setup 1.2e15 1.2e15) with 0.
    apply Rmult_integral_contrapositive_currified; apply Rgt_not_eq; apply sqrt_lt_R0; [unfold Rdiv; lra|nra].
  - unfold center_jsi_singles. change (omega_s0 example_setup) with 1.2e15. change (omega_i0 example_setup) with 1.2e15.
    rewrite Hsraw. change (pm_singles example_setup 1.2e15 1.2e15) with 1.
    assert (0 < a ^ 2) by (apply pow_lt; assumption). apply Rgt_not_eq. apply Rmult_lt_0_compat; [unfold Rdiv; lra|lra].
Qed.

Lemma example_indices_everywhere : forall ws wi, indices_pos example_setup ws wi.
Proof. intros. unfold indices_pos, example_setup. cbn [n_s n_i]. lra. Qed.

Lemma example_cell_area : 1 * grid_sum (fun _ _ => 1) ((0, 0) :: nil) 1 <> 0 /\ (1 : R) <> 0 /\ (1 : R) <> 2.
Proof. cbn [grid_sum fst snd]. repeat split; lra. Qed.
