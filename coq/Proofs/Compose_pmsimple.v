(* Gen/PMSimple.v (tools/gen/pmsimple.py): math::{tan, csc, cot, sinc}, gaussian_pm, phasematch_sinc, phasematch_gaussian,
   integration_steps_best_guess.

   None of csc, cot, sinc, gaussian_pm, phasematch_sinc, phasematch_gaussian, integration_steps_best_guess has a caller inside the
   crate (phasematch_sinc survives in a comment of phasematch_fiber_coupling, integration_steps_best_guess is #[deprecated] and
   survives in a comment of phasematch_singles_fiber_coupling); they are public API.  math::tan is used by the fiber-coupling
   integrands.

   Links made here:
   - sinc_gen is the sinc of Model/PMLimit.v, in terms of which C05 states the plane-wave limit of the coincidence integrand;
     so |phasematch_sinc| with zero pump waist is exactly the plane-wave modulus of C05 divided by its prefactor;
   - phasematch_sinc / phasematch_gaussian read Delta k through SPDC::delta_k(omega_s, omega_i) (Gen/Wrappers.v, Compose_wrappers.v);
   - gaussian_pm's constant 0.193 makes the Gaussian and the sinc reach one half at the same argument (to 2e-4);
   - integration_steps_best_guess is even and at least 4; its usize subtraction underflows exactly for crystals shorter than 4 um. *)
From Coq Require Import Reals ZArith Lra Lia Psatz.
From Coquelicot Require Import Coquelicot.
From Interval Require Import Tactic.
From SpdVerif Require Import Base.Rx Base.Vec3 Base.CxPM Model.PMLimit Gen.PMSimple Proofs.C05_limit Proofs.C05_sinc.
Local Open Scope R_scope.

(* ---------------------------------------------------------------- math *)
Lemma pms_tan : forall a, tan_gen a = tan a.
Proof. intros. unfold tan_gen. f_equal. field. Qed.

Lemma pms_csc : forall a, csc_gen a = / sin a.
Proof. intros. unfold csc_gen. replace (a / 1) with a by field. unfold Rdiv. ring. Qed.

Lemma pms_cot : forall a, cot_gen a = / tan a.
Proof. intros. unfold cot_gen. replace (a / 1) with a by field. unfold Rdiv. ring. Qed.

Lemma pms_cot_cos_over_sin : forall a, sin a <> 0 -> cos a <> 0 -> cot_gen a = cos a / sin a.
Proof. intros a Hs Hc. rewrite pms_cot. unfold tan. field. split; assumption. Qed.

Theorem pms_sinc : forall x, sinc_gen x = sinc x.
Proof.
  intros x. unfold sinc_gen, sinc. replace (0 * 1) with 0 by ring. replace (x / 1) with x by field.
  destruct (Req_EM_T x 0); reflexivity.
Qed.

(* ---------------------------------------------------------------- gaussian_pm *)
Lemma pms_gaussian : forall x, gaussian_pm_gen x = exp (- 0.193 * x²).
Proof. intros. unfold gaussian_pm_gen, Rsqr. f_equal. ring. Qed.

Lemma pms_gaussian_range : forall x, 0 < gaussian_pm_gen x <= 1.
Proof.
  intros x. rewrite pms_gaussian. split; [apply exp_pos|].
  rewrite <- exp_0. destruct (Req_dec x 0) as [->|Hx].
  - right. f_equal. unfold Rsqr. ring.
  - left. apply exp_increasing. pose proof (Rsqr_pos_lt x Hx). nra.
Qed.

Lemma pms_gaussian_even : forall x, gaussian_pm_gen (- x) = gaussian_pm_gen x.
Proof. intros. rewrite !pms_gaussian. f_equal. unfold Rsqr. ring. Qed.

Lemma pms_gaussian_peak : gaussian_pm_gen 0 = 1 /\ sinc_gen 0 = 1.
Proof.
  split.
  - rewrite pms_gaussian. rewrite <- exp_0. f_equal. unfold Rsqr. ring.
  - rewrite pms_sinc. apply sinc_0.
Qed.

(* the half-maximum points coincide: with x_half = sqrt(ln 2 / 0.193), gaussian_pm(x_half) = 1/2 exactly and sinc(x_half) = 1/2 to 2e-4 *)
Definition x_half : R := sqrt (ln 2 / 0.193).

Theorem pms_gaussian_sinc_same_half_width :
  gaussian_pm_gen x_half = 1 / 2 /\ Rabs (sinc_gen x_half - 1 / 2) <= 2e-4.
Proof.
  split.
  - rewrite pms_gaussian. unfold x_half. rewrite Rsqr_sqrt.
    + replace (- 0.193 * (ln 2 / 0.193)) with (- ln 2) by (generalize (ln 2); intro l; lra).
      rewrite exp_Ropp, exp_ln by lra. lra.
    + apply Rmult_le_pos; [|lra]. left. rewrite <- ln_1. apply ln_increasing; lra.
  - rewrite pms_sinc. unfold sinc, x_half.
    destruct (Req_EM_T (sqrt (ln 2 / 0.193)) 0) as [E|_].
    + exfalso. assert (1 < sqrt (ln 2 / 0.193)) by interval. lra.
    + interval with (i_prec 60).
Qed.

(* ---------------------------------------------------------------- phasematch_sinc / phasematch_gaussian *)
Section PM.
Variable dk : R -> R -> vec.       (* SPDC::delta_k(omega_s, omega_i): Compose_wrappers.wrap_delta_k_model *)
Variables L wx wy : R.

Theorem pms_phasematch_sinc : forall ws wi,
  phasematch_sinc_gen dk L wx wy ws wi =
  (sinc (L / 2 * vz (dk ws wi)) * exp (- ((vx (dk ws wi) * wx)² + (vy (dk ws wi) * wy)²) / 2), 0).
Proof.
  intros. unfold phasematch_sinc_gen. rewrite pms_sinc. f_equal.
  - f_equal; [f_equal; lra|]. f_equal. unfold Rsqr. lra.
  - ring.
Qed.

Theorem pms_phasematch_gaussian : forall ws wi,
  phasematch_gaussian_gen dk L ws wi = (exp (- 0.193 * (L / 2 * vz (dk ws wi))²), 0).
Proof.
  intros. unfold phasematch_gaussian_gen. rewrite pms_gaussian. f_equal. f_equal. f_equal. unfold Rsqr. lra.
Qed.

Lemma sin_abs_le_pos : forall x, 0 < x -> Rabs (sin x) <= x.
Proof.
  intros x H0. destruct (Rle_dec x 1) as [H1|H1].
  - assert (HPI : 3 <= PI) by (interval_intro PI lower; lra).
    rewrite Rabs_pos_eq; [left; apply sin_lt_x; assumption|]. apply sin_ge_0; lra.
  - pose proof (SIN_bound x). apply Rabs_le. lra.
Qed.

Lemma sinc_abs_le_1 : forall x, Rabs (sinc x) <= 1.
Proof.
  intros x. unfold sinc. destruct (Req_EM_T x 0) as [_|Hx].
  - rewrite Rabs_R1. lra.
  - unfold Rdiv. rewrite Rabs_mult, Rabs_inv.
    assert (Hp : 0 < Rabs x) by (apply Rabs_pos_lt; assumption).
    apply Rmult_le_reg_r with (Rabs x); [assumption|].
    rewrite Rmult_assoc, Rinv_l, Rmult_1_r, Rmult_1_l by lra.
    destruct (Rlt_dec 0 x) as [H0|H0].
    + rewrite (Rabs_pos_eq x) by lra. apply sin_abs_le_pos. assumption.
    + assert (Hn : 0 < - x) by lra.
      rewrite <- (Rabs_Ropp (sin x)), <- sin_neg, <- (Rabs_Ropp x), (Rabs_pos_eq (- x)) by lra.
      apply sin_abs_le_pos. assumption.
Qed.

(* both are real, of modulus at most 1, and equal to 1 where Delta k = 0 *)
Theorem pms_phasematch_bounded : forall ws wi,
  snd (phasematch_sinc_gen dk L wx wy ws wi) = 0 /\ Rabs (fst (phasematch_sinc_gen dk L wx wy ws wi)) <= 1 /\
  snd (phasematch_gaussian_gen dk L ws wi) = 0 /\ 0 < fst (phasematch_gaussian_gen dk L ws wi) <= 1.
Proof.
  intros ws wi. rewrite pms_phasematch_sinc. unfold phasematch_gaussian_gen. cbn [fst snd]. repeat split.
  - rewrite Rabs_mult. rewrite (Rabs_pos_eq (exp _)) by (left; apply exp_pos).
    pose proof (sinc_abs_le_1 (L / 2 * vz (dk ws wi))) as H1.
    assert (H2 : exp (- ((vx (dk ws wi) * wx)² + (vy (dk ws wi) * wy)²) / 2) <= 1).
    { rewrite <- exp_0. pose proof (Rle_0_sqr (vx (dk ws wi) * wx)). pose proof (Rle_0_sqr (vy (dk ws wi) * wy)).
      destruct (Req_dec (- ((vx (dk ws wi) * wx)² + (vy (dk ws wi) * wy)²) / 2) 0) as [->|Hne]; [lra|].
      left. apply exp_increasing. lra. }
    pose proof (Rabs_pos (sinc (L / 2 * vz (dk ws wi)))). pose proof (exp_pos (- ((vx (dk ws wi) * wx)² + (vy (dk ws wi) * wy)²) / 2)). nra.
  - apply pms_gaussian_range.
  - apply pms_gaussian_range.
Qed.

Theorem pms_phasematched : forall ws wi, dk ws wi = (0, 0, 0) ->
  phasematch_sinc_gen dk L wx wy ws wi = (1, 0) /\ phasematch_gaussian_gen dk L ws wi = (1, 0).
Proof.
  intros ws wi H. rewrite pms_phasematch_sinc, pms_phasematch_gaussian, H. cbn [vx vy vz fst snd].
  replace (L / 2 * 0) with 0 by ring. rewrite sinc_0.
  replace (- ((0 * wx)² + (0 * wy)²) / 2) with 0 by (unfold Rsqr; field).
  replace (- 0.193 * 0²) with 0 by (unfold Rsqr; ring). rewrite exp_0. split; f_equal; ring.
Qed.
End PM.

(* C05's plane-wave limit of the coincidence integrand (no walk-off, no apodization) has modulus (4 / sqrt(Sigma_x Sigma_y)) |sinc ff|,
   ff = Delta k_z L / 2: that is the prefactor times |phasematch_sinc| taken with zero pump waist *)
Theorem pms_sinc_is_plane_wave_limit : forall dk L wx wy ss si psi_h ee ws wi,
  0 < ss -> 0 < si -> 0 <= wx -> 0 <= wy ->
  Cmod (Cmult (RtoC (1 / 2)) (Cint (zd_closure wx wy ss si psi_h ee (L * 0.5 * vz (dk ws wi)) 0) (-1) 1)) =
  4 / sqrt (Sig ss si wx * Sig ss si wy) * Rabs (fst (phasematch_sinc_gen dk L 0 0 ws wi)).
Proof.
  intros dk L wx wy ss si psi_h ee ws wi H1 H2 H3 H4.
  rewrite (plane_wave_modulus wx wy ss si psi_h ee _ H1 H2 H3 H4).
  rewrite pms_phasematch_sinc. cbn [fst].
  replace (- ((vx (dk ws wi) * 0)² + (vy (dk ws wi) * 0)²) / 2) with 0 by (unfold Rsqr; field).
  rewrite exp_0, Rmult_1_r. f_equal. f_equal. f_equal. lra.
Qed.

(* ---------------------------------------------------------------- integration_steps_best_guess *)
Lemma steps_even_ge_4 : forall L, (4 <= integration_steps_best_guess_gen L)%Z /\ Z.even (integration_steps_best_guess_gen L) = true.
Proof.
  intros L. unfold integration_steps_best_guess_gen.
  set (s := f64_as_usize _). split; [lia|].
  assert (E : Z.even (s + s mod 2 - 2) = true).
  { rewrite Z.even_sub, Z.even_add. rewrite Zmod_even. destruct (Z.even s) eqn:Es; cbn; reflexivity. }
  destruct (Z.max_spec (s + s mod 2 - 2) 4) as [[_ ->]|[_ ->]]; [reflexivity | exact E].
Qed.

Lemma div_mul_cancel : forall a d, d <> 0 -> a / d * d = a.
Proof. intros. field. assumption. Qed.

(* slices = floor(25 r) with r = sqrt(L / 2.5 mm) while r <= 5 *)
Lemma steps_slices_small : forall L, 0 < L -> L <= 62.5e-3 ->
  let r := sqrt (L / 2.5e-3) in
  0 < r <= 5 /\
  (L / 1) / (1e-4 * (if Rlt_dec (sqrt ((L / 1) / 2.5e-3)) 0 then 0 else if Rgt_dec (sqrt ((L / 1) / 2.5e-3)) 5 then 5 else sqrt ((L / 1) / 2.5e-3))) = 25 * r.
Proof.
  intros L H0 H1 r.
  assert (Hq : 0 < L / 2.5e-3) by (apply Rdiv_lt_0_compat; lra).
  assert (Hr2 : r * r = L / 2.5e-3) by (unfold r; apply sqrt_sqrt; lra).
  assert (Hr : 0 < r) by (unfold r; apply sqrt_lt_R0; exact Hq).
  assert (Hr5 : r <= 5).
  { destruct (Rle_dec r 5); [assumption|]. exfalso. assert (25 < r * r) by nra. lra. }
  split; [split; assumption|].
  replace (L / 1) with L by field. fold r.
  destruct (Rlt_dec r 0); [lra|]. destruct (Rgt_dec r 5); [lra|].
  assert (HL : L = 2.5e-3 * (r * r)) by (rewrite Hr2; lra).
  assert (Hd : 1e-4 * r <> 0) by (apply Rgt_not_eq; nra).
  apply Rmult_eq_reg_r with (1e-4 * r); [|exact Hd].
  unfold Rdiv. rewrite Rmult_assoc, Rinv_l, Rmult_1_r by exact Hd. nra.
Qed.

(* the subtraction `slices + slices % 2 - 2` underflows (panic in a debug build, a wrapped huge step count in release) for every
   crystal shorter than 4 um *)
Theorem steps_underflow : forall L, 0 < L < 4e-6 -> ~ integration_steps_best_guess_defined L.
Proof.
  intros L [H0 H1] (_ & _ & H).
  destruct (steps_slices_small L H0 ltac:(lra)) as [[Hr _] E]. cbv zeta in E. rewrite E in H.
  set (r := sqrt (L / 2.5e-3)) in *.
  assert (Hq : 0 < L / 2.5e-3) by (apply Rdiv_lt_0_compat; lra).
  assert (Hr2 : r * r = L / 2.5e-3) by (unfold r; apply sqrt_sqrt; lra).
  assert (Hlt : 25 * r < 1).
  { destruct (Rlt_dec (25 * r) 1); [assumption|]. exfalso. assert (0.04 <= r) by lra. assert (0.0016 <= r * r) by nra. lra. }
  assert (Int_part (25 * r) = 0%Z).
  { unfold Int_part. rewrite <- (tech_up (25 * r) 1); [reflexivity | cbn; lra | cbn; lra]. }
  unfold f64_as_usize in H. rewrite H2 in H. cbn in H. lia.
Qed.

(* from 4 um on no partial operation fails *)
Theorem steps_defined : forall L, 4e-6 <= L -> integration_steps_best_guess_defined L.
Proof.
  intros L H0. unfold integration_steps_best_guess_defined.
  assert (Hq : 0 <= L / 1 / 2.5e-3) by (left; apply Rdiv_lt_0_compat; lra).
  split; [exact Hq|].
  set (r := sqrt (L / 1 / 2.5e-3)).
  assert (Hr2 : r * r = L / 1 / 2.5e-3) by (unfold r; apply sqrt_sqrt; exact Hq).
  assert (Hr : 0.04 <= r).
  { destruct (Rle_dec 0.04 r); [assumption|]. exfalso. assert (0 <= r) by (unfold r; apply sqrt_pos). assert (r * r < 0.0016) by nra. lra. }
  set (z := 1e-4 * (if Rlt_dec r 0 then 0 else if Rgt_dec r 5 then 5 else r)).
  assert (Hz : 0 < z /\ 1 <= L / 1 / z).
  { unfold z. destruct (Rlt_dec r 0); [lra|]. destruct (Rgt_dec r 5) as [H5|H5].
    - split; [lra|]. assert (25 < r * r) by nra. apply Rmult_le_reg_r with (1e-4 * 5); [lra|].
      rewrite div_mul_cancel by lra. lra.
    - split; [lra|]. assert (HL : L / 1 = 2.5e-3 * (r * r)) by (rewrite Hr2; lra).
      apply Rmult_le_reg_r with (1e-4 * r); [lra|].
      rewrite div_mul_cancel by lra. nra. }
  destruct Hz as [Hz Hx]. split; [lra|].
  assert (Hs : (1 <= f64_as_usize (L / 1 / z))%Z).
  { unfold f64_as_usize. destruct (base_Int_part (L / 1 / z)) as [_ Hb].
    assert (0 < IZR (Int_part (L / 1 / z))) by lra. apply lt_IZR in H. lia. }
  set (s := f64_as_usize (L / 1 / z)) in *.
  pose proof (Z.mod_pos_bound s 2 ltac:(lia)).
  destruct (Z.eq_dec s 1) as [->|]; [cbn; lia | lia].
Qed.

Print Assumptions pms_tan.
Print Assumptions pms_csc.
Print Assumptions pms_cot.
Print Assumptions pms_cot_cos_over_sin.
Print Assumptions pms_sinc.
Print Assumptions pms_gaussian.
Print Assumptions pms_gaussian_range.
Print Assumptions pms_gaussian_even.
Print Assumptions pms_gaussian_peak.
Print Assumptions pms_gaussian_sinc_same_half_width.
Print Assumptions pms_phasematch_sinc.
Print Assumptions pms_phasematch_gaussian.
Print Assumptions pms_phasematch_bounded.
Print Assumptions pms_phasematched.
Print Assumptions pms_sinc_is_plane_wave_limit.
Print Assumptions steps_even_ge_4.
Print Assumptions steps_underflow.
Print Assumptions steps_defined.
