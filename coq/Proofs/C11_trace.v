(* C11 — the trace form K = (tr G)^2 / tr(G^2), G = M^T M: positivity, 1 <= K <= n. *)
From Coq Require Import Reals Lra Lia Arith Psatz Setoid Morphisms.
From SpdVerif Require Import Model.FinSum Model.Schmidt Proofs.FinSum_lemmas Proofs.RMat.
Local Open Scope R_scope.

Definition G (n : nat) (M : mat) : mat := gram ROps n M.

Lemma G_mmul n M : G n M = mmul n (mT M) M.
Proof. reflexivity. Qed.

Lemma trG_mtr n M : trG ROps n M = mtr n (G n M).
Proof. reflexivity. Qed.

Lemma trG2_mtr n M : trG2 ROps n M = mtr n (mmul n (G n M) (G n M)).
Proof. reflexivity. Qed.

Lemma K_unfold n M : schmidt_K ROps n M = trG ROps n M * trG ROps n M / trG2 ROps n M.
Proof. reflexivity. Qed.

Lemma G_sym n M j j' : G n M j j' = G n M j' j.
Proof. unfold G, gram. apply rsum_ext; intros i _. cbn. ring. Qed.

Lemma G_diag_nonneg n M j : 0 <= G n M j j.
Proof. unfold G, gram. apply rsum_nonneg; intros i _. cbn. nra. Qed.

(* Cauchy-Schwarz on two columns *)
Lemma G_cs n M j j' : G n M j j' * G n M j j' <= G n M j j * G n M j' j'.
Proof. unfold G, gram. cbn [omul ROps]. apply (cauchy_schwarz n (fun i => M i j) (fun i => M i j')). Qed.

Lemma trG2_sq n M : trG2 ROps n M = rsum n (fun j => rsum n (fun j' => G n M j j' * G n M j j')).
Proof.
  unfold trG2. apply rsum_ext; intros j _. apply rsum_ext; intros j' _. cbn [omul ROps].
  fold (G n M). rewrite (G_sym n M j' j). reflexivity.
Qed.

Lemma trG_nonneg n M : 0 <= trG ROps n M.
Proof. apply rsum_nonneg; intros; apply G_diag_nonneg. Qed.

Lemma trG2_le_sq n M : trG2 ROps n M <= trG ROps n M * trG ROps n M.
Proof.
  rewrite trG2_sq. unfold trG. fold (G n M). change (gsum ROps) with rsum.
  rewrite rsum_mul. apply rsum_le; intros j _. apply rsum_le; intros j' _. apply G_cs.
Qed.

Lemma trG_sq_le_n n M : trG ROps n M * trG ROps n M <= INR n * trG2 ROps n M.
Proof.
  rewrite trG2_sq. unfold trG. fold (G n M). change (gsum ROps) with rsum.
  eapply Rle_trans; [apply sum_sq_le_n|].
  apply Rmult_le_compat_l; [apply pos_INR|].
  apply rsum_le; intros j Hj.
  apply (rsum_term_le n (fun j' => G n M j j' * G n M j j') j); [intros; nra|assumption].
Qed.

Lemma trG_pos n M : nonzero_matrix n M -> 0 < trG ROps n M.
Proof.
  intros (i & j & Hi & Hj & Hne). unfold trG. change (gsum ROps) with rsum.
  apply (rsum_pos n _ j); [intros; apply G_diag_nonneg|assumption|].
  unfold gram. change (gsum ROps) with rsum. cbn [omul ROps].
  apply (rsum_pos n _ i); [intros; nra|assumption|nra].
Qed.

Lemma trG2_pos n M : nonzero_matrix n M -> 0 < trG2 ROps n M.
Proof.
  intros H. pose proof (trG_pos n M H) as Hp. pose proof (trG_sq_le_n n M) as Hle.
  assert (0 < trG ROps n M * trG ROps n M) by nra.
  destruct H as (i & _ & Hi & _). assert (0 < INR n) by (apply lt_0_INR; lia).
  nra.
Qed.

Theorem schmidt_bounds n M :
  nonzero_matrix n M -> 0 < trG2 ROps n M /\ 1 <= schmidt_K ROps n M <= INR n.
Proof.
  intros H. pose proof (trG2_pos n M H) as Hp. split; [assumption|].
  rewrite K_unfold. pose proof (trG2_le_sq n M). pose proof (trG_sq_le_n n M). split.
  - apply Rmult_le_reg_r with (r := trG2 ROps n M); [assumption|].
    unfold Rdiv. rewrite Rmult_assoc, Rinv_l by lra. lra.
  - apply Rmult_le_reg_r with (r := trG2 ROps n M); [assumption|].
    unfold Rdiv. rewrite Rmult_assoc, Rinv_l by lra. lra.
Qed.

(* conversely, tr G = 0 forces M = 0 on the index range: the division is undefined exactly for the zero matrix *)
Lemma trG_zero_matrix n M : trG ROps n M = 0 -> forall i j, (i < n)%nat -> (j < n)%nat -> M i j = 0.
Proof.
  intros H0 i j Hi Hj.
  destruct (Req_dec (M i j) 0) as [|Hne]; [assumption|].
  assert (Hnz : nonzero_matrix n M) by (exists i, j; auto). pose proof (trG_pos n M Hnz). lra.
Qed.

(* the division is undefined exactly for the zero matrix (on the index range) *)
Lemma zero_matrix_trG2 n M : (forall i j, (i < n)%nat -> (j < n)%nat -> M i j = 0) -> trG2 ROps n M = 0 /\ trG ROps n M = 0.
Proof.
  intros H.
  assert (HG : forall j j', (j < n)%nat -> G n M j j' = 0).
  { intros j j' Hj. unfold G, gram. change (gsum ROps) with rsum. apply rsum_zero. intros i Hi. cbn [omul ROps]. rewrite (H i j Hi Hj). ring. }
  split.
  - rewrite trG2_sq. apply rsum_zero. intros j Hj. apply rsum_zero. intros j' _. rewrite (HG j j' Hj). ring.
  - unfold trG. change (gsum ROps) with rsum. fold (G n M). apply rsum_zero. intros j Hj. apply HG. exact Hj.
Qed.

Theorem trG2_zero_iff n M : trG2 ROps n M = 0 <-> (forall i j, (i < n)%nat -> (j < n)%nat -> M i j = 0).
Proof.
  split.
  - intros H0. apply trG_zero_matrix.
    pose proof (trG_sq_le_n n M) as Hle. rewrite H0, Rmult_0_r in Hle.
    pose proof (trG_nonneg n M). nra.
  - intros H. apply (zero_matrix_trG2 n M H).
Qed.

Theorem trG_zero_iff n M : trG ROps n M = 0 <-> (forall i j, (i < n)%nat -> (j < n)%nat -> M i j = 0).
Proof. split; [apply trG_zero_matrix|intros H; apply (zero_matrix_trG2 n M H)]. Qed.
