(* C02 — walk-off of the uniaxial model: exact derivative of the index with respect to the crystal angle. *)
From Coq Require Import Reals Lra Psatz.
From Coquelicot Require Import Coquelicot.
From SpdVerif Require Import Model.Optics Model.Fresnel Proofs.C02_fresnel Proofs.C02_index Proofs.C02_frame.
Local Open Scope R_scope.

Lemma inv2_strict a b : 0 < a -> a < b -> inv2 b < inv2 a.
Proof.
  intros Ha Hab. unfold inv2. apply Rinv_lt_contravar.
  - apply Rmult_lt_0_compat; apply pow_lt; lra.
  - simpl. nra.
Qed.

Section Uniaxial.
Variables no ne : R.
Hypothesis Hno : 0 < no.
Hypothesis Hne : 0 < ne.
Let ao := inv2 no.
Let ae := inv2 ne.

Lemma ao_pos : 0 < ao. Proof. apply inv2_pos, Hno. Qed.
Lemma ae_pos : 0 < ae. Proof. apply inv2_pos, Hne. Qed.

(* general beam: s_z(theta) = -sin theta * dx + cos theta * dz *)
Definition sz_of (dx dz th : R) : R := - sin th * dx + cos th * dz.
Definition y_of (dx dz th : R) : R := y_uniaxial ao ae (sz_of dx dz th ^ 2).
Definition n_of (dx dz th : R) : R := 1 / sqrt (y_of dx dz th).

Lemma y_of_pos dx dz th : sz_of dx dz th ^ 2 <= 1 -> 0 < y_of dx dz th.
Proof.
  intros H. apply y_uniaxial_pos; [apply ao_pos | apply ae_pos |]. split; [apply pow2_ge_0 | assumption].
Qed.

Lemma sz_of_bound dx dz th : dx * dx + dz * dz <= 1 -> sz_of dx dz th ^ 2 <= 1.
Proof.
  intros H. unfold sz_of. pose proof (sc2 th).
  (* Cauchy-Schwarz *)
  assert (0 <= (cos th * dx + sin th * dz) ^ 2) by apply pow2_ge_0.
  replace ((- sin th * dx + cos th * dz) ^ 2)
    with ((sin th * sin th + cos th * cos th) * (dx * dx + dz * dz) - (cos th * dx + sin th * dz) ^ 2) by ring.
  rewrite H0. lra.
Qed.

Lemma y_of_derive dx dz th :
  is_derive (y_of dx dz) th ((ao - ae) * (2 * sz_of dx dz th * (- cos th * dx - sin th * dz))).
Proof.
  unfold y_of, y_uniaxial, sz_of. auto_derive; [trivial | ring].
Qed.

Lemma inv_sqrt_derive y : 0 < y -> is_derive (fun u => 1 / sqrt u) y (- (/ 2) * (1 / sqrt y) ^ 3).
Proof.
  intros Hy. assert (Hs : 0 < sqrt y) by (apply sqrt_lt_R0; assumption).
  assert (Hss : sqrt y * sqrt y = y) by (apply sqrt_sqrt; lra).
  auto_derive.
  - split; [assumption | split; [apply Rgt_not_eq; assumption | trivial]].
  - field. lra.
Qed.

(* d/dtheta of the direction-dependent index, any beam direction with dx^2 + dz^2 <= 1 *)
Lemma n_of_derive dx dz th : dx * dx + dz * dz <= 1 ->
  is_derive (n_of dx dz) th
    (- (/ 2) * n_of dx dz th ^ 3 * ((ao - ae) * (2 * sz_of dx dz th * (- cos th * dx - sin th * dz)))).
Proof.
  intros Hd.
  pose proof (y_of_pos dx dz th (sz_of_bound dx dz th Hd)) as Hy.
  pose proof (is_derive_comp (fun u => 1 / sqrt u) (y_of dx dz) th _ _ (inv_sqrt_derive _ Hy) (y_of_derive dx dz th)) as H.
  unfold n_of. unfold scal in H; simpl in H; unfold mult in H; simpl in H.
  eapply is_derive_ext_loc; [| apply (is_derive_ext _ _ _ _ (fun _ => eq_refl)); exact H ] || idtac.
  replace (- / 2 * (1 / sqrt (y_of dx dz th)) ^ 3 * ((ao - ae) * (2 * sz_of dx dz th * (- cos th * dx - sin th * dz))))
    with ((ao - ae) * (2 * sz_of dx dz th * (- cos th * dx - sin th * dz)) * (- / 2 * (1 / sqrt (y_of dx dz th)) ^ 3)) by ring.
  exact H.
Qed.

(* -(1/n) dn/dtheta = (1/2) n^2 dy/dtheta *)
Lemma walkoff_general dx dz th : dx * dx + dz * dz <= 1 ->
  - Derive (n_of dx dz) th / n_of dx dz th =
  / 2 * n_of dx dz th ^ 2 * ((ao - ae) * (2 * sz_of dx dz th * (- cos th * dx - sin th * dz))).
Proof.
  intros Hd. rewrite (is_derive_unique _ _ _ (n_of_derive dx dz th Hd)).
  pose proof (y_of_pos dx dz th (sz_of_bound dx dz th Hd)) as Hy.
  assert (Hn : n_of dx dz th <> 0).
  { unfold n_of. apply Rgt_not_eq. apply inv_sqrt_pos. exact Hy. }
  field. exact Hn.
Qed.

(* pump along z: s_z = cos theta, the textbook formula *)
Lemma n_of_pump th : n_of 0 1 th = n_uniaxial no ne th.
Proof. unfold n_of, y_of, sz_of, n_uniaxial. fold ao ae. f_equal. f_equal. f_equal. ring. Qed.

Theorem walkoff_pump_closed th : walkoff_exact (n_uniaxial no ne) th = walkoff_uniaxial_closed no ne th.
Proof.
  unfold walkoff_exact, walkoff_uniaxial_closed.
  rewrite <- (Derive_ext (n_of 0 1) (n_uniaxial no ne) th n_of_pump).
  rewrite <- n_of_pump.
  assert (Hd : 0 * 0 + 1 * 1 <= 1) by lra.
  rewrite (walkoff_general 0 1 th Hd). f_equal. unfold sz_of. fold ao ae. rewrite sin_2a. ring.
Qed.

Theorem walkoff_closed_at_90 : walkoff_uniaxial_closed no ne (PI / 2) = 0.
Proof.
  unfold walkoff_uniaxial_closed. replace (2 * (PI / 2)) with PI by field. rewrite sin_PI, Rmult_0_r. apply atan_0.
Qed.

Lemma n_uniaxial_pos th : 0 < n_uniaxial no ne th.
Proof.
  unfold n_uniaxial. apply inv_sqrt_pos. apply y_uniaxial_pos; [apply ao_pos | apply ae_pos |].
  split; [apply pow2_ge_0 |]. pose proof (sc2 th). pose proof (sq_nonneg (sin th)). nra.
Qed.

(* sign of the birefringence: negative uniaxial (ne < no) walks off with positive angle for 0 < theta < 90 deg *)
Theorem walkoff_closed_sign th : 0 < th < PI / 2 ->
  (ne < no -> 0 < walkoff_uniaxial_closed no ne th) /\ (no < ne -> walkoff_uniaxial_closed no ne th < 0).
Proof.
  intros Hth.
  assert (Hs : 0 < sin (2 * th)) by (apply sin_gt_0; lra).
  pose proof (n_uniaxial_pos th) as Hn.
  assert (Hn2 : 0 < / 2 * n_uniaxial no ne th ^ 2) by nra.
  unfold walkoff_uniaxial_closed. split; intros Hb.
  - assert (inv2 no < inv2 ne).
    { apply inv2_strict; assumption. }
    rewrite <- atan_0. apply atan_increasing.
    apply Rmult_lt_0_compat; [apply Rmult_lt_0_compat; [exact Hn2 | lra] | exact Hs].
  - assert (inv2 ne < inv2 no).
    { apply inv2_strict; assumption. }
    rewrite <- atan_0. apply atan_increasing.
    assert (0 < / 2 * n_uniaxial no ne th ^ 2 * (inv2 no - inv2 ne) * sin (2 * th)).
    { apply Rmult_lt_0_compat; [apply Rmult_lt_0_compat; [exact Hn2 | lra] | exact Hs]. }
    nra.
Qed.

(* a direction-independent index has no walk-off *)
Theorem walkoff_constant (c : R) th : c <> 0 -> walkoff_exact (fun _ => c) th = 0.
Proof.
  intros Hc. unfold walkoff_exact. rewrite Derive_const. replace (- 0 / c) with 0 by (field; exact Hc). apply atan_0.
Qed.

End Uniaxial.

(* the same for the full model (rotation + Fresnel roots) with a pump along lab z *)
Theorem walkoff_model_pump no ne phi th :
  0 < no -> 0 < ne ->
  (ne <= no ->
     walkoff_exact (fun t => index_model t phi no no ne (0, 0, 1) Extraordinary) th = walkoff_uniaxial_closed no ne th /\
     walkoff_exact (fun t => index_model t phi no no ne (0, 0, 1) Ordinary) th = 0) /\
  (no <= ne ->
     walkoff_exact (fun t => index_model t phi no no ne (0, 0, 1) Ordinary) th = walkoff_uniaxial_closed no ne th /\
     walkoff_exact (fun t => index_model t phi no no ne (0, 0, 1) Extraordinary) th = 0).
Proof.
  intros Hno Hne.
  assert (Hm : forall t p, index_model t phi no no ne (0, 0, 1) p =
                          fresnel_index p no no ne (sin t * cos phi) (sin t * sin phi) (cos t)).
  { intros t p. unfold index_model. cbv zeta. rewrite crystal_frame_pump. reflexivity. }
  assert (Hu : forall t, sin t * cos phi * (sin t * cos phi) + sin t * sin phi * (sin t * sin phi) + cos t * cos t = 1).
  { intros t. pose proof (polar_dir_unit phi t) as H. unfold unit_vec, vnorm2, vdot, polar_dir, vx, vy, vz in H. cbn [fst snd] in H. exact H. }
  split; intros Hord.
  - assert (E1 : forall t, index_model t phi no no ne (0, 0, 1) Extraordinary = n_uniaxial no ne t).
    { intros t. rewrite Hm. destruct (uniaxial_closed_form no ne _ _ t Hno Hne (Hu t)) as [H _]. apply (H Hord). }
    assert (E2 : forall t, index_model t phi no no ne (0, 0, 1) Ordinary = no).
    { intros t. rewrite Hm. destruct (uniaxial_closed_form no ne _ _ t Hno Hne (Hu t)) as [H _]. apply (H Hord). }
    split.
    + unfold walkoff_exact. rewrite (Derive_ext _ _ th E1), E1. apply (walkoff_pump_closed no ne Hno Hne).
    + unfold walkoff_exact. rewrite (Derive_ext _ _ th E2), E2. apply walkoff_constant. lra.
  - assert (E1 : forall t, index_model t phi no no ne (0, 0, 1) Ordinary = n_uniaxial no ne t).
    { intros t. rewrite Hm. destruct (uniaxial_closed_form no ne _ _ t Hno Hne (Hu t)) as [_ H]. apply (H Hord). }
    assert (E2 : forall t, index_model t phi no no ne (0, 0, 1) Extraordinary = no).
    { intros t. rewrite Hm. destruct (uniaxial_closed_form no ne _ _ t Hno Hne (Hu t)) as [_ H]. apply (H Hord). }
    split.
    + unfold walkoff_exact. rewrite (Derive_ext _ _ th E1), E1. apply (walkoff_pump_closed no ne Hno Hne).
    + unfold walkoff_exact. rewrite (Derive_ext _ _ th E2), E2. apply walkoff_constant. lra.
Qed.

(* ---- any unit beam direction d = (dx, dy, dz): s_z(theta) = -sin theta * dx + cos theta * dz *)
Definition walkoff_uniaxial_general (no ne : R) (d : vec) (th : R) : R :=
  let sz := - sin th * vx d + cos th * vz d in
  let n := 1 / sqrt (y_uniaxial (inv2 no) (inv2 ne) (sz ^ 2)) in
  atan (/ 2 * n ^ 2 * ((inv2 no - inv2 ne) * (2 * sz * (- cos th * vx d - sin th * vz d)))).

Theorem walkoff_model_general no ne phi d th :
  0 < no -> 0 < ne -> unit_vec d ->
  (ne <= no ->
     walkoff_exact (fun t => index_model t phi no no ne d Extraordinary) th = walkoff_uniaxial_general no ne d th /\
     walkoff_exact (fun t => index_model t phi no no ne d Ordinary) th = 0) /\
  (no <= ne ->
     walkoff_exact (fun t => index_model t phi no no ne d Ordinary) th = walkoff_uniaxial_general no ne d th /\
     walkoff_exact (fun t => index_model t phi no no ne d Extraordinary) th = 0).
Proof.
  intros Hno Hne Hd.
  assert (Hu : forall t, vx (crystal_frame t phi d) * vx (crystal_frame t phi d) +
                         vy (crystal_frame t phi d) * vy (crystal_frame t phi d) +
                         vz (crystal_frame t phi d) * vz (crystal_frame t phi d) = 1).
  { intros t. apply unit_vec_components, crystal_frame_unit, Hd. }
  assert (Hdxz : vx d * vx d + vz d * vz d <= 1).
  { pose proof (unit_vec_components d Hd). pose proof (sq_nonneg (vy d)). lra. }
  assert (Hz : forall t, vz (crystal_frame t phi d) = sz_of (vx d) (vz d) t).
  { intros t. rewrite crystal_frame_z. reflexivity. }
  assert (Hdep : forall t, 1 / sqrt (y_uniaxial (inv2 no) (inv2 ne) (vz (crystal_frame t phi d) * vz (crystal_frame t phi d))) =
                           n_of no ne (vx d) (vz d) t).
  { intros t. unfold n_of, y_of. rewrite Hz. f_equal. f_equal. f_equal. ring. }
  assert (Hclosed : walkoff_exact (n_of no ne (vx d) (vz d)) th = walkoff_uniaxial_general no ne d th).
  { unfold walkoff_exact, walkoff_uniaxial_general. cbv zeta.
    rewrite (walkoff_general no ne Hno Hne (vx d) (vz d) th Hdxz). unfold n_of, y_of, sz_of. reflexivity. }
  split; intros Hord.
  - assert (E1 : forall t, index_model t phi no no ne d Extraordinary = n_of no ne (vx d) (vz d) t).
    { intros t. unfold index_model. cbv zeta.
      destruct (uniaxial_closed_form_sz no ne _ _ _ Hno Hne (Hu t)) as [H _]. rewrite (proj2 (H Hord)). apply Hdep. }
    assert (E2 : forall t, index_model t phi no no ne d Ordinary = no).
    { intros t. unfold index_model. cbv zeta.
      destruct (uniaxial_closed_form_sz no ne _ _ _ Hno Hne (Hu t)) as [H _]. apply (proj1 (H Hord)). }
    split.
    + unfold walkoff_exact. rewrite (Derive_ext _ _ th E1), E1. exact Hclosed.
    + unfold walkoff_exact. rewrite (Derive_ext _ _ th E2), E2. apply walkoff_constant. lra.
  - assert (E1 : forall t, index_model t phi no no ne d Ordinary = n_of no ne (vx d) (vz d) t).
    { intros t. unfold index_model. cbv zeta.
      destruct (uniaxial_closed_form_sz no ne _ _ _ Hno Hne (Hu t)) as [_ H]. rewrite (proj1 (H Hord)). apply Hdep. }
    assert (E2 : forall t, index_model t phi no no ne d Extraordinary = no).
    { intros t. unfold index_model. cbv zeta.
      destruct (uniaxial_closed_form_sz no ne _ _ _ Hno Hne (Hu t)) as [_ H]. apply (proj2 (H Hord)). }
    split.
    + unfold walkoff_exact. rewrite (Derive_ext _ _ th E1), E1. exact Hclosed.
    + unfold walkoff_exact. rewrite (Derive_ext _ _ th E2), E2. apply walkoff_constant. lra.
Qed.
