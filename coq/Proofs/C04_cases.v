(* C04 — checker evaluated by the generated correspondence cases (coq/Cases/C04*, vm_compute). *)
From Coq Require Import List Bool ZArith Floats.
From SpdVerif Require Import Model.NM1d.
Import ListNotations.

(* bit equality of two binary64 numbers (distinguishes +0 / -0, equates NaNs) *)
Definition fbits_eq (a b : float) : bool :=
  match Prim2SF a, Prim2SF b with
  | S754_zero s, S754_zero t => Bool.eqb s t
  | S754_infinity s, S754_infinity t => Bool.eqb s t
  | S754_nan, S754_nan => true
  | S754_finite s m e, S754_finite t n f => Bool.eqb s t && Pos.eqb m n && Z.eqb e f
  | _, _ => false
  end.

Fixpoint flist_eqb (a b : list float) : bool :=
  match a, b with
  | [], [] => true
  | x :: a', y :: b' => fbits_eq x y && flist_eqb a' b'
  | _, _ => false
  end.

(* position of the first difference between two traces (diagnostics) *)
Fixpoint first_diff (a b : list float) (k : nat) : nat :=
  match a, b with
  | x :: a', y :: b' => if fbits_eq x y then first_diff a' b' (S k) else k
  | _, _ => k
  end.

(* run the binary64 model; compare with the implementation's result and its sequence of in-bounds evaluations:
   (result equal, traces equal, model result, length of model trace, position of first trace difference) *)
Definition nm_check (g : float -> float) (g0 g1 : float) (n : nat) (lo hi tol : float) (rx : float) (rtrace : list float)
  : bool * bool * spec_float * nat * nat :=
  let '(x, tr) := nm_float g g0 g1 n lo hi tol in
  (fbits_eq x rx, flist_eqb tr rtrace, Prim2SF x, length tr, first_diff tr rtrace 0).

(* for a run on which the implementation PANICKED: the model must say the run is not defined (a NaN cost reached the solver) *)
Definition nm_check_panic (g : float -> float) (g0 g1 : float) (n : nat) (lo hi tol : float) : bool :=
  negb (nm_defined g g0 g1 n lo hi tol).
