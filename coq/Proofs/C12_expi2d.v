(* C12 — 2-D Simpson on the separable oscillatory integrand amp exp(i(kx + ly)): from the 1-D textbook bounds
   Bx = |amp| |bx-ax| hx^4 k^4/180, By = |by-ay| hy^4 l^4/180 (h = side / n),  |S2 - Ix Iy| <= Bx (|Iy| + By) + |Ix| By. *)
From Coq Require Import Reals QArith ZArith List Bool Lra Lia.
From Coquelicot Require Import Coquelicot.
From SpdVerif Require Import Base.NumOps Gen.Integration Model.Quadrature Proofs.C12_base Proofs.C12_simpson Proofs.C12_rule
  Proofs.C12_simpson2d Proofs.C12_cert Proofs.C12_expi.
Local Open Scope R_scope.

Definition simpson_expi_B (k a b : R) (n : Z) : R := Rabs (b - a) * Rabs ((b - a) / IZR n) ^ 4 * Rabs k ^ 4 / 180.

Theorem simpson2d_expi_bound : forall divs (ax bx ay by_ k l : R) (amp : C),
  simpson2d_accepts divs = true -> k <> 0 -> l <> 0 ->
  let n := simpson2d_norm divs in
  let Bx := Cmod amp * simpson_expi_B k ax bx n in
  let By := simpson_expi_B l ay by_ n in
  let Ix := Cmult amp (expi_int k ax bx) in
  let Iy := expi_int l ay by_ in
  Cmod (Cminus (simpson2d Rops (fun x y => Cmult (Cmult amp (expi k x)) (expi l y)) ax bx ay by_ divs) (Cmult Ix Iy))
    <= Bx * (Cmod Iy + By) + Cmod Ix * By.
Proof.
  intros divs ax bx ay by_ k l amp Ha Hk Hl n Bx By Ix Iy.
  rewrite (simpson2d_separable (fun x => Cmult amp (expi k x)) (expi l)) by exact Ha. fold n.
  destruct (simpson2d_accepts_norm divs Ha) as [He Hn]. fold n in He, Hn.
  apply product_error.
  - rewrite rule_cscal.
    set (X := apply_rule Rops (simpson_rule_n Rops ax bx n) (expi k)).
    replace (Cminus (Cmult amp X) Ix) with (Cmult amp (Cminus X (expi_int k ax bx))).
    2:{ unfold Ix. clearbody X. destruct amp, X, (expi_int k ax bx). cbv [Cminus Cplus Copp Cmult fst snd]. f_equal; ring. }
    rewrite Cmod_mult. unfold Bx. apply Rmult_le_compat_l; [apply Cmod_ge_0|]. apply simpson_rule_n_expi; assumption.
  - apply simpson_rule_n_expi; assumption.
Qed.
