(* C03 — lemmas that depend on the extra `* signum(theta_s)` of try_new_optimum as the source has it now (used only by
   Findings/C03_negative_theta.v; they stop compiling when that factor is removed, which is the intended repair). *)
From Coq Require Import Reals Lra Lia ZArith Bool.
From SpdVerif Require Import Base.Rx Base.Vec3 Gen.Idler Model.Idler Proofs.C03_base Proofs.C03_idler.
Local Open Scope R_scope.

Lemma idler_theta_forward cp th v : 0 < cos th ->
  idler_theta cp th v = (if cp then PI - asin v else asin v) * signum th.
Proof.
  intros Hc. unfold idler_theta. rewrite !Rdiv_1, Rmult_1_r.
  rewrite (signum_pos (cos th)) by lra.
  destruct (Rlt_dec 1 0) as [H|H]; [lra|].
  destruct cp; cbn; reflexivity.
Qed.

(* sine and cosine of the idler's polar angle, both branches, both signs *)
Lemma idler_theta_sin cp th v : 0 < cos th -> -1 <= v <= 1 -> sin (idler_theta cp th v) = signum th * v.
Proof.
  intros Hc Hv. rewrite idler_theta_forward by assumption.
  unfold signum. destruct (Rle_dec 0 th); destruct cp.
  - rewrite Rmult_1_r. replace (PI - asin v) with (- (asin v) + PI) by ring. rewrite neg_sin, sin_neg, sin_asin by assumption. ring.
  - rewrite Rmult_1_r, sin_asin by assumption. ring.
  - replace ((PI - asin v) * -1) with (- (PI - asin v)) by ring. rewrite sin_neg.
    replace (PI - asin v) with (- (asin v) + PI) by ring. rewrite neg_sin, sin_neg, sin_asin by assumption. ring.
  - replace (asin v * -1) with (- asin v) by ring. rewrite sin_neg, sin_asin by assumption. ring.
Qed.

Lemma idler_theta_cos cp th v : 0 < cos th -> -1 <= v <= 1 ->
  cos (idler_theta cp th v) = (if cp then -1 else 1) * sqrt (1 - v²).
Proof.
  intros Hc Hv. rewrite idler_theta_forward by assumption.
  unfold signum. destruct (Rle_dec 0 th); destruct cp.
  - rewrite Rmult_1_r. replace (PI - asin v) with (- (asin v) + PI) by ring. rewrite neg_cos, cos_neg, cos_asin by assumption. ring.
  - rewrite Rmult_1_r, cos_asin by assumption. ring.
  - replace ((PI - asin v) * -1) with (- (PI - asin v)) by ring. rewrite cos_neg.
    replace (PI - asin v) with (- (asin v) + PI) by ring. rewrite neg_cos, cos_neg, cos_asin by assumption. ring.
  - replace (asin v * -1) with (- asin v) by ring. rewrite cos_neg, cos_asin by assumption. ring.
Qed.


Section Sign.
  Variable index : R -> vec -> polarization -> R.
  Variables (pm : pm_type) (spol ppol : polarization) (phis ths ls lp : R) (ws wp : R * R) (pp : poling) (cp : bool).
  Hypothesis Hls : 0 < ls.
  Hypothesis Hlp : 0 < lp.
  Hypothesis Hth : - PI < ths <= PI.
  Hypothesis Hpp : pp_defined pp.
  Hypothesis Hforward_signal : 0 < cos ths.

  Notation sigb := (sigb spol phis ths ls ws).
  Notation pumpb := (pumpb ppol lp wp).
  Notation w_z := (w_z index spol ppol phis ths ls lp ws wp pp).
  Notation idler_b := (idler_b index pm spol ppol phis ths ls lp ws wp pp cp).

  (* direction of the idler: transverse part -sigma val (cos phi, sin phi), longitudinal part beta sqrt(1 - val^2) *)
  Lemma idler_dir_general : w_z <> 0 ->
    b_dir idler_b = (- (signum ths * opt_val index sigb pumpb pp * cos phis),
                     - (signum ths * opt_val index sigb pumpb pp * sin phis),
                     (if cp then -1 else 1) * sqrt (1 - (opt_val index sigb pumpb pp)²)).
  Proof.
    intros Hw. destruct (defined_of_wz index spol ppol phis ths ls lp ws wp pp Hls Hlp Hth Hw) as (_ & _ & Hv).
    unfold C03_idler.idler_b, beam_new; cbn [b_dir].
    rewrite beam_new_direction_eq, (sig_theta spol phis ths ls ws Hth).
    unfold C03_idler.sigb at 1, beam_new; cbn [b_phi].
    rewrite (idler_azimuth_polar phis), polar_phi_pi.
    rewrite idler_theta_sin, idler_theta_cos by assumption.
    vec_cmp; ring.
  Qed.

  (* negative signal polar angle (co-propagating, closing vector forward): the transverse part of the idler direction has the
     wrong sign — the idler is the mirror image of the closing direction, on the signal's side *)
  Lemma idler_mirror_negative : cp = false -> ths < 0 -> 0 < vz (closing_vector index sigb pumpb pp) ->
    let qh := vscale (/ vnorm (closing_vector index sigb pumpb pp)) (closing_vector index sigb pumpb pp) in
    b_dir idler_b = (- vx qh, - vy qh, vz qh).
  Proof.
    intros Hcp H0 Hz qh. unfold qh. rewrite (closing_z index spol ppol phis ths ls lp ws wp pp Hls Hlp Hpp) in Hz.
    pose proof (Kq_pos ths ls Hls Hth) as HK.
    assert (Hw : 0 < w_z) by nra.
    rewrite (idler_dir_general (Rgt_not_eq _ _ Hw)), (closing_unit index spol ppol phis ths ls lp ws wp pp Hls Hlp Hth Hpp (Rgt_not_eq _ _ Hw)).
    subst cp.
    rewrite (sqrt_one_minus_val2 index spol ppol phis ths ls lp ws wp pp Hls Hlp Hth (Rgt_not_eq _ _ Hw)).
    rewrite (Rabs_right _ (Rgt_ge _ _ Hw)). rewrite signum_neg by assumption.
    unfold vx, vy, vz; cbn [fst snd]. vec_cmp; ring.
  Qed.
End Sign.
