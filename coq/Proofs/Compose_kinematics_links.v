(* Composition, second part: the beam kinematics of Gen/Kinematics.v connected to
   (a) the crystal tables and the Fresnel index (C01 o C02, Proofs/Compose_index.v): velocities are defined and bounded;
   (b) get_counts_correction (C06, Gen/PMIntegrand.v): finding F14 "exchanged / original = ng_i / ng_s" stated on the generated
       group indices, end to end;
   (c) the HOM delays (C09, Gen/HomSrc.v): hom_time_delay and hom_two_source_time_delays in terms of path lengths and group
       velocities. *)
From Coq Require Import Reals Lra List.
From Coquelicot Require Import Coquelicot.
From SpdVerif Require Import Base.Rx Spec.CrystalTypes Spec.Published Gen.Crystals Proofs.Sellmeier Proofs.C01_all.
From SpdVerif Require Import Model.Optics Model.Fresnel Gen.Fresnel Proofs.Compose_index.
From SpdVerif Require Import Gen.Kinematics Proofs.Compose_kinematics.
From SpdVerif Require Import Base.CxPM Model.PMParams Gen.PMIntegrand Proofs.C06_spectrum.
From SpdVerif Require Import Model.Hom2 Gen.HomSrc.
Local Open Scope R_scope.

(* ------------------------------------------------------------------ (a) a built-in crystal as the index oracle *)
(* index_along takes the wavelength in metres; the crystal tables are indexed in micrometres *)
Definition crystal_index_m (c : crystal) (T theta phi : R) : R -> vec -> polarization -> R :=
  fun lm d p => crystal_index c (lm / 1e-6) T theta phi d p.

Theorem kin_crystal_index_bounds : forall c T theta phi omega d p,
  in_window c (lam omega / 1e-6) -> temp_ok T -> unit_vec d ->
  1 < n_at (crystal_index_m c T theta phi) omega d p < 4.
Proof. intros. unfold n_at, crystal_index_m. apply crystal_index_bounds; assumption. Qed.

(* phase velocity of every beam in every built-in crystal, in-window: defined and between c/4 and c *)
Theorem kin_crystal_phase_velocity : forall c T theta phi omega d p,
  in_window c (lam omega / 1e-6) -> temp_ok T -> unit_vec d ->
  light_speed / 4 < beam_phase_velocity_off_gen (crystal_index_m c T theta phi) omega d p < light_speed.
Proof. intros. apply kin_phase_velocity_bounds_off. apply kin_crystal_index_bounds; assumption. Qed.

(* group velocity and group index: positive as soon as the (finite-difference) dispersion term lam n'/n exceeds -1;
   the division by n in every formula is defined (n > 1) *)
Theorem kin_crystal_group_positive : forall c T theta phi omega d p,
  in_window c (lam omega / 1e-6) -> temp_ok T -> unit_vec d ->
  -1 < lam omega / n_at (crystal_index_m c T theta phi) omega d p * slope (crystal_index_m c T theta phi) omega d p ->
  0 < beam_group_velocity_off_gen (crystal_index_m c T theta phi) omega d p /\
  0 < beam_group_index_off_gen (crystal_index_m c T theta phi) omega d p /\
  beam_group_velocity_off_gen (crystal_index_m c T theta phi) omega d p * beam_group_index_off_gen (crystal_index_m c T theta phi) omega d p = light_speed.
Proof.
  intros c T theta phi omega d p Hw HT Hd Hx.
  pose proof (kin_crystal_index_bounds c T theta phi omega d p Hw HT Hd) as [H1 _].
  destruct (kin_positive_off (crystal_index_m c T theta phi) omega d p ltac:(lra) Hx) as [_ [Hv Hg]].
  repeat split; try assumption. apply kin_vg_ng_off. lra.
Qed.

(* ------------------------------------------------------------------ (b) F14 on generated definitions, end to end *)
(* n_at is Beam::refractive_index at the beam's own frequency: index_along(frequency_to_vacuum_wavelength(omega), direction,
   polarization) — the same term Gen/Idler.v calls beam_refractive_index (over its own copy of the vector/polarization types) *)

(* the scalars get_counts_correction reads, produced by the generated beam functions for three beams in one setup *)
Definition counts_scalars_from_beams (index : R -> vec -> polarization -> R)
    (ws wi wp : R) (ds di dp : vec) (ps pi_ pp_ : polarization) (q : pm_params) : Prop :=
  p_lambda_s q = lam ws /\ p_lambda_i q = lam wi /\ p_lambda_p q = lam wp /\
  p_n_s0 q = n_at index ws ds ps /\ p_n_i0 q = n_at index wi di pi_ /\ p_n_p0 q = n_at index wp dp pp_ /\
  p_ng_s q = beam_group_index_off_gen index ws ds ps /\ p_ng_i q = beam_group_index_off_gen index wi di pi_ /\
  p_ng_p q = beam_group_index_off_gen index wp dp pp_.

Theorem F14_counts_correction_generated : forall index ws wi wp ds di dp ps pi_ pp_ q,
  counts_scalars_from_beams index ws wi wp ds di dp ps pi_ pp_ q ->
  lam wp <> 0 -> n_at index ws ds ps <> 0 -> n_at index wi di pi_ <> 0 -> n_at index wp dp pp_ <> 0 ->
  pm_counts_correction (pm_swap q) * beam_group_index_off_gen index ws ds ps =
  pm_counts_correction q * beam_group_index_off_gen index wi di pi_.
Proof.
  intros index ws wi wp ds di dp ps pi_ pp_ q (Hls & Hli & Hlp & Hns & Hni & Hnp & Hgs & Hgi & Hgp) H1 H2 H3 H4.
  rewrite <- Hgs, <- Hgi. apply counts_correction_exchange; congruence.
Qed.

(* ratio form, with the group indices written out: exchanged / original = ng_i / ng_s,
   ng = n / (1 + lam n'/n) with the code's central-difference n' *)
Theorem F14_counts_ratio_generated : forall index ws wi wp ds di dp ps pi_ pp_ q,
  counts_scalars_from_beams index ws wi wp ds di dp ps pi_ pp_ q ->
  lam wp <> 0 -> n_at index ws ds ps <> 0 -> n_at index wi di pi_ <> 0 -> n_at index wp dp pp_ <> 0 ->
  1 + lam ws / n_at index ws ds ps * slope index ws ds ps <> 0 -> 1 + lam wi / n_at index wi di pi_ * slope index wi di pi_ <> 0 ->
  pm_counts_correction q <> 0 ->
  pm_counts_correction (pm_swap q) / pm_counts_correction q =
  (n_at index wi di pi_ / (1 + lam wi / n_at index wi di pi_ * slope index wi di pi_)) /
  (n_at index ws ds ps / (1 + lam ws / n_at index ws ds ps * slope index ws ds ps)).
Proof.
  intros index ws wi wp ds di dp ps pi_ pp_ q Hq H1 H2 H3 H4 Hxs Hxi Hc.
  pose proof (F14_counts_correction_generated index ws wi wp ds di dp ps pi_ pp_ q Hq H1 H2 H3 H4) as E.
  rewrite (kin_group_index_off index ws ds ps H2 Hxs), (kin_group_index_off index wi di pi_ H3 Hxi) in E.
  set (gs := n_at index ws ds ps / (1 + lam ws / n_at index ws ds ps * slope index ws ds ps)) in *.
  set (gi := n_at index wi di pi_ / (1 + lam wi / n_at index wi di pi_ * slope index wi di pi_)) in *.
  assert (Hgs : gs <> 0).
  { unfold gs. unfold Rdiv. apply Rmult_integral_contrapositive_currified; [exact H2 | apply Rinv_neq_0_compat; exact Hxs]. }
  apply (Rmult_eq_reg_r (pm_counts_correction q * gs)); [|apply Rmult_integral_contrapositive_currified; assumption].
  replace (pm_counts_correction (pm_swap q) / pm_counts_correction q * (pm_counts_correction q * gs)) with (pm_counts_correction (pm_swap q) * gs) by (field; exact Hc).
  replace (gi / gs * (pm_counts_correction q * gs)) with (pm_counts_correction q * gi) by (field; exact Hgs).
  exact E.
Qed.

(* ------------------------------------------------------------------ (c) HOM delays *)
(* the two-source record of Gen/HomSrc.v filled by the generated transit times of the signal and the idler of one setup *)
Definition ts_source_of_beams (index : R -> vec -> polarization -> R) (L period : R)
    (ws wi : R) (ds di : vec) (ps pi_ : polarization) (wp_s wp_i : R) : ts_source :=
  mkSrc wp_s wp_i (beam_average_transit_time_gen index ws ds ps L period) (beam_average_transit_time_gen index wi di pi_ L period).

Theorem kin_hom_time_delay : forall index L period ws wi ds di ps pi_ wp_s wp_i,
  unit_vec ds -> unit_vec di -> vz ds <> 0 -> vz di <> 0 -> 0 <= L ->
  src_hom_time_delay (ts_source_of_beams index L period ws wi ds di ps pi_ wp_s wp_i) =
  (0.5 * L / Rabs (vz di)) / beam_group_velocity_gen index wi di pi_ period
  - (0.5 * L / Rabs (vz ds)) / beam_group_velocity_gen index ws ds ps period + (wp_i - wp_s) / light_speed.
Proof.
  intros. unfold src_hom_time_delay, ts_source_of_beams. cbv zeta. cbn [sig_wp idl_wp sig_time idl_time].
  rewrite !kin_transit_time_on by assumption. unfold light_c, light_speed. ring.
Qed.

(* collinear beams with equal group velocities: the delay is the waist-position term alone *)
Corollary kin_hom_time_delay_degenerate : forall index L period w d p wp_s wp_i,
  unit_vec d -> vz d <> 0 -> 0 <= L ->
  src_hom_time_delay (ts_source_of_beams index L period w w d d p p wp_s wp_i) = (wp_i - wp_s) / light_speed.
Proof. intros. rewrite kin_hom_time_delay by assumption. ring. Qed.

Theorem kin_ts_time_delays : forall index1 index2 L1 L2 period1 period2 ws1 wi1 ws2 wi2 ds1 di1 ds2 di2 ps1 pi1 ps2 pi2 a1 b1 a2 b2,
  unit_vec ds1 -> unit_vec di1 -> unit_vec ds2 -> unit_vec di2 -> vz ds1 <> 0 -> vz di1 <> 0 -> vz ds2 <> 0 -> vz di2 <> 0 ->
  0 <= L1 -> 0 <= L2 ->
  let s1 := ts_source_of_beams index1 L1 period1 ws1 wi1 ds1 di1 ps1 pi1 a1 b1 in
  let s2 := ts_source_of_beams index2 L2 period2 ws2 wi2 ds2 di2 ps2 pi2 a2 b2 in
  let Ts1 := (0.5 * L1 / Rabs (vz ds1)) / beam_group_velocity_gen index1 ws1 ds1 ps1 period1 in
  let Ti1 := (0.5 * L1 / Rabs (vz di1)) / beam_group_velocity_gen index1 wi1 di1 pi1 period1 in
  let Ts2 := (0.5 * L2 / Rabs (vz ds2)) / beam_group_velocity_gen index2 ws2 ds2 ps2 period2 in
  let Ti2 := (0.5 * L2 / Rabs (vz di2)) / beam_group_velocity_gen index2 wi2 di2 pi2 period2 in
  src_ts_time_delays s1 s2 =
  ((Ts2 - Ts1 + (a2 - a1) / light_speed, Ti2 - Ti1 + (b2 - b1) / light_speed), Ti2 - Ts1 + (b2 - a1) / light_speed).
Proof.
  intros. unfold src_ts_time_delays, s1, s2, ts_source_of_beams. cbv zeta. cbn [sig_wp idl_wp sig_time idl_time].
  rewrite !kin_transit_time_on by assumption. unfold light_c, light_speed, Ts1, Ti1, Ts2, Ti2. reflexivity.
Qed.

Print Assumptions kin_crystal_phase_velocity.
Print Assumptions kin_crystal_group_positive.
Print Assumptions F14_counts_correction_generated.
Print Assumptions F14_counts_ratio_generated.
Print Assumptions kin_hom_time_delay.
Print Assumptions kin_hom_time_delay_degenerate.
Print Assumptions kin_ts_time_delays.
