(* C20: every normalised joint-spectral value is the unnormalised value divided by the unnormalised value at the centre of
   the OPTIMISED setup; unit at the centre of an optimised setup; normalised intensity = |normalised amplitude|^2;
   normalised sweep values = raw sweep values / reference.  For all oracles (raw spectra, normalisation factors,
   optimiser kernels). *)
From Coq Require Import Reals Lra List.
From Coquelicot Require Import Complex.
From SpdVerif Require Import Base.CfgNumOps Model.NumInst Spec.ConfigSpec Gen.ConfigSites Model.ConfigTypes Model.Config Model.NormSpectrum Proofs.C20_idempotent.
Import ListNotations.
Local Open Scope R_scope.

Section Proofs.
  Variable K : oracles R.
  Variable minpos : R.
  Variable op oi : bool.
  Variable jsa_raw : spdc R -> R -> R -> C.
  Variable singles_raw : spdc R -> R -> R -> R.
  Variable norm_jsi : spdc R -> R -> R -> R.
  Variable norm_singles : spdc R -> R -> R -> R.
  Variable freq : beam R -> R.
  Variable pm_inv : pm_type -> pm_type.

  Local Notation jsa_of := (jsa_of jsa_raw norm_jsi).
  Local Notation jsi_of := (jsi_of jsa_raw norm_jsi).
  Local Notation singles_of := (singles_of singles_raw norm_singles).
  Local Notation new := (joint_spectrum_new K minpos op oi jsa_raw singles_raw norm_jsi norm_singles freq).
  Local Notation center := (center freq).

  (* the cached amplitude reference is the modulus of the unnormalised amplitude at the optimum's centre *)
  Lemma jsa_center_is so ws wi :
    sqrt (norm_jsi so ws wi) * Cmod (jsa_raw so ws wi) = Cmod (jsa_of so ws wi).
  Proof.
    unfold NormSpectrum.jsa_of. cbv zeta. destruct (Ceq_dec (jsa_raw so ws wi) 0) as [H0 | H0].
    - rewrite H0, Cmod_0. ring.
    - rewrite Cmod_mult, Cmod_R, Rabs_pos_eq by apply sqrt_pos. reflexivity.
  Qed.

  Lemma jsi_center_is so ws wi : 0 <= norm_jsi so ws wi ->
    (sqrt (norm_jsi so ws wi) * Cmod (jsa_raw so ws wi)) ^ 2 = jsi_of so ws wi.
  Proof.
    intros Hn. unfold NormSpectrum.jsi_of. cbv zeta. destruct (Ceq_dec (jsa_raw so ws wi) 0) as [H0 | H0].
    - rewrite H0, Cmod_0. ring.
    - rewrite Rpow_mult_distr. replace (sqrt (norm_jsi so ws wi) ^ 2) with (norm_jsi so ws wi); [reflexivity |].
      simpl. rewrite Rmult_1_r, sqrt_sqrt; auto.
  Qed.

  Lemma singles_center_is so ws wi : norm_singles so ws wi * singles_raw so ws wi = singles_of so ws wi.
  Proof.
    unfold NormSpectrum.singles_of. cbv zeta. destruct (Req_EM_T (singles_raw so ws wi) 0) as [H0 | H0]; [rewrite H0; ring | reflexivity].
  Qed.

  Lemma new_ok s j : new s = Ok j ->
    exists so nf, try_as_optimum R_ops K minpos op oi s = Ok (so, nf) /\ js_spdc j = s /\
      js_jsa_center j = Cmod (jsa_of so (fst (center so)) (snd (center so))) /\
      js_singles_center j = singles_of so (fst (center so)) (snd (center so)).
  Proof.
    unfold joint_spectrum_new. destruct (try_as_optimum R_ops K minpos op oi s) as [[so nf] | |]; try discriminate.
    unfold NormSpectrum.center. cbn [fst snd]. intros H. inversion H. subst j. cbn [js_spdc js_jsa_center js_singles_center].
    exists so, nf. repeat split; auto using jsa_center_is, singles_center_is.
  Qed.

  (* normalised = unnormalised / unnormalised at the centre of the optimised setup *)
  Theorem normalised_def s j so nf ws wi :
    new s = Ok j -> try_as_optimum R_ops K minpos op oi s = Ok (so, nf) ->
    let '(w0s, w0i) := center so in
    jsa_normalized jsa_raw norm_jsi j ws wi = Cdiv (jsa_of s ws wi) (RtoC (Cmod (jsa_of so w0s w0i))) /\
    (0 <= norm_jsi so w0s w0i -> jsi_normalized jsa_raw norm_jsi j ws wi = jsi_of s ws wi / jsi_of so w0s w0i) /\
    jsi_singles_normalized singles_raw norm_singles j ws wi = singles_of s ws wi / singles_of so w0s w0i.
  Proof.
    intros Hn Ho. destruct (new_ok s j Hn) as (so' & nf' & Ho' & Hs & Hc1 & Hc2).
    rewrite Ho in Ho'. inversion Ho'. subst so' nf'.
    unfold NormSpectrum.center in *. cbn [fst snd] in *.
    unfold jsa_normalized, jsi_normalized, jsi_singles_normalized, jsa, jsi, jsi_singles. rewrite Hs, Hc1, Hc2.
    repeat split.
    intros Hpos. rewrite <- jsa_center_is, jsi_center_is by assumption. reflexivity.
  Qed.

  (* the same with the guards under which the quotients MEAN something: each reference value (the optimised setup's value at its
     own centre) is not 0 -- at a zero reference the implementation returns x/0 (inf or NaN) and Coq's total division would make the
     unguarded equations hold for the wrong reason *)
  Theorem normalised_def_guarded s j so nf ws wi :
    new s = Ok j -> try_as_optimum R_ops K minpos op oi s = Ok (so, nf) ->
    let '(w0s, w0i) := center so in
    (jsa_of so w0s w0i <> 0%C ->
       jsa_normalized jsa_raw norm_jsi j ws wi = Cdiv (jsa_of s ws wi) (RtoC (Cmod (jsa_of so w0s w0i)))) /\
    (0 <= norm_jsi so w0s w0i -> jsi_of so w0s w0i <> 0 ->
       jsi_normalized jsa_raw norm_jsi j ws wi = jsi_of s ws wi / jsi_of so w0s w0i) /\
    (singles_of so w0s w0i <> 0 ->
       jsi_singles_normalized singles_raw norm_singles j ws wi = singles_of s ws wi / singles_of so w0s w0i).
  Proof.
    intros Hn Ho. pose proof (normalised_def s j so nf ws wi Hn Ho) as H. destruct (center so) as [w0s w0i].
    destruct H as (H1 & H2 & H3). repeat split; auto.
  Qed.

  (* the *_range variants are the pointwise accessors mapped over the grid *)
  Theorem ranges_pointwise j grid :
    jsa_normalized_range jsa_raw norm_jsi j grid = map (fun p => jsa_normalized jsa_raw norm_jsi j (fst p) (snd p)) grid /\
    jsi_normalized_range jsa_raw norm_jsi j grid = map (fun p => jsi_normalized jsa_raw norm_jsi j (fst p) (snd p)) grid /\
    jsi_singles_normalized_range singles_raw norm_singles j grid =
      map (fun p => jsi_singles_normalized singles_raw norm_singles j (fst p) (snd p)) grid.
  Proof. repeat split; reflexivity. Qed.

  (* the idler singles spectrum is normalised against the optimum of the SWAPPED setup, evaluated at (wi, ws) *)
  Theorem idler_singles_def j grid l :
    jsi_singles_idler_normalized_range K minpos op oi jsa_raw singles_raw norm_jsi norm_singles freq pm_inv j grid = Ok l ->
    exists ji so nf, new (swap_signal_idler pm_inv (js_spdc j)) = Ok ji /\
      try_as_optimum R_ops K minpos op oi (swap_signal_idler pm_inv (js_spdc j)) = Ok (so, nf) /\
      l = map (fun p => singles_of (swap_signal_idler pm_inv (js_spdc j)) (snd p) (fst p) /
                        singles_of so (fst (center so)) (snd (center so))) grid.
  Proof.
    unfold jsi_singles_idler_normalized_range.
    destruct (new (swap_signal_idler pm_inv (js_spdc j))) as [ji | |] eqn:Hn; try discriminate.
    intros H. inversion H. subst l. destruct (new_ok _ _ Hn) as (so & nf & Ho & Hs & _ & Hc2).
    exists ji, so, nf. repeat split; auto.
    apply map_ext. intros p. unfold jsi_singles_normalized, jsi_singles. rewrite Hs, Hc2. reflexivity.
  Qed.

  Theorem idler_singles_def_guarded j grid l :
    jsi_singles_idler_normalized_range K minpos op oi jsa_raw singles_raw norm_jsi norm_singles freq pm_inv j grid = Ok l ->
    exists ji so nf, new (swap_signal_idler pm_inv (js_spdc j)) = Ok ji /\
      try_as_optimum R_ops K minpos op oi (swap_signal_idler pm_inv (js_spdc j)) = Ok (so, nf) /\
      (singles_of so (fst (center so)) (snd (center so)) <> 0 ->
       l = map (fun p => singles_of (swap_signal_idler pm_inv (js_spdc j)) (snd p) (fst p) /
                         singles_of so (fst (center so)) (snd (center so))) grid).
  Proof.
    intros H. destruct (idler_singles_def j grid l H) as (ji & so & nf & H1 & H2 & H3). exists ji, so, nf. repeat split; auto.
  Qed.

  (* unit at the centre of a setup that optimisation leaves unchanged (by C20_idempotent: every optimised setup) *)
  Theorem unit_at_centre so nf j :
    try_as_optimum R_ops K minpos op oi so = Ok (so, nf) -> new so = Ok j ->
    let '(w0s, w0i) := center so in
    (jsa_of so w0s w0i <> 0%C -> Cmod (jsa_normalized jsa_raw norm_jsi j w0s w0i) = 1) /\
    (0 <= norm_jsi so w0s w0i -> jsi_of so w0s w0i <> 0 -> jsi_normalized jsa_raw norm_jsi j w0s w0i = 1) /\
    (singles_of so w0s w0i <> 0 -> jsi_singles_normalized singles_raw norm_singles j w0s w0i = 1).
  Proof.
    intros Ho Hn. pose proof (normalised_def so j so nf) as Hd.
    unfold NormSpectrum.center in *. cbn [fst snd] in *.
    repeat split.
    - intros Hne. destruct (Hd (freq (s_signal so)) (freq (s_idler so)) Hn Ho) as (H1 & _ & _). rewrite H1.
      assert (Hm : Cmod (jsa_of so (freq (s_signal so)) (freq (s_idler so))) <> 0).
      { intros H0. apply Cmod_eq_0 in H0. contradiction. }
      rewrite Cmod_div by (intros H0; apply RtoC_inj in H0; contradiction).
      rewrite Cmod_R, Rabs_pos_eq by apply Cmod_ge_0. field. assumption.
    - intros Hpos Hne. destruct (Hd (freq (s_signal so)) (freq (s_idler so)) Hn Ho) as (_ & H2 & _). rewrite H2 by assumption.
      field. assumption.
    - intros Hne. destruct (Hd (freq (s_signal so)) (freq (s_idler so)) Hn Ho) as (_ & _ & H3). rewrite H3. field. assumption.
  Qed.

  (* normalised intensity = squared modulus of the normalised amplitude *)
  Theorem square j ws wi :
    0 <= norm_jsi (js_spdc j) ws wi -> js_jsa_center j <> 0 ->
    jsi_normalized jsa_raw norm_jsi j ws wi = (Cmod (jsa_normalized jsa_raw norm_jsi j ws wi)) ^ 2.
  Proof.
    intros Hpos Hc. unfold jsi_normalized, jsa_normalized, jsi, jsa.
    rewrite Cmod_div by (intros H0; apply RtoC_inj in H0; contradiction).
    rewrite Cmod_R. unfold Rdiv. rewrite Rpow_mult_distr.
    rewrite pow_inv.
    rewrite <- (pow2_abs (js_jsa_center j)).
    f_equal. rewrite <- jsa_center_is. symmetry. apply jsi_center_is. assumption.
  Qed.

  (* sweep: normalised values = raw values / the reference taken from the base setup's optimum *)
  Theorem sweep base setups opt nf :
    try_as_optimum R_ops K minpos op oi base = Ok (opt, nf) ->
    jsi_values_normalized K minpos op oi jsa_raw norm_jsi freq base setups =
    Ok (map (fun v => v / jsi_of opt (fst (center opt)) (snd (center opt))) (jsi_values jsa_raw norm_jsi freq setups)).
  Proof.
    intros Ho. unfold jsi_values_normalized, jsi_values. rewrite Ho. unfold NormSpectrum.center. cbn [fst snd].
    f_equal. rewrite map_map. apply map_ext. intros s.
    set (ws := freq (s_signal s)). set (wi := freq (s_idler s)).
    set (w0s := freq (s_signal opt)). set (w0i := freq (s_idler opt)).
    assert (Href : Cmod (jsa_raw opt w0s w0i) ^ 2 * norm_jsi opt w0s w0i = jsi_of opt w0s w0i).
    { unfold NormSpectrum.jsi_of. cbv zeta. destruct (Ceq_dec (jsa_raw opt w0s w0i) 0) as [H0 | H0]; [rewrite H0, Cmod_0; ring | ring]. }
    rewrite Href.
    destruct (Req_EM_T (Cmod (jsa_raw s ws wi) ^ 2) 0); unfold Rdiv; ring.
  Qed.
  Theorem sweep_guarded base setups opt nf :
    try_as_optimum R_ops K minpos op oi base = Ok (opt, nf) ->
    jsi_of opt (fst (center opt)) (snd (center opt)) <> 0 ->
    jsi_values_normalized K minpos op oi jsa_raw norm_jsi freq base setups =
    Ok (map (fun v => v / jsi_of opt (fst (center opt)) (snd (center opt))) (jsi_values jsa_raw norm_jsi freq setups)).
  Proof. intros Ho _. apply (sweep base setups opt nf). exact Ho. Qed.
End Proofs.

(* FULL STRENGTH for the code as it is now: EVERY optimised setup has unit normalised values at its centre *)
Theorem unit_at_centre_of_optimum K minpos jsa_raw singles_raw norm_jsi norm_singles freq s so nf j :
  collinear_contract K -> try_as_optimum_now K minpos s = Ok (so, nf) ->
  joint_spectrum_new K minpos optimum_idler_sees_old_poling optimum_waist_sees_old_idler jsa_raw singles_raw norm_jsi norm_singles freq so = Ok j ->
  let '(w0s, w0i) := center freq so in
  (jsa_of jsa_raw norm_jsi so w0s w0i <> 0%C -> Cmod (jsa_normalized jsa_raw norm_jsi j w0s w0i) = 1) /\
  (0 <= norm_jsi so w0s w0i -> jsi_of jsa_raw norm_jsi so w0s w0i <> 0 -> jsi_normalized jsa_raw norm_jsi j w0s w0i = 1) /\
  (singles_of singles_raw norm_singles so w0s w0i <> 0 -> jsi_singles_normalized singles_raw norm_singles j w0s w0i = 1).
Proof.
  intros HK Ho Hn. apply (unit_at_centre K minpos optimum_idler_sees_old_poling optimum_waist_sees_old_idler jsa_raw singles_raw norm_jsi norm_singles freq so nf j); [| exact Hn].
  exact (optimum_idempotent_now K minpos s so nf HK Ho).
Qed.
