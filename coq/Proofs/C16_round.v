(* Rounding and angle-normalisation lemmas over the reals (R instance of NumOps) used by the C16 round-trip theorems. *)
From Coq Require Import Reals QArith Qreals Lra Lia ZArith.
From SpdVerif Require Import Base.Rx Base.CfgNumOps Model.NumInst Spec.ConfigSpec Gen.ConfigTables Spec.ConfigUnits.
Local Open Scope R_scope.

Lemma Rabs_le_inv a b : Rabs a <= b -> - b <= a <= b.
Proof. unfold Rabs. destruct (Rcase_abs a); lra. Qed.

Lemma Rfloor_IZR z : Rfloor (IZR z) = IZR z.
Proof. apply Rfloor_unique. lra. Qed.

Lemma Rfloor_is_int x : exists z, Rfloor x = IZR z.
Proof. exists (Int_part x). reflexivity. Qed.

Lemma round_half_away_is_int x : exists z, round_half_away x = IZR z.
Proof.
  unfold round_half_away. destruct (Rle_dec 0 x).
  - apply Rfloor_is_int.
  - destruct (Rfloor_is_int (- x + / 2)) as [z Hz]. exists (- z)%Z. rewrite Hz, opp_IZR. reflexivity.
Qed.

Lemma round_half_away_IZR z : round_half_away (IZR z) = IZR z.
Proof.
  unfold round_half_away. destruct (Rle_dec 0 (IZR z)).
  - apply Rfloor_unique. lra.
  - rewrite <- opp_IZR. replace (IZR (- z) + / 2) with (IZR (- z) + / 2) by reflexivity.
    rewrite (Rfloor_unique (IZR (- z) + / 2) (- z)%Z) by lra. rewrite opp_IZR. lra.
Qed.

Lemma round_half_away_err x : Rabs (round_half_away x - x) <= / 2.
Proof.
  unfold round_half_away. destruct (Rle_dec 0 x).
  - pose proof (Rfloor_spec (x + / 2)). apply Rabs_le. lra.
  - pose proof (Rfloor_spec (- x + / 2)). apply Rabs_le. lra.
Qed.

Lemma round_half_away_nonneg x : 0 <= x -> 0 <= round_half_away x.
Proof.
  intros H. unfold round_half_away. destruct (Rle_dec 0 x); [| lra].
  destruct (Rfloor_is_int (x + / 2)) as [z Hz]. rewrite Hz.
  pose proof (Rfloor_spec (x + / 2)) as [H1 H2]. rewrite Hz in *.
  assert (-1 < IZR z) by lra. apply IZR_le. apply lt_IZR in H0. lia.
Qed.

Lemma round_half_away_nonpos x : x <= 0 -> round_half_away x <= 0.
Proof.
  intros H. unfold round_half_away. destruct (Rle_dec 0 x).
  - assert (x = 0) by lra. subst. rewrite (Rfloor_unique (0 + / 2) 0%Z); lra.
  - destruct (Rfloor_is_int (- x + / 2)) as [z Hz]. rewrite Hz.
    pose proof (Rfloor_spec (- x + / 2)) as [H1 H2]. rewrite Hz in *.
    assert (-1 < IZR z) by lra. apply lt_IZR in H0. assert (0 <= IZR z) by (apply IZR_le; lia). lra.
Qed.

Lemma round_half_away_mono_bounds x (a b : Z) : IZR a <= x <= IZR b -> IZR a <= round_half_away x <= IZR b.
Proof.
  intros [Ha Hb]. destruct (round_half_away_is_int x) as [z Hz]. pose proof (round_half_away_err x) as He.
  rewrite Hz in *. apply Rabs_le_inv in He.
  assert (IZR a - 1 < IZR z) by lra. assert (IZR z < IZR b + 1) by lra.
  rewrite <- minus_IZR in H. rewrite <- plus_IZR in H0. apply lt_IZR in H, H0.
  split; apply IZR_le; lia.
Qed.

(* ---- round4 *)
Lemma round4_is_int x : exists z, round4 x = IZR z / 10000.
Proof. destruct (round_half_away_is_int (x * 10000)) as [z Hz]. exists z. unfold round4. rewrite Hz. reflexivity. Qed.

Lemma round4_idempotent x : round4 (round4 x) = round4 x.
Proof.
  destruct (round4_is_int x) as [z Hz]. rewrite Hz. unfold round4.
  replace (IZR z / 10000 * 10000) with (IZR z) by (field). rewrite round_half_away_IZR. reflexivity.
Qed.

Lemma round4_0 : round4 0 = 0.
Proof. unfold round4. rewrite Rmult_0_l. change 0 with (IZR 0) at 1. rewrite round_half_away_IZR. lra. Qed.

Lemma round4_err x : Rabs (round4 x - x) <= / 20000.
Proof.
  unfold round4. pose proof (round_half_away_err (x * 10000)) as H. apply Rabs_le_inv in H. apply Rabs_le. lra.
Qed.

Lemma round4_nonpos x : x <= 0 -> round4 x <= 0.
Proof. intros H. unfold round4. pose proof (round_half_away_nonpos (x * 10000)). lra. Qed.

Lemma round4_nonneg x : 0 <= x -> 0 <= round4 x.
Proof. intros H. unfold round4. pose proof (round_half_away_nonneg (x * 10000)). lra. Qed.

Lemma round4_bounds x (a b : Z) : IZR a <= x <= IZR b -> IZR a <= round4 x <= IZR b.
Proof.
  intros H. unfold round4.
  pose proof (round_half_away_mono_bounds (x * 10000) (a * 10000) (b * 10000)) as Hb.
  rewrite !mult_IZR in Hb. lra.
Qed.

(* ---- the R instance of the generated sigfigs is round4, and the unit constants are what the spec says *)
Lemma nZ_R z : nZ R_ops z = IZR z.
Proof. unfold nZ. cbn [nQ R_ops]. unfold Q2R, inject_Z. cbn [Qnum Qden]. lra. Qed.

Lemma sigfigs_R x : sigfigs R_ops x sig_figs_in_config = round4 x.
Proof.
  unfold sigfigs, sig_figs_in_config, round4. cbn zeta. rewrite nZ_R. cbn [ndiv nmul nround R_ops].
  change (10 ^ 4)%Z with 10000%Z. reflexivity.
Qed.

Lemma u_deg_R : u_deg R_ops = deg.
Proof. unfold u_deg, deg. cbn [ndiv npi R_ops]. rewrite nZ_R. reflexivity. Qed.
Lemma u_micro_R : u_micro R_ops = micro.
Proof. unfold u_micro, micro. cbn [nQ R_ops]. unfold Q2R. cbn [Qnum Qden]. lra. Qed.
Lemma u_nano_R : u_nano R_ops = nano.
Proof. unfold u_nano, nano. cbn [nQ R_ops]. unfold Q2R. cbn [Qnum Qden]. lra. Qed.
Lemma u_pico_R : u_pico R_ops = pico.
Proof. unfold u_pico, pico. cbn [nQ R_ops]. unfold Q2R. cbn [Qnum Qden]. lra. Qed.
Lemma kelvin_offset_R : kelvin_offset R_ops = 27315 / 100.
Proof. unfold kelvin_offset. cbn [nQ R_ops]. unfold Q2R. cbn [Qnum Qden]. lra. Qed.
Lemma n0_R : n0 R_ops = 0.
Proof. unfold n0. apply nZ_R. Qed.
Lemma ntwo_pi_R : ntwo_pi R_ops = 2 * PI.
Proof. unfold ntwo_pi. cbn [nmul npi R_ops]. rewrite nZ_R. reflexivity. Qed.

Lemma deg_pos : 0 < deg.
Proof. unfold deg. pose proof PI_RGT_0. lra. Qed.
Lemma micro_pos : 0 < micro.
Proof. unfold micro. lra. Qed.
Lemma nano_pos : 0 < nano.
Proof. unfold nano. lra. Qed.
Lemma pico_pos : 0 < pico.
Proof. unfold pico. lra. Qed.

(* ---- angle normalisation: identity on its range *)
Lemma rem_euclid_id x m : 0 <= x < m -> rem_euclid x m = x.
Proof.
  intros [H1 H2]. unfold rem_euclid. rewrite (Rfloor_unique (x / m) 0%Z).
  - lra.
  - assert (0 < m) by lra. split.
    + apply Rmult_le_pos; [lra | left; apply Rinv_0_lt_compat; lra].
    + apply (Rmult_lt_reg_r m); [lra |]. unfold Rdiv. rewrite Rmult_assoc, Rinv_l by lra. lra.
Qed.

Lemma rem_euclid_shift x m : 0 < m -> - m <= x < 0 -> rem_euclid x m = x + m.
Proof.
  intros Hm [H1 H2]. unfold rem_euclid. rewrite (Rfloor_unique (x / m) (-1)%Z).
  - lra.
  - split.
    + apply (Rmult_le_reg_r m); [lra |]. unfold Rdiv. rewrite Rmult_assoc, Rinv_l by lra. lra.
    + apply (Rmult_lt_reg_r m); [lra |]. unfold Rdiv. rewrite Rmult_assoc, Rinv_l by lra. lra.
Qed.
