(* C01 obligations for crystal KDP_1 (instantiates Proofs/C01_tac.v). *)
From Coq Require Import Reals List Lra.
From Interval Require Import Tactic.
From SpdVerif Require Import Base.Rx Spec.CrystalTypes Spec.Published Gen.Crystals Proofs.Sellmeier Proofs.C01_tac.
Local Open Scope R_scope.

Lemma matches ax l T : in_window KDP_1 l -> temp_ok T -> n_of KDP_1 ax l T = published KDP_1 ax l T.
Proof. t_matches. Qed.

Lemma defined ax l T : in_window KDP_1 l -> temp_ok T -> sell_defined (pub_sell KDP_1 ax l T) (l ^ 2).
Proof. t_defined. Qed.

Lemma bounds ax l T : in_window KDP_1 l -> temp_ok T -> 1 < n_of KDP_1 ax l T < 4.
Proof. t_bounds. Qed.

Lemma decreasing ax l1 l2 T :
  in_window KDP_1 l1 -> in_window KDP_1 l2 -> temp_ok T -> l1 < l2 -> n_of KDP_1 ax l2 T < n_of KDP_1 ax l1 T.
Proof. t_decreasing matches defined. Qed.

Lemma class l T : in_window KDP_1 l -> temp_ok T ->
  n_of KDP_1 AX l T = n_of KDP_1 AY l T /\ n_of KDP_1 AZ l T < n_of KDP_1 AX l T.
Proof. t_class_neg_uniaxial. Qed.

Lemma temperature ax l T T' : in_window KDP_1 l -> temp_ok T -> temp_ok T' ->
  n_of KDP_1 ax l T = n_of KDP_1 ax l T'.
Proof. t_temperature_none matches. Qed.
