(* C19 — poling domains: count, entries, duty cycle, order flip. *)
From Coq Require Import Reals Lra Lia List ZArith.
From Interval Require Import Tactic.
From SpdVerif Require Import Base.Rx Base.PolingBase Gen.Poling Model.Poling Proofs.C19_base Proofs.C19_windows.
Local Open Scope R_scope.

(* ---- count ---- *)
Lemma num_domains_is_ceil p s ap L : pp_num_domains (On p s ap) L = Rceil (L / p).
Proof. reflexivity. Qed.

(* ceil(L / p) described without Coq's Rceil: the unique natural k >= 1 with (k - 1) p < L <= k p *)
Lemma count p s ap L : 0 < p -> 0 < L ->
  exists k : nat, (1 <= k)%nat /\ pp_num_domains (On p s ap) L = INR k /\
    (INR k - 1) * p < L <= INR k * p /\ length (pp_poling_domains (On p s ap) L) = k /\
    length (pp_poling_domain_lengths (On p s ap) L) = k.
Proof.
  intros Hp HL.
  assert (Hq : 0 < L / p) by (apply Rdiv_lt_0_compat; lra).
  destruct (Rceil_pos_nat _ Hq) as [k [Hk1 Hk]].
  exists k. split; [exact Hk1|]. split; [exact Hk|].
  pose proof (Rceil_spec (L / p)) as [C1 C2]. rewrite Hk in *.
  assert (HLp : (L / p) * p = L) by (field; lra).
  split.
  - split.
    + rewrite <- HLp. apply Rmult_lt_compat_r; lra.
    + rewrite <- HLp. apply Rmult_le_compat_r; lra.
  - unfold pp_poling_domain_lengths. cbv zeta. rewrite map_length.
    unfold pp_poling_domains. cbv zeta. rewrite map_length, seq_length.
    cbn [pp_num_domains]. rewrite Hk, usize_of_INR. auto.
Qed.

Lemma count_unique p L (k k' : nat) :
  0 < p -> (INR k - 1) * p < L <= INR k * p -> (INR k' - 1) * p < L <= INR k' * p -> k = k'.
Proof.
  intros Hp [A1 A2] [B1 B2].
  assert (H1 : INR k - 1 < INR k') by (apply Rmult_lt_reg_r with p; lra).
  assert (H2 : INR k' - 1 < INR k) by (apply Rmult_lt_reg_r with p; lra).
  assert (INR k < INR (k' + 1)) by (rewrite plus_INR; simpl INR; lra).
  assert (INR k' < INR (k + 1)) by (rewrite plus_INR; simpl INR; lra).
  apply INR_lt in H, H0. lia.
Qed.

Lemma count_off L : pp_num_domains Off L = 0 /\ pp_poling_domains Off L = nil /\ pp_poling_domain_lengths Off L = nil.
Proof. repeat split. Qed.

(* ---- entries ---- *)
Lemma domains_nth p s ap L (n k : nat) d :
  pp_num_domains (On p s ap) L = INR n -> (k < n)%nat ->
  nth k (pp_poling_domains (On p s ap) L) d = domain_entry ap L (INR n) (INR k).
Proof.
  intros Hn Hk. unfold pp_poling_domains. cbv zeta. rewrite Hn, usize_of_INR.
  rewrite (nth_indep _ d (domain_entry ap L (INR n) (INR 0))) by (rewrite map_length, seq_length; exact Hk).
  change (domain_entry ap L (INR n) (INR 0)) with ((fun k0 : nat => domain_entry ap L (INR n) (INR k0)) 0%nat).
  rewrite map_nth, seq_nth by exact Hk. reflexivity.
Qed.

Lemma domain_lengths_nth p s ap L (n k : nat) d :
  pp_num_domains (On p s ap) L = INR n -> (k < n)%nat ->
  nth k (pp_poling_domain_lengths (On p s ap) L) d =
  (fst (domain_entry ap L (INR n) (INR k)) * p, snd (domain_entry ap L (INR n) (INR k)) * p).
Proof.
  intros Hn Hk. unfold pp_poling_domain_lengths. cbv zeta.
  assert (Hlen : length (pp_poling_domains (On p s ap) L) = n).
  { unfold pp_poling_domains. cbv zeta. now rewrite map_length, seq_length, Hn, usize_of_INR. }
  set (f := fun e : R * R => (fst e * p, snd e * p)).
  rewrite (nth_indep _ d (f (0, 0))) by (rewrite map_length, Hlen; exact Hk).
  rewrite map_nth. unfold f. now rewrite (domains_nth p s ap L n k) by assumption.
Qed.

(* centre of domain i of n: -1 + (2 i + 1) / n, strictly inside (-1, 1): the range assertion of the window never fires *)
Lemma domain_centre_eq n i : n <> 0 -> domain_centre n i = (2 * i + 1) / n - 1.
Proof. intros Hn. unfold domain_centre. replace 0.5 with (/ 2) by lra. field. exact Hn. Qed.

Lemma domain_centre_range (n k : nat) : (k < n)%nat -> -1 < domain_centre (INR n) (INR k) < 1.
Proof.
  intros Hk.
  assert (Hn : 0 < INR n) by (apply lt_0_INR; lia).
  assert (Hk0 : 0 <= INR k) by apply pos_INR.
  assert (Hk1 : INR k + 1 <= INR n).
  { replace (INR k + 1) with (INR (k + 1)) by (rewrite plus_INR; simpl; ring). apply le_INR. lia. }
  rewrite domain_centre_eq by lra.
  assert (Hi : 0 < / INR n) by (apply Rinv_0_lt_compat; lra).
  assert (Hq : 0 < (2 * INR k + 1) / INR n < 2).
  { split.
    - unfold Rdiv. apply Rmult_lt_0_compat; lra.
    - apply Rmult_lt_reg_r with (INR n); [lra|]. unfold Rdiv. rewrite Rmult_assoc, Rinv_l; lra. }
  lra.
Qed.

Lemma domain_centre_mirror (n k : nat) : (k < n)%nat ->
  domain_centre (INR n) (INR (n - 1 - k)) = - domain_centre (INR n) (INR k).
Proof.
  intros Hk. assert (Hn : 0 < INR n) by (apply lt_0_INR; lia).
  rewrite !domain_centre_eq by lra.
  rewrite !minus_INR by lia. simpl INR. field. lra.
Qed.

Lemma domain_centre_sign (n k : nat) : (k < n)%nat ->
  (domain_centre (INR n) (INR k) > 0 <-> (n < 2 * k + 1)%nat).
Proof.
  intros Hk. assert (Hn : 0 < INR n) by (apply lt_0_INR; lia).
  rewrite domain_centre_eq by lra.
  assert (Hi : 0 < / INR n) by (apply Rinv_0_lt_compat; lra).
  assert (E : (2 * INR k + 1) / INR n - 1 = (2 * INR k + 1 - INR n) * / INR n) by (field; lra).
  rewrite E.
  assert (E2 : 2 * INR k + 1 = INR (2 * k + 1)).
  { rewrite plus_INR, mult_INR. simpl INR. ring. }
  rewrite E2.
  split.
  - intros H. apply INR_lt. nra.
  - intros H. apply lt_INR in H. apply Rlt_gt. apply Rmult_lt_0_compat; lra.
Qed.

(* the generated pair in let-form *)
Lemma domain_entry_eq ap L n i :
  domain_entry ap L n i =
  let z := domain_centre n i in
  let x := duty (integration_constant ap z L) in
  if Rgt_dec z 0 then (1 - x, x) else (x, 1 - x).
Proof.
  unfold domain_entry, duty. cbv zeta. fold (domain_centre n i).
  destruct (Rgt_dec (domain_centre n i) 0); reflexivity.
Qed.

(* ---- duty cycle ---- *)
Lemma duty_spec a : -1 <= a <= 1 -> 0 <= duty a <= / 2 /\ sin (PI * duty a) = Rabs a.
Proof.
  intros Ha. unfold duty.
  assert (Hy : -1 <= 1 - 2 * a ^ 2 <= 1) by nra.
  pose proof (acos_bound (1 - 2 * a ^ 2)) as [B1 B2].
  pose proof (cos_acos _ Hy) as Hc.
  set (th := acos (1 - 2 * a ^ 2)) in *.
  pose proof PI_RGT_0 as Hpi.
  assert (Hi : 0 < / (2 * PI)) by (apply Rinv_0_lt_compat; lra).
  split.
  - split.
    + unfold Rdiv. apply Rmult_le_pos; lra.
    + apply Rmult_le_reg_r with (2 * PI); [lra|]. unfold Rdiv. rewrite Rmult_assoc, Rinv_l; lra.
  - replace (PI * (th / (2 * PI))) with (th / 2) by (field; lra).
    assert (Hs : 0 <= sin (th / 2)) by (apply sin_ge_0; lra).
    assert (Hsq : sin (th / 2) * sin (th / 2) = a * a).
    { pose proof (cos_2a_sin (th / 2)) as H2. replace (2 * (th / 2)) with th in H2 by field. nra. }
    unfold Rabs. destruct (Rcase_abs a); nra.
Qed.

Lemma duty_one : duty 1 = / 2 /\ duty (-1) = / 2.
Proof.
  pose proof PI_RGT_0 as Hpi.
  assert (H : acos (-1) = PI).
  { replace (-1) with (- (1)) by ring. rewrite acos_opp, acos_1. ring. }
  unfold duty. split.
  - replace (1 - 2 * 1 ^ 2) with (-1) by ring. rewrite H. field. lra.
  - replace (1 - 2 * (-1) ^ 2) with (-1) by ring. rewrite H. field. lra.
Qed.

Lemma duty_zero : duty 0 = 0.
Proof.
  unfold duty. replace (1 - 2 * 0 ^ 2) with 1 by ring. rewrite acos_1. unfold Rdiv. ring.
Qed.

(* the duty cycle determines |a| on [0, 1/2] (inverse direction): d in [0,1/2] and sin (pi d) = |a| has one solution *)
Lemma duty_unique a d : -1 <= a <= 1 -> 0 <= d <= / 2 -> sin (PI * d) = Rabs a -> d = duty a.
Proof.
  intros Ha Hd Hs. destruct (duty_spec a Ha) as [[D1 D2] Hs'].
  pose proof PI_RGT_0 as Hpi.
  assert (E : sin (PI * d) = sin (PI * duty a)) by congruence.
  assert (R1 : - (PI / 2) <= PI * d <= PI / 2) by nra.
  assert (R2 : - (PI / 2) <= PI * duty a <= PI / 2) by nra.
  destruct (Rtotal_order (PI * d) (PI * duty a)) as [Hlt | [Heq | Hgt]].
  - pose proof (sin_increasing_1 _ _ (proj1 R1) (proj2 R1) (proj1 R2) (proj2 R2) Hlt). lra.
  - apply Rmult_eq_reg_l with PI; lra.
  - pose proof (sin_increasing_1 _ _ (proj1 R2) (proj2 R2) (proj1 R1) (proj2 R1) Hgt). lra.
Qed.

(* ---- the statement about one entry ---- *)
Lemma entry_wellformed ap L (n k : nat) :
  (k < n)%nat ->
  let zc := domain_centre (INR n) (INR k) in
  let a := integration_constant ap zc L in
  -1 <= a <= 1 ->
  let e := domain_entry ap L (INR n) (INR k) in
  0 <= fst e <= 1 /\ 0 <= snd e <= 1 /\ fst e + snd e = 1 /\
  let d := Rmin (fst e) (snd e) in
  d = duty a /\ 0 <= d <= / 2 /\ sin (PI * d) = Rabs a /\
  (* order: the narrower fraction comes first up to and including the centre, second after it *)
  ((n < 2 * k + 1)%nat -> e = (1 - d, d)) /\ ((2 * k + 1 <= n)%nat -> e = (d, 1 - d)).
Proof.
  intros Hk zc a Ha e.
  destruct (duty_spec a Ha) as [[D1 D2] Hs].
  pose proof (domain_centre_sign n k Hk) as Hsign. fold zc in Hsign.
  unfold e. rewrite domain_entry_eq. cbv zeta. fold zc. fold a.
  destruct (Rgt_dec zc 0) as [Hz | Hz]; cbn [fst snd].
  - assert (Hm : Rmin (1 - duty a) (duty a) = duty a) by (apply Rmin_right; lra).
    rewrite Hm. repeat split; try lra; try assumption.
    intros Hle. apply Hsign in Hz. lia.
  - assert (Hm : Rmin (duty a) (1 - duty a) = duty a) by (apply Rmin_left; lra).
    rewrite Hm. repeat split; try lra; try assumption.
    intros Hlt. apply Hsign in Hlt. contradiction.
Qed.

(* for the windows of the property no hypothesis on the window value is needed *)
Lemma unit_window_value_ok ap L (n k : nat) :
  unit_window ap L -> (k < n)%nat -> -1 <= integration_constant ap (domain_centre (INR n) (INR k)) L <= 1.
Proof.
  intros Hu Hk. pose proof (domain_centre_range n k Hk) as Hz.
  assert (Hz' : -1 <= domain_centre (INR n) (INR k) <= 1) by lra.
  pose proof (range ap L _ Hu Hz'). lra.
Qed.

(* no apodization: 50 % duty cycle everywhere *)
Lemma entry_off L (n k : nat) : domain_entry ApOff L (INR n) (INR k) = (/ 2, / 2).
Proof.
  rewrite domain_entry_eq. cbv zeta. cbn [integration_constant]. unfold apod_Off.
  destruct duty_one as [H _]. rewrite H.
  destruct (Rgt_dec _ 0); f_equal; lra.
Qed.

(* even windows give a mirror-symmetric domain list *)
Lemma entry_mirror ap L (n k : nat) :
  unit_window ap L -> (k < n)%nat -> (2 * k + 1 <> n)%nat ->
  domain_entry ap L (INR n) (INR (n - 1 - k)) =
  (snd (domain_entry ap L (INR n) (INR k)), fst (domain_entry ap L (INR n) (INR k))).
Proof.
  intros Hu Hk Hne. rewrite !domain_entry_eq. cbv zeta.
  rewrite domain_centre_mirror by exact Hk. rewrite (even ap L _ Hu).
  pose proof (domain_centre_sign n k Hk) as Hs.
  set (zc := domain_centre (INR n) (INR k)) in *.
  assert (Hz0 : zc <> 0).
  { intros E0. unfold zc in E0. assert (Hn : 0 < INR n) by (apply lt_0_INR; lia).
    rewrite domain_centre_eq in E0 by lra.
    assert (E1 : 2 * INR k + 1 = INR n).
    { apply Rmult_eq_reg_r with (/ INR n); [|apply Rgt_not_eq, Rlt_gt, Rinv_0_lt_compat; lra].
      rewrite Rinv_r by lra. unfold Rdiv in E0. lra. }
    assert (E2 : INR (2 * k + 1) = INR n) by (rewrite plus_INR, mult_INR; simpl INR; lra).
    apply INR_eq in E2. lia. }
  destruct (Rgt_dec zc 0), (Rgt_dec (- zc) 0); cbn [fst snd]; try reflexivity; lra.
Qed.

(* domain lengths: fractions of the period; the two add up to the period *)
Lemma lengths_sum ap L p (n k : nat) :
  (k < n)%nat -> -1 <= integration_constant ap (domain_centre (INR n) (INR k)) L <= 1 ->
  let e := domain_entry ap L (INR n) (INR k) in fst e * p + snd e * p = p.
Proof.
  intros Hk Ha e. destruct (entry_wellformed ap L n k Hk Ha) as (_ & _ & Hsum & _).
  fold e in Hsum. nra.
Qed.
