(* The remaining thin wrappers of `impl SPDC` (as_config, joint_spectrum, with_optimum_periodic_poling, with_poling_period), one
   generated file each (Gen/W_SPDC_*.v): source pins (string lists) and definitions with the callees bound by field name.
   No property imports this file; ./check wrappers builds it. *)
From Coq Require Import List String.
From SpdVerif Require Import Gen.WrapBase Gen.W_SPDC_as_config Gen.W_SPDC_joint_spectrum Gen.W_SPDC_with_optimum_periodic_poling
  Gen.W_SPDC_with_poling_period.
Import ListNotations.

Lemma wrap_misc_sources :
  SPDC_as_config_calls = [("return", "crate::SPDCConfig::from", ["self"])]%string /\
  SPDC_joint_spectrum_calls = [("return", "JointSpectrum::new", ["self.clone()"; "integrator"])]%string /\
  SPDC_with_optimum_periodic_poling_calls = [("self", "assign_optimum_periodic_poling?", []); ("return", "Ok", ["self"])]%string /\
  SPDC_with_poling_period_calls = [("self", "assign_poling_period", ["period"]); ("return", "", ["self"])]%string.
Proof. repeat split; reflexivity. Qed.

Section Order.
Variable obj : Type.
Notation spdc := (spdc obj).

Lemma wrap_as_config_order : forall (from : spdc -> obj) (s : spdc),
  SPDC_as_config_gen {| SPDC_as_config_K_SPDCConfig_from := from |} s = from s.
Proof. reflexivity. Qed.

Lemma wrap_joint_spectrum_order : forall (jsnew : spdc -> obj -> obj) (s : spdc) (integrator : obj),
  SPDC_joint_spectrum_gen {| SPDC_joint_spectrum_K_JointSpectrum_new := jsnew |} s integrator = jsnew s integrator.
Proof. reflexivity. Qed.

Lemma wrap_with_optimum_periodic_poling : forall (assign : spdc -> option spdc) (s : spdc),
  SPDC_with_optimum_periodic_poling_gen {| SPDC_with_optimum_periodic_poling_K_assign_optimum_periodic_poling := assign |} s = assign s.
Proof. intros. unfold SPDC_with_optimum_periodic_poling_gen. cbn. destruct (assign s); reflexivity. Qed.

Lemma wrap_with_poling_period : forall (assign : spdc -> obj -> spdc) (s : spdc) (period : obj),
  SPDC_with_poling_period_gen {| SPDC_with_poling_period_K_assign_poling_period := assign |} s period = assign s period.
Proof. reflexivity. Qed.
End Order.

Print Assumptions wrap_misc_sources.
Print Assumptions wrap_as_config_order.
Print Assumptions wrap_joint_spectrum_order.
Print Assumptions wrap_with_optimum_periodic_poling.
Print Assumptions wrap_with_poling_period.
