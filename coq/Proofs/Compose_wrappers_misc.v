(* The remaining thin wrappers of `impl SPDC` (as_config, joint_spectrum, with_optimum_periodic_poling, with_poling_period,
   with_optimum_idler, optimum_crystal_theta, with_optimum_crystal_theta), one
   generated file each (Gen/W_SPDC_*.v): source pins (string lists) and definitions with the callees bound by field name.
   No property imports this file; ./check wrappers builds it. *)
From Coq Require Import List String.
From Coq Require Import Reals.
From SpdVerif Require Import Base.Rx Base.Vec3 Gen.Idler Model.Idler.
From SpdVerif Require Import Gen.WrapBase Gen.W_SPDC_as_config Gen.W_SPDC_joint_spectrum Gen.W_SPDC_with_optimum_periodic_poling
  Gen.W_SPDC_with_poling_period Gen.W_SPDC_with_optimum_idler Gen.W_SPDC_optimum_crystal_theta Gen.W_SPDC_with_optimum_crystal_theta
  Gen.W_SPDC_assign_optimum_idler Gen.W_SPDC_assign_optimum_crystal_theta Proofs.Compose_wrappers_c03.
Import ListNotations.

Lemma wrap_misc_sources :
  SPDC_as_config_calls = [("return", "crate::SPDCConfig::from", ["self"])]%string /\
  SPDC_joint_spectrum_calls = [("return", "JointSpectrum::new", ["self.clone()"; "integrator"])]%string /\
  SPDC_with_optimum_periodic_poling_calls = [("self", "assign_optimum_periodic_poling?", []); ("return", "Ok", ["self"])]%string /\
  SPDC_with_poling_period_calls = [("self", "assign_poling_period", ["period"]); ("return", "", ["self"])]%string /\
  SPDC_with_optimum_idler_calls = [("self", "assign_optimum_idler?", []); ("return", "Ok", ["self"])]%string /\
  SPDC_optimum_crystal_theta_calls = [("return", "self.crystal_setup.optimum_theta", ["&self.signal"; "&self.pump"])]%string /\
  SPDC_with_optimum_crystal_theta_calls =
    [("self.pp", "=", ["PeriodicPoling::Off"]); ("self", "assign_optimum_crystal_theta", []); ("return", "", ["self"])]%string.
Proof. repeat split; reflexivity. Qed.

Section Order.
Variable obj : Type.
Notation spdc := (spdc obj).

Lemma wrap_as_config_order : forall (from : spdc -> obj) (s : spdc),
  SPDC_as_config_gen {| SPDC_as_config_K_SPDCConfig_from := from |} s = from s.
Proof. reflexivity. Qed.

Lemma wrap_joint_spectrum_order : forall (jsnew : spdc -> obj -> obj) (s : spdc) (integrator : obj),
  SPDC_joint_spectrum_gen {| SPDC_joint_spectrum_K_JointSpectrum_new := jsnew |} s integrator = jsnew s integrator.
Proof. reflexivity. Qed.

Lemma wrap_with_optimum_periodic_poling : forall (assign : spdc -> option spdc) (s : spdc),
  SPDC_with_optimum_periodic_poling_gen {| SPDC_with_optimum_periodic_poling_K_assign_optimum_periodic_poling := assign |} s = assign s.
Proof. intros. unfold SPDC_with_optimum_periodic_poling_gen. cbn. destruct (assign s); reflexivity. Qed.

Lemma wrap_with_poling_period : forall (assign : spdc -> obj -> spdc) (s : spdc) (period : obj),
  SPDC_with_poling_period_gen {| SPDC_with_poling_period_K_assign_poling_period := assign |} s period = assign s period.
Proof. reflexivity. Qed.
Lemma wrap_optimum_crystal_theta_order : forall (ot : obj -> obj -> obj -> obj) (s : spdc),
  SPDC_optimum_crystal_theta_gen {| SPDC_optimum_crystal_theta_K_optimum_theta := ot |} s = ot (crystal_setup s) (signal s) (pump s).
Proof. reflexivity. Qed.

(* the with_ forms are the assign_ forms on the moved value *)
Lemma wrap_with_optimum_idler : forall (assign : spdc -> option spdc) (s : spdc),
  SPDC_with_optimum_idler_gen {| SPDC_with_optimum_idler_K_assign_optimum_idler := assign |} s = assign s.
Proof. intros. unfold SPDC_with_optimum_idler_gen. cbn. destruct (assign s); reflexivity. Qed.

(* with_optimum_crystal_theta switches the poling off and calls assign_optimum_crystal_theta; composed with the generated
   assign_ it is the same state as assign_ alone (the first `self.pp = Off` is redundant) *)
Lemma wrap_with_optimum_crystal_theta : forall (off : obj) (assign : spdc -> spdc) (s : spdc),
  SPDC_with_optimum_crystal_theta_gen {| SPDC_with_optimum_crystal_theta_K_PeriodicPoling_Off := off;
                                         SPDC_with_optimum_crystal_theta_K_assign_optimum_crystal_theta := assign |} s = assign (set_pp s off).
Proof. reflexivity. Qed.

Lemma wrap_with_optimum_crystal_theta_composed : forall (off : obj) (aot : obj -> obj -> obj -> obj) (s : spdc),
  let Ka := {| SPDC_assign_optimum_crystal_theta_K_PeriodicPoling_Off := off;
               SPDC_assign_optimum_crystal_theta_K_assign_optimum_theta := aot |} in
  SPDC_with_optimum_crystal_theta_gen {| SPDC_with_optimum_crystal_theta_K_PeriodicPoling_Off := off;
                                         SPDC_with_optimum_crystal_theta_K_assign_optimum_crystal_theta := SPDC_assign_optimum_crystal_theta_gen Ka |} s =
  SPDC_assign_optimum_crystal_theta_gen Ka s.
Proof. reflexivity. Qed.

End Order.

Section OnModel.
Variable index : R -> vec -> polarization -> R.
(* with_optimum_idler(self) = assign_optimum_idler on the moved value: an error leaves no half-updated object behind *)
Corollary wrap_with_optimum_idler_model : forall s i p pm cp q zs zi,
  SPDC_with_optimum_idler_gen
    {| SPDC_with_optimum_idler_K_assign_optimum_idler := SPDC_assign_optimum_idler_gen (K_assign_optimum_idler index) |} (spdc_of s i p pm cp q zs zi) =
  match optimum_idler index pm cp s p q with
  | Some o => Some (spdc_of s (mkBeam (b_pol o) (b_phi o) (b_theta o) (b_omega o) (b_dir o) (b_waist i)) p pm cp q zs zi)
  | None => None
  end.
Proof. intros. rewrite wrap_with_optimum_idler. apply wrap_assign_optimum_idler_model. Qed.
End OnModel.

Print Assumptions wrap_misc_sources.
Print Assumptions wrap_as_config_order.
Print Assumptions wrap_joint_spectrum_order.
Print Assumptions wrap_with_optimum_periodic_poling.
Print Assumptions wrap_with_poling_period.
Print Assumptions wrap_optimum_crystal_theta_order.
Print Assumptions wrap_with_optimum_idler.
Print Assumptions wrap_with_optimum_crystal_theta.
Print Assumptions wrap_with_optimum_crystal_theta_composed.
Print Assumptions wrap_with_optimum_idler_model.
