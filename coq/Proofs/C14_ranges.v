(* C14 — the range evaluators of JointSpectrum are `map point (points of the range)` with the documented argument order:
   checked on the table generated from src/jsa/joint_spectrum.rs. *)
From Coq Require Import String List Bool.
From SpdVerif Require Import Gen.Ranges.
Import ListNotations.
Local Open Scope string_scope.

Definition entry_ok (e : string * (string * string * (string * string))) : bool :=
  let '(rf, (recv, pf, (a1, a2))) := e in
  if String.eqb recv "self"
  then String.eqb rf (pf ++ "_range") && String.eqb a1 "signal" && String.eqb a2 "idler"
  else String.eqb recv "swapped" && String.eqb a1 "idler" && String.eqb a2 "signal" &&
       (String.eqb rf "jsi_singles_idler_range" && String.eqb pf "jsi_singles" ||
        String.eqb rf "jsi_singles_idler_normalized_range" && String.eqb pf "jsi_singles_normalized").

Definition has (name : string) : bool := existsb (fun e => String.eqb (fst e) name) range_calls.

Lemma range_table_ok :
  forallb entry_ok range_calls = true /\ has "jsa_range" = true /\ has "jsi_range" = true /\ has "jsi_singles_range" = true.
Proof. vm_compute. repeat split. Qed.

(* all eight evaluators, by name, and nothing else *)
Lemma range_table_names :
  map fst range_calls = ["jsa_range"; "jsa_normalized_range"; "jsi_range"; "jsi_normalized_range"; "jsi_singles_range"; "jsi_singles_idler_range";
                         "jsi_singles_normalized_range"; "jsi_singles_idler_normalized_range"].
Proof. reflexivity. Qed.
