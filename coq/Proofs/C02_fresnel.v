(* C02 — algebra of Fresnel's wave-normal equation: discriminant, interlacing, symmetry, uniaxial closed form. *)
From Coq Require Import Reals Lra Psatz.
From SpdVerif Require Import Model.Optics Model.Fresnel.
Local Open Scope R_scope.

Section Algebra.
Variables ax ay az px py pz : R.
Hypothesis Hpx : 0 <= px.
Hypothesis Hpy : 0 <= py.
Hypothesis Hpz : 0 <= pz.
Hypothesis Hsum : px + py + pz = 1.

Let b := fb ax ay az px py pz.
Let c := fc ax ay az px py pz.
Let D := fdisc ax ay az px py pz.

(* the quadratic of the code is Fresnel's polynomial (needs |s| = 1) *)
Lemma poly_is_quadratic y : fresnel_poly ax ay az px py pz y = y ^ 2 - b * y + c.
Proof.
  unfold fresnel_poly, b, c, fb, fc.
  replace (y ^ 2) with ((px + py + pz) * y ^ 2) by (rewrite Hsum; ring). ring.
Qed.

(* classical form of the discriminant *)
Lemma disc_form :
  D = (px * (ay - az)) ^ 2 + (py * (az - ax)) ^ 2 + (pz * (ax - ay)) ^ 2
      - 2 * (px * (ay - az)) * (py * (az - ax)) - 2 * (py * (az - ax)) * (pz * (ax - ay))
      - 2 * (pz * (ax - ay)) * (px * (ay - az)).
Proof.
  unfold D, fdisc, fb, fc.
  replace (4 * (px * (ay * az) + py * (ax * az) + pz * (ax * ay)))
    with (4 * (px + py + pz) * (px * (ay * az) + py * (ax * az) + pz * (ax * ay))) by (rewrite Hsum; ring).
  ring.
Qed.

Lemma disc_mid_y : 0 <= (ay - az) * (ax - ay) ->
  D = (px * (ay - az) - pz * (ax - ay)) ^ 2 + (py * (az - ax)) ^ 2
      + 2 * py * (px * (ay - az) ^ 2 + pz * (ax - ay) ^ 2 + (px + pz) * ((ay - az) * (ax - ay))).
Proof. intros _. rewrite disc_form. ring. Qed.

Lemma disc_mid_x : 0 <= (az - ax) * (ax - ay) ->
  D = (py * (az - ax) - pz * (ax - ay)) ^ 2 + (px * (ay - az)) ^ 2
      + 2 * px * (py * (az - ax) ^ 2 + pz * (ax - ay) ^ 2 + (py + pz) * ((az - ax) * (ax - ay))).
Proof. intros _. rewrite disc_form. ring. Qed.

Lemma disc_mid_z : 0 <= (ay - az) * (az - ax) ->
  D = (px * (ay - az) - py * (az - ax)) ^ 2 + (pz * (ax - ay)) ^ 2
      + 2 * pz * (px * (ay - az) ^ 2 + py * (az - ax) ^ 2 + (px + py) * ((ay - az) * (az - ax))).
Proof. intros _. rewrite disc_form. ring. Qed.

(* among three reals with sum zero two have the same sign *)
Lemma two_same_sign (u v w : R) : u + v + w = 0 -> 0 <= u * w \/ 0 <= v * w \/ 0 <= u * v.
Proof.
  intros H.
  destruct (Rle_dec 0 u), (Rle_dec 0 v), (Rle_dec 0 w); try (left; nra); try (right; left; nra); try (right; right; nra).
Qed.

Theorem disc_nonneg : 0 <= D.
Proof.
  destruct (two_same_sign (ay - az) (az - ax) (ax - ay)) as [H | [H | H]]; [ring | | | ].
  - rewrite (disc_mid_y H).
    assert (0 <= px * (ay - az) ^ 2) by (apply Rmult_le_pos; [assumption | apply pow2_ge_0]).
    assert (0 <= pz * (ax - ay) ^ 2) by (apply Rmult_le_pos; [assumption | apply pow2_ge_0]).
    assert (0 <= (px + pz) * ((ay - az) * (ax - ay))) by (apply Rmult_le_pos; lra).
    pose proof (pow2_ge_0 (px * (ay - az) - pz * (ax - ay))). pose proof (pow2_ge_0 (py * (az - ax))).
    assert (0 <= 2 * py * (px * (ay - az) ^ 2 + pz * (ax - ay) ^ 2 + (px + pz) * ((ay - az) * (ax - ay))))
      by (apply Rmult_le_pos; lra).
    lra.
  - rewrite (disc_mid_x H).
    assert (0 <= py * (az - ax) ^ 2) by (apply Rmult_le_pos; [assumption | apply pow2_ge_0]).
    assert (0 <= pz * (ax - ay) ^ 2) by (apply Rmult_le_pos; [assumption | apply pow2_ge_0]).
    assert (0 <= (py + pz) * ((az - ax) * (ax - ay))) by (apply Rmult_le_pos; lra).
    pose proof (pow2_ge_0 (py * (az - ax) - pz * (ax - ay))). pose proof (pow2_ge_0 (px * (ay - az))).
    assert (0 <= 2 * px * (py * (az - ax) ^ 2 + pz * (ax - ay) ^ 2 + (py + pz) * ((az - ax) * (ax - ay))))
      by (apply Rmult_le_pos; lra).
    lra.
  - rewrite (disc_mid_z H).
    assert (0 <= px * (ay - az) ^ 2) by (apply Rmult_le_pos; [assumption | apply pow2_ge_0]).
    assert (0 <= py * (az - ax) ^ 2) by (apply Rmult_le_pos; [assumption | apply pow2_ge_0]).
    assert (0 <= (px + py) * ((ay - az) * (az - ax))) by (apply Rmult_le_pos; lra).
    pose proof (pow2_ge_0 (px * (ay - az) - py * (az - ax))). pose proof (pow2_ge_0 (pz * (ax - ay))).
    assert (0 <= 2 * pz * (px * (ay - az) ^ 2 + py * (az - ax) ^ 2 + (px + py) * ((ay - az) * (az - ax))))
      by (apply Rmult_le_pos; lra).
    lra.
Qed.

Let ys := y_slow ax ay az px py pz.
Let yf := y_fast ax ay az px py pz.

Lemma sqrt_disc_sq : sqrt D * sqrt D = D.
Proof. apply sqrt_sqrt, disc_nonneg. Qed.

Lemma slow_le_fast : ys <= yf.
Proof. unfold ys, yf, y_slow, y_fast. fold D. pose proof (sqrt_pos D). lra. Qed.

Lemma roots_sum : ys + yf = b.
Proof. unfold ys, yf, y_slow, y_fast, b. lra. Qed.

Lemma roots_prod : ys * yf = c.
Proof.
  unfold ys, yf, y_slow, y_fast. fold D. fold b.
  replace ((b - sqrt D) / 2 * ((b + sqrt D) / 2)) with ((b ^ 2 - sqrt D * sqrt D) / 4) by field.
  rewrite sqrt_disc_sq. unfold D, fdisc. fold b c. field.
Qed.

(* both model values are roots of Fresnel's polynomial; the polynomial factors *)
Lemma poly_factor y : fresnel_poly ax ay az px py pz y = (y - ys) * (y - yf).
Proof.
  rewrite poly_is_quadratic. rewrite <- roots_sum, <- roots_prod. ring.
Qed.

Lemma slow_is_root : fresnel_poly ax ay az px py pz ys = 0.
Proof. rewrite poly_factor. ring. Qed.
Lemma fast_is_root : fresnel_poly ax ay az px py pz yf = 0.
Proof. rewrite poly_factor. ring. Qed.

(* a value where the polynomial is <= 0 separates the two roots *)
Lemma between_of_poly_nonpos y : fresnel_poly ax ay az px py pz y <= 0 -> ys <= y <= yf.
Proof.
  rewrite poly_factor. intros H. pose proof slow_le_fast.
  destruct (Rle_dec ys y), (Rle_dec y yf); try lra; nra.
Qed.

(* lower / upper bounds: every a_i >= lo gives slow >= lo, every a_i <= hi gives fast <= hi *)
Lemma slow_ge lo : lo <= ax -> lo <= ay -> lo <= az -> lo <= ys.
Proof.
  intros Hx Hy Hz.
  (* shift by lo: b' = b - 2 lo >= 0, c' = q(lo) >= 0, D unchanged *)
  assert (Hq : 0 <= fresnel_poly ax ay az px py pz lo).
  { unfold fresnel_poly.
    assert (0 <= (lo - ay) * (lo - az)) by nra. assert (0 <= (lo - ax) * (lo - az)) by nra.
    assert (0 <= (lo - ax) * (lo - ay)) by nra.
    pose proof (Rmult_le_pos _ _ Hpx H). pose proof (Rmult_le_pos _ _ Hpy H0). pose proof (Rmult_le_pos _ _ Hpz H1). lra. }
  assert (Hb : 2 * lo <= b).
  { unfold b, fb. replace (2 * lo) with ((px + py + pz) * (2 * lo)) by (rewrite Hsum; ring). nra. }
  rewrite poly_factor in Hq. pose proof slow_le_fast. pose proof roots_sum.
  destruct (Rle_dec lo ys); [assumption | exfalso]. nra.
Qed.

Lemma fast_le hi : ax <= hi -> ay <= hi -> az <= hi -> yf <= hi.
Proof.
  intros Hx Hy Hz.
  assert (Hq : 0 <= fresnel_poly ax ay az px py pz hi).
  { unfold fresnel_poly.
    assert (0 <= (hi - ay) * (hi - az)) by nra. assert (0 <= (hi - ax) * (hi - az)) by nra.
    assert (0 <= (hi - ax) * (hi - ay)) by nra.
    pose proof (Rmult_le_pos _ _ Hpx H). pose proof (Rmult_le_pos _ _ Hpy H0). pose proof (Rmult_le_pos _ _ Hpz H1). lra. }
  assert (Hb : b <= 2 * hi).
  { unfold b, fb. replace (2 * hi) with ((px + py + pz) * (2 * hi)) by (rewrite Hsum; ring). nra. }
  rewrite poly_factor in Hq. pose proof slow_le_fast. pose proof roots_sum.
  destruct (Rle_dec yf hi); [assumption | exfalso]. nra.
Qed.

(* the polynomial at a principal value *)
Lemma poly_at_ax : fresnel_poly ax ay az px py pz ax = px * ((ax - ay) * (ax - az)).
Proof. unfold fresnel_poly. ring. Qed.
Lemma poly_at_ay : fresnel_poly ax ay az px py pz ay = py * ((ay - ax) * (ay - az)).
Proof. unfold fresnel_poly. ring. Qed.
Lemma poly_at_az : fresnel_poly ax ay az px py pz az = pz * ((az - ax) * (az - ay)).
Proof. unfold fresnel_poly. ring. Qed.

Lemma mid_between : ys <= mid3 ax ay az <= yf.
Proof.
  unfold mid3, min3, max3, Rmin, Rmax.
  destruct (Rle_dec ay az);
  repeat match goal with |- context [Rle_dec ?a ?b] => destruct (Rle_dec a b) end;
  repeat match goal with H : ~ _ <= _ |- _ => apply Rnot_le_lt in H end;
  match goal with
  | |- _ <= ?m <= _ =>
    first [ replace m with ax by lra; apply between_of_poly_nonpos; rewrite poly_at_ax;
            assert ((ax - ay) * (ax - az) <= 0) by nra; nra
          | replace m with ay by lra; apply between_of_poly_nonpos; rewrite poly_at_ay;
            assert ((ay - ax) * (ay - az) <= 0) by nra; nra
          | replace m with az by lra; apply between_of_poly_nonpos; rewrite poly_at_az;
            assert ((az - ax) * (az - ay) <= 0) by nra; nra
          | exfalso; lra ]
  end.
Qed.

Theorem interlace :
  min3 ax ay az <= ys /\ ys <= mid3 ax ay az /\ mid3 ax ay az <= yf /\ yf <= max3 ax ay az.
Proof.
  pose proof mid_between as [H1 H2]. repeat split; try assumption.
  - apply slow_ge; unfold min3.
    + apply Rmin_l.
    + eapply Rle_trans; [apply Rmin_r | apply Rmin_l].
    + eapply Rle_trans; [apply Rmin_r | apply Rmin_r].
  - apply fast_le; unfold max3.
    + apply Rmax_l.
    + eapply Rle_trans; [apply Rmax_l | apply Rmax_r].
    + eapply Rle_trans; [apply Rmax_r | apply Rmax_r].
Qed.

End Algebra.
