(* C06 — definedness: for physical parameters (positive collection-mode areas, exit angles short of grazing) every complex
   division of the generated integrand is a division by a non-zero number, at every z.  The key fact is that
   denom1 = 4 det [[A1, A8/2], [A8/2, A3]] where the real part of that symmetric matrix is negative definite. *)
From Coq Require Import Reals Lra Psatz QArith.
From Coquelicot Require Import Coquelicot.
From SpdVerif Require Import Base.Rx Base.CxPM Model.PMParams Gen.PMIntegrand Proofs.C06_algebra Proofs.C06_swap.
Local Open Scope R_scope.

(* decimal literals are [Q2R (n # d)]; [field] computes with them once Q2R is unfolded *)
Ltac dec_norm := unfold Q2R; cbn [Qnum Qden].

Lemma det_nonzero_real (a1 a3 w b1 b3 c : R) :
  0 < a1 -> 0 < a3 -> w * w < a1 * a3 ->
  a1 * a3 - b1 * b3 - w * w + c * c = 0 -> a1 * b3 + a3 * b1 = 2 * w * c -> False.
Proof.
  intros H1 H3 Hw P Q.
  assert (Hsq : (a1 * b3 + a3 * b1) * (a1 * b3 + a3 * b1) = 4 * (w * w) * (c * c)) by (rewrite Q; ring).
  assert (Hd : 0 <= (a1 * b3 - a3 * b1) * (a1 * b3 - a3 * b1)) by apply Rle_0_sqr.
  assert (Hc : 0 <= c * c) by apply Rle_0_sqr.
  assert (Hb : b1 * b3 = a1 * a3 - w * w + c * c) by lra.
  assert (H4 : 4 * (a1 * a3) * (b1 * b3) <= 4 * (w * w) * (c * c)) by nra.
  rewrite Hb in H4.
  assert (0 < a1 * a3) by (apply Rmult_lt_0_compat; assumption).
  nra.
Qed.

(* a complex symmetric 2x2 matrix [[A1, A8/2], [A8/2, A3]] whose real part is negative definite is invertible *)
Lemma pm_det_nonzero (A1 A3 A8 : C) :
  fst A1 < 0 -> fst A3 < 0 -> fst A8 * fst A8 < 4 * (fst A1 * fst A3) -> pm_det A1 A3 A8 <> RtoC 0.
Proof.
  intros H1 H3 Hw H.
  destruct A1 as [x1 y1], A3 as [x3 y3], A8 as [x8 y8]. cbn [fst snd] in *.
  unfold pm_det, Cminus, Cplus, Copp, Cmult, RtoC in H; cbn [fst snd] in H.
  injection H as Hr Hi.
  apply (det_nonzero_real (- x1) (- x3) (- x8 / 2) y1 y3 (y8 / 2)); try lra; try nra.
Qed.

Lemma C_neq_0_of_re (w : C) : fst w <> 0 -> w <> RtoC 0.
Proof. intros H E. apply H. rewrite E. reflexivity. Qed.

(* physical parameters, as far as the complex divisions are concerned *)
Definition pm_physical (p : pm_params) : Prop :=
  0 < p_wsx p * p_wsy p /\ 0 < p_wix p * p_wiy p /\ cos (p_theta_s_e p) <> 0 /\ cos (p_theta_i_e p) <> 0.

Lemma sw_physical p : pm_physical p -> pm_physical (pm_swap p).
Proof. unfold pm_physical; cbn [pm_swap p_wsx p_wsy p_wix p_wiy p_theta_s_e p_theta_i_e]. tauto. Qed.

Lemma sec2_pos t : cos t <> 0 -> 0 < / (cos (t / 1)) ^ 2.
Proof.
  intros H. replace (t / 1) with t by field. apply Rinv_0_lt_compat.
  assert (0 <= cos t * cos t) by apply Rle_0_sqr. simpl. nra.
Qed.

Section Signs.
  Variable p : pm_params.
  Hypothesis Hphys : pm_physical p.
  Variable z : R.

  Let Ss := / (cos (p_theta_s_e p / 1)) ^ 2.
  Let Si := / (cos (p_theta_i_e p / 1)) ^ 2.

  Lemma re_A1 : fst (pm_A1 p z) = - (0.25 * (p_wpx p * p_wpx p) + 0.25 * (p_wsx p * p_wsy p) * Ss).
  Proof.
    unfold pm_A1, pm_As, pm_CsDs, pm_GAM1s, pm_GAM2s, pm_SEC_2_THETA_s, pm_Wx_SQ, pm_Ws_SQ, pm_M2, Cplus; cbn [fst snd].
    fold Ss. dec_norm. field.
  Qed.
  Lemma re_A3 : fst (pm_A3 p z) = - (0.25 * (p_wpx p * p_wpx p) + 0.25 * (p_wix p * p_wiy p) * Si).
  Proof.
    unfold pm_A3, pm_Ai, pm_CiDi, pm_GAM1i, pm_GAM2i, pm_SEC_2_THETA_i, pm_Wx_SQ, pm_Wi_SQ, pm_M2, Cplus; cbn [fst snd].
    fold Si. dec_norm. field.
  Qed.
  Lemma re_A2 : fst (pm_A2 p z) = - (0.25 * (p_wpy p * p_wpy p) + 0.25 * (p_wsx p * p_wsy p)).
  Proof.
    unfold pm_A2, pm_Bs, pm_CsDs, pm_GAM2s, pm_Wy_SQ, pm_Ws_SQ, pm_M2, Cplus; cbn [fst snd]. dec_norm. field.
  Qed.
  Lemma re_A4 : fst (pm_A4 p z) = - (0.25 * (p_wpy p * p_wpy p) + 0.25 * (p_wix p * p_wiy p)).
  Proof.
    unfold pm_A4, pm_Bi, pm_CiDi, pm_GAM2i, pm_Wy_SQ, pm_Wi_SQ, pm_M2, Cplus; cbn [fst snd]. dec_norm. field.
  Qed.
  Lemma re_A8 : fst (pm_A8 p z) = - (0.5 * (p_wpx p * p_wpx p)).
  Proof.
    unfold pm_A8, pm_mx, pm_mz, pm_Wx_SQ, pm_M2, Cminus, Cplus, Copp; cbn [fst snd]. dec_norm. field.
  Qed.
  Lemma re_A9 : fst (pm_A9 p z) = - (0.5 * (p_wpy p * p_wpy p)).
  Proof.
    unfold pm_A9, pm_my, pm_mz, pm_Wy_SQ, pm_M2, Cminus, Cplus, Copp; cbn [fst snd]. dec_norm. field.
  Qed.

  Let HSs : 0 < Ss. Proof. apply sec2_pos, Hphys. Qed.
  Let HSi : 0 < Si. Proof. apply sec2_pos, Hphys. Qed.

  Lemma re_A1_neg : fst (pm_A1 p z) < 0.
  Proof.
    rewrite re_A1. destruct Hphys as (Hs & Hi & _). assert (0 <= p_wpx p * p_wpx p) by apply Rle_0_sqr.
    assert (0 < p_wsx p * p_wsy p * Ss) by (apply Rmult_lt_0_compat; assumption). lra.
  Qed.
  Lemma re_A3_neg : fst (pm_A3 p z) < 0.
  Proof.
    rewrite re_A3. destruct Hphys as (Hs & Hi & _). assert (0 <= p_wpx p * p_wpx p) by apply Rle_0_sqr.
    assert (0 < p_wix p * p_wiy p * Si) by (apply Rmult_lt_0_compat; assumption). lra.
  Qed.
  Lemma re_A2_neg : fst (pm_A2 p z) < 0.
  Proof. rewrite re_A2. destruct Hphys as (Hs & Hi & _). assert (0 <= p_wpy p * p_wpy p) by apply Rle_0_sqr. lra. Qed.
  Lemma re_A4_neg : fst (pm_A4 p z) < 0.
  Proof. rewrite re_A4. destruct Hphys as (Hs & Hi & _). assert (0 <= p_wpy p * p_wpy p) by apply Rle_0_sqr. lra. Qed.

  Lemma denom1_nonzero : pm_denom1 p z <> RtoC 0.
  Proof.
    rewrite denom1_det. apply pm_det_nonzero; [apply re_A1_neg | apply re_A3_neg |].
    rewrite re_A1, re_A3, re_A8. destruct Hphys as (Hs & Hi & _).
    assert (0 <= p_wpx p * p_wpx p) by apply Rle_0_sqr.
    assert (0 < p_wsx p * p_wsy p * Ss) by (apply Rmult_lt_0_compat; assumption).
    assert (0 < p_wix p * p_wiy p * Si) by (apply Rmult_lt_0_compat; assumption).
    nra.
  Qed.
  Lemma denom2_nonzero : pm_denom2 p z <> RtoC 0.
  Proof.
    rewrite denom2_det. apply pm_det_nonzero; [apply re_A2_neg | apply re_A4_neg |].
    rewrite re_A2, re_A4, re_A9. destruct Hphys as (Hs & Hi & _).
    assert (0 <= p_wpy p * p_wpy p) by apply Rle_0_sqr. nra.
  Qed.

  Theorem physical_expo_defined : pm_expo_defined p z.
  Proof.
    unfold pm_expo_defined. repeat split.
    - apply C_neq_0_of_re. pose proof re_A1_neg. lra.
    - apply C_neq_0_of_re. pose proof re_A2_neg. lra.
    - apply C_neq_0_of_re. pose proof re_A3_neg. lra.
    - apply C_neq_0_of_re. pose proof re_A4_neg. lra.
    - apply denom1_nonzero.
    - apply denom2_nonzero.
  Qed.

  (* the final division: sqrt(denom1 denom2) <> 0 *)
  Theorem physical_denominator_nonzero : pm_denominator p z <> RtoC 0.
  Proof.
    unfold pm_denominator. apply Csqrt_neq_0. apply Cmult_neq_0; [apply denom1_nonzero | apply denom2_nonzero].
  Qed.
End Signs.

(* C06 clause 1 at full strength: for every physical parameter set and EVERY z *)
Theorem integrand_exchange_physical p : pm_physical p -> forall z, pm_integrand (pm_swap p) z = pm_integrand p z.
Proof. intros H z. apply integrand_exchange, physical_expo_defined, H. Qed.

(* non-vacuity witness *)
Lemma physical_example : pm_physical pm_example.
Proof.
  unfold pm_physical, pm_example; cbn [p_wsx p_wsy p_wix p_wiy p_theta_s_e p_theta_i_e].
  repeat split; try lra.
  - assert (0 < cos 0.0175) by (apply cos_gt_0; pose proof PI_RGT_0; pose proof PI2_3_2; lra). lra.
  - assert (0 < cos 0.0191) by (apply cos_gt_0; pose proof PI_RGT_0; pose proof PI2_3_2; lra). lra.
Qed.

(* ---- the REAL divisions of the generated integrand (1/k_s, 1/k_i, 1/k_p, 0.5/ks_f, 0.5/ki_f, |k|/n, sec^2, /M2): all divisors are
   non-zero for positive indices and frequencies and non-grazing exit angles; no statement of this development relies on x / 0 = 0 *)
Definition pm_physical_real (p : pm_params) : Prop :=
  0 < p_n_s p /\ 0 < p_n_i p /\ 0 < p_n_p p /\ 0 < p_omega_s p /\ 0 < p_omega_i p /\
  cos (p_theta_s_e p) <> 0 /\ cos (p_theta_i_e p) <> 0.

Lemma signum_neq_0 x : signum x <> 0.
Proof. unfold signum. destruct (Rle_dec 0 x); lra. Qed.

Theorem real_divisions_defined p : pm_physical_real p ->
  pm_k_s p <> 0 /\ pm_k_i p <> 0 /\ pm_k_p p <> 0 /\ pm_ks_f p <> 0 /\ pm_ki_f p <> 0 /\
  p_n_s p <> 0 /\ p_n_i p <> 0 /\ pm_M2 p <> 0 /\
  cos (p_theta_s_e p / 1) ^ 2 <> 0 /\ cos (p_theta_i_e p / 1) ^ 2 <> 0.
Proof.
  intros (Hns & Hni & Hnp & Hws & Hwi & Hcs & Hci).
  assert (Hks : pm_k_s p <> 0).
  { unfold pm_k_s, pm_sign_ks. apply Rmult_integral_contrapositive_currified; [apply signum_neq_0|].
    apply Rgt_not_eq. apply Rdiv_lt_0_compat; [apply Rmult_lt_0_compat; assumption | lra]. }
  assert (Hki : pm_k_i p <> 0).
  { unfold pm_k_i, pm_sign_ki. apply Rmult_integral_contrapositive_currified; [apply signum_neq_0|].
    apply Rgt_not_eq. apply Rdiv_lt_0_compat; [apply Rmult_lt_0_compat; assumption | lra]. }
  assert (Hkp : pm_k_p p <> 0).
  { unfold pm_k_p, pm_omega_p. apply Rgt_not_eq. apply Rdiv_lt_0_compat; [apply Rmult_lt_0_compat; lra | lra]. }
  repeat split; try assumption; try lra.
  - unfold pm_ks_f. apply Rgt_not_eq. apply Rdiv_lt_0_compat; [apply Rabs_pos_lt; assumption | assumption].
  - unfold pm_ki_f. apply Rgt_not_eq. apply Rdiv_lt_0_compat; [apply Rabs_pos_lt; assumption | assumption].
  - unfold pm_M2. lra.
  - replace (p_theta_s_e p / 1) with (p_theta_s_e p) by field. apply pow_nonzero. assumption.
  - replace (p_theta_i_e p / 1) with (p_theta_i_e p) by field. apply pow_nonzero. assumption.
Qed.

Lemma physical_real_example : pm_physical_real pm_example.
Proof.
  unfold pm_physical_real, pm_example; cbn [p_n_s p_n_i p_n_p p_omega_s p_omega_i p_theta_s_e p_theta_i_e].
  repeat split; try lra.
  - assert (0 < cos 0.0175) by (apply cos_gt_0; pose proof PI_RGT_0; pose proof PI2_3_2; lra). lra.
  - assert (0 < cos 0.0191) by (apply cos_gt_0; pose proof PI_RGT_0; pose proof PI2_3_2; lra). lra.
Qed.
