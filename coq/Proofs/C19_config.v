(* C19 — config <-> runtime mapping of window kinds (src/spdc/config/apodization.rs). *)
From Coq Require Import Reals Lra List String.
From SpdVerif Require Import Base.Rx Base.PolingBase Gen.Poling Model.Poling.
Import ListNotations.
Local Open Scope R_scope.

Definition cfg_kind (c : apodization_config) : string :=
  match c with
  | CfgOff => "Off" | CfgGaussian _ => "Gaussian" | CfgBartlett _ => "Bartlett" | CfgBlackman _ => "Blackman"
  | CfgConnes _ => "Connes" | CfgCosine _ => "Cosine" | CfgHamming _ => "Hamming" | CfgWelch _ => "Welch"
  | CfgInterpolate _ => "Interpolate"
  end%string.

Lemma config_roundtrip ap : apod_of_config (apod_to_config ap) = ap.
Proof.
  destruct ap; cbn [apod_to_config apod_of_config]; try reflexivity.
  f_equal. lra.
Qed.

Lemma config_roundtrip' c : apod_to_config (apod_of_config c) = c.
Proof.
  destruct c; cbn [apod_to_config apod_of_config]; try reflexivity.
  f_equal. lra.
Qed.

Lemma config_kind ap : cfg_kind (apod_to_config ap) = apod_kind ap.
Proof. destruct ap; reflexivity. Qed.

Lemma config_kind' c : apod_kind (apod_of_config c) = cfg_kind c.
Proof. destruct c; reflexivity. Qed.

(* the Gaussian parameter is the FWHM in micrometres *)
Lemma config_gaussian_unit fwhm : apod_to_config (ApGaussian fwhm) = CfgGaussian (fwhm * 1e6).
Proof. cbn [apod_to_config]. f_equal. lra. Qed.

(* the window function is unchanged by a round trip through the config *)
Lemma config_preserves_window ap z L :
  integration_constant (apod_of_config (apod_to_config ap)) z L = integration_constant ap z L.
Proof. now rewrite config_roundtrip. Qed.

(* kinds are listed once each, and every accepted spelling resolves to exactly one kind *)
Lemma kinds_listed : forall ap, In (apod_kind ap) all_apod_kinds.
Proof. destruct ap; cbn; tauto. Qed.

Lemma kinds_nodup : NoDup all_apod_kinds.
Proof.
  repeat constructor; cbn; intuition discriminate.
Qed.

Lemma spellings_cover : map fst apod_config_spellings = all_apod_kinds.
Proof. reflexivity. Qed.

Lemma spellings_unambiguous : NoDup (List.concat (map snd apod_config_spellings)).
Proof.
  cbn. repeat constructor; cbn; intuition discriminate.
Qed.
