(* C13 — every caller of optimal_waist_position (generated list Gen/C13Callers.v) computes the signal's position from the signal's
   wavelength and polarization and the idler's from the idler's. *)
From Coq Require Import Reals String List.
From SpdVerif Require Import Model.Optics Gen.C13Callers.
Import ListNotations.
Local Open Scope string_scope.

Definition waist_call_ok (ls li : R) (ps pi : polarization) (c : string * string * R * polarization) : Prop :=
  let '(_, tgt, w, p) := c in
  (tgt = "signal_waist_position" /\ w = ls /\ p = ps) \/ (tgt = "idler_waist_position" /\ w = li /\ p = pi).

Definition sets_both (fn : string) (l : list (string * string * R * polarization)) : Prop :=
  (exists w p, In (fn, "signal_waist_position", w, p) l) /\ (exists w p, In (fn, "idler_waist_position", w, p) l).

Theorem waist_position_callers ls li ps pi :
  Forall (waist_call_ok ls li ps pi) (waist_position_calls_gen ls li ps pi) /\
  sets_both "assign_optimal_waist_positions" (waist_position_calls_gen ls li ps pi) /\
  sets_both "try_as_optimum" (waist_position_calls_gen ls li ps pi) /\
  sets_both "try_as_spdc" (waist_position_calls_gen ls li ps pi).
Proof.
  unfold waist_position_calls_gen. split.
  - repeat constructor; unfold waist_call_ok; first [left; repeat split; reflexivity | right; repeat split; reflexivity].
  - repeat split; eexists; eexists; cbn; tauto.
Qed.
