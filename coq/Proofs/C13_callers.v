(* C13 — every caller of optimal_waist_position (generated list Gen/C13Callers.v) computes the signal's position from the signal's
   wavelength and polarization and the idler's from the idler's. *)
From Coq Require Import Reals String List.
From SpdVerif Require Import Model.Optics Gen.C13Callers.
Import ListNotations.
Local Open Scope string_scope.

Definition waist_call_ok (ls li : R) (ps pi : polarization) (c : string * string * R * polarization) : Prop :=
  let '(_, tgt, w, p) := c in
  (tgt = "signal_waist_position" /\ w = ls /\ p = ps) \/ (tgt = "idler_waist_position" /\ w = li /\ p = pi).

Definition sets_both (fn : string) (l : list (string * string * R * polarization)) : Prop :=
  (exists w p, In (fn, "signal_waist_position", w, p) l) /\ (exists w p, In (fn, "idler_waist_position", w, p) l).

Theorem waist_position_callers ls li ps pi :
  Forall (waist_call_ok ls li ps pi) (waist_position_calls_gen ls li ps pi) /\
  sets_both "assign_optimal_waist_positions" (waist_position_calls_gen ls li ps pi) /\
  sets_both "try_as_optimum" (waist_position_calls_gen ls li ps pi) /\
  sets_both "try_as_spdc" (waist_position_calls_gen ls li ps pi).
Proof.
  unfold waist_position_calls_gen. split.
  - repeat constructor; unfold waist_call_ok; first [left; repeat split; reflexivity | right; repeat split; reflexivity].
  - repeat split; eexists; eexists; cbn; tauto.
Qed.

(* ---- SignalConfig / IdlerConfig::try_as_beam (generated compositions): with theta_external_deg the Snell inversion runs on a
   beam that ALREADY has the requested azimuth and polarization (and nothing re-points it afterwards); with theta_deg both
   angles are the requested ones *)
From SpdVerif Require Import Base.Rx Model.Fresnel Gen.Beam Model.Beam Proofs.C13_norm Proofs.C13_beam.
Local Open Scope R_scope.

Definition external_order_ok (cfg : (beam -> R -> R) -> polarization -> R -> R -> R -> R -> beam) : Prop :=
  forall snell_inv pol phi_deg theta_e_deg l w,
  exists s0, beam_inv s0 /\ b_phi s0 = norm_u (phi_deg * (PI / 180)) /\ b_polarization s0 = pol /\
             cfg snell_inv pol phi_deg theta_e_deg l w = set_theta_external_gen snell_inv s0 (theta_e_deg * (PI / 180)).

Definition internal_ok (cfg : (beam -> R -> R) -> polarization -> R -> R -> R -> R -> beam) : Prop :=
  forall snell_inv pol phi_deg theta_deg l w,
  let s := cfg snell_inv pol phi_deg theta_deg l w in
  beam_inv s /\ b_phi s = norm_u (phi_deg * (PI / 180)) /\ b_theta s = norm_s (theta_deg * (PI / 180)) /\ b_polarization s = pol.

Ltac external_order :=
  intros snell_inv pol phi_deg theta_e_deg l w;
  match goal with |- exists s0, _ /\ _ /\ _ /\ ?lhs = _ =>
    let t := eval unfold signal_config_external_gen, idler_config_external_gen in lhs in
    match t with set_theta_external_gen _ ?b _ => exists b end
  end;
  split; [apply new_inv |]; rewrite beam_new_nf; cbn [b_phi b_polarization];
  split; [reflexivity | split; [reflexivity |]]; rewrite <- beam_new_nf; reflexivity.

Theorem signal_config_external_order : external_order_ok signal_config_external_gen.
Proof. unfold external_order_ok. external_order. Qed.
Theorem idler_config_external_order : external_order_ok idler_config_external_gen.
Proof. unfold external_order_ok. external_order. Qed.

Ltac internal_angles :=
  intros snell_inv pol phi_deg theta_deg l w; cbv zeta;
  unfold signal_config_internal_gen, idler_config_internal_gen;
  rewrite ?set_angles_nf, ?beam_new_nf; cbn [b_phi b_theta b_polarization b_waist b_frequency];
  split; [apply inv_of_normal | repeat split; reflexivity].

Theorem signal_config_internal : internal_ok signal_config_internal_gen.
Proof. unfold internal_ok. internal_angles. Qed.
Theorem idler_config_internal : internal_ok idler_config_internal_gen.
Proof. unfold internal_ok. internal_angles. Qed.
