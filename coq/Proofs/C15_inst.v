(* C15 — the two custom producers satisfy the window invariant: ParIterator2D exactly (any carrier), ParIterator1D over
   the reals (split_at re-derives the sub-range endpoints from value(k-1), value(k): the same affine map). *)
From Coq Require Import List Arith Bool Lia Reals Lra.
From SpdVerif Require Import Base.GridOps Gen.Grid Model.Grid Model.Producer Proofs.C14_iter Proofs.C14_steps Proofs.C15_generic.
Import ListNotations.

(* ------------------------------------------------------------------------------------------------ 2-D *)
Section TwoD.
Context {T : Type} (O : ops T) (x0 x1 : T) (nx : nat) (y0 y1 : T) (ny : nat).

Definition Rep2 (p : (nat * nat) * (nat * nat)) (a b : nat) : Prop := p = ((a, b), (a, b)) /\ a <= b.
Let D2 := prod2d O x0 x1 nx y0 y1 ny.
Let v2 := steps2d_value O x0 x1 nx y0 y1 ny.

Lemma Rep2_le p a b : Rep2 p a b -> a <= b.
Proof. intros [_ H]; exact H. Qed.

Lemma Rep2_items p a b : Rep2 p a b -> p_items D2 p = map v2 (seq a (b - a)).
Proof.
  intros [-> H]. unfold D2, prod2d; cbn [p_items fst snd].
  rewrite (drain_ext _ _ (it2d_nxt_window O x0 x1 nx y0 y1 ny (a, b))). apply drain_window. lia.
Qed.

Lemma Rep2_len p a b : Rep2 p a b -> p_len D2 p = b - a.
Proof. intros [-> H]. unfold D2, prod2d, it2d_len; cbn [p_len]. lia. Qed.

Lemma Rep2_split p a b k : Rep2 p a b -> 0 <= k <= b - a ->
  exists pl pr, p_split D2 p k = Ok (pl, pr) /\ Rep2 pl a (a + k) /\ Rep2 pr (a + k) b.
Proof.
  intros [-> H] Hk. unfold D2, prod2d; cbn [p_split]. unfold par2d_split_at_pre, par2d_split_at.
  rewrite (proj2 (Nat.leb_le a (a + k))) by lia. rewrite (proj2 (Nat.leb_le (a + k) b)) by lia. cbn [andb].
  eexists _, _. split; [reflexivity|]. split; split; try reflexivity; lia.
Qed.

Lemma root2d_rep : Rep2 (root2d nx ny) 0 (nx * ny).
Proof. split; [reflexivity | lia]. Qed.

Theorem run2d_exact t : admissible 0 t (nx * ny) ->
  run D2 t (root2d nx ny) = Ok (seq2d O x0 x1 nx y0 y1 ny).
Proof.
  intros H. pose proof (run_window D2 0 v2 Rep2 Rep2_items Rep2_split t _ 0 (nx * ny) root2d_rep) as R.
  rewrite Nat.sub_0_r in R. exact (R H).
Qed.

Theorem leaves2d_len t : admissible 0 t (nx * ny) ->
  exists ls, leaves D2 t (root2d nx ny) = Ok ls /\ Forall (fun q => p_len D2 q = length (p_items D2 q)) ls.
Proof.
  intros H. pose proof (leaves_len D2 0 v2 Rep2 Rep2_items Rep2_len Rep2_split t _ 0 (nx * ny) root2d_rep) as R.
  rewrite Nat.sub_0_r in R. exact (R H).
Qed.

Theorem enum2d t : admissible 0 t (nx * ny) ->
  run_enum D2 t 0 (root2d nx ny) = Ok (combine (seq 0 (nx * ny)) (seq2d O x0 x1 nx y0 y1 ny)).
Proof.
  intros H. pose proof (run_enum_window D2 0 v2 Rep2 Rep2_items Rep2_len Rep2_split t 0 _ 0 (nx * ny) root2d_rep) as R.
  rewrite Nat.sub_0_r in R. exact (R H).
Qed.

Theorem collect2d_tree t : admissible 0 t (nx * ny) ->
  run_collect D2 t (nx * ny) (root2d nx ny) = Ok (seq2d O x0 x1 nx y0 y1 ny).
Proof.
  intros H. pose proof (run_collect_window D2 0 v2 Rep2 Rep2_items Rep2_split t _ 0 (nx * ny) root2d_rep) as R.
  rewrite Nat.sub_0_r in R. exact (R H).
Qed.

(* a range evaluator: collect of `map f` over the parallel grid, under any split tree *)
Theorem range2d {B} (f : T * T -> B) t : admissible 0 t (nx * ny) ->
  run_collect (pmap f D2) t (nx * ny) (root2d nx ny) = Ok (map f (seq2d O x0 x1 nx y0 y1 ny)).
Proof.
  intros H. pose proof (collect_mapped D2 f 0 v2 Rep2 Rep2_items Rep2_split t _ 0 (nx * ny) root2d_rep) as R.
  rewrite Nat.sub_0_r in R. exact (R H).
Qed.

Theorem reduce2d {B} (op : B -> B -> B) (e : B) (f : T * T -> B) t :
  (forall x y z, op x (op y z) = op (op x y) z) -> (forall x, op e x = x) -> (forall x, op x e = x) ->
  admissible 0 t (nx * ny) ->
  run_reduce D2 op e f t (root2d nx ny) = Ok (fold_left (fun acc a => op acc (f a)) (seq2d O x0 x1 nx y0 y1 ny) e).
Proof.
  intros Ha Hl Hr H.
  pose proof (run_reduce_window D2 0 v2 Rep2 Rep2_items Rep2_split op e f Ha Hl Hr t _ 0 (nx * ny) root2d_rep) as R.
  rewrite Nat.sub_0_r in R. exact (R H).
Qed.
End TwoD.

(* ------------------------------------------------------------------------------------------------ 1-D over R *)
Local Open Scope R_scope.

Section OneD.
Variables (s e : R) (n : nat).

Let v1 := steps_value Rops s e n.
Let D1 := prod1d Rops.

(* the sub-range Steps(v a, v (a+m-1), m) of Steps(s, e, n) has the same values: value'(i) = v (a + i) *)
Lemma sub_affine a m i : (2 <= m)%nat -> (a + m <= n)%nat ->
  steps_value Rops (v1 a) (v1 (a + m - 1)) m i = v1 (a + i).
Proof.
  intros Hm Hn. unfold v1, steps_value; cbn [Rops o_add o_sub o_mul o_div o_nat].
  destruct (Nat.ltb_spec 1 m) as [_|]; [|lia]. destruct (Nat.ltb_spec 1 n) as [_|]; [|lia].
  pose proof (INR_pred_pos n ltac:(lia)). pose proof (INR_pred_pos m Hm).
  replace (a + m - 1)%nat with (a + (m - 1))%nat by lia. rewrite !plus_INR. field. lra.
Qed.

Definition Rep1 (p : R * R * nat) (a b : nat) : Prop :=
  let '(s', e', m) := p in
  m = (b - a)%nat /\ (a <= b)%nat /\ (b <= n)%nat /\ ((1 <= m)%nat -> s' = v1 a) /\ ((2 <= m)%nat -> e' = v1 (b - 1)).

Lemma Rep1_value s' e' m a b i : Rep1 (s', e', m) a b -> (i < m)%nat -> steps_value Rops s' e' m i = v1 (a + i).
Proof.
  intros (Hm & Hab & Hbn & Hs & He) Hi.
  destruct (Nat.le_gt_cases 2 m) as [H2|H2].
  - rewrite (Hs ltac:(lia)), (He H2). replace (b - 1)%nat with (a + m - 1)%nat by lia. apply sub_affine; lia.
  - assert (Em : m = 1%nat) by lia. assert (Ei : i = 0%nat) by lia. rewrite Ei, Nat.add_0_r.
    specialize (Hs ltac:(lia)). rewrite Em. rewrite steps_value_single. exact Hs.
Qed.

Lemma Rep1_items p a b : Rep1 p a b -> p_items D1 p = map v1 (seq a (b - a)).
Proof.
  destruct p as [[s' e'] m]. intros H. unfold D1, prod1d; cbn [p_items].
  rewrite collect1d_seq. unfold seq1d, steps_len.
  assert (Hm : m = (b - a)%nat) by (destruct H as (Hm & _); exact Hm). rewrite <- Hm.
  rewrite (seq_shift_map a m), map_map. apply map_ext_in. intros i Hi. apply in_seq in Hi.
  apply (Rep1_value s' e' m a b i H). lia.
Qed.

Lemma Rep1_len p a b : Rep1 p a b -> p_len D1 p = (b - a)%nat.
Proof.
  (* holds for `steps.len()` (length at creation) and for `index_back - index` alike: a fresh iterator has index 0, index_back = steps *)
  destruct p as [[s' e'] m]. intros (Hm & _). unfold D1, prod1d, it1d_len, it1d_new; cbn [p_len fst snd]. lia.
Qed.

Lemma Rep1_split p a b k : Rep1 p a b -> (1 <= k <= b - a)%nat ->
  exists pl pr, p_split D1 p k = Ok (pl, pr) /\ Rep1 pl a (a + k) /\ Rep1 pr (a + k) b.
Proof.
  destruct p as [[s' e'] m]. intros H Hk. pose proof H as (Hm & Hab & Hbn & Hs & He).
  unfold D1, prod1d; cbn [p_split].
  rewrite (proj2 (Nat.leb_le 1 k)) by lia. rewrite (proj2 (Nat.leb_le k m)) by lia. cbn [andb].
  change (par1d_split_at Rops s' e' m k)
    with ((s', steps_value Rops s' e' m (k - 1), k), (steps_value Rops s' e' m k, e', (m - k)%nat)).
  exists (s', steps_value Rops s' e' m (k - 1), k), (steps_value Rops s' e' m k, e', (m - k)%nat).
  split; [reflexivity|]. unfold Rep1.
  split.
  - repeat split; try lia.
    + intros _. apply Hs. lia.
    + intros Hk2. rewrite (Rep1_value s' e' m a b (k - 1) H) by lia. f_equal. lia.
  - repeat split; try lia.
    + intros H1. apply (Rep1_value s' e' m a b k H). lia.
    + intros H2. apply He. lia.
Qed.

Lemma root1d_rep : Rep1 (root1d s e n) 0 n.
Proof.
  unfold root1d, Rep1. repeat split; try lia.
  - intros H. unfold v1. symmetry. apply steps_value_first. exact H.
  - intros H. unfold v1. symmetry. apply steps_value_last. exact H.
Qed.

Theorem run1d_exact_real t : admissible 1 t n -> run D1 t (root1d s e n) = Ok (seq1d Rops s e n).
Proof.
  intros H. pose proof (run_window D1 1 v1 Rep1 Rep1_items Rep1_split t _ 0 n root1d_rep) as R.
  rewrite Nat.sub_0_r in R. exact (R H).
Qed.

Theorem leaves1d_len t : admissible 1 t n ->
  exists ls, leaves D1 t (root1d s e n) = Ok ls /\ Forall (fun q => p_len D1 q = length (p_items D1 q)) ls.
Proof.
  intros H. pose proof (leaves_len D1 1 v1 Rep1 Rep1_items Rep1_len Rep1_split t _ 0 n root1d_rep) as R.
  rewrite Nat.sub_0_r in R. exact (R H).
Qed.

Theorem enum1d t : admissible 1 t n -> run_enum D1 t 0 (root1d s e n) = Ok (combine (seq 0 n) (seq1d Rops s e n)).
Proof.
  intros H. pose proof (run_enum_window D1 1 v1 Rep1 Rep1_items Rep1_len Rep1_split t 0%nat _ 0 n root1d_rep) as R.
  rewrite Nat.sub_0_r in R. exact (R H).
Qed.

Theorem collect1d_tree t : admissible 1 t n -> run_collect D1 t n (root1d s e n) = Ok (seq1d Rops s e n).
Proof.
  intros H. pose proof (run_collect_window D1 1 v1 Rep1 Rep1_items Rep1_split t _ 0 n root1d_rep) as R.
  rewrite Nat.sub_0_r in R. exact (R H).
Qed.

Theorem reduce1d {B} (op : B -> B -> B) (e0 : B) (f : R -> B) t :
  (forall x y z, op x (op y z) = op (op x y) z) -> (forall x, op e0 x = x) -> (forall x, op x e0 = x) ->
  admissible 1 t n ->
  run_reduce D1 op e0 f t (root1d s e n) = Ok (fold_left (fun acc a => op acc (f a)) (seq1d Rops s e n) e0).
Proof.
  intros Ha Hl Hr H.
  pose proof (run_reduce_window D1 1 v1 Rep1 Rep1_items Rep1_split op e0 f Ha Hl Hr t _ 0 n root1d_rep) as R.
  rewrite Nat.sub_0_r in R. exact (R H).
Qed.
End OneD.

Lemma par_len {T} (O : ops T) :
  (forall (s e : T) n, par1d_len n = length (seq1d O s e n)) /\
  (forall x0 x1 nx y0 y1 ny, par2d_len (fst (fst (root2d nx ny))) (snd (fst (root2d nx ny))) (fst (snd (root2d nx ny))) (snd (snd (root2d nx ny)))
                             = length (seq2d O x0 x1 nx y0 y1 ny)).
Proof.
  split.
  - intros s e n. rewrite seq1d_length. reflexivity.
  - intros. rewrite seq2d_length. unfold root2d, it2d_new, par2d_len. cbn [fst snd]. lia.
Qed.

(* for EVERY carrier (in particular binary64): the 1-D producer split along any admissible tree delivers exactly n items and
   never panics — only the values are subject to rounding *)
Theorem run1d_length {T} (O : ops T) (s e : T) (n : nat) t : admissible 1 t n ->
  exists l, run (prod1d O) t (root1d s e n) = Ok l /\ length l = n.
Proof.
  intros H.
  apply (run_length (prod1d O) 1 (fun p : T * T * nat => snd p)).
  - intros [[s' e'] m]. unfold prod1d; cbn [p_items snd]. rewrite collect1d_seq. apply seq1d_length.
  - intros [[s' e'] m] k Hk. cbn [snd] in Hk. unfold prod1d; cbn [p_split snd].
    rewrite (proj2 (Nat.leb_le 1 k)) by lia. rewrite (proj2 (Nat.leb_le k m)) by lia. cbn [andb].
    eexists _, _. split; [reflexivity|]. split; reflexivity.
  - exact H.
Qed.

(* the usize arithmetic of ParIterator1D::split_at: index 0 evaluates `index - 1` (overflow: panic in debug builds) *)
Lemma split1d_zero {T} (O : ops T) p : p_split (prod1d O) p 0 = Panic.
Proof. destruct p as [[s e] n]. reflexivity. Qed.

(* real and complex (pairs of reals) sums are monoids *)
Lemma Rplus_monoid : (forall x y z : R, x + (y + z) = x + y + z) /\ (forall x : R, 0 + x = x) /\ (forall x : R, x + 0 = x).
Proof. repeat split; intros; ring. Qed.

Definition cplus (a b : R * R) : R * R := (fst a + fst b, snd a + snd b).
Lemma cplus_monoid : (forall x y z, cplus x (cplus y z) = cplus (cplus x y) z) /\ (forall x, cplus (0, 0) x = x) /\ (forall x, cplus x (0, 0) = x).
Proof.
  repeat split; intros; unfold cplus; cbn [fst snd].
  - f_equal; ring.
  - destruct x; cbn; f_equal; ring.
  - destruct x; cbn; f_equal; ring.
Qed.
