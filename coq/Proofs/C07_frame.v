(* C07: the frame statement behind "raw amplitudes do not mention power or deff", as a Coq fact about the GENERATED read
   sets (Gen/Spectrum.v: reads_f = the fields of `setup` the translated body of f reads, directly or through translated
   callees): a generated function takes the same value on two setups that agree on its read set; the read sets of the raw
   functions contain neither "power" nor "deff"; scale_setup changes only those two fields. *)
From Coq Require Import Reals Bool String List Lra.
From SpdVerif Require Import Base.Rx Model.SpectrumSetup Gen.Spectrum.
Import ListNotations.
Local Open Scope R_scope.

Definition field_agrees (n : string) (s s' : setup) : Prop :=
  if string_dec n "omega_p" then omega_p s = omega_p s' else
  if string_dec n "omega_s0" then omega_s0 s = omega_s0 s' else
  if string_dec n "omega_i0" then omega_i0 s = omega_i0 s' else
  if string_dec n "fwhm" then fwhm s = fwhm s' else
  if string_dec n "threshold" then threshold s = threshold s' else
  if string_dec n "pp_off" then pp_off s = pp_off s' else
  if string_dec n "len" then len s = len s' else
  if string_dec n "power" then power s = power s' else
  if string_dec n "deff" then deff s = deff s' else
  if string_dec n "wpx" then wpx s = wpx s' else
  if string_dec n "wpy" then wpy s = wpy s' else
  if string_dec n "wsx" then wsx s = wsx s' else
  if string_dec n "wsy" then wsy s = wsy s' else
  if string_dec n "wix" then wix s = wix s' else
  if string_dec n "wiy" then wiy s = wiy s' else
  if string_dec n "theta_s_e" then theta_s_e s = theta_s_e s' else
  if string_dec n "theta_i_e" then theta_i_e s = theta_i_e s' else
  if string_dec n "n_s" then n_s s = n_s s' else
  if string_dec n "n_i" then n_i s = n_i s' else
  if string_dec n "pm_re" then pm_re s = pm_re s' else
  if string_dec n "pm_im" then pm_im s = pm_im s' else
  if string_dec n "pm_singles" then pm_singles s = pm_singles s' else False.

Definition agree_on (l : list string) (s s' : setup) : Prop := Forall (fun n => field_agrees n s s') l.

Ltac get H n := let E := fresh "E" in
  match type of H with agree_on _ ?s ?s' =>
    assert (E : field_agrees n s s') by (apply (proj1 (Forall_forall _ _) H); cbv; tauto);
    cbv - [omega_p omega_s0 omega_i0 fwhm threshold pp_off len power deff wpx wpy wsx wsy wix wiy theta_s_e theta_i_e n_s n_i pm_re pm_im pm_singles] in E;
    rewrite ?E; clear E end.

Section Frame.
Variables s s' : setup.

Lemma frame_envelope w : agree_on reads_pump_spectral_amplitude s s' -> pump_spectral_amplitude w s = pump_spectral_amplitude w s'.
Proof. intros H. unfold pump_spectral_amplitude. get H "omega_p"%string. get H "fwhm"%string. reflexivity. Qed.

Lemma frame_invalid ws wi : agree_on reads_invalid_frequencies s s' -> invalid_frequencies ws wi s = invalid_frequencies ws wi s'.
Proof. intros H. unfold invalid_frequencies. get H "omega_p"%string. reflexivity. Qed.

Lemma frame_jsa_raw ws wi : agree_on reads_jsa_raw s s' -> jsa_raw ws wi s = jsa_raw ws wi s'.
Proof.
  intros H. unfold jsa_raw, invalid_frequencies, pump_spectral_amplitude.
  get H "omega_p"%string. get H "fwhm"%string. get H "threshold"%string. get H "pm_re"%string. get H "pm_im"%string. reflexivity.
Qed.

Lemma frame_jsi_singles_raw ws wi : agree_on reads_jsi_singles_raw s s' -> jsi_singles_raw ws wi s = jsi_singles_raw ws wi s'.
Proof.
  intros H. unfold jsi_singles_raw, invalid_frequencies, pump_spectral_amplitude.
  get H "omega_p"%string. get H "fwhm"%string. get H "threshold"%string. get H "pm_singles"%string. reflexivity.
Qed.
End Frame.

(* the raw functions read neither power nor deff *)
Lemma raw_reads_no_power_deff :
  forall l, In l [reads_pump_spectral_amplitude; reads_invalid_frequencies; reads_jsa_raw; reads_jsi_singles_raw] ->
  ~ In "power"%string l /\ ~ In "deff"%string l.
Proof.
  intros l Hl. cbn [In] in Hl. destruct Hl as [<-|[<-|[<-|[<-|[]]]]]; split; cbv; intuition discriminate.
Qed.

(* scale_setup changes only power and deff *)
Lemma scale_setup_agrees a b s l : ~ In "power"%string l -> ~ In "deff"%string l -> incl l
  ["omega_p"; "omega_s0"; "omega_i0"; "fwhm"; "threshold"; "pp_off"; "len"; "power"; "deff"; "wpx"; "wpy"; "wsx"; "wsy"; "wix"; "wiy";
   "theta_s_e"; "theta_i_e"; "n_s"; "n_i"; "pm_re"; "pm_im"; "pm_singles"]%string -> agree_on l (scale_setup a b s) s.
Proof.
  intros Hp Hd Hincl. unfold agree_on. apply Forall_forall. intros n Hn.
  pose proof (Hincl n Hn) as Hk. cbn [In] in Hk.
  repeat (destruct Hk as [<-|Hk]; [try (cbv - [omega_p omega_s0 omega_i0 fwhm threshold pp_off len power deff wpx wpy wsx wsy wix wiy theta_s_e theta_i_e n_s n_i pm_re pm_im pm_singles scale_setup]; reflexivity); exfalso; (apply Hp; exact Hn) || (apply Hd; exact Hn)|]).
  destruct Hk.
Qed.

Theorem raw_independent_from_reads a b ws wi s :
  jsa_raw ws wi (scale_setup a b s) = jsa_raw ws wi s /\
  jsi_singles_raw ws wi (scale_setup a b s) = jsi_singles_raw ws wi s /\
  pump_spectral_amplitude ws (scale_setup a b s) = pump_spectral_amplitude ws s /\
  invalid_frequencies ws wi (scale_setup a b s) = invalid_frequencies ws wi s.
Proof.
  assert (H : forall l, In l [reads_pump_spectral_amplitude; reads_invalid_frequencies; reads_jsa_raw; reads_jsi_singles_raw] ->
                        agree_on l (scale_setup a b s) s).
  { intros l Hl. destruct (raw_reads_no_power_deff l Hl) as [Hp Hd]. apply scale_setup_agrees; try assumption.
    cbn [In] in Hl. destruct Hl as [<-|[<-|[<-|[<-|[]]]]]; intros x Hx; cbv in Hx; cbn [In]; intuition (subst; tauto). }
  split; [|split; [|split]].
  - apply frame_jsa_raw, H. cbn; tauto.
  - apply frame_jsi_singles_raw, H. cbn; tauto.
  - apply frame_envelope, H. cbn; tauto.
  - apply frame_invalid, H. cbn; tauto.
Qed.
