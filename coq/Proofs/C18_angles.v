(* C18 — angle normalisation lemmas (rem_euclid on one period), used by the frame proofs and by the correspondence case tactics.
   Depends on the hand-written model only, so the case tactics stay buildable when a proof about the generated table breaks. *)
From Coq Require Import Reals Lra Lia ZArith.
From SpdVerif Require Import Base.Rx Base.PolingBase Gen.Poling Gen.Sweep Spec.SweepPaths Model.Sweep Proofs.C19_base.
Local Open Scope R_scope.

Lemma Rdiv_one x : x / 1 = x.
Proof. field. Qed.

(* ---- angle normalisation ---- *)
Lemma rem_euclid_id x m : 0 <= x < m -> rem_euclid x m = x.
Proof.
  intros [H0 H1]. unfold rem_euclid.
  assert (Hm : 0 < m) by lra.
  rewrite (Rfloor_unique (x / m) 0).
  - ring.
  - assert (Hi : 0 < / m) by now apply Rinv_0_lt_compat.
    split; [unfold Rdiv; apply Rmult_le_pos; lra|].
    apply Rmult_lt_reg_r with m; [lra|]. unfold Rdiv. rewrite Rmult_assoc, Rinv_l; lra.
Qed.

Lemma rem_euclid_neg x m : - m <= x < 0 -> rem_euclid x m = x + m.
Proof.
  intros [H0 H1]. unfold rem_euclid.
  assert (Hm : 0 < m) by lra.
  rewrite (Rfloor_unique (x / m) (-1)).
  - ring.
  - assert (Hi : 0 < / m) by now apply Rinv_0_lt_compat.
    split.
    + apply Rmult_le_reg_r with m; [lra|]. unfold Rdiv. rewrite Rmult_assoc, Rinv_l; lra.
    + apply Rmult_lt_reg_r with m; [lra|]. unfold Rdiv. rewrite Rmult_assoc, Rinv_l; lra.
Qed.

Lemma norm_angle_id x : 0 <= x < 2 * PI -> norm_angle x = x.
Proof. apply rem_euclid_id. Qed.

Lemma norm_angle_signed_id x : - PI < x <= PI -> norm_angle_signed x = x.
Proof.
  intros [H0 H1]. unfold norm_angle_signed. pose proof PI_RGT_0 as Hpi.
  destruct (Rle_lt_dec 0 x) as [Hx | Hx].
  - rewrite rem_euclid_id by lra. destruct (Rgt_dec x PI); lra.
  - rewrite rem_euclid_neg by lra. destruct (Rgt_dec (x + 2 * PI) PI); lra.
Qed.

Lemma deg_range_signed v : -180 < v <= 180 -> - PI < v * (PI / 180) <= PI.
Proof. intros H. pose proof PI_RGT_0. nra. Qed.

Lemma deg_range v : 0 <= v < 360 -> 0 <= v * (PI / 180) < 2 * PI.
Proof. intros H. pose proof PI_RGT_0. nra. Qed.

Lemma deg_back v : v * (PI / 180) / (PI / 180) = v.
Proof. pose proof PI_RGT_0. field. lra. Qed.

