(* C17: decision rules of SPDCConfig::try_as_spdc on the L4 model (Model/Config.v), for an ARBITRARY numeric carrier,
   arbitrary numeric operations and ARBITRARY oracles: the theorems only use the order of operations. *)
From Coq Require Import String List Bool ZArith QArith.
From SpdVerif Require Import Base.CfgNumOps Spec.ConfigSpec Gen.ConfigTables Gen.ConfigSites Model.ConfigTypes Model.Config Proofs.Cfg_flags_tac.
Import ListNotations.

Section Rules.
  Variable num : Type.
  Variable o : NumOps num.
  Variable U : units num.
  Variable K : oracles num.
  Variable minpos : num.
  Variable rj : bool.      (* rejects_bad_period *)

  Local Notation try_as_spdc := (try_as_spdc_steps o U K minpos rj).
  Local Notation signal_step := (signal_step o K).
  Local Notation poling_step := (poling_step o K minpos rj).
  Local Notation theta_step := (theta_step o K).
  Local Notation idler_step := (idler_step o K).
  Local Notation cfg_cs0 := (cfg_cs0 o).
  Local Notation cfg_pump := (cfg_pump o).
  Local Notation le_pump := (signal_le_pump o).

  (* ---------------------------------------------------------------------------------------------------------------
     rule 1: both or neither of the signal's (or an explicit idler's) internal / external angle *)
  Definition angle_spec_bad (b : beam_cfg num) : Prop :=
    (bc_theta_deg b <> None /\ bc_theta_ext_deg b <> None) \/ (bc_theta_deg b = None /\ bc_theta_ext_deg b = None).

  Lemma beam_of_cfg_bad pol b cs : angle_spec_bad b -> beam_of_cfg o K pol b cs = Err EThetaSpec.
  Proof.
    unfold beam_of_cfg, angle_spec_bad.
    destruct (bc_theta_deg b), (bc_theta_ext_deg b); intros [[H1 H2] | [H1 H2]]; try reflexivity; congruence.
  Qed.

  Lemma beam_of_cfg_err pol b cs e : beam_of_cfg o K pol b cs = Err e ->
    (e = EThetaSpec /\ angle_spec_bad b) \/ (e = EExternalRange /\ cfg_checks_external_range = true).
  Proof.
    unfold beam_of_cfg, angle_spec_bad, set_theta_external.
    destruct (bc_theta_deg b), (bc_theta_ext_deg b); try discriminate.
    - intros H; inversion H; left; split; [reflexivity | left; split; discriminate].
    - destruct cfg_checks_external_range; cbn [andb].
      + destruct (negb _); [intros H; inversion H; right; split; reflexivity |].
        destruct (o_snell_inv K _ _ _); flag_cases; discriminate.
      + destruct (o_snell_inv K _ _ _); flag_cases; discriminate.
    - intros H; inversion H; left; split; [reflexivity | right; split; reflexivity].
  Qed.

  Theorem rule_signal_angles c : angle_spec_bad (c_signal c) -> try_as_spdc c = Err EThetaSpec.
  Proof.
    intros H. unfold Config.try_as_spdc_steps, Config.signal_step. rewrite (beam_of_cfg_bad _ _ _ H). reflexivity.
  Qed.

  (* the signal's wavelength and polarization after the signal step are those of the configuration *)
  Lemma beam_of_cfg_wavelength pol b cs r :
    beam_of_cfg o K pol b cs = Ok r ->
    b_wavelength r = nmul o (bc_wavelength_nm b) (u_nano o) /\ b_pol r = pol /\ b_waist r = nmul o (bc_waist_um b) (u_micro o).
  Proof.
    unfold beam_of_cfg, set_theta_external.
    destruct (bc_theta_deg b), (bc_theta_ext_deg b); try discriminate.
    - intros H; inversion H; subst; cbn; auto.
    - destruct (o_snell_inv K _ _ _); flag_cases; try discriminate; intros H; inversion H; subst; cbn; auto.
  Qed.

  (* ---------------------------------------------------------------------------------------------------------------
     rule 2: an automatic crystal angle together with periodic poling *)
  Theorem rule_auto_theta_with_poling c signal pp nf :
    cc_theta_deg (c_crystal c) = Auto -> c_pp c <> PCOff ->
    signal_step c = Ok signal -> poling_step c signal = Ok (pp, nf) ->
    try_as_spdc c = Err EAutoThetaWithPoling.
  Proof.
    intros Ht Hp Hs Hpp. unfold Config.try_as_spdc_steps. rewrite Hs. cbn [bind]. rewrite Hpp. cbn [bind fst].
    unfold Config.theta_step. rewrite Ht. cbn [is_auto].
    assert (Hoff : is_pol_off pp = false).
    { revert Hpp. unfold Config.poling_step, poling_of_cfg. destruct (c_pp c) as [| per a]; [congruence |].
      destruct per as [| pu].
      - destruct (optimum_poling_period _ _ _ _ _ _) as [[per | []] | |]; cbn [bind]; try discriminate;
          intros H; inversion H; subst; try reflexivity.
        unfold poling_new. destruct (nltb o _ _); reflexivity.
      - destruct (rj && neqb o pu (n0 o)); try discriminate.
        destruct (compute_sign _ _ _ _ _) as [sg | |]; cbn [bind]; try discriminate.
        intros H; inversion H; subst. unfold poling_new. destruct (nltb o _ _); reflexivity. }
    rewrite Hoff. reflexivity.
  Qed.

  (* never Ok, whatever the earlier steps do *)
  Theorem rule_auto_theta_with_poling_never_ok c :
    cc_theta_deg (c_crystal c) = Auto -> c_pp c <> PCOff -> is_ok (try_as_spdc c) = false.
  Proof.
    intros Ht Hp. unfold Config.try_as_spdc_steps.
    destruct (signal_step c) as [signal | |] eqn:Hs; cbn [bind is_ok]; try reflexivity.
    destruct (poling_step c signal) as [[pp nf] | |] eqn:Hpp; cbn [bind is_ok]; try reflexivity.
    pose proof (rule_auto_theta_with_poling c signal pp nf Ht Hp Hs Hpp) as H.
    unfold Config.try_as_spdc_steps in H. rewrite Hs in H. cbn [bind] in H. rewrite Hpp in H. cbn [bind] in H.
    rewrite H. reflexivity.
  Qed.

  (* ---------------------------------------------------------------------------------------------------------------
     rule 3: signal wavelength not longer than the pump's.  What the code does, in every auto/explicit combination
     (the property asks for Err in all of them; only the fourth line delivers it): *)
  Theorem signal_le_pump_outcomes c signal :
    signal_step c = Ok signal -> le_pump signal (cfg_pump c) = true ->
    match c_pp c with
    | PCConfig Auto _ => try_as_spdc c = Panic SiteOptPeriodUnwrap
    | PCConfig (Param pu) _ =>
        if rj && neqb o pu (n0 o) then try_as_spdc c = Err EBadPeriod else try_as_spdc c = Panic SiteComputeSignUnwrap
    | PCOff =>
        match cc_theta_deg (c_crystal c) with
        | Auto => try_as_spdc c = Panic SiteOptThetaUnwrap \/ try_as_spdc c = Panic SiteNelderMeadUnwrap \/
                  try_as_spdc c = Err ETotalReflection
        | Param _ =>
            match c_idler c with
            | Auto => try_as_spdc c = Err ESignalLePump
            | Param ic =>
                (* no wavelength check at all: Ok unless the idler's own angle specification fails *)
                match beam_of_cfg o K (idler_polarization (cs_pm (cfg_cs0 c))) ic (cfg_cs0 c) with
                | Ok _ => is_ok (try_as_spdc c) = true
                | Err e => try_as_spdc c = Err e
                | Panic s => try_as_spdc c = Panic s
                end
            end
        end
    end.
  Proof.
    intros Hs Hle. unfold Config.try_as_spdc_steps. rewrite Hs. cbn [bind].
    unfold Config.poling_step, poling_of_cfg.
    destruct (c_pp c) as [| per a].
    - cbn [bind fst]. unfold Config.theta_step. cbn [is_pol_off].
      destruct (cc_theta_deg (c_crystal c)) as [| t]; cbn [is_auto].
      + unfold optimum_theta, ext_defined. destruct (o_snell_ext K signal _); flag_cases; cbn [bind]; auto.
        all: fold (Config.cfg_pump o c); rewrite ?Hle; auto.
      + cbn [bind]. unfold Config.idler_step. destruct (c_idler c) as [| ic].
        * unfold idler_optimum. rewrite Hle. reflexivity.
        * destruct (beam_of_cfg o K _ ic _) as [b | e | s]; reflexivity.
    - destruct per as [| pu].
      + unfold optimum_poling_period. fold (Config.cfg_pump o c). rewrite Hle. reflexivity.
      + destruct (rj && neqb o pu (n0 o)); [reflexivity |].
        unfold compute_sign. fold (Config.cfg_pump o c). rewrite Hle. reflexivity.
  Qed.

  (* the non-failing class: explicit crystal angle, no poling, automatic idler *)
  Theorem rule_signal_le_pump_partial c signal :
    signal_step c = Ok signal -> le_pump signal (cfg_pump c) = true ->
    c_pp c = PCOff -> cc_theta_deg (c_crystal c) <> Auto -> c_idler c = Auto ->
    try_as_spdc c = Err ESignalLePump.
  Proof.
    intros Hs Hle Hp Ht Hi. pose proof (signal_le_pump_outcomes c signal Hs Hle) as H.
    rewrite Hp, Hi in H. destruct (cc_theta_deg (c_crystal c)); [congruence | exact H].
  Qed.

  (* ---------------------------------------------------------------------------------------------------------------
     rule 4: an automatic poling period that does not fit into the crystal *)
  Theorem rule_impossible_period c signal a p :
    signal_step c = Ok signal -> c_pp c = PCConfig Auto a ->
    le_pump signal (cfg_pump c) = false ->
    neqb o (o_dkz0 K signal (cfg_pump c) (cfg_cs0 c)) (n0 o) = false ->
    o_nm_period K signal (cfg_pump c) (cfg_cs0 c) = Some p ->
    nltb o (cs_length (cfg_cs0 c)) p = true ->
    try_as_spdc c = Err EImpossiblePeriod.
  Proof.
    intros Hs Hp Hle Hz Hnm Hlt. unfold Config.try_as_spdc_steps. rewrite Hs. cbn [bind].
    unfold Config.poling_step, poling_of_cfg. rewrite Hp. unfold optimum_poling_period.
    fold (Config.cfg_pump o c). fold (Config.cfg_cs0 o c). rewrite Hle, Hz, Hnm, Hlt. reflexivity.
  Qed.

  (* ---------------------------------------------------------------------------------------------------------------
     rule 5 (when the code has it): an explicit poling period of 0 *)
  Theorem rule_bad_period c signal pu a :
    rj = true -> signal_step c = Ok signal -> c_pp c = PCConfig (Param pu) a -> neqb o pu (n0 o) = true ->
    try_as_spdc c = Err EBadPeriod.
  Proof.
    intros -> Hs Hp Hz. unfold Config.try_as_spdc_steps. rewrite Hs. cbn [bind].
    unfold Config.poling_step, poling_of_cfg. rewrite Hp, Hz. reflexivity.
  Qed.

  (* ---------------------------------------------------------------------------------------------------------------
     panics: where they can come from.  [searches_total]: no simplex search fails and the external angle is defined
     (oracle contract; it fails exactly when a cost function returns NaN). *)
  Definition searches_total : Prop :=
    (forall b e cs, o_snell_inv K b e cs <> None) /\ (forall b cs, o_snell_ext K b cs <> None) /\
    (forall cs e s p, o_nm_theta K cs e s p <> None) /\ (forall s p cs, o_nm_period K s p cs <> None).

  Definition searches_defined_at (c : spdc_cfg num) : Prop :=
    (* once the solver cannot fail (searches_cannot_fail, read off Cost1d::cost) no search can panic: every clause is void *)
    (searches_cannot_fail = false -> forall b e cs, o_snell_inv K b e cs <> None) /\
    (forall signal, signal_step c = Ok signal ->
       (is_auto (cc_theta_deg (c_crystal c)) = true -> c_pp c = PCOff ->
          (* a signal beyond total internal reflection is an error, not a panic, once the code checks it *)
          (cfg_checks_total_reflection = false -> searches_cannot_fail = false -> o_snell_ext K signal (cfg_cs0 c) <> None) /\
          (searches_cannot_fail = false -> forall e, o_snell_ext K signal (cfg_cs0 c) = Some e ->
                     o_nm_theta K (erase_theta o (cfg_cs0 c)) e signal (cfg_pump c) <> None)) /\
       (forall a, c_pp c = PCConfig Auto a -> searches_cannot_fail = false -> o_nm_period K signal (cfg_pump c) (cfg_cs0 c) <> None)).

  Lemma searches_total_at c : searches_total -> searches_defined_at c.
  Proof. intros (H1 & H2 & H3 & H4). split; [intros _; exact H1 |]. intros signal _. repeat split; intros; auto. Qed.

  Lemma beam_of_cfg_no_panic' pol b cs :
    (searches_cannot_fail = false -> forall b e cs, o_snell_inv K b e cs <> None) -> is_panic (beam_of_cfg o K pol b cs) = false.
  Proof.
    intros H1. unfold beam_of_cfg, set_theta_external.
    destruct (bc_theta_deg b), (bc_theta_ext_deg b); try reflexivity.
    destruct (cfg_checks_external_range && _); [reflexivity |].
    destruct (o_snell_inv K _ _ _) eqn:E; [reflexivity |].
    destruct searches_cannot_fail; [reflexivity |]. exfalso. exact (H1 eq_refl _ _ _ E).
  Qed.
  Lemma beam_of_cfg_no_panic pol b cs : searches_total -> is_panic (beam_of_cfg o K pol b cs) = false.
  Proof. intros [H1 _]. apply beam_of_cfg_no_panic'. intros _. exact H1. Qed.

  Theorem no_panic_at c :
    searches_defined_at c ->
    (forall signal, signal_step c = Ok signal -> le_pump signal (cfg_pump c) = false) ->
    is_panic (try_as_spdc c) = false.
  Proof.
    intros [H1 Hat] Hle. unfold Config.try_as_spdc_steps.
    pose proof (beam_of_cfg_no_panic' (signal_polarization (cs_pm (cfg_cs0 c))) (c_signal c) (cfg_cs0 c) H1) as Hsp.
    fold (Config.signal_step o K c) in Hsp.
    destruct (signal_step c) as [signal | |] eqn:Hs; cbn [bind is_panic] in *; try reflexivity; try discriminate.
    specialize (Hle signal eq_refl). destruct (Hat signal eq_refl) as [Hth0 Hper0].
    assert (Hpp : is_panic (poling_step c signal) = false).
    { unfold Config.poling_step, poling_of_cfg. destruct (c_pp c) as [| per a] eqn:Hcpp; [reflexivity |].
      destruct per as [| pu].
      - unfold optimum_poling_period. rewrite Hle. destruct (neqb o _ _); [reflexivity |].
        specialize (Hper0 a eq_refl).
        destruct (o_nm_period K _ _ _); [destruct (_ || _); reflexivity |].
        destruct searches_cannot_fail; [reflexivity | exfalso; apply Hper0; reflexivity].
      - destruct (rj && neqb o pu (n0 o)); [reflexivity |]. unfold compute_sign. rewrite Hle. reflexivity. }
    assert (Hoff : forall pp nf, poling_step c signal = Ok (pp, nf) -> is_pol_off pp = true -> c_pp c = PCOff).
    { intros pp nf. unfold Config.poling_step, poling_of_cfg. destruct (c_pp c) as [| [| pu] a]; [reflexivity | |].
      - unfold optimum_poling_period. destruct (le_pump signal (cfg_pump c)); cbn [bind]; try discriminate.
        destruct (neqb o _ _); cbn [bind].
        + intros H; inversion H; subst. discriminate.
        + destruct (o_nm_period K _ _ _); flag_cases; cbn [bind]; try discriminate. destruct (_ || _); cbn [bind]; try discriminate.
          intros H; inversion H; subst. unfold poling_new. destruct (nltb o (n0 o) _); discriminate.
      - destruct (rj && neqb o pu (n0 o)); [discriminate |].
        destruct (compute_sign o K signal (cfg_pump c) (cfg_cs0 c)); cbn [bind]; try discriminate.
        intros H; inversion H; subst. unfold poling_new. destruct (nltb o (n0 o) _); discriminate. }
    destruct (poling_step c signal) as [[pp nf] | |] eqn:Hps; cbn [bind is_panic fst] in *; try reflexivity; try discriminate.
    assert (Hth : is_panic (theta_step c signal pp) = false).
    { unfold Config.theta_step. destruct (is_auto _) eqn:Hau; [| reflexivity]. destruct (is_pol_off pp) eqn:Hpo; [| reflexivity].
      destruct (Hth0 eq_refl (Hoff pp nf eq_refl Hpo)) as [H2 H3].
      unfold optimum_theta, ext_defined. rewrite Hle.
      destruct (o_snell_ext K _ _) as [e |] eqn:Ee; cbn [negb]; rewrite ?andb_false_r, ?andb_true_r.
      - destruct (o_nm_theta K _ _ _ _) eqn:En; [reflexivity |].
        destruct searches_cannot_fail; [reflexivity |]. exfalso. exact (H3 eq_refl e eq_refl En).
      - destruct cfg_checks_total_reflection eqn:Ft; [reflexivity |].
        destruct searches_cannot_fail eqn:Fs; [| exfalso; apply (H2 eq_refl eq_refl); reflexivity].
        destruct (o_nm_theta K _ _ _ _); reflexivity. }
    destruct (theta_step c signal pp) as [cs | |]; cbn [bind is_panic] in *; try reflexivity; try discriminate.
    unfold Config.idler_step. destruct (c_idler c) as [| ic].
    - unfold idler_optimum. rewrite Hle. destruct (o_idler_theta K _ _ _ _); reflexivity.
    - pose proof (beam_of_cfg_no_panic' (idler_polarization (cs_pm cs)) ic cs H1) as Hi.
      destruct (beam_of_cfg o K _ ic cs); cbn [bind is_panic] in *; try reflexivity; discriminate.
  Qed.

  Theorem no_panic_partial c :
    searches_total ->
    (forall signal, signal_step c = Ok signal -> le_pump signal (cfg_pump c) = false) ->
    is_panic (try_as_spdc c) = false.
  Proof. intros Htot. apply no_panic_at. apply searches_total_at. exact Htot. Qed.

  (* where each step can panic *)
  Lemma beam_of_cfg_panic pol b cs s : beam_of_cfg o K pol b cs = Panic s -> s = SiteNelderMeadUnwrap.
  Proof.
    unfold beam_of_cfg, set_theta_external.
    destruct (bc_theta_deg b), (bc_theta_ext_deg b); try discriminate.
    destruct (o_snell_inv K _ _ _); flag_cases; try discriminate; intros H; inversion H; reflexivity.
  Qed.

  Lemma poling_step_panic c signal s : poling_step c signal = Panic s ->
    s = SiteNelderMeadUnwrap \/ (le_pump signal (cfg_pump c) = true /\ (s = SiteOptPeriodUnwrap \/ s = SiteComputeSignUnwrap)).
  Proof.
    unfold Config.poling_step, poling_of_cfg. destruct (c_pp c) as [| [| pu] a]; try discriminate.
    - unfold optimum_poling_period. destruct (le_pump signal (cfg_pump c)); cbn [bind].
      + intros H; inversion H. right. split; [reflexivity | left; reflexivity].
      + destruct (neqb o _ _); cbn [bind]; try discriminate.
        destruct (o_nm_period K _ _ _); flag_cases; cbn [bind]; try discriminate.
        * destruct (_ || _); discriminate.
        * intros H; inversion H. left; reflexivity.
    - destruct (rj && neqb o pu (n0 o)); try discriminate.
      unfold compute_sign. destruct (le_pump signal (cfg_pump c)); cbn [bind]; try discriminate.
      intros H; inversion H. right. split; [reflexivity | right; reflexivity].
  Qed.

  Lemma theta_step_panic c signal pp s : theta_step c signal pp = Panic s ->
    s = SiteNelderMeadUnwrap \/ (le_pump signal (cfg_pump c) = true /\ s = SiteOptThetaUnwrap).
  Proof.
    unfold Config.theta_step. destruct (is_auto _); try discriminate. destruct (is_pol_off pp); try discriminate.
    unfold optimum_theta, ext_defined.
    destruct (le_pump signal (cfg_pump c)); destruct (o_snell_ext K _ _); flag_cases; cbn [bind]; try discriminate;
      repeat match goal with |- context [o_nm_theta K ?a ?b ?c0 ?d] => destruct (o_nm_theta K a b c0 d) end;
      flag_cases; cbn [bind]; try discriminate; intros H; inversion H; auto.
  Qed.

  Lemma idler_step_panic c signal cs pp s : idler_step c signal cs pp = Panic s -> s = SiteNelderMeadUnwrap.
  Proof.
    unfold Config.idler_step. destruct (c_idler c) as [| ic].
    - unfold idler_optimum. destruct (le_pump _ _); try discriminate. destruct (o_idler_theta K _ _ _ _); discriminate.
    - destruct (beam_of_cfg o K _ ic cs) eqn:Hb; cbn [bind]; try discriminate.
      intros H; inversion H; subst. exact (beam_of_cfg_panic _ _ _ _ Hb).
  Qed.

  (* every panic of try_as_spdc is one of: the three unwraps of the signal<=pump error, or a failed simplex search *)
  Theorem panic_sites c s :
    try_as_spdc c = Panic s ->
    (exists signal, signal_step c = Ok signal /\ le_pump signal (cfg_pump c) = true /\
                    (s = SiteOptThetaUnwrap \/ s = SiteComputeSignUnwrap \/ s = SiteOptPeriodUnwrap))
    \/ s = SiteNelderMeadUnwrap.
  Proof.
    unfold Config.try_as_spdc_steps.
    destruct (signal_step c) as [signal | |] eqn:Hs; cbn [bind]; try discriminate.
    2:{ intros H; inversion H; subst. right. exact (beam_of_cfg_panic _ _ _ _ Hs). }
    destruct (poling_step c signal) as [[pp nfp] | |] eqn:Hp; cbn [bind fst snd]; try discriminate.
    2:{ intros H; inversion H; subst. destruct (poling_step_panic _ _ _ Hp) as [-> | (Hle & [-> | ->])]; [right; reflexivity | |];
          left; exists signal; repeat split; auto. }
    destruct (theta_step c signal pp) as [cs | |] eqn:Ht; cbn [bind]; try discriminate.
    2:{ intros H; inversion H; subst. destruct (theta_step_panic _ _ _ _ Ht) as [-> | (Hle & ->)]; [right; reflexivity |].
        left; exists signal; repeat split; auto. }
    destruct (idler_step c signal cs pp) as [[idler nfi] | |] eqn:Hi; cbn [bind fst snd]; try discriminate.
    intros H; inversion H; subst. right. exact (idler_step_panic _ _ _ _ _ Hi).
  Qed.
End Rules.

Arguments angle_spec_bad {num} b.
Arguments searches_total {num} K.
Arguments searches_defined_at {num} o K c.
