(* C05 — the plane-wave value is the LIMIT of the generated closure as the squared waists grow proportionally (all diffraction
   coefficients present, arbitrary walk-off): lam^2 * closure(lam * waists^2) -> apod(z) (4 / sqrt(Sx Sy)) e^{i(psi0 + ff z)}. *)
From Coq Require Import Reals Lra Psatz QArith.
From Coquelicot Require Import Coquelicot.
From SpdVerif Require Import Base.Rx Base.CxPM Base.CxCont Model.PMParams Gen.PMIntegrand Proofs.C06_algebra Proofs.C06_swap Proofs.C06_defined
  Proofs.C05_closure Proofs.C05_limit.
Local Open Scope R_scope.

(* principal square root and positive real scaling *)
Lemma Csqrt_scale (c : R) (w : C) : 0 < c -> Csqrt (Cmult (RtoC (c * c)) w) = Cmult (RtoC c) (Csqrt w).
Proof.
  intros Hc. destruct w as [x y].
  assert (E : Cmult (RtoC (c * c)) (x, y) = (c * c * x, c * c * y)).
  { unfold Cmult, RtoC; cbn [fst snd]. f_equal; ring. }
  rewrite E. unfold Csqrt. cbn [fst snd].
  assert (Hm : Cmod (c * c * x, c * c * y) = c * c * Cmod (x, y)).
  { rewrite <- E, Cmod_mult, Cmod_R. rewrite Rabs_pos_eq. reflexivity. apply Rlt_le, Rmult_lt_0_compat; assumption. }
  rewrite Hm.
  assert (Hsgn : (if Rle_dec 0 (c * c * y) then 1 else -1) = (if Rle_dec 0 y then 1 else -1)).
  { assert (Hcc : 0 < c * c) by (apply Rmult_lt_0_compat; assumption).
    destruct (Rle_dec 0 (c * c * y)) as [H1|H1], (Rle_dec 0 y) as [H2|H2]; try reflexivity; exfalso.
    - apply Rnot_le_lt in H2. assert (c * c * y < 0) by nra. lra.
    - apply H1. apply Rmult_le_pos; lra. }
  rewrite Hsgn.
  pose proof (Cmod_ge_re (x, y)) as Hre; cbn [fst] in Hre.
  assert (Hp : 0 <= (Cmod (x, y) + x) / 2) by (unfold Rabs in Hre; destruct (Rcase_abs x); lra).
  assert (Hq : 0 <= (Cmod (x, y) - x) / 2) by (unfold Rabs in Hre; destruct (Rcase_abs x); lra).
  replace ((c * c * Cmod (x, y) + c * c * x) / 2) with ((c * c) * ((Cmod (x, y) + x) / 2)) by field.
  replace ((c * c * Cmod (x, y) - c * c * x) / 2) with ((c * c) * ((Cmod (x, y) - x) / 2)) by field.
  assert (Hcc : 0 <= c * c) by (apply Rlt_le, Rmult_lt_0_compat; assumption).
  rewrite (sqrt_mult (c * c) ((Cmod (x, y) + x) / 2)) by assumption.
  rewrite (sqrt_mult (c * c) ((Cmod (x, y) - x) / 2)) by assumption. rewrite (sqrt_square c) by lra.
  unfold Cmult, RtoC; cbn [fst snd]. f_equal; ring.
Qed.

Section WaistLimit.
  Variables (apod : R -> R) (wx wy ss si dls dli cs ci ds di m nn psi_h ee ff z : R).
  Hypothesis Hss : 0 < ss.
  Hypothesis Hsi : 0 < si.
  Hypothesis Hwx : 0 <= wx.
  Hypothesis Hwy : 0 <= wy.

  (* the closure with all squared waists multiplied by lam (collinear coefficients: As = (-(Wx^2 + Ws^2)/4, -DEL2s), ...), times lam^2 *)
  Definition scaled (lam : R) : C :=
    Cmult (RtoC (lam * lam))
      (pm_closure apod 1 (- lam * (wx + ss) / 4, - dls) (- lam * (wx + si) / 4, - dli) (- lam * (wy + ss) / 4, - dls)
                  (- lam * (wy + si) / 4, - dli) cs ci ds di (- lam * wx / 2, 0) (- lam * wy / 2, 0) m nn (0, psi_h)
                  (RtoC 0) (RtoC 0) (RtoC 0) ee ff z).

  Definition plane_wave_value : C :=
    Cmult (RtoC (apod z * (4 / sqrt (Sig ss si wx * Sig ss si wy)))) (Cexp (0, psi_h + ee + ff * z)).

  (* the same in eps = 1 / lam *)
  Let b1 := - dls + (cs + ds * z).
  Let b3 := - dli + (ci + di * z).
  Let b8 := - (m * z).
  Definition A1e (e : R) : C := (- (wx + ss) / 4, e * b1).
  Definition A3e (e : R) : C := (- (wx + si) / 4, e * b3).
  Definition A2e (e : R) : C := (- (wy + ss) / 4, e * b1).
  Definition A4e (e : R) : C := (- (wy + si) / 4, e * b3).
  Definition A8e (e : R) : C := (- wx / 2, e * b8).
  Definition A9e (e : R) : C := (- wy / 2, e * b8).
  Let A6 : C := (0, nn * (1 + z)).
  Let A10 : C := (0, psi_h + ee + ff * z).
  Definition d1e (e : R) : C := pm_det (A1e e) (A3e e) (A8e e).
  Definition d2e (e : R) : C := pm_det (A2e e) (A4e e) (A9e e).
  Definition Ee (e : R) : C :=
    Cminus A10 (Cmult (RtoC e) (Cmult (Cmult (Cmult A6 A6) (Cminus (Cplus (A2e e) (A4e e)) (A9e e))) (Cinv (d2e e)))).
  Definition Ge (e : R) : C :=
    Cmult (RtoC (apod z)) (Cmult (Cexp (Ee e)) (Cinv (Csqrt (Cmult (d1e e) (d2e e))))).

  Lemma d1e_neq e : d1e e <> RtoC 0.
  Proof.
    unfold d1e. apply pm_det_nonzero; unfold A1e, A3e, A8e; cbn [fst snd]; try lra.
    assert (0 < ss * si) by (apply Rmult_lt_0_compat; assumption). nra.
  Qed.
  Lemma d2e_neq e : d2e e <> RtoC 0.
  Proof.
    unfold d2e. apply pm_det_nonzero; unfold A2e, A4e, A9e; cbn [fst snd]; try lra.
    assert (0 < ss * si) by (apply Rmult_lt_0_compat; assumption). nra.
  Qed.

  Lemma scaled_eq lam : 0 < lam -> scaled lam = Ge (/ lam).
  Proof.
    intros Hl. unfold scaled, pm_closure. cbv zeta.
    set (e := / lam). assert (Hle : lam * e = 1) by (unfold e; field; lra).
    (* the coefficients are lam times the eps-coefficients *)
    assert (E1 : Cplus (- lam * (wx + ss) / 4, - dls) (0, (cs + ds * z) * 1 / 1) = Cmult (RtoC lam) (A1e e)).
    { unfold A1e, b1, Cplus, Cmult, RtoC; cbn [fst snd]. apply C_pair_eq; [field|]. replace (lam * (e * (- dls + (cs + ds * z)))) with ((lam * e) * (- dls + (cs + ds * z))) by ring. rewrite Hle. field. }
    assert (E3 : Cplus (- lam * (wx + si) / 4, - dli) (0, (ci + di * z) * 1 / 1) = Cmult (RtoC lam) (A3e e)).
    { unfold A3e, b3, Cplus, Cmult, RtoC; cbn [fst snd]. apply C_pair_eq; [field|]. replace (lam * (e * (- dli + (ci + di * z)))) with ((lam * e) * (- dli + (ci + di * z))) by ring. rewrite Hle. field. }
    assert (E2 : Cplus (- lam * (wy + ss) / 4, - dls) (0, (cs + ds * z) * 1 / 1) = Cmult (RtoC lam) (A2e e)).
    { unfold A2e, b1, Cplus, Cmult, RtoC; cbn [fst snd]. apply C_pair_eq; [field|]. replace (lam * (e * (- dls + (cs + ds * z)))) with ((lam * e) * (- dls + (cs + ds * z))) by ring. rewrite Hle. field. }
    assert (E4 : Cplus (- lam * (wy + si) / 4, - dli) (0, (ci + di * z) * 1 / 1) = Cmult (RtoC lam) (A4e e)).
    { unfold A4e, b3, Cplus, Cmult, RtoC; cbn [fst snd]. apply C_pair_eq; [field|]. replace (lam * (e * (- dli + (ci + di * z)))) with ((lam * e) * (- dli + (ci + di * z))) by ring. rewrite Hle. field. }
    assert (E8 : Cminus (- lam * wx / 2, 0) (0, m * z * 1 / 1) = Cmult (RtoC lam) (A8e e)).
    { unfold A8e, b8, Cminus, Cplus, Copp, Cmult, RtoC; cbn [fst snd]. apply C_pair_eq; [field|]. replace (lam * (e * - (m * z))) with ((lam * e) * - (m * z)) by ring. rewrite Hle. field. }
    assert (E9 : Cminus (- lam * wy / 2, 0) (0, m * z * 1 / 1) = Cmult (RtoC lam) (A9e e)).
    { unfold A9e, b8, Cminus, Cplus, Copp, Cmult, RtoC; cbn [fst snd]. apply C_pair_eq; [field|]. replace (lam * (e * - (m * z))) with ((lam * e) * - (m * z)) by ring. rewrite Hle. field. }
    assert (E6 : ((0, nn / 1 * (1 + z)) : C) = A6) by (unfold A6; apply C_pair_eq; field).
    assert (E10 : Cplus (0, psi_h) (0, (ee + ff * z) / 1) = A10) by (unfold A10, Cplus; cbn [fst snd]; apply C_pair_eq; field).
    rewrite E1, E2, E3, E4, E8, E9, E6, E10.
    set (a1 := A1e e). set (a2 := A2e e). set (a3 := A3e e). set (a4 := A4e e). set (a8 := A8e e). set (a9 := A9e e).
    set (L := RtoC lam).
    assert (HL : L <> RtoC 0) by (apply RtoC_neq_0; lra).
    (* determinants scale by lam^2 *)
    assert (D1 : Cminus (Cmult (Cmult (RtoC 4) (Cmult L a1)) (Cmult L a3)) (Cmult (Cmult L a8) (Cmult L a8)) = Cmult (Cmult L L) (d1e e)).
    { unfold d1e, pm_det. fold a1 a3 a8. ring. }
    assert (D2 : Cminus (Cmult (Cmult (RtoC 4) (Cmult L a2)) (Cmult L a4)) (Cmult (Cmult L a9) (Cmult L a9)) = Cmult (Cmult L L) (d2e e)).
    { unfold d2e, pm_det. fold a2 a4 a9. ring. }
    pose proof (d1e_neq e) as Hd1. pose proof (d2e_neq e) as Hd2.
    (* exponent *)
    match goal with |- context [Cexp ?x] =>
      replace x with (pm_expo (Cmult L a1) (Cmult L a2) (Cmult L a3) (Cmult L a4) (RtoC 0) A6 (RtoC 0) (Cmult L a8) (Cmult L a9) A10)
    end.
    2:{ unfold pm_expo. replace (Cmult (RtoC 0) (RtoC 0)) with (RtoC 0); [reflexivity|].
        unfold Cmult, RtoC; cbn [fst snd]. apply C_pair_eq; ring. }
    assert (Ha1 : a1 <> RtoC 0) by (apply C_neq_0_of_re; unfold a1, A1e; cbn [fst]; lra).
    assert (Ha2 : a2 <> RtoC 0) by (apply C_neq_0_of_re; unfold a2, A2e; cbn [fst]; lra).
    rewrite pm_expo_collinear.
    2:{ apply Cmult_neq_0; assumption. }
    2:{ apply Cmult_neq_0; assumption. }
    2:{ unfold pm_det. rewrite D1. apply Cmult_neq_0; [apply Cmult_neq_0|]; assumption. }
    2:{ unfold pm_det. rewrite D2. apply Cmult_neq_0; [apply Cmult_neq_0|]; assumption. }
    unfold pm_det at 1. rewrite D1, D2.
    assert (EE : Cminus A10 (Cdiv (Cmult (Cmult A6 A6) (Cminus (Cplus (Cmult L a2) (Cmult L a4)) (Cmult L a9))) (Cmult (Cmult L L) (d2e e))) = Ee e).
    { unfold Ee. fold a2 a4 a9.
      assert (HLe : Cmult L (RtoC e) = RtoC 1) by (unfold L; rewrite <- RtoC_mult, Hle; reflexivity).
      replace (RtoC e) with (Cinv L).
      - field. split; assumption.
      - unfold L, e. rewrite RtoC_inv by lra. reflexivity. }
    rewrite EE.
    (* denominator *)
    replace (Cmult (Cmult (Cmult L L) (d1e e)) (Cmult (Cmult L L) (d2e e)))
      with (Cmult (RtoC ((lam * lam) * (lam * lam))) (Cmult (d1e e) (d2e e))).
    2:{ unfold L. rewrite !RtoC_mult. ring. }
    rewrite Csqrt_scale by nra.
    unfold Ge.
    assert (Hsq : Csqrt (Cmult (d1e e) (d2e e)) <> RtoC 0) by (apply Csqrt_neq_0, Cmult_neq_0; assumption).
    rewrite RtoC_mult. fold L. field. split; assumption.
  Qed.

  (* ---- continuity of Ge at 0 *)
  Lemma cont_lin (a b : R) (x : R) : continuous (fun e : R => ((a, e * b) : C)) x.
  Proof.
    apply (continuous_Cpair (U := R_UniformSpace) (fun _ => a) (fun e => e * b)).
    - apply continuous_const.
    - apply (ex_derive_continuous (fun e : R => e * b)). auto_derive. exact I.
  Qed.

  Lemma cont_RtoC_id (x : R) : continuous (fun e : R => RtoC e) x.
  Proof. apply continuous_RtoC. Qed.

  Lemma cont_A1e x : continuous A1e x. Proof. apply cont_lin. Qed.
  Lemma cont_A2e x : continuous A2e x. Proof. apply cont_lin. Qed.
  Lemma cont_A3e x : continuous A3e x. Proof. apply cont_lin. Qed.
  Lemma cont_A4e x : continuous A4e x. Proof. apply cont_lin. Qed.
  Lemma cont_A8e x : continuous A8e x. Proof. apply cont_lin. Qed.
  Lemma cont_A9e x : continuous A9e x. Proof. apply cont_lin. Qed.

  Lemma cont_det (f g h : R -> C) x :
    continuous f x -> continuous g x -> continuous h x -> continuous (fun e => pm_det (f e) (g e) (h e)) x.
  Proof.
    intros Hf Hg Hh. unfold pm_det.
    apply (cont_Cminus (fun e => Cmult (Cmult (RtoC 4) (f e)) (g e)) (fun e => Cmult (h e) (h e))).
    - apply (cont_Cmult (fun e => Cmult (RtoC 4) (f e)) g); [|assumption].
      apply (cont_Cmult (fun _ => RtoC 4) f); [apply cont_Cconst | assumption].
    - apply (cont_Cmult h h); assumption.
  Qed.

  Lemma cont_d1e x : continuous d1e x.
  Proof. apply (cont_det A1e A3e A8e); [apply cont_A1e | apply cont_A3e | apply cont_A8e]. Qed.
  Lemma cont_d2e x : continuous d2e x.
  Proof. apply (cont_det A2e A4e A9e); [apply cont_A2e | apply cont_A4e | apply cont_A9e]. Qed.

  Lemma cont_Ee x : continuous Ee x.
  Proof.
    unfold Ee.
    apply (cont_Cminus (fun _ => A10) (fun e => Cmult (RtoC e) (Cmult (Cmult (Cmult A6 A6) (Cminus (Cplus (A2e e) (A4e e)) (A9e e))) (Cinv (d2e e))))).
    - apply cont_Cconst.
    - apply (cont_Cmult (fun e => RtoC e) (fun e => Cmult (Cmult (Cmult A6 A6) (Cminus (Cplus (A2e e) (A4e e)) (A9e e))) (Cinv (d2e e)))).
      + apply continuous_RtoC.
      + apply (cont_Cmult (fun e => Cmult (Cmult A6 A6) (Cminus (Cplus (A2e e) (A4e e)) (A9e e))) (fun e => Cinv (d2e e))).
        * apply (cont_Cmult (fun _ => Cmult A6 A6) (fun e => Cminus (Cplus (A2e e) (A4e e)) (A9e e))); [apply cont_Cconst|].
          apply (cont_Cminus (fun e => Cplus (A2e e) (A4e e)) A9e); [|apply cont_A9e].
          apply (cont_Cplus A2e A4e); [apply cont_A2e | apply cont_A4e].
        * apply (continuous_comp d2e Cinv); [apply cont_d2e | apply continuous_Cinv, d2e_neq].
  Qed.

  Lemma d1e_0 : d1e 0 = RtoC (Sig ss si wx / 4).
  Proof.
    unfold d1e, pm_det, A1e, A3e, A8e, Sig, Cminus, Cplus, Copp, Cmult, RtoC; cbn [fst snd]. apply C_pair_eq; field.
  Qed.
  Lemma d2e_0 : d2e 0 = RtoC (Sig ss si wy / 4).
  Proof.
    unfold d2e, pm_det, A2e, A4e, A9e, Sig, Cminus, Cplus, Copp, Cmult, RtoC; cbn [fst snd]. apply C_pair_eq; field.
  Qed.

  Lemma P0_pos : 0 < Sig ss si wx * Sig ss si wy / 16.
  Proof.
    pose proof (Sig_pos ss si Hss Hsi wx Hwx). pose proof (Sig_pos ss si Hss Hsi wy Hwy). nra.
  Qed.

  Lemma P_0 : Cmult (d1e 0) (d2e 0) = RtoC (Sig ss si wx * Sig ss si wy / 16).
  Proof. rewrite d1e_0, d2e_0, <- RtoC_mult. f_equal. field. Qed.

  Lemma cont_Ge : continuous Ge 0.
  Proof.
    unfold Ge.
    apply (cont_Cmult (fun _ => RtoC (apod z)) (fun e => Cmult (Cexp (Ee e)) (Cinv (Csqrt (Cmult (d1e e) (d2e e)))))); [apply cont_Cconst|].
    apply (cont_Cmult (fun e => Cexp (Ee e)) (fun e => Cinv (Csqrt (Cmult (d1e e) (d2e e))))).
    - apply (continuous_comp Ee Cexp); [apply cont_Ee | apply continuous_Cexp].
    - apply (continuous_comp (fun e => Csqrt (Cmult (d1e e) (d2e e))) Cinv).
      + apply (continuous_comp (fun e => Cmult (d1e e) (d2e e)) Csqrt).
        * apply (cont_Cmult d1e d2e); [apply cont_d1e | apply cont_d2e].
        * rewrite P_0. apply continuous_Csqrt_pos, P0_pos.
      + apply continuous_Cinv, Csqrt_neq_0, Cmult_neq_0; [apply d1e_neq | apply d2e_neq].
  Qed.

  Lemma Ge_0 : Ge 0 = plane_wave_value.
  Proof.
    unfold Ge, plane_wave_value.
    assert (E0 : Ee 0 = (0, psi_h + ee + ff * z)).
    { unfold Ee. rewrite Cmult_0_l. unfold A10, Cminus, Cplus, Copp, RtoC; cbn [fst snd]. apply C_pair_eq; ring. }
    rewrite E0, P_0, Csqrt_real_nonneg by (left; apply P0_pos).
    pose proof (Sig_pos ss si Hss Hsi wx Hwx) as H1. pose proof (Sig_pos ss si Hss Hsi wy Hwy) as H2.
    assert (Hsq : sqrt (Sig ss si wx * Sig ss si wy / 16) = sqrt (Sig ss si wx * Sig ss si wy) / 4).
    { replace (Sig ss si wx * Sig ss si wy / 16) with (Sig ss si wx * Sig ss si wy * (/ 4 * / 4)) by field.
      rewrite sqrt_mult by nra. rewrite sqrt_square by lra. field. }
    rewrite Hsq.
    assert (Hs0 : sqrt (Sig ss si wx * Sig ss si wy) <> 0) by (apply Rgt_not_eq, sqrt_lt_R0; nra).
    set (sq := sqrt _) in *. set (ph := Cexp _). destruct ph as [pr pi].
    unfold Cinv, Cmult, RtoC; cbn [fst snd]. apply C_pair_eq; field; assumption.
  Qed.

  (* C05: the plane-wave value is the LIMIT of the actual closure (all diffraction coefficients present, arbitrary walk-off) as the
     three squared waists grow proportionally: lam^2 * closure(lam * waists^2) -> apod(z) (4 / sqrt(Sx Sy)) e^{i (psi_h + ee + ff z)} *)
  Theorem waist_limit : filterlim scaled (Rbar_locally p_infty) (locally plane_wave_value).
  Proof.
    rewrite <- Ge_0.
    apply (filterlim_ext_loc (fun lam => Ge (/ lam))).
    - exists 0. intros lam Hl. symmetry. apply scaled_eq. exact Hl.
    - apply (filterlim_comp _ _ _ Rinv Ge (Rbar_locally p_infty) (locally 0) (locally (Ge 0))).
      + apply (filterlim_Rbar_inv p_infty). discriminate.
      + apply cont_Ge.
  Qed.
End WaistLimit.

(* ---- on the generated integrand: a collinear setup whose three waists are all multiplied by s *)
Lemma scale_collinear s p : pm_collinear p -> pm_collinear (pm_scale_waists s p).
Proof. intros H. exact H. Qed.

Lemma collinear_scaled_integrand p s z :
  pm_collinear p ->
  Cmult (RtoC ((s * s) * (s * s))) (pm_integrand (pm_scale_waists s p) z) =
  scaled (p_apod p) (pm_Wx_SQ p) (pm_Wy_SQ p) (pm_Ws_SQ p) (pm_Wi_SQ p) (pm_DEL2s p) (pm_DEL2i p) (pm_Cs p) (pm_Ci p) (pm_Ds p) (pm_Di p)
         (pm_m p) (pm_n p) (pm_ks_f p * p_z0s p + pm_ki_f p * p_z0i p) (pm_ee p) (pm_ff p) z (s * s).
Proof.
  intros Hc. set (q := pm_scale_waists s p). assert (Hq : pm_collinear q) by exact Hc.
  unfold scaled. f_equal. rewrite integrand_is_closure. unfold pm_closure_of.
  assert (EWx : pm_Wx_SQ q = s * s * pm_Wx_SQ p) by (unfold pm_Wx_SQ, q; cbn [pm_scale_waists p_wpx]; ring).
  assert (EWy : pm_Wy_SQ q = s * s * pm_Wy_SQ p) by (unfold pm_Wy_SQ, q; cbn [pm_scale_waists p_wpy]; ring).
  assert (EWs : pm_Ws_SQ q = s * s * pm_Ws_SQ p) by (unfold pm_Ws_SQ, q; cbn [pm_scale_waists p_wsx p_wsy]; ring).
  assert (EWi : pm_Wi_SQ q = s * s * pm_Wi_SQ p) by (unfold pm_Wi_SQ, q; cbn [pm_scale_waists p_wix p_wiy]; ring).
  assert (EM : pm_M2 q = 1) by (unfold pm_M2; ring).
  assert (EAs : pm_As q = (- (s * s) * (pm_Wx_SQ p + pm_Ws_SQ p) / 4, - pm_DEL2s p)).
  { rewrite (col_As q Hq), EWx, EWs. apply C_pair_eq; [dec_norm; field | reflexivity]. }
  assert (EAi : pm_Ai q = (- (s * s) * (pm_Wx_SQ p + pm_Wi_SQ p) / 4, - pm_DEL2i p)).
  { rewrite (col_Ai q Hq), EWx, EWi. apply C_pair_eq; [dec_norm; field | reflexivity]. }
  assert (EBs : pm_Bs q = (- (s * s) * (pm_Wy_SQ p + pm_Ws_SQ p) / 4, - pm_DEL2s p)).
  { unfold pm_Bs, pm_GAM2s. rewrite EWy, EWs, EM. apply C_pair_eq; [dec_norm; field | change (pm_DEL2s q) with (pm_DEL2s p); field]. }
  assert (EBi : pm_Bi q = (- (s * s) * (pm_Wy_SQ p + pm_Wi_SQ p) / 4, - pm_DEL2i p)).
  { unfold pm_Bi, pm_GAM2i. rewrite EWy, EWi, EM. apply C_pair_eq; [dec_norm; field | change (pm_DEL2i q) with (pm_DEL2i p); field]. }
  assert (Emx : pm_mx q = (- (s * s) * pm_Wx_SQ p / 2, 0)).
  { unfold pm_mx, pm_z0. rewrite EWx, EM. apply C_pair_eq; [dec_norm; field | unfold Rdiv; ring]. }
  assert (Emy : pm_my q = (- (s * s) * pm_Wy_SQ p / 2, 0)).
  { unfold pm_my, pm_z0. rewrite EWy, EM. apply C_pair_eq; [dec_norm; field | unfold Rdiv; ring]. }
  rewrite EM, EAs, EAi, EBs, EBi, Emx, Emy, (col_hh q Hq), (col_A5 q Hq), (col_A5sq q Hq), (col_A7 q Hq).
  reflexivity.
Qed.

Lemma filterlim_sqr_p_infty : filterlim (fun s : R => s * s) (Rbar_locally p_infty) (Rbar_locally p_infty).
Proof.
  intros P [M HM]. exists (Rmax 1 M). intros s Hs. apply HM.
  pose proof (Rmax_l 1 M). pose proof (Rmax_r 1 M). nra.
Qed.

(* C05: for every collinear setup with positive collection-mode areas, the generated integrand, with all three waists multiplied by s
   and rescaled by s^4, converges (s -> infinity) to apod(z) (4 / sqrt(Sigma_x Sigma_y)) exp(i (psi0 + ff z)):
   the zero-diffraction closed form is the large-waist limit of the real integrand (diffraction AND walk-off terms vanish) *)
Theorem integrand_waist_limit p z :
  pm_collinear p -> 0 < pm_Ws_SQ p -> 0 < pm_Wi_SQ p ->
  filterlim (fun s => Cmult (RtoC ((s * s) * (s * s))) (pm_integrand (pm_scale_waists s p) z)) (Rbar_locally p_infty)
            (locally (plane_wave_value (p_apod p) (pm_Wx_SQ p) (pm_Wy_SQ p) (pm_Ws_SQ p) (pm_Wi_SQ p)
                                       (pm_ks_f p * p_z0s p + pm_ki_f p * p_z0i p) (pm_ee p) (pm_ff p) z)).
Proof.
  intros Hc Hs Hi.
  apply (filterlim_ext (fun s => scaled (p_apod p) (pm_Wx_SQ p) (pm_Wy_SQ p) (pm_Ws_SQ p) (pm_Wi_SQ p) (pm_DEL2s p) (pm_DEL2i p) (pm_Cs p)
                                       (pm_Ci p) (pm_Ds p) (pm_Di p) (pm_m p) (pm_n p) (pm_ks_f p * p_z0s p + pm_ki_f p * p_z0i p)
                                       (pm_ee p) (pm_ff p) z (s * s))).
  - intros s. symmetry. apply collinear_scaled_integrand, Hc.
  - eapply filterlim_comp; [apply filterlim_sqr_p_infty|].
    apply waist_limit; try assumption.
    + unfold pm_Wx_SQ. apply Rle_0_sqr.
    + unfold pm_Wy_SQ. apply Rle_0_sqr.
Qed.
