(* C12 — adaptive Simpson, first level (the mechanism of known finding F5e, as theorems about the translated code):
   (i) with the recursion not stopped, the first level accepts iff |left + right - whole| <= 15 eps; then the result is the
       Richardson value after exactly 5 integrand calls, otherwise (depth >= 2, halves not stopped) at least 7 calls are made;
   (ii) whenever the five first-level samples of ANY integrand coincide, that level accepts for every eps > 0 and the result
       is (b - a) * f(a);
   (iii) for f = amp * exp(ikx), amp <> 0, the five samples coincide exactly when k (b - a) / 4 is a multiple of 2 pi;
       for a non-zero multiple the true integral is 0, so the error is |amp| (b - a) whatever the tolerance. *)
From Coq Require Import Reals QArith ZArith List Bool Lra Lia Classical.
From Coquelicot Require Import Coquelicot.
From SpdVerif Require Import Base.NumOps Gen.Integration Model.Quadrature Proofs.C12_base Proofs.C12_adaptive Proofs.C12_expi.
Import ListNotations.
Local Open Scope R_scope.

Definition ones1 : R -> nat := fun _ => 1%nat.

Lemma accept_iff : forall (f : R -> C) (a b eps : R), accept f a b eps = true <-> Cmod (delta f a b) <= 15 * eps.
Proof.
  intros. unfold accept, Rbool_le. destruct (Rle_dec (Cmod (delta f a b)) (15 * eps)); split; intros; try assumption; try reflexivity; try discriminate.
  contradiction.
Qed.

Theorem first_level : forall (f : R -> C) (a b eps : R) d, stop eps a b = false ->
  (accept f a b eps = true <-> Cmod (delta f a b) <= 15 * eps) /\
  (accept f a b eps = true ->
     simpson_adaptive Rops f a b eps (S d) = richardson f a b /\
     simpson_adaptive_calls Rops f ones1 a b eps (S d) = 5%nat) /\
  (accept f a b eps = false -> stop (eps / 2) a ((a + b) / 2) = false ->
     (7 <= simpson_adaptive_calls Rops f ones1 a b eps (S (S d)))%nat).
Proof.
  intros f a b eps d Hs. split; [apply accept_iff|]. split.
  - intros Ha. split.
    + rewrite simpson_adaptive_asr, asr_S, Hs, Ha. reflexivity.
    + rewrite simpson_adaptive_calls_asr, asr_calls_S, Hs, Ha. reflexivity.
  - intros Ha Hs2. rewrite simpson_adaptive_calls_asr, asr_calls_S, Hs, Ha.
    rewrite (asr_calls_S f ones1 a ((a + b) / 2)), Hs2. unfold ones1. lia.
Qed.

(* ---- five coinciding samples *)
Definition samples_equal (f : R -> C) (a b : R) (v : C) : Prop :=
  f a = v /\ f ((a + (a + b) / 2) / 2) = v /\ f ((a + b) / 2) = v /\ f (((a + b) / 2 + b) / 2) = v /\ f b = v.

Lemma S3_const : forall (f : R -> C) (a b : R) (v : C), a <= b -> f a = v -> f ((a + b) / 2) = v -> f b = v ->
  S3 f a b = vscale Rops (b - a) v.
Proof.
  intros f a b v Hab Ha Hm Hb. apply pair_eq.
  - rewrite S3_fst by exact Hab. rewrite Ha, Hm, Hb. cbn [vscale Rops fst snd]. field.
  - rewrite S3_snd by exact Hab. rewrite Ha, Hm, Hb. cbn [vscale Rops fst snd]. field.
Qed.

Theorem aliased_first_level : forall (f : R -> C) (a b eps : R) (v : C) d,
  a <= b -> 0 < eps -> stop eps a b = false -> samples_equal f a b v ->
  simpson_adaptive Rops f a b eps (S d) = vscale Rops (b - a) v /\
  simpson_adaptive_calls Rops f ones1 a b eps (S d) = 5%nat.
Proof.
  intros f a b eps v d Hab He Hs [E0 [E1 [E2 [E3 E4]]]].
  assert (W : S3 f a b = vscale Rops (b - a) v) by (apply S3_const; assumption).
  assert (L : S3 f a ((a + b) / 2) = vscale Rops ((a + b) / 2 - a) v) by (apply S3_const; try assumption; lra).
  assert (Rr : S3 f ((a + b) / 2) b = vscale Rops (b - (a + b) / 2) v) by (apply S3_const; try assumption; lra).
  assert (D : delta f a b = (0, 0)).
  { unfold delta. rewrite W, L, Rr. destruct v. cbv [vsub vadd vscale Rops fst snd]. f_equal; field. }
  assert (Ha : accept f a b eps = true).
  { apply accept_iff. rewrite D. change (0, 0) with (RtoC 0). rewrite Cmod_0. lra. }
  destruct (first_level f a b eps d Hs) as [_ [H _]]. destruct (H Ha) as [Hv Hc]. split; [|exact Hc].
  rewrite Hv. unfold richardson. rewrite D, L, Rr. destruct v. cbv [vadd vdiv vscale Rops fst snd]. f_equal; field.
Qed.

(* ---- the family exp(ikx) *)
Lemma trig_2piZ : forall j : Z, cos (2 * PI * IZR j) = 1 /\ sin (2 * PI * IZR j) = 0.
Proof.
  assert (N : forall n : nat, cos (2 * PI * INR n) = 1 /\ sin (2 * PI * INR n) = 0).
  { intros n. replace (2 * PI * INR n) with (0 + 2 * INR n * PI) by ring. rewrite cos_period, sin_period, cos_0, sin_0. split; reflexivity. }
  intros j. destruct (Z_le_gt_dec 0 j) as [H|H].
  - rewrite <- (Z2Nat.id j H), <- INR_IZR_INZ. apply N.
  - replace (2 * PI * IZR j) with (- (2 * PI * INR (Z.to_nat (- j)))).
    + rewrite cos_neg, sin_neg. destruct (N (Z.to_nat (- j))) as [-> ->]. split; ring.
    + rewrite INR_IZR_INZ, Z2Nat.id by lia. rewrite opp_IZR. ring.
Qed.

Lemma expi_one_iff : forall t : R, (cos t, sin t) = (1, 0) <-> exists j : Z, t = 2 * PI * IZR j.
Proof.
  intros t. split.
  - intros H. injection H as Hc Hs.
    assert (Hh : sin (t / 2) = 0).
    { pose proof (cos_2a_sin (t / 2)) as E. replace (2 * (t / 2)) with t in E by field. rewrite Hc in E.
      assert (sin (t / 2) * sin (t / 2) = 0) by lra. apply Rmult_integral in H. tauto. }
    destruct (sin_eq_0_0 _ Hh) as [j Hj]. exists j. lra.
  - intros [j ->]. destruct (trig_2piZ j) as [-> ->]. reflexivity.
Qed.

(* the five first-level samples of amp * exp(ikx), amp <> 0, coincide iff k (b - a) / 4 is a multiple of 2 pi *)
Definition cexpi (amp : C) (k : R) (x : R) : C := Cmult amp (expi k x).

Lemma expi_nonzero : forall k x, expi k x <> (0, 0).
Proof.
  intros k x H. unfold expi in H. injection H as Hc Hs. pose proof (sin2_cos2 (k * x)) as E. rewrite Hc, Hs in E. unfold Rsqr in E. lra.
Qed.

Lemma Cmult_cancel_l : forall z u v : C, z <> (0, 0) -> Cmult z u = Cmult z v -> u = v.
Proof.
  intros z u v Hz H. change (0, 0) with (RtoC 0) in Hz.
  rewrite <- (Cmult_1_l u), <- (Cmult_1_l v), <- (Cinv_l z Hz), <- !Cmult_assoc, H. reflexivity.
Qed.

Theorem alias_family : forall (amp : C) (k a b : R), amp <> (0, 0) ->
  (samples_equal (cexpi amp k) a b (cexpi amp k a) <-> exists j : Z, k * (b - a) / 4 = 2 * PI * IZR j).
Proof.
  intros amp k a b Hamp. set (h := (b - a) / 4).
  assert (Hstep : forall x, cexpi amp k (x + h) = cexpi amp k x <-> (cos (k * h), sin (k * h)) = (1, 0)).
  { intros x. unfold cexpi. rewrite expi_shift. split.
    - intros H. apply (Cmult_cancel_l amp) in H; [|exact Hamp].
      change (cos (k * h), sin (k * h)) with (expi k h).
      apply (Cmult_cancel_l (expi k x)); [apply expi_nonzero|].
      rewrite (Cmult_comm (expi k x) (expi k h)), H. destruct (expi k x). cbv [Cmult fst snd]. f_equal; ring.
    - intros H. change (expi k h) with (cos (k * h), sin (k * h)). rewrite H.
      destruct amp, (expi k x). cbv [Cmult fst snd]. f_equal; ring. }
  replace (k * (b - a) / 4) with (k * h) by (unfold h; field).
  rewrite <- expi_one_iff. split.
  - intros [_ [E1 _]]. apply (Hstep a). rewrite <- E1. f_equal. unfold h. field.
  - intros H1. assert (S1 : forall x, cexpi amp k (x + h) = cexpi amp k x) by (intros x; apply Hstep; exact H1).
    unfold samples_equal. repeat split.
    + replace ((a + (a + b) / 2) / 2) with (a + h) by (unfold h; field). apply S1.
    + replace ((a + b) / 2) with (a + h + h) by (unfold h; field). rewrite !S1. reflexivity.
    + replace (((a + b) / 2 + b) / 2) with (a + h + h + h) by (unfold h; field). rewrite !S1. reflexivity.
    + replace b with (a + h + h + h + h) at 1 by (unfold h; field). rewrite !S1. reflexivity.
Qed.

(* the result for the whole family, and the true integral *)
Theorem alias_family_result : forall (amp : C) (k a b eps : R) (j : Z) d,
  a <= b -> 0 < eps -> stop eps a b = false -> k * (b - a) / 4 = 2 * PI * IZR j ->
  simpson_adaptive Rops (cexpi amp k) a b eps (S d) = vscale Rops (b - a) (cexpi amp k a) /\
  simpson_adaptive_calls Rops (cexpi amp k) ones1 a b eps (S d) = 5%nat /\
  (k <> 0 -> Cmult amp (expi_int k a b) = (0, 0)).
Proof.
  intros amp k a b eps j d Hab He Hs Hk.
  destruct (classic (amp = (0, 0))) as [Z0|Hamp].
  - (* amp = 0: the integrand is identically 0 *)
    assert (Hse : samples_equal (cexpi amp k) a b (cexpi amp k a)).
    { unfold samples_equal, cexpi. subst amp. repeat split; destruct (expi k _), (expi k a); cbv [Cmult fst snd]; f_equal; ring. }
    destruct (aliased_first_level _ a b eps _ d Hab He Hs Hse) as [H1 H2]. repeat split; try assumption.
    intros _. subst amp. destruct (expi_int k a b). cbv [Cmult fst snd]. f_equal; ring.
  - assert (Hse : samples_equal (cexpi amp k) a b (cexpi amp k a)) by (apply alias_family; [assumption | exists j; exact Hk]).
    destruct (aliased_first_level _ a b eps _ d Hab He Hs Hse) as [H1 H2]. repeat split; try assumption.
    intros Hk0. unfold expi_int.
    assert (Hb : k * b = k * a + 2 * PI * IZR (4 * j)) by (rewrite mult_IZR; lra).
    rewrite Hb. rewrite cos_plus, sin_plus. destruct (trig_2piZ (4 * j)) as [-> ->].
    replace ((sin (k * a) * 1 + cos (k * a) * 0 - sin (k * a)) / k) with 0 by (field; exact Hk0).
    replace ((cos (k * a) - (cos (k * a) * 1 - sin (k * a) * 0)) / k) with 0 by (field; exact Hk0).
    destruct amp. cbv [Cmult fst snd]. f_equal; ring.
Qed.

Lemma stop_example : stop 1 0 1 = false.
Proof.
  unfold stop, Rbool_eq, Rbool_lt, f64_eps. destruct (Req_EM_T (1 / 2) 1) as [E|_]; [exfalso; lra|].
  destruct (Rlt_dec _ _) as [L|_]; [|reflexivity]. exfalso. rewrite Rabs_right in L by lra.
  assert (Q2R (1 # 4503599627370496) < 1) by (unfold Q2R; cbn [Qnum Qden]; lra). lra.
Qed.
