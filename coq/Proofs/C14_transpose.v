(* C14 — transpose_vec (out-of-place double loop): the matrix transpose for EVERY shape; when the length is not a multiple of
   num_cols the trailing len mod num_cols elements are dropped; num_cols = 0 returns the input unchanged. *)
From Coq Require Import List Arith Bool Lia.
From SpdVerif Require Import Base.GridOps Gen.Grid Model.Grid.
Import ListNotations.

Lemma for_loop_inv {St} (I : nat -> St -> Prop) body : forall cnt lo s, I lo s ->
  (forall k s, lo <= k < lo + cnt -> I k s -> exists s', body k s = Ok s' /\ I (S k) s') ->
  exists s', for_loop lo cnt body s = Ok s' /\ I (lo + cnt) s'.
Proof.
  induction cnt as [|cnt IH]; intros lo s H0 Hstep; cbn [for_loop].
  - exists s. rewrite Nat.add_0_r. auto.
  - destruct (Hstep lo s ltac:(lia) H0) as (s1 & E1 & I1). rewrite E1. cbn [obind].
    destruct (IH (S lo) s1 I1) as (s2 & E2 & I2). { intros k s' Hk. apply Hstep. lia. }
    exists s2. split; [exact E2|]. replace (lo + S cnt) with (S lo + cnt) by lia. exact I2.
Qed.

Lemma nth_error_firstn_lt {A} (l : list A) n i : i < n -> nth_error (firstn n l) i = nth_error l i.
Proof.
  revert n i; induction l as [|h t IH]; intros n i H.
  - rewrite firstn_nil. reflexivity.
  - destruct n as [|n]; [lia|]. destruct i as [|i]; cbn; [reflexivity|]. apply IH. lia.
Qed.

Lemma divmod_rc R c r : r < R -> (c * R + r) / R = c /\ (c * R + r) mod R = r.
Proof.
  intros H. split.
  - rewrite Nat.div_add_l by lia. rewrite Nat.div_small by exact H. lia.
  - rewrite Nat.add_comm, Nat.mod_add by lia. apply Nat.mod_small; exact H.
Qed.

Section Transpose.
Context {A : Type} (v : list A) (cols : nat).
Hypothesis Hcols : 1 <= cols.
Let R := length v / cols.

(* the accumulator after k pushes: slot k holds v[(k mod R) * cols + k / R] *)
Let P (acc : list A) : Prop := forall k, k < length acc -> nth_error acc k = nth_error v ((k mod R) * cols + k / R).

Let body_inner (outer : nat) := fun inner (acc : list A) =>
  if transpose_read_pre (length v) cols outer inner
  then match nth_error v (transpose_read_index (length v) cols outer inner) with
       | Some x => Ok (acc ++ [x])
       | None => Panic
       end
  else Panic.

Lemma R_cols_le : R * cols <= length v.
Proof. unfold R. rewrite Nat.mul_comm. apply Nat.mul_div_le. lia. Qed.

Lemma inner_step c r acc : c < cols -> r < R -> length acc = c * R + r -> P acc ->
  exists acc', body_inner c r acc = Ok acc' /\ length acc' = c * R + S r /\ P acc'.
Proof.
  intros Hc Hr HL HP. unfold body_inner, transpose_read_pre, transpose_read_index.
  rewrite (proj2 (Nat.ltb_lt c cols)) by exact Hc.
  pose proof R_cols_le as HRc.
  destruct (nth_error v (r * cols + c)) as [x|] eqn:Ex; [|apply nth_error_None in Ex; nia].
  exists (acc ++ [x]). split; [reflexivity|]. split; [rewrite app_length; cbn; lia|].
  intros k Hk. rewrite app_length in Hk; cbn in Hk.
  destruct (Nat.eq_dec k (length acc)) as [->|Hne].
  - rewrite nth_error_app2 by lia. rewrite Nat.sub_diag. cbn [nth_error].
    rewrite HL. destruct (divmod_rc R c r Hr) as [-> ->]. symmetry; exact Ex.
  - rewrite nth_error_app1 by lia. apply HP. lia.
Qed.

Lemma outer_step c acc : c < cols -> length acc = c * R -> P acc ->
  exists acc', for_range (transpose_inner_range (length v) cols c) (body_inner c) acc = Ok acc' /\ length acc' = S c * R /\ P acc'.
Proof.
  intros Hc HL HP. unfold for_range, transpose_inner_range. cbn [fst snd]. fold R. rewrite Nat.sub_0_r.
  destruct (for_loop_inv (fun r acc => length acc = c * R + r /\ P acc) (body_inner c) R 0 acc) as (acc' & E & HL' & HP').
  - split; [lia | exact HP].
  - intros k s Hk [Hs1 Hs2]. destruct (inner_step c k s Hc ltac:(lia) Hs1 Hs2) as (s' & E & L' & P').
    exists s'. split; [exact E|]. split; [lia | exact P'].
  - exists acc'. split; [exact E|]. split; [cbn [plus] in HL'; lia | exact HP'].
Qed.

Theorem transpose_general :
  exists w, transpose_vec v cols = Ok w /\ is_transpose R cols (firstn (R * cols) v) w.
Proof.
  unfold transpose_vec, transpose_early_return. destruct (Nat.eqb_spec cols 0) as [E0|_]; [lia|].
  unfold for_range at 1, transpose_outer_range. cbn [fst snd]. rewrite Nat.sub_0_r.
  destruct (for_loop_inv (fun c acc => length acc = c * R /\ P acc)
              (fun outer acc => for_range (transpose_inner_range (length v) cols outer) (body_inner outer) acc) cols 0 []) as (w & E & HL & HP).
  - split; [reflexivity|]. intros k Hk. cbn in Hk. lia.
  - intros k s Hk [Hs1 Hs2]. destruct (outer_step k s ltac:(lia) Hs1 Hs2) as (s' & E & L' & P').
    exists s'. split; [exact E|]. split; assumption.
  - exists w. split; [exact E|]. cbn [plus] in HL. split; [lia|].
    intros r c Hr Hc. rewrite HP by nia. destruct (divmod_rc R c r Hr) as [-> ->].
    symmetry. apply nth_error_firstn_lt. nia.
Qed.
End Transpose.

(* every rows x cols matrix, including rows = 0 and cols = 0 (then v = [] and the result is []) *)
Theorem transpose_correct {A} (rows cols : nat) (v : list A) : length v = rows * cols ->
  exists w, transpose_vec v cols = Ok w /\ is_transpose rows cols v w.
Proof.
  intros Hlen. destruct (Nat.eq_dec cols 0) as [->|Hc].
  - exists v. split; [reflexivity|]. split; [exact Hlen|]. intros r c _ Hc0. lia.
  - destruct (transpose_general v cols ltac:(lia)) as (w & E & HT).
    assert (HR : length v / cols = rows) by (rewrite Hlen; apply Nat.div_mul; exact Hc).
    rewrite HR in HT. rewrite <- Hlen, firstn_all in HT. exists w. split; assumption.
Qed.

(* what the code does outside the matrix case *)
Theorem transpose_zero_cols {A} (v : list A) : transpose_vec v 0 = Ok v.
Proof. reflexivity. Qed.

Theorem transpose_ragged {A} (v : list A) (cols : nat) : 1 <= cols ->
  exists w, transpose_vec v cols = Ok w /\
    is_transpose (length v / cols) cols (firstn (length v / cols * cols) v) w.
Proof. intros H. apply transpose_general; exact H. Qed.
