(* C14 — transpose_vec (the literal in-place swap loop): correct on square matrices of every size and on single-column
   matrices.  (It is NOT correct on other shapes: Findings/C14_transpose.v.) *)
From Coq Require Import List Arith Bool Lia.
From SpdVerif Require Import Base.GridOps Gen.Grid Model.Grid.
Import ListNotations.

Lemma upd_length {A} (l : list A) i x : length (upd l i x) = length l.
Proof. revert i; induction l as [|h t IH]; intros [|i]; cbn; auto. Qed.

Lemma nth_error_upd {A} (l : list A) i x k : i < length l ->
  nth_error (upd l i x) k = if (k =? i)%nat then Some x else nth_error l k.
Proof.
  revert i k; induction l as [|h t IH]; intros i k Hi; cbn in Hi; [lia|].
  destruct i as [|i], k as [|k]; cbn; try reflexivity. apply IH. lia.
Qed.

Lemma swap_vec_spec {A} (v : list A) i j : i < length v -> j < length v ->
  exists w, swap_vec v i j = Ok w /\ length w = length v /\
    forall k, nth_error w k = if (k =? j)%nat then nth_error v i else if (k =? i)%nat then nth_error v j else nth_error v k.
Proof.
  intros Hi Hj. unfold swap_vec.
  destruct (nth_error v i) as [a|] eqn:Ea; [|apply nth_error_None in Ea; lia].
  destruct (nth_error v j) as [b|] eqn:Eb; [|apply nth_error_None in Eb; lia].
  eexists; split; [reflexivity|]. split; [rewrite !upd_length; reflexivity|].
  intros k. rewrite nth_error_upd by (rewrite upd_length; exact Hj).
  destruct (k =? j)%nat; [reflexivity|]. rewrite nth_error_upd by exact Hi. destruct (k =? i)%nat; reflexivity.
Qed.

Lemma for_loop_inv {St} (I : nat -> St -> Prop) body : forall cnt lo s, I lo s ->
  (forall k s, lo <= k < lo + cnt -> I k s -> exists s', body k s = Ok s' /\ I (S k) s') ->
  exists s', for_loop lo cnt body s = Ok s' /\ I (lo + cnt) s'.
Proof.
  induction cnt as [|cnt IH]; intros lo s H0 Hstep; cbn [for_loop].
  - exists s. rewrite Nat.add_0_r. auto.
  - destruct (Hstep lo s ltac:(lia) H0) as (s1 & E1 & I1). rewrite E1. cbn [obind].
    destruct (IH (S lo) s1 I1) as (s2 & E2 & I2). { intros k s' Hk. apply Hstep. lia. }
    exists s2. split; [exact E2|]. replace (lo + S cnt) with (S lo + cnt) by lia. exact I2.
Qed.

Lemma div_ceil_mul a b : 0 < b -> div_ceil (a * b) b = a.
Proof. intros H. unfold div_ceil. rewrite Nat.mod_mul by lia. cbn. apply Nat.div_mul. lia. Qed.

Lemma rowcol_inj n i j r c : j < n -> c < n -> i * n + j = r * n + c -> i = r /\ j = c.
Proof.
  intros Hj Hc E.
  assert (i = r).
  { assert (H1 : (i * n + j) / n = i) by (rewrite Nat.div_add_l by lia; rewrite Nat.div_small by lia; lia).
    assert (H2 : (r * n + c) / n = r) by (rewrite Nat.div_add_l by lia; rewrite Nat.div_small by lia; lia).
    rewrite E in H1. lia. }
  subst. split; [reflexivity | lia].
Qed.

(* has the pair {i, j} been exchanged when the loop nest is about to run (row r, col c)? *)
Definition swapped (r c i j : nat) : bool :=
  (Nat.min i j <? r)%nat || ((Nat.min i j =? r)%nat && (Nat.max i j <? c)%nat).
Definition src (n r c i j : nat) : nat := if swapped r c i j then j * n + i else i * n + j.

Definition Inv {A} (n : nat) (v : list A) (r c : nat) (w : list A) : Prop :=
  length w = n * n /\ forall i j, i < n -> j < n -> nth_error w (i * n + j) = nth_error v (src n r c i j).

Lemma src_start n i j : src n 0 1 i j = i * n + j.
Proof.
  unfold src, swapped.
  destruct (Nat.ltb_spec (Nat.min i j) 0), (Nat.eqb_spec (Nat.min i j) 0), (Nat.ltb_spec (Nat.max i j) 1); cbn; try reflexivity; try lia;
    try (assert (i = 0) by lia; assert (j = 0) by lia; subst; reflexivity).
Qed.

Lemma src_next_row n r i j : i < n -> j < n -> src n r n i j = src n (S r) (S (S r)) i j.
Proof.
  intros Hi Hj. unfold src. destruct (Nat.eq_dec i j) as [->|Hne].
  - destruct (swapped r n j j), (swapped (S r) (S (S r)) j j); reflexivity.
  - assert (E : swapped r n i j = swapped (S r) (S (S r)) i j).
    { unfold swapped.
      destruct (Nat.ltb_spec (Nat.min i j) r), (Nat.eqb_spec (Nat.min i j) r), (Nat.ltb_spec (Nat.max i j) n),
        (Nat.ltb_spec (Nat.min i j) (S r)), (Nat.eqb_spec (Nat.min i j) (S r)), (Nat.ltb_spec (Nat.max i j) (S (S r)));
        cbn; try reflexivity; lia. }
    rewrite E. reflexivity.
Qed.

Lemma src_end n i j : i < n -> j < n -> src n n (S n) i j = j * n + i.
Proof.
  intros Hi Hj. unfold src, swapped. destruct (Nat.ltb_spec (Nat.min i j) n); [reflexivity | lia].
Qed.

Section Square.
Context {A : Type} (n : nat) (v : list A).
Hypothesis Hn : 1 <= n.
Hypothesis Hlen : length v = n * n.

Let body_inner (row : nat) := fun col (w : list A) =>
  if transpose_swap_pre (length v) n row col
  then swap_vec w (fst (transpose_swap_indices (length v) n row col)) (snd (transpose_swap_indices (length v) n row col))
  else Panic.

Lemma inner_step r c w : r < c -> c < n -> Inv n v r c w -> exists w', body_inner r c w = Ok w' /\ Inv n v r (S c) w'.
Proof.
  intros Hrc Hcn [HL HI]. unfold body_inner, transpose_swap_pre, transpose_swap_indices. cbn [fst snd].
  rewrite (proj2 (Nat.ltb_lt r n)) by lia. rewrite (proj2 (Nat.ltb_lt c n)) by lia. cbn [andb].
  destruct (swap_vec_spec w (c * n + r) (r * n + c)) as (w' & E & HL' & Hw'); [nia | nia |].
  exists w'. split; [exact E|]. split; [lia|].
  intros i j Hi Hj. rewrite Hw'.
  destruct (Nat.eqb_spec (i * n + j) (r * n + c)) as [E1|NE1].
  - apply rowcol_inj in E1; [|lia|lia]. destruct E1 as [-> ->].
    rewrite (HI c r) by lia. f_equal. unfold src, swapped.
    replace (Nat.min c r) with r by lia. replace (Nat.max c r) with c by lia.
    replace (Nat.min r c) with r by lia. replace (Nat.max r c) with c by lia.
    rewrite Nat.ltb_irrefl, Nat.eqb_refl, (Nat.ltb_irrefl c), (proj2 (Nat.ltb_lt c (S c))) by lia. reflexivity.
  - destruct (Nat.eqb_spec (i * n + j) (c * n + r)) as [E2|NE2].
    + apply rowcol_inj in E2; [|lia|lia]. destruct E2 as [-> ->].
      rewrite (HI r c) by lia. f_equal. unfold src, swapped.
      replace (Nat.min c r) with r by lia. replace (Nat.max c r) with c by lia.
      replace (Nat.min r c) with r by lia. replace (Nat.max r c) with c by lia.
      rewrite Nat.ltb_irrefl, Nat.eqb_refl, (Nat.ltb_irrefl c), (proj2 (Nat.ltb_lt c (S c))) by lia. reflexivity.
    + rewrite (HI i j) by assumption. f_equal.
      assert (H1 : ~ (i = r /\ j = c)) by (intros [-> ->]; apply NE1; reflexivity).
      assert (H2 : ~ (i = c /\ j = r)) by (intros [-> ->]; apply NE2; reflexivity).
      assert (Esw : swapped r (S c) i j = swapped r c i j).
      { unfold swapped.
        destruct (Nat.ltb_spec (Nat.min i j) r), (Nat.eqb_spec (Nat.min i j) r), (Nat.ltb_spec (Nat.max i j) c),
          (Nat.ltb_spec (Nat.max i j) (S c)); cbn; try reflexivity; lia. }
      unfold src. rewrite Esw. reflexivity.
Qed.

Lemma outer_step r w : r < n -> Inv n v r (S r) w ->
  exists w', for_range (transpose_inner_range (length v) n r) (body_inner r) w = Ok w' /\ Inv n v (S r) (S (S r)) w'.
Proof.
  intros Hr HI. unfold for_range, transpose_inner_range. cbn [fst snd].
  destruct (for_loop_inv (fun c w => Inv n v r c w) (body_inner r) (n - (r + 1)) (r + 1) w) as (w' & E & HI').
  - replace (r + 1) with (S r) by lia. exact HI.
  - intros k s Hk Hs. apply inner_step; [lia | lia | exact Hs].
  - exists w'. split; [exact E|]. replace (r + 1 + (n - (r + 1))) with n in HI' by lia.
    destruct HI' as [HL HI']. split; [exact HL|]. intros i j Hi Hj. rewrite (HI' i j Hi Hj).
    f_equal. apply src_next_row; assumption.
Qed.

Theorem transpose_square : exists w, transpose_vec v n = Ok w /\ is_transpose n n v w.
Proof.
  unfold transpose_vec. destruct (Nat.eqb_spec n 0) as [E0|_]; [lia|].
  unfold for_range, transpose_outer_range. cbn [fst snd]. rewrite Hlen, div_ceil_mul by lia. rewrite Nat.sub_0_r.
  rewrite <- Hlen.
  destruct (for_loop_inv (fun r w => Inv n v r (S r) w)
              (fun row w => for_range (transpose_inner_range (length v) n row) (body_inner row) w) n 0 v) as (w & E & HI).
  - split; [exact Hlen|]. intros i j Hi Hj. rewrite src_start. reflexivity.
  - intros k s Hk Hs. apply outer_step; [lia | exact Hs].
  - exists w. split; [exact E|]. cbn [plus] in HI. destruct HI as [HL HI]. split; [exact HL|].
    intros r c Hr Hc. rewrite (HI c r Hc Hr). rewrite src_end by assumption. reflexivity.
Qed.
End Square.

(* a single-column matrix (rows x 1): the loop nest does nothing, and the flat layout of the transpose is the same *)
Theorem transpose_column {A} (rows : nat) (v : list A) : length v = rows * 1 ->
  exists w, transpose_vec v 1 = Ok w /\ is_transpose rows 1 v w.
Proof.
  intros Hlen. unfold transpose_vec. cbn [Nat.eqb].
  unfold for_range at 1, transpose_outer_range. cbn [fst snd].
  destruct (for_loop_inv (fun _ w => w = v)
              (fun row w => for_range (transpose_inner_range (length v) 1 row)
                 (fun col w => if transpose_swap_pre (length v) 1 row col
                               then swap_vec w (fst (transpose_swap_indices (length v) 1 row col)) (snd (transpose_swap_indices (length v) 1 row col))
                               else Panic) w)
              (div_ceil (length v) 1 - 0) 0 v) as (w & E & HI).
  - reflexivity.
  - intros k s Hk ->. exists v. split; [|reflexivity].
    unfold for_range, transpose_inner_range. cbn [fst snd]. replace (1 - (k + 1)) with 0 by lia. reflexivity.
  - exists w. split; [exact E|]. subst w. split; [lia|].
    intros r c Hr Hc. assert (c = 0) by lia. subst c. f_equal. lia.
Qed.

(* the shapes on which the loop nest is the matrix transpose *)
Theorem transpose_correct {A} (rows cols : nat) (v : list A) :
  length v = rows * cols -> 1 <= cols -> rows = cols \/ cols = 1 ->
  exists w, transpose_vec v cols = Ok w /\ is_transpose rows cols v w.
Proof.
  intros Hlen Hc [->| ->].
  - apply transpose_square; assumption.
  - apply transpose_column; assumption.
Qed.
