(* Lemmas about finite real sums [rsum] (= gsum at ROps): linearity, exchange, flattening of a row-major double sum,
   Kronecker deltas, positivity, and the Cauchy-Schwarz inequality in a term-wise form. *)
From Coq Require Import Reals Lra Lia Psatz Arith.
From SpdVerif Require Import Model.FinSum.
Local Open Scope R_scope.

Lemma rsum_0 f : rsum 0 f = 0.
Proof. reflexivity. Qed.

Lemma rsum_S n f : rsum (S n) f = rsum n f + f n.
Proof. reflexivity. Qed.

Lemma rsum_ext n f g : (forall k, (k < n)%nat -> f k = g k) -> rsum n f = rsum n g.
Proof.
  induction n as [|n IH]; intros H; [reflexivity|].
  rewrite !rsum_S, IH, (H n) by (intros; try apply H; lia). reflexivity.
Qed.

Lemma rsum_add n f g : rsum n (fun k => f k + g k) = rsum n f + rsum n g.
Proof. induction n as [|n IH]; rewrite ?rsum_0, ?rsum_S, ?IH; lra. Qed.

Lemma rsum_sub n f g : rsum n (fun k => f k - g k) = rsum n f - rsum n g.
Proof. induction n as [|n IH]; rewrite ?rsum_0, ?rsum_S, ?IH; lra. Qed.

Lemma rsum_opp n f : rsum n (fun k => - f k) = - rsum n f.
Proof. induction n as [|n IH]; rewrite ?rsum_0, ?rsum_S, ?IH; lra. Qed.

Lemma rsum_scal_l c n f : rsum n (fun k => c * f k) = c * rsum n f.
Proof. induction n as [|n IH]; rewrite ?rsum_0, ?rsum_S, ?IH; lra. Qed.

Lemma rsum_scal_r c n f : rsum n (fun k => f k * c) = rsum n f * c.
Proof. induction n as [|n IH]; rewrite ?rsum_0, ?rsum_S, ?IH; lra. Qed.

Lemma rsum_zero n f : (forall k, (k < n)%nat -> f k = 0) -> rsum n f = 0.
Proof.
  induction n as [|n IH]; intros H; [reflexivity|].
  rewrite rsum_S, IH, (H n) by (intros; try apply H; lia). lra.
Qed.

Lemma rsum_const n c : rsum n (fun _ => c) = INR n * c.
Proof.
  induction n as [|n IH]; [rewrite rsum_0; simpl; lra|].
  rewrite rsum_S, IH, S_INR. lra.
Qed.

Lemma rsum_switch n m (F : nat -> nat -> R) :
  rsum n (fun i => rsum m (fun j => F i j)) = rsum m (fun j => rsum n (fun i => F i j)).
Proof.
  induction n as [|n IH].
  - rewrite rsum_0. symmetry. apply rsum_zero. intros; apply rsum_0.
  - rewrite rsum_S, IH, <- rsum_add. apply rsum_ext. intros; rewrite rsum_S; reflexivity.
Qed.

Lemma rsum_mul n m f g : rsum n f * rsum m g = rsum n (fun i => rsum m (fun j => f i * g j)).
Proof.
  rewrite <- rsum_scal_r. apply rsum_ext. intros. rewrite rsum_scal_l. reflexivity.
Qed.

Lemma rsum_split a b f : rsum (a + b) f = rsum a f + rsum b (fun k => f (a + k)%nat).
Proof.
  induction b as [|b IH].
  - rewrite Nat.add_0_r, rsum_0. lra.
  - rewrite Nat.add_succ_r, !rsum_S, IH. lra.
Qed.

(* a row-major flat sum is the double sum over rows and columns *)
Lemma rsum_flat n m f : rsum (n * m) f = rsum n (fun r => rsum m (fun c => f (r * m + c)%nat)).
Proof.
  induction n as [|n IH]; [reflexivity|].
  replace (S n * m)%nat with (n * m + m)%nat by lia.
  rewrite rsum_split, IH, rsum_S. reflexivity.
Qed.

Lemma rsum_delta_l n k f : (k < n)%nat -> rsum n (fun i => (if Nat.eqb i k then 1 else 0) * f i) = f k.
Proof.
  induction n as [|n IH]; intros Hk; [lia|].
  rewrite rsum_S. destruct (Nat.eq_dec k n) as [->|Hne].
  - rewrite Nat.eqb_refl, rsum_zero; [lra|].
    intros i Hi. replace (Nat.eqb i n) with false; [lra|]. symmetry; apply Nat.eqb_neq; lia.
  - rewrite IH by lia. replace (Nat.eqb n k) with false; [lra|]. symmetry; apply Nat.eqb_neq; lia.
Qed.

Lemma rsum_delta_r n k f : (k < n)%nat -> rsum n (fun i => (if Nat.eqb k i then 1 else 0) * f i) = f k.
Proof.
  intros Hk. rewrite <- (rsum_delta_l n k f Hk). apply rsum_ext. intros i _. rewrite (Nat.eqb_sym k i). reflexivity.
Qed.

Lemma rsum_nonneg n f : (forall k, (k < n)%nat -> 0 <= f k) -> 0 <= rsum n f.
Proof.
  induction n as [|n IH]; intros H; [rewrite rsum_0; lra|].
  rewrite rsum_S. assert (0 <= f n) by (apply H; lia). assert (0 <= rsum n f) by (apply IH; intros; apply H; lia). lra.
Qed.

Lemma rsum_le n f g : (forall k, (k < n)%nat -> f k <= g k) -> rsum n f <= rsum n g.
Proof.
  induction n as [|n IH]; intros H; [rewrite !rsum_0; lra|].
  rewrite !rsum_S. assert (f n <= g n) by (apply H; lia). assert (rsum n f <= rsum n g) by (apply IH; intros; apply H; lia). lra.
Qed.

Lemma rsum_term_le n f k : (forall i, (i < n)%nat -> 0 <= f i) -> (k < n)%nat -> f k <= rsum n f.
Proof.
  induction n as [|n IH]; intros H Hk; [lia|].
  rewrite rsum_S. assert (0 <= rsum n f) by (apply rsum_nonneg; intros; apply H; lia).
  assert (0 <= f n) by (apply H; lia).
  destruct (Nat.eq_dec k n) as [->|Hne]; [lra|].
  assert (f k <= rsum n f) by (apply IH; [intros; apply H|]; lia). lra.
Qed.

Lemma rsum_pos n f k : (forall i, (i < n)%nat -> 0 <= f i) -> (k < n)%nat -> 0 < f k -> 0 < rsum n f.
Proof. intros H Hk Hp. pose proof (rsum_term_le n f k H Hk). lra. Qed.

Lemma rsum_eq0_all n f : (forall i, (i < n)%nat -> 0 <= f i) -> rsum n f = 0 -> forall k, (k < n)%nat -> f k = 0.
Proof.
  intros H H0 k Hk. pose proof (rsum_term_le n f k H Hk). pose proof (H k Hk). lra.
Qed.

Lemma sq_le_le a b : 0 <= b -> a * a <= b * b -> a <= b.
Proof. intros Hb H. destruct (Rle_dec a b) as [|Hn]; [assumption|]. exfalso. apply Rnot_le_lt in Hn. nra. Qed.

(* Cauchy-Schwarz, term-wise form: if t_k^2 <= p_k q_k with p_k, q_k >= 0 then (sum t)^2 <= (sum p)(sum q) *)
Lemma cs_general n t p q :
  (forall k, (k < n)%nat -> 0 <= p k) -> (forall k, (k < n)%nat -> 0 <= q k) ->
  (forall k, (k < n)%nat -> t k * t k <= p k * q k) ->
  rsum n t * rsum n t <= rsum n p * rsum n q.
Proof.
  induction n as [|n IH]; intros Hp Hq Ht; [rewrite !rsum_0; lra|].
  rewrite !rsum_S.
  assert (HP : 0 <= rsum n p) by (apply rsum_nonneg; intros; apply Hp; lia).
  assert (HQ : 0 <= rsum n q) by (apply rsum_nonneg; intros; apply Hq; lia).
  assert (Hpn : 0 <= p n) by (apply Hp; lia).
  assert (Hqn : 0 <= q n) by (apply Hq; lia).
  assert (Htn : t n * t n <= p n * q n) by (apply Ht; lia).
  assert (HI : rsum n t * rsum n t <= rsum n p * rsum n q) by (apply IH; intros; [apply Hp|apply Hq|apply Ht]; lia).
  set (S0 := rsum n t) in *. set (P := rsum n p) in *. set (Q := rsum n q) in *.
  set (x := t n) in *. set (a := p n) in *. set (b := q n) in *.
  assert (Hcross : 2 * (S0 * x) <= P * b + a * Q).
  { apply sq_le_le.
    - assert (0 <= P * b) by (apply Rmult_le_pos; assumption).
      assert (0 <= a * Q) by (apply Rmult_le_pos; assumption). lra.
    - assert (H1 : (S0 * S0) * (x * x) <= (P * Q) * (a * b)).
      { apply Rmult_le_compat; try assumption; nra. }
      pose proof (Rle_0_sqr (P * b - a * Q)) as H2. unfold Rsqr in H2.
      lra. }
  nra.
Qed.

(* classical Cauchy-Schwarz for real sequences *)
Lemma cauchy_schwarz n a b :
  rsum n (fun k => a k * b k) * rsum n (fun k => a k * b k) <= rsum n (fun k => a k * a k) * rsum n (fun k => b k * b k).
Proof.
  apply cs_general; intros; try nra.
Qed.

(* (sum_{k<n} a_k)^2 <= n sum a_k^2 *)
Lemma sum_sq_le_n n a : rsum n a * rsum n a <= INR n * rsum n (fun k => a k * a k).
Proof.
  pose proof (cs_general n a (fun _ => 1) (fun k => a k * a k)) as H.
  rewrite rsum_const in H. rewrite Rmult_1_r in H. apply H; intros; nra.
Qed.
