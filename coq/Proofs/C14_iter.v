(* C14 — the double-ended iterators: any interleaving of next()/next_back() delivers the window's values, each once,
   the front calls in ascending and the back calls in descending index order. *)
From Coq Require Import List Arith Bool Lia Permutation.
From SpdVerif Require Import Base.GridOps Gen.Grid Model.Grid.
Import ListNotations.

(* an iterator over an index window [i, ib) of a value function *)
Definition wnext {A} (v : nat -> A) : stepper (nat * nat) A :=
  fun st => if (snd st <=? fst st)%nat then (None, st) else (Some (v (fst st)), (S (fst st), snd st)).
Definition wback {A} (v : nat -> A) : stepper (nat * nat) A :=
  fun st => if (snd st <=? fst st)%nat then (None, st) else (Some (v (snd st - 1)), (fst st, snd st - 1)).

Lemma it1d_nxt_window {T} (O : ops T) s e n st : it1d_nxt O s e n st = wnext (steps_value O s e n) st.
Proof.
  destruct st as [i ib]; unfold it1d_nxt, it1d_next, wnext, steps_value; cbn [fst snd].
  destruct (ib <=? i)%nat; [reflexivity|]. rewrite Nat.add_1_r. reflexivity.
Qed.

Lemma it1d_bck_window {T} (O : ops T) s e n st : it1d_bck O s e n st = wback (steps_value O s e n) st.
Proof.
  destruct st as [i ib]; unfold it1d_bck, it1d_next_back, wback, steps_value; cbn [fst snd].
  destruct (ib <=? i)%nat; reflexivity.
Qed.

Lemma it2d_nxt_window {T} (O : ops T) x0 x1 nx y0 y1 ny part st :
  it2d_nxt O x0 x1 nx y0 y1 ny part st = wnext (steps2d_value O x0 x1 nx y0 y1 ny) st.
Proof.
  destruct st as [i ib]; unfold it2d_nxt, it2d_next, wnext, steps2d_value; cbn [fst snd].
  destruct (ib <=? i)%nat; [reflexivity|]. rewrite Nat.add_1_r. reflexivity.
Qed.

Lemma it2d_bck_window {T} (O : ops T) x0 x1 nx y0 y1 ny part st :
  it2d_bck O x0 x1 nx y0 y1 ny part st = wback (steps2d_value O x0 x1 nx y0 y1 ny) st.
Proof.
  destruct st as [i ib]; unfold it2d_bck, it2d_next_back, wback, steps2d_value; cbn [fst snd].
  destruct (ib <=? i)%nat; reflexivity.
Qed.

Lemma run_sched_ext {St A} (n1 b1 n2 b2 : stepper St A) :
  (forall st, n1 st = n2 st) -> (forall st, b1 st = b2 st) ->
  forall sched st, run_sched n1 b1 sched st = run_sched n2 b2 sched st.
Proof.
  intros Hn Hb sched; induction sched as [|b rest IH]; intros st; cbn [run_sched]; [reflexivity|].
  destruct b; [rewrite Hn | rewrite Hb];
    match goal with |- context [let '(_, _) := ?x in _] => destruct x end; rewrite IH; reflexivity.
Qed.

Lemma drain_ext {St A} (n1 n2 : stepper St A) : (forall st, n1 st = n2 st) ->
  forall fuel st, drain n1 fuel st = drain n2 fuel st.
Proof.
  intros Hn fuel; induction fuel as [|f IH]; intros st; cbn [drain]; [reflexivity|].
  rewrite Hn. destruct (n2 st) as [[a|] st']; [rewrite IH|]; reflexivity.
Qed.

Section Window.
Context {A : Type} (v : nat -> A).

Lemma fronts_cons_some a (out : list (bool * option A)) : fronts ((true, Some a) :: out) = a :: fronts out.
Proof. reflexivity. Qed.
Lemma fronts_cons_skip b (out : list (bool * option A)) : fronts ((b, None) :: out) = fronts out.
Proof. destruct b; reflexivity. Qed.
Lemma fronts_cons_back a (out : list (bool * option A)) : fronts ((false, Some a) :: out) = fronts out.
Proof. reflexivity. Qed.
Lemma backs_cons_some a (out : list (bool * option A)) : backs ((false, Some a) :: out) = a :: backs out.
Proof. reflexivity. Qed.
Lemma backs_cons_skip b (out : list (bool * option A)) : backs ((b, None) :: out) = backs out.
Proof. destruct b; reflexivity. Qed.
Lemma backs_cons_front a (out : list (bool * option A)) : backs ((true, Some a) :: out) = backs out.
Proof. reflexivity. Qed.

Lemma run_sched_cons {St} (nx bk : stepper St A) c rest st :
  run_sched nx bk (c :: rest) st =
  (c, fst (if c then nx st else bk st)) :: run_sched nx bk rest (snd (if c then nx st else bk st)).
Proof. cbn [run_sched]. destruct c; [destruct (nx st) | destruct (bk st)]; reflexivity. Qed.

Lemma wnext_none i ib : ib <= i -> wnext v (i, ib) = (None, (i, ib)).
Proof. intros H. unfold wnext; cbn [fst snd]. destruct (Nat.leb_spec ib i); [reflexivity | lia]. Qed.
Lemma wnext_some i ib : i < ib -> wnext v (i, ib) = (Some (v i), (S i, ib)).
Proof. intros H. unfold wnext; cbn [fst snd]. destruct (Nat.leb_spec ib i); [lia | reflexivity]. Qed.
Lemma wback_none i ib : ib <= i -> wback v (i, ib) = (None, (i, ib)).
Proof. intros H. unfold wback; cbn [fst snd]. destruct (Nat.leb_spec ib i); [reflexivity | lia]. Qed.
Lemma wback_some i ib : i < ib -> wback v (i, ib) = (Some (v (ib - 1)), (i, ib - 1)).
Proof. intros H. unfold wback; cbn [fst snd]. destruct (Nat.leb_spec ib i); [lia | reflexivity]. Qed.

(* the core invariant, for any window and any schedule *)
Lemma run_sched_window : forall sched i ib, i <= ib ->
  let out := run_sched (wnext v) (wback v) sched (i, ib) in
  fronts out = map v (seq i (length (fronts out))) /\
  rev (backs out) = map v (seq (ib - length (backs out)) (length (backs out))) /\
  length (fronts out) + length (backs out) = Nat.min (ib - i) (length sched).
Proof.
  induction sched as [|b rest IH]; intros i ib Hle; cbn zeta.
  - cbn. rewrite Nat.min_0_r. repeat split.
  - rewrite run_sched_cons. destruct b.
    + destruct (Nat.le_gt_cases ib i) as [Hc|Hc].
      * rewrite wnext_none by assumption. cbn [fst snd].
        destruct (IH i ib Hle) as (Hf & Hb & Hl). rewrite fronts_cons_skip, backs_cons_skip.
        repeat split; try assumption. cbn [length]. lia.
      * rewrite wnext_some by assumption. cbn [fst snd].
        destruct (IH (S i) ib ltac:(lia)) as (Hf & Hb & Hl). rewrite fronts_cons_some, backs_cons_front.
        cbn [length]. repeat split.
        -- cbn [seq map]. f_equal. exact Hf.
        -- exact Hb.
        -- lia.
    + destruct (Nat.le_gt_cases ib i) as [Hc|Hc].
      * rewrite wback_none by assumption. cbn [fst snd].
        destruct (IH i ib Hle) as (Hf & Hb & Hl). rewrite fronts_cons_skip, backs_cons_skip.
        repeat split; try assumption. cbn [length]. lia.
      * rewrite wback_some by assumption. cbn [fst snd].
        destruct (IH i (ib - 1) ltac:(lia)) as (Hf & Hb & Hl). rewrite fronts_cons_back, backs_cons_some.
        cbn [length]. repeat split.
        -- exact Hf.
        -- cbn [rev]. rewrite Hb.
           set (m := length (backs (run_sched (wnext v) (wback v) rest (i, ib - 1)))) in *.
           assert (Hm : m <= ib - 1 - i) by lia.
           replace (ib - S m) with (ib - 1 - m) by lia.
           rewrite seq_S, map_app. cbn [map]. do 3 f_equal. lia.
        -- lia.
Qed.

(* once as many calls were made as the window has items, every item has been delivered exactly once, the front items
   followed by the reversed back items are the window in order *)
Theorem run_sched_complete : forall sched i ib, i <= ib -> ib - i <= length sched ->
  let out := run_sched (wnext v) (wback v) sched (i, ib) in
  fronts out ++ rev (backs out) = map v (seq i (ib - i)).
Proof.
  intros sched i ib Hle Hlen out. destruct (run_sched_window sched i ib Hle) as (Hf & Hb & Hl).
  fold out in Hf, Hb, Hl. rewrite Hf, Hb, <- map_app. f_equal.
  rewrite Nat.min_l in Hl by lia.
  replace (ib - length (backs out)) with (i + length (fronts out)) by lia.
  rewrite <- seq_app. f_equal. lia.
Qed.

Corollary run_sched_permutation : forall sched i ib, i <= ib -> ib - i <= length sched ->
  let out := run_sched (wnext v) (wback v) sched (i, ib) in
  Permutation (fronts out ++ backs out) (map v (seq i (ib - i))).
Proof.
  intros sched i ib Hle Hlen out. rewrite <- (run_sched_complete sched i ib Hle Hlen). fold out.
  apply Permutation_app_head, Permutation_rev.
Qed.

(* calls made after exhaustion return None: the number of delivered items never exceeds the window *)
Corollary run_sched_count : forall sched i ib, i <= ib ->
  let out := run_sched (wnext v) (wback v) sched (i, ib) in
  length (fronts out) + length (backs out) = Nat.min (ib - i) (length sched).
Proof. intros sched i ib Hle. apply (run_sched_window sched i ib Hle). Qed.

Lemma drain_window : forall fuel i ib, ib - i < fuel -> drain (wnext v) fuel (i, ib) = map v (seq i (ib - i)).
Proof.
  induction fuel as [|f IH]; intros i ib Hf; [lia|].
  cbn [drain]. destruct (Nat.le_gt_cases ib i) as [Hc|Hc].
  - rewrite wnext_none by assumption. replace (ib - i) with 0 by lia. reflexivity.
  - rewrite wnext_some by assumption. rewrite IH by lia. replace (ib - i) with (S (ib - S i)) by lia. reflexivity.
Qed.
End Window.

(* ------------------------------------------------------------------------------------------------ instances *)
Section Inst.
Context {T : Type} (O : ops T).

Theorem collect1d_seq s e n : collect1d O s e n = seq1d O s e n.
Proof.
  unfold collect1d, seq1d, it1d_new, steps_len.
  rewrite (drain_ext _ _ (it1d_nxt_window O s e n)). rewrite drain_window by lia. rewrite Nat.sub_0_r. reflexivity.
Qed.

Theorem collect2d_seq x0 x1 nx y0 y1 ny : collect2d O x0 x1 nx y0 y1 ny = seq2d O x0 x1 nx y0 y1 ny.
Proof.
  unfold collect2d, seq2d, it2d_new, steps2d_len.
  rewrite (drain_ext _ _ (it2d_nxt_window O x0 x1 nx y0 y1 ny _)). rewrite drain_window by lia. rewrite Nat.sub_0_r. reflexivity.
Qed.

Theorem seq1d_length s e n : length (seq1d O s e n) = n.
Proof. unfold seq1d, steps_len. rewrite map_length, seq_length. reflexivity. Qed.

Theorem seq2d_length x0 x1 nx y0 y1 ny : length (seq2d O x0 x1 nx y0 y1 ny) = nx * ny.
Proof. unfold seq2d, steps2d_len. rewrite map_length, seq_length. reflexivity. Qed.

(* any schedule with at least n calls on Steps(s,e,n).into_iter() *)
Theorem it1d_interleave s e n sched : n <= length sched ->
  let out := run_sched (it1d_nxt O s e n) (it1d_bck O s e n) sched (it1d_new n) in
  fronts out ++ rev (backs out) = seq1d O s e n /\ Permutation (fronts out ++ backs out) (seq1d O s e n).
Proof.
  intros Hlen. unfold it1d_new, seq1d, steps_len.
  rewrite (run_sched_ext _ _ _ _ (it1d_nxt_window O s e n) (it1d_bck_window O s e n)).
  split.
  - rewrite (run_sched_complete _ sched 0 n) by lia. rewrite Nat.sub_0_r. reflexivity.
  - pose proof (run_sched_permutation (steps_value O s e n) sched 0 n ltac:(lia) ltac:(lia)) as H.
    rewrite Nat.sub_0_r in H. exact H.
Qed.

Theorem it1d_rev s e n :
  backs (run_sched (it1d_nxt O s e n) (it1d_bck O s e n) (repeat false n) (it1d_new n)) = rev (seq1d O s e n).
Proof.
  destruct (it1d_interleave s e n (repeat false n)) as [H _]; [rewrite repeat_length; lia|].
  cbn zeta in H. rewrite <- H.
  assert (Hf : forall (st : nat * nat) k, fronts (run_sched (it1d_nxt O s e n) (it1d_bck O s e n) (repeat false k) st) = []).
  { intros st k; revert st; induction k as [|k IH]; intros st; cbn [repeat run_sched]; [reflexivity|].
    destruct (it1d_bck O s e n st) as [[a|] st']; cbn; apply IH. }
  rewrite Hf. cbn [app]. rewrite rev_involutive. reflexivity.
Qed.

Theorem it2d_interleave x0 x1 nx y0 y1 ny sched : nx * ny <= length sched ->
  let out := run_sched (it2d_nxt O x0 x1 nx y0 y1 ny (fst (it2d_new nx ny))) (it2d_bck O x0 x1 nx y0 y1 ny (fst (it2d_new nx ny))) sched (snd (it2d_new nx ny)) in
  fronts out ++ rev (backs out) = seq2d O x0 x1 nx y0 y1 ny /\ Permutation (fronts out ++ backs out) (seq2d O x0 x1 nx y0 y1 ny).
Proof.
  intros Hlen. unfold it2d_new, seq2d, steps2d_len. cbn [fst snd].
  rewrite (run_sched_ext _ _ _ _ (it2d_nxt_window O x0 x1 nx y0 y1 ny _) (it2d_bck_window O x0 x1 nx y0 y1 ny _)).
  split.
  - rewrite (run_sched_complete _ sched 0 (nx * ny)) by lia. rewrite Nat.sub_0_r. reflexivity.
  - pose proof (run_sched_permutation (steps2d_value O x0 x1 nx y0 y1 ny) sched 0 (nx * ny) ltac:(lia) ltac:(lia)) as H.
    rewrite Nat.sub_0_r in H. exact H.
Qed.
End Inst.
