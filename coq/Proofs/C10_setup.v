(* C10 — setup level: the eight grids as tabulations of the sources' amplitudes; identical sources on the same ranges. *)
From Coq Require Import Reals Lra Lia Arith.
From SpdVerif Require Import Model.FinSum Model.Hom Model.Hom2 Proofs.FinSum_lemmas Proofs.Cx_lemmas Proofs.C09_range
  Proofs.CMat Proofs.C10_sums Proofs.C10_svd Proofs.C10_expand Proofs.C10_identical.
Local Open Scope R_scope.

Lemma ts_tabulate_identical J ls li n :
  ts_tabulate J J ls li ls li n
  = ts_identical (tabulate J (axes_grid ls li n)) (tabulate J (axes_grid li li n)) (tabulate J (axes_grid ls ls n)).
Proof. reflexivity. Qed.

Lemma ts_phase_ss_unit r1 r2 dt : unit_phases (ts_phase_ss r1 r2 dt).
Proof. intros k l. unfold ts_phase_ss. rewrite cnorm2_polar. ring. Qed.
Lemma ts_phase_ii_unit r1 r2 dt : unit_phases (ts_phase_ii r1 r2 dt).
Proof. intros k l. unfold ts_phase_ii. rewrite cnorm2_polar. ring. Qed.
Lemma ts_phase_si_unit r1 r2 dt : unit_phases (ts_phase_si r1 r2 dt).
Proof. intros k l. unfold ts_phase_si. rewrite cnorm2_polar. ring. Qed.

Lemma ts_phase_zero r1 r2 k l :
  ts_phase_ss r1 r2 0 k l = (1, 0) /\ ts_phase_ii r1 r2 0 k l = (1, 0) /\ ts_phase_si r1 r2 0 k l = (1, 0).
Proof. unfold ts_phase_ss, ts_phase_ii, ts_phase_si. rewrite !Rmult_0_l. repeat split; apply cpolar_0. Qed.

(* SPDC::hom_two_source_visibilities (identical sources, zero delay): V_ss = V_ii = purity of the sampled JSA matrix *)
Theorem setup_identical_visibilities J ls li n :
  let F := tabulate J (axes_grid ls li n) in
  jsi_norm ROps (n * n) F <> 0 ->
  fst (fst (setup_ts_visibilities_identical J ls li n)) = purity_s ROps n (Fmat n F) /\
  snd (fst (setup_ts_visibilities_identical J ls li n)) = purity_i ROps n (Fmat n F) /\
  purity_s ROps n (Fmat n F) = purity_i ROps n (Fmat n F).
Proof.
  intros F HN. unfold setup_ts_visibilities_identical, setup_ts_rates. rewrite ts_tabulate_identical. cbn [fst snd].
  set (r := axes_grid ls li n).
  assert (U1 : forall k l, ts_phase_ss r r 0 k l = (1, 0)) by (intros; apply ts_phase_zero).
  assert (U2 : forall k l, ts_phase_ii r r 0 k l = (1, 0)) by (intros; apply ts_phase_zero).
  destruct (identical_zero_delay n F (tabulate J (axes_grid li li n)) (tabulate J (axes_grid ls ls n)) _ U1 HN) as (_ & _ & V1 & _ & E).
  destruct (identical_zero_delay n F (tabulate J (axes_grid li li n)) (tabulate J (axes_grid ls ls n)) _ U2 HN) as (_ & _ & _ & V2 & _).
  repeat split; assumption.
Qed.

Corollary setup_identical_visibilities_sv J ls li n sv :
  let F := tabulate J (axes_grid ls li n) in
  jsi_norm ROps (n * n) F <> 0 -> is_csvd n (Fmat n F) sv ->
  fst (fst (setup_ts_visibilities_identical J ls li n)) = purity_sv n sv /\
  snd (fst (setup_ts_visibilities_identical J ls li n)) = purity_sv n sv.
Proof.
  intros F HN Hsv. destruct (setup_identical_visibilities J ls li n HN) as (V1 & V2 & _).
  assert (HF : frob2 ROps n (Fmat n F) <> 0) by (rewrite (frob2_N n F); exact HN).
  destruct (purity_singular_values n (Fmat n F) sv Hsv HF) as (_ & P1 & P2).
  rewrite V1, V2. fold F. rewrite P1, P2. split; reflexivity.
Qed.

(* SPDC::hom_two_source_rate_series (a setup against itself): every delay *)
Theorem setup_identical_range J ls li n dt :
  let F := tabulate J (axes_grid ls li n) in
  0 < jsi_norm ROps (n * n) F ->
  let '(ss, ii, si) := setup_ts_rates J J ls li ls li n dt in
  0 <= ss <= 1 /\ 0 <= ii <= 1 /\
  (jsi_norm ROps (n * n) (tabulate J (axes_grid li li n)) * jsi_norm ROps (n * n) (tabulate J (axes_grid ls ls n))
     <= jsi_norm ROps (n * n) F * jsi_norm ROps (n * n) F -> 0 <= si <= 1).
Proof.
  intros F HN. unfold setup_ts_rates. rewrite ts_tabulate_identical.
  apply identical_range; try assumption.
  - apply ts_phase_ss_unit.
  - apply ts_phase_ii_unit.
  - apply ts_phase_si_unit.
Qed.

(* identical signal and idler axes: the two auxiliary grids are the main grid, so the signal-idler rate is in [0,1] too *)
Corollary setup_identical_range_same_axes J ax n dt :
  let F := tabulate J (axes_grid ax ax n) in
  0 < jsi_norm ROps (n * n) F ->
  let '(ss, ii, si) := setup_ts_rates J J ax ax ax ax n dt in
  0 <= ss <= 1 /\ 0 <= ii <= 1 /\ 0 <= si <= 1.
Proof.
  intros F HN. pose proof (setup_identical_range J ax ax n dt HN) as H.
  destruct (setup_ts_rates J J ax ax ax ax n dt) as [[ss ii] si].
  destruct H as (H1 & H2 & H3). repeat split; try apply H1; try apply H2; apply H3; apply Rle_refl.
Qed.

(* ---- the free function hom_two_source_visibilities(&a, &b, ..) when the two sources are structurally equal *)
Lemma ts_time_delays_same a :
  ts_time_delays a a = (0, 0, idl_time a - sig_time a + (idl_wp a - sig_wp a) / light_c).
Proof.
  unfold ts_time_delays. apply injective_projections; cbn [fst snd]; [apply injective_projections; cbn [fst snd]|]; unfold Rdiv; ring.
Qed.

(* whichever way the test `spdc1 == spdc2` comes out, equal sources give zero ss / ii delays and the self-vs-self result *)
Theorem visibilities_branch_independent J a ls1 li1 ls2 li2 n :
  fst (fst (setup_ts_visibilities false J J a a ls1 li1 ls2 li2 n)) = fst (fst (setup_ts_visibilities true J J a a ls1 li1 ls2 li2 n)) /\
  snd (fst (setup_ts_visibilities false J J a a ls1 li1 ls2 li2 n)) = snd (fst (setup_ts_visibilities true J J a a ls1 li1 ls2 li2 n)).
Proof. unfold setup_ts_visibilities. cbv zeta. rewrite ts_time_delays_same. cbn [fst snd]. split; reflexivity. Qed.

Theorem free_function_identical same J a ls li n :
  let F := tabulate J (axes_grid ls li n) in
  jsi_norm ROps (n * n) F <> 0 ->
  fst (fst (setup_ts_visibilities same J J a a ls li ls li n)) = (0, purity_s ROps n (Fmat n F)) /\
  snd (fst (setup_ts_visibilities same J J a a ls li ls li n)) = (0, purity_i ROps n (Fmat n F)).
Proof.
  intros F HN.
  assert (T : fst (fst (setup_ts_visibilities true J J a a ls li ls li n)) = (0, purity_s ROps n (Fmat n F)) /\
              snd (fst (setup_ts_visibilities true J J a a ls li ls li n)) = (0, purity_i ROps n (Fmat n F))).
  { destruct (setup_identical_visibilities J ls li n HN) as (V1 & V2 & _).
    unfold setup_ts_visibilities_identical in V1, V2. unfold setup_ts_visibilities. cbv zeta. cbn [fst snd].
    destruct (setup_ts_rates J J ls li ls li n 0) as [[ss ii] si]. cbn [fst snd] in *. fold F in V1, V2. rewrite V1, V2. split; reflexivity. }
  destruct same; [exact T|].
  destruct (visibilities_branch_independent J a ls li ls li n) as [E1 E2]. rewrite E1, E2. exact T.
Qed.
