(* C03 — the optimum idler of IdlerBeam::try_new_optimum (as translated into Gen/Idler.v) closes the momentum triangle. *)
From Coq Require Import Reals Lra Lia ZArith Bool.
From SpdVerif Require Import Base.Rx Base.Vec3 Gen.Idler Model.Idler Proofs.C03_base.
Local Open Scope R_scope.


(* ---------------------------------------------------------------- the arg polynomial *)
Lemma idler_arg_eq ns np ls lp kpp th :
  idler_arg ns np ls lp kpp th = (np * (ls / lp) - ns * cos th - kpp) ^ 2 + (ns * sin th) ^ 2.
Proof.
  unfold idler_arg. rewrite Rdiv_1.
  pose proof (sin2_cos2 th) as H. unfold Rsqr in H.
  replace (ns * ns) with (ns * ns * (sin th * sin th + cos th * cos th)) by (rewrite H; ring).
  ring.
Qed.

Lemma idler_val_eq ns th arg : idler_val ns th arg = ns * sin th / sqrt arg.
Proof. unfold idler_val. rewrite Rdiv_1. reflexivity. Qed.

(* ---------------------------------------------------------------- the branch structure of idler_theta *)
Lemma signum_pos x : 0 <= x -> signum x = 1.
Proof. intros H. unfold signum. destruct (Rle_dec 0 x); [reflexivity | contradiction]. Qed.
Lemma signum_neg x : x < 0 -> signum x = -1.
Proof. intros H. unfold signum. destruct (Rle_dec 0 x); [lra | reflexivity]. Qed.

(* For a forward signal (cos th > 0) the idler angle is asin val — which carries the sign of the signal angle through val —
   or pi - asin val in the counter-propagating branch. *)
Lemma idler_theta_branch cp th v : 0 < cos th ->
  idler_theta cp th v = if cp then PI - asin v else asin v.
Proof.
  intros Hc. unfold idler_theta. rewrite !Rdiv_1, Rmult_1_r.
  rewrite (signum_pos (cos th)) by lra.
  destruct (Rlt_dec 1 0) as [H|H]; [lra|]. destruct cp; cbn; reflexivity.
Qed.

Lemma idler_theta_sin cp th v : 0 < cos th -> -1 <= v <= 1 -> sin (idler_theta cp th v) = v.
Proof.
  intros Hc Hv. rewrite idler_theta_branch by assumption. destruct cp.
  - replace (PI - asin v) with (- (asin v) + PI) by ring. rewrite neg_sin, sin_neg, sin_asin by assumption. ring.
  - apply sin_asin; assumption.
Qed.

Lemma idler_theta_cos cp th v : 0 < cos th -> -1 <= v <= 1 ->
  cos (idler_theta cp th v) = (if cp then -1 else 1) * sqrt (1 - v²).
Proof.
  intros Hc Hv. rewrite idler_theta_branch by assumption. destruct cp.
  - replace (PI - asin v) with (- (asin v) + PI) by ring. rewrite neg_cos, cos_neg, cos_asin by assumption. ring.
  - rewrite cos_asin by assumption. ring.
Qed.

(* ---------------------------------------------------------------- the idler's azimuth *)
Lemma idler_phi_eq x : idler_phi x = normalize_angle (x + PI).
Proof. unfold idler_phi, normalize_angle. rewrite (Rmult_1_r PI). reflexivity. Qed.

Lemma idler_phi_congr phis : exists k : Z, beam_new_phi (idler_phi (beam_new_phi phis)) = phis + PI + 2 * IZR k * PI.
Proof.
  change beam_new_phi with normalize_angle. rewrite idler_phi_eq.
  destruct (normalize_angle_congr phis) as [k1 H1]. rewrite H1.
  destruct (normalize_angle_congr (phis + 2 * IZR k1 * PI + PI)) as [k2 H2]. rewrite H2.
  destruct (normalize_angle_congr (phis + 2 * IZR k1 * PI + PI + 2 * IZR k2 * PI)) as [k3 H3]. rewrite H3.
  exists (k1 + k2 + k3)%Z. rewrite !plus_IZR. ring.
Qed.

(* ---------------------------------------------------------------- main section *)
Section Idler.
  Variable index : R -> vec -> polarization -> R.
  Variables (pm : pm_type) (spol ppol : polarization) (phis ths ls lp : R) (ws wp : R * R) (pp : poling).

  Definition sigb : beam := beam_new spol phis ths ls ws.
  Definition pumpb : beam := pump_new ppol lp wp.
  Definition n_s : R := refractive_index index sigb (b_omega sigb).
  Definition n_p : R := refractive_index index pumpb (b_omega pumpb).
  Definition kpp : R := pp_k_pp pp ls.
  (* the closing vector in units of 2 pi / ls: transverse size u, longitudinal component w *)
  Definition u_t : R := n_s * sin ths.
  Definition w_z : R := n_p * (ls / lp) - n_s * cos ths - kpp.
  Definition Kq : R := 2 * PI / ls.

  Hypothesis Hls : 0 < ls.
  Hypothesis Hlp : 0 < lp.
  Hypothesis Hth : - PI < ths <= PI.
  Hypothesis Hpp : pp_defined pp.

  Lemma sig_lambda : b_lambda sigb = ls.
  Proof. apply b_lambda_new. lra. Qed.
  Lemma pump_lambda : b_lambda pumpb = lp.
  Proof. apply b_lambda_new. lra. Qed.
  Lemma sig_theta : b_theta sigb = ths.
  Proof. unfold sigb, beam_new; cbn [b_theta]. rewrite beam_new_theta_eq. apply normalize_angle_signed_id, Hth. Qed.
  Lemma sig_dir : b_dir sigb = polar phis ths.
  Proof. unfold sigb, beam_new; cbn [b_dir]. apply beam_new_direction_eq. Qed.
  Lemma pump_dir : b_dir pumpb = ez.
  Proof. unfold pumpb, pump_new, beam_new; cbn [b_dir]. rewrite beam_new_direction_eq. apply polar_0_0. Qed.
  Lemma sig_omega : b_omega sigb = 2 * PI * c_light / ls.
  Proof. unfold sigb, beam_new; cbn [b_omega]. apply beam_new_frequency_eq. lra. Qed.
  Lemma pump_omega : b_omega pumpb = 2 * PI * c_light / lp.
  Proof. unfold pumpb, pump_new, beam_new; cbn [b_omega]. apply beam_new_frequency_eq. lra. Qed.

  Lemma Kq_pos : 0 < Kq.
  Proof. unfold Kq. pose proof PI_RGT_0. apply Rdiv_lt_0_compat; lra. Qed.

  Lemma opt_arg_eq : opt_arg index sigb pumpb pp = w_z ^ 2 + u_t ^ 2.
  Proof.
    unfold opt_arg. rewrite idler_arg_eq, sig_lambda, pump_lambda, sig_theta. reflexivity.
  Qed.

  Lemma opt_val_eq : opt_val index sigb pumpb pp = u_t / sqrt (opt_arg index sigb pumpb pp).
  Proof. unfold opt_val. rewrite idler_val_eq, sig_theta. reflexivity. Qed.

  (* kp - ks - k_eff z = (2 pi / ls) * (-u cos phi, -u sin phi, w) *)
  Lemma closing_vector_eq :
    closing_vector index sigb pumpb pp = vscale Kq (- (u_t * cos phis), - (u_t * sin phis), w_z).
  Proof.
    unfold closing_vector, wavevector. rewrite !beam_wavevector_eq.
    fold n_s n_p. rewrite sig_dir, pump_dir, sig_omega, pump_omega.
    rewrite (k_eff_k_pp pp ls) by (try lra; assumption). fold kpp.
    unfold u_t, w_z, Kq, polar, ez, c_light. vec_cmp; field; lra.
  Qed.

  Lemma closing_norm2 : vnorm2 (closing_vector index sigb pumpb pp) = Kq ^ 2 * (w_z ^ 2 + u_t ^ 2).
  Proof.
    rewrite closing_vector_eq. unfold vnorm2, vdot, vscale, vx, vy, vz; cbn [fst snd].
    pose proof (sin2_cos2 phis) as H. unfold Rsqr in H.
    replace (u_t ^ 2) with (u_t ^ 2 * (sin phis * sin phis + cos phis * cos phis)) by (rewrite H; ring).
    ring.
  Qed.

  (* Theorem 1: arg * (2 pi / ls)^2 = |kp - ks - k_eff z|^2 *)
  Lemma arg_is_closing_norm :
    opt_arg index sigb pumpb pp * (2 * PI / ls) ^ 2 = vnorm2 (closing_vector index sigb pumpb pp).
  Proof. rewrite closing_norm2, opt_arg_eq. unfold Kq. ring. Qed.

  Lemma closing_z : vz (closing_vector index sigb pumpb pp) = Kq * w_z.
  Proof. rewrite closing_vector_eq. reflexivity. Qed.

  (* the closing vector has a longitudinal component  ->  arg > 0 and |val| <= 1: sqrt and asin are defined *)
  Lemma defined_of_wz : w_z <> 0 -> optimum_defined index sigb pumpb pp.
  Proof.
    intros Hw. unfold optimum_defined. rewrite pump_lambda.
    assert (Ha : 0 < opt_arg index sigb pumpb pp).
    { rewrite opt_arg_eq. assert (0 < w_z ^ 2) by (destruct (Rdichotomy _ _ Hw); nra). nra. }
    split; [exact Hlp | split; [exact Ha|]].
    rewrite opt_val_eq. set (a := opt_arg index sigb pumpb pp) in *.
    assert (Hs : 0 < sqrt a) by (apply sqrt_lt_R0; exact Ha).
    assert (Hsq : sqrt a * sqrt a = a) by (apply sqrt_sqrt; lra).
    assert (Hu : u_t ^ 2 <= a) by (unfold a; rewrite opt_arg_eq; nra).
    assert (Habs : - sqrt a <= u_t <= sqrt a) by (split; nra).
    split.
    - apply Rmult_le_reg_r with (sqrt a); [exact Hs|]. unfold Rdiv. rewrite Rmult_assoc, Rinv_l by lra. lra.
    - apply Rmult_le_reg_r with (sqrt a); [exact Hs|]. unfold Rdiv. rewrite Rmult_assoc, Rinv_l by lra. lra.
  Qed.

  Lemma sqrt_one_minus_val2 : w_z <> 0 ->
    sqrt (1 - (opt_val index sigb pumpb pp)²) = Rabs w_z / sqrt (opt_arg index sigb pumpb pp).
  Proof.
    intros Hw. destruct (defined_of_wz Hw) as (_ & Ha & _).
    rewrite opt_val_eq.
    assert (Ha2 : opt_arg index sigb pumpb pp = w_z ^ 2 + u_t ^ 2) by apply opt_arg_eq.
    assert (Hs : 0 < sqrt (opt_arg index sigb pumpb pp)) by (apply sqrt_lt_R0; exact Ha).
    assert (Hsq : sqrt (opt_arg index sigb pumpb pp) * sqrt (opt_arg index sigb pumpb pp) = w_z ^ 2 + u_t ^ 2)
      by (rewrite sqrt_sqrt; lra).
    set (s := sqrt (opt_arg index sigb pumpb pp)) in *. clearbody s.
    assert (Hone : (u_t / s)² + (w_z / s)² = 1).
    { unfold Rsqr. replace (u_t / s * (u_t / s) + w_z / s * (w_z / s)) with ((w_z ^ 2 + u_t ^ 2) / (s * s)) by (field; lra).
      rewrite <- Hsq. field. lra. }
    assert (Hab : Rabs w_z * Rabs w_z = w_z * w_z) by (rewrite <- Rabs_mult; apply Rabs_right; nra).
    apply sqrt_lem_1.
    - pose proof (Rle_0_sqr (w_z / s)). lra.
    - apply Rmult_le_pos; [apply Rabs_pos | left; apply Rinv_0_lt_compat; lra].
    - replace (Rabs w_z / s * (Rabs w_z / s)) with ((Rabs w_z * Rabs w_z) / (s * s)) by (field; lra).
      rewrite Hab. replace (w_z * w_z / (s * s)) with ((w_z / s)²) by (unfold Rsqr; field; lra). lra.
  Qed.

  (* ------------------------------------------------------------ the idler produced by the code *)
  Variable cp : bool.
  Hypothesis Hforward_signal : 0 < cos ths.     (* |signal polar angle| < pi/2 *)
  Hypothesis Hgt : lp < ls.

  Definition idler_b : beam :=
    beam_new (idler_polarization pm) (idler_phi (b_phi sigb))
             (idler_theta cp (b_theta sigb) (opt_val index sigb pumpb pp))
             (idler_wavelength (b_lambda sigb) (b_lambda pumpb)) (b_waist sigb).

  Lemma optimum_idler_some : optimum_idler index pm cp sigb pumpb pp = Some idler_b.
  Proof.
    unfold optimum_idler, idler_error_cond, idler_b. rewrite sig_lambda, pump_lambda.
    destruct (Rle_dec ls lp); [lra | reflexivity].
  Qed.

  (* direction of the idler: transverse part -val (cos phi, sin phi), longitudinal part beta sqrt(1 - val^2),
     beta = -1 in the counter-propagating branch *)
  Lemma idler_azimuth_polar t : polar (idler_phi (beam_new_phi phis)) t = polar (phis + PI) t.
  Proof.
    change beam_new_phi with normalize_angle. rewrite idler_phi_eq.
    destruct (normalize_angle_congr (normalize_angle phis + PI)) as [k1 H1]. rewrite H1.
    destruct (normalize_angle_congr phis) as [k2 H2]. rewrite H2.
    replace (phis + 2 * IZR k2 * PI + PI + 2 * IZR k1 * PI) with (phis + PI + 2 * IZR (k1 + k2) * PI) by (rewrite plus_IZR; ring).
    replace t with (t + 2 * IZR 0 * PI) at 1 by ring. apply polar_period.
  Qed.

  Lemma idler_dir : w_z <> 0 ->
    b_dir idler_b = (- (opt_val index sigb pumpb pp * cos phis),
                     - (opt_val index sigb pumpb pp * sin phis),
                     (if cp then -1 else 1) * sqrt (1 - (opt_val index sigb pumpb pp)²)).
  Proof.
    intros Hw. destruct (defined_of_wz Hw) as (_ & _ & Hv).
    unfold idler_b, beam_new; cbn [b_dir]. rewrite beam_new_direction_eq, sig_theta.
    unfold sigb at 1, beam_new; cbn [b_phi].
    rewrite idler_azimuth_polar, polar_phi_pi.
    rewrite idler_theta_sin, idler_theta_cos by assumption.
    vec_cmp; ring.
  Qed.

  (* q / |q| *)
  Lemma closing_unit : w_z <> 0 ->
    vscale (/ vnorm (closing_vector index sigb pumpb pp)) (closing_vector index sigb pumpb pp)
    = (- (opt_val index sigb pumpb pp * cos phis), - (opt_val index sigb pumpb pp * sin phis),
       w_z / sqrt (opt_arg index sigb pumpb pp)).
  Proof.
    intros Hw. destruct (defined_of_wz Hw) as (_ & Ha & _).
    unfold vnorm. rewrite closing_norm2, <- opt_arg_eq.
    rewrite opt_val_eq. set (a := opt_arg index sigb pumpb pp) in *.
    pose proof Kq_pos as HK.
    assert (Hs : 0 < sqrt a) by (apply sqrt_lt_R0; exact Ha).
    replace (sqrt (Kq ^ 2 * a)) with (Kq * sqrt a).
    2:{ symmetry. apply sqrt_lem_1; [nra | nra |]. replace (Kq * sqrt a * (Kq * sqrt a)) with (Kq ^ 2 * (sqrt a * sqrt a)) by ring.
        rewrite sqrt_sqrt by lra. reflexivity. }
    rewrite closing_vector_eq. unfold vscale, vx, vy, vz; cbn [fst snd]. vec_cmp; field; lra.
  Qed.

  (* Theorem 3 (forward): co-propagating setup, closing vector pointing forward
     ->  the idler direction is exactly the unit vector of the closing vector (signal polar angle of either sign) *)
  Lemma idler_parallel_forward : cp = false -> 0 < vz (closing_vector index sigb pumpb pp) ->
    b_dir idler_b = vscale (/ vnorm (closing_vector index sigb pumpb pp)) (closing_vector index sigb pumpb pp).
  Proof.
    intros Hcp Hz. rewrite closing_z in Hz. pose proof Kq_pos as HK.
    assert (Hw : 0 < w_z) by nra.
    rewrite idler_dir, closing_unit by lra. subst cp.
    rewrite sqrt_one_minus_val2 by lra. rewrite (Rabs_right w_z) by lra.
    vec_cmp; ring.
  Qed.

  (* counter-propagating setups take the pi - asin branch: the idler closes the triangle when the closing vector points backward *)
  Lemma idler_parallel_backward : cp = true -> vz (closing_vector index sigb pumpb pp) < 0 ->
    b_dir idler_b = vscale (/ vnorm (closing_vector index sigb pumpb pp)) (closing_vector index sigb pumpb pp).
  Proof.
    intros Hcp Hz. rewrite closing_z in Hz. pose proof Kq_pos as HK.
    assert (Hw : w_z < 0) by nra.
    rewrite idler_dir, closing_unit by lra. subst cp.
    rewrite sqrt_one_minus_val2 by lra. rewrite (Rabs_left w_z) by lra.
    vec_cmp; field. destruct (defined_of_wz (Rlt_not_eq _ _ Hw)) as (_ & Ha & _).
    apply Rgt_not_eq, sqrt_lt_R0, Ha.
  Qed.

  (* collinear signal -> collinear idler *)
  Lemma idler_collinear : cp = false -> ths = 0 -> w_z <> 0 -> b_theta idler_b = 0 /\ b_dir idler_b = ez.
  Proof.
    intros Hcp H0 Hw.
    assert (Hv : opt_val index sigb pumpb pp = 0).
    { rewrite opt_val_eq. unfold u_t. rewrite H0, sin_0. unfold Rdiv. ring. }
    split.
    - unfold idler_b, beam_new; cbn [b_theta]. rewrite sig_theta, Hv, idler_theta_branch by assumption.
      subst cp. rewrite asin_0. rewrite beam_new_theta_eq. apply normalize_angle_signed_id. pose proof PI_RGT_0. lra.
    - rewrite idler_dir by assumption. rewrite Hv. subst cp. unfold Rsqr, ez.
      replace (1 - 0 * 0) with 1 by ring. rewrite sqrt_1. vec_cmp; ring.
  Qed.

  (* energy conservation *)
  Lemma idler_lambda : b_lambda idler_b = ls * lp / (ls - lp).
  Proof.
    unfold idler_b. rewrite b_lambda_new; rewrite sig_lambda, pump_lambda; unfold idler_wavelength; [reflexivity|].
    apply Rgt_not_eq. apply Rdiv_lt_0_compat; nra.
  Qed.

  Lemma idler_energy : / b_lambda idler_b = / lp - / ls /\ b_omega idler_b = b_omega pumpb - b_omega sigb.
  Proof.
    split.
    - rewrite idler_lambda. field. repeat split; lra.
    - rewrite sig_omega, pump_omega. unfold idler_b, beam_new; cbn [b_omega]. rewrite sig_lambda, pump_lambda.
      rewrite beam_new_frequency_eq; unfold idler_wavelength.
      + field. repeat split; lra.
      + apply Rgt_not_eq. apply Rdiv_lt_0_compat; nra.
  Qed.

  (* the other fields *)
  Lemma idler_fields :
    b_pol idler_b = idler_polarization pm /\ b_waist idler_b = ws /\
    0 <= b_phi idler_b < 2 * PI /\ (exists k : Z, b_phi idler_b = phis + PI + 2 * IZR k * PI) /\
    cos (b_phi idler_b) = - cos phis /\ sin (b_phi idler_b) = - sin phis.
  Proof.
    assert (Hsp : b_phi sigb = beam_new_phi phis) by reflexivity.
    unfold idler_b, beam_new; cbn [b_pol b_waist b_phi]. rewrite Hsp.
    split; [reflexivity | split; [reflexivity|]].
    split; [rewrite beam_new_phi_eq; apply normalize_angle_range|].
    destruct (idler_phi_congr phis) as [k Hk].
    split; [exists k; exact Hk|]. rewrite Hk, cos_period_Z, sin_period_Z, neg_cos, neg_sin. split; reflexivity.
  Qed.
End Idler.

(* ---------------------------------------------------------------- error rule *)
Lemma idler_error_rule index pm cp spol ppol phis ths ls lp ws wp pp : ls <> 0 -> lp <> 0 ->
  (ls <= lp <-> optimum_idler index pm cp (beam_new spol phis ths ls ws) (pump_new ppol lp wp) pp = None).
Proof.
  intros H1 H2. unfold optimum_idler, idler_error_cond, pump_new. rewrite !b_lambda_new by assumption.
  destruct (Rle_dec ls lp); split; intros H; try assumption; try reflexivity; try discriminate; contradiction.
Qed.

(* ---------------------------------------------------------------- delta_k is the stated vector sum *)
Lemma delta_k_model_eq index ws wi (signal idler pump : beam) pp :
  delta_k_model index ws wi signal idler pump pp =
  vsub (vsub (vsub (vscale (refractive_index index pump (b_omega pump) * b_omega pump / c_light) (b_dir pump))
                   (vscale (refractive_index index signal ws * ws / c_light) (b_dir signal)))
             (vscale (refractive_index index idler wi * wi / c_light) (b_dir idler)))
       (vscale (match pp with PPOff => 0 | PPOn p s => 2 * PI / (sign_val s * p) end) ez).
Proof.
  unfold delta_k_model, delta_k, wavevector. rewrite !beam_wavevector_eq, pp_k_eff_eq.
  unfold vsub, vscale, ez, vx, vy, vz; cbn [fst snd]. vec_cmp; ring.
Qed.

(* delta_k at the centre frequencies = closing vector - idler wave vector *)
Lemma delta_k_closing index (signal idler pump : beam) pp :
  delta_k_model index (b_omega signal) (b_omega idler) signal idler pump pp =
  vsub (closing_vector index signal pump pp) (wavevector index idler (b_omega idler)).
Proof.
  unfold delta_k_model, delta_k, closing_vector.
  unfold vsub, vscale, ez, vx, vy, vz; cbn [fst snd]. vec_cmp; ring.
Qed.

(* if the idler direction is the unit closing vector, the residual mismatch is a multiple of the idler direction *)
Lemma residual_parallel index (signal idler pump : beam) pp :
  0 < vnorm2 (closing_vector index signal pump pp) ->
  b_dir idler = vscale (/ vnorm (closing_vector index signal pump pp)) (closing_vector index signal pump pp) ->
  delta_k_model index (b_omega signal) (b_omega idler) signal idler pump pp =
    vscale (vnorm (closing_vector index signal pump pp) - refractive_index index idler (b_omega idler) * b_omega idler / c_light) (b_dir idler)
  /\ vcross (delta_k_model index (b_omega signal) (b_omega idler) signal idler pump pp) (b_dir idler) = vzero.
Proof.
  intros Hn Hd. set (q := closing_vector index signal pump pp) in *.
  assert (Hq : q = vscale (vnorm q) (b_dir idler)).
  { rewrite Hd. assert (0 < vnorm q) by (apply sqrt_lt_R0; exact Hn).
    unfold vscale, vx, vy, vz; cbn [fst snd]. destruct q as [[a b] c]; cbn [fst snd]. vec_cmp; field; lra. }
  assert (H1 : delta_k_model index (b_omega signal) (b_omega idler) signal idler pump pp =
               vscale (vnorm q - refractive_index index idler (b_omega idler) * b_omega idler / c_light) (b_dir idler)).
  { rewrite delta_k_closing. fold q. rewrite Hq at 1. unfold wavevector. rewrite beam_wavevector_eq.
    unfold vsub, vscale, vx, vy, vz; cbn [fst snd]. vec_cmp; ring. }
  split; [exact H1|]. rewrite H1. apply vcross_scale_self.
Qed.

(* ---------------------------------------------------------------- polarization tables agree with the type's name *)
Lemma polarization_by_name p :
  name_letters (pm_to_str p) = Some (pump_polarization p, signal_polarization p, idler_polarization p).
Proof. destruct p; reflexivity. Qed.

Lemma pm_inverse_swaps p :
  pump_polarization (pm_inverse p) = pump_polarization p /\
  signal_polarization (pm_inverse p) = idler_polarization p /\ idler_polarization (pm_inverse p) = signal_polarization p.
Proof. destruct p; repeat split; reflexivity. Qed.
