(* C14 — values of the 1-D and 2-D grids over the reals; row-major order of the 2-D grid (any carrier); index maps. *)
From Coq Require Import List Arith Bool Lia Reals Lra.
From SpdVerif Require Import Base.GridOps Gen.Grid Model.Grid.
Import ListNotations.

(* ------------------------------------------------------------------------------------------------ index maps *)
Lemma idx_2d_of_1d col row cols : col < cols -> get_2d_indices (get_1d_index col row cols) cols = (col, row).
Proof.
  intros H. unfold get_2d_indices, get_1d_index. f_equal.
  - rewrite Nat.add_comm, Nat.mod_add by lia. apply Nat.mod_small; exact H.
  - rewrite Nat.div_add_l by lia. rewrite Nat.div_small by exact H. lia.
Qed.

Lemma idx_1d_of_2d index cols : 0 < cols ->
  fst (get_2d_indices index cols) < cols /\
  get_1d_index_pre (fst (get_2d_indices index cols)) (snd (get_2d_indices index cols)) cols = true /\
  get_1d_index (fst (get_2d_indices index cols)) (snd (get_2d_indices index cols)) cols = index.
Proof.
  intros H. unfold get_2d_indices, get_1d_index, get_1d_index_pre. cbn [fst snd].
  assert (Hm : index mod cols < cols) by (apply Nat.mod_upper_bound; lia).
  repeat split; [exact Hm | apply Nat.ltb_lt; exact Hm |].
  pose proof (Nat.div_mod index cols ltac:(lia)). lia.
Qed.

Lemma idx_1d_range col row cols rows : col < cols -> row < rows -> get_1d_index col row cols < cols * rows.
Proof. intros Hc Hr. unfold get_1d_index. nia. Qed.

(* ------------------------------------------------------------------------------------------------ row-major order *)
Lemma seq_rows nx ny : seq 0 (ny * nx) = flat_map (fun j => seq (j * nx) nx) (seq 0 ny).
Proof.
  induction ny as [|ny IH]; [reflexivity|].
  rewrite seq_S, flat_map_app. cbn [flat_map]. rewrite app_nil_r, <- IH.
  replace (S ny * nx) with (ny * nx + nx) by lia. rewrite seq_app. reflexivity.
Qed.

Lemma seq_shift_map a n : seq a n = map (fun i => a + i) (seq 0 n).
Proof.
  revert a; induction n as [|n IH]; intros a; [reflexivity|].
  cbn [seq map]. rewrite Nat.add_0_r. f_equal. rewrite IH, (IH 1), map_map. apply map_ext; intros; lia.
Qed.

Section RowMajor.
Context {T : Type} (O : ops T).

(* the two axis coordinates Steps2D::value computes, as functions of the column / row number *)
Definition xcoord (x0 x1 : T) (nx i : nat) : T := fst (steps2d_value O x0 x1 nx x0 x1 1 i).
Definition ycoord (nx : nat) (y0 y1 : T) (ny j : nat) : T := snd (steps2d_value O y0 y1 1 y0 y1 ny j).

Lemma steps2d_value_rc x0 x1 nx y0 y1 ny i j : i < nx ->
  steps2d_value O x0 x1 nx y0 y1 ny (j * nx + i) = (xcoord x0 x1 nx i, ycoord nx y0 y1 ny j).
Proof.
  intros Hi. unfold xcoord, ycoord, steps2d_value. cbn [fst snd].
  assert (H1 : (j * nx + i) mod nx = i) by (rewrite Nat.add_comm, Nat.mod_add by lia; apply Nat.mod_small; exact Hi).
  assert (H2 : (j * nx + i) / nx = j) by (rewrite Nat.div_add_l by lia; rewrite Nat.div_small by exact Hi; lia).
  assert (H3 : i mod nx = i) by (apply Nat.mod_small; exact Hi).
  rewrite H1, H2, H3, Nat.div_1_r. reflexivity.
Qed.

(* the grid is the list of rows j = 0 .. ny-1, each row running through the columns i = 0 .. nx-1 (first axis fastest);
   exact for every carrier, in particular bit-exact for binary64 *)
Theorem seq2d_row_major x0 x1 nx y0 y1 ny :
  seq2d O x0 x1 nx y0 y1 ny =
  flat_map (fun j => map (fun i => (xcoord x0 x1 nx i, ycoord nx y0 y1 ny j)) (seq 0 nx)) (seq 0 ny).
Proof.
  unfold seq2d, steps2d_len. rewrite (Nat.mul_comm nx ny), seq_rows.
  rewrite flat_map_concat_map, concat_map, map_map, <- flat_map_concat_map.
  apply flat_map_ext; intros j. rewrite (seq_shift_map (j * nx) nx), map_map.
  apply map_ext_in; intros i Hi. apply in_seq in Hi. apply steps2d_value_rc. lia.
Qed.

Theorem seq2d_nth x0 x1 nx y0 y1 ny i j d : i < nx -> j < ny ->
  nth (get_1d_index i j nx) (seq2d O x0 x1 nx y0 y1 ny) d = (xcoord x0 x1 nx i, ycoord nx y0 y1 ny j).
Proof.
  intros Hi Hj. unfold seq2d, steps2d_len, get_1d_index.
  assert (Hlt : j * nx + i < nx * ny) by nia.
  rewrite (nth_indep _ d (steps2d_value O x0 x1 nx y0 y1 ny 0)) by (rewrite map_length, seq_length; exact Hlt).
  rewrite (map_nth (steps2d_value O x0 x1 nx y0 y1 ny) (seq 0 (nx * ny)) 0), seq_nth by exact Hlt.
  cbn [plus]. apply steps2d_value_rc; exact Hi.
Qed.
End RowMajor.

(* ------------------------------------------------------------------------------------------------ values over R *)
Local Open Scope R_scope.

Lemma INR_pred_pos n : (2 <= n)%nat -> 0 < INR (n - 1).
Proof. intros H. apply lt_0_INR. lia. Qed.

Lemma steps_value_first s e n : (1 <= n)%nat -> steps_value Rops s e n 0 = s.
Proof.
  intros H. unfold steps_value; cbn [Rops o_add o_sub o_mul o_div o_nat].
  destruct (Nat.ltb_spec 1 n) as [Hn|Hn]; [|reflexivity].
  pose proof (INR_pred_pos n ltac:(lia)). cbn [INR]. field. lra.
Qed.

Lemma steps_value_last s e n : (2 <= n)%nat -> steps_value Rops s e n (n - 1) = e.
Proof.
  intros H. unfold steps_value; cbn [Rops o_add o_sub o_mul o_div o_nat].
  destruct (Nat.ltb_spec 1 n) as [Hn|Hn]; [|lia].
  pose proof (INR_pred_pos n H). field. lra.
Qed.

(* value(i) = start + i * (end - start) / (n - 1): the points are evenly spaced *)
Lemma steps_value_affine s e n i : (2 <= n)%nat ->
  steps_value Rops s e n i = s + INR i * steps_division_width Rops s e n.
Proof.
  intros H. unfold steps_value, steps_division_width; cbn [Rops o_add o_sub o_mul o_div o_nat].
  destruct (Nat.ltb_spec 1 n) as [Hn|Hn]; [|lia].
  pose proof (INR_pred_pos n H). field. lra.
Qed.

Lemma steps_value_spacing s e n i : (2 <= n)%nat ->
  steps_value Rops s e n (S i) - steps_value Rops s e n i = steps_division_width Rops s e n.
Proof. intros H. rewrite !steps_value_affine by exact H. rewrite S_INR. ring. Qed.

Lemma steps_value_single s e i : steps_value Rops s e 1 i = s.
Proof. reflexivity. Qed.

(* the 2-D grid point is the pair of the 1-D axis values (lerp form = division form over the reals) *)
Lemma steps2d_value_axes x0 x1 nx y0 y1 ny k :
  steps2d_value Rops x0 x1 nx y0 y1 ny k =
  (steps_value Rops x0 x1 nx (k mod nx), steps_value Rops y0 y1 ny (k / nx)).
Proof.
  unfold steps2d_value, steps_value; cbn [Rops o_add o_sub o_mul o_div o_nat o_z]. f_equal.
  - destruct (Nat.ltb_spec 1 nx) as [Hn|Hn]; [|ring].
    pose proof (INR_pred_pos nx ltac:(lia)). field. lra.
  - destruct (Nat.ltb_spec 1 ny) as [Hn|Hn]; [|ring].
    pose proof (INR_pred_pos ny ltac:(lia)). field. lra.
Qed.

Lemma seq1d_nth s e n i d : (i < n)%nat -> nth i (seq1d Rops s e n) d = steps_value Rops s e n i.
Proof.
  intros H. unfold seq1d, steps_len.
  rewrite (nth_indep _ d (steps_value Rops s e n 0)) by (rewrite map_length, seq_length; exact H).
  rewrite (map_nth (steps_value Rops s e n) (seq 0 n) 0%nat), seq_nth by exact H. reflexivity.
Qed.

(* the whole 1-D statement at once *)
Theorem steps_spec s e n : (1 <= n)%nat ->
  length (seq1d Rops s e n) = n /\
  nth 0 (seq1d Rops s e n) 0 = s /\
  ((2 <= n)%nat -> nth (n - 1) (seq1d Rops s e n) 0 = e) /\
  (forall i, (S i < n)%nat -> nth (S i) (seq1d Rops s e n) 0 - nth i (seq1d Rops s e n) 0 = (e - s) / INR (n - 1)).
Proof.
  intros H. repeat split.
  - unfold seq1d, steps_len. rewrite map_length, seq_length. reflexivity.
  - rewrite seq1d_nth by lia. apply steps_value_first; exact H.
  - intros H2. rewrite seq1d_nth by lia. apply steps_value_last; exact H2.
  - intros i Hi. rewrite !seq1d_nth by lia. rewrite steps_value_spacing by lia. reflexivity.
Qed.

(* corners of the 2-D grid *)
Theorem seq2d_corners x0 x1 nx y0 y1 ny : (1 <= nx)%nat -> (1 <= ny)%nat ->
  steps2d_value Rops x0 x1 nx y0 y1 ny 0 = (x0, y0) /\
  ((2 <= nx)%nat -> (2 <= ny)%nat -> steps2d_value Rops x0 x1 nx y0 y1 ny (nx * ny - 1) = (x1, y1)).
Proof.
  intros Hx Hy. split.
  - rewrite steps2d_value_axes. rewrite Nat.mod_0_l, Nat.div_0_l by lia.
    rewrite !steps_value_first by assumption. reflexivity.
  - intros Hx2 Hy2. rewrite steps2d_value_axes.
    assert (E : (nx * ny - 1 = (ny - 1) * nx + (nx - 1))%nat) by nia.
    rewrite E. rewrite Nat.add_comm at 1. rewrite Nat.mod_add by lia. rewrite Nat.mod_small by lia.
    rewrite Nat.div_add_l by lia. rewrite (Nat.div_small (nx - 1) nx) by lia. rewrite Nat.add_0_r.
    rewrite !steps_value_last by assumption. reflexivity.
Qed.

(* an ascending range is strictly increasing, a descending one strictly decreasing *)
Lemma steps_value_increasing s e n i j : (2 <= n)%nat -> s < e -> (i < j)%nat ->
  steps_value Rops s e n i < steps_value Rops s e n j.
Proof.
  intros Hn Hse Hij. rewrite !steps_value_affine by exact Hn.
  assert (Hd : 0 < steps_division_width Rops s e n).
  { unfold steps_division_width; cbn [Rops o_sub o_div o_nat]. pose proof (INR_pred_pos n Hn). apply Rdiv_lt_0_compat; lra. }
  apply lt_INR in Hij. nra.
Qed.
Lemma steps_value_decreasing s e n i j : (2 <= n)%nat -> e < s -> (i < j)%nat ->
  steps_value Rops s e n j < steps_value Rops s e n i.
Proof.
  intros Hn Hse Hij. rewrite !steps_value_affine by exact Hn.
  assert (Hd : steps_division_width Rops s e n < 0).
  { unfold steps_division_width; cbn [Rops o_sub o_div o_nat]. pose proof (INR_pred_pos n Hn).
    assert (Hi : 0 < / INR (n - 1)) by (apply Rinv_0_lt_compat; lra). unfold Rdiv. nra. }
  apply lt_INR in Hij. nra.
Qed.
