(* Composition: beam kinematics (Gen/Kinematics.v, translated from src/beam/mod.rs) with the finite-difference derivative
   (Gen/Fresnel.v), the crystal index (C01 o C02, Proofs/Compose_index.v), the counts correction of C06
   (Gen/PMIntegrand.v: pm_counts_correction) and the HOM delays (Gen/HomSrc.v).

   Notation: for a beam (omega, d, p) in a setup whose index function is [index],
     lam omega        = 2 pi c / omega                      (vacuum wavelength, as the code computes it)
     n_at ...         = index (lam omega) d p               (Beam::refractive_index at the beam's own frequency)
     slope ...        = derivative_at_gen (fun l => index l d p) (lam omega)    the code's dn/dlambda: central difference,
                        step eps64^(1/3) |lambda|   (kin_slope_is_central_difference)
     x                = lam * slope / n
   What the code computes:  v_p = c / n_eff,   v_g = v_p (1 + (lam / n_eff) slope),   n_g = c / v_g,
                            n_eff = n (+ lam / signed_period when poled),   T = |0.5 L / d_z| |d| / v_g. *)
From Coq Require Import Reals Lra List.
From Coquelicot Require Import Coquelicot.
From SpdVerif Require Import Base.Rx Spec.CrystalTypes Model.Optics Model.Fresnel Gen.Fresnel Gen.Kinematics Proofs.C02_fd Proofs.Compose_fd_local Proofs.C02_gen.
Local Open Scope R_scope.

Definition light_speed : R := 299792458.
Definition lam (omega : R) : R := ((((2 * PI) * 1) * 299792458) / (omega * 1)).
Definition n_at (index : R -> vec -> polarization -> R) (omega : R) (d : vec) (p : polarization) : R := index (lam omega) d p.
Definition slope (index : R -> vec -> polarization -> R) (omega : R) (d : vec) (p : polarization) : R :=
  derivative_at_gen (fun lambda : R => index (lambda * 1) d p) (lam omega / 1).

Section Beam.
Variable index : R -> vec -> polarization -> R.
Variables (omega : R) (d : vec) (p : polarization).
Let n := n_at index omega d p.
Let D := slope index omega d p.
Let l := lam omega.

(* ---- the code's derivative, made explicit *)
Lemma kin_slope_is_central_difference :
  D = (0.5 * (index ((l + fd_step_gen l) * 1) d p - index ((l - fd_step_gen l) * 1) d p)) / fd_step_gen l.
Proof.
  unfold D, slope, derivative_at_gen, fd_quotient_gen, fd_forward_point_gen, fd_backward_point_gen. fold l.
  replace (l / 1) with l by field. reflexivity.
Qed.

Lemma lam_value : omega <> 0 -> l = 2 * PI * light_speed / omega.
Proof. intros H. unfold l, lam, light_speed. field. exact H. Qed.

(* ---- unpoled crystal (PeriodicPoling::Off) *)
Lemma kin_n_eff_off : beam_effective_index_of_refraction_off_gen index omega d p = n.
Proof. unfold beam_effective_index_of_refraction_off_gen, n, n_at, lam. ring. Qed.

Lemma kin_phase_velocity_off : n <> 0 -> beam_phase_velocity_off_gen index omega d p = light_speed / n.
Proof. intros H. unfold beam_phase_velocity_off_gen. fold (lam omega). fold (n_at index omega d p). fold n. unfold light_speed. field. exact H. Qed.

Lemma kin_group_velocity_off : n <> 0 ->
  beam_group_velocity_off_gen index omega d p = light_speed / n * (1 + l / n * D).
Proof.
  intros H. unfold beam_group_velocity_off_gen. fold (lam omega). fold (n_at index omega d p). fold (slope index omega d p).
  fold n D l. unfold light_speed. field. exact H.
Qed.

Lemma kin_group_index_off_def : beam_group_index_off_gen index omega d p = light_speed / beam_group_velocity_off_gen index omega d p.
Proof. reflexivity. Qed.

(* the group index the code computes *)
Theorem kin_group_index_off : n <> 0 -> 1 + l / n * D <> 0 ->
  beam_group_index_off_gen index omega d p = n / (1 + l / n * D).
Proof.
  intros Hn Hx. rewrite kin_group_index_off_def, kin_group_velocity_off by exact Hn.
  assert (Hs : n + l * D <> 0).
  { replace (n + l * D) with (n * (1 + l / n * D)) by (field; exact Hn). apply Rmult_integral_contrapositive_currified; assumption. }
  unfold light_speed. field. repeat split; assumption.
Qed.

(* ... against the textbook n_g = n - lambda dn/dlambda: they agree to first order in x = lam D / n, exactly:
   n_g(code) = (n - lam D) + n x^2 / (1 + x),  and  v_g(code) (n - lam D) = c (1 - x^2) *)
Theorem kin_group_index_vs_textbook : n <> 0 -> 1 + l / n * D <> 0 ->
  beam_group_index_off_gen index omega d p = (n - l * D) + n * (l * D / n) ^ 2 / (1 + l * D / n).
Proof.
  intros Hn Hx. rewrite kin_group_index_off by assumption.
  assert (Hx' : 1 + l * D / n <> 0) by (replace (l * D / n) with (l / n * D) by (field; exact Hn); exact Hx).
  field. repeat split; try assumption. replace (n + l * D) with (n * (1 + l / n * D)) by (field; exact Hn).
  apply Rmult_integral_contrapositive_currified; assumption.
Qed.

Theorem kin_group_velocity_vs_textbook : n <> 0 ->
  beam_group_velocity_off_gen index omega d p * (n - l * D) = light_speed * (1 - (l * D / n) ^ 2).
Proof. intros Hn. rewrite kin_group_velocity_off by exact Hn. field. exact Hn. Qed.

(* v_g n_g = c (definedness: v_g <> 0) *)
Theorem kin_vg_ng_off : beam_group_velocity_off_gen index omega d p <> 0 ->
  beam_group_velocity_off_gen index omega d p * beam_group_index_off_gen index omega d p = light_speed.
Proof. intros H. rewrite kin_group_index_off_def. field. exact H. Qed.

(* positivity: a positive index and x > -1 (normal dispersion has -1 < x < 0) *)
Theorem kin_positive_off : 0 < n -> -1 < l / n * D ->
  0 < beam_phase_velocity_off_gen index omega d p /\ 0 < beam_group_velocity_off_gen index omega d p /\
  0 < beam_group_index_off_gen index omega d p.
Proof.
  intros Hn Hx. assert (Hn0 : n <> 0) by lra.
  assert (Hc : 0 < light_speed / n) by (unfold light_speed; apply Rdiv_lt_0_compat; lra).
  rewrite kin_phase_velocity_off, kin_group_index_off_def, kin_group_velocity_off by exact Hn0.
  assert (Hv : 0 < light_speed / n * (1 + l / n * D)) by (apply Rmult_lt_0_compat; lra).
  repeat split; try assumption. apply Rdiv_lt_0_compat; [unfold light_speed; lra | exact Hv].
Qed.

(* the phase velocity lies between c/4 and c whenever the index lies between 1 and 4 (C01 o C02: every built-in crystal) *)
Theorem kin_phase_velocity_bounds_off : 1 < n < 4 ->
  light_speed / 4 < beam_phase_velocity_off_gen index omega d p < light_speed.
Proof.
  intros [H1 H4]. rewrite kin_phase_velocity_off by lra. unfold light_speed. split.
  - apply (Rmult_lt_reg_r n); [lra|]. replace (299792458 / n * n) with 299792458 by (field; lra). lra.
  - apply (Rmult_lt_reg_r n); [lra|]. replace (299792458 / n * n) with 299792458 by (field; lra). nra.
Qed.

(* ---- the exact derivative, under a LOCAL smoothness hypothesis on lambda |-> index lambda d p: three times differentiable on an
   open interval (a, b) that contains the two sample points lambda -+ h, third derivative bounded by M between them
   (h = fd_step_gen lambda = eps64^(1/3) |lambda|, eps64^(1/3) at lambda = 0).  Then the code's slope is within M h^2 / 6 of
   dn/dlambda; consequently for the group velocity.  (A Sellmeier index is smooth only away from its poles: the hypotheses are
   about the neighbourhood the code actually samples.) *)
Theorem kin_slope_vs_derivative : forall M a b : R,
  a < l - fd_step_gen l -> l + fd_step_gen l < b ->
  (forall t, a < t < b -> forall k, (k <= 3)%nat -> ex_derive_n (fun lm => index lm d p) k t) ->
  (forall t, l - fd_step_gen l < t < l + fd_step_gen l -> Rabs (Derive_n (fun lm => index lm d p) 3 t) <= M) ->
  Rabs (D - Derive (fun lm => index lm d p) l) <= M * fd_step_gen l ^ 2 / 6.
Proof.
  intros M a b Ha Hb Hsm HM. pose proof (fd_step_pos l) as Hh.
  pose proof (central_difference_error_local (fun lm => index lm d p) l (fd_step_gen l) M a b Hh Ha Hb Hsm HM) as Hc.
  rewrite kin_slope_is_central_difference.
  replace (0.5 * (index ((l + fd_step_gen l) * 1) d p - index ((l - fd_step_gen l) * 1) d p) / fd_step_gen l)
    with ((index (l + fd_step_gen l) d p - index (l - fd_step_gen l) d p) / (2 * fd_step_gen l)); [exact Hc|].
  rewrite !Rmult_1_r. replace 0.5 with (/ 2) by lra. field. lra.
Qed.

Theorem kin_group_velocity_vs_derivative : forall M a b : R, 0 < n ->
  a < l - fd_step_gen l -> l + fd_step_gen l < b ->
  (forall t, a < t < b -> forall k, (k <= 3)%nat -> ex_derive_n (fun lm => index lm d p) k t) ->
  (forall t, l - fd_step_gen l < t < l + fd_step_gen l -> Rabs (Derive_n (fun lm => index lm d p) 3 t) <= M) ->
  Rabs (beam_group_velocity_off_gen index omega d p - light_speed / n * (1 + l / n * Derive (fun lm => index lm d p) l))
    <= light_speed * Rabs l / (n * n) * (M * fd_step_gen l ^ 2 / 6).
Proof.
  intros M a b Hn Ha Hb Hsm HM. rewrite kin_group_velocity_off by lra.
  replace (light_speed / n * (1 + l / n * D) - light_speed / n * (1 + l / n * Derive (fun lm => index lm d p) l))
    with (light_speed * l / (n * n) * (D - Derive (fun lm => index lm d p) l)) by (field; lra).
  rewrite Rabs_mult. pose proof (kin_slope_vs_derivative M a b Ha Hb Hsm HM) as H.
  assert (E : Rabs (light_speed * l / (n * n)) = light_speed * Rabs l / (n * n)).
  { unfold Rdiv. rewrite !Rabs_mult, Rabs_inv. rewrite (Rabs_right light_speed) by (unfold light_speed; lra).
    rewrite (Rabs_right (n * n)) by nra. reflexivity. }
  rewrite E. apply Rmult_le_compat_l; [|exact H].
  apply Rmult_le_pos; [apply Rmult_le_pos; [unfold light_speed; lra | apply Rabs_pos] | left; apply Rinv_0_lt_compat; nra].
Qed.

(* ---- average transit time: half the crystal along the beam's own direction, at the group velocity *)
Lemma half_path_length : forall L : R, unit_vec d -> vz d <> 0 -> 0 <= L ->
  sqrt (((((((0.5 * L) / 1) / (vz d)) * (vx d)) * ((((0.5 * L) / 1) / (vz d)) * (vx d))) +
         (((((0.5 * L) / 1) / (vz d)) * (vy d)) * ((((0.5 * L) / 1) / (vz d)) * (vy d)))) +
        (((((0.5 * L) / 1) / (vz d)) * (vz d)) * ((((0.5 * L) / 1) / (vz d)) * (vz d)))) = 0.5 * L / Rabs (vz d).
Proof.
  intros L Hu Hz HL. unfold unit_vec, vnorm2, vdot in Hu. set (k := (0.5 * L) / 1 / vz d).
  replace (k * vx d * (k * vx d) + k * vy d * (k * vy d) + k * vz d * (k * vz d)) with (k * k * (vx d * vx d + vy d * vy d + vz d * vz d)) by ring.
  rewrite Hu, Rmult_1_r. replace (k * k) with (Rsqr k) by reflexivity. rewrite sqrt_Rsqr_abs.
  unfold k. replace (0.5 * L / 1 / vz d) with ((0.5 * L) * / vz d) by (field; exact Hz).
  rewrite Rabs_mult, Rabs_inv, (Rabs_right (0.5 * L)) by lra. reflexivity.
Qed.

Theorem kin_transit_time_off : forall L : R, unit_vec d -> vz d <> 0 -> 0 <= L ->
  beam_average_transit_time_off_gen index omega d p L = (0.5 * L / Rabs (vz d)) / beam_group_velocity_off_gen index omega d p.
Proof.
  intros L Hu Hz HL. unfold beam_average_transit_time_off_gen. rewrite (half_path_length L Hu Hz HL).
  unfold beam_group_velocity_off_gen. rewrite Rmult_1_r. reflexivity.
Qed.

(* ---- periodically poled crystal: n_eff = n + lam / signed_period in place of n *)
Variable period : R.
Let ne := beam_effective_index_of_refraction_gen index omega d p period.

Lemma kin_n_eff_on : ne = n + l / period.
Proof. reflexivity. Qed.

Lemma kin_group_velocity_on :
  beam_group_velocity_gen index omega d p period = light_speed / ne * (1 + l / ne * D / 1).
Proof. reflexivity. Qed.

Theorem kin_vg_ng_on : beam_group_velocity_gen index omega d p period <> 0 ->
  beam_group_velocity_gen index omega d p period * beam_group_index_gen index omega d p period = light_speed.
Proof.
  intros H. change (beam_group_index_gen index omega d p period) with (299792458 / beam_group_velocity_gen index omega d p period).
  unfold light_speed. field. exact H.
Qed.

Theorem kin_transit_time_on : forall L : R, unit_vec d -> vz d <> 0 -> 0 <= L ->
  beam_average_transit_time_gen index omega d p L period = (0.5 * L / Rabs (vz d)) / beam_group_velocity_gen index omega d p period.
Proof.
  intros L Hu Hz HL. unfold beam_average_transit_time_gen. rewrite (half_path_length L Hu Hz HL).
  unfold beam_group_velocity_gen. rewrite Rmult_1_r. reflexivity.
Qed.

(* switching the poling off is the limit period -> infinity: the `_off` bodies are the poled ones with lam / period replaced by 0 *)
Theorem kin_off_is_on_without_grating_term :
  beam_effective_index_of_refraction_off_gen index omega d p = ne - l / period.
Proof. rewrite kin_n_eff_off, kin_n_eff_on. ring. Qed.
End Beam.

(* utils.rs *)
Lemma kin_utils : forall omega k nn : R, k <> 0 -> nn <> 0 ->
  phase_velocity_gen omega k = omega / k /\ wavenumber_to_frequency_gen k nn = k * light_speed / nn /\
  wavenumber_to_frequency_gen ((nn * omega) / 299792458) nn = omega.
Proof. intros omega k nn Hk Hn. unfold phase_velocity_gen, wavenumber_to_frequency_gen, light_speed. repeat split; try reflexivity. field. exact Hn. Qed.

Print Assumptions kin_slope_is_central_difference.
Print Assumptions kin_group_index_off.
Print Assumptions kin_group_index_vs_textbook.
Print Assumptions kin_group_velocity_vs_textbook.
Print Assumptions kin_vg_ng_off.
Print Assumptions kin_positive_off.
Print Assumptions kin_phase_velocity_bounds_off.
Print Assumptions kin_slope_vs_derivative.
Print Assumptions kin_group_velocity_vs_derivative.
Print Assumptions kin_transit_time_off.
Print Assumptions kin_vg_ng_on.
Print Assumptions kin_transit_time_on.
Print Assumptions kin_off_is_on_without_grating_term.
Print Assumptions kin_utils.
