(* C03 — assembly: the property's clauses in terms of the result of optimum_idler (Some i / None). *)
From Coq Require Import Reals Lra Lia ZArith Bool.
From SpdVerif Require Import Base.Rx Base.Vec3 Gen.Idler Model.Idler Proofs.C03_base Proofs.C03_idler.
Local Open Scope R_scope.

Lemma cos_pos_of_range th : - (PI / 2) < th < PI / 2 -> 0 < cos th.
Proof. intros [H1 H2]. apply cos_gt_0; assumption. Qed.

Lemma range_pi th : - (PI / 2) < th < PI / 2 -> - PI < th <= PI.
Proof. pose proof PI_RGT_0. lra. Qed.

Section All.
  Variable index : R -> vec -> polarization -> R.
  Variables (pm : pm_type) (spol ppol : polarization) (phis ths ls lp : R) (ws wp : R * R) (pp : poling).
  Let signal := sigb spol phis ths ls ws.
  Let pump := pumpb ppol lp wp.
  Let q := closing_vector index signal pump pp.

  Hypothesis Hlp : 0 < lp.
  Hypothesis Hls : 0 < ls.
  Hypothesis Hpp : pp_defined pp.
  Hypothesis Hth : - (PI / 2) < ths < PI / 2.

  Lemma some_inv cp i : optimum_idler index pm cp signal pump pp = Some i ->
    lp < ls /\ i = idler_b index pm spol ppol phis ths ls lp ws wp pp cp.
  Proof.
    intros H. destruct (Rle_dec ls lp) as [Hle|Hgt].
    - apply (proj1 (idler_error_rule index pm cp spol ppol phis ths ls lp ws wp pp ltac:(lra) ltac:(lra))) in Hle.
      unfold signal, pump, sigb, pumpb in H. rewrite Hle in H. discriminate.
    - assert (Hlt : lp < ls) by lra. split; [exact Hlt|].
      unfold signal, pump in H. rewrite (optimum_idler_some index pm spol ppol phis ths ls lp ws wp pp Hls Hlp cp Hlt) in H.
      injection H as <-. reflexivity.
  Qed.

  Lemma closing_nonzero : vz q <> 0 -> 0 < vnorm2 q /\ optimum_defined index signal pump pp.
  Proof.
    intros Hz. pose proof (closing_z index spol ppol phis ths ls lp ws wp pp Hls Hlp Hpp) as Hq.
    assert (Hw : w_z index spol ppol phis ths ls lp ws wp pp <> 0).
    { intros E. rewrite E, Rmult_0_r in Hq. apply Hz. exact Hq. }
    split.
    - unfold q, signal, pump.
      rewrite (closing_norm2 index spol ppol phis ths ls lp ws wp pp Hls Hlp Hpp).
      pose proof (Kq_pos ths ls Hls (range_pi ths Hth)) as HK.
      set (w := w_z index spol ppol phis ths ls lp ws wp pp) in *. set (u := u_t index spol phis ths ls ws).
      assert (0 < w ^ 2) by (destruct (Rdichotomy _ _ Hw); nra).
      apply Rmult_lt_0_compat; nra.
    - apply (defined_of_wz index spol ppol phis ths ls lp ws wp pp Hls Hlp (range_pi ths Hth) Hw).
  Qed.

  (* Clause: momentum.  Co-propagating, signal polar angle in (-pi/2, pi/2), closing vector forward. *)
  Lemma parallel i : 0 < vz q ->
    optimum_idler index pm false signal pump pp = Some i ->
    optimum_defined index signal pump pp /\
    b_dir i = vscale (/ vnorm q) q /\ vcross (b_dir i) q = vzero /\ 0 < vdot (b_dir i) q /\
    vcross (delta_k_model index (b_omega signal) (b_omega i) signal i pump pp) (b_dir i) = vzero.
  Proof.
    intros Hz Hs. destruct (some_inv false i Hs) as [Hlt ->].
    destruct (closing_nonzero ltac:(lra)) as [Hn Hd].
    pose proof (idler_parallel_forward index pm spol ppol phis ths ls lp ws wp pp Hls Hlp (range_pi ths Hth) Hpp false
                  (cos_pos_of_range ths Hth) eq_refl Hz) as Hdir.
    fold signal pump q in Hdir.
    assert (Hnp : 0 < vnorm q) by (apply sqrt_lt_R0; exact Hn).
    split; [exact Hd | split; [exact Hdir|]]. rewrite Hdir. split; [apply vcross_scale_self | split].
    - rewrite vdot_scale_self. apply Rmult_lt_0_compat; [apply Rinv_0_lt_compat; exact Hnp | exact Hn].
    - rewrite <- Hdir. apply residual_parallel; assumption.
  Qed.

  (* the counter-propagating branch closes the triangle when the closing vector points backward *)
  Lemma parallel_counter i : vz q < 0 ->
    optimum_idler index pm true signal pump pp = Some i ->
    b_dir i = vscale (/ vnorm q) q.
  Proof.
    intros Hz Hs. destruct (some_inv true i Hs) as [Hlt ->].
    apply (idler_parallel_backward index pm spol ppol phis ths ls lp ws wp pp Hls Hlp (range_pi ths Hth) Hpp true
             (cos_pos_of_range ths Hth) eq_refl Hz).
  Qed.

  (* Clause: collinear signal -> collinear idler (whenever the closing vector has a longitudinal component) *)
  Lemma collinear i : ths = 0 -> vz q <> 0 ->
    optimum_idler index pm false signal pump pp = Some i -> b_theta i = 0 /\ b_dir i = ez.
  Proof.
    intros H0 Hz Hs. destruct (some_inv false i Hs) as [Hlt ->].
    pose proof (closing_z index spol ppol phis ths ls lp ws wp pp Hls Hlp Hpp) as Hq.
    fold signal pump q in Hq.
    assert (Hw : w_z index spol ppol phis ths ls lp ws wp pp <> 0) by (intros E; rewrite E, Rmult_0_r in Hq; lra).
    apply (idler_collinear index pm spol ppol phis ths ls lp ws wp pp Hls Hlp (range_pi ths Hth) false
             (cos_pos_of_range ths Hth) eq_refl H0 Hw).
  Qed.

  (* Clause: energy, polarization, azimuth, waist *)
  Lemma fields cp i : optimum_idler index pm cp signal pump pp = Some i ->
    lp < ls /\ / b_lambda i = / lp - / ls /\ b_omega i = b_omega pump - b_omega signal /\
    b_pol i = idler_polarization pm /\ b_waist i = ws /\
    0 <= b_phi i < 2 * PI /\ (exists k : Z, b_phi i = phis + PI + 2 * IZR k * PI) /\
    cos (b_phi i) = - cos phis /\ sin (b_phi i) = - sin phis.
  Proof.
    intros Hs. destruct (some_inv cp i Hs) as [Hlt ->]. split; [exact Hlt|].
    destruct (idler_energy index pm spol ppol phis ths ls lp ws wp pp Hls Hlp cp Hlt) as [E1 E2].
    split; [exact E1 | split; [exact E2|]].
    apply idler_fields.
  Qed.

  (* Clause: arg (2 pi / ls)^2 = |kp - ks - k_eff z|^2 *)
  Lemma arg_norm : opt_arg index signal pump pp * (2 * PI / ls) ^ 2 = vnorm2 q.
  Proof. apply (arg_is_closing_norm index spol ppol phis ths ls lp ws wp pp Hls Hlp (range_pi ths Hth) Hpp). Qed.
End All.

Lemma direction pol phi theta lambda w :
  b_dir (beam_new pol phi theta lambda w) = (sin theta * cos phi, sin theta * sin phi, cos theta) /\
  vnorm2 (b_dir (beam_new pol phi theta lambda w)) = 1.
Proof. unfold beam_new; cbn [b_dir]. rewrite beam_new_direction_eq. split; [reflexivity | apply polar_unit]. Qed.

Lemma nonvacuous_at (t : R) : - (1 / 10) <= t <= 1 / 10 ->
  let index := fun (_ : R) (_ : vec) (_ : polarization) => 3 / 2 in
  (0 < 1 /\ 0 < 2 /\ pp_defined PPOff /\ - (PI / 2) < t < PI / 2) /\
  0 < vz (closing_vector index (beam_new Ordinary 0 t 2 (1, 1)) (pump_new Ordinary 1 (1, 1)) PPOff) /\
  exists i, optimum_idler index Type2_e_eo false (beam_new Ordinary 0 t 2 (1, 1)) (pump_new Ordinary 1 (1, 1)) PPOff = Some i.
Proof.
  intros Ht index.
  assert (Hth : - (PI / 2) < t < PI / 2) by (pose proof PI_RGT_0; pose proof PI2_3_2; unfold PI2 in *; lra).
  split; [repeat split; try lra; exact I|]. split.
  - change (0 < vz (closing_vector index (sigb Ordinary 0 t 2 (1, 1)) (pumpb Ordinary 1 (1, 1)) PPOff)).
    rewrite (closing_z index Ordinary Ordinary 0 t 2 1 (1, 1) (1, 1) PPOff ltac:(lra) ltac:(lra) I).
    apply Rmult_lt_0_compat; [apply (Kq_pos t 2 ltac:(lra) (range_pi _ Hth))|].
    unfold w_z, n_p, n_s, kpp, refractive_index, beam_refractive_index, index, pp_k_pp. pose proof (COS_bound t). lra.
  - eexists. apply (optimum_idler_some index Type2_e_eo Ordinary Ordinary 0 t 2 1 (1, 1) (1, 1) PPOff); lra.
Qed.

(* non-vacuity with poling: constant index 3/2, wavelengths 1 and 2, signal polar angle 1/10.
   period 10, positive sign: closing vector still forward (hypotheses of C03_parallel);
   period 1/2, positive sign, counter-propagating: closing vector backward (hypotheses of C03_parallel_counter) *)
Lemma nonvacuous_poled :
  let index := fun (_ : R) (_ : vec) (_ : polarization) => 3 / 2 in
  (pp_defined (PPOn 10 true) /\ - (PI / 2) < 1 / 10 < PI / 2) /\
  0 < vz (closing_vector index (beam_new Ordinary 0 (1 / 10) 2 (1, 1)) (pump_new Ordinary 1 (1, 1)) (PPOn 10 true)) /\
  (exists i, optimum_idler index Type2_e_eo false (beam_new Ordinary 0 (1 / 10) 2 (1, 1)) (pump_new Ordinary 1 (1, 1)) (PPOn 10 true) = Some i) /\
  pp_defined (PPOn (1 / 2) true) /\
  vz (closing_vector index (beam_new Ordinary 0 (1 / 10) 2 (1, 1)) (pump_new Ordinary 1 (1, 1)) (PPOn (1 / 2) true)) < 0 /\
  (exists i, optimum_idler index Type2_e_eo true (beam_new Ordinary 0 (1 / 10) 2 (1, 1)) (pump_new Ordinary 1 (1, 1)) (PPOn (1 / 2) true) = Some i).
Proof.
  intros index.
  assert (Hth : - (PI / 2) < 1 / 10 < PI / 2) by (pose proof PI_RGT_0; pose proof PI2_3_2; unfold PI2 in *; lra).
  pose proof (Kq_pos (1 / 10) 2 ltac:(lra) (range_pi _ Hth)) as HK.
  pose proof (COS_bound (1 / 10)) as Hc. pose proof (cos_pos_of_range _ Hth) as Hcp.
  assert (H10 : pp_defined (PPOn 10 true)) by (cbn; lra). assert (H12 : pp_defined (PPOn (1 / 2) true)) by (cbn; lra).
  split; [split; assumption|]. split; [|split; [|split; [exact H12 | split]]].
  - change (0 < vz (closing_vector index (sigb Ordinary 0 (1 / 10) 2 (1, 1)) (pumpb Ordinary 1 (1, 1)) (PPOn 10 true))).
    rewrite (closing_z index Ordinary Ordinary 0 (1 / 10) 2 1 (1, 1) (1, 1) (PPOn 10 true) ltac:(lra) ltac:(lra) H10).
    apply Rmult_lt_0_compat; [exact HK|].
    unfold w_z, n_p, n_s, kpp, refractive_index, beam_refractive_index, index. rewrite pp_k_pp_eq. unfold sign_val.
    replace (2 / (1 * 10)) with (1 / 5) by field. lra.
  - eexists. apply (optimum_idler_some index Type2_e_eo Ordinary Ordinary 0 (1 / 10) 2 1 (1, 1) (1, 1) (PPOn 10 true)); lra.
  - change (vz (closing_vector index (sigb Ordinary 0 (1 / 10) 2 (1, 1)) (pumpb Ordinary 1 (1, 1)) (PPOn (1 / 2) true)) < 0).
    rewrite (closing_z index Ordinary Ordinary 0 (1 / 10) 2 1 (1, 1) (1, 1) (PPOn (1 / 2) true) ltac:(lra) ltac:(lra) H12).
    assert (w_z index Ordinary Ordinary 0 (1 / 10) 2 1 (1, 1) (1, 1) (PPOn (1 / 2) true) < 0).
    { unfold w_z, n_p, n_s, kpp, refractive_index, beam_refractive_index, index. rewrite pp_k_pp_eq. unfold sign_val.
      replace (2 / (1 * (1 / 2))) with 4 by field. lra. }
    nra.
  - eexists. apply (optimum_idler_some index Type2_e_eo Ordinary Ordinary 0 (1 / 10) 2 1 (1, 1) (1, 1) (PPOn (1 / 2) true)); lra.
Qed.
