(* Non-vacuity witnesses for the ratio theorems over the generated HOM / Schmidt definitions. *)
From Coq Require Import Reals Bool Lra List.
From SpdVerif Require Import Base.Rx Model.SpectrumSetup Gen.Spectrum Model.Spectrum Proofs.C07_envelope Proofs.C07_defined Proofs.C07_examples.
From SpdVerif Require Import Model.FinSum Model.Hom Proofs.Cx_lemmas Proofs.C07_ratios.
Local Open Scope R_scope.

Definition example_grid : grid R := mkGrid 1 1 1.2e15 1.2e15 1.2e15 1.2e15.

Lemma example_norm_on_support : norm_nonneg_on_support example_setup.
Proof. apply on_support_norm_nonneg; [apply (proj1 example_physical)|apply example_indices_everywhere]. Qed.

Lemma example_hom_norm : jsi_norm ROps (grid_len example_grid) (tabulate (jsa_fun example_setup) example_grid) <> 0.
Proof.
  assert (Ews : grid_ws ROps example_grid 0 = 1.2e15).
  { unfold grid_ws, axis_value, lerp, example_grid. cbn [g_x0 g_x1 g_cols get_2d_indices fst Nat.modulo Nat.ltb Nat.leb oadd omul osub o1 o0 ROps]. cbn. lra. }
  assert (Ewi : grid_wi ROps example_grid 0 = 1.2e15).
  { unfold grid_wi, axis_value, lerp, example_grid. cbn [g_y0 g_y1 g_rows g_cols get_2d_indices snd Nat.div Nat.ltb Nat.leb oadd omul osub o1 o0 ROps]. cbn. lra. }
  assert (EL : grid_len example_grid = 1%nat) by reflexivity. rewrite EL. unfold jsi_norm. cbn [gsum]. unfold tabulate. rewrite Ews, Ewi.
  destruct example_physical as [Hph Hidx]. destruct example_product_hyp as [Hi Ht].
  destruct (normalization_defined_pos 1.2e15 1.2e15 example_setup Hph) as (_ & Hn & _); try lra; try exact Hidx.
  destruct (jsa_raw_product _ _ _ Hi Ht) as [Hraw _].
  set (a := pump_spectral_amplitude (1.2e15 + 1.2e15) example_setup) in *.
  assert (Ha : 0 < a) by (unfold a, pump_spectral_amplitude; apply exp_pos).
  unfold jsa_fun, spectrum_jsa. rewrite Hraw. cbn [fst snd].
  change (pm_re example_setup 1.2e15 1.2e15) with 1. change (pm_im example_setup 1.2e15 1.2e15) with 0.
  destruct (Req_EM_T (a * 1) 0) as [E|_]; [lra|]. cbn [andb].
  destruct (bool_dec false true) as [F|_]; [discriminate F|].
  assert (Hs : 0 < sqrt (jsi_normalization 1.2e15 1.2e15 example_setup / 1)) by (apply sqrt_lt_R0; unfold Rdiv; lra).
  cx_unfold. set (q := sqrt _) in *. intros E0.
  assert (0 < q * (a * 1) * (q * (a * 1))) by (apply Rmult_lt_0_compat; apply Rmult_lt_0_compat; lra).
  assert (0 <= q * (a * 0) * (q * (a * 0))) by (replace (q * (a * 0) * (q * (a * 0))) with 0 by ring; lra).
  cbn [fst snd] in E0. lra.
Qed.
