(* C11 — the function translated from src/math/schmidt.rs on this run (Gen/SchmidtSrc.v) is the hand-written model. *)
From Coq Require Import Reals NArith Bool Lia String.
From SpdVerif Require Import Model.FinSum Model.Hom Model.Schmidt Gen.SchmidtSrc Proofs.C11_len Proofs.C11_trace Proofs.C11_svd.
Local Open Scope R_scope.

Lemma src_accepted_eq len : src_accepted len = accepted_len len.
Proof. unfold src_accepted, src_dim, accepted_len. apply negb_involutive. Qed.

Lemma src_result_eq n sv : src_result n sv = schmidt_of_sv n sv.
Proof. unfold src_result, src_kinv, schmidt_of_sv, sv_norm_squared, sv_kinv. cbv zeta. rewrite Rplus_0_l. reflexivity. Qed.

Lemma src_matrix_eq n a : src_matrix n (fun k => src_mag (a k)) = mag_matrix n a.
Proof. reflexivity. Qed.

Theorem src_schmidt_number_eq svd len a : src_schmidt_number svd len a = schmidt_number svd len a.
Proof.
  unfold src_schmidt_number, schmidt_number. rewrite src_accepted_eq.
  destruct (accepted_len (N.of_nat len)); [|reflexivity].
  unfold src_dim, side_of_len. cbv zeta. rewrite src_matrix_eq.
  destruct (svd _ _) as [sv|]; [|reflexivity].
  replace (src_kinv (N.to_nat (N.sqrt (N.of_nat len))) sv) with (sv_kinv (N.to_nat (N.sqrt (N.of_nat len))) sv)
    by (unfold src_kinv, sv_kinv; rewrite Rplus_0_l; reflexivity).
  rewrite src_result_eq. reflexivity.
Qed.

Lemma src_svd_args_pinned : src_svd_args = (false, false, "f64::EPSILON"%string, 10000%N).
Proof. reflexivity. Qed.

Theorem src_code_path :
  forall svd : nat -> (nat -> nat -> R) -> option (nat -> R),
  (forall n M sv, svd n M = Some sv -> is_svd n M sv) ->
  forall (len : nat) (a : nat -> cx R),
    match src_schmidt_number svd len a with
    | ErrNotSquare => forall d : nat, len <> (d * d)%nat
    | ErrSvd => exists d : nat, len = (d * d)%nat
    | OkNaN => exists d : nat, len = (d * d)%nat /\ forall i j, (i < d)%nat -> (j < d)%nat -> mag_matrix d a i j = 0
    | OkK k => exists d : nat, len = (d * d)%nat /\ trG2 ROps d (mag_matrix d a) <> 0 /\ k = schmidt_K ROps d (mag_matrix d a)
    end.
Proof.
  intros svd H len a. rewrite src_schmidt_number_eq.
  pose proof (schmidt_number_spec svd H len a) as S.
  destruct (schmidt_number svd len a); [exact S|exact (proj1 S)|exact S|exact S].
Qed.

Theorem src_setup_schmidt_number_eq svd J g : src_setup_schmidt_number svd J g = setup_schmidt_number svd J g.
Proof. apply src_schmidt_number_eq. Qed.

(* on a square grid of side n the setup-level result is the trace form of the tabulated amplitudes *)
Theorem setup_schmidt_number_square :
  forall svd : nat -> (nat -> nat -> R) -> option (nat -> R),
  (forall n M sv, svd n M = Some sv -> is_svd n M sv) ->
  forall J g n, g_cols g = n -> g_rows g = n ->
    match setup_schmidt_number svd J g with
    | ErrNotSquare => False
    | ErrSvd => svd n (mag_matrix n (tabulate J g)) = None
    | OkNaN => forall i j, (i < n)%nat -> (j < n)%nat -> mag_matrix n (tabulate J g) i j = 0
    | OkK k => trG2 ROps n (mag_matrix n (tabulate J g)) <> 0 /\ k = schmidt_K ROps n (mag_matrix n (tabulate J g))
    end.
Proof.
  intros svd H J g n Hc Hr. unfold setup_schmidt_number.
  assert (HN : grid_len g = (n * n)%nat) by (unfold grid_len; rewrite Hc, Hr; reflexivity).
  rewrite HN. pose proof (schmidt_number_spec svd H (n * n) (tabulate J g)) as S.
  destruct (schmidt_number svd (n * n) (tabulate J g)).
  - exact (S n eq_refl).
  - destruct S as [_ S]. rewrite side_of_len_square in S. exact S.
  - destruct S as (d & Hd & Z). assert (d = n) by nia. subst. exact Z.
  - destruct S as (d & Hd & NZ & ->). assert (d = n) by nia. subst. split; [exact NZ|reflexivity].
Qed.

Theorem src_setup_level :
  forall svd : nat -> (nat -> nat -> R) -> option (nat -> R),
  (forall n M sv, svd n M = Some sv -> is_svd n M sv) ->
  forall J g n, g_cols g = n -> g_rows g = n ->
    src_setup_schmidt_number svd J g = schmidt_number svd (grid_len g) (tabulate J g) /\
    match src_setup_schmidt_number svd J g with
    | ErrNotSquare => False
    | ErrSvd => svd n (mag_matrix n (tabulate J g)) = None
    | OkNaN => forall i j, (i < n)%nat -> (j < n)%nat -> mag_matrix n (tabulate J g) i j = 0
    | OkK k => trG2 ROps n (mag_matrix n (tabulate J g)) <> 0 /\ k = schmidt_K ROps n (mag_matrix n (tabulate J g))
    end.
Proof.
  intros svd H J g n Hc Hr. split.
  - apply src_setup_schmidt_number_eq.
  - rewrite src_setup_schmidt_number_eq. apply (setup_schmidt_number_square svd H J g n Hc Hr).
Qed.
