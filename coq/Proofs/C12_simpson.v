(* C12 — composite Simpson: the translated `simpson` is the rule [simpson_rule]; the rule is exact on cubics for every even
   number of divisions >= 2 and every interval; reversing the interval negates it for every integrand. *)
From Coq Require Import Reals QArith ZArith List Bool Lra Lia.
From Coquelicot Require Import Coquelicot.
From SpdVerif Require Import Base.NumOps Gen.Integration Model.Quadrature Proofs.C12_base.
Import ListNotations.
Local Open Scope R_scope.

(* ------------------------------------------------------------------ weights *)
Definition wR (i n : Z) : R := get_simpson_weight Rops i n.
Definition wbase (i : Z) : R := if Z.odd i then 4 else 2.

Lemma wR_val : forall i n, wR i n = if ((i =? 0) || (i =? n))%Z%bool then 1 else wbase i.
Proof. intros i n. unfold wR, get_simpson_weight, wbase. cbn [s_of_Z Rops]. reflexivity. Qed.

Lemma wR_decomp : forall i n, (0 < n)%Z -> Z.even n = true ->
  wR i n = wbase i - (if (i =? 0)%Z then 1 else 0) - (if (i =? n)%Z then 1 else 0).
Proof.
  intros i n Hn He. rewrite wR_val.
  destruct (i =? 0)%Z eqn:E0; destruct (i =? n)%Z eqn:En; cbn [orb].
  - apply Z.eqb_eq in E0, En. lia.
  - apply Z.eqb_eq in E0. subst i. unfold wbase. cbn. lra.
  - apply Z.eqb_eq in En. subst i. unfold wbase. rewrite <- Z.negb_even, He. cbn. lra.
  - lra.
Qed.

Lemma wR_sym : forall i n, Z.even n = true -> wR (n - i) n = wR i n.
Proof.
  intros i n He. rewrite !wR_val.
  replace ((n - i =? 0)%Z) with ((i =? n)%Z) by (destruct (Z.eqb_spec i n), (Z.eqb_spec (n - i) 0); lia).
  replace ((n - i =? n)%Z) with ((i =? 0)%Z) by (destruct (Z.eqb_spec i 0), (Z.eqb_spec (n - i) n); lia).
  rewrite orb_comm. destruct ((i =? 0) || (i =? n))%Z%bool; [reflexivity|].
  unfold wbase. rewrite Z.odd_sub. rewrite <- (Z.negb_even n), He. cbn. destruct (Z.odd i); reflexivity.
Qed.

Lemma wR_pos : forall i n, 0 < wR i n.
Proof. intros i n. rewrite wR_val. unfold wbase. destruct ((i =? 0) || (i =? n))%Z%bool; [lra|]. destruct (Z.odd i); lra. Qed.

(* ------------------------------------------------------------------ the weighted sum as a sum of panels *)
Definition ssum (g : Z -> R) (n : Z) : R := rsum (map (fun i => wR i n * g i) (zrange_incl 0 n)).
Definition panel (g : Z -> R) (j : Z) : R := g (2 * j)%Z + 4 * g (2 * j + 1)%Z + g (2 * j + 2)%Z.

Lemma ssum_decomp : forall g n, (0 < n)%Z -> Z.even n = true ->
  ssum g n = rsum (map (fun i => wbase i * g i) (zrange_incl 0 n)) - g 0%Z - g n.
Proof.
  intros g n Hn He. unfold ssum.
  rewrite (rsum_ext _ (fun i => (wbase i * g i - (if (i =? 0)%Z then g i else 0)) - (if (i =? n)%Z then g i else 0))).
  2:{ intros i _. rewrite (wR_decomp i n Hn He). destruct (i =? 0)%Z; destruct (i =? n)%Z; lra. }
  rewrite rsum_minus, rsum_minus. unfold zrange_incl. rewrite !rsum_indicator.
  replace ((0 <=? 0)%Z && (0 <? 0 + Z.of_nat (Z.to_nat (n - 0 + 1)))%Z)%bool with true.
  2:{ symmetry. apply andb_true_iff. split; [apply Z.leb_le | apply Z.ltb_lt]; lia. }
  replace ((0 <=? n)%Z && (n <? 0 + Z.of_nat (Z.to_nat (n - 0 + 1)))%Z)%bool with true.
  2:{ symmetry. apply andb_true_iff. split; [apply Z.leb_le | apply Z.ltb_lt]; lia. }
  reflexivity.
Qed.

Lemma wbase_even : forall m : nat, wbase (2 * Z.of_nat m) = 2.
Proof. intros m. unfold wbase. rewrite Z.odd_mul. reflexivity. Qed.
Lemma wbase_odd : forall m : nat, wbase (2 * Z.of_nat m + 1) = 4.
Proof. intros m. unfold wbase. rewrite Z.add_comm, Z.odd_add_mul_2. reflexivity. Qed.

Lemma base_sum_panels : forall g (m : nat),
  rsum (map (fun i => wbase i * g i) (zseq 0 (2 * m + 1))) - g 0%Z - g (2 * Z.of_nat m)%Z =
  rsum (map (panel g) (zseq 0 m)).
Proof.
  intros g; induction m as [|m IH].
  - cbn [Nat.mul Nat.add zseq map rsum Z.of_nat]. unfold wbase. cbn. lra.
  - replace (2 * S m + 1)%nat with ((2 * m + 1) + 2)%nat by lia.
    rewrite zseq_app, map_app, rsum_app. rewrite (zseq_snoc m 0), (map_app (panel g)), rsum_app.
    rewrite <- IH. cbn [zseq map rsum]. unfold panel.
    replace (0 + Z.of_nat (2 * m + 1))%Z with (2 * Z.of_nat m + 1)%Z by lia.
    replace (2 * Z.of_nat m + 1 + 1)%Z with (2 * Z.of_nat (S m))%Z by lia.
    replace (0 + Z.of_nat m)%Z with (Z.of_nat m) by lia.
    replace (2 * Z.of_nat m + 2)%Z with (2 * Z.of_nat (S m))%Z by lia.
    rewrite wbase_odd, wbase_even. lra.
Qed.

Lemma ssum_panels : forall g (m : nat), (0 < m)%nat ->
  ssum g (2 * Z.of_nat m) = rsum (map (panel g) (zseq 0 m)).
Proof.
  intros g m Hm. rewrite ssum_decomp; [| lia | rewrite Z.even_mul; reflexivity].
  rewrite <- base_sum_panels. unfold zrange_incl.
  replace (Z.to_nat (2 * Z.of_nat m - 0 + 1)) with (2 * m + 1)%nat by lia. reflexivity.
Qed.

Lemma rsum_telescope : forall (F : Z -> R) (m : nat),
  rsum (map (fun j => F (j + 1)%Z - F j) (zseq 0 m)) = F (Z.of_nat m) - F 0%Z.
Proof.
  intros F; induction m as [|m IH].
  - cbn. lra.
  - rewrite zseq_snoc, map_app, rsum_app, IH. cbn [map rsum].
    replace (0 + Z.of_nat m + 1)%Z with (Z.of_nat (S m)) by lia.
    replace (0 + Z.of_nat m)%Z with (Z.of_nat m) by lia. lra.
Qed.

(* ------------------------------------------------------------------ one panel is exact on cubics *)
Lemma panel_exact_cubic : forall cs x h, (length cs <= 4)%nat ->
  h / 3 * (peval cs x + 4 * peval cs (x + h) + peval cs (x + 2 * h)) = peval (prim cs) (x + 2 * h) - peval (prim cs) x.
Proof.
  intros cs x h Hl.
  destruct cs as [|c0 [|c1 [|c2 [|c3 [|c4 cs]]]]]; cbn [length] in Hl; try lia;
  unfold prim; cbn [prim_from peval Z.add Pos.add Pos.succ]; field.
Qed.

(* real rule application in terms of [ssum] *)
Lemma rapply_simpson_rule_n : forall (a b : R) n (f : R -> R),
  rapply (simpson_rule_n Rops a b n) f =
  (b - a) / IZR n / 3 * ssum (fun i => f (a + IZR i * ((b - a) / IZR n))) n.
Proof.
  intros a b n f. rewrite fold_rapply. unfold simpson_rule_n, ssum. cbv zeta.
  rewrite map_map. cbn [fst snd sadd smul sdiv ssub s_of_Z Rops].
  rewrite rsum_scal. apply rsum_ext. intros i _. unfold wR. ring.
Qed.

Theorem simpson_rule_n_exact_real : forall n (a b : R) cs,
  (2 <= n)%Z -> Z.even n = true -> (length cs <= 4)%nat ->
  rapply (simpson_rule_n Rops a b n) (peval cs) = pint cs a b.
Proof.
  intros n a b cs Hn He Hl.
  destruct (Z.even_spec n) as [Hex _]. destruct (Hex He) as [m' Hm'].
  set (m := Z.to_nat m'). assert (Hm : n = (2 * Z.of_nat m)%Z) by (unfold m; lia).
  assert (Hmpos : (0 < m)%nat) by lia.
  rewrite rapply_simpson_rule_n.
  set (h := (b - a) / IZR n).
  assert (Hb : a + IZR n * h = b) by (unfold h; field; apply not_0_IZR; lia).
  clearbody h m. clear Hm' Hex. subst n.
  rewrite ssum_panels by exact Hmpos.
  rewrite rsum_scal.
  rewrite (rsum_ext _ (fun j => peval (prim cs) (a + IZR (2 * (j + 1)) * h) - peval (prim cs) (a + IZR (2 * j) * h))).
  2:{ intros j _. unfold panel.
      replace (a + IZR (2 * (j + 1)) * h) with ((a + IZR (2 * j) * h) + 2 * h) by (rewrite !mult_IZR, plus_IZR; ring).
      replace (a + IZR (2 * j + 1) * h) with ((a + IZR (2 * j) * h) + h) by (rewrite plus_IZR; ring).
      replace (a + IZR (2 * j + 2) * h) with ((a + IZR (2 * j) * h) + 2 * h) by (rewrite plus_IZR; ring).
      apply panel_exact_cubic. exact Hl. }
  rewrite (rsum_telescope (fun j => peval (prim cs) (a + IZR (2 * j) * h))).
  unfold pint. rewrite Hb. change (2 * 0)%Z with 0%Z.
  replace (a + 0 * h) with a by ring. reflexivity.
Qed.

Lemma rapply_ext : forall (r : rule Rops) f g, (forall x, f x = g x) -> rapply r f = rapply r g.
Proof. intros r f g H. rewrite !fold_rapply. apply rsum_ext. intros nw _. rewrite H. reflexivity. Qed.

(* complex coefficients *)
Theorem simpson_rule_n_exact : forall n (a b : R) cs,
  (2 <= n)%Z -> Z.even n = true -> (length cs <= 4)%nat ->
  apply_rule Rops (simpson_rule_n Rops a b n) (cpeval Rops cs) = cpint Rops cs a b.
Proof.
  intros n a b cs Hn He Hl. rewrite apply_rule_R. apply pair_eq; cbn [fst snd].
  - rewrite cpint_fst. rewrite (rapply_ext _ _ (peval (map fst cs))) by (intros x; apply cpeval_fst).
    apply simpson_rule_n_exact_real; try assumption. rewrite map_length. exact Hl.
  - rewrite cpint_snd. rewrite (rapply_ext _ _ (peval (map snd cs))) by (intros x; apply cpeval_snd).
    apply simpson_rule_n_exact_real; try assumption. rewrite map_length. exact Hl.
Qed.

(* ------------------------------------------------------------------ the translated function is the rule *)
Theorem simpson_is_rule : forall (f : R -> C) (a b : R) divs,
  simpson Rops f a b divs = apply_rule Rops (simpson_rule Rops a b divs) f.
Proof.
  intros. unfold simpson, apply_rule, simpson_rule, simpson_rule_n, simpson_norm, simpson_norm_divs. cbv zeta.
  rewrite !vsum_R. rewrite !map_map. cbn [vscale Rops fst snd sadd smul sdiv ssub s_of_Z].
  rewrite !rsum_scal. f_equal; apply rsum_ext; intros i _; ring.
Qed.

(* ------------------------------------------------------------------ accepted parameters: tactics that do not depend on the
   particular normalisation / assert constants in the source (they survive the repairs proposed for F5a/F5b) *)
Ltac bool_facts :=
  repeat match goal with
  | H : (_ && _)%bool = true |- _ => apply andb_true_iff in H; destruct H
  | H : (_ <=? _)%Z = true |- _ => apply Z.leb_le in H
  | H : (_ <? _)%Z = true |- _ => apply Z.ltb_lt in H
  | H : Z.even _ = true |- _ => rewrite Zeven_mod in H; apply Zeq_is_eq_bool in H
  | H : true = true |- _ => clear H
  end.
Ltac bool_goal :=
  repeat match goal with
  | |- (_ && _)%bool = true => apply andb_true_iff; split
  | |- (_ <=? _)%Z = true => apply Z.leb_le
  | |- (_ <? _)%Z = true => apply Z.ltb_lt
  | |- Z.even _ = true => rewrite Zeven_mod; apply Zeq_is_eq_bool
  | |- true = true => reflexivity
  end.
Ltac zmod_lia := Z.div_mod_to_equations; lia.

Lemma simpson_norm_even : forall d, Z.even (simpson_norm d) = true.
Proof. intros d. unfold simpson_norm, simpson_norm_divs. cbv zeta. bool_goal. zmod_lia. Qed.

Lemma simpson_accepts_norm : forall d, simpson_accepts d = true -> (2 <= simpson_norm d)%Z.
Proof. intros d H. unfold simpson_accepts, simpson_norm, simpson_norm_divs in *. cbv zeta in *. bool_facts. zmod_lia. Qed.

(* every divs >= 5 is accepted *)
Lemma simpson_accepts_from5 : forall d, (5 <= d)%Z -> simpson_accepts d = true.
Proof. intros d H. unfold simpson_accepts. cbv zeta. bool_goal; zmod_lia. Qed.

Theorem simpson_exact : forall divs (a b : R) cs,
  simpson_accepts divs = true -> (length cs <= 4)%nat ->
  simpson Rops (cpeval Rops cs) a b divs = cpint Rops cs a b.
Proof.
  intros divs a b cs Ha Hl. rewrite simpson_is_rule. unfold simpson_rule.
  apply simpson_rule_n_exact; [apply simpson_accepts_norm; exact Ha | apply simpson_norm_even | exact Hl].
Qed.

(* ------------------------------------------------------------------ reversal *)
Theorem simpson_rule_n_reverse_real : forall n (a b : R) (f : R -> R), (0 < n)%Z -> Z.even n = true ->
  rapply (simpson_rule_n Rops b a n) f = - rapply (simpson_rule_n Rops a b n) f.
Proof.
  intros n a b f Hn He. rewrite !rapply_simpson_rule_n. unfold ssum, zrange_incl.
  set (N := Z.to_nat (n - 0 + 1)).
  set (h := (b - a) / IZR n).
  assert (Hh : (a - b) / IZR n = - h) by (unfold h; field; apply not_0_IZR; lia).
  rewrite Hh.
  rewrite <- (rsum_rev (map _ (zseq 0 N))) at 1. rewrite <- map_rev, zseq_rev, map_map.
  replace (- h / 3 * rsum (map (fun x => wR (2 * 0 + Z.of_nat N - 1 - x) n * f (b + IZR (2 * 0 + Z.of_nat N - 1 - x) * - h)) (zseq 0 N)))
    with (- (h / 3 * rsum (map (fun x => wR (2 * 0 + Z.of_nat N - 1 - x) n * f (b + IZR (2 * 0 + Z.of_nat N - 1 - x) * - h)) (zseq 0 N)))) by lra.
  f_equal. f_equal. apply rsum_ext. intros i _.
  replace (2 * 0 + Z.of_nat N - 1 - i)%Z with (n - i)%Z by (unfold N; lia).
  rewrite wR_sym by exact He. f_equal. f_equal.
  rewrite minus_IZR. unfold h. field. apply not_0_IZR. lia.
Qed.

Theorem simpson_reverse : forall (f : R -> C) (a b : R) divs, simpson_accepts divs = true ->
  simpson Rops f b a divs = Copp (simpson Rops f a b divs).
Proof.
  intros f a b divs Ha. rewrite !simpson_is_rule, !apply_rule_R. unfold simpson_rule.
  apply simpson_accepts_norm in Ha.
  unfold Copp. cbn [fst snd]. f_equal; apply simpson_rule_n_reverse_real; try lia; apply simpson_norm_even.
Qed.
