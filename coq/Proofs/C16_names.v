(* C16, names part: every phase-matching type / polarization parses from its printed form and from each documented
   spelling; the polarization tables are what the type's name states; inverse swaps signal and idler.
   All statements are about the definitions GENERATED from src/spdc/pm_type.rs and src/crystal/polarization_type.rs
   (Gen/ConfigTables.v) and the regex engine of Model/Regex.v interpreting the five generated regex literals. *)
From Coq Require Import Ascii String List Bool.
From SpdVerif Require Import Spec.ConfigSpec Gen.ConfigTables Model.Regex Model.Names Proofs.Regex.
Import ListNotations.
Local Open Scope string_scope.

Lemma pm_regexes_ok : pm_regexes_compile = true.
Proof. vm_compute. reflexivity. Qed.

Lemma all_pm_types_complete t : In t all_pm_types.
Proof. destruct t; simpl; tauto. Qed.

Lemma pm_parses_printed t : pm_from_str (pm_display t) = Some t.
Proof. destruct t; vm_compute; reflexivity. Qed.

Lemma pm_parses_to_str t : pm_from_str (pm_to_str t) = Some t.
Proof. destruct t; vm_compute; reflexivity. Qed.

Lemma pm_parses_documented t s : In s (documented_spellings t) -> pm_from_str s = Some t.
Proof.
  destruct t; cbn [documented_spellings pm_name_of pn_digit pn_pump pn_signal pn_idler pol_letter spelling_forms In];
  intros H; repeat (destruct H as [<- | H]; [vm_compute; reflexivity |]); contradiction.
Qed.

Lemma pm_doc_examples s t : In (s, t) doc_examples -> pm_from_str s = Some t.
Proof.
  cbn [doc_examples In]. intros H.
  repeat (destruct H as [H | H]; [inversion H; subst; vm_compute; reflexivity |]); contradiction.
Qed.

(* the printed form is exactly the canonical name assembled from what the name states *)
Lemma pm_printed_canonical t : pm_display t = pm_canonical t /\ pm_to_str t = pm_canonical t.
Proof. destruct t; vm_compute; split; reflexivity. Qed.

Lemma pm_printed_injective t u : pm_display t = pm_display u -> t = u.
Proof. destruct t, u; cbn; intros H; try reflexivity; discriminate H. Qed.

(* the three polarization tables give what the name states *)
Lemma pm_polarizations_match_name t :
  pump_polarization t = pn_pump (pm_name_of t) /\
  signal_polarization t = pn_signal (pm_name_of t) /\
  idler_polarization t = pn_idler (pm_name_of t).
Proof. destruct t; cbn; repeat split; reflexivity. Qed.

(* ... and the type number means: 0 = all three equal, 1 = signal and idler equal and different from the pump,
   2 = signal and idler differ *)
Lemma pm_type_number t :
  match pn_digit (pm_name_of t) with
  | "0" => signal_polarization t = pump_polarization t /\ idler_polarization t = pump_polarization t
  | "1" => signal_polarization t = idler_polarization t /\ signal_polarization t <> pump_polarization t
  | "2" => signal_polarization t <> idler_polarization t
  | _ => False
  end.
Proof. destruct t; cbn; repeat split; try reflexivity; discriminate. Qed.

Lemma pm_inverse_swaps t :
  signal_polarization (pm_inverse t) = idler_polarization t /\
  idler_polarization (pm_inverse t) = signal_polarization t /\
  pump_polarization (pm_inverse t) = pump_polarization t.
Proof. destruct t; cbn; repeat split; reflexivity. Qed.

Lemma pm_inverse_involutive t : pm_inverse (pm_inverse t) = t.
Proof. destruct t; reflexivity. Qed.

(* the inverse is the ONLY type with swapped signal / idler polarizations and the same pump *)
Lemma pm_inverse_unique t u :
  signal_polarization u = idler_polarization t -> idler_polarization u = signal_polarization t ->
  pump_polarization u = pump_polarization t -> pn_digit (pm_name_of u) = pn_digit (pm_name_of t) -> u = pm_inverse t.
Proof. destruct t, u; cbn; intros; try reflexivity; discriminate. Qed.

(* ---- polarizations *)
Lemma pol_parses_printed p : pol_from_str (pol_display p) = Some p.
Proof. destruct p; vm_compute; reflexivity. Qed.

Lemma pol_display_printed p : pol_display p = pol_printed p.
Proof. destruct p; reflexivity. Qed.

Lemma pol_parses_documented p s : In s (pol_spellings p) -> pol_from_str s = Some p.
Proof.
  destruct p; cbn [pol_spellings In]; intros H;
  repeat (destruct H as [<- | H]; [vm_compute; reflexivity |]); contradiction.
Qed.

(* any letter case: whatever lower-cases to a table key parses to that key's value *)
Lemma pol_parses_any_case s p :
  In (lower_string s, p) pol_from_str_table -> pol_from_str s = Some p.
Proof.
  unfold pol_from_str. change pol_from_str_lowercases with true. cbv iota.
  generalize (lower_string s). intros k. cbn [pol_from_str_table In]. intros H.
  repeat (destruct H as [H | H]; [inversion H; subst; vm_compute; reflexivity |]); contradiction.
Qed.

Lemma pol_rejects_others s : ~ In (lower_string s) (map fst pol_from_str_table) -> pol_from_str s = None.
Proof.
  unfold pol_from_str. change pol_from_str_lowercases with true. cbv iota.
  generalize (lower_string s). intros k. cbn [pol_from_str_table map fst In lookup]. intros H.
  repeat match goal with |- context [String.eqb ?a k] =>
    destruct (String.eqb_spec a k); [exfalso; apply H; subst; tauto |] end.
  reflexivity.
Qed.

(* ---- soundness of the parse, for EVERY string: whatever parses to a type ends with that type's signal and idler
   letters (any letter case).  Read off the compiled regular expressions through the verified matcher. *)
Definition letter_of (p : polarization) : ascii := match p with Ordinary => "o" | Extraordinary => "e" end%char.

Definition ends2 (t : pm_type) (s : list ascii) : Prop :=
  exists pre x y, s = (pre ++ [x; y])%list /\ lower x = letter_of (signal_polarization t) /\ lower y = letter_of (idler_polarization t).

Lemma ends2_app t s1 s2 : ends2 t s2 -> ends2 t (s1 ++ s2)%list.
Proof. intros (pre & x & y & -> & Hx & Hy). exists (s1 ++ pre)%list, x, y. rewrite app_assoc. auto. Qed.

Lemma chr_ci_lower x c : cs_match true (CChar x) c = true -> lower c = lower x.
Proof. cbn [cs_match]. intros H. apply Ascii.eqb_eq in H. auto. Qed.

(* a regex of the shape  Eps . ((A1 A2 A3 A4 ((x) ((y) Eps))) . Eps)  only matches strings ending in x y *)
Lemma tail2_inv a1 a2 a3 a4 x y w :
  lang true (Cat Eps (Cat (Cat a1 (Cat a2 (Cat a3 (Cat a4 (Cat (Cat (Chr (CChar x)) Eps) (Cat (Cat (Chr (CChar y)) Eps) Eps)))))) Eps)) w ->
  exists pre cx cy, w = (pre ++ [cx; cy])%list /\ lower cx = lower x /\ lower cy = lower y.
Proof.
  intros H.
  apply lang_cat_inv in H. destruct H as (e1 & w1 & -> & He1 & H). apply lang_eps_inv in He1. subst e1. cbn [app].
  apply lang_cat_inv in H. destruct H as (w2 & e2 & -> & H & He2). apply lang_eps_inv in He2. subst e2. rewrite app_nil_r.
  apply lang_cat_inv in H. destruct H as (p1 & w3 & -> & _ & H).
  apply lang_cat_inv in H. destruct H as (p2 & w4 & -> & _ & H).
  apply lang_cat_inv in H. destruct H as (p3 & w5 & -> & _ & H).
  apply lang_cat_inv in H. destruct H as (p4 & w6 & -> & _ & H).
  apply lang_cat_inv in H. destruct H as (wx & w7 & -> & Hx & H).
  apply lang_cat_inv in Hx. destruct Hx as (wx1 & ex & -> & Hx & Hex). apply lang_eps_inv in Hex. subst ex.
  apply lang_chr_inv in Hx. destruct Hx as (cx & -> & Hcx).
  apply lang_cat_inv in H. destruct H as (wy & e3 & -> & Hy & He3). apply lang_eps_inv in He3. subst e3.
  apply lang_cat_inv in Hy. destruct Hy as (wy1 & ey & -> & Hy & Hey). apply lang_eps_inv in Hey. subst ey.
  apply lang_chr_inv in Hy. destruct Hy as (cy & -> & Hcy).
  exists (p1 ++ p2 ++ p3 ++ p4)%list, cx, cy. split.
  - cbn [app]. rewrite <- !app_assoc. reflexivity.
  - split; apply chr_ci_lower; assumption.
Qed.

Theorem pm_parse_sound s t : pm_from_str s = Some t ->
  exists pre x y, list_ascii_of_string s = (pre ++ [x; y])%list /\
    lower x = letter_of (signal_polarization t) /\ lower y = letter_of (idler_polarization t).
Proof.
  unfold pm_from_str, first_match. generalize (list_ascii_of_string s). intros w.
  set (tbl := compile_table pm_regex_table). vm_compute in tbl. subst tbl. cbn [first_match_c c_ci c_re].
  repeat match goal with
  | |- (if matches true ?r w then Some ?v else _) = Some t -> _ =>
      let H := fresh "H" in
      destruct (matches true r w) eqn:H;
      [ intros Ht; inversion Ht; subst t; apply matches_correct in H; apply tail2_inv in H;
        destruct H as (pre & cx & cy & -> & Hx & Hy); exists pre, cx, cy; split; [reflexivity | split; assumption]
      | clear H ]
  end.
  discriminate.
Qed.
