(* C16, names part: every phase-matching type / polarization parses from its printed form and from each documented
   spelling; the polarization tables are what the type's name states; inverse swaps signal and idler.
   All statements are about the definitions GENERATED from src/spdc/pm_type.rs and src/crystal/polarization_type.rs
   (Gen/ConfigTables.v) and the regex engine of Model/Regex.v interpreting the five generated regex literals. *)
From Coq Require Import Ascii String List Bool.
From SpdVerif Require Import Spec.ConfigSpec Gen.ConfigTables Model.Regex Model.Names.
Import ListNotations.
Local Open Scope string_scope.

Lemma pm_regexes_ok : pm_regexes_compile = true.
Proof. vm_compute. reflexivity. Qed.

Lemma all_pm_types_complete t : In t all_pm_types.
Proof. destruct t; simpl; tauto. Qed.

Lemma pm_parses_printed t : pm_from_str (pm_display t) = Some t.
Proof. destruct t; vm_compute; reflexivity. Qed.

Lemma pm_parses_to_str t : pm_from_str (pm_to_str t) = Some t.
Proof. destruct t; vm_compute; reflexivity. Qed.

Lemma pm_parses_documented t s : In s (documented_spellings t) -> pm_from_str s = Some t.
Proof.
  destruct t; cbn [documented_spellings pm_name_of pn_digit pn_pump pn_signal pn_idler pol_letter spelling_forms In];
  intros H; repeat (destruct H as [<- | H]; [vm_compute; reflexivity |]); contradiction.
Qed.

Lemma pm_doc_examples s t : In (s, t) doc_examples -> pm_from_str s = Some t.
Proof.
  cbn [doc_examples In]. intros H.
  repeat (destruct H as [H | H]; [inversion H; subst; vm_compute; reflexivity |]); contradiction.
Qed.

(* the printed form is exactly the canonical name assembled from what the name states *)
Lemma pm_printed_canonical t : pm_display t = pm_canonical t /\ pm_to_str t = pm_canonical t.
Proof. destruct t; vm_compute; split; reflexivity. Qed.

Lemma pm_printed_injective t u : pm_display t = pm_display u -> t = u.
Proof. destruct t, u; cbn; intros H; try reflexivity; discriminate H. Qed.

(* the three polarization tables give what the name states *)
Lemma pm_polarizations_match_name t :
  pump_polarization t = pn_pump (pm_name_of t) /\
  signal_polarization t = pn_signal (pm_name_of t) /\
  idler_polarization t = pn_idler (pm_name_of t).
Proof. destruct t; cbn; repeat split; reflexivity. Qed.

(* ... and the type number means: 0 = all three equal, 1 = signal and idler equal and different from the pump,
   2 = signal and idler differ *)
Lemma pm_type_number t :
  match pn_digit (pm_name_of t) with
  | "0" => signal_polarization t = pump_polarization t /\ idler_polarization t = pump_polarization t
  | "1" => signal_polarization t = idler_polarization t /\ signal_polarization t <> pump_polarization t
  | "2" => signal_polarization t <> idler_polarization t
  | _ => False
  end.
Proof. destruct t; cbn; repeat split; try reflexivity; discriminate. Qed.

Lemma pm_inverse_swaps t :
  signal_polarization (pm_inverse t) = idler_polarization t /\
  idler_polarization (pm_inverse t) = signal_polarization t /\
  pump_polarization (pm_inverse t) = pump_polarization t.
Proof. destruct t; cbn; repeat split; reflexivity. Qed.

Lemma pm_inverse_involutive t : pm_inverse (pm_inverse t) = t.
Proof. destruct t; reflexivity. Qed.

(* the inverse is the ONLY type with swapped signal / idler polarizations and the same pump *)
Lemma pm_inverse_unique t u :
  signal_polarization u = idler_polarization t -> idler_polarization u = signal_polarization t ->
  pump_polarization u = pump_polarization t -> pn_digit (pm_name_of u) = pn_digit (pm_name_of t) -> u = pm_inverse t.
Proof. destruct t, u; cbn; intros; try reflexivity; discriminate. Qed.

(* ---- polarizations *)
Lemma pol_parses_printed p : pol_from_str (pol_display p) = Some p.
Proof. destruct p; vm_compute; reflexivity. Qed.

Lemma pol_display_printed p : pol_display p = pol_printed p.
Proof. destruct p; reflexivity. Qed.

Lemma pol_parses_documented p s : In s (pol_spellings p) -> pol_from_str s = Some p.
Proof.
  destruct p; cbn [pol_spellings In]; intros H;
  repeat (destruct H as [<- | H]; [vm_compute; reflexivity |]); contradiction.
Qed.

(* any letter case: whatever lower-cases to a table key parses to that key's value *)
Lemma pol_parses_any_case s p :
  In (lower_string s, p) pol_from_str_table -> pol_from_str s = Some p.
Proof.
  unfold pol_from_str. change pol_from_str_lowercases with true. cbv iota.
  generalize (lower_string s). intros k. cbn [pol_from_str_table In]. intros H.
  repeat (destruct H as [H | H]; [inversion H; subst; vm_compute; reflexivity |]); contradiction.
Qed.

Lemma pol_rejects_others s : ~ In (lower_string s) (map fst pol_from_str_table) -> pol_from_str s = None.
Proof.
  unfold pol_from_str. change pol_from_str_lowercases with true. cbv iota.
  generalize (lower_string s). intros k. cbn [pol_from_str_table map fst In lookup]. intros H.
  repeat match goal with |- context [String.eqb ?a k] =>
    destruct (String.eqb_spec a k); [exfalso; apply H; subst; tauto |] end.
  reflexivity.
Qed.
