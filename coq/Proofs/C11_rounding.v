(* C11 (optional) — a rounding-error bound for the arithmetic schmidt_number performs AFTER the SVD:
     norm_sq = sum_k fl(s_k*s_k),  kinv = sum_k fl(fl(s_k*s_k)*fl(s_k*s_k)),  K^ = fl(fl(norm_sq*norm_sq)/kinv)
   with left-to-right rounded additions, for any rounding operator of relative error eps (no underflow/overflow), instantiated
   with Flocq's binary64 round-to-nearest in the unbounded-exponent format FLX 53 (eps = 2^-53).
   Result: K^/K lies within [(1-g)^2 (1-eps)^2/(1+g), (1+g)^2 (1+eps)^2/(1-g)], g = (1+eps)^(n+3) - 1; for n <= 40 that is within
   1e-13 of 1.  The accuracy of the singular values themselves stays an oracle contract. *)
From Coq Require Import Reals Lra Lia Arith Psatz ZArith.
From Flocq Require Import Core Relative.
From Interval Require Import Tactic.
From SpdVerif Require Import Model.FinSum Model.Schmidt Proofs.FinSum_lemmas.
Local Open Scope R_scope.

Section Rnd.
  Variables (rnd : R -> R) (eps : R).
  Hypothesis Heps : 0 <= eps.
  Hypothesis Hrnd : forall x, Rabs (rnd x - x) <= eps * Rabs x.

  Fixpoint fsum (n : nat) (a : nat -> R) : R :=
    match n with O => 0 | S k => rnd (fsum k a + a k) end.

  Definition U (n : nat) : R := (1 + eps) ^ n.
  Lemma U_ge1 n : 1 <= U n.
  Proof. unfold U. apply pow_R1_Rle. lra. Qed.
  Lemma U_S n : U (S n) = (1 + eps) * U n.
  Proof. reflexivity. Qed.
  Lemma U_mono n m : (n <= m)%nat -> U n <= U m.
  Proof. intros H. unfold U. apply Rle_pow; [lra|exact H]. Qed.

  (* rounded left-to-right summation: absolute error (U n - 1) * sum |a_k| *)
  Lemma fsum_err n a : Rabs (fsum n a - rsum n a) <= (U n - 1) * rsum n (fun k => Rabs (a k)).
  Proof.
    induction n as [|n IH].
    - cbn [fsum]. rewrite !rsum_0. unfold U. rewrite Rminus_diag_eq by reflexivity. rewrite Rabs_R0. simpl. lra.
    - cbn [fsum]. rewrite !rsum_S, U_S.
      set (s := fsum n a) in *. set (S0 := rsum n a) in *. set (A := rsum n (fun k => Rabs (a k))) in *.
      assert (HA : 0 <= A) by (apply rsum_nonneg; intros; apply Rabs_pos).
      pose proof (U_ge1 n) as HU. pose proof (Hrnd (s + a n)) as H1. pose proof (Rabs_pos (a n)) as Han.
      assert (HS : Rabs S0 <= A) by (unfold S0, A; clear; induction n as [|n IH]; [rewrite !rsum_0, Rabs_R0; lra|rewrite !rsum_S; eapply Rle_trans; [apply Rabs_triang|lra]]).
      assert (H2 : Rabs (s + a n) <= U n * A + Rabs (a n)).
      { replace (s + a n) with ((s - S0) + S0 + a n) by ring.
        eapply Rle_trans; [apply Rabs_triang|]. apply Rplus_le_compat_r.
        eapply Rle_trans; [apply Rabs_triang|]. lra. }
      replace (rnd (s + a n) - (S0 + a n)) with ((rnd (s + a n) - (s + a n)) + (s - S0)) by ring.
      eapply Rle_trans; [apply Rabs_triang|].
      assert (H3 : eps * Rabs (s + a n) <= eps * (U n * A + Rabs (a n))) by (apply Rmult_le_compat_l; assumption).
      assert (H4 : eps * Rabs (a n) <= ((1 + eps) * U n - 1) * Rabs (a n)) by (apply Rmult_le_compat_r; [assumption|nra]).
      nra.
  Qed.

  (* non-negative terms: relative error *)
  Lemma fsum_rel n a : (forall k, 0 <= a k) -> (2 - U n) * rsum n a <= fsum n a <= U n * rsum n a.
  Proof.
    intros Ha. pose proof (fsum_err n a) as H.
    rewrite (rsum_ext n (fun k => Rabs (a k)) a) in H by (intros; apply Rabs_pos_eq; apply Ha).
    apply Rabs_le_inv in H. lra.
  Qed.

  Lemma rnd_rel x : 0 <= x -> (1 - eps) * x <= rnd x <= (1 + eps) * x.
  Proof. intros Hx. pose proof (Hrnd x) as H. rewrite (Rabs_pos_eq x Hx) in H. apply Rabs_le_inv in H. lra. Qed.

  Hypothesis Hsmall : eps <= 1 / 2.

  Lemma fsum_nonneg m a : (forall k, 0 <= a k) -> 0 <= fsum m a.
  Proof.
    intros Ha. induction m as [|m IH]; [simpl; lra|]. cbn [fsum].
    assert (Z : 0 <= fsum m a + a m) by (pose proof (Ha m); lra).
    pose proof (rnd_rel _ Z) as [L _]. assert (0 <= (1 - eps) * (fsum m a + a m)) by (apply Rmult_le_pos; lra). lra.
  Qed.

  (* any summation order: a binary tree over the terms (unrolled / pairwise / blocked accumulations are such trees) *)
  Inductive stree : Type := Leaf (k : nat) | Node (l r : stree).
  Fixpoint teval (t : stree) (a : nat -> R) : R :=
    match t with Leaf k => a k | Node l r => teval l a + teval r a end.
  Fixpoint tfl (t : stree) (a : nat -> R) : R :=
    match t with Leaf k => a k | Node l r => rnd (tfl l a + tfl r a) end.
  Fixpoint theight (t : stree) : nat :=
    match t with Leaf _ => O | Node l r => S (Nat.max (theight l) (theight r)) end.

  Lemma teval_abs t a : Rabs (teval t a) <= teval t (fun k => Rabs (a k)).
  Proof. induction t as [k|l IHl r IHr]; cbn [teval]; [lra|]. eapply Rle_trans; [apply Rabs_triang|lra]. Qed.

  Lemma teval_abs_nonneg t a : 0 <= teval t (fun k => Rabs (a k)).
  Proof. induction t as [k|l IHl r IHr]; cbn [teval]; [apply Rabs_pos|lra]. Qed.

  Lemma tfl_err t a : Rabs (tfl t a - teval t a) <= (U (theight t) - 1) * teval t (fun k => Rabs (a k)).
  Proof.
    induction t as [k|l IHl r IHr].
    - cbn [tfl teval theight]. unfold U. rewrite Rminus_diag_eq by reflexivity. rewrite Rabs_R0. simpl. lra.
    - cbn [tfl teval theight]. set (h := Nat.max (theight l) (theight r)).
      set (sl := tfl l a) in *. set (sr := tfl r a) in *. set (Sl := teval l a) in *. set (Sr := teval r a) in *.
      set (Al := teval l (fun k => Rabs (a k))) in *. set (Ar := teval r (fun k => Rabs (a k))) in *.
      pose proof (teval_abs_nonneg l a) as HAl. pose proof (teval_abs_nonneg r a) as HAr. fold Al in HAl. fold Ar in HAr.
      pose proof (U_ge1 h) as HU.
      assert (El : Rabs (sl - Sl) <= (U h - 1) * Al).
      { eapply Rle_trans; [exact IHl|]. apply Rmult_le_compat_r; [exact HAl|]. pose proof (U_mono (theight l) h (Nat.le_max_l _ _)). lra. }
      assert (Er : Rabs (sr - Sr) <= (U h - 1) * Ar).
      { eapply Rle_trans; [exact IHr|]. apply Rmult_le_compat_r; [exact HAr|]. pose proof (U_mono (theight r) h (Nat.le_max_r _ _)). lra. }
      pose proof (teval_abs l a) as Bl. pose proof (teval_abs r a) as Br. fold Sl Al in Bl. fold Sr Ar in Br.
      pose proof (Hrnd (sl + sr)) as H1.
      assert (H2 : Rabs (sl + sr) <= U h * (Al + Ar)).
      { replace (sl + sr) with ((sl - Sl) + (sr - Sr) + (Sl + Sr)) by ring.
        eapply Rle_trans; [apply Rabs_triang|]. eapply Rle_trans; [apply Rplus_le_compat_r; apply Rabs_triang|].
        pose proof (Rabs_triang Sl Sr). lra. }
      replace (rnd (sl + sr) - (Sl + Sr)) with ((rnd (sl + sr) - (sl + sr)) + ((sl - Sl) + (sr - Sr))) by ring.
      eapply Rle_trans; [apply Rabs_triang|]. pose proof (Rabs_triang (sl - Sl) (sr - Sr)).
      assert (H3 : eps * Rabs (sl + sr) <= eps * (U h * (Al + Ar))) by (apply Rmult_le_compat_l; assumption).
      rewrite U_S. lra.
  Qed.

  Lemma tfl_nonneg t a : (forall k, 0 <= a k) -> 0 <= tfl t a.
  Proof.
    intros Ha. induction t as [k|l IHl r IHr]; cbn [tfl]; [apply Ha|].
    assert (Z : 0 <= tfl l a + tfl r a) by lra. pose proof (rnd_rel _ Z) as [L _].
    assert (0 <= (1 - eps) * (tfl l a + tfl r a)) by (apply Rmult_le_pos; lra). lra.
  Qed.

  Lemma low_step n : 2 - U (S n) <= (1 - eps) * (2 - U n).
  Proof. rewrite U_S. pose proof (U_ge1 n). nra. Qed.

  (* ---- the computation after the SVD *)
  Variables (n : nat) (sv : nat -> R).
  Hypothesis Hsv : forall k, 0 <= sv k.
  (* the rounded summation scheme used for the two power sums: anything with the relative accuracy of n rounded additions *)
  Variable sumf : (nat -> R) -> R.
  Hypothesis Hsum_rel : forall a, (forall k, 0 <= a k) -> (2 - U n) * rsum n a <= sumf a <= U n * rsum n a.
  Hypothesis Hsum_nonneg : forall a, (forall k, 0 <= a k) -> 0 <= sumf a.
  Definition t2 (k : nat) : R := rnd (sv k * sv k).
  Definition t4 (k : nat) : R := rnd (t2 k * t2 k).
  Definition Nhat : R := sumf t2.
  Definition Dhat : R := sumf t4.
  Definition Khat : R := rnd (rnd (Nhat * Nhat) / Dhat).
  Let N := sv_norm_squared n sv.
  Let D := sv_kinv n sv.

  Lemma t2_rel k : (1 - eps) * (sv k * sv k) <= t2 k <= (1 + eps) * (sv k * sv k).
  Proof. apply rnd_rel. apply Rmult_le_pos; apply Hsv. Qed.


  Lemma t2_nonneg k : 0 <= t2 k.
  Proof. pose proof (t2_rel k). pose proof (Hsv k). assert (0 <= sv k * sv k) by nra. nra. Qed.

  Lemma t4_rel k : (1 - eps) ^ 3 * sv k ^ 4 <= t4 k <= (1 + eps) ^ 3 * sv k ^ 4.
  Proof.
    pose proof (t2_rel k) as [L Hh]. pose proof (t2_nonneg k) as H0.
    assert (Hq : 0 <= sv k * sv k) by (pose proof (Hsv k); nra).
    pose proof (rnd_rel (t2 k * t2 k) (Rmult_le_pos _ _ H0 H0)) as [L4 H4]. fold (t4 k) in L4, H4.
    assert (Lq : ((1 - eps) * (sv k * sv k)) * ((1 - eps) * (sv k * sv k)) <= t2 k * t2 k) by (apply Rmult_le_compat; nra).
    assert (Hq2 : t2 k * t2 k <= ((1 + eps) * (sv k * sv k)) * ((1 + eps) * (sv k * sv k))) by (apply Rmult_le_compat; nra).
    split.
    - eapply Rle_trans; [|exact L4]. replace ((1 - eps) ^ 3 * sv k ^ 4) with ((1 - eps) * (((1 - eps) * (sv k * sv k)) * ((1 - eps) * (sv k * sv k)))) by ring.
      apply Rmult_le_compat_l; lra.
    - eapply Rle_trans; [exact H4|]. replace ((1 + eps) ^ 3 * sv k ^ 4) with ((1 + eps) * (((1 + eps) * (sv k * sv k)) * ((1 + eps) * (sv k * sv k)))) by ring.
      apply Rmult_le_compat_l; lra.
  Qed.

  Lemma N_nonneg : 0 <= N.
  Proof. unfold N, sv_norm_squared. apply rsum_nonneg; intros; pose proof (Hsv k); nra. Qed.
  Lemma D_nonneg : 0 <= D.
  Proof. unfold D, sv_kinv. apply rsum_nonneg; intros. pose proof (Hsv k). assert (0 <= sv k * sv k) by nra. replace (sv k ^ 4) with ((sv k * sv k) * (sv k * sv k)) by ring. nra. Qed.

  Definition g : R := U (n + 3) - 1.

  Theorem Nhat_rel : (1 - g) * N <= Nhat <= (1 + g) * N.
  Proof.
    pose proof (Hsum_rel t2 t2_nonneg) as [L Hh]. fold Nhat in L, Hh.
    assert (S1 : (1 - eps) * N <= rsum n t2 <= (1 + eps) * N).
    { unfold N, sv_norm_squared. rewrite <- !rsum_scal_l. split; apply rsum_le; intros; apply t2_rel. }
    pose proof N_nonneg as HN. pose proof (U_ge1 n) as HU.
    assert (G1 : (1 + eps) * U n <= U (n + 3)) by (rewrite <- U_S; apply U_mono; lia).
    assert (G2 : 2 - U (n + 3) <= (1 - eps) * (2 - U n)) by (eapply Rle_trans; [|apply low_step]; pose proof (U_mono (S n) (n + 3) ltac:(lia)); lra).
    assert (R0 : 0 <= rsum n t2) by (apply rsum_nonneg; intros; apply t2_nonneg).
    unfold g. split.
    - destruct (Rle_dec 0 (2 - U n)) as [Hp|Hn].
      + assert (A1 : (2 - U (n + 3)) * N <= ((1 - eps) * (2 - U n)) * N) by (apply Rmult_le_compat_r; assumption).
        assert (A2 : (2 - U n) * ((1 - eps) * N) <= (2 - U n) * rsum n t2) by (apply Rmult_le_compat_l; [exact Hp|apply S1]).
        lra.
      + assert (Hneg : 2 - U (n + 3) <= 0).
        { apply Rnot_le_lt in Hn. assert (0 <= 1 - eps) by lra.
          assert ((1 - eps) * (2 - U n) <= 0) by (replace 0 with ((1 - eps) * 0) by ring; apply Rmult_le_compat_l; lra). lra. }
        pose proof (Hsum_nonneg t2 t2_nonneg) as Hpos. fold Nhat in Hpos.
        assert ((2 - U (n + 3)) * N <= 0) by (replace 0 with (0 * N) by ring; apply Rmult_le_compat_r; assumption).
        lra.
    - assert (A3 : U n * rsum n t2 <= U n * ((1 + eps) * N)) by (apply Rmult_le_compat_l; [lra|apply S1]).
      assert (A4 : ((1 + eps) * U n) * N <= U (n + 3) * N) by (apply Rmult_le_compat_r; assumption).
      lra.
  Qed.

  Lemma t4_nonneg k : 0 <= t4 k.
  Proof.
    pose proof (t2_nonneg k) as H0. pose proof (rnd_rel (t2 k * t2 k) (Rmult_le_pos _ _ H0 H0)) as [L _]. fold (t4 k) in L.
    assert (0 <= (1 - eps) * (t2 k * t2 k)) by (apply Rmult_le_pos; [lra|apply Rmult_le_pos; assumption]). lra.
  Qed.


  Theorem Dhat_rel : (1 - g) * D <= Dhat <= (1 + g) * D.
  Proof.
    pose proof (Hsum_rel t4 t4_nonneg) as [L Hh]. fold Dhat in L, Hh.
    assert (S1 : (1 - eps) ^ 3 * D <= rsum n t4 <= (1 + eps) ^ 3 * D).
    { unfold D, sv_kinv. rewrite <- !rsum_scal_l. split; apply rsum_le; intros; apply t4_rel. }
    pose proof D_nonneg as HD. pose proof (U_ge1 n) as HU.
    assert (G1 : (1 + eps) ^ 3 * U n = U (n + 3)) by (unfold U; rewrite Nat.add_comm, pow_add; reflexivity).
    assert (G2 : 2 - U (n + 3) <= (1 - eps) ^ 3 * (2 - U n)).
    { replace (n + 3)%nat with (S (S (S n))) by lia.
      pose proof (low_step n) as a1. pose proof (low_step (S n)) as a2. pose proof (low_step (S (S n))) as a3.
      assert (b2 : (1 - eps) * (2 - U (S n)) <= (1 - eps) * ((1 - eps) * (2 - U n))) by (apply Rmult_le_compat_l; lra).
      assert (b3 : (1 - eps) * (2 - U (S (S n))) <= (1 - eps) * ((1 - eps) * ((1 - eps) * (2 - U n)))) by (apply Rmult_le_compat_l; lra).
      replace ((1 - eps) ^ 3 * (2 - U n)) with ((1 - eps) * ((1 - eps) * ((1 - eps) * (2 - U n)))) by ring. lra. }
    assert (R0 : 0 <= rsum n t4) by (apply rsum_nonneg; intros; apply t4_nonneg).
    assert (E3 : 0 <= (1 - eps) ^ 3) by (apply pow_le; lra).
    unfold g. split.
    - destruct (Rle_dec 0 (2 - U n)) as [Hp|Hn].
      + assert (A1 : (2 - U (n + 3)) * D <= ((1 - eps) ^ 3 * (2 - U n)) * D) by (apply Rmult_le_compat_r; assumption).
        assert (A2 : (2 - U n) * ((1 - eps) ^ 3 * D) <= (2 - U n) * rsum n t4) by (apply Rmult_le_compat_l; [exact Hp|apply S1]).
        lra.
      + assert (Hneg : 2 - U (n + 3) <= 0).
        { apply Rnot_le_lt in Hn.
          assert ((1 - eps) ^ 3 * (2 - U n) <= 0) by (replace 0 with ((1 - eps) ^ 3 * 0) by ring; apply Rmult_le_compat_l; lra). lra. }
        pose proof (Hsum_nonneg t4 t4_nonneg) as Hpos. fold Dhat in Hpos.
        assert ((2 - U (n + 3)) * D <= 0) by (replace 0 with (0 * D) by ring; apply Rmult_le_compat_r; assumption).
        lra.
    - assert (A3 : U n * rsum n t4 <= U n * ((1 + eps) ^ 3 * D)) by (apply Rmult_le_compat_l; [lra|apply S1]).
      rewrite <- G1. lra.
  Qed.

  Lemma div_mono x1 x2 d1 d2 : 0 <= x1 <= x2 -> 0 < d1 <= d2 -> x1 / d2 <= x2 / d1.
  Proof.
    intros [Hx0 Hx] [Hd0 Hd]. unfold Rdiv.
    apply Rmult_le_compat; try assumption.
    - left. apply Rinv_0_lt_compat. lra.
    - apply Rinv_le_contravar; assumption.
  Qed.

  (* the returned value against K = N^2 / D *)
  Theorem Khat_rel :
    0 < D -> g < 1 ->
    (N * N / D) * ((1 - g) * (1 - g) * ((1 - eps) * (1 - eps)) / (1 + g)) <= Khat
      <= (N * N / D) * ((1 + g) * (1 + g) * ((1 + eps) * (1 + eps)) / (1 - g)).
  Proof.
    intros HD Hg.
    assert (Hg0 : 0 <= g) by (unfold g; pose proof (U_ge1 (n + 3)); lra).
    pose proof Nhat_rel as [NL NU]. pose proof Dhat_rel as [DL DU]. pose proof N_nonneg as HN.
    assert (Nh0 : 0 <= Nhat) by (apply Hsum_nonneg; apply t2_nonneg).
    assert (Dh0 : 0 < Dhat) by (assert (0 < (1 - g) * D) by (apply Rmult_lt_0_compat; lra); lra).
    assert (Sq : ((1 - g) * N) * ((1 - g) * N) <= Nhat * Nhat <= ((1 + g) * N) * ((1 + g) * N)).
    { assert (0 <= (1 - g) * N) by (apply Rmult_le_pos; lra). split; apply Rmult_le_compat; lra. }
    assert (Sq0 : 0 <= Nhat * Nhat) by (apply Rmult_le_pos; assumption).
    pose proof (rnd_rel (Nhat * Nhat) Sq0) as [QL QU]. set (q := rnd (Nhat * Nhat)) in *.
    assert (q0 : 0 <= q) by (assert (0 <= (1 - eps) * (Nhat * Nhat)) by (apply Rmult_le_pos; lra); lra).
    assert (r0 : 0 <= q / Dhat) by (apply Rmult_le_pos; [assumption|left; apply Rinv_0_lt_compat; assumption]).
    pose proof (rnd_rel (q / Dhat) r0) as [KL KU]. fold Khat in KL, KU.
    assert (qL : (1 - eps) * (((1 - g) * N) * ((1 - g) * N)) <= q) by (eapply Rle_trans; [apply Rmult_le_compat_l; [lra|apply Sq]|exact QL]).
    assert (qU : q <= (1 + eps) * (((1 + g) * N) * ((1 + g) * N))) by (eapply Rle_trans; [exact QU|apply Rmult_le_compat_l; [lra|apply Sq]]).
    assert (L0 : 0 <= (1 - eps) * (((1 - g) * N) * ((1 - g) * N))).
    { apply Rmult_le_pos; [lra|]. apply Rmult_le_pos; apply Rmult_le_pos; lra. }
    assert (rL : (1 - eps) * (((1 - g) * N) * ((1 - g) * N)) / ((1 + g) * D) <= q / Dhat).
    { apply div_mono; [split; assumption|split; [assumption|exact DU]]. }
    assert (rU : q / Dhat <= (1 + eps) * (((1 + g) * N) * ((1 + g) * N)) / ((1 - g) * D)).
    { apply div_mono; [split; assumption|split; [apply Rmult_lt_0_compat; lra|exact DL]]. }
    split.
    - eapply Rle_trans; [|exact KL].
      replace (N * N / D * ((1 - g) * (1 - g) * ((1 - eps) * (1 - eps)) / (1 + g)))
        with ((1 - eps) * ((1 - eps) * ((1 - g) * N * ((1 - g) * N)) / ((1 + g) * D))) by (field; lra).
      apply Rmult_le_compat_l; [lra|exact rL].
    - eapply Rle_trans; [exact KU|].
      replace (N * N / D * ((1 + g) * (1 + g) * ((1 + eps) * (1 + eps)) / (1 - g)))
        with ((1 + eps) * ((1 + eps) * ((1 + g) * N * ((1 + g) * N)) / ((1 - g) * D))) by (field; lra).
      apply Rmult_le_compat_l; [lra|exact rU].
  Qed.
End Rnd.

(* ---- binary64 round-to-nearest (any tie-breaking rule), exponent range unbounded *)
Definition b64_rnd (choice : Z -> bool) (x : R) : R := round radix2 (FLX_exp 53) (Znearest choice) x.
Definition b64_eps : R := / 2 * bpow radix2 (- 53 + 1).

Lemma b64_rnd_rel choice x : Rabs (b64_rnd choice x - x) <= b64_eps * Rabs x.
Proof. apply relative_error_N_FLX. lia. Qed.

Lemma b64_eps_val : b64_eps = / 9007199254740992.
Proof. unfold b64_eps. simpl bpow. unfold Z.pow_pos; simpl. field. Qed.

(* for sides up to 40 the post-SVD arithmetic changes K by less than 1e-13 relative, for any summation scheme with the accuracy
   of n rounded additions *)
Theorem schmidt_rounding_b64_gen choice n sv (sumf : (nat -> R) -> R) :
  (n <= 40)%nat -> (forall k, 0 <= sv k) -> 0 < sv_kinv n sv ->
  (forall a, (forall k, 0 <= a k) -> (2 - U b64_eps n) * rsum n a <= sumf a <= U b64_eps n * rsum n a) ->
  (forall a, (forall k, 0 <= a k) -> 0 <= sumf a) ->
  let K := sv_norm_squared n sv * sv_norm_squared n sv / sv_kinv n sv in
  Rabs (Khat (b64_rnd choice) sv sumf - K) <= 1e-13 * K.
Proof.
  intros Hn Hsv HD Hrel Hnn K.
  assert (He : 0 <= b64_eps) by (rewrite b64_eps_val; lra).
  assert (Hs : b64_eps <= 1 / 2) by (rewrite b64_eps_val; lra).
  assert (Hg1 : g b64_eps n <= g b64_eps 40).
  { unfold g. pose proof (U_mono b64_eps He (n + 3) (40 + 3) ltac:(lia)). lra. }
  assert (Hg0 : 0 <= g b64_eps n) by (unfold g; pose proof (U_ge1 b64_eps He (n + 3)); lra).
  assert (Hg40 : g b64_eps 40 <= 5e-15).
  { unfold g, U. rewrite b64_eps_val. interval with (i_prec 120). }
  pose proof (Khat_rel (b64_rnd choice) b64_eps He (b64_rnd_rel choice) Hs n sv Hsv sumf Hrel Hnn HD ltac:(lra)) as [L Hh].
  fold K in L, Hh.
  assert (K0 : 0 <= K).
  { unfold K. apply Rmult_le_pos; [|left; apply Rinv_0_lt_compat; exact HD].
    apply Rmult_le_pos; apply (N_nonneg n sv Hsv). }
  set (gg := g b64_eps n) in *.
  assert (Hgu : gg <= 5e-15) by lra.
  assert (Lo : 1 - 1e-13 <= (1 - gg) * (1 - gg) * ((1 - b64_eps) * (1 - b64_eps)) / (1 + gg)).
  { rewrite b64_eps_val. interval with (i_prec 120). }
  assert (Hi : (1 + gg) * (1 + gg) * ((1 + b64_eps) * (1 + b64_eps)) / (1 - gg) <= 1 + 1e-13).
  { rewrite b64_eps_val. interval with (i_prec 120). }
  apply Rabs_le. split.
  - assert (K * (1 - 1e-13) <= K * ((1 - gg) * (1 - gg) * ((1 - b64_eps) * (1 - b64_eps)) / (1 + gg))) by (apply Rmult_le_compat_l; assumption). lra.
  - assert (K * ((1 + gg) * (1 + gg) * ((1 + b64_eps) * (1 + b64_eps)) / (1 - gg)) <= K * (1 + 1e-13)) by (apply Rmult_le_compat_l; assumption). lra.
Qed.

Lemma b64_eps_nonneg : 0 <= b64_eps.
Proof. rewrite b64_eps_val. lra. Qed.
Lemma b64_eps_small : b64_eps <= 1 / 2.
Proof. rewrite b64_eps_val. lra. Qed.

(* left-to-right accumulation *)
Theorem schmidt_rounding_b64 choice n sv :
  (n <= 40)%nat -> (forall k, 0 <= sv k) -> 0 < sv_kinv n sv ->
  let K := sv_norm_squared n sv * sv_norm_squared n sv / sv_kinv n sv in
  Rabs (Khat (b64_rnd choice) sv (fsum (b64_rnd choice) n) - K) <= 1e-13 * K.
Proof.
  intros Hn Hsv HD. apply schmidt_rounding_b64_gen; try assumption.
  - intros a Ha. apply (fsum_rel (b64_rnd choice) b64_eps b64_eps_nonneg (b64_rnd_rel choice) n a Ha).
  - intros a Ha. eapply fsum_nonneg; first [apply b64_rnd_rel | apply b64_eps_small | apply b64_eps_nonneg | exact Ha].
Qed.

(* ANY summation order: every binary tree over the n terms (nalgebra's unrolled dot products, pairwise or blocked sums) *)
Theorem schmidt_rounding_b64_any_order choice n sv (t : stree) :
  (n <= 40)%nat -> (forall k, 0 <= sv k) -> 0 < sv_kinv n sv ->
  (forall a, teval t a = rsum n a) -> (theight t <= n)%nat ->
  let K := sv_norm_squared n sv * sv_norm_squared n sv / sv_kinv n sv in
  Rabs (Khat (b64_rnd choice) sv (tfl (b64_rnd choice) t) - K) <= 1e-13 * K.
Proof.
  intros Hn Hsv HD Ht Hh. apply schmidt_rounding_b64_gen; try assumption.
  - intros a Ha. pose proof (tfl_err (b64_rnd choice) b64_eps b64_eps_nonneg (b64_rnd_rel choice) t a) as E.
    rewrite Ht in E. rewrite (Ht (fun k => Rabs (a k))) in E.
    rewrite (rsum_ext n (fun k => Rabs (a k)) a) in E by (intros; apply Rabs_pos_eq; apply Ha).
    apply Rabs_le_inv in E.
    assert (R0 : 0 <= rsum n a) by (apply rsum_nonneg; intros; apply Ha).
    pose proof (U_mono b64_eps b64_eps_nonneg (theight t) n Hh) as M.
    assert ((U b64_eps (theight t) - 1) * rsum n a <= (U b64_eps n - 1) * rsum n a) by (apply Rmult_le_compat_r; lra).
    lra.
  - intros a Ha. eapply tfl_nonneg; first [apply b64_rnd_rel | apply b64_eps_small | apply b64_eps_nonneg | exact Ha].
Qed.

(* non-vacuity: three singular values, the balanced tree ((0 1) 2) *)
Example rounding_example_tree :
  let t := Node (Node (Leaf 0) (Leaf 1)) (Leaf 2) in
  (forall a, teval t a = rsum 3 a) /\ (theight t <= 3)%nat /\ (forall k : nat, 0 <= (fun _ => 1) k) /\ 0 < sv_kinv 3 (fun _ => 1).
Proof.
  cbv zeta. repeat split.
  - intros a. unfold rsum. cbn. ring.
  - cbn. lia.
  - intros; lra.
  - unfold sv_kinv, rsum. cbn. lra.
Qed.
