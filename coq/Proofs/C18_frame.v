(* C18 — the configuration view changes only at the named key, and shows the requested value there. *)
From Coq Require Import Reals Lra Lia List String Bool ZArith.
From SpdVerif Require Import Base.Rx Base.PolingBase Gen.Poling Gen.Sweep Spec.SweepPaths Model.Sweep Proofs.C19_base Proofs.C18_angles.
Import ListNotations.
Local Open Scope R_scope.

(* ---- reading the configuration view ---- *)
Ltac eval_keys :=
  repeat match goal with
  | |- context [String.eqb ?a ?b] =>
      let r := eval vm_compute in (String.eqb a b) in change (String.eqb a b) with r; cbv iota
  end.

Ltac proj_simpl :=
  cbv beta iota zeta delta [ideal_set put_crystal put_beam get_beam beam_with_theta beam_with_phi beam_with_frequency beam_with_waist];
  cbn [ put_crystal put_beam get_beam beam_with_theta beam_with_phi beam_with_frequency beam_with_waist
    s_signal s_idler s_pump s_crystal_setup s_pp s_pump_average_power s_pump_bandwidth s_pump_spectrum_threshold
    s_signal_waist_position s_idler_waist_position s_deff
    b_waist b_frequency b_polarization b_theta b_phi w_x w_y
    c_crystal c_pm_type c_phi c_theta c_length c_temperature c_counter_propagation].

Section Frame.
Variable snell_internal : beam -> R -> crystal_setup -> R.
Variable compute_sign : beam -> beam -> crystal_setup -> sign.
Notation ideal := (ideal_set snell_internal compute_sign).

Definition slot_guard (sl : slot) (s : spdc) : Prop :=
  match sl with
  | SBeamThetaExternal b => beam_ok (get_beam b s)
  | _ => True
  end.

Ltac frame_entries :=
  repeat (apply Forall2_cons;
          [ cbn [fst snd]; split; [reflexivity | intros Hne; first [ reflexivity | exfalso; apply Hne; reflexivity ] ] | ]);
  apply Forall2_nil.

(* everything except the named numeric key is untouched *)
Lemma frame sl x s : slot_guard sl s ->
  config_opaque (ideal sl x s) = config_opaque s /\
  (sl <> SPolingPeriod -> config_poling (ideal sl x s) = config_poling s) /\
  agree_except (config_key sl) (config_num (ideal sl x s)) (config_num s).
Proof.
  intros G. destruct s as [sg idl pm cr pp pw bw th swp iwp df].
  destruct sl as [ | | | | b | b | b | b | b | b | b | | | | ]; try destruct b;
    (split; [reflexivity | split; [ first [ intros _; reflexivity | intros H; exfalso; apply H; reflexivity ] | ]]);
    unfold agree_except, config_num; proj_simpl;
    try (cbn [slot_guard get_beam s_signal s_idler s_pump] in G; unfold beam_ok in G; rewrite (norm_angle_id _ G));
    frame_entries.
Qed.

(* the poling setter leaves the numeric and opaque views alone as well, and an apodization it finds *)
Lemma frame_poling x s :
  config_num (ideal SPolingPeriod x s) = config_num s /\ config_opaque (ideal SPolingPeriod x s) = config_opaque s.
Proof. destruct s. split; reflexivity. Qed.

(* ---- the named key shows the requested value ---- *)
Definition value_guard (sl : slot) (u : unit_kind) (v : R) (s : spdc) : Prop :=
  match sl with
  | SBeamTheta _ => -180 < v <= 180
  | SBeamPhi _ => 0 <= v < 360
  | SBeamWavelength _ => v <> 0
  | SBeamFrequency _ => v <> 0
  | SBeamThetaExternal b => - PI < snell_internal (get_beam b s) (si_of u v) (s_crystal_setup s) <= PI
  | _ => True
  end.

Definition expected_value (sl : slot) (u : unit_kind) (v : R) (s : spdc) : R :=
  match sl with
  | SBeamThetaExternal b => round4 (snell_internal (get_beam b s) (si_of u v) (s_crystal_setup s) / (PI / 180))
  | SBeamFrequency _ => round4 (c_light / (v * 1e12) / 1e-9)   (* shown as the vacuum wavelength in nm *)
  | _ => round4 v
  end.

Definition value_entry_ok (e : string * (slot * unit_kind)) : Prop :=
  let sl := fst (snd e) in let u := snd (snd e) in
  sl <> SPolingPeriod -> forall s v, value_guard sl u v s ->
  assoc (config_key sl) (config_num (ideal sl (si_of u v) s)) = Some (expected_value sl u v s).

Ltac value_tac :=
  intros s v G; destruct s as [sg idl pm cr pp pw bw th swp iwp df];
  unfold config_num; cbn [assoc]; eval_keys; proj_simpl;
  cbv beta iota zeta delta [expected_value si_of value_guard get_beam s_signal s_idler s_pump s_crystal_setup] in *;
  try rewrite (norm_angle_signed_id _ (deg_range_signed _ G));
  try rewrite (norm_angle_id _ (deg_range _ G));
  try rewrite (norm_angle_signed_id _ G);
  unfold round4, c_light;
  first [ reflexivity
        | do 4 f_equal; first [ apply deg_back | lra | (pose proof PI_RGT_0; field; lra) ]
        | f_equal; lra ].

Lemma all_values_ok : Forall value_entry_ok spec_table.
Proof.
  unfold spec_table.
  repeat (apply Forall_cons;
          [ unfold value_entry_ok; cbn [fst snd]; intros Hp;
            first [ exfalso; apply Hp; reflexivity | value_tac ] | ]).
  apply Forall_nil.
Qed.

(* poling period on a poled description: magnitude |v| um (rounded), derived sign, apodization kept *)
Lemma poling_value p sg ap s v :
  s_pp s = On p sg ap -> v <> 0 ->
  let s' := ideal SPolingPeriod (si_of UUm v) s in
  config_poling s' = Some (round4 (Rabs v), apod_to_config ap) /\
  exists m, s_pp s' = On m (compute_sign (s_signal s) (s_pump s) (s_crystal_setup s)) ap /\ 0 < m /\ m = Rabs v * 1e-6.
Proof.
  intros Hpp Hv. destruct s as [sgn idl pm cr pp pw bw th swp iwp df]. cbn [s_pp] in Hpp. subst pp.
  cbv zeta. unfold config_poling. proj_simpl. cbn [pp_with_period si_of]. unfold pp_new.
  set (cs := compute_sign sgn pm cr).
  assert (Hpos : 0 < Rabs (v * 1e-6)) by (apply Rabs_pos_lt; lra).
  assert (Habs : Rabs (v * 1e-6) = Rabs v * 1e-6) by (rewrite Rabs_mult, (Rabs_right 1e-6); lra).
  assert (Hst : (if Rgt_dec (sign_mul cs (Rabs (v * 1e-6))) (0 * 1) then sign_mul cs (Rabs (v * 1e-6)) else - sign_mul cs (Rabs (v * 1e-6))) = Rabs v * 1e-6
                /\ (if Rgt_dec (sign_mul cs (Rabs (v * 1e-6))) (0 * 1) then POSITIVE else NEGATIVE) = cs).
  { destruct cs; cbn [sign_mul]; destruct (Rgt_dec _ (0 * 1)) as [H | H]; split; try reflexivity; try lra; exfalso; lra. }
  destruct Hst as [Hm Hs]. rewrite Hm, Hs. cbn [pp_to_config].
  split.
  - f_equal. f_equal. unfold round4. do 3 f_equal. lra.
  - exists (Rabs v * 1e-6). split; [reflexivity | split; [lra | reflexivity]].
Qed.

(* on an unpoled description the poling is created, without apodization, with the derived sign *)
Lemma poling_value_unpoled s v :
  s_pp s = Off -> v <> 0 ->
  let s' := ideal SPolingPeriod (si_of UUm v) s in
  config_poling s' = Some (round4 (Rabs v), CfgOff) /\
  exists m, s_pp s' = On m (compute_sign (s_signal s) (s_pump s) (s_crystal_setup s)) ApOff /\ 0 < m /\ m = Rabs v * 1e-6.
Proof.
  intros Hpp Hv. destruct s as [sgn idl pm cr pp pw bw th swp iwp df]. cbn [s_pp] in Hpp. subst pp.
  cbv zeta. unfold config_poling. proj_simpl. cbn [pp_with_period si_of]. unfold pp_new.
  set (cs := compute_sign sgn pm cr).
  assert (Hpos : 0 < Rabs (v * 1e-6)) by (apply Rabs_pos_lt; lra).
  assert (Habs : Rabs (v * 1e-6) = Rabs v * 1e-6) by (rewrite Rabs_mult, (Rabs_right 1e-6); lra).
  assert (Hst : (if Rgt_dec (sign_mul cs (Rabs (v * 1e-6))) (0 * 1) then sign_mul cs (Rabs (v * 1e-6)) else - sign_mul cs (Rabs (v * 1e-6))) = Rabs v * 1e-6
                /\ (if Rgt_dec (sign_mul cs (Rabs (v * 1e-6))) (0 * 1) then POSITIVE else NEGATIVE) = cs).
  { destruct cs; cbn [sign_mul]; destruct (Rgt_dec _ (0 * 1)) as [H | H]; split; try reflexivity; try lra; exfalso; lra. }
  destruct Hst as [Hm Hs]. rewrite Hm, Hs. cbn [pp_to_config apod_to_config].
  split.
  - f_equal. f_equal. unfold round4. do 3 f_equal. lra.
  - exists (Rabs v * 1e-6). split; [reflexivity | split; [lra | reflexivity]].
Qed.
End Frame.
