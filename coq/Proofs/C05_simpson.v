(* C05 — the quadrature the default integrator actually uses (Integrator::Simpson { divs: 50 } |-> 48 panels on [-1, 1]) against
   the exact plane-wave integral: | (1/2) S48(z |-> e^{i (psi + ff z)}) - e^{i psi} sinc ff | <= 3.1e-5 for |ff| <= 4 pi
   (through the third side lobe and beyond).  A one-variable statement about an explicit 49-term trigonometric sum, closed by
   interval arithmetic with Taylor models. *)
From Coq Require Import Reals Lra List Psatz.
From Coquelicot Require Import Coquelicot.
From Interval Require Import Tactic.
From SpdVerif Require Import Base.CxPM Model.PMLimit Proofs.C05_sinc Proofs.C05_simpson_tac Proofs.C05_simpson_far Proofs.C05_simpson_near.
Local Open Scope R_scope.

(* |sinc x - 1| <= x^2 / 6 near 0 (stdlib: sin_lb <= sin, sin x < x) *)
Lemma sinc_near_1 x : 0 < x <= 1 -> Rabs (sin x / x - 1) <= x * x / 6.
Proof.
  intros [H0 H1].
  assert (Hpi : x <= PI) by (pose proof PI_RGT_0; pose proof PI2_3_2; lra).
  destruct (SIN x (Rlt_le _ _ H0) Hpi) as [Hlb _].
  pose proof (sin_lt_x x H0) as Hub.
  unfold sin_lb, sin_approx, sin_term in Hlb. cbn [sum_f_R0 Nat.mul Nat.add fact pow] in Hlb.
  assert (Hlb' : x - x * x * x / 6 <= sin x).
  { cbn in Hlb. assert (0 <= x * x * x * x * x * (1 / 120 - x * x / 5040)).
    { apply Rmult_le_pos; [repeat apply Rmult_le_pos; lra | nra]. }
    simpl in Hlb. lra. }
  rewrite Rabs_left1.
  - apply Rmult_le_reg_r with x; [assumption|]. field_simplify; [|lra]. nra.
  - apply Rmult_le_reg_r with x; [assumption|]. field_simplify; [|lra]. lra.
Qed.

Lemma simpson_ext (f g : R -> R) a b divs : (forall x, f x = g x) -> simpson f a b divs = simpson g a b divs.
Proof.
  intros H. unfold simpson, simpson_sum. f_equal. f_equal. apply map_ext. intros n. rewrite H. reflexivity.
Qed.

(* real part: Simpson-48 of cos(ff z) against sinc, on the whole range *)
Theorem simpson48_sinc_real ff : -4 * PI <= ff <= 4 * PI ->
  Rabs (1 / 2 * simpson (fun z => cos (ff * z)) (-1) 1 50 - sinc ff) <= 3e-5.
Proof.
  assert (Hpos : forall x, 0 <= x <= 4 * PI -> Rabs (1 / 2 * simpson (fun z => cos (x * z)) (-1) 1 50 - sinc x) <= 3e-5).
  { intros x [H0 H1]. destruct (Req_dec x 0) as [->|Hx0].
    - rewrite sinc_0. pose proof (simpson48_cos_near 0 ltac:(lra)). lra.
    - rewrite sinc_neq by assumption. destruct (Rle_dec x (1 / 1024)) as [Hs|Hs].
      + pose proof (simpson48_cos_near x ltac:(lra)) as H2.
        pose proof (sinc_near_1 x ltac:(lra)) as H3.
        assert (x * x / 6 <= 1e-6) by nra.
        replace (1 / 2 * simpson (fun z => cos (x * z)) (-1) 1 50 - sin x / x)
          with ((1 / 2 * simpson (fun z => cos (x * z)) (-1) 1 50 - 1) - (sin x / x - 1)) by ring.
        eapply Rle_trans; [apply Rabs_triang|]. rewrite Rabs_Ropp. lra.
      + apply simpson48_cos_far. lra. }
  intros [H0 H1]. destruct (Rle_dec 0 ff) as [Hp|Hn].
  - apply Hpos. lra.
  - assert (E : simpson (fun z => cos (ff * z)) (-1) 1 50 = simpson (fun z => cos (- ff * z)) (-1) 1 50).
    { apply simpson_ext. intros x. rewrite <- cos_neg. f_equal. ring. }
    assert (Es : sinc ff = sinc (- ff)).
    { unfold sinc. destruct (Req_EM_T ff 0), (Req_EM_T (- ff) 0); try lra. rewrite sin_neg. field. lra. }
    rewrite E, Es. apply Hpos. lra.
Qed.

(* linearity of the rule *)
Lemma simpson_lin (f g : R -> R) (c1 c2 a b : R) divs :
  simpson (fun z => c1 * f z + c2 * g z) a b divs = c1 * simpson f a b divs + c2 * simpson g a b divs.
Proof.
  unfold simpson, simpson_sum.
  set (d := simpson_divs divs). set (dx := (b - a) / INR d).
  assert (H : forall l, fold_right Rplus 0 (map (fun n => (c1 * f (a + INR n * dx) + c2 * g (a + INR n * dx)) * simpson_weight n d) l) =
                        c1 * fold_right Rplus 0 (map (fun n => f (a + INR n * dx) * simpson_weight n d) l) +
                        c2 * fold_right Rplus 0 (map (fun n => g (a + INR n * dx) * simpson_weight n d) l)).
  { induction l as [|n l IH]; cbn [map fold_right]; [ring | rewrite IH; ring]. }
  rewrite H. ring.
Qed.

(* C05 clause 4: the default quadrature against the exact integral of the plane-wave integrand, any constant phase psi *)
Theorem simpson48_plane_wave psi ff : -4 * PI <= ff <= 4 * PI ->
  Cmod (Cminus (Cmult (RtoC (1 / 2)) (Csimpson (fun z => Cexp (0, psi + ff * z)) (-1) 1 50))
               (Cmult (Cexp (0, psi)) (RtoC (sinc ff)))) <= 3.1e-5.
Proof.
  intros H.
  pose proof (simpson48_sinc_real ff H) as Hc. pose proof (simpson48_sin ff H) as Hs.
  set (Sc := 1 / 2 * simpson (fun z => cos (ff * z)) (-1) 1 50) in *.
  set (Ss := 1 / 2 * simpson (fun z => sin (ff * z)) (-1) 1 50) in *.
  assert (Ere : 1 / 2 * simpson (fun z => fst (Cexp (0, psi + ff * z))) (-1) 1 50 = cos psi * Sc - sin psi * Ss).
  { rewrite (simpson_ext _ (fun z => cos psi * cos (ff * z) + (- sin psi) * sin (ff * z))).
    - rewrite simpson_lin. unfold Sc, Ss. ring.
    - intros x. rewrite Cexp_imag. cbn [fst]. rewrite cos_plus. ring. }
  assert (Eim : 1 / 2 * simpson (fun z => snd (Cexp (0, psi + ff * z))) (-1) 1 50 = sin psi * Sc + cos psi * Ss).
  { rewrite (simpson_ext _ (fun z => sin psi * cos (ff * z) + cos psi * sin (ff * z))).
    - rewrite simpson_lin. unfold Sc, Ss. ring.
    - intros x. rewrite Cexp_imag. cbn [snd]. rewrite sin_plus. ring. }
  rewrite Cexp_imag. unfold Csimpson, Cminus, Cplus, Copp, Cmult, RtoC; cbn [fst snd].
  replace (1 / 2 * simpson (fun z => fst (Cexp (0, psi + ff * z))) (-1) 1 50 - 0 * simpson (fun z => snd (Cexp (0, psi + ff * z))) (-1) 1 50
           + - (cos psi * sinc ff - sin psi * 0)) with (cos psi * (Sc - sinc ff) - sin psi * Ss) by (rewrite Ere; ring).
  replace (1 / 2 * simpson (fun z => snd (Cexp (0, psi + ff * z))) (-1) 1 50 + 0 * simpson (fun z => fst (Cexp (0, psi + ff * z))) (-1) 1 50
           + - (cos psi * 0 + sin psi * sinc ff)) with (sin psi * (Sc - sinc ff) + cos psi * Ss) by (rewrite Eim; ring).
  set (e := Sc - sinc ff) in *.
  unfold Cmod; cbn [fst snd].
  replace ((cos psi * e - sin psi * Ss) ^ 2 + (sin psi * e + cos psi * Ss) ^ 2)
    with ((e * e + Ss * Ss) * ((sin psi)² + (cos psi)²)) by (unfold Rsqr; ring).
  rewrite sin2_cos2, Rmult_1_r.
  apply Rsqr_incr_0_var; [|lra].
  rewrite Rsqr_sqrt by nra.
  unfold Rsqr.
  assert (Hc' : -3e-5 <= e <= 3e-5) by (unfold Rabs in Hc; destruct (Rcase_abs e); lra).
  assert (Hs' : -1e-9 <= Ss <= 1e-9) by (unfold Rabs in Hs; destruct (Rcase_abs Ss); lra).
  nra.
Qed.
