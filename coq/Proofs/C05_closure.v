(* C05 — the z-closure of get_pm_integrand as a function of its captured coefficients ([pm_closure], GENERATED), its collinear
   reduction and its zero-diffraction closed form. *)
From Coq Require Import Reals Lra Psatz QArith.
From Coquelicot Require Import Coquelicot.
From SpdVerif Require Import Base.Rx Base.CxPM Model.PMParams Gen.PMIntegrand Proofs.C06_algebra Proofs.C06_swap Proofs.C06_defined.
Local Open Scope R_scope.

Ltac dec_norm := unfold Q2R; cbn [Qnum Qden].

(* the generated integrand IS the generated closure applied to the generated coefficients (kernel conversion) *)
Lemma integrand_is_closure p z : pm_integrand p z = pm_closure_of p z.
Proof. reflexivity. Qed.

(* ---- collinear setups: all four polar angles zero *)
Definition pm_collinear (p : pm_params) : Prop :=
  p_theta_s p = 0 /\ p_theta_i p = 0 /\ p_theta_s_e p = 0 /\ p_theta_i_e p = 0.

Lemma zero_over_one : 0 / 1 = 0. Proof. field. Qed.

Section Collinear.
  Variable p : pm_params.
  Hypothesis Hc : pm_collinear p.

  Lemma col_SEC_s : pm_SEC_2_THETA_s p = 1.
  Proof. unfold pm_SEC_2_THETA_s. destruct Hc as (_ & _ & -> & _). rewrite zero_over_one, cos_0. field. Qed.
  Lemma col_SEC_i : pm_SEC_2_THETA_i p = 1.
  Proof. unfold pm_SEC_2_THETA_i. destruct Hc as (_ & _ & _ & ->). rewrite zero_over_one, cos_0. field. Qed.
  Lemma col_SIN_s : pm_SIN_THETA_s_e p = 0.
  Proof. unfold pm_SIN_THETA_s_e. destruct Hc as (_ & _ & -> & _). rewrite zero_over_one. apply sin_0. Qed.
  Lemma col_SIN_i : pm_SIN_THETA_i_e p = 0.
  Proof. unfold pm_SIN_THETA_i_e. destruct Hc as (_ & _ & _ & ->). rewrite zero_over_one. apply sin_0. Qed.
  Lemma col_TAN_s : pm_TAN_THETA_s_e p = 0.
  Proof. unfold pm_TAN_THETA_s_e. destruct Hc as (_ & _ & -> & _). rewrite zero_over_one. apply tan_0. Qed.
  Lemma col_TAN_i : pm_TAN_THETA_i_e p = 0.
  Proof. unfold pm_TAN_THETA_i_e. destruct Hc as (_ & _ & _ & ->). rewrite zero_over_one. apply tan_0. Qed.
  Lemma col_hs : pm_hs p = 0.
  Proof. unfold pm_hs. destruct Hc as (-> & _). rewrite zero_over_one, tan_0. ring. Qed.
  Lemma col_hi : pm_hi p = 0.
  Proof. unfold pm_hi. destruct Hc as (_ & -> & _). rewrite zero_over_one, tan_0. ring. Qed.

  Lemma col_GAM3s : pm_GAM3s p = 0. Proof. unfold pm_GAM3s. rewrite col_SIN_s. ring. Qed.
  Lemma col_GAM3i : pm_GAM3i p = 0. Proof. unfold pm_GAM3i. rewrite col_SIN_i. ring. Qed.
  Lemma col_GAM4s : pm_GAM4s p = 0. Proof. unfold pm_GAM4s. rewrite col_SIN_s. ring. Qed.
  Lemma col_GAM4i : pm_GAM4i p = 0. Proof. unfold pm_GAM4i. rewrite col_SIN_i. ring. Qed.
  Lemma col_zhs : pm_zhs p = p_z0s p. Proof. unfold pm_zhs. rewrite col_SIN_s. ring. Qed.
  Lemma col_zhi : pm_zhi p = p_z0i p. Proof. unfold pm_zhi. rewrite col_SIN_i. ring. Qed.
  Lemma col_DEL3s : pm_DEL3s p = 0. Proof. unfold pm_DEL3s. rewrite col_hs, col_SIN_s. ring. Qed.
  Lemma col_DEL3i : pm_DEL3i p = 0. Proof. unfold pm_DEL3i. rewrite col_hi, col_SIN_i. ring. Qed.
  Lemma col_DEL4s : pm_DEL4s p = - (pm_ks_f p * p_z0s p).
  Proof. unfold pm_DEL4s. rewrite col_TAN_s. ring. Qed.
  Lemma col_DEL4i : pm_DEL4i p = - (pm_ki_f p * p_z0i p).
  Proof. unfold pm_DEL4i. rewrite col_TAN_i. ring. Qed.

  (* clause: A5 = A7 = 0 *)
  Lemma col_A5 : pm_A5 p = RtoC 0.
  Proof. unfold pm_A5, RtoC. rewrite col_GAM3s, col_DEL3s. f_equal; field. Qed.
  Lemma col_A7 : pm_A7 p = RtoC 0.
  Proof. unfold pm_A7, RtoC. rewrite col_GAM3i, col_DEL3i. f_equal; field. Qed.
  Lemma col_A5sq : pm_A5sq p = RtoC 0.
  Proof. unfold pm_A5sq. rewrite col_A5. unfold Cmult, RtoC; cbn [fst snd]. f_equal; ring. Qed.

  (* the constant phase: only the waist-position terms survive *)
  Lemma col_hh : pm_hh p = (0, pm_ks_f p * p_z0s p + pm_ki_f p * p_z0i p).
  Proof. unfold pm_hh. rewrite col_GAM4s, col_GAM4i, col_DEL4s, col_DEL4i. f_equal; field. Qed.

  Lemma col_As : pm_As p = (- (0.25 * pm_Wx_SQ p + 0.25 * pm_Ws_SQ p), - pm_DEL2s p).
  Proof.
    unfold pm_As, pm_GAM1s, pm_GAM2s, pm_DEL1s, pm_M2. rewrite col_SEC_s. f_equal; dec_norm; field.
  Qed.
  Lemma col_Ai : pm_Ai p = (- (0.25 * pm_Wx_SQ p + 0.25 * pm_Wi_SQ p), - pm_DEL2i p).
  Proof.
    unfold pm_Ai, pm_GAM1i, pm_GAM2i, pm_DEL1i, pm_M2. rewrite col_SEC_i. f_equal; dec_norm; field.
  Qed.
End Collinear.

(* ---- the exponent with A5 = A7 = 0 *)
Lemma pm_expo_collinear (A1 A2 A3 A4 A6 A8 A9 A10 : C) :
  A1 <> RtoC 0 -> A2 <> RtoC 0 -> pm_det A1 A3 A8 <> RtoC 0 -> pm_det A2 A4 A9 <> RtoC 0 ->
  pm_expo A1 A2 A3 A4 (RtoC 0) A6 (RtoC 0) A8 A9 A10 =
  Cminus A10 (Cdiv (Cmult (Cmult A6 A6) (Cminus (Cplus A2 A4) A9)) (pm_det A2 A4 A9)).
Proof.
  intros H1 H2 Hd1 Hd2. rewrite pm_expo_reduced by assumption. unfold pm_expo_sym.
  assert (H4 : RtoC 4 <> RtoC 0) by apply RtoC_4_neq_0.
  generalize dependent (pm_det A1 A3 A8). generalize dependent (pm_det A2 A4 A9). intros d2 Hd2 d1 Hd1.
  generalize dependent (RtoC 4). intros c4 Hc4.
  field. repeat split; assumption.
Qed.

(* C05 clause 1 (collinear reduction) on the generated integrand: A5 = A7 = 0 and the exponent is A10 - A6^2 (A2 + A4 - A9) / denom2 *)
Theorem collinear_reduction p z :
  pm_collinear p -> pm_physical p ->
  pm_A5 p = RtoC 0 /\ pm_A7 p = RtoC 0 /\
  pm_numerator p z =
    Cexp (Cminus (pm_A10 p z)
                 (Cdiv (Cmult (pm_A6sq p z) (Cminus (Cplus (pm_A2 p z) (pm_A4 p z)) (pm_A9 p z))) (pm_denom2 p z))).
Proof.
  intros Hc Hp. split; [apply col_A5, Hc | split; [apply col_A7, Hc |]].
  destruct (physical_expo_defined p Hp z) as (H1 & H2 & H3 & H4 & Hd1 & Hd2).
  rewrite numerator_expo, (col_A5 p Hc), (col_A7 p Hc). rewrite denom1_det in Hd1. rewrite denom2_det in Hd2.
  rewrite pm_expo_collinear by assumption. reflexivity.
Qed.

(* non-vacuity witnesses *)
Lemma collinear_example : pm_collinear pm_example_collinear /\ pm_physical pm_example_collinear.
Proof.
  split.
  - repeat split; reflexivity.
  - unfold pm_physical, pm_example_collinear; cbn [p_wsx p_wsy p_wix p_wiy p_theta_s_e p_theta_i_e].
    rewrite cos_0. repeat split; lra.
Qed.

(* phasematch_fiber_coupling is one half of the quadrature of the integrand over [-1, 1] *)
Lemma fiber_coupling_form Q p : pm_fiber_coupling Q p = Cmult (RtoC (1 / 2)) (Q (pm_integrand p) (-1) 1).
Proof. unfold pm_fiber_coupling. do 2 f_equal. lra. Qed.
