(* The thin wrappers of `impl SPDC` (src/spdc/spdc_obj.rs), as translated by tools/gen/wrappers.py into Gen/Wrappers.v:
   which callee, which arguments, in which order, which fields are overwritten, how `?` propagates.

   Part 1 pins every wrapper to the callee and argument order it is expected to have.  The statements are written by hand, the
   left-hand sides are generated from the source on every run: exchanging two forwarded arguments (omega_s/omega_i,
   signal/pump, ranges/integrator, ...), calling a different function, dropping or reordering a field assignment makes a
   `reflexivity` below fail, i.e. breaks S3 of every check that imports this file.

   Part 2 instantiates the opaque value type with the C03 model (Model/Idler.v) and shows that
     SPDC::delta_k(omega_s, omega_i)  is  delta_k_model index omega_s omega_i signal idler pump pp     (C03_delta_k_def applies),
     SPDC::optimum_idler()            is  optimum_idler index pm cp signal pump pp                     (C03's optimum idler),
     SPDC::assign_optimum_idler()     stores that idler with the waist of the previous idler and touches nothing else. *)
From Coq Require Import Reals Bool List.
From SpdVerif Require Import Base.Rx Base.Vec3 Gen.Idler Model.Idler Gen.Wrappers.
Local Open Scope R_scope.

(* ---------------------------------------------------------------- Part 1: callee and argument order *)
Section Order.
Variable obj : Type.
Notation spdc := (spdc obj).

Lemma wrap_delta_k_order : forall (dk : obj -> obj -> obj -> obj -> obj -> obj -> obj -> obj) (s : spdc) (omega_s omega_i : obj),
  SPDC_delta_k_gen dk s omega_s omega_i = dk omega_s omega_i (signal s) (idler s) (pump s) (crystal_setup s) (pp s).
Proof. reflexivity. Qed.

Lemma wrap_optimum_idler_order : forall (tno : obj -> obj -> obj -> obj -> option obj) (s : spdc),
  SPDC_optimum_idler_gen tno s = tno (signal s) (pump s) (crystal_setup s) (pp s).
Proof. reflexivity. Qed.

Lemma wrap_optimum_crystal_theta_order : forall (ot : obj -> obj -> obj -> obj) (s : spdc),
  SPDC_optimum_crystal_theta_gen ot s = ot (crystal_setup s) (signal s) (pump s).
Proof. reflexivity. Qed.

Lemma wrap_as_config_order : forall (from : spdc -> obj) (s : spdc), SPDC_as_config_gen from s = from s.
Proof. reflexivity. Qed.

Lemma wrap_joint_spectrum_order : forall (jsnew : spdc -> obj -> obj) (s : spdc) (integrator : obj),
  SPDC_joint_spectrum_gen jsnew s integrator = jsnew s integrator.
Proof. reflexivity. Qed.

Lemma wrap_counts_order : forall (f : spdc -> obj -> obj -> obj) (s : spdc) (ranges integrator : obj),
  SPDC_counts_coincidences_gen f s ranges integrator = f s ranges integrator /\
  SPDC_counts_singles_signal_gen f s ranges integrator = f s ranges integrator /\
  SPDC_counts_singles_idler_gen f s ranges integrator = f s ranges integrator /\
  SPDC_efficiencies_gen f s ranges integrator = f s ranges integrator.
Proof. repeat split; reflexivity. Qed.

(* assign_optimum_idler: the optimum idler from (signal, pump, crystal_setup, pp), given the waist of the idler it replaces;
   an error of try_new_optimum is returned and nothing is stored *)
Lemma wrap_assign_optimum_idler : forall (tno : obj -> obj -> obj -> obj -> option obj) (waist : obj -> obj) (set_waist : obj -> obj -> obj) (s : spdc),
  SPDC_assign_optimum_idler_gen tno waist set_waist s =
    match tno (signal s) (pump s) (crystal_setup s) (pp s) with
    | Some i => Some (mk_spdc (signal s) (set_waist i (waist (idler s))) (pump s) (crystal_setup s) (pp s)
                               (signal_waist_position s) (idler_waist_position s))
    | None => None
    end.
Proof. intros. unfold SPDC_assign_optimum_idler_gen. destruct (tno _ _ _ _); reflexivity. Qed.

(* the with_ forms are the assign_ forms on the moved value *)
Lemma wrap_with_optimum_idler : forall (assign : spdc -> option spdc) (s : spdc),
  SPDC_with_optimum_idler_gen assign s = assign s.
Proof. intros. unfold SPDC_with_optimum_idler_gen. destruct (assign s); reflexivity. Qed.

Lemma wrap_with_optimum_periodic_poling : forall (assign : spdc -> option spdc) (s : spdc),
  SPDC_with_optimum_periodic_poling_gen assign s = assign s.
Proof. intros. unfold SPDC_with_optimum_periodic_poling_gen. destruct (assign s); reflexivity. Qed.

Lemma wrap_with_poling_period : forall (assign : spdc -> obj -> spdc) (s : spdc) (period : obj),
  SPDC_with_poling_period_gen assign s period = assign s period.
Proof. reflexivity. Qed.

(* assign_optimum_crystal_theta: the poling is switched off FIRST, then the crystal setup is replaced by
   crystal_setup.assign_optimum_theta(signal, pump); nothing else changes *)
Lemma wrap_assign_optimum_crystal_theta : forall (off : obj) (aot : obj -> obj -> obj -> obj) (s : spdc),
  SPDC_assign_optimum_crystal_theta_gen off aot s =
    mk_spdc (signal s) (idler s) (pump s) (aot (crystal_setup s) (signal s) (pump s)) off
            (signal_waist_position s) (idler_waist_position s).
Proof. reflexivity. Qed.

(* with_optimum_crystal_theta switches the poling off and calls assign_optimum_crystal_theta; composed with the generated
   assign_ it is the same state as assign_ alone (the first `self.pp = Off` is redundant) *)
Lemma wrap_with_optimum_crystal_theta : forall (off : obj) (assign : spdc -> spdc) (s : spdc),
  SPDC_with_optimum_crystal_theta_gen off assign s = assign (set_pp s off).
Proof. reflexivity. Qed.

Lemma wrap_with_optimum_crystal_theta_composed : forall (off : obj) (aot : obj -> obj -> obj -> obj) (s : spdc),
  SPDC_with_optimum_crystal_theta_gen off (SPDC_assign_optimum_crystal_theta_gen off aot) s =
  SPDC_assign_optimum_crystal_theta_gen off aot s.
Proof. reflexivity. Qed.

(* the idler is not recomputed by assign_optimum_crystal_theta (SPDC::try_as_optimum calls assign_optimum_idler afterwards) *)
Lemma wrap_assign_optimum_crystal_theta_keeps_idler : forall (off : obj) (aot : obj -> obj -> obj -> obj) (s : spdc),
  idler (SPDC_assign_optimum_crystal_theta_gen off aot s) = idler s /\
  signal (SPDC_assign_optimum_crystal_theta_gen off aot s) = signal s /\
  pump (SPDC_assign_optimum_crystal_theta_gen off aot s) = pump s.
Proof. repeat split; reflexivity. Qed.
End Order.

(* ---------------------------------------------------------------- Part 2: on the C03 model *)
(* values handed around by the wrappers *)
Inductive uval : Type :=
  | UFreq (omega : R) | UBeam (b : beam) | USetup (pm : pm_type) (counter_propagation : bool) | UPoling (p : poling)
  | UVec (v : vec) | UWaist (w : R * R) | UBad.

Section OnModel.
Variable index : R -> vec -> polarization -> R.     (* CrystalSetup::index_along of the setup stored in the SPDC object *)

(* spdcalc::delta_k(omega_s, omega_i, signal, idler, pump, crystal_setup, pp), parameters in the order of its signature
   (src/phasematch/delta_k.rs) *)
Definition crate_delta_k (omega_s omega_i sg idl pmp setup pl : uval) : uval :=
  match omega_s, omega_i, sg, idl, pmp, setup, pl with
  | UFreq ws, UFreq wi, UBeam s, UBeam i, UBeam p, USetup _ _, UPoling q => UVec (delta_k_model index ws wi s i p q)
  | _, _, _, _, _, _, _ => UBad
  end.

(* IdlerBeam::try_new_optimum(signal, pump, crystal_setup, pp) *)
Definition crate_try_new_optimum (sg pmp setup pl : uval) : option uval :=
  match sg, pmp, setup, pl with
  | UBeam s, UBeam p, USetup pm cp, UPoling q =>
      match optimum_idler index pm cp s p q with Some i => Some (UBeam i) | None => None end
  | _, _, _, _ => Some UBad
  end.

(* Beam::waist / Beam::set_waist *)
Definition crate_waist (b : uval) : uval := match b with UBeam b => UWaist (b_waist b) | _ => UBad end.
Definition crate_set_waist (b w : uval) : uval :=
  match b, w with
  | UBeam b, UWaist w => UBeam (mkBeam (b_pol b) (b_phi b) (b_theta b) (b_omega b) (b_dir b) w)
  | _, _ => UBad
  end.

(* an SPDC object whose components are a signal, an idler, a pump, a crystal setup and a poling *)
Definition spdc_of (s i p : beam) (pm : pm_type) (cp : bool) (q : poling) (zs zi : uval) : spdc uval :=
  mk_spdc (UBeam s) (UBeam i) (UBeam p) (USetup pm cp) (UPoling q) zs zi.

Theorem wrap_delta_k_model : forall s i p pm cp q zs zi ws wi,
  SPDC_delta_k_gen crate_delta_k (spdc_of s i p pm cp q zs zi) (UFreq ws) (UFreq wi) = UVec (delta_k_model index ws wi s i p q).
Proof. reflexivity. Qed.

(* what a transposition of the two frequencies in the wrapper would compute instead: the statement above then fails as soon as
   the two differ in their effect; here is the z component that separates them *)
Lemma wrap_delta_k_z : forall s i p pm cp q zs zi ws wi,
  SPDC_delta_k_gen crate_delta_k (spdc_of s i p pm cp q zs zi) (UFreq ws) (UFreq wi) =
  UVec (vx (wavevector index p (b_omega p)) - vx (wavevector index s ws) - vx (wavevector index i wi) - pp_k_eff q * 0,
        vy (wavevector index p (b_omega p)) - vy (wavevector index s ws) - vy (wavevector index i wi) - pp_k_eff q * 0,
        vz (wavevector index p (b_omega p)) - vz (wavevector index s ws) - vz (wavevector index i wi) - pp_k_eff q * 1).
Proof. reflexivity. Qed.

Theorem wrap_optimum_idler_model : forall s i p pm cp q zs zi,
  SPDC_optimum_idler_gen crate_try_new_optimum (spdc_of s i p pm cp q zs zi) =
  match optimum_idler index pm cp s p q with Some o => Some (UBeam o) | None => None end.
Proof. reflexivity. Qed.

Theorem wrap_assign_optimum_idler_model : forall s i p pm cp q zs zi,
  SPDC_assign_optimum_idler_gen crate_try_new_optimum crate_waist crate_set_waist (spdc_of s i p pm cp q zs zi) =
  match optimum_idler index pm cp s p q with
  | Some o => Some (spdc_of s (mkBeam (b_pol o) (b_phi o) (b_theta o) (b_omega o) (b_dir o) (b_waist i)) p pm cp q zs zi)
  | None => None
  end.
Proof.
  intros. unfold SPDC_assign_optimum_idler_gen, spdc_of. cbn [signal pump crystal_setup pp idler crate_try_new_optimum].
  destruct (optimum_idler index pm cp s p q); reflexivity.
Qed.

(* with_optimum_idler(self) = assign_optimum_idler on the moved value: an error leaves no half-updated object behind *)
Corollary wrap_with_optimum_idler_model : forall s i p pm cp q zs zi,
  SPDC_with_optimum_idler_gen (SPDC_assign_optimum_idler_gen crate_try_new_optimum crate_waist crate_set_waist) (spdc_of s i p pm cp q zs zi) =
  match optimum_idler index pm cp s p q with
  | Some o => Some (spdc_of s (mkBeam (b_pol o) (b_phi o) (b_theta o) (b_omega o) (b_dir o) (b_waist i)) p pm cp q zs zi)
  | None => None
  end.
Proof. intros. rewrite wrap_with_optimum_idler. apply wrap_assign_optimum_idler_model. Qed.
End OnModel.

Print Assumptions wrap_delta_k_order.
Print Assumptions wrap_optimum_idler_order.
Print Assumptions wrap_optimum_crystal_theta_order.
Print Assumptions wrap_as_config_order.
Print Assumptions wrap_joint_spectrum_order.
Print Assumptions wrap_counts_order.
Print Assumptions wrap_assign_optimum_idler.
Print Assumptions wrap_with_optimum_idler.
Print Assumptions wrap_with_optimum_periodic_poling.
Print Assumptions wrap_with_poling_period.
Print Assumptions wrap_assign_optimum_crystal_theta.
Print Assumptions wrap_with_optimum_crystal_theta.
Print Assumptions wrap_with_optimum_crystal_theta_composed.
Print Assumptions wrap_assign_optimum_crystal_theta_keeps_idler.
Print Assumptions wrap_delta_k_model.
Print Assumptions wrap_delta_k_z.
Print Assumptions wrap_optimum_idler_model.
Print Assumptions wrap_assign_optimum_idler_model.
Print Assumptions wrap_with_optimum_idler_model.
