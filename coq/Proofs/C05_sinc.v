(* C05 — the sinc integral, the Gaussian (walk-off) peak integral in terms of erf, and the plane-wave limit of the zero-diffraction
   closure: (1/2) Int_{-1}^{1} integrand dz. *)
From Coq Require Import Reals Lra Psatz.
From Coquelicot Require Import Coquelicot.
From SpdVerif Require Import Base.Rx Base.CxPM Model.PMParams Model.PMLimit Gen.PMIntegrand Proofs.C06_algebra Proofs.C05_closure
  Proofs.C05_limit.
Local Open Scope R_scope.

Lemma sinc_0 : sinc 0 = 1.
Proof. unfold sinc. destruct (Req_EM_T 0 0); [reflexivity | contradiction]. Qed.
Lemma sinc_neq x : x <> 0 -> sinc x = sin x / x.
Proof. intros H. unfold sinc. destruct (Req_EM_T x 0); [contradiction | reflexivity]. Qed.

Lemma is_RInt_cos_lin (psi ff : R) : ff <> 0 ->
  is_RInt (fun z => cos (psi + ff * z)) (-1) 1 ((sin (psi + ff) - sin (psi - ff)) / ff).
Proof.
  intros Hff.
  replace ((sin (psi + ff) - sin (psi - ff)) / ff) with (sin (psi + ff * 1) / ff - sin (psi + ff * (-1)) / ff)
    by (field_simplify_eq; [|assumption]; f_equal; f_equal; ring).
  apply (is_RInt_derive (fun z => sin (psi + ff * z) / ff)).
  - intros x _. auto_derive; [exact I|]. field. assumption.
  - intros x _. apply (ex_derive_continuous (fun z => cos (psi + ff * z))). auto_derive. exact I.
Qed.

Lemma is_RInt_sin_lin (psi ff : R) : ff <> 0 ->
  is_RInt (fun z => sin (psi + ff * z)) (-1) 1 ((cos (psi - ff) - cos (psi + ff)) / ff).
Proof.
  intros Hff.
  replace ((cos (psi - ff) - cos (psi + ff)) / ff) with (- cos (psi + ff * 1) / ff - - cos (psi + ff * (-1)) / ff)
    by (field_simplify_eq; [|assumption]; replace (psi + ff * 1) with (psi + ff) by ring; replace (psi + ff * -1) with (psi - ff) by ring; ring).
  apply (is_RInt_derive (fun z => - cos (psi + ff * z) / ff)).
  - intros x _. auto_derive; [exact I|]. field. assumption.
  - intros x _. apply (ex_derive_continuous (fun z => sin (psi + ff * z))). auto_derive. exact I.
Qed.

Lemma RInt_Rmult_l (f : R -> R) (a b k : R) : ex_RInt f a b -> RInt (fun x => k * f x) a b = k * RInt f a b.
Proof.
  intros H. apply is_RInt_unique. apply (is_RInt_scal (V := R_NormedModule) f a b k). apply (RInt_correct (V := R_CompleteNormedModule)), H.
Qed.

(* (1/2) Int_{-1}^{1} cos(psi + ff z) dz = cos psi * sinc ff, and the same for sin *)
Lemma half_int_cos psi ff : 1 / 2 * RInt (fun z => cos (psi + ff * z)) (-1) 1 = cos psi * sinc ff.
Proof.
  destruct (Req_dec ff 0) as [->|Hff].
  - rewrite sinc_0. rewrite (RInt_ext _ (fun _ => cos psi)).
    2:{ intros x _. f_equal. ring. }
    rewrite RInt_const. unfold scal; cbn. unfold mult; cbn. field.
  - rewrite (is_RInt_unique _ _ _ _ (is_RInt_cos_lin psi ff Hff)), sinc_neq by assumption.
    rewrite sin_plus, sin_minus. field. assumption.
Qed.

Lemma half_int_sin psi ff : 1 / 2 * RInt (fun z => sin (psi + ff * z)) (-1) 1 = sin psi * sinc ff.
Proof.
  destruct (Req_dec ff 0) as [->|Hff].
  - rewrite sinc_0. rewrite (RInt_ext _ (fun _ => sin psi)).
    2:{ intros x _. f_equal. ring. }
    rewrite RInt_const. unfold scal; cbn. unfold mult; cbn. field.
  - rewrite (is_RInt_unique _ _ _ _ (is_RInt_sin_lin psi ff Hff)), sinc_neq by assumption.
    rewrite cos_plus, cos_minus. field. assumption.
Qed.

(* C05 clause 3: (1/2) Int_{-1}^{1} Cexp(i (psi0 + ff z)) dz = Cexp(i psi0) * sinc ff *)
Theorem sinc_integral psi ff :
  Cmult (RtoC (1 / 2)) (Cint (fun z => Cexp (0, psi + ff * z)) (-1) 1) = Cmult (Cexp (0, psi)) (RtoC (sinc ff)).
Proof.
  unfold Cint.
  rewrite (RInt_ext (fun z => fst (Cexp (0, psi + ff * z))) (fun z => cos (psi + ff * z))).
  2:{ intros x _. rewrite Cexp_imag. reflexivity. }
  rewrite (RInt_ext (fun z => snd (Cexp (0, psi + ff * z))) (fun z => sin (psi + ff * z))).
  2:{ intros x _. rewrite Cexp_imag. reflexivity. }
  rewrite Cexp_imag. unfold Cmult, RtoC; cbn [fst snd].
  apply C_pair_eq.
  - rewrite Rmult_0_l, Rminus_0_r, Rmult_0_r, Rminus_0_r. apply half_int_cos.
  - rewrite Rmult_0_l, Rplus_0_r, Rmult_0_r, Rplus_0_l. rewrite half_int_sin. reflexivity.
Qed.

(* ---- plane-wave limit of the zero-diffraction closure, no walk-off (nn = 0), no apodization (weight 1):
   (1/2) Int_{-1}^{1} closure dz = (4 / sqrt(Sigma_x Sigma_y)) Cexp(i (psi_h + ee)) sinc ff *)
Section PlaneWave.
  Variables (wx wy ss si psi_h ee ff : R).
  Hypothesis Hss : 0 < ss.
  Hypothesis Hsi : 0 < si.
  Hypothesis Hwx : 0 <= wx.
  Hypothesis Hwy : 0 <= wy.

  Definition zd_closure (nn : R) (z : R) : C :=
    pm_closure (fun _ => 1) 1 (RtoC (- (wx + ss) / 4)) (RtoC (- (wx + si) / 4)) (RtoC (- (wy + ss) / 4)) (RtoC (- (wy + si) / 4))
               0 0 0 0 (RtoC (- wx / 2)) (RtoC (- wy / 2)) 0 nn (0, psi_h) (RtoC 0) (RtoC 0) (RtoC 0) ee ff z.

  Let K := 4 / sqrt (Sig ss si wx * Sig ss si wy).

  Lemma K_pos : 0 < K.
  Proof.
    unfold K. apply Rdiv_lt_0_compat; [lra|]. apply sqrt_lt_R0.
    pose proof (Sig_pos ss si Hss Hsi wx Hwx). pose proof (Sig_pos ss si Hss Hsi wy Hwy). nra.
  Qed.

  Lemma zd_closure_nowalkoff z : zd_closure 0 z = Cmult (RtoC K) (Cexp (0, (psi_h + ee) + ff * z)).
  Proof.
    unfold zd_closure. rewrite (closure_zero_diffraction (fun _ => 1) wx wy ss si 0 psi_h ee ff z Hss Hsi Hwx Hwy).
    f_equal. f_equal. fold K.
    replace (- (0 * 0 * (ss + si) / Sig ss si wy) * ((1 + z) * (1 + z))) with 0.
    - rewrite exp_0. ring.
    - unfold Rdiv. ring.
  Qed.

  Theorem plane_wave_limit :
    Cmult (RtoC (1 / 2)) (Cint (zd_closure 0) (-1) 1) = Cmult (RtoC K) (Cmult (Cexp (0, psi_h + ee)) (RtoC (sinc ff))).
  Proof.
    rewrite <- sinc_integral.
    unfold Cint.
    rewrite (RInt_ext (fun z => fst (zd_closure 0 z)) (fun z => K * (fst (Cexp (0, psi_h + ee + ff * z))))).
    2:{ intros x _. rewrite zd_closure_nowalkoff. unfold Cmult, RtoC; cbn [fst snd]. match goal with |- ?l = ?r => change (@eq R l r) end. ring. }
    rewrite (RInt_ext (fun z => snd (zd_closure 0 z)) (fun z => K * (snd (Cexp (0, psi_h + ee + ff * z))))).
    2:{ intros x _. rewrite zd_closure_nowalkoff. unfold Cmult, RtoC; cbn [fst snd]. match goal with |- ?l = ?r => change (@eq R l r) end. ring. }
    assert (Hex1 : ex_RInt (fun z => fst (Cexp (0, psi_h + ee + ff * z))) (-1) 1).
    { apply (ex_RInt_continuous (V := R_CompleteNormedModule)). intros x _. apply (ex_derive_continuous (fun z => fst (Cexp (0, psi_h + ee + ff * z)))).
      unfold Cexp; cbn [fst snd]. auto_derive. exact I. }
    assert (Hex2 : ex_RInt (fun z => snd (Cexp (0, psi_h + ee + ff * z))) (-1) 1).
    { apply (ex_RInt_continuous (V := R_CompleteNormedModule)). intros x _. apply (ex_derive_continuous (fun z => snd (Cexp (0, psi_h + ee + ff * z)))).
      unfold Cexp; cbn [fst snd]. auto_derive. exact I. }
    rewrite !RInt_Rmult_l by assumption.
    unfold Cmult, RtoC; cbn [fst snd]. apply C_pair_eq; ring.
  Qed.

  (* hence: modulus = (4 / sqrt(Sigma_x Sigma_y)) |sinc ff|; value at perfect phase matching 4 / sqrt(Sigma_x Sigma_y); ratio |sinc| *)
  Corollary plane_wave_modulus :
    Cmod (Cmult (RtoC (1 / 2)) (Cint (zd_closure 0) (-1) 1)) = K * Rabs (sinc ff).
  Proof.
    rewrite plane_wave_limit, !Cmod_mult, Cmod_Cexp, !Cmod_R. cbn [fst]. rewrite exp_0.
    rewrite (Rabs_pos_eq K) by (left; apply K_pos). ring.
  Qed.
End PlaneWave.

(* ---- the walk-off peak: (1/2) Int_{-1}^{1} exp(-a^2 (1+z)^2) dz = sqrt(pi) erf(x) / (2 x), x = 2 a *)
Lemma gauss_continuous (c : R) x : continuous (fun u => exp (- c * (u * u))) x.
Proof. apply (ex_derive_continuous (fun u => exp (- c * (u * u)))). auto_derive. exact I. Qed.

Theorem walkoff_peak_integral (a : R) : 0 < a ->
  1 / 2 * RInt (fun z => exp (- (a * a) * ((1 + z) * (1 + z)))) (-1) 1 = sqrt PI * erf (2 * a) / (2 * (2 * a)).
Proof.
  intros Ha.
  (* shift u = 1 + z *)
  assert (E1 : RInt (fun z => exp (- (a * a) * ((1 + z) * (1 + z)))) (-1) 1 = RInt (fun u => exp (- (a * a) * (u * u))) 0 2).
  { assert (H : RInt (fun y => scal 1 (exp (- (a * a) * ((1 * y + 1) * (1 * y + 1))))) (-1) 1 =
                RInt (fun u => exp (- (a * a) * (u * u))) (1 * -1 + 1) (1 * 1 + 1)).
    { apply (RInt_comp_lin (fun u => exp (- (a * a) * (u * u))) 1 1 (-1) 1).
      apply (ex_RInt_continuous (V := R_CompleteNormedModule)). intros x _. apply gauss_continuous. }
    replace (1 * -1 + 1) with 0 in H by ring. replace (1 * 1 + 1) with 2 in H by ring.
    rewrite <- H. apply RInt_ext. intros x _. unfold scal; cbn. unfold mult; cbn.
    match goal with |- ?l = ?r => change (@eq R l r) end. rewrite Rmult_1_l. f_equal. ring. }
  (* scale t = a u *)
  assert (E2 : RInt (fun u => exp (- (a * a) * (u * u))) 0 2 = / a * RInt (fun t => exp (- (t * t))) 0 (2 * a)).
  { assert (H : RInt (fun y => scal a (exp (- ((a * y + 0) * (a * y + 0))))) 0 2 = RInt (fun t => exp (- (t * t))) (a * 0 + 0) (a * 2 + 0)).
    { apply (RInt_comp_lin (fun t => exp (- (t * t))) a 0 0 2).
      apply (ex_RInt_continuous (V := R_CompleteNormedModule)). intros x _. apply (ex_derive_continuous (fun t => exp (- (t * t)))). auto_derive. exact I. }
    replace (a * 0 + 0) with 0 in H by ring. replace (a * 2 + 0) with (2 * a) in H by ring.
    rewrite <- H.
    rewrite (RInt_ext (fun y => scal a (exp (- ((a * y + 0) * (a * y + 0))))) (fun y => a * exp (- (a * a) * (y * y)))).
    2:{ intros x _. unfold scal; cbn. unfold mult; cbn. match goal with |- ?l = ?r => change (@eq R l r) end. f_equal. f_equal. ring. }
    rewrite RInt_Rmult_l.
    - assert (Hf : forall r : R, r = / a * (a * r)) by (intros; field; lra).
      apply Hf.
    - apply (ex_RInt_continuous (V := R_CompleteNormedModule)). intros x _. apply gauss_continuous. }
  rewrite E1, E2. unfold erf.
  assert (Hpi : sqrt PI <> 0) by (apply Rgt_not_eq, sqrt_lt_R0, PI_RGT_0).
  field. repeat split; first [assumption | lra].
Qed.

Lemma nowalkoff_peak_integral : 1 / 2 * RInt (fun z => exp (- (0 * 0) * ((1 + z) * (1 + z)))) (-1) 1 = 1.
Proof.
  rewrite (RInt_ext _ (fun _ => 1)).
  - rewrite RInt_const. unfold scal; cbn. unfold mult; cbn. field.
  - intros x _. replace (- (0 * 0) * ((1 + x) * (1 + x))) with 0 by ring. apply exp_0.
Qed.

(* peak (ff = 0) of the zero-diffraction closure WITH walk-off: modulus (4 / sqrt(Sigma_x Sigma_y)) sqrt(pi) erf(x) / (2 x),
   x = 2 a = L |tan rho| sqrt((Ws^2 + Wi^2) / Sigma_y)   (nn = L tan(rho) / 2) *)
Section WalkoffPeak.
  Variables (wx wy ss si nn psi_h ee : R).
  Hypothesis Hss : 0 < ss.
  Hypothesis Hsi : 0 < si.
  Hypothesis Hwx : 0 <= wx.
  Hypothesis Hwy : 0 <= wy.
  Hypothesis Hnn : nn <> 0.

  Let K := 4 / sqrt (Sig ss si wx * Sig ss si wy).
  Let a := Rabs nn * sqrt ((ss + si) / Sig ss si wy).

  Lemma a_pos : 0 < a.
  Proof.
    unfold a. apply Rmult_lt_0_compat; [apply Rabs_pos_lt; assumption|]. apply sqrt_lt_R0.
    pose proof (Sig_pos ss si Hss Hsi wy Hwy). apply Rdiv_lt_0_compat; lra.
  Qed.

  Lemma a_sq : a * a = nn * nn * (ss + si) / Sig ss si wy.
  Proof.
    unfold a. pose proof (Sig_pos ss si Hss Hsi wy Hwy) as HS.
    replace (Rabs nn * sqrt ((ss + si) / Sig ss si wy) * (Rabs nn * sqrt ((ss + si) / Sig ss si wy)))
      with ((Rabs nn * Rabs nn) * (sqrt ((ss + si) / Sig ss si wy) * sqrt ((ss + si) / Sig ss si wy))) by ring.
    rewrite sqrt_sqrt by (apply Rlt_le, Rdiv_lt_0_compat; lra).
    replace (Rabs nn * Rabs nn) with (nn * nn) by (unfold Rabs; destruct (Rcase_abs nn); ring). field. lra.
  Qed.

  Theorem walkoff_peak :
    Cmult (RtoC (1 / 2)) (Cint (zd_closure wx wy ss si psi_h ee 0 nn) (-1) 1) =
    Cmult (RtoC (K * (sqrt PI * erf (2 * a) / (2 * (2 * a))))) (Cexp (0, psi_h + ee)).
  Proof.
    rewrite <- (walkoff_peak_integral a a_pos).
    assert (Hz : forall z, zd_closure wx wy ss si psi_h ee 0 nn z =
                           Cmult (RtoC (K * exp (- (a * a) * ((1 + z) * (1 + z))))) (Cexp (0, psi_h + ee))).
    { intros z. unfold zd_closure.
      rewrite (closure_zero_diffraction (fun _ => 1) wx wy ss si nn psi_h ee 0 z Hss Hsi Hwx Hwy). fold K. rewrite a_sq.
      f_equal; [f_equal; ring | f_equal; f_equal; ring]. }
    rewrite Cexp_imag. unfold Cint.
    assert (Hex : ex_RInt (fun z => exp (- (a * a) * ((1 + z) * (1 + z)))) (-1) 1).
    { apply (ex_RInt_continuous (V := R_CompleteNormedModule)). intros x _.
      apply (ex_derive_continuous (fun z => exp (- (a * a) * ((1 + z) * (1 + z))))). auto_derive. exact I. }
    rewrite (RInt_ext (fun z => fst (zd_closure wx wy ss si psi_h ee 0 nn z))
                      (fun z => (K * cos (psi_h + ee)) * (exp (- (a * a) * ((1 + z) * (1 + z)))))).
    2:{ intros x _. rewrite Hz, Cexp_imag. unfold Cmult, RtoC; cbn [fst snd]. match goal with |- ?l = ?r => change (@eq R l r) end. ring. }
    rewrite (RInt_ext (fun z => snd (zd_closure wx wy ss si psi_h ee 0 nn z))
                      (fun z => (K * sin (psi_h + ee)) * (exp (- (a * a) * ((1 + z) * (1 + z)))))).
    2:{ intros x _. rewrite Hz, Cexp_imag. unfold Cmult, RtoC; cbn [fst snd]. match goal with |- ?l = ?r => change (@eq R l r) end. ring. }
    rewrite !RInt_Rmult_l by assumption.
    unfold Cmult, RtoC; cbn [fst snd]. apply C_pair_eq; ring.
  Qed.
End WalkoffPeak.
