(* C16: the setup -> configuration conversion GENERATED from src/spdc/config/*.rs equals the hand-pinned unit table
   (Spec/ConfigUnits.v) over the reals; every exported number is within 0.5e-4 of the physical value in the field's unit;
   "auto" fields are the explicit optimum calls on the setup built so far. *)
From Coq Require Import Reals QArith Qreals Lra Lia ZArith String List Bool.
From SpdVerif Require Import Base.Rx Base.CfgNumOps Model.NumInst Spec.ConfigSpec Gen.ConfigTables Spec.ConfigUnits
  Model.ConfigTypes Model.Config Gen.ConfigConv Gen.ConfigSites Proofs.C16_round Proofs.Cfg_flags_tac.
Import ListNotations.
Local Open Scope R_scope.

Lemma q_kelvin : Q2R (5463 # 20) = 27315 / 100.
Proof. unfold Q2R. cbn [Qnum Qden]. lra. Qed.

Lemma apod_as_config_spec a : apod_as_config R_ops a = apod_spec export_rounds_gaussian_fwhm a.
Proof.
  destruct a; cbn [apod_as_config apod_spec]; try reflexivity.
  unfold export_rounds_gaussian_fwhm. rewrite ?sigfigs_R, u_micro_R. reflexivity.
Qed.

Lemma poling_as_config_spec pp : poling_as_config R_ops pp = poling_spec export_rounds_gaussian_fwhm pp.
Proof. destruct pp; cbn [poling_as_config poling_spec]; [reflexivity |]. rewrite sigfigs_R, u_micro_R, apod_as_config_spec. reflexivity. Qed.

Theorem as_config_matches_spec U s : as_config R_ops U s = as_config_spec export_rounds_idler_waist_position export_rounds_gaussian_fwhm U s.
Proof.
  unfold as_config, as_config_spec, crystal_as_config, beam_spec, celsius_of_kelvin, export_rounds_idler_waist_position.
  rewrite !sigfigs_R, ?u_deg_R, ?u_micro_R, ?u_nano_R, ?u_pico_R, poling_as_config_spec.
  cbn [ndiv nsub nQ R_ops]. rewrite q_kelvin. reflexivity.
Qed.

Definition close4 (x y : R) : Prop := Rabs (x - y) <= / 20000.
Lemma close4_round x : close4 (round4 x) x.
Proof. apply round4_err. Qed.
Lemma close4_if (b : bool) x : close4 (if b then round4 x else x) x.
Proof. destruct b; [apply round4_err | unfold close4; replace (x - x) with 0 by ring; rewrite Rabs_R0; lra]. Qed.
Lemma close4_refl x : close4 x x.
Proof. unfold close4. replace (x - x) with 0 by ring. rewrite Rabs_R0. lra. Qed.

Definition beam_close (b : beam R) (c : beam_cfg R) : Prop :=
  close4 (bc_wavelength_nm c) (b_wavelength b / nano) /\ close4 (bc_phi_deg c) (b_phi b / deg) /\
  (exists t, bc_theta_deg c = Some t /\ close4 t (b_theta b / deg)) /\ bc_theta_ext_deg c = None /\
  close4 (bc_waist_um c) (b_waist b / micro).

(* every numeric field of the exported configuration is within 0.5e-4 of the physical value in the field's unit;
   the crystal angle, the idler and both waist positions are explicit; the poling period is the (positive) magnitude *)
Theorem roundtrip_within U s :
  let c := as_config R_ops U s in
  cc_kind (c_crystal c) = cs_kind (s_crystal s) /\ cc_pm (c_crystal c) = cs_pm (s_crystal s) /\
  cc_counter (c_crystal c) = cs_counter (s_crystal s) /\
  close4 (cc_phi_deg (c_crystal c)) (cs_phi (s_crystal s) / deg) /\
  (exists t, cc_theta_deg (c_crystal c) = Param t /\ close4 t (cs_theta (s_crystal s) / deg)) /\
  close4 (cc_length_um (c_crystal c)) (cs_length (s_crystal s) / micro) /\
  close4 (cc_temperature_c (c_crystal c)) (cs_temperature (s_crystal s) - 27315 / 100) /\
  close4 (pc_wavelength_nm (c_pump c)) (b_wavelength (s_pump s) / nano) /\
  close4 (pc_waist_um (c_pump c)) (b_waist (s_pump s) / micro) /\
  close4 (pc_bandwidth_nm (c_pump c)) (s_bandwidth s / nano) /\
  close4 (pc_power_mw (c_pump c)) (s_power s / u_milliw U) /\
  pc_threshold (c_pump c) = Some (s_threshold s) /\
  beam_close (s_signal s) (c_signal c) /\
  (exists z, bc_waist_pos_um (c_signal c) = Param z /\ close4 z (s_zs s / micro)) /\
  (exists ic, c_idler c = Param ic /\ beam_close (s_idler s) ic /\
              exists z, bc_waist_pos_um ic = Param z /\ close4 z (s_zi s / micro)) /\
  match s_pp s with
  | PolOff => c_pp c = PCOff
  | PolOn period _ a => exists p, c_pp c = PCConfig (Param p) (apod_spec export_rounds_gaussian_fwhm a) /\ close4 p (period / micro)
  end /\
  close4 (c_deff c) (s_deff s / (pico / u_volt U)).
Proof.
  intros c. subst c. rewrite as_config_matches_spec. unfold as_config_spec, beam_close, beam_spec, celsius_of_kelvin.
  cbn [c_crystal c_pump c_signal c_idler c_pp c_deff cc_kind cc_pm cc_counter cc_phi_deg cc_theta_deg cc_length_um
       cc_temperature_c pc_wavelength_nm pc_waist_um pc_bandwidth_nm pc_power_mw pc_threshold bc_wavelength_nm bc_phi_deg
       bc_theta_deg bc_theta_ext_deg bc_waist_um bc_waist_pos_um].
  repeat match goal with
  | |- _ /\ _ => split
  | |- close4 (round4 _) _ => apply close4_round
  | |- close4 ?x ?x => apply close4_refl
  | |- close4 (if _ then round4 ?x else ?x) ?x => apply close4_if
  | |- ?x = ?x => reflexivity
  | |- exists t, Param _ = Param t /\ _ => eexists; split; [reflexivity |]
  | |- exists t, Some _ = Some t /\ _ => eexists; split; [reflexivity |]
  | |- exists ic, Param _ = Param ic /\ _ => eexists; split; [reflexivity |]
  | |- _ => progress cbn [bc_wavelength_nm bc_phi_deg bc_theta_deg bc_theta_ext_deg bc_waist_um bc_waist_pos_um]
  end.
  unfold poling_spec. destruct (s_pp s); [reflexivity |]. eexists; split; [reflexivity | apply close4_round].
Qed.

(* ------------------------------------------------------------------------------------------------------------------
   "auto" = the explicit optimum call on the setup built so far (any carrier, any oracles) *)
Section Auto.
  Variable num : Type.
  Variable o : NumOps num.
  Variable U : units num.
  Variable K : oracles num.
  Variable minpos : num.
  Variable rj : bool.

  Theorem auto_is_explicit c s nf :
    try_as_spdc_steps o U K minpos rj c = Ok (s, nf) ->
    (* crystal: the configuration's crystal, with angle 0 while the angle is still to be computed *)
    (cc_theta_deg (c_crystal c) = Auto ->
       optimum_theta o K (cfg_cs0 o c) (s_signal s) (s_pump s) = Ok (cs_theta (s_crystal s)) /\
       s_crystal s = set_crystal_theta (cfg_cs0 o c) (cs_theta (s_crystal s))) /\
    (cc_theta_deg (c_crystal c) <> Auto -> s_crystal s = cfg_cs0 o c) /\
    (* poling period: optimum_poling_period on (signal, pump, crystal with the placeholder angle) *)
    (forall a, c_pp c = PCConfig Auto a ->
       (exists per, optimum_poling_period o K minpos (s_signal s) (s_pump s) (cfg_cs0 o c) = Ok (inl per) /\
                    s_pp s = poling_new o per (apod_of_cfg o a)) \/
       (optimum_poling_period o K minpos (s_signal s) (s_pump s) (cfg_cs0 o c) = Ok (inr tt) /\ In NFPeriodInfinite nf)) /\
    (* explicit period: magnitude from the configuration, sign from compute_sign *)
    (forall pu a, c_pp c = PCConfig (Param pu) a ->
       exists sg, compute_sign o K (s_signal s) (s_pump s) (cfg_cs0 o c) = Ok sg /\
                  s_pp s = poling_new o (nmul o (sign_mul o sg (nabs o pu)) (u_micro o)) (apod_of_cfg o a)) /\
    (* idler: IdlerBeam::try_new_optimum on the FINAL crystal (computed angle) and the poling just built *)
    (c_idler c = Auto ->
       exists nfi, idler_optimum o K (s_signal s) (s_pump s) (s_crystal s) (s_pp s) = Ok (s_idler s, nfi)) /\
    (* waist positions: optimal_waist_position on the final crystal with the beam's own wavelength and polarization *)
    (bc_waist_pos_um (c_signal c) = Auto ->
       fst (waist_position o K (s_crystal s) (s_signal s) NFWaistSignal) = s_zs s) /\
    (idler_focus_cfg c = Auto ->
       fst (waist_position o K (s_crystal s) (s_idler s) NFWaistIdler) = s_zi s) /\
    (forall f, bc_waist_pos_um (c_signal c) = Param f -> s_zs s = explicit_focus o f) /\
    (forall f, idler_focus_cfg c = Param f -> s_zi s = explicit_focus o f).
  Proof.
    unfold Config.try_as_spdc_steps.
    destruct (signal_step o K c) as [signal | |] eqn:Hs; cbn [bind]; try discriminate.
    destruct (poling_step o K minpos rj c signal) as [[pp nfp] | |] eqn:Hp; cbn [bind fst snd]; try discriminate.
    destruct (theta_step o K c signal pp) as [cs | |] eqn:Ht; cbn [bind]; try discriminate.
    destruct (idler_step o K c signal cs pp) as [[idler nfi] | |] eqn:Hi; cbn [bind fst snd]; try discriminate.
    unfold finish_spdc. intros H. inversion H. subst s nf. clear H.
    cbn [s_crystal s_signal s_pump s_idler s_pp s_zs s_zi].
    repeat split.
    - revert Ht. unfold theta_step. rewrite H. cbn [is_auto]. destruct (is_pol_off pp); [| discriminate]. flag_cases; try discriminate.
      destruct (optimum_theta o K (cfg_cs0 o c) signal (cfg_pump o c)) as [th | |] eqn:Hth; cbn [bind]; try discriminate.
      intros Hc. inversion Hc. subst cs. cbn [set_crystal_theta cs_theta]. reflexivity.
    - revert Ht. unfold theta_step. rewrite H. cbn [is_auto]. destruct (is_pol_off pp); [| discriminate]. flag_cases; try discriminate.
      destruct (optimum_theta o K (cfg_cs0 o c) signal (cfg_pump o c)) as [th | |]; cbn [bind]; try discriminate.
      intros Hc. inversion Hc. subst cs. reflexivity.
    - intros Hna. revert Ht. unfold theta_step. destruct (cc_theta_deg (c_crystal c)); [congruence |]. cbn [is_auto].
      intros Hc. inversion Hc. reflexivity.
    - intros a Ha. revert Hp. unfold poling_step, poling_of_cfg. rewrite Ha.
      fold (Config.cfg_pump o c). fold (Config.cfg_cs0 o c).
      destruct (optimum_poling_period o K minpos signal (cfg_pump o c) (cfg_cs0 o c)) as [[per | []] | |]; cbn [bind]; try discriminate;
        intros Hpp; inversion Hpp; subst.
      + left. exists per. split; reflexivity.
      + right. split; [reflexivity | cbn; left; reflexivity].
    - intros pu a Ha. revert Hp. unfold poling_step, poling_of_cfg. rewrite Ha.
      fold (Config.cfg_pump o c). fold (Config.cfg_cs0 o c).
      destruct (rj && neqb o pu (n0 o)); try discriminate.
      destruct (compute_sign o K signal (cfg_pump o c) (cfg_cs0 o c)) as [sg | |]; cbn [bind]; try discriminate.
      intros Hpp; inversion Hpp; subst. exists sg. split; reflexivity.
    - intros Ha. revert Hi. unfold idler_step. rewrite Ha. intros Hi. exists nfi. exact Hi.
    - intros Ha. unfold focus_step. rewrite Ha. reflexivity.
    - intros Ha. unfold focus_step. rewrite Ha. reflexivity.
    - intros f Ha. unfold focus_step. rewrite Ha. reflexivity.
    - intros f Ha. unfold focus_step. rewrite Ha. reflexivity.
  Qed.
  (* ... and ON THE FINISHED SETUP: the explicit call crystal_setup.optimum_theta(&signal, &pump) returns the setup's own crystal
     angle PROVIDED the external angle of the finished signal does not depend on the crystal angle (true of a collinear signal;
     false otherwise -- the signal was converted in the placeholder crystal and never recomputed: finding F22) *)
  Theorem auto_theta_is_final_optimum c s nf :
    try_as_spdc_steps o U K minpos rj c = Ok (s, nf) -> cc_theta_deg (c_crystal c) = Auto ->
    (forall th, o_snell_ext K (s_signal s) (set_crystal_theta (cfg_cs0 o c) th) = o_snell_ext K (s_signal s) (cfg_cs0 o c)) ->
    optimum_theta o K (s_crystal s) (s_signal s) (s_pump s) = Ok (cs_theta (s_crystal s)).
  Proof.
    intros H Ha Hext. destruct (auto_is_explicit c s nf H) as (Ht & _). destruct (Ht Ha) as [Hopt Hcs].
    rewrite Hcs at 1. unfold optimum_theta. rewrite Hext.
    change (erase_theta o (set_crystal_theta (cfg_cs0 o c) (cs_theta (s_crystal s)))) with (erase_theta o (cfg_cs0 o c)).
    exact Hopt.
  Qed.
End Auto.

(* ------------------------------------------------------------------------------------------------------------------
   FULL STRENGTH for the code as it is now (export_rounds_idler_waist_position = true, read off the source): EVERY exported
   number -- including the idler waist position -- is the physical value rounded to 4 decimals, i.e. an integer multiple of
   1e-4.  (Passed through unrounded: pump.spectrum_threshold and the apodization parameters.) *)
Definition dec4 (x : R) : Prop := exists z : Z, x = IZR z / 10000.
Lemma dec4_round4 x : dec4 (round4 x).
Proof. apply round4_is_int. Qed.

Definition beam_cfg_dec4 (c : beam_cfg R) : Prop :=
  dec4 (bc_wavelength_nm c) /\ dec4 (bc_phi_deg c) /\ (forall t, bc_theta_deg c = Some t -> dec4 t) /\ dec4 (bc_waist_um c) /\
  (forall z, bc_waist_pos_um c = Param z -> dec4 z).

Theorem as_config_now_unit_table U s : as_config R_ops U s = as_config_spec true export_rounds_gaussian_fwhm U s.
Proof. exact (as_config_matches_spec U s). Qed.

Theorem exported_numbers_four_decimals U s :
  let c := as_config R_ops U s in
  dec4 (cc_phi_deg (c_crystal c)) /\ (forall t, cc_theta_deg (c_crystal c) = Param t -> dec4 t) /\
  dec4 (cc_length_um (c_crystal c)) /\ dec4 (cc_temperature_c (c_crystal c)) /\
  dec4 (pc_wavelength_nm (c_pump c)) /\ dec4 (pc_waist_um (c_pump c)) /\ dec4 (pc_bandwidth_nm (c_pump c)) /\
  dec4 (pc_power_mw (c_pump c)) /\
  beam_cfg_dec4 (c_signal c) /\ (forall ic, c_idler c = Param ic -> beam_cfg_dec4 ic) /\
  (forall p a, c_pp c = PCConfig (Param p) a -> dec4 p) /\ dec4 (c_deff c).
Proof.
  intros c. subst c. rewrite as_config_now_unit_table. unfold as_config_spec, beam_cfg_dec4, beam_spec.
  cbn [c_crystal c_pump c_signal c_idler c_pp c_deff cc_phi_deg cc_theta_deg cc_length_um cc_temperature_c
       pc_wavelength_nm pc_waist_um pc_bandwidth_nm pc_power_mw bc_wavelength_nm bc_phi_deg bc_theta_deg bc_waist_um bc_waist_pos_um].
  repeat match goal with
  | |- _ /\ _ => split
  | |- dec4 (round4 _) => apply dec4_round4
  | |- forall t, Param _ = Param t -> _ => let H := fresh in intros ? H; inversion H; subst; apply dec4_round4
  | |- forall t, Some _ = Some t -> _ => let H := fresh in intros ? H; inversion H; subst; apply dec4_round4
  end.
  - intros ic H. inversion H. subst ic.
    cbn [bc_wavelength_nm bc_phi_deg bc_theta_deg bc_waist_um bc_waist_pos_um].
    repeat split; try apply dec4_round4; intros ? H0; inversion H0; subst; apply dec4_round4.
  - intros p a. unfold poling_spec. destruct (s_pp s); [discriminate |]. intros H. inversion H. subst. apply dec4_round4.
Qed.
