(* C12 — fixed rules as linear functionals: linearity, the rule certificate (moment errors bound the error on every
   polynomial, complex coefficients included), affine transfer of a rule on [-1,1] to [a,b] as gauss-quad does it,
   tensor rules on separable integrands. *)
From Coq Require Import Reals QArith ZArith List Bool Lra Lia.
From Coquelicot Require Import Coquelicot.
From SpdVerif Require Import Base.NumOps Gen.Integration Model.Quadrature Proofs.C12_base.
Import ListNotations.
Local Open Scope R_scope.

(* ------------------------------------------------------------------ linearity *)
Lemma rapply_plus : forall (r : rule Rops) (f g : R -> R), rapply r (fun x => f x + g x) = rapply r f + rapply r g.
Proof. intros r f g. rewrite !fold_rapply, <- rsum_plus. apply rsum_ext. intros nw _. ring. Qed.

Lemma rapply_scal : forall (r : rule Rops) (c : R) (f : R -> R), rapply r (fun x => c * f x) = c * rapply r f.
Proof. intros r c f. rewrite !fold_rapply, rsum_scal. apply rsum_ext. intros nw _. ring. Qed.

Lemma rapply_ext' : forall (r : rule Rops) (f g : R -> R), (forall x, f x = g x) -> rapply r f = rapply r g.
Proof. intros r f g H. rewrite !fold_rapply. apply rsum_ext. intros nw _. rewrite H. reflexivity. Qed.

(* complex-linear: for every rule, all complex scalars alpha beta and all integrands *)
Theorem rule_linear : forall (r : rule Rops) (alpha beta : C) (f g : R -> C),
  apply_rule Rops r (fun x => Cplus (Cmult alpha (f x)) (Cmult beta (g x))) =
  Cplus (Cmult alpha (apply_rule Rops r f)) (Cmult beta (apply_rule Rops r g)).
Proof.
  intros r [ar ai] [br bi] f g. rewrite !apply_rule_R. unfold Cplus, Cmult. cbn [fst snd].
  unfold rapply. apply pair_eq; cbn [fst snd].
  - induction r as [|nw r IH]; cbn [fold_right]; [ring|]. rewrite IH. ring.
  - induction r as [|nw r IH]; cbn [fold_right]; [ring|]. rewrite IH. ring.
Qed.

Theorem rule2_linear : forall (r : rule2 Rops) (alpha beta : C) (f g : R -> R -> C),
  apply_rule2 Rops r (fun x y => Cplus (Cmult alpha (f x y)) (Cmult beta (g x y))) =
  Cplus (Cmult alpha (apply_rule2 Rops r f)) (Cmult beta (apply_rule2 Rops r g)).
Proof.
  intros r [ar ai] [br bi] f g. unfold apply_rule2. rewrite !vsum_R, !map_map.
  unfold Cplus, Cmult. cbn [vscale Rops fst snd]. apply pair_eq; cbn [fst snd].
  - induction r as [|nw r IH]; cbn [map rsum]; [ring|]. rewrite IH. ring.
  - induction r as [|nw r IH]; cbn [map rsum]; [ring|]. rewrite IH. ring.
Qed.

(* ------------------------------------------------------------------ error on a polynomial = combination of monomial errors *)
(* error of rule r on x^k over [a,b] *)
Definition mono_err (r : rule Rops) (a b : R) (k : nat) : R :=
  rapply r (fun x => x ^ k) - (b ^ (k + 1) - a ^ (k + 1)) / INR (k + 1).

Fixpoint err_sum (r : rule Rops) (a b : R) (k : nat) (cs : list R) : R :=
  match cs with nil => 0 | c :: t => c * mono_err r a b k + err_sum r a b (S k) t end.

Definition Gk (cs : list R) (k : nat) (x : R) : R := x ^ (k + 1) * peval (prim_from (Z.of_nat (k + 1)) cs) x.

Lemma Gk_cons : forall c t k x, Gk (c :: t) k x = c * x ^ (k + 1) / INR (k + 1) + Gk t (S k) x.
Proof.
  intros c t k x. unfold Gk. cbn [prim_from peval].
  replace (Z.of_nat (k + 1) + 1)%Z with (Z.of_nat (S k + 1)) by lia.
  rewrite <- INR_IZR_INZ. replace (S k + 1)%nat with (S (k + 1)) by lia. cbn [pow].
  field. apply not_0_INR. lia.
Qed.

Lemma prim_Gk : forall cs x, peval (prim cs) x = Gk cs 0 x.
Proof. intros cs x. unfold prim, Gk. cbn [peval Nat.add pow Z.of_nat Pos.of_succ_nat]. ring. Qed.

Lemma err_shift : forall (r : rule Rops) (a b : R) cs k,
  rapply r (fun x => x ^ k * peval cs x) - (Gk cs k b - Gk cs k a) = err_sum r a b k cs.
Proof.
  intros r a b; induction cs as [|c t IH]; intros k.
  - cbn [peval err_sum]. unfold Gk. cbn [prim_from peval].
    rewrite (rapply_ext' r _ (fun x => 0 * 1)) by (intros x; ring). rewrite rapply_scal. ring.
  - cbn [err_sum]. rewrite <- IH. rewrite !Gk_cons. unfold mono_err.
    cbn [peval].
    rewrite (rapply_ext' r _ (fun x => c * x ^ k + x ^ S k * peval t x)) by (intros x; cbn [pow]; ring).
    rewrite rapply_plus, rapply_scal. field. apply not_0_INR. lia.
Qed.

Lemma poly_err : forall (r : rule Rops) (a b : R) cs,
  rapply r (peval cs) - pint cs a b = err_sum r a b 0 cs.
Proof.
  intros r a b cs. rewrite <- err_shift. unfold pint. rewrite !prim_Gk.
  rewrite (rapply_ext' r _ (fun x => x ^ 0 * peval cs x)) by (intros x; cbn [pow]; ring). reflexivity.
Qed.

Fixpoint wsum_abs (bnd : nat -> R) (k : nat) (cs : list R) : R :=
  match cs with nil => 0 | c :: t => Rabs c * bnd k + wsum_abs bnd (S k) t end.

Lemma err_sum_bound : forall (r : rule Rops) (a b : R) (bnd : nat -> R) cs k,
  (forall j, (k <= j < k + length cs)%nat -> Rabs (mono_err r a b j) <= bnd j) ->
  Rabs (err_sum r a b k cs) <= wsum_abs bnd k cs.
Proof.
  intros r a b bnd; induction cs as [|c t IH]; intros k H; cbn [err_sum wsum_abs].
  - rewrite Rabs_R0. lra.
  - eapply Rle_trans; [apply Rabs_triang|]. rewrite Rabs_mult.
    apply Rplus_le_compat.
    + apply Rmult_le_compat_l; [apply Rabs_pos|]. apply H. cbn [length]. lia.
    + apply IH. intros j Hj. apply H. cbn [length]. lia.
Qed.

(* complex coefficients: the same combination with the real monomial errors *)
Fixpoint cerr_sum (r : rule Rops) (a b : R) (k : nat) (cs : list C) : C :=
  match cs with nil => (0, 0) | c :: t => Cplus (Cmult (RtoC (mono_err r a b k)) c) (cerr_sum r a b (S k) t) end.

Lemma cerr_sum_fst : forall r a b cs k, fst (cerr_sum r a b k cs) = err_sum r a b k (map fst cs).
Proof.
  intros r a b; induction cs as [|c t IH]; intros k; cbn [cerr_sum err_sum map]; [reflexivity|].
  destruct c as [cr ci]. unfold Cplus, Cmult, RtoC. cbn [fst snd]. rewrite IH. ring.
Qed.
Lemma cerr_sum_snd : forall r a b cs k, snd (cerr_sum r a b k cs) = err_sum r a b k (map snd cs).
Proof.
  intros r a b; induction cs as [|c t IH]; intros k; cbn [cerr_sum err_sum map]; [reflexivity|].
  destruct c as [cr ci]. unfold Cplus, Cmult, RtoC. cbn [fst snd]. rewrite IH. ring.
Qed.

Lemma cpoly_err : forall (r : rule Rops) (a b : R) (cs : list C),
  Cminus (apply_rule Rops r (cpeval Rops cs)) (cpint Rops cs a b) = cerr_sum r a b 0 cs.
Proof.
  intros r a b cs. rewrite apply_rule_R. apply pair_eq.
  - rewrite cerr_sum_fst. unfold Cminus, Cplus, Copp. cbn [fst snd]. rewrite cpint_fst.
    rewrite (rapply_ext' r _ (peval (map fst cs))) by (intros x; apply cpeval_fst).
    rewrite <- poly_err. ring.
  - rewrite cerr_sum_snd. unfold Cminus, Cplus, Copp. cbn [fst snd]. rewrite cpint_snd.
    rewrite (rapply_ext' r _ (peval (map snd cs))) by (intros x; apply cpeval_snd).
    rewrite <- poly_err. ring.
Qed.

Fixpoint wsum_cmod (bnd : nat -> R) (k : nat) (cs : list C) : R :=
  match cs with nil => 0 | c :: t => Cmod c * bnd k + wsum_cmod bnd (S k) t end.

Lemma cerr_sum_bound : forall (r : rule Rops) (a b : R) (bnd : nat -> R) cs k,
  (forall j, (k <= j < k + length cs)%nat -> Rabs (mono_err r a b j) <= bnd j) ->
  Cmod (cerr_sum r a b k cs) <= wsum_cmod bnd k cs.
Proof.
  intros r a b bnd; induction cs as [|c t IH]; intros k H; cbn [cerr_sum wsum_cmod].
  - change (0, 0) with (RtoC 0). rewrite Cmod_0. lra.
  - eapply Rle_trans; [apply Cmod_triangle|]. rewrite Cmod_mult, Cmod_R.
    apply Rplus_le_compat.
    + rewrite Rmult_comm. apply Rmult_le_compat_l; [apply Cmod_ge_0|]. apply H. cbn [length]. lia.
    + apply IH. intros j Hj. apply H. cbn [length]. lia.
Qed.

(* ------------------------------------------------------------------ the rule certificate on [-1,1] *)
Lemma leg_moment_eq : forall k, leg_moment k = (1 ^ (k + 1) - (-1) ^ (k + 1)) / INR (k + 1).
Proof. intros k. unfold leg_moment. rewrite pow1. reflexivity. Qed.

Lemma mono_err_leg : forall r k, mono_err r (-1) 1 k = moment r k - leg_moment k.
Proof. intros r k. unfold mono_err, moment. rewrite leg_moment_eq. reflexivity. Qed.

Lemma wsum_abs_const : forall eps cs k, wsum_abs (fun _ => eps) k cs = eps * sum_abs cs.
Proof. intros eps; induction cs as [|c t IH]; intros k; cbn [wsum_abs sum_abs fold_right]; [ring|]. rewrite IH. unfold sum_abs. ring. Qed.
Lemma wsum_cmod_const : forall eps cs k, wsum_cmod (fun _ => eps) k cs = eps * sum_cmod cs.
Proof. intros eps; induction cs as [|c t IH]; intros k; cbn [wsum_cmod sum_cmod fold_right]; [ring|]. rewrite IH. unfold sum_cmod. ring. Qed.

Theorem rule_certificate_real : forall (r : rule Rops) (d : nat) (eps : R),
  (forall k, (k <= d)%nat -> Rabs (moment r k - leg_moment k) <= eps) ->
  forall cs, (length cs <= S d)%nat -> Rabs (rapply r (peval cs) - pint cs (-1) 1) <= eps * sum_abs cs.
Proof.
  intros r d eps H cs Hl. rewrite poly_err. rewrite <- (wsum_abs_const eps cs 0).
  apply err_sum_bound. intros j Hj. rewrite mono_err_leg. apply H. lia.
Qed.

Theorem rule_certificate : forall (r : rule Rops) (d : nat) (eps : R),
  (forall k, (k <= d)%nat -> Rabs (moment r k - leg_moment k) <= eps) ->
  forall cs : list C, (length cs <= S d)%nat ->
  Cmod (Cminus (apply_rule Rops r (cpeval Rops cs)) (cpint Rops cs (-1) 1)) <= eps * sum_cmod cs.
Proof.
  intros r d eps H cs Hl. rewrite cpoly_err. rewrite <- (wsum_cmod_const eps cs 0).
  apply cerr_sum_bound. intros j Hj. rewrite mono_err_leg. apply H. lia.
Qed.

(* ------------------------------------------------------------------ affine transfer to [a,b] (gauss-quad's integrate) *)
Definition tr_u (a b : R) : R := (b - a) / 2.
Definition tr_v (a b : R) : R := (a + b) / 2.

Lemma rapply_transfer : forall (r : rule Rops) (a b : R) (f : R -> R),
  rapply (gq_transfer Rops r a b) f = tr_u a b * rapply r (fun x => f (tr_u a b * x + tr_v a b)).
Proof.
  intros r a b f. rewrite !fold_rapply. unfold gq_transfer, half. rewrite map_map, rsum_scal.
  apply rsum_ext. intros [x w] _. cbn [fst snd smul sadd ssub s_of_Q Rops]. unfold tr_u, tr_v.
  replace (Q2R (1 # 2)) with (/ 2) by (unfold Q2R; cbn; lra).
  replace (/ 2 * ((b - a) * x + (b + a))) with ((b - a) / 2 * x + (a + b) / 2) by field.
  field.
Qed.

Lemma pint_transfer : forall cs (a b : R),
  pint cs a b = tr_u a b * pint (pcomp_affine cs (tr_u a b) (tr_v a b)) (-1) 1.
Proof.
  intros cs a b. set (u := tr_u a b). set (v := tr_v a b).
  assert (Ha : a = u * -1 + v) by (unfold u, v, tr_u, tr_v; field).
  assert (Hb : b = u * 1 + v) by (unfold u, v, tr_u, tr_v; field).
  pose proof (pint_is_RInt cs a b) as H1. rewrite Ha, Hb in H1 at 1.
  apply (is_RInt_comp_lin (peval cs) u v (-1) 1) in H1.
  pose proof (pint_is_RInt (pcomp_affine cs u v) (-1) 1) as H2.
  apply (is_RInt_scal _ _ _ u) in H2.
  assert (H3 : is_RInt (fun y : R => scal u (peval cs (u * y + v))) (-1) 1 (scal u (pint (pcomp_affine cs u v) (-1) 1))).
  { eapply is_RInt_ext; [|exact H2]. intros x _. cbn. rewrite peval_pcomp_affine. reflexivity. }
  transitivity (RInt (fun y : R => scal u (peval cs (u * y + v))) (-1) 1).
  - symmetry. apply is_RInt_unique. exact H1.
  - rewrite (is_RInt_unique _ _ _ _ H3). reflexivity.
Qed.

Lemma sum_abs_padd : forall p q, sum_abs (padd p q) <= sum_abs p + sum_abs q.
Proof.
  induction p as [|x p IH]; intros [|y q]; cbn [padd sum_abs fold_right]; try lra.
  fold (sum_abs (padd p q)) (sum_abs p) (sum_abs q). specialize (IH q).
  pose proof (Rabs_triang x y). lra.
Qed.

Lemma sum_abs_pscale : forall s p, sum_abs (pscale s p) = Rabs s * sum_abs p.
Proof.
  intros s p; induction p as [|x p IH]; cbn [pscale map sum_abs fold_right]; [ring|].
  fold (pscale s p) (sum_abs (pscale s p)) (sum_abs p). rewrite IH, Rabs_mult. ring.
Qed.

Lemma sum_abs_nonneg : forall p, 0 <= sum_abs p.
Proof. induction p as [|x p IH]; cbn [sum_abs fold_right]; [lra|]. fold (sum_abs p). pose proof (Rabs_pos x). lra. Qed.

Lemma sum_abs_pcomp : forall cs u v, sum_abs (pcomp_affine cs u v) <= peval (map Rabs cs) (Rabs u + Rabs v).
Proof.
  induction cs as [|c t IH]; intros u v; cbn [pcomp_affine map peval].
  - cbn. lra.
  - eapply Rle_trans; [apply sum_abs_padd|].
    eapply Rle_trans; [apply Rplus_le_compat_l, sum_abs_padd|].
    rewrite sum_abs_pscale. cbn [sum_abs fold_right]. fold (sum_abs (pscale u (pcomp_affine t u v))).
    rewrite sum_abs_pscale, Rabs_R0. specialize (IH u v).
    pose proof (sum_abs_nonneg (pcomp_affine t u v)). pose proof (Rabs_pos u). pose proof (Rabs_pos v). nra.
Qed.

(* monomials *)
Definition monomial (k : nat) : list R := repeat 0 k ++ [1].
Lemma peval_monomial : forall k x, peval (monomial k) x = x ^ k.
Proof.
  intros k x. unfold monomial. rewrite peval_app, repeat_length. cbn [peval].
  replace (peval (repeat 0 k) x) with 0; [ring|].
  induction k as [|k IH]; cbn [repeat peval]; [reflexivity | rewrite <- IH; ring].
Qed.
Lemma peval_abs_monomial : forall k x, peval (map Rabs (monomial k)) x = x ^ k.
Proof.
  intros k x. unfold monomial. rewrite map_app, peval_app, map_length, repeat_length. cbn [map peval].
  rewrite Rabs_R1.
  replace (peval (map Rabs (repeat 0 k)) x) with 0; [ring|].
  induction k as [|k IH]; cbn [repeat map peval]; [reflexivity | rewrite <- IH, Rabs_R0; ring].
Qed.
Lemma pint_monomial : forall k (a b : R), pint (monomial k) a b = (b ^ (k + 1) - a ^ (k + 1)) / INR (k + 1).
Proof.
  intros k a b.
  assert (E : forall (r : rule Rops), rapply r (peval (monomial k)) - pint (monomial k) a b = mono_err r a b k).
  { intros r. rewrite poly_err. unfold monomial.
    assert (G : forall j, err_sum r a b j (repeat 0 k ++ [1]) = mono_err r a b (j + k)).
    { induction k as [|k IH]; intros j; cbn [repeat app err_sum].
      - replace (j + 0)%nat with j by lia. ring.
      - rewrite IH. replace (S j + k)%nat with (j + S k)%nat by lia. ring. }
    apply G. }
  specialize (E nil). unfold mono_err in E. cbn [rapply fold_right] in E. lra.
Qed.

(* monomial error of the transferred rule, from the certificate on [-1,1] *)
Definition tr_M (a b : R) : R := Rabs (tr_u a b) + Rabs (tr_v a b).

Lemma transfer_mono_err : forall (r : rule Rops) (d : nat) (eps : R) (a b : R),
  (forall k, (k <= d)%nat -> Rabs (moment r k - leg_moment k) <= eps) ->
  forall k, (k <= d)%nat ->
  Rabs (mono_err (gq_transfer Rops r a b) a b k) <= eps * Rabs (tr_u a b) * tr_M a b ^ k.
Proof.
  intros r d eps a b H k Hk. unfold mono_err. rewrite <- pint_monomial.
  rewrite rapply_transfer, pint_transfer.
  set (u := tr_u a b). set (v := tr_v a b). set (cs' := pcomp_affine (monomial k) u v).
  rewrite (rapply_ext' r _ (peval cs')).
  2:{ intros x. unfold cs'. rewrite peval_pcomp_affine, peval_monomial. reflexivity. }
  replace (u * rapply r (peval cs') - u * pint cs' (-1) 1) with (u * (rapply r (peval cs') - pint cs' (-1) 1)) by ring.
  rewrite Rabs_mult.
  assert (Hl : (length cs' <= S d)%nat).
  { unfold cs'. eapply Nat.le_trans; [apply pcomp_affine_length|]. unfold monomial. rewrite app_length, repeat_length. cbn. lia. }
  pose proof (rule_certificate_real r d eps H cs' Hl) as Hc.
  assert (He : 0 <= eps) by (eapply Rle_trans; [apply Rabs_pos | apply (H 0%nat); lia]).
  assert (Hs : sum_abs cs' <= tr_M a b ^ k).
  { unfold cs'. eapply Rle_trans; [apply sum_abs_pcomp|]. rewrite peval_abs_monomial. unfold tr_M, u, v. lra. }
  pose proof (Rabs_pos u). pose proof (sum_abs_nonneg cs').
  replace (eps * Rabs u * tr_M a b ^ k) with (Rabs u * (eps * tr_M a b ^ k)) by ring.
  apply Rmult_le_compat_l; [assumption|].
  eapply Rle_trans; [exact Hc|]. apply Rmult_le_compat_l; assumption.
Qed.

(* sum_k |c_k| M^k *)
Definition scale_cmod (cs : list C) (M : R) : R := peval (map Cmod cs) M.

Lemma wsum_cmod_pow : forall K M cs k, wsum_cmod (fun j => K * M ^ j) k cs = K * M ^ k * scale_cmod cs M.
Proof.
  intros K M; induction cs as [|c t IH]; intros k; unfold scale_cmod; cbn [wsum_cmod map peval]; [ring|].
  rewrite IH. unfold scale_cmod. cbn [pow]. ring.
Qed.

(* a rule certified on [-1,1] to degree d within eps, transferred to [a,b], integrates every complex polynomial of
   degree <= d within eps * |b-a|/2 * sum_k |c_k| M^k,  M = (|b-a| + |a+b|)/2 = max(|a|,|b|) *)
Theorem rule_certificate_transfer : forall (r : rule Rops) (d : nat) (eps : R),
  (forall k, (k <= d)%nat -> Rabs (moment r k - leg_moment k) <= eps) ->
  forall (a b : R) (cs : list C), (length cs <= S d)%nat ->
  Cmod (Cminus (apply_rule Rops (gq_transfer Rops r a b) (cpeval Rops cs)) (cpint Rops cs a b))
    <= eps * Rabs (tr_u a b) * scale_cmod cs (tr_M a b).
Proof.
  intros r d eps H a b cs Hl. rewrite cpoly_err.
  eapply Rle_trans.
  - apply (cerr_sum_bound _ a b (fun j => eps * Rabs (tr_u a b) * tr_M a b ^ j)).
    intros j Hj. apply (transfer_mono_err r d eps a b H). lia.
  - rewrite wsum_cmod_pow. cbn [pow]. lra.
Qed.

Lemma tr_M_max : forall a b : R, tr_M a b = Rmax (Rabs a) (Rabs b).
Proof.
  intros a b. unfold tr_M, tr_u, tr_v, Rmax.
  destruct (Rle_dec (Rabs a) (Rabs b)); unfold Rabs in *;
  repeat match goal with |- context [Rcase_abs ?x] => destruct (Rcase_abs x) | H : context [Rcase_abs ?x] |- _ => destruct (Rcase_abs x) end; lra.
Qed.

(* ------------------------------------------------------------------ tensor rules *)
Lemma rsum_flat_map : forall {A B} (g : B -> R) (F : A -> list B) (l : list A),
  rsum (map g (flat_map F l)) = rsum (map (fun y => rsum (map g (F y))) l).
Proof.
  intros A B g F l; induction l as [|y l IH]; cbn [flat_map map rsum]; [reflexivity|].
  rewrite map_app, rsum_app, IH. reflexivity.
Qed.

Lemma apply_rule2_tensor_R : forall (rx ry : rule Rops) (f : R -> R -> C),
  apply_rule2 Rops (tensor Rops rx ry) f =
  (rapply ry (fun y => rapply rx (fun x => fst (f x y))), rapply ry (fun y => rapply rx (fun x => snd (f x y)))).
Proof.
  intros rx ry f. unfold apply_rule2, tensor. rewrite vsum_R, !map_map, !rsum_flat_map, !fold_rapply.
  apply pair_eq; cbn [fst snd]; apply rsum_ext; intros [y wy] _; rewrite map_map;
    cbn [vscale smul Rops fst snd]; rewrite fold_rapply, rsum_scal; apply rsum_ext; intros [x wx] _; cbn [fst snd]; ring.
Qed.

(* a tensor rule on a separable integrand is the product of the 1-D results *)
Theorem tensor_separable : forall (rx ry : rule Rops) (p q : R -> C),
  apply_rule2 Rops (tensor Rops rx ry) (fun x y => Cmult (p x) (q y)) =
  Cmult (apply_rule Rops rx p) (apply_rule Rops ry q).
Proof.
  intros rx ry p q. rewrite apply_rule2_tensor_R, !apply_rule_R. unfold Cmult. cbn [fst snd].
  apply pair_eq; cbn [fst snd].
  - rewrite (rapply_ext' ry _ (fun y => fst (q y) * rapply rx (fun x => fst (p x)) + (- snd (q y)) * rapply rx (fun x => snd (p x)))).
    2:{ intros y. rewrite (rapply_ext' rx _ (fun x => fst (q y) * fst (p x) + (- snd (q y)) * snd (p x))) by (intros x; ring).
        rewrite rapply_plus, !rapply_scal. reflexivity. }
    rewrite rapply_plus.
    rewrite (rapply_ext' ry (fun x => fst (q x) * _) (fun y => rapply rx (fun x => fst (p x)) * fst (q y))) by (intros y; ring).
    rewrite (rapply_ext' ry (fun x => - snd (q x) * _) (fun y => (- rapply rx (fun x => snd (p x))) * snd (q y))) by (intros y; ring).
    rewrite !rapply_scal. ring.
  - rewrite (rapply_ext' ry _ (fun y => snd (q y) * rapply rx (fun x => fst (p x)) + fst (q y) * rapply rx (fun x => snd (p x)))).
    2:{ intros y. rewrite (rapply_ext' rx _ (fun x => snd (q y) * fst (p x) + fst (q y) * snd (p x))) by (intros x; ring).
        rewrite rapply_plus, !rapply_scal. reflexivity. }
    rewrite rapply_plus.
    rewrite (rapply_ext' ry (fun x => snd (q x) * _) (fun y => rapply rx (fun x => fst (p x)) * snd (q y))) by (intros y; ring).
    rewrite (rapply_ext' ry (fun x => fst (q x) * _) (fun y => rapply rx (fun x => snd (p x)) * fst (q y))) by (intros y; ring).
    rewrite !rapply_scal. ring.
Qed.

(* ------------------------------------------------------------------ reversal of a certified, transferred rule *)
Lemma cpint_reverse : forall cs (a b : R), cpint Rops cs b a = Copp (cpint Rops cs a b).
Proof.
  intros cs a b. apply pair_eq; unfold Copp; cbn [fst snd].
  - rewrite !cpint_fst. unfold pint. change (Sc Rops) with R. ring.
  - rewrite !cpint_snd. unfold pint. change (Sc Rops) with R. ring.
Qed.

Theorem rule_certificate_reverse : forall (r : rule Rops) (d : nat) (eps : R),
  (forall k, (k <= d)%nat -> Rabs (moment r k - leg_moment k) <= eps) ->
  forall (a b : R) (cs : list C), (length cs <= S d)%nat ->
  Cmod (Cplus (apply_rule Rops (gq_transfer Rops r b a) (cpeval Rops cs)) (apply_rule Rops (gq_transfer Rops r a b) (cpeval Rops cs)))
    <= 2 * (eps * Rabs (tr_u a b) * scale_cmod cs (tr_M a b)).
Proof.
  intros r d eps H a b cs Hl.
  pose proof (rule_certificate_transfer r d eps H a b cs Hl) as H1.
  pose proof (rule_certificate_transfer r d eps H b a cs Hl) as H2.
  replace (Rabs (tr_u b a)) with (Rabs (tr_u a b)) in H2
    by (unfold tr_u; replace ((a - b) / 2) with (- ((b - a) / 2)) by field; rewrite Rabs_Ropp; reflexivity).
  replace (tr_M b a) with (tr_M a b) in H2.
  2:{ unfold tr_M, tr_u, tr_v. replace ((a - b) / 2) with (- ((b - a) / 2)) by field. rewrite Rabs_Ropp.
      replace (b + a) with (a + b) by ring. reflexivity. }
  rewrite cpint_reverse in H2.
  set (X := apply_rule Rops (gq_transfer Rops r b a) (cpeval Rops cs)) in *.
  set (Y := apply_rule Rops (gq_transfer Rops r a b) (cpeval Rops cs)) in *.
  set (I := cpint Rops cs a b) in *.
  replace (Cplus X Y) with (Cplus (Cminus X (Copp I)) (Cminus Y I)).
  2:{ clearbody X Y I. clear H1 H2. destruct X, Y, I. cbv [Cplus Cminus Copp fst snd]. f_equal; ring. }
  eapply Rle_trans; [apply Cmod_triangle|]. lra.
Qed.

(* corollaries for the translated Simpson entry point are in C12_simpson.v / C12_simpson2d.v *)
