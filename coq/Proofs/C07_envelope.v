(* C07 clause 2: the Gaussian pump envelope (generated pump_spectral_amplitude / fwhm_to_spectral_width) has amplitude 1 at
   the pump centre frequency and intensity exactly 1/2 at ± half the frequency span of the wavelength FWHM; the raw joint
   amplitude is envelope(ωs+ωi) · phasematching when not short-circuited. *)
From Coq Require Import Reals Bool Lra List.
From SpdVerif Require Import Base.Rx Model.SpectrumSetup Gen.Spectrum.
Local Open Scope R_scope.

(* the pump's centre wavelength as the code computes it, and the frequency span of the wavelength FWHM *)
Definition lambda_p (s : setup) : R := frequency_to_vacuum_wavelength (omega_p s).
Definition fwhm_span (s : setup) : R :=
  vacuum_wavelength_to_frequency (lambda_p s - 0.5 * fwhm s) - vacuum_wavelength_to_frequency (lambda_p s + 0.5 * fwhm s).
Definition spectral_width (s : setup) : R := fwhm_to_spectral_width (lambda_p s) (fwhm s).

Lemma ln2_pos : 0 < ln 2.
Proof. pose proof ln_lt_2. lra. Qed.
Lemma sqrt_2ln2_pos : 0 < sqrt (2 * ln 2).
Proof. apply sqrt_lt_R0. pose proof ln2_pos. lra. Qed.
Lemma sqrt_2ln2_sq : sqrt (2 * ln 2) * sqrt (2 * ln 2) = 2 * ln 2.
Proof. apply sqrt_sqrt. pose proof ln2_pos. lra. Qed.

Lemma spectral_width_eq s : spectral_width s = fwhm_span s / sqrt (2 * ln 2).
Proof. reflexivity. Qed.

(* the envelope is the Gaussian exp(-((ω-ωp)/w)²) *)
Lemma envelope_gaussian w s :
  pump_spectral_amplitude w s = exp (- ((w - omega_p s) / spectral_width s) ^ 2).
Proof. unfold pump_spectral_amplitude, spectral_width, lambda_p. f_equal. ring. Qed.

Lemma envelope_center s : pump_spectral_amplitude (omega_p s) s = 1.
Proof.
  rewrite envelope_gaussian. replace (omega_p s - omega_p s) with 0 by ring.
  unfold Rdiv. rewrite Rmult_0_l. replace (- 0 ^ 2) with 0 by ring. apply exp_0.
Qed.

Lemma envelope_range w s : 0 < pump_spectral_amplitude w s <= 1.
Proof.
  rewrite envelope_gaussian. split; [apply exp_pos|].
  rewrite <- exp_0. set (x := _ / _).
  destruct (Req_dec (x ^ 2) 0) as [E|E]; [rewrite E, Ropp_0; lra|].
  left. apply exp_increasing. pose proof (pow2_ge_0 x). lra.
Qed.

Lemma envelope_even d s : pump_spectral_amplitude (omega_p s + d) s = pump_spectral_amplitude (omega_p s - d) s.
Proof. rewrite !envelope_gaussian. f_equal. unfold Rdiv. ring. Qed.

(* strictly decreasing away from the centre *)
Lemma envelope_decreasing d1 d2 s :
  spectral_width s <> 0 -> Rabs d1 < Rabs d2 ->
  pump_spectral_amplitude (omega_p s + d2) s < pump_spectral_amplitude (omega_p s + d1) s.
Proof.
  intros Hw Hd. rewrite !envelope_gaussian. apply exp_increasing.
  replace (omega_p s + d2 - omega_p s) with d2 by ring. replace (omega_p s + d1 - omega_p s) with d1 by ring.
  apply Ropp_lt_contravar.
  replace ((d1 / spectral_width s) ^ 2) with (Rsqr (d1 / spectral_width s)) by (unfold Rsqr; ring).
  replace ((d2 / spectral_width s) ^ 2) with (Rsqr (d2 / spectral_width s)) by (unfold Rsqr; ring).
  apply Rsqr_lt_abs_1. unfold Rdiv. rewrite !Rabs_mult.
  apply Rmult_lt_compat_r; [|assumption]. apply Rabs_pos_lt, Rinv_neq_0_compat, Hw.
Qed.

(* intensity 1/2 at ± half the frequency span of the wavelength FWHM; exp(-ln2/2)² = 1/2 *)
Lemma half_arg s : fwhm_span s <> 0 -> ((fwhm_span s / 2) / spectral_width s) ^ 2 = ln 2 / 2.
Proof.
  intros Hs. rewrite spectral_width_eq. pose proof sqrt_2ln2_pos as Hq.
  replace (fwhm_span s / 2 / (fwhm_span s / sqrt (2 * ln 2))) with (sqrt (2 * ln 2) / 2) by (field; lra).
  replace ((sqrt (2 * ln 2) / 2) ^ 2) with (sqrt (2 * ln 2) * sqrt (2 * ln 2) / 4) by field.
  rewrite sqrt_2ln2_sq. field.
Qed.

Lemma exp_half_ln2_sq : exp (- (ln 2 / 2)) ^ 2 = 1 / 2.
Proof.
  replace (exp (- (ln 2 / 2)) ^ 2) with (exp (- (ln 2 / 2)) * exp (- (ln 2 / 2))) by ring.
  rewrite <- exp_plus. replace (- (ln 2 / 2) + - (ln 2 / 2)) with (- ln 2) by field.
  rewrite exp_Ropp, exp_ln by lra. lra.
Qed.

Lemma envelope_half_max s :
  fwhm_span s <> 0 ->
  pump_spectral_amplitude (omega_p s + fwhm_span s / 2) s ^ 2 = 1 / 2 /\
  pump_spectral_amplitude (omega_p s - fwhm_span s / 2) s ^ 2 = 1 / 2.
Proof.
  intros Hs. rewrite <- envelope_even. split; rewrite envelope_gaussian;
  replace (omega_p s + fwhm_span s / 2 - omega_p s) with (fwhm_span s / 2) by ring;
  rewrite half_arg by assumption; apply exp_half_ln2_sq.
Qed.

(* conversely: the only offsets with intensity 1/2 are ± half the span (so the width is pinned, not just one point) *)
Lemma envelope_half_max_only d s :
  fwhm_span s <> 0 -> pump_spectral_amplitude (omega_p s + d) s ^ 2 = 1 / 2 -> Rabs d = Rabs (fwhm_span s / 2).
Proof.
  intros Hs H. destruct (envelope_half_max s Hs) as [Hh _].
  assert (Hw : spectral_width s <> 0).
  { rewrite spectral_width_eq. pose proof sqrt_2ln2_pos. unfold Rdiv. apply Rmult_integral_contrapositive_currified; [assumption|].
    apply Rinv_neq_0_compat; lra. }
  destruct (Rtotal_order (Rabs d) (Rabs (fwhm_span s / 2))) as [L|[E|G]]; [exfalso| exact E |exfalso].
  - pose proof (envelope_decreasing _ _ s Hw L) as D.
    pose proof (envelope_range (omega_p s + d) s). pose proof (envelope_range (omega_p s + fwhm_span s / 2) s).
    assert (pump_spectral_amplitude (omega_p s + fwhm_span s / 2) s ^ 2 < pump_spectral_amplitude (omega_p s + d) s ^ 2) by nra.
    lra.
  - pose proof (envelope_decreasing _ _ s Hw G) as D.
    pose proof (envelope_range (omega_p s + d) s). pose proof (envelope_range (omega_p s + fwhm_span s / 2) s).
    assert (pump_spectral_amplitude (omega_p s + d) s ^ 2 < pump_spectral_amplitude (omega_p s + fwhm_span s / 2) s ^ 2) by nra.
    lra.
Qed.

(* the span is positive (so the width is) for a physical pump: ωp > 0 and 0 < fwhm < 2 λp *)
Lemma lambda_p_pos s : 0 < omega_p s -> 0 < lambda_p s.
Proof.
  intros H. unfold lambda_p, frequency_to_vacuum_wavelength.
  apply Rdiv_lt_0_compat; [|lra]. pose proof PI_RGT_0. lra.
Qed.

Lemma fwhm_span_pos s : 0 < omega_p s -> 0 < fwhm s < 2 * lambda_p s -> 0 < fwhm_span s.
Proof.
  intros Hw [Hf1 Hf2]. unfold fwhm_span, vacuum_wavelength_to_frequency.
  set (l := lambda_p s) in *. set (K := 2 * PI * 1 * 299792458).
  assert (HK : 0 < K) by (unfold K; pose proof PI_RGT_0; lra).
  assert (H1 : 0 < (l - 0.5 * fwhm s) * 1) by lra.
  assert (H2 : (l - 0.5 * fwhm s) * 1 < (l + 0.5 * fwhm s) * 1) by lra.
  assert (/ ((l + 0.5 * fwhm s) * 1) < / ((l - 0.5 * fwhm s) * 1)) by (apply Rinv_lt_contravar; [apply Rmult_lt_0_compat|]; lra).
  unfold Rdiv. nra.
Qed.

Lemma wavelength_frequency_roundtrip l : l <> 0 ->
  frequency_to_vacuum_wavelength (vacuum_wavelength_to_frequency l) = l.
Proof.
  intros H. unfold frequency_to_vacuum_wavelength, vacuum_wavelength_to_frequency.
  pose proof PI_RGT_0. field. split; lra.
Qed.

(* ---- jsa_raw = envelope(ωs+ωi) · phasematching, jsi_singles_raw = envelope² · singles phasematching, when not short-circuited *)
Lemma jsa_raw_product ws wi s :
  invalid_frequencies ws wi s = false -> threshold s <= pump_spectral_amplitude (ws + wi) s ->
  jsa_raw ws wi s = (pump_spectral_amplitude (ws + wi) s * pm_re s ws wi, pump_spectral_amplitude (ws + wi) s * pm_im s ws wi)
  /\ jsi_singles_raw ws wi s = pump_spectral_amplitude (ws + wi) s ^ 2 * pm_singles s ws wi.
Proof.
  intros Hi Ht. unfold jsa_raw, jsi_singles_raw. rewrite Hi.
  destruct (bool_dec false true) as [F|_]; [discriminate F|].
  destruct (Rlt_dec _ (threshold s)) as [L|_]; [lra|].
  split; [f_equal|]; field.
Qed.

(* ---- the same statements under the generated definedness predicate (no statement rests on Coq's total division: where
        the Rust code would form 0/0 or x/0 — fwhm = 0, fwhm = 2 lambda_p, omega_p = 0 — the predicate is false) *)
Lemma defined_span_nonzero w s : pump_spectral_amplitude_defined w s -> fwhm_span s <> 0 /\ spectral_width s <> 0.
Proof.
  intros (_ & _ & Hw). fold (lambda_p s) in Hw. fold (spectral_width s) in Hw. split; [|exact Hw].
  intros E. apply Hw. rewrite spectral_width_eq, E. unfold Rdiv. ring.
Qed.

Lemma envelope_center_defined s : pump_spectral_amplitude_defined (omega_p s) s -> pump_spectral_amplitude (omega_p s) s = 1.
Proof. intros _. apply envelope_center. Qed.

Lemma envelope_half_max_defined s :
  pump_spectral_amplitude_defined (omega_p s) s ->
  pump_spectral_amplitude (omega_p s + fwhm_span s / 2) s ^ 2 = 1 / 2 /\
  pump_spectral_amplitude (omega_p s - fwhm_span s / 2) s ^ 2 = 1 / 2.
Proof. intros H. apply envelope_half_max. apply (defined_span_nonzero _ _ H). Qed.

Lemma envelope_half_max_only_defined d s :
  pump_spectral_amplitude_defined (omega_p s) s ->
  pump_spectral_amplitude (omega_p s + d) s ^ 2 = 1 / 2 -> Rabs d = Rabs (fwhm_span s / 2).
Proof. intros H. apply envelope_half_max_only. apply (defined_span_nonzero _ _ H). Qed.

(* the predicate really excludes the degenerate bandwidths *)
Lemma not_defined_at_double_lambda w s : fwhm s = 2 * lambda_p s -> ~ pump_spectral_amplitude_defined w s.
Proof.
  intros E (_ & (H1 & _) & _). fold (lambda_p s) in H1. unfold vacuum_wavelength_to_frequency_defined in H1. apply H1. rewrite E. lra.
Qed.
Lemma not_defined_at_zero_bandwidth w s : fwhm s = 0 -> ~ pump_spectral_amplitude_defined w s.
Proof.
  intros E (_ & _ & Hw). apply Hw. fold (lambda_p s). unfold fwhm_to_spectral_width. rewrite E.
  replace (lambda_p s - 0.5 * 0) with (lambda_p s + 0.5 * 0) by lra. unfold Rdiv. ring.
Qed.
