(* C10 — four-fold sums: flattening of the two row-major index loops, permutations of the summation order, and the
   factorisation of sums in which the four indices split into two pairs. *)
From Coq Require Import Reals Lra Lia Arith.
From SpdVerif Require Import Model.FinSum Proofs.FinSum_lemmas.
Local Open Scope R_scope.

Definition rsum4 (n : nat) (T : nat -> nat -> nat -> nat -> R) : R :=
  rsum n (fun a => rsum n (fun b => rsum n (fun c => rsum n (fun d => T a b c d)))).

Lemma rsum4_ext n T T' :
  (forall a b c d, (a < n)%nat -> (b < n)%nat -> (c < n)%nat -> (d < n)%nat -> T a b c d = T' a b c d) ->
  rsum4 n T = rsum4 n T'.
Proof.
  intros H. unfold rsum4. apply rsum_ext; intros a Ha. apply rsum_ext; intros b Hb.
  apply rsum_ext; intros c Hc. apply rsum_ext; intros d Hd. apply H; assumption.
Qed.

Lemma rsum4_add n T T' : rsum4 n (fun a b c d => T a b c d + T' a b c d) = rsum4 n T + rsum4 n T'.
Proof.
  unfold rsum4. rewrite <- rsum_add. apply rsum_ext; intros a _. rewrite <- rsum_add. apply rsum_ext; intros b _.
  rewrite <- rsum_add. apply rsum_ext; intros c _. apply rsum_add.
Qed.

Lemma rsum4_sub n T T' : rsum4 n (fun a b c d => T a b c d - T' a b c d) = rsum4 n T - rsum4 n T'.
Proof.
  unfold rsum4. rewrite <- rsum_sub. apply rsum_ext; intros a _. rewrite <- rsum_sub. apply rsum_ext; intros b _.
  rewrite <- rsum_sub. apply rsum_ext; intros c _. apply rsum_sub.
Qed.

Lemma rsum4_scal n k T : rsum4 n (fun a b c d => k * T a b c d) = k * rsum4 n T.
Proof.
  unfold rsum4. rewrite <- rsum_scal_l. apply rsum_ext; intros a _. rewrite <- rsum_scal_l. apply rsum_ext; intros b _.
  rewrite <- rsum_scal_l. apply rsum_ext; intros c _. apply rsum_scal_l.
Qed.

Lemma rsum4_le n T T' :
  (forall a b c d, (a < n)%nat -> (b < n)%nat -> (c < n)%nat -> (d < n)%nat -> T a b c d <= T' a b c d) ->
  rsum4 n T <= rsum4 n T'.
Proof.
  intros H. unfold rsum4. apply rsum_le; intros a Ha. apply rsum_le; intros b Hb.
  apply rsum_le; intros c Hc. apply rsum_le; intros d Hd. apply H; assumption.
Qed.

Lemma rsum4_nonneg n T :
  (forall a b c d, 0 <= T a b c d) -> 0 <= rsum4 n T.
Proof.
  intros H. unfold rsum4. apply rsum_nonneg; intros a _. apply rsum_nonneg; intros b _.
  apply rsum_nonneg; intros c _. apply rsum_nonneg; intros d _. apply H.
Qed.

(* the two nested row-major loops: index1 = a*n + b, index2 = c*n + d *)
Lemma rsum_flat2 n (phi : nat -> nat -> R) :
  rsum (n * n) (fun index1 => rsum (n * n) (fun index2 => phi index1 index2))
  = rsum4 n (fun a b c d => phi (a * n + b)%nat (c * n + d)%nat).
Proof.
  unfold rsum4. rewrite rsum_flat. apply rsum_ext; intros a _. apply rsum_ext; intros b _. apply rsum_flat.
Qed.

(* sum_a sum_b sum_c sum_d  =  sum_b sum_d sum_a sum_c *)
Lemma rsum4_perm_bdac n T : rsum4 n T = rsum4 n (fun b d a c => T a b c d).
Proof.
  unfold rsum4. rewrite rsum_switch. apply rsum_ext; intros b _.
  rewrite (rsum_ext n _ (fun a => rsum n (fun d => rsum n (fun c => T a b c d)))) by (intros; apply rsum_switch).
  apply rsum_switch.
Qed.

(* pair factorisations: each of the four indices is used once *)
Lemma rsum4_pairs_ab_cd n (phi psi : nat -> R) :
  rsum4 n (fun a b c d => phi (a * n + b)%nat * psi (c * n + d)%nat) = rsum (n * n) phi * rsum (n * n) psi.
Proof.
  unfold rsum4. rewrite !rsum_flat.
  set (Psi := rsum n (fun c => rsum n (fun d => psi (c * n + d)%nat))).
  rewrite <- rsum_scal_r. apply rsum_ext; intros a _.
  rewrite <- rsum_scal_r. apply rsum_ext; intros b _.
  unfold Psi. rewrite <- rsum_scal_l. apply rsum_ext; intros c _. rewrite <- rsum_scal_l. reflexivity.
Qed.

(* phi at (a, d), psi at (c, b) *)
Lemma rsum4_pairs_ad_cb n (phi psi : nat -> R) :
  rsum4 n (fun a b c d => phi (a * n + d)%nat * psi (c * n + b)%nat) = rsum (n * n) phi * rsum (n * n) psi.
Proof.
  unfold rsum4. rewrite !rsum_flat.
  rewrite (rsum_ext n _ (fun a => rsum n (fun d => phi (a * n + d)%nat) * rsum n (fun c => rsum n (fun b => psi (c * n + b)%nat)))).
  - rewrite rsum_scal_r. reflexivity.
  - intros a _. rewrite (rsum_switch n n (fun c b => psi (c * n + b)%nat)).
    rewrite <- rsum_scal_l. apply rsum_ext; intros b _. rewrite <- rsum_scal_l. apply rsum_ext; intros c _.
    rewrite rsum_scal_r. ring.
Qed.

(* phi at (a, c), psi at (b, d) *)
Lemma rsum4_pairs_ac_bd n (phi psi : nat -> R) :
  rsum4 n (fun a b c d => phi (a * n + c)%nat * psi (b * n + d)%nat) = rsum (n * n) phi * rsum (n * n) psi.
Proof.
  unfold rsum4. rewrite !rsum_flat, rsum_mul. apply rsum_ext; intros a _. apply rsum_ext; intros b _.
  rewrite rsum_mul. reflexivity.
Qed.
