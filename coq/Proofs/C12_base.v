(* C12 — basic lemmas: sums over lists, integer ranges, the real/complex instance of the operation record,
   polynomials (Horner evaluation, antiderivative, Riemann integral). *)
From Coq Require Import Reals QArith ZArith List Bool Lra Lia.
From Coquelicot Require Import Coquelicot.
From SpdVerif Require Import Base.NumOps Gen.Integration Model.Quadrature.
Import ListNotations.
Local Open Scope R_scope.

(* ------------------------------------------------------------------ sums *)
Fixpoint rsum (l : list R) : R := match l with nil => 0 | x :: t => x + rsum t end.

Lemma rsum_app : forall l1 l2, rsum (l1 ++ l2) = rsum l1 + rsum l2.
Proof. induction l1 as [|x l1 IH]; intros l2; cbn; [lra | rewrite IH; lra]. Qed.

Lemma rsum_scal : forall {A} (c : R) (g : A -> R) l, c * rsum (map g l) = rsum (map (fun x => c * g x) l).
Proof. intros A c g l; induction l as [|x l IH]; cbn; [lra | rewrite <- IH; lra]. Qed.

Lemma rsum_plus : forall {A} (g h : A -> R) l,
  rsum (map (fun x => g x + h x) l) = rsum (map g l) + rsum (map h l).
Proof. intros A g h l; induction l as [|x l IH]; cbn; [lra | rewrite IH; lra]. Qed.

Lemma rsum_minus : forall {A} (g h : A -> R) l,
  rsum (map (fun x => g x - h x) l) = rsum (map g l) - rsum (map h l).
Proof. intros A g h l; induction l as [|x l IH]; cbn; [lra | rewrite IH; lra]. Qed.

Lemma rsum_ext : forall {A} (g h : A -> R) l, (forall x, In x l -> g x = h x) -> rsum (map g l) = rsum (map h l).
Proof.
  intros A g h l; induction l as [|x l IH]; intros H; cbn; [reflexivity|].
  rewrite (H x (or_introl eq_refl)), IH; [reflexivity | intros y Hy; apply H; right; exact Hy].
Qed.

Lemma rsum_rev : forall l, rsum (rev l) = rsum l.
Proof. induction l as [|x l IH]; cbn; [reflexivity | rewrite rsum_app, IH; cbn; lra]. Qed.

Lemma rsum_zero : forall {A} (l : list A), rsum (map (fun _ => 0) l) = 0.
Proof. intros A l; induction l as [|x l IH]; cbn; [reflexivity | rewrite IH; lra]. Qed.

Lemma rsum_abs_le : forall {A} (g : A -> R) l, Rabs (rsum (map g l)) <= rsum (map (fun x => Rabs (g x)) l).
Proof.
  intros A g l; induction l as [|x l IH]; cbn.
  - rewrite Rabs_R0; lra.
  - eapply Rle_trans; [apply Rabs_triang | lra].
Qed.

Lemma fold_rapply : forall (r : rule Rops) f, rapply r f = rsum (map (fun nw => snd nw * f (fst nw)) r).
Proof. intros r f; induction r as [|x r IH]; cbn; [reflexivity | rewrite <- IH; reflexivity]. Qed.

(* ------------------------------------------------------------------ complex sums in the real instance *)
Lemma vsum_R_acc : forall (l : list C) (acc : C),
  fold_left (vadd Rops) l acc = (fst acc + rsum (map fst l), snd acc + rsum (map snd l)).
Proof.
  induction l as [|x l IH]; intros acc; cbn [fold_left map rsum].
  - destruct acc; cbn; f_equal; lra.
  - rewrite IH. cbn [vadd Rops fst snd]. f_equal; lra.
Qed.

Lemma vsum_R : forall l : list C, vsum Rops l = (rsum (map fst l), rsum (map snd l)).
Proof.
  intros l. unfold vsum. rewrite vsum_R_acc. unfold vzero. cbn [vmk Rops fst snd s_of_Z]. f_equal; lra.
Qed.

Lemma apply_rule_R : forall (r : rule Rops) (f : R -> C),
  apply_rule Rops r f = (rapply r (fun x => fst (f x)), rapply r (fun x => snd (f x))).
Proof.
  intros r f. unfold apply_rule. rewrite vsum_R, !map_map, !fold_rapply. reflexivity.
Qed.

Lemma pair_eq : forall (u v : C), fst u = fst v -> snd u = snd v -> u = v.
Proof. intros [a b] [c d]; cbn; intros -> ->; reflexivity. Qed.

(* ------------------------------------------------------------------ integer ranges *)
Lemma zseq_length : forall n lo, length (zseq lo n) = n.
Proof. induction n as [|n IH]; intros lo; cbn; [reflexivity | rewrite IH; reflexivity]. Qed.

Lemma zseq_In : forall n lo i, In i (zseq lo n) <-> (lo <= i < lo + Z.of_nat n)%Z.
Proof.
  induction n as [|n IH]; intros lo i; cbn [zseq In].
  - lia.
  - rewrite IH. lia.
Qed.

Lemma zseq_snoc : forall n lo, zseq lo (S n) = zseq lo n ++ [(lo + Z.of_nat n)%Z].
Proof.
  induction n as [|n IH]; intros lo.
  - cbn. f_equal. lia.
  - change (zseq lo (S (S n))) with (lo :: zseq (lo + 1) (S n)).
    rewrite IH. cbn [zseq app]. f_equal. f_equal. f_equal. lia.
Qed.

Lemma zseq_app : forall n1 n2 lo, zseq lo (n1 + n2) = zseq lo n1 ++ zseq (lo + Z.of_nat n1) n2.
Proof.
  induction n1 as [|n1 IH]; intros n2 lo.
  - cbn. f_equal. lia.
  - cbn [Nat.add zseq app]. rewrite IH. f_equal. f_equal. f_equal. lia.
Qed.

Lemma zseq_shift : forall n lo k, zseq (lo + k) n = map (fun i => (i + k)%Z) (zseq lo n).
Proof.
  induction n as [|n IH]; intros lo k; cbn; [reflexivity|].
  f_equal. replace (lo + k + 1)%Z with (lo + 1 + k)%Z by lia. apply IH.
Qed.

(* reversal: i |-> lo + hi - i maps the range onto itself, reversed *)
Lemma zseq_rev : forall n lo, rev (zseq lo n) = map (fun i => (2 * lo + Z.of_nat n - 1 - i)%Z) (zseq lo n).
Proof.
  induction n as [|n IH]; intros lo; [reflexivity|].
  rewrite zseq_snoc at 1. rewrite rev_app_distr. cbn [rev app].
  cbn [zseq map]. f_equal; [lia|].
  rewrite IH. rewrite (zseq_shift n lo 1), !map_map. apply map_ext_in. intros i _. lia.
Qed.

Lemma zrange_incl_In : forall lo hi i, In i (zrange_incl lo hi) <-> (lo <= i <= hi)%Z.
Proof. intros lo hi i. unfold zrange_incl. rewrite zseq_In. lia. Qed.

Lemma zrange_In : forall lo hi i, In i (zrange lo hi) <-> (lo <= i < hi)%Z.
Proof. intros lo hi i. unfold zrange. rewrite zseq_In. lia. Qed.

Lemma zenum_from_map : forall {A} (l : list A) k (g : Z -> A),
  l = map g (zseq k (length l)) -> zenum_from k l = map (fun i => (i, g i)) (zseq k (length l)).
Proof.
  intros A l; induction l as [|x l IH]; intros k g H; cbn in *; [reflexivity|].
  injection H as Hx Hl. f_equal; [rewrite Hx; reflexivity|]. apply IH. exact Hl.
Qed.

Lemma zenumerate_map_zseq : forall {A} (g : Z -> A) n,
  zenumerate (map g (zseq 0 n)) = map (fun i => (i, g i)) (zseq 0 n).
Proof.
  intros A g n. unfold zenumerate.
  pose proof (zenum_from_map (map g (zseq 0 n)) 0%Z g) as H.
  rewrite map_length, zseq_length in H. apply H. reflexivity.
Qed.

(* sum of an indicator over a range *)
Lemma rsum_indicator : forall (g : Z -> R) k n lo,
  rsum (map (fun i => if (i =? k)%Z then g i else 0) (zseq lo n)) =
  if ((lo <=? k) && (k <? lo + Z.of_nat n))%Z%bool then g k else 0.
Proof.
  intros g k; induction n as [|n IH]; intros lo.
  - cbn. destruct (lo <=? k)%Z eqn:E1; destruct (k <? lo + 0)%Z eqn:E2; cbn; try reflexivity. lia.
  - cbn [zseq map rsum].
    rewrite IH.
    destruct (lo =? k)%Z eqn:E.
    + apply Z.eqb_eq in E. subst k.
      replace ((lo + 1 <=? lo)%Z) with false by (symmetry; apply Z.leb_gt; lia).
      replace ((lo <=? lo)%Z) with true by (symmetry; apply Z.leb_le; lia).
      replace ((lo <? lo + Z.of_nat (S n))%Z) with true by (symmetry; apply Z.ltb_lt; lia).
      cbn. lra.
    + apply Z.eqb_neq in E.
      destruct (lo + 1 <=? k)%Z eqn:E1; destruct (k <? lo + 1 + Z.of_nat n)%Z eqn:E2;
      destruct (lo <=? k)%Z eqn:E3; destruct (k <? lo + Z.of_nat (S n))%Z eqn:E4; cbn; try lra;
      repeat match goal with
      | H : (_ <=? _)%Z = true |- _ => apply Z.leb_le in H
      | H : (_ <=? _)%Z = false |- _ => apply Z.leb_gt in H
      | H : (_ <? _)%Z = true |- _ => apply Z.ltb_lt in H
      | H : (_ <? _)%Z = false |- _ => apply Z.ltb_ge in H
      end; lia.
Qed.

(* ------------------------------------------------------------------ real polynomials *)
Lemma peval_app : forall p q x, peval (p ++ q) x = peval p x + x ^ length p * peval q x.
Proof.
  induction p as [|c p IH]; intros q x; cbn [app peval length pow]; [lra | rewrite IH; lra].
Qed.

Lemma peval_sum : forall cs x, peval cs x = rsum (map (fun kc => snd kc * x ^ fst kc) (combine (seq 0 (length cs)) cs)).
Proof.
  intros cs x.
  assert (G : forall k, x ^ k * peval cs x = rsum (map (fun kc => snd kc * x ^ fst kc) (combine (seq k (length cs)) cs))).
  { induction cs as [|c cs IH]; intros k; cbn [peval length seq combine map rsum]; [lra|].
    rewrite <- IH. cbn [fst snd pow]. lra. }
  specialize (G 0%nat). cbn [pow] in G. lra.
Qed.

Lemma peval_padd : forall p q x, peval (padd p q) x = peval p x + peval q x.
Proof.
  induction p as [|a p IH]; intros [|b q] x; cbn [padd peval]; try lra. rewrite IH. lra.
Qed.

Lemma peval_pscale : forall s p x, peval (pscale s p) x = s * peval p x.
Proof. intros s p x; induction p as [|a p IH]; cbn [pscale map peval]; [lra|]. fold (pscale s p). rewrite IH. lra. Qed.

Lemma peval_pcomp_affine : forall cs alpha beta x, peval (pcomp_affine cs alpha beta) x = peval cs (alpha * x + beta).
Proof.
  induction cs as [|c cs IH]; intros alpha beta x; cbn [pcomp_affine peval]; [reflexivity|].
  rewrite !peval_padd. cbn [peval]. rewrite !peval_pscale, IH. lra.
Qed.

Lemma padd_length : forall p q, length (padd p q) = Nat.max (length p) (length q).
Proof. induction p as [|a p IH]; intros [|b q]; cbn [padd length Nat.max]; try reflexivity. rewrite IH. reflexivity. Qed.

Lemma pcomp_affine_length : forall cs alpha beta, (length (pcomp_affine cs alpha beta) <= length cs)%nat.
Proof.
  induction cs as [|c cs IH]; intros alpha beta; cbn [pcomp_affine length]; [lia|].
  rewrite !padd_length. cbn [length]. unfold pscale. rewrite !map_length. specialize (IH alpha beta). lia.
Qed.

(* derivative and integral *)
Lemma is_derive_ext_R (f g : R -> R) (x l : R) : (forall t : R, f t = g t) -> is_derive f x l -> is_derive g x l.
Proof. exact (is_derive_ext f g x l). Qed.

Lemma prim_from_derive : forall cs (k : nat) (x : R), (0 < k)%nat ->
  is_derive (fun y : R => y ^ k * peval (prim_from (Z.of_nat k) cs) y) x (x ^ (k - 1) * peval cs x).
Proof.
  induction cs as [|c cs IH]; intros k x Hk.
  - cbn [prim_from peval].
    apply (is_derive_ext_R (fun _ : R => 0)).
    + intros t. ring.
    + replace (x ^ (k - 1) * 0) with (@zero R_NormedModule) by (unfold zero; cbn; ring). apply @is_derive_const.
  - cbn [prim_from peval].
    apply (is_derive_ext_R (fun y => c / IZR (Z.of_nat k) * y ^ k + y ^ (S k) * peval (prim_from (Z.of_nat (S k)) cs) y)).
    { intros t. replace (Z.of_nat k + 1)%Z with (Z.of_nat (S k)) by lia. cbn [pow]. ring. }
    replace (x ^ (k - 1) * (c + x * peval cs x)) with
      (c / IZR (Z.of_nat k) * (INR k * x ^ (k - 1)) + x ^ (S k - 1) * peval cs x).
    2:{ rewrite <- INR_IZR_INZ. replace (S k - 1)%nat with (S (k - 1)) by lia. cbn [pow].
        field. apply not_0_INR. lia. }
    apply (is_derive_plus (V:=R_NormedModule)).
    + apply is_derive_scal. 
      replace (INR k * x ^ (k - 1)) with (INR k * 1 * x ^ Nat.pred k) by (replace (Nat.pred k) with (k - 1)%nat by lia; ring).
      apply (is_derive_pow (fun y => y) k x 1). apply (is_derive_id (K:=R_AbsRing)).
    + apply IH. lia.
Qed.

Lemma prim_derive : forall cs x, is_derive (peval (prim cs)) x (peval cs x).
Proof.
  intros cs x. unfold prim. 
  apply (is_derive_ext_R (fun y => y ^ 1 * peval (prim_from (Z.of_nat 1) cs) y)).
  { intros t. cbn [peval pow Z.of_nat Pos.of_succ_nat]. ring. }
  replace (peval cs x) with (x ^ (1 - 1) * peval cs x) by (cbn; ring).
  apply prim_from_derive. lia.
Qed.

Lemma peval_continuous : forall cs x, continuous (peval cs) x.
Proof.
  intros cs x. apply (ex_derive_continuous (peval cs) x).
  induction cs as [|c cs IH]; cbn [peval].
  - apply ex_derive_const.
  - apply @ex_derive_plus; [apply ex_derive_const|].
    apply @ex_derive_mult; [apply ex_derive_id | exact IH].
Qed.

(* the closed form [pint] IS the Riemann integral of the polynomial *)
Lemma pint_is_RInt : forall cs a b, is_RInt (peval cs) a b (pint cs a b).
Proof.
  intros cs a b. unfold pint.
  apply (is_RInt_derive (peval (prim cs)) (peval cs)).
  - intros x _. apply prim_derive.
  - intros x _. apply peval_continuous.
Qed.

(* ------------------------------------------------------------------ complex polynomials, componentwise *)
Lemma cpeval_fst : forall cs x, fst (cpeval Rops cs x) = peval (map fst cs) x.
Proof.
  induction cs as [|c cs IH]; intros x; cbn [cpeval map peval].
  - unfold vzero. cbn. reflexivity.
  - cbn [vadd vscale Rops fst snd]. rewrite IH. reflexivity.
Qed.

Lemma cpeval_snd : forall cs x, snd (cpeval Rops cs x) = peval (map snd cs) x.
Proof.
  induction cs as [|c cs IH]; intros x; cbn [cpeval map peval].
  - unfold vzero. cbn. reflexivity.
  - cbn [vadd vscale Rops fst snd]. rewrite IH. reflexivity.
Qed.

Lemma cprim_from_fst : forall cs k, map fst (cprim_from Rops k cs) = prim_from k (map fst cs).
Proof. induction cs as [|c cs IH]; intros k; cbn [cprim_from map prim_from]; [reflexivity|]. rewrite IH. reflexivity. Qed.

Lemma cprim_from_snd : forall cs k, map snd (cprim_from Rops k cs) = prim_from k (map snd cs).
Proof. induction cs as [|c cs IH]; intros k; cbn [cprim_from map prim_from]; [reflexivity|]. rewrite IH. reflexivity. Qed.

Lemma cpint_fst : forall cs a b, fst (cpint Rops cs a b) = pint (map fst cs) a b.
Proof.
  intros cs a b. unfold cpint, pint, cprim, prim. cbn [vsub Rops fst snd].
  rewrite !cpeval_fst. cbn [map]. rewrite cprim_from_fst. unfold vzero. cbn. reflexivity.
Qed.

Lemma cpint_snd : forall cs a b, snd (cpint Rops cs a b) = pint (map snd cs) a b.
Proof.
  intros cs a b. unfold cpint, pint, cprim, prim. cbn [vsub Rops fst snd].
  rewrite !cpeval_snd. cbn [map]. rewrite cprim_from_snd. unfold vzero. cbn. reflexivity.
Qed.

(* cpeval is the complex polynomial sum_k c_k x^k (Coquelicot's complex multiplication) *)
Lemma cpeval_Cmult : forall cs x, cpeval Rops cs x = 
  fold_right (fun c acc => Cplus c (Cmult (RtoC x) acc)) (RtoC 0) cs.
Proof.
  induction cs as [|c cs IH]; intros x; cbn [cpeval fold_right].
  - unfold vzero. cbn. reflexivity.
  - rewrite <- IH. destruct c as [cr ci]. destruct (cpeval Rops cs x) as [pr pi_].
    unfold Cplus, Cmult, RtoC. cbn. f_equal; ring.
Qed.

(* the complex integral, componentwise *)
Lemma cpint_is_RInt : forall cs a b,
  is_RInt (fun x => fst (cpeval Rops cs x)) a b (fst (cpint Rops cs a b)) /\
  is_RInt (fun x => snd (cpeval Rops cs x)) a b (snd (cpint Rops cs a b)).
Proof.
  intros cs a b. rewrite cpint_fst, cpint_snd. split.
  - apply (is_RInt_ext (peval (map fst cs))); [intros x _; symmetry; apply cpeval_fst | apply pint_is_RInt].
  - apply (is_RInt_ext (peval (map snd cs))); [intros x _; symmetry; apply cpeval_snd | apply pint_is_RInt].
Qed.
