(* Correctness of the Brzozowski-derivative matcher of Model/Regex.v with respect to the language semantics. *)
From Coq Require Import Ascii String List Bool Arith Lia.
From SpdVerif Require Import Model.Regex.
Import ListNotations.

Section Correct.
  Variable ci : bool.

  Lemma nullable_spec r : nullable r = true <-> lang ci r [].
  Proof.
    induction r; cbn [nullable lang].
    - split; [discriminate | tauto].
    - split; auto.
    - split; [discriminate | intros (c & H & _); discriminate].
    - rewrite andb_true_iff, IHr1, IHr2. split.
      + intros [H1 H2]. exists [], []. auto.
      + intros (s1 & s2 & H & H1 & H2). symmetry in H. apply app_eq_nil in H. destruct H; subst. auto.
    - rewrite orb_true_iff, IHr1, IHr2. tauto.
    - split; auto. intros _. exists []. split; [reflexivity | constructor].
  Qed.

  Lemma split_l1 (P : list ascii -> Prop) s : (exists s1 s2 : list ascii, s = s1 ++ s2 /\ False /\ P s2) <-> False.
  Proof. split; [intros (s1 & s2 & _ & H & _); exact H | tauto]. Qed.
  Lemma split_l2 (P : list ascii -> Prop) s : (exists s1 s2 : list ascii, s = s1 ++ s2 /\ s1 = [] /\ P s2) <-> P s.
  Proof. split; [intros (s1 & s2 & -> & -> & H); exact H | intros H; exists [], s; auto]. Qed.
  Lemma split_l3 (P : list ascii -> Prop) s : (exists s1 s2 : list ascii, s = s1 ++ s2 /\ P s1 /\ s2 = []) <-> P s.
  Proof.
    split; [intros (s1 & s2 & -> & H & ->); rewrite app_nil_r; exact H | intros H; exists s, []; rewrite app_nil_r; auto].
  Qed.
  Lemma split_l4 (P : list ascii -> Prop) s : (exists s1 s2 : list ascii, s = s1 ++ s2 /\ P s1 /\ False) <-> False.
  Proof. split; [intros (s1 & s2 & _ & _ & H); exact H | tauto]. Qed.

  Lemma cat'_spec a b s : lang ci (cat' a b) s <-> lang ci (Cat a b) s.
  Proof.
    destruct a; destruct b; unfold cat'; cbn [lang];
      first [ reflexivity
            | split; [tauto | intros (s1 & s2 & _ & H1 & H2); tauto]
            | split; [ intros H; exists [], s; split; [reflexivity | split; [reflexivity | exact H]]
                     | intros (s1 & s2 & -> & -> & H); exact H ]
            | split; [ intros H; exists s, []; rewrite app_nil_r; split; [reflexivity | split; [exact H | reflexivity]]
                     | intros (s1 & s2 & -> & H & ->); rewrite app_nil_r; exact H ] ].
  Qed.

  Lemma alt'_spec a b s : lang ci (alt' a b) s <-> lang ci (Alt a b) s.
  Proof.
    unfold alt'. cbn [lang]. destruct a; try (destruct b; cbn [lang]; tauto); cbn [lang]; tauto.
  Qed.

  Lemma deriv_spec r : forall c w, lang ci (deriv ci c r) w <-> lang ci r (c :: w).
  Proof.
    induction r as [| | cs | r1 IHr1 r2 IHr2 | r1 IHr1 r2 IHr2 | r IHr]; intros c w; cbn [deriv].
    - cbn [lang]. tauto.
    - cbn [lang]. split; [tauto | discriminate].
    - destruct (cs_match ci cs c) eqn:Hm; cbn [lang].
      + split; [intros ->; exists c; auto | intros (c' & H & _); inversion H; reflexivity].
      + split; [tauto | intros (c' & H & Hm'); inversion H; subst; congruence].
    - destruct (nullable r1) eqn:Hn.
      + rewrite alt'_spec. cbn [lang]. rewrite cat'_spec. cbn [lang]. split.
        * intros [(s1 & s2 & -> & H1 & H2) | H].
          -- exists (c :: s1), s2. rewrite <- IHr1. auto.
          -- exists [], (c :: w). rewrite <- IHr2. rewrite <- nullable_spec. auto.
        * intros (s1 & s2 & H & H1 & H2). destruct s1 as [| c' s1'].
          -- cbn in H. subst s2. right. apply IHr2. exact H2.
          -- cbn in H. inversion H; subst. left. exists s1', s2. rewrite IHr1. auto.
      + rewrite cat'_spec. cbn [lang]. split.
        * intros (s1 & s2 & -> & H1 & H2). exists (c :: s1), s2. rewrite <- IHr1. auto.
        * intros (s1 & s2 & H & H1 & H2). destruct s1 as [| c' s1'].
          -- apply nullable_spec in H1. congruence.
          -- cbn in H. inversion H; subst. exists s1', s2. rewrite IHr1. auto.
    - rewrite alt'_spec. cbn [lang]. rewrite IHr1, IHr2. tauto.
    - rewrite cat'_spec. cbn [lang]. split.
      + intros (s1 & s2 & -> & H1 & (ss & -> & Hss)). exists ((c :: s1) :: ss). split; [reflexivity |].
        constructor; [| exact Hss]. split; [discriminate | apply IHr; exact H1].
      + intros (ss & H & Hss). destruct ss as [| x ss']; [discriminate |].
        inversion Hss as [| ? ? [Hne Hx] Hss']; subst. destruct x as [| c' x']; [congruence |].
        cbn in H. inversion H; subst. exists x', (concat ss'). split; [reflexivity |]. split.
        * apply IHr. exact Hx.
        * exists ss'. auto.
  Qed.

  Theorem matches_correct r s : matches ci r s = true <-> lang ci r s.
  Proof.
    revert r. induction s as [| c s IH]; intros r; cbn [matches].
    - apply nullable_spec.
    - rewrite IH. apply deriv_spec.
  Qed.
End Correct.

(* inversion principles used to read properties of matched strings off a compiled regex *)
Lemma lang_cat_inv ci a b s : lang ci (Cat a b) s -> exists s1 s2, s = s1 ++ s2 /\ lang ci a s1 /\ lang ci b s2.
Proof. cbn [lang]. auto. Qed.
Lemma lang_eps_inv ci s : lang ci Eps s -> s = [].
Proof. cbn [lang]. auto. Qed.
Lemma lang_chr_inv ci cs s : lang ci (Chr cs) s -> exists c, s = [c] /\ cs_match ci cs c = true.
Proof. cbn [lang]. auto. Qed.
