(* C03 — soundness of the inverted forms used by the generated correspondence cases (coq/Cases/C03*, never committed)
   and the tactics that close them.  `interval` has no asin / rem_euclid: the cases state what characterises the model's
   value (sine, sign of the cosine, range; congruence modulo 2 pi and range) and these lemmas say that this pins it down. *)
From Coq Require Import Reals Lra Lia ZArith Bool.
From Interval Require Import Tactic.
From SpdVerif Require Import Base.Rx Base.Vec3 Gen.Idler Model.Idler Proofs.C03_base Proofs.C03_idler.
Local Open Scope R_scope.

(* the model's stored idler polar angle: characterised by its sine, the sign of its cosine, and its range *)
Lemma theta_case_sound cp ths v : 0 < cos ths -> Rabs v <= 1 ->
  let tm := beam_new_theta (idler_theta cp ths v) in
  sin tm = v /\ cos tm = (if cp then -1 else 1) * sqrt (1 - v²) /\ - PI < tm <= PI.
Proof.
  intros Hc Hv' tm. assert (Hv : -1 <= v <= 1) by (unfold Rabs in Hv'; destruct (Rcase_abs v); lra).
  unfold tm. change beam_new_theta with normalize_angle_signed.
  destruct (normalize_angle_signed_congr (idler_theta cp ths v)) as [k Hk].
  split; [|split].
  - rewrite Hk, sin_period_Z. apply idler_theta_sin; assumption.
  - rewrite Hk, cos_period_Z. apply idler_theta_cos; assumption.
  - apply normalize_angle_signed_range.
Qed.

(* two angles of (-pi, pi] with the same sine and cosines of the same strict sign are equal: the case goal
   (|sin ti - sin tm| small, cos of the right sign, ti in range) therefore localises ti at tm *)
Lemma angle_unique a b : - PI < a <= PI -> - PI < b <= PI -> sin a = sin b -> 0 < cos a -> 0 < cos b -> a = b.
Proof.
  intros Ha Hb Hs Hca Hcb.
  assert (Ha' : - (PI / 2) < a < PI / 2).
  { split; apply Rnot_le_lt; intros H.
    - assert (cos a <= 0); [|lra]. rewrite <- cos_neg. apply cos_le_0; lra.
    - assert (cos a <= 0); [|lra]. apply cos_le_0; lra. }
  assert (Hb' : - (PI / 2) < b < PI / 2).
  { split; apply Rnot_le_lt; intros H.
    - assert (cos b <= 0); [|lra]. rewrite <- cos_neg. apply cos_le_0; lra.
    - assert (cos b <= 0); [|lra]. apply cos_le_0; lra. }
  rewrite <- (asin_sin a), <- (asin_sin b) by lra. rewrite Hs. reflexivity.
Qed.

(* the model's stored idler azimuth is the representative in [0, 2 pi) of phis + pi *)
Lemma phi_case_sound phis (k : Z) x : 0 <= x < 2 * PI -> x = phis + PI + 2 * IZR k * PI ->
  beam_new_phi (idler_phi phis) = x.
Proof.
  intros Hx Hk. change beam_new_phi with normalize_angle. rewrite idler_phi_eq.
  destruct (normalize_angle_congr (phis + PI)) as [k1 H1].
  pose proof (normalize_angle_range (phis + PI)) as R1.
  assert (Hn : normalize_angle (normalize_angle (phis + PI)) = normalize_angle (phis + PI)) by (apply normalize_angle_id; exact R1).
  rewrite Hn, H1. rewrite H1 in R1.
  (* two representatives in [0, 2 pi) of the same class coincide *)
  assert (Hd : IZR (k1 - k) * (2 * PI) = phis + PI + 2 * IZR k1 * PI - x) by (rewrite Hk, minus_IZR; ring).
  pose proof PI_RGT_0 as HPI.
  assert (Hlt : -1 < IZR (k1 - k) < 1).
  { split.
    - apply Rmult_lt_reg_r with (2 * PI); [lra|]. rewrite Hd. lra.
    - apply Rmult_lt_reg_r with (2 * PI); [lra|]. rewrite Hd. lra. }
  assert (Hz : (k1 - k = 0)%Z).
  { destruct Hlt as [H1' H2']. apply lt_IZR in H1', H2'. lia. }
  rewrite Hz in Hd. lra.
Qed.

Ltac c03_unfold :=
  cbv zeta;
  unfold idler_val, idler_arg, idler_wavelength, pp_k_pp, idler_k_pp, pp_signed_period_on, pp_k_eff, pp_k_eff_on, pp_k_eff_off,
    sign_mul, delta_k, beam_wavevector, frequency_to_wavenumber, direction_from_polar, norm3, beam_new_frequency,
    vx, vy, vz; cbn [fst snd].

Ltac c03_case := c03_unfold; repeat split; interval with (i_prec 100).
