(* Tactics for the generated kinematics correspondence cases (coq/Cases/KIN, never committed): the generated definitions of
   Gen/Kinematics.v are evaluated by interval arithmetic on the harness's inputs, with the index oracle pinned to the values
   CrystalSetup::index_along returned to the running code at the three wavelengths it is sampled at. *)
From Coq Require Import Reals Lra List.
From Interval Require Import Tactic.
From SpdVerif Require Import Base.Rx Spec.CrystalTypes Model.Optics Gen.Fresnel Gen.Kinematics Proofs.Compose_kinematics.
Local Open Scope R_scope.

(* the three samples of the index the kinematics read: at the vacuum wavelength and at the two finite-difference points *)
Definition kin_oracle (index : R -> vec -> polarization -> R) (omega : R) (d : vec) (p : polarization) (n0 np nm : R) : Prop :=
  index (lam omega) d p = n0 /\
  index (fd_forward_point_gen (lam omega / 1) (fd_step_gen (lam omega / 1)) * 1) d p = np /\
  index (fd_backward_point_gen (lam omega / 1) (fd_step_gen (lam omega / 1)) * 1) d p = nm.

Ltac kin_unfold :=
  unfold beam_effective_index_of_refraction_gen, beam_effective_index_of_refraction_off_gen, beam_phase_velocity_gen,
    beam_phase_velocity_off_gen, beam_group_velocity_gen, beam_group_velocity_off_gen, beam_group_index_gen,
    beam_group_index_off_gen, beam_average_transit_time_gen, beam_average_transit_time_off_gen, derivative_at_gen.

Ltac kin_case :=
  let index := fresh "index" in let H0 := fresh "H0" in let Hp := fresh "Hp" in let Hm := fresh "Hm" in
  intros index [H0 [Hp Hm]]; unfold lam in H0, Hp, Hm; kin_unfold;
  rewrite ?H0, ?Hp, ?Hm;
  unfold fd_quotient_gen, fd_forward_point_gen, fd_backward_point_gen, fd_step_gen;
  match goal with
  | |- context [Req_EM_T ?x 0] => destruct (Req_EM_T x 0) as [E|_]; [exfalso; revert E; apply Rgt_not_eq; interval |]
  | _ => idtac
  end;
  cbn [vx vy vz fst snd]; unfold Rpower, eps64; interval with (i_prec 90).
