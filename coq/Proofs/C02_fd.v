(* C02 — truncation error of the central difference quotient used by math::derivative_at (generic lemma). *)
From Coq Require Import Reals Lra Lia.
From Coquelicot Require Import Coquelicot.
Local Open Scope R_scope.

Lemma sum3 (F : nat -> R) : sum_f_R0 F 2 = F 0%nat + F 1%nat + F 2%nat.
Proof. reflexivity. Qed.

Theorem central_difference_error (f : R -> R) (x h M : R) :
  0 < h ->
  (forall t k, (k <= 3)%nat -> ex_derive_n f k t) ->
  (forall t, x - h < t < x + h -> Rabs (Derive_n f 3 t) <= M) ->
  Rabs ((f (x + h) - f (x - h)) / (2 * h) - Derive f x) <= M * h ^ 2 / 6.
Proof.
  intros Hh Hsm HM.
  (* forward *)
  destruct (Taylor_Lagrange f 2 x (x + h)) as [z1 [Hz1 E1]]; [lra | intros t _ k Hk; apply Hsm; exact Hk |].
  (* backward, through g y = f (- y) *)
  set (g := fun y : R => f (- y)).
  assert (Hg : forall t k, (k <= 3)%nat -> ex_derive_n g k t).
  { intros t k Hk. apply ex_derive_n_comp_opp. apply filter_forall. intros y j Hj. apply Hsm. lia. }
  assert (Dg : forall t k, (k <= 3)%nat -> Derive_n g k t = (-1) ^ k * Derive_n f k (- t)).
  { intros t k Hk. apply Derive_n_comp_opp. apply filter_forall. intros y j Hj. apply Hsm. lia. }
  destruct (Taylor_Lagrange g 2 (- x) (- x + h)) as [z2 [Hz2 E2]]; [lra | intros t _ k Hk; apply Hg; exact Hk |].
  rewrite sum3 in E1, E2.
  rewrite !Dg in E2 by lia.
  unfold g in E2 at 1. replace (- (- x + h)) with (x - h) in E2 by ring. rewrite Ropp_involutive in E2.
  replace (x + h - x) with h in E1 by ring. replace (- x + h - - x) with h in E2 by ring.
  simpl Derive_n in E1, E2. simpl fact in E1, E2. simpl INR in E1, E2. simpl pow in E1, E2.
  change (Derive (fun x0 : R => Derive (fun x1 : R => Derive (fun x2 : R => f x2) x1) x0)) with (Derive_n f 3) in E1, E2.
  change (Derive (fun x0 : R => Derive (fun x1 : R => f x1) x0) x) with (Derive_n f 2 x) in E1, E2.
  change (Derive (fun x0 : R => f x0) x) with (Derive f x) in E1, E2.
  pose proof (HM z1 ltac:(lra)) as B1. pose proof (HM (- z2) ltac:(lra)) as B2.
  set (A := Derive_n f 3 z1) in *. set (B := Derive_n f 3 (- z2)) in *.
  assert (E : (f (x + h) - f (x - h)) / (2 * h) - Derive f x = h ^ 2 / 12 * (A + B)).
  { rewrite E1, E2. field. lra. }
  rewrite E. rewrite Rabs_mult. rewrite (Rabs_right (h ^ 2 / 12)) by (apply Rle_ge; apply Rmult_le_pos; [apply pow2_ge_0 | lra]).
  assert (Rabs (A + B) <= 2 * M) by (eapply Rle_trans; [apply Rabs_triang | lra]).
  assert (0 <= h ^ 2 / 12) by (apply Rmult_le_pos; [apply pow2_ge_0 | lra]).
  nra.
Qed.

(* atan is 1-Lipschitz *)
Lemma atan_lipschitz a b : Rabs (atan b - atan a) <= Rabs (b - a).
Proof.
  assert (Key : forall u v, u < v -> 0 <= atan v - atan u <= v - u).
  { intros u v Huv.
    destruct (MVT_cor2 atan (fun x => / (1 + x ^ 2)) u v Huv) as [c [E Hc]].
    { intros c _. apply derivable_pt_lim_atan. }
    rewrite E.
    assert (0 < / (1 + c ^ 2) <= 1).
    { assert (1 <= 1 + c ^ 2) by (pose proof (pow2_ge_0 c); lra). split.
      - apply Rinv_0_lt_compat. lra.
      - rewrite <- Rinv_1. apply Rinv_le_contravar; lra. }
    split; nra. }
  destruct (Rtotal_order a b) as [H | [H | H]].
  - destruct (Key a b H). rewrite !Rabs_right by lra. lra.
  - subst. replace (atan b - atan b) with 0 by ring. replace (b - b) with 0 by ring. lra.
  - destruct (Key b a H). rewrite !Rabs_left1 by lra. lra.
Qed.
