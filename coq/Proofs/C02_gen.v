(* C02 — the definitions generated from the source (Gen/Fresnel.v) are the model (Model/Fresnel.v). *)
From Coq Require Import Reals Lra Psatz.
From Coquelicot Require Import Coquelicot.
From SpdVerif Require Import Model.Optics Model.Fresnel Gen.Fresnel Proofs.C02_fresnel Proofs.C02_index Proofs.C02_frame Proofs.C02_fd.
Local Open Scope R_scope.

Lemma to_crystal_frame_gen_eq theta phi d : to_crystal_frame_gen theta phi d = crystal_frame theta phi d.
Proof. unfold to_crystal_frame_gen, crystal_frame. unfold Rdiv. rewrite Rinv_1, !Rmult_1_r. reflexivity. Qed.

Ltac fold_coeffs nx ny nz sx sy sz :=
  match goal with |- context [find_roots_quadratic_monic ?b ?c] =>
    replace b with (fb (inv2 nx) (inv2 ny) (inv2 nz) (sx * sx) (sy * sy) (sz * sz)) by (unfold fb, inv2; ring);
    replace c with (fc (inv2 nx) (inv2 ny) (inv2 nz) (sx * sx) (sy * sy) (sz * sz)) by (unfold fc, inv2; ring)
  end.

(* for positive principal indices and a unit crystal-frame direction the code's case analysis
   (number of roots, sign test on 1/n^2) always ends in the Fresnel value of the model *)
Theorem index_along_core_is_model p nx ny nz sx sy sz :
  0 < nx -> 0 < ny -> 0 < nz -> sx * sx + sy * sy + sz * sz = 1 ->
  index_along_core_gen p nx ny nz sx sy sz = fresnel_index p nx ny nz sx sy sz.
Proof.
  intros Hx Hy Hz Hs.
  destruct (index_between_principal nx ny nz sx sy sz Hx Hy Hz Hs) as (Hmin & _).
  destruct (index_bounds nx ny nz sx sy sz (min3 nx ny nz) (max3 nx ny nz)) as ((_ & _ & _ & HD & Hys & Hyf) & _);
    try assumption.
  { unfold min3, max3; split; [apply Rmin_l | apply Rmax_l]. }
  { unfold min3, max3; split; [eapply Rle_trans; [apply Rmin_r | apply Rmin_l] | eapply Rle_trans; [apply Rmax_l | apply Rmax_r]]. }
  { unfold min3, max3; split; [eapply Rle_trans; [apply Rmin_r | apply Rmin_r] | eapply Rle_trans; [apply Rmax_r | apply Rmax_r]]. }
  set (ax := inv2 nx) in *. set (ay := inv2 ny) in *. set (az := inv2 nz) in *.
  set (px := sx * sx) in *. set (py := sy * sy) in *. set (pz := sz * sz) in *.
  assert (Hsd : sqrt (fdisc ax ay az px py pz) * sqrt (fdisc ax ay az px py pz) = fdisc ax ay az px py pz)
    by (apply sqrt_sqrt; assumption).
  destruct p; unfold index_along_core_gen, index_along_core_Ordinary, index_along_core_Extraordinary, fresnel_index;
    fold_coeffs nx ny nz sx sy sz; fold ax ay az px py pz;
    unfold find_roots_quadratic_monic, index_along_core_Ordinary_of, index_along_core_Extraordinary_of;
    set (b := fb ax ay az px py pz) in *; set (c := fc ax ay az px py pz) in *;
    replace (b * b - 4 * 1 * c) with (fdisc ax ay az px py pz) by (unfold fdisc; fold b c; ring);
    set (D := fdisc ax ay az px py pz) in *;
    (destruct (Rlt_dec D 0) as [Hneg | _]; [exfalso; lra |]);
    unfold y_slow, y_fast in *; fold b D in Hys, Hyf |- *;
    (destruct (Req_EM_T D 0) as [HD0 | HDn]).
  - rewrite HD0, sqrt_0 in *.
    destruct (Rlt_dec (- (- b / (2 * 1))) 0) as [Hl | _]; [exfalso; lra |].
    f_equal. f_equal. field.
  - destruct (Rlt_dec (- ((- b + sqrt D) / (2 * 1))) 0) as [Hl | _]; [exfalso; lra |].
    f_equal. f_equal. field.
  - rewrite HD0, sqrt_0 in *.
    destruct (Rlt_dec (- (- b / (2 * 1))) 0) as [Hl | _]; [exfalso; lra |].
    f_equal. f_equal. field.
  - destruct (Rlt_dec (- ((- b - sqrt D) / (2 * 1))) 0) as [Hl | _]; [exfalso; lra |].
    f_equal. f_equal. field.
Qed.

(* ---- the repaired code (Roots::No arm returns the double root -b/2): whatever the binary64 solver answers next to an optic
   axis — the exact case analysis, or `no real root` because the rounded discriminant came out negative — the value returned
   is finite, positive and lies between the two Fresnel solutions (hence between the smallest and largest principal index);
   where the exact discriminant vanishes (on an optic axis) it IS the Fresnel solution. *)
Lemma core_of_no p nx ny nz sx sy sz :
  0 < nx -> 0 < ny -> 0 < nz -> sx * sx + sy * sy + sz * sz = 1 ->
  index_along_core_of_gen RootsNo p nx ny nz sx sy sz =
  1 / sqrt (fb (inv2 nx) (inv2 ny) (inv2 nz) (sx * sx) (sy * sy) (sz * sz) / 2).
Proof.
  intros Hx Hy Hz Hs.
  destruct (index_bounds nx ny nz sx sy sz (min3 nx ny nz) (max3 nx ny nz)) as ((_ & _ & _ & HD & Hys & Hyf) & _);
    try assumption.
  { unfold min3. repeat apply Rmin_glb_lt; assumption. }
  { unfold min3, max3; split; [apply Rmin_l | apply Rmax_l]. }
  { unfold min3, max3; split; [eapply Rle_trans; [apply Rmin_r | apply Rmin_l] | eapply Rle_trans; [apply Rmax_l | apply Rmax_r]]. }
  { unfold min3, max3; split; [eapply Rle_trans; [apply Rmin_r | apply Rmin_r] | eapply Rle_trans; [apply Rmax_r | apply Rmax_r]]. }
  pose proof (roots_sum (inv2 nx) (inv2 ny) (inv2 nz) (sx * sx) (sy * sy) (sz * sz)) as Hsum.
  set (b := fb (inv2 nx) (inv2 ny) (inv2 nz) (sx * sx) (sy * sy) (sz * sz)) in *.
  assert (Hb : 0 < b) by lra.
  destruct p; unfold index_along_core_of_gen, index_along_core_Ordinary_of, index_along_core_Extraordinary_of;
    match goal with |- context [Rlt_dec (0.5 * ?e) 0] =>
      replace e with b by (unfold b, fb, inv2; ring) end;
    (destruct (Rlt_dec (0.5 * b) 0) as [Hl | _]; [exfalso; lra |]);
    f_equal; f_equal; lra.
Qed.

Theorem index_along_any_solver_answer p nx ny nz sx sy sz r :
  0 < nx -> 0 < ny -> 0 < nz -> sx * sx + sy * sy + sz * sz = 1 ->
  r = RootsNo \/
  r = find_roots_quadratic_monic (index_along_b_gen nx ny nz sx sy sz) (index_along_c_gen nx ny nz sx sy sz) ->
  fresnel_index Extraordinary nx ny nz sx sy sz <= index_along_core_of_gen r p nx ny nz sx sy sz <= fresnel_index Ordinary nx ny nz sx sy sz /\
  0 < index_along_core_of_gen r p nx ny nz sx sy sz /\
  (fdisc (inv2 nx) (inv2 ny) (inv2 nz) (sx * sx) (sy * sy) (sz * sz) = 0 ->
   index_along_core_of_gen r p nx ny nz sx sy sz = fresnel_index p nx ny nz sx sy sz).
Proof.
  intros Hx Hy Hz Hs Hr.
  destruct (index_between_principal nx ny nz sx sy sz Hx Hy Hz Hs) as (Hmin & Hlo & Hmid & Hhi).
  destruct Hr as [-> | ->].
  - rewrite core_of_no by assumption.
    destruct (index_bounds nx ny nz sx sy sz (min3 nx ny nz) (max3 nx ny nz)) as ((_ & _ & _ & HD & Hys & Hyf) & _);
      try assumption.
    { unfold min3, max3; split; [apply Rmin_l | apply Rmax_l]. }
    { unfold min3, max3; split; [eapply Rle_trans; [apply Rmin_r | apply Rmin_l] | eapply Rle_trans; [apply Rmax_l | apply Rmax_r]]. }
    { unfold min3, max3; split; [eapply Rle_trans; [apply Rmin_r | apply Rmin_r] | eapply Rle_trans; [apply Rmax_r | apply Rmax_r]]. }
    unfold fresnel_index, y_slow, y_fast in *.
    set (b := fb (inv2 nx) (inv2 ny) (inv2 nz) (sx * sx) (sy * sy) (sz * sz)) in *.
    set (D := fdisc (inv2 nx) (inv2 ny) (inv2 nz) (sx * sx) (sy * sy) (sz * sz)) in *.
    pose proof (sqrt_pos D) as HsD.
    assert (Hb2 : 0 < b / 2) by lra.
    repeat split.
    + apply inv_sqrt_antitone; lra.
    + apply inv_sqrt_antitone; lra.
    + apply inv_sqrt_pos; lra.
    + intros HD0. rewrite HD0, sqrt_0. destruct p; f_equal; f_equal; lra.
  - assert (E : index_along_core_of_gen
                  (find_roots_quadratic_monic (index_along_b_gen nx ny nz sx sy sz) (index_along_c_gen nx ny nz sx sy sz))
                  p nx ny nz sx sy sz = index_along_core_gen p nx ny nz sx sy sz) by (destruct p; reflexivity).
    rewrite E, index_along_core_is_model by assumption.
    repeat split; try (destruct p; lra).
Qed.

(* whole call: lab direction, crystal angles *)
Theorem index_along_is_model theta phi nx ny nz d p :
  0 < nx -> 0 < ny -> 0 < nz -> unit_vec d ->
  index_along_gen theta phi nx ny nz d p = index_model theta phi nx ny nz d p.
Proof.
  intros Hx Hy Hz Hd. unfold index_along_gen, index_model. cbv zeta. rewrite to_crystal_frame_gen_eq.
  apply index_along_core_is_model; try assumption.
  apply unit_vec_components, crystal_frame_unit, Hd.
Qed.

(* the code never takes the `imaginary index` exits over the reals *)
Corollary index_along_positive theta phi nx ny nz d p :
  0 < nx -> 0 < ny -> 0 < nz -> unit_vec d -> 0 < index_along_gen theta phi nx ny nz d p.
Proof.
  intros Hx Hy Hz Hd. rewrite index_along_is_model by assumption. unfold index_model. cbv zeta.
  pose proof (unit_vec_components _ (crystal_frame_unit theta phi d Hd)) as Hs.
  destruct (index_between_principal nx ny nz _ _ _ Hx Hy Hz Hs) as (Hmin & H1 & H2 & _).
  destruct p; lra.
Qed.

(* direction_from_polar: the normalisation is the identity over the reals *)
Lemma direction_from_polar_gen_eq phi theta : direction_from_polar_gen phi theta = polar_dir phi theta.
Proof.
  unfold direction_from_polar_gen.
  replace (theta / 1) with theta by field. replace (phi / 1) with phi by field.
  change (sin theta * cos phi, sin theta * sin phi, cos theta) with (polar_dir phi theta).
  unfold normalize. pose proof (polar_dir_unit phi theta) as H. unfold unit_vec in H. rewrite H, sqrt_1.
  unfold polar_dir, vx, vy, vz; cbn [fst snd]. f_equal; [f_equal |]; field.
Qed.

(* ---- walk-off: every division of the code's finite-difference formula is defined *)
Lemma fd_step_pos x : 0 < fd_step_gen x.
Proof.
  unfold fd_step_gen, Rpower. destruct (Req_EM_T x 0) as [E | N].
  - apply exp_pos.
  - apply Rmult_lt_0_compat; [apply exp_pos | apply Rabs_pos_lt; exact N].
Qed.

(* the finite-difference step the code uses for the walk-off derivative: whatever branch is taken (relative step eps^(1/3)|theta|,
   absolute step at theta = 0 or below a floor angle) it is positive and at most eps^(1/3) max(|theta|, 1) *)
Definition walkoff_step_ok (theta h : R) : Prop := 0 < h <= Rpower eps64 (1 / 3) * Rmax (Rabs theta) 1.

Lemma cbrt_eps_pos : 0 < Rpower eps64 (1 / 3).
Proof. unfold Rpower. apply exp_pos. Qed.

Lemma derivative_at_central f theta :
  exists h, walkoff_step_ok theta h /\ derivative_at_gen f theta = (f (theta + h) - f (theta - h)) / (2 * h).
Proof.
  exists (fd_step_gen theta). pose proof (fd_step_pos theta) as Hh. pose proof cbrt_eps_pos as Hp. split.
  - split; [exact Hh |]. unfold fd_step_gen. destruct (Req_EM_T theta 0).
    + rewrite <- (Rmult_1_r (Rpower eps64 (1 / 3))) at 1. apply Rmult_le_compat_l; [lra | apply Rmax_r].
    + apply Rmult_le_compat_l; [lra | apply Rmax_l].
  - unfold derivative_at_gen, fd_quotient_gen, fd_forward_point_gen, fd_backward_point_gen. cbv zeta.
    replace 0.5 with (/ 2) by lra. field. lra.
Qed.

Lemma walkoff_np_prime_central f theta :
  exists h, walkoff_step_ok theta h /\ walkoff_np_prime_gen f theta = (f (theta + h) - f (theta - h)) / (2 * h).
Proof.
  pose proof (derivative_at_central f theta) as Hd. pose proof cbrt_eps_pos as Hp.
  unfold walkoff_np_prime_gen.
  first
  [ exact Hd
  | match goal with |- context [Rlt_dec (Rabs theta) ?fl] =>
      destruct (Rlt_dec (Rabs theta) fl) as [Hs | Hs];
      [ exists (Rpower eps64 (1 / 3) * fl); split;
        [ unfold walkoff_step_ok; split;
          [ apply Rmult_lt_0_compat; lra
          | apply Rmult_le_compat_l; [lra | apply Rle_trans with 1; [lra | apply Rmax_r]] ]
        | replace 0.5 with (/ 2) by lra; field; lra ]
      | exact Hd ]
    end ].
Qed.

Theorem walkoff_defined theta phi nx ny nz d p :
  0 < nx -> 0 < ny -> 0 < nz -> unit_vec d ->
  (forall f, exists h, 0 < h /\ walkoff_np_prime_gen f (walkoff_theta_at_gen theta) =
                               (f (walkoff_theta_at_gen theta + h) - f (walkoff_theta_at_gen theta - h)) / (2 * h)) /\
  (forall t, 0 < index_along_gen t phi nx ny nz d p).
Proof.
  intros Hx Hy Hz Hd. split.
  - intros f. destruct (walkoff_np_prime_central f (walkoff_theta_at_gen theta)) as (h & [Hh _] & E). exists h. split; assumption.
  - intros t. apply index_along_positive; assumption.
Qed.

(* the code's walk-off is the arctangent of minus a central difference quotient over the index *)
Lemma walkoff_gen_unfold n theta :
  exists h, walkoff_step_ok theta h /\
  walkoff_gen n theta = atan (- ((n (theta + h) - n (theta - h)) / (2 * h)) / n theta).
Proof.
  unfold walkoff_gen, walkoff_tail_gen, walkoff_theta_assigned_gen, walkoff_theta_at_gen.
  replace (theta / 1) with theta by field. rewrite Rmult_1_r.
  destruct (walkoff_np_prime_central (fun t => n (t * 1)) theta) as (h & Hh & E).
  exists h. split; [exact Hh |]. rewrite E. rewrite !Rmult_1_r. reflexivity.
Qed.

(* optimal_waist_position = -L / (2 n_z) *)
Lemma optimal_waist_position_gen_eq L (n_along : vec -> R) :
  n_along (0, 0, 1) <> 0 ->
  optimal_waist_position_gen L n_along = - L / (2 * n_along (0, 0, 1)).
Proof.
  intros Hn. unfold optimal_waist_position_gen.
  assert (E : normalize (0, 0, 1) = (0, 0, 1)).
  { unfold normalize, vnorm2, vdot, vx, vy, vz; cbn [fst snd].
    replace (0 * 0 + 0 * 0 + 1 * 1) with 1 by ring. rewrite sqrt_1. f_equal; [f_equal |]; field. }
  rewrite E. replace (- 0.5) with (- / 2) by lra. field. exact Hn.
Qed.

(* ---- pump along lab z in a uniaxial medium: the generated index, as a function of the crystal angle, is the closed form *)
Lemma index_along_gen_pump no ne phi p t :
  0 < no -> 0 < ne ->
  index_along_gen t phi no no ne (0, 0, 1) p = fresnel_index p no no ne (sin t * cos phi) (sin t * sin phi) (cos t).
Proof.
  intros Hno Hne.
  assert (Hu : unit_vec (0, 0, 1)) by (unfold unit_vec, vnorm2, vdot, vx, vy, vz; cbn [fst snd]; ring).
  rewrite index_along_is_model by assumption. unfold index_model. cbv zeta. rewrite crystal_frame_pump. reflexivity.
Qed.

Lemma polar_unit_components phi t :
  sin t * cos phi * (sin t * cos phi) + sin t * sin phi * (sin t * sin phi) + cos t * cos t = 1.
Proof.
  pose proof (polar_dir_unit phi t) as H. unfold unit_vec, vnorm2, vdot, polar_dir, vx, vy, vz in H. cbn [fst snd] in H. exact H.
Qed.

Lemma index_along_gen_pump_dependent no ne phi p t :
  0 < no -> 0 < ne ->
  (ne <= no /\ p = Extraordinary) \/ (no <= ne /\ p = Ordinary) ->
  index_along_gen t phi no no ne (0, 0, 1) p = n_uniaxial no ne t.
Proof.
  intros Hno Hne H. rewrite index_along_gen_pump by assumption.
  destruct (uniaxial_closed_form no ne _ _ t Hno Hne (polar_unit_components phi t)) as [H1 H2].
  destruct H as [[Ho ->] | [Ho ->]]; [apply (H1 Ho) | apply (H2 Ho)].
Qed.

Lemma index_along_gen_pump_independent no ne phi p t :
  0 < no -> 0 < ne ->
  (ne <= no /\ p = Ordinary) \/ (no <= ne /\ p = Extraordinary) ->
  index_along_gen t phi no no ne (0, 0, 1) p = no.
Proof.
  intros Hno Hne H. rewrite index_along_gen_pump by assumption.
  destruct (uniaxial_closed_form no ne _ _ t Hno Hne (polar_unit_components phi t)) as [H1 H2].
  destruct H as [[Ho ->] | [Ho ->]]; [apply (H1 Ho) | apply (H2 Ho)].
Qed.

Lemma walkoff_gen_ext f g theta : (forall t, f t = g t) -> walkoff_gen f theta = walkoff_gen g theta.
Proof.
  intros H. replace f with g; [reflexivity |].
  apply FunctionalExtensionality.functional_extensionality. intros t. symmetry. apply H.
Qed.

(* ---- the code's finite-difference walk-off against the exact one: |rho_code - rho_exact| <= M h^2 / (6 n),
   h = eps^(1/3) |theta| (or eps^(1/3) at theta = 0), M any bound on the third derivative of n over (theta - h, theta + h) *)
Theorem walkoff_gen_truncation (n : R -> R) theta M :
  0 < n theta ->
  (forall t k, (k <= 3)%nat -> ex_derive_n n k t) ->
  (forall t, Rabs (Derive_n n 3 t) <= M) ->
  Rabs (walkoff_gen n theta - walkoff_exact n theta) <= M * (Rpower eps64 (1 / 3) * Rmax (Rabs theta) 1) ^ 2 / (6 * n theta).
Proof.
  intros Hn Hsm HM. destruct (walkoff_gen_unfold n theta) as (h & [Hh Hhmax] & E). rewrite E. unfold walkoff_exact.
  assert (HM0 : 0 <= M) by (eapply Rle_trans; [apply Rabs_pos | apply (HM 0)]).
  pose proof (central_difference_error n theta h M Hh Hsm (fun t _ => HM t)) as Hc.
  eapply Rle_trans; [apply atan_lipschitz |].
  set (q := (n (theta + h) - n (theta - h)) / (2 * h)) in *.
  replace (- q / n theta - - Derive n theta / n theta) with (- (q - Derive n theta) / n theta) by (field; lra).
  unfold Rdiv at 1. rewrite Rabs_mult, Rabs_Ropp, (Rabs_right (/ n theta)) by (left; apply Rinv_0_lt_compat; exact Hn).
  set (hm := Rpower eps64 (1 / 3) * Rmax (Rabs theta) 1) in *.
  replace (M * hm ^ 2 / (6 * n theta)) with (M * hm ^ 2 / 6 * / n theta) by (field; lra).
  apply Rmult_le_compat_r; [left; apply Rinv_0_lt_compat; exact Hn |].
  eapply Rle_trans; [exact Hc |].
  assert (h ^ 2 <= hm ^ 2) by (apply pow_incr; lra).
  unfold Rdiv. apply Rmult_le_compat_r; [lra |]. apply Rmult_le_compat_l; assumption.
Qed.
