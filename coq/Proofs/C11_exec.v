(* C11 — the executable rational twin computes the real-valued trace form (Q2R homomorphism). *)
From Coq Require Import Reals Lra Lia QArith Qreals List.
From SpdVerif Require Import Model.FinSum Model.Schmidt Proofs.FinSum_morph.

Section Morph.
  Context {A B : Type} (phi : A -> B) (oa : Ops A) (ob : Ops B) (Hm : OpsMorph phi oa ob).
  Let mapM (M : nat -> nat -> A) : nat -> nat -> B := fun i j => phi (M i j).

  Lemma gram_morph n M j j' : phi (gram oa n M j j') = gram ob n (mapM M) j j'.
  Proof.
    unfold gram. rewrite (gsum_morph phi oa ob Hm). apply (gsum_ext_gen ob). intros i _.
    apply (mmul _ _ _ Hm).
  Qed.

  Lemma trG_morph n M : phi (trG oa n M) = trG ob n (mapM M).
  Proof.
    unfold trG. rewrite (gsum_morph phi oa ob Hm). apply (gsum_ext_gen ob). intros j _. apply gram_morph.
  Qed.

  Lemma trG2_morph n M : phi (trG2 oa n M) = trG2 ob n (mapM M).
  Proof.
    unfold trG2. rewrite (gsum_morph phi oa ob Hm). apply (gsum_ext_gen ob). intros j _.
    rewrite (gsum_morph phi oa ob Hm). apply (gsum_ext_gen ob). intros j' _.
    rewrite (mmul _ _ _ Hm), !gram_morph. reflexivity.
  Qed.

  Lemma schmidt_K_morph n M :
    trG2 ob n (mapM M) <> o0 ob -> phi (schmidt_K oa n M) = schmidt_K ob n (mapM M).
  Proof.
    intros H. unfold schmidt_K. rewrite (mdiv _ _ _ Hm) by (rewrite trG2_morph; exact H).
    rewrite (mmul _ _ _ Hm), trG_morph, trG2_morph. reflexivity.
  Qed.
End Morph.

Definition Rmags (mags : list Q) : nat -> R := arr 0%R (map Q2R mags).

Lemma mat_of_Q2R n mags i j : Q2R (mat_of n (arr 0%Q mags) i j) = mat_of n (Rmags mags) i j.
Proof. unfold mat_of, Rmags. rewrite (arr_map Q2R), Q2R_0. reflexivity. Qed.

Lemma schmidt_ext_R n (M M' : nat -> nat -> R) :
  (forall i j, M i j = M' i j) -> trG ROps n M = trG ROps n M' /\ trG2 ROps n M = trG2 ROps n M'.
Proof.
  intros H.
  assert (HG : forall j j', gram ROps n M j j' = gram ROps n M' j j').
  { intros. unfold gram. apply (gsum_ext_gen ROps). intros i _. rewrite !H. reflexivity. }
  split.
  - unfold trG. apply (gsum_ext_gen ROps). intros j _. apply HG.
  - unfold trG2. apply (gsum_ext_gen ROps). intros j _. apply (gsum_ext_gen ROps). intros j' _. rewrite !HG. reflexivity.
Qed.

Theorem trG_Q_correct n mags : Q2R (trG_Q n mags) = trG ROps n (mat_of n (Rmags mags)).
Proof.
  unfold trG_Q. rewrite (trG_morph Q2R QOps ROps Q2R_morph).
  apply schmidt_ext_R. intros; apply mat_of_Q2R.
Qed.

Theorem trG2_Q_correct n mags : Q2R (trG2_Q n mags) = trG2 ROps n (mat_of n (Rmags mags)).
Proof.
  unfold trG2_Q. rewrite (trG2_morph Q2R QOps ROps Q2R_morph).
  apply schmidt_ext_R. intros; apply mat_of_Q2R.
Qed.

Theorem schmidt_K_Q_correct n mags :
  trG2 ROps n (mat_of n (Rmags mags)) <> 0%R ->
  Q2R (schmidt_K_Q n mags) = schmidt_K ROps n (mat_of n (Rmags mags)).
Proof.
  intros H. unfold schmidt_K_Q.
  destruct (schmidt_ext_R n (fun i j => Q2R (mat_of n (arr 0%Q mags) i j)) (mat_of n (Rmags mags))) as [E1 E2].
  { intros; apply mat_of_Q2R. }
  rewrite (schmidt_K_morph Q2R QOps ROps Q2R_morph).
  - unfold schmidt_K. rewrite E1, E2. reflexivity.
  - rewrite E2. exact H.
Qed.

Theorem exec_twin_correct n mags :
  trG2 ROps n (mat_of n (Rmags mags)) <> 0%R ->
  Q2R (schmidt_K_Q n mags) = schmidt_K ROps n (mat_of n (Rmags mags)) /\
  Q2R (trG_Q n mags) = trG ROps n (mat_of n (Rmags mags)) /\
  Q2R (trG2_Q n mags) = trG2 ROps n (mat_of n (Rmags mags)).
Proof. intros H. repeat split; [apply schmidt_K_Q_correct; exact H|apply trG_Q_correct|apply trG2_Q_correct]. Qed.
