(* C09 — when hom_rate / hom_rate_series panic, return NaN, return an infinity, or return the value of the main model. *)
From Coq Require Import Reals Lra Lia Arith List Bool.
From SpdVerif Require Import Model.FinSum Model.Hom Model.C09_Total Proofs.FinSum_lemmas Proofs.Cx_lemmas Proofs.C09_range.
Local Open Scope R_scope.

Lemma idx_panics_iff N a b : idx_panics N a b = true <-> (a < N)%nat \/ (b < N)%nat.
Proof. unfold idx_panics. rewrite orb_true_iff, !Nat.ltb_lt. reflexivity. Qed.

Ltac no_panic :=
  match goal with |- context [if idx_panics ?a ?b ?c then _ else _] =>
    let E := fresh "E" in destruct (idx_panics a b c) eqn:E; [exfalso; apply idx_panics_iff in E; unfold cx in *; lia|] end.

Theorem hom_total_panic_iff g f gs tau norm :
  hom_rate_total g f gs tau norm = HomPanic <-> (length f < grid_len g)%nat \/ (length gs < grid_len g)%nat.
Proof.
  rewrite <- idx_panics_iff. unfold hom_rate_total.
  destruct (idx_panics (grid_len g) (length f) (length gs)); [tauto|].
  split; [|discriminate].
  cbv zeta. destruct (Req_EM_T _ 0); [destruct (Req_EM_T _ 0)|]; discriminate.
Qed.

Lemma cnorm2_zero_iff (z : cx R) : cnorm2 ROps z = 0 <-> z = (0, 0).
Proof.
  destruct z as [x y]. cx_unfold. split.
  - intros H. assert (x = 0) by nra. assert (y = 0) by nra. subst. reflexivity.
  - intros H. inversion H. ring.
Qed.

Lemma full_norm_zero_iff (f : list (cx R)) : jsi_norm ROps (length f) (arr (0, 0) f) = 0 <-> all_zero f.
Proof.
  rewrite jsi_norm_rsum. split.
  - intros H z Hz. destruct (In_nth f z (0, 0) Hz) as (k & Hk & <-).
    apply cnorm2_zero_iff. apply (rsum_eq0_all (length f) (fun k => cnorm2 ROps (arr (0, 0) f k))); try assumption.
    intros; apply cnorm2_nonneg.
  - intros H. apply rsum_zero. intros k Hk. apply cnorm2_zero_iff. apply H. apply nth_In. assumption.
Qed.

Lemma hom_sum_zero_first N f gs u :
  (N <= length f)%nat -> all_zero f -> hom_sum ROps N (arr (0, 0) f) gs u = 0.
Proof.
  intros HN Hz. rewrite hom_sum_rsum. apply rsum_zero. intros k Hk.
  assert (Hkf : (k < length f)%nat) by (eapply Nat.lt_le_trans; eassumption).
  assert (E : arr (0, 0) f k = (0, 0)) by (apply Hz; unfold arr; apply nth_In; exact Hkf).
  rewrite E. unfold hom_term. cx_unfold. ring.
Qed.

(* default norm: NaN exactly for an all-zero first array; never an infinity *)
Theorem hom_total_default_norm g f gs tau :
  (grid_len g <= length f)%nat -> (grid_len g <= length gs)%nat ->
  (hom_rate_total g f gs tau None = HomNaN <-> all_zero f) /\
  hom_rate_total g f gs tau None <> HomInf /\
  (~ all_zero f ->
   hom_rate_total g f gs tau None =
     HomVal (1 / 2 * (1 - hom_sum ROps (grid_len g) (arr (0, 0) f) (arr (0, 0) gs) (hom_phase g tau) / jsi_norm ROps (length f) (arr (0, 0) f)))).
Proof.
  intros Hf Hg. unfold hom_rate_total.
  assert (P : idx_panics (grid_len g) (length f) (length gs) = false).
  { destruct (idx_panics _ _ _) eqn:E; [|reflexivity]. apply idx_panics_iff in E. lia. }
  rewrite P. cbv zeta.
  destruct (Req_EM_T (jsi_norm ROps (length f) (arr (0, 0) f)) 0) as [E0|E0].
  - pose proof (proj1 (full_norm_zero_iff f) E0) as Hz.
    rewrite (hom_sum_zero_first _ f _ _ Hf Hz).
    destruct (Req_EM_T 0 0) as [_|N]; [|contradiction N; reflexivity].
    repeat split; try tauto; try discriminate.
  - repeat split; try discriminate.
    + intros Hz. exfalso. apply E0. apply full_norm_zero_iff. exact Hz.
Qed.

(* arrays of exactly the grid's length and a non-zero first array: the value of the main model *)
Theorem hom_total_is_model g f gs tau :
  length f = grid_len g -> length gs = grid_len g -> ~ all_zero f ->
  hom_rate_total g f gs tau None = HomVal (hom_rate g (arr (0, 0) f) (arr (0, 0) gs) tau None).
Proof.
  intros Hf Hg Hz. destruct (hom_total_default_norm g f gs tau) as (_ & _ & V); try lia.
  rewrite (V Hz). unfold hom_rate. rewrite hom_rate_gen_R, Hf. reflexivity.
Qed.

(* an explicit norm of zero: NaN or an infinity according to the interference sum *)
Theorem hom_total_zero_norm g f gs tau :
  (grid_len g <= length f)%nat -> (grid_len g <= length gs)%nat ->
  let result := hom_sum ROps (grid_len g) (arr (0, 0) f) (arr (0, 0) gs) (hom_phase g tau) in
  (result = 0 -> hom_rate_total g f gs tau (Some 0) = HomNaN) /\ (result <> 0 -> hom_rate_total g f gs tau (Some 0) = HomInf).
Proof.
  intros Hf Hg result. subst result. unfold hom_rate_total. cbv zeta. no_panic.
  destruct (Req_EM_T 0 0) as [_|N]; [|contradiction N; reflexivity].
  destruct (Req_EM_T (hom_sum ROps (grid_len g) (arr (0, 0) f) (arr (0, 0) gs) (hom_phase g tau)) 0) as [Er|Er]; split; intros H;
    try reflexivity; [contradiction (H Er)|contradiction (Er H)].
Qed.

(* series: an empty delay list never panics; a non-empty one panics exactly when a slice is short; otherwise the list of
   single outcomes with the shared norm *)
Theorem series_total_cases g f gs taus :
  (taus = nil -> hom_rate_series_total g f gs taus = SeriesOk nil) /\
  (taus <> nil ->
     (hom_rate_series_total g f gs taus = SeriesPanic <-> (length f < grid_len g)%nat \/ (length gs < grid_len g)%nat) /\
     ((grid_len g <= length f)%nat -> (grid_len g <= length gs)%nat ->
      hom_rate_series_total g f gs taus
      = SeriesOk (map (fun tau => hom_rate_total g f gs tau (Some (jsi_norm ROps (length f) (arr (0, 0) f)))) taus))).
Proof.
  split.
  - intros ->. reflexivity.
  - intros Hne. destruct taus as [|t ts]; [contradiction|]. unfold hom_rate_series_total. cbv zeta.
    rewrite <- idx_panics_iff. destruct (idx_panics (grid_len g) (length f) (length gs)) eqn:E.
    + split; [tauto|]. intros Hf Hg. apply idx_panics_iff in E. lia.
    + split; [split; [discriminate|discriminate]|]. reflexivity.
Qed.

(* with arrays of the grid's length and a non-zero first array the series is the main model's series *)
Theorem series_total_is_model g f gs taus :
  length f = grid_len g -> length gs = grid_len g -> ~ all_zero f -> taus <> nil ->
  hom_rate_series_total g f gs taus = SeriesOk (map HomVal (hom_rate_series g (arr (0, 0) f) (arr (0, 0) gs) taus)).
Proof.
  intros Hf Hg Hz Hne. destruct (series_total_cases g f gs taus) as [_ S]. destruct (S Hne) as [_ V].
  rewrite V by lia. f_equal. unfold hom_rate_series. rewrite map_map. apply map_ext. intros tau.
  unfold hom_rate_total. cbv zeta. no_panic.
  destruct (Req_EM_T (jsi_norm ROps (length f) (arr (0, 0) f)) 0) as [E0|E0].
  - exfalso. apply Hz. apply full_norm_zero_iff. exact E0.
  - unfold hom_rate. rewrite hom_rate_gen_R, Hf. reflexivity.
Qed.

(* ---- the executable twin over Q stands for the real outcome, whenever its phase table is the image of the real phases *)
From Coq Require Import QArith Qreals.
From SpdVerif Require Import Proofs.FinSum_morph Proofs.C09_exec.

Lemma Qeq_bool_Q2R x : Qeq_bool x 0 = true <-> Q2R x = 0%R.
Proof.
  rewrite Qeq_bool_iff. split.
  - intros H. rewrite (Qeq_eqR _ _ H). apply Q2R_0.
  - intros H. apply eqR_Qeq. rewrite H, Q2R_0. reflexivity.
Qed.

Lemma RC_as_arr (f : list (cx Q)) k : arr (0, 0)%R (map Q2C f) k = cmap Q2R (arr (0, 0)%Q f k).
Proof. symmetry. apply RC_arr. Qed.

Theorem hom_rate_total_Q_correct (g : grid R) (f gs : list (cx Q)) (u : nat -> cx Q) (tau : R) (norm : option Q) :
  (forall k, (k < grid_len g)%nat -> hom_phase g tau k = cmap Q2R (u k)) ->
  hom_rate_total g (map Q2C f) (map Q2C gs) tau (option_map Q2R norm)
  = outcome_of_q (hom_rate_total_Q (grid_len g) f gs u norm).
Proof.
  intros Hu. unfold hom_rate_total, hom_rate_total_Q. rewrite !map_length.
  destruct (idx_panics (grid_len g) (length f) (length gs)); [reflexivity|]. cbv zeta.
  set (nq := match norm with Some x => x | None => jsi_norm QOps (length f) (arr (0, 0)%Q f) end).
  assert (En : match option_map Q2R norm with Some x => x | None => jsi_norm ROps (length f) (arr (0, 0)%R (map Q2C f)) end = Q2R nq).
  { unfold nq. destruct norm; cbn [option_map]; [reflexivity|]. symmetry. apply jsi_norm_Q_correct. }
  rewrite En.
  assert (Er : hom_sum ROps (grid_len g) (arr (0, 0)%R (map Q2C f)) (arr (0, 0)%R (map Q2C gs)) (hom_phase g tau)
               = Q2R (hom_sum QOps (grid_len g) (arr (0, 0)%Q f) (arr (0, 0)%Q gs) u)).
  { rewrite (hom_sum_morph Q2R QOps ROps Q2R_morph). rewrite !hom_sum_rsum. apply rsum_ext. intros k Hk.
    rewrite !RC_as_arr, (Hu k Hk). reflexivity. }
  rewrite Er.
  destruct (Qeq_bool nq 0) eqn:Bn.
  - apply Qeq_bool_Q2R in Bn. destruct (Req_EM_T (Q2R nq) 0) as [_|C]; [|contradiction].
    destruct (Qeq_bool (hom_sum QOps (grid_len g) (arr (0, 0)%Q f) (arr (0, 0)%Q gs) u) 0) eqn:Br.
    + apply Qeq_bool_Q2R in Br. destruct (Req_EM_T _ 0) as [_|C]; [reflexivity|contradiction].
    + destruct (Req_EM_T _ 0) as [C|_]; [|reflexivity]. apply Qeq_bool_Q2R in C. congruence.
  - destruct (Req_EM_T (Q2R nq) 0) as [C|NZ]; [apply Qeq_bool_Q2R in C; congruence|].
    cbn [outcome_of_q]. f_equal.
    rewrite (hom_rate_gen_morph Q2R QOps ROps Q2R_morph _ _ _ _ _ otwo_R_neq NZ), hom_rate_gen_R.
    rewrite <- (hom_sum_morph Q2R QOps ROps Q2R_morph). reflexivity.
Qed.

Corollary hom_rate_total_Q0_correct (g : grid R) (f gs : list (cx Q)) (norm : option Q) :
  hom_rate_total g (map Q2C f) (map Q2C gs) 0 (option_map Q2R norm)
  = outcome_of_q (hom_rate_total_Q (grid_len g) f gs (fun _ => cone QOps) norm).
Proof.
  apply hom_rate_total_Q_correct. intros k _. rewrite hom_phase_zero.
  unfold cmap, cone. cbn [fst snd QOps o0 o1]. rewrite Q2R_0, Q2R_1. reflexivity.
Qed.
