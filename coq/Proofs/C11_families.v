(* C11 — extremes and invariances of the Schmidt number in trace form. *)
From Coq Require Import Reals Lra Lia Arith Psatz Setoid Morphisms.
From SpdVerif Require Import Model.FinSum Model.Schmidt Proofs.FinSum_lemmas Proofs.RMat Proofs.C11_trace.
Local Open Scope R_scope.

(* ---- K depends on M only through its values on the index range *)
Lemma G_meq n M M' : meq n M M' -> meq n (G n M) (G n M').
Proof. intros H. rewrite !G_mmul. rewrite H. reflexivity. Qed.

Lemma schmidt_K_ext n M M' : meq n M M' -> schmidt_K ROps n M = schmidt_K ROps n M'.
Proof.
  intros H. rewrite !K_unfold, !trG_mtr, !trG2_mtr. pose proof (G_meq n M M' H) as HG.
  rewrite HG. reflexivity.
Qed.

(* ---- separable (outer-product) arrays: K = 1 *)
Lemma G_outer n u v j j' : G n (outer u v) j j' = rsum n (fun i => u i * u i) * (v j * v j').
Proof.
  unfold G, gram, outer. change (gsum ROps) with rsum. cbn [omul ROps].
  rewrite <- rsum_scal_r. apply rsum_ext; intros i _. ring.
Qed.

Theorem schmidt_separable n u v :
  nonzero_matrix n (outer u v) -> schmidt_K ROps n (outer u v) = 1.
Proof.
  intros Hnz. pose proof (trG_pos n _ Hnz) as Hp.
  assert (H2 : trG2 ROps n (outer u v) = trG ROps n (outer u v) * trG ROps n (outer u v)).
  { rewrite trG2_sq. unfold trG. fold (G n (outer u v)). change (gsum ROps) with rsum.
    rewrite rsum_mul. apply rsum_ext; intros j _. apply rsum_ext; intros j' _.
    rewrite !G_outer. ring. }
  rewrite K_unfold, H2. field. lra.
Qed.

(* ---- equal magnitudes on a permuted diagonal (the identity permutation gives a diagonal array): K = n *)
Lemma G_perm_diag n p q m j j' :
  is_perm n p q -> (j < n)%nat ->
  G n (perm_diag p (fun _ => m)) j j' = if Nat.eqb j' j then m * m else 0.
Proof.
  intros [Hp Hq] Hj. unfold G, gram, perm_diag. change (gsum ROps) with rsum. cbn [omul ROps].
  destruct (Hq j Hj) as [Hqj Hpq].
  transitivity (rsum n (fun i => (if Nat.eqb i (q j) then 1 else 0) * (m * (if Nat.eqb j' (p i) then m else 0)))).
  - apply rsum_ext; intros i Hi. destruct (Hp i Hi) as [Hpi Hqp].
    destruct (Nat.eqb j (p i)) eqn:E1; destruct (Nat.eqb i (q j)) eqn:E2; try ring.
    + apply Nat.eqb_eq in E1. apply Nat.eqb_neq in E2. exfalso. apply E2. subst j. symmetry. exact Hqp.
    + apply Nat.eqb_neq in E1. apply Nat.eqb_eq in E2. exfalso. apply E1. subst i. symmetry. exact Hpq.
  - rewrite (rsum_delta_l n (q j) (fun i => m * (if Nat.eqb j' (p i) then m else 0)) Hqj).
    rewrite Hpq. destruct (Nat.eqb j' j); ring.
Qed.

Theorem schmidt_perm_diag n p q m :
  is_perm n p q -> (0 < n)%nat -> m <> 0 ->
  trG2 ROps n (perm_diag p (fun _ => m)) <> 0 /\ schmidt_K ROps n (perm_diag p (fun _ => m)) = INR n.
Proof.
  intros Hperm Hn Hm.
  assert (H1 : trG ROps n (perm_diag p (fun _ => m)) = INR n * (m * m)).
  { unfold trG. fold (G n (perm_diag p (fun _ => m))). change (gsum ROps) with rsum.
    rewrite <- rsum_const. apply rsum_ext; intros j Hj.
    rewrite (G_perm_diag n p q m j j Hperm Hj), Nat.eqb_refl. reflexivity. }
  assert (H2 : trG2 ROps n (perm_diag p (fun _ => m)) = INR n * (m * m * (m * m))).
  { rewrite trG2_sq. rewrite <- rsum_const. apply rsum_ext; intros j Hj.
    transitivity (rsum n (fun j' => (if Nat.eqb j' j then 1 else 0) * (m * m * (m * m)))).
    - apply rsum_ext; intros j' _. rewrite (G_perm_diag n p q m j j' Hperm Hj).
      destruct (Nat.eqb j' j); ring.
    - apply (rsum_delta_l n j (fun _ => m * m * (m * m)) Hj). }
  assert (HN : 0 < INR n) by (apply lt_0_INR; assumption).
  assert (Hmm : m * m <> 0) by nra.
  split.
  - rewrite H2. apply Rmult_integral_contrapositive_currified; [lra|]. apply Rmult_integral_contrapositive_currified; assumption.
  - rewrite K_unfold, H1, H2. field. split; lra.
Qed.

Lemma is_perm_id n : is_perm n (fun i => i) (fun i => i).
Proof. split; intros; split; auto. Qed.

Corollary schmidt_diagonal n m :
  (0 < n)%nat -> m <> 0 -> schmidt_K ROps n (perm_diag (fun i => i) (fun _ => m)) = INR n.
Proof. intros Hn Hm. apply (schmidt_perm_diag n _ _ m (is_perm_id n) Hn Hm). Qed.

(* ---- global scale *)
Lemma G_scale n c M j j' : G n (fun i k => c * M i k) j j' = c * c * G n M j j'.
Proof.
  unfold G, gram. change (gsum ROps) with rsum. cbn [omul ROps]. rewrite <- rsum_scal_l.
  apply rsum_ext; intros i _. ring.
Qed.

Theorem schmidt_scale n c M :
  c <> 0 -> trG2 ROps n M <> 0 -> schmidt_K ROps n (fun i k => c * M i k) = schmidt_K ROps n M.
Proof.
  intros Hc H2.
  assert (E1 : trG ROps n (fun i k => c * M i k) = c * c * trG ROps n M).
  { unfold trG. change (gsum ROps) with rsum. rewrite <- rsum_scal_l. apply rsum_ext; intros j _.
    apply (G_scale n c M j j). }
  assert (E2 : trG2 ROps n (fun i k => c * M i k) = (c * c) * (c * c) * trG2 ROps n M).
  { unfold trG2. change (gsum ROps) with rsum. rewrite <- rsum_scal_l. apply rsum_ext; intros j _.
    rewrite <- rsum_scal_l. apply rsum_ext; intros j' _. cbn [omul ROps].
    fold (G n (fun i k => c * M i k)) (G n M). rewrite !G_scale. ring. }
  rewrite !K_unfold, E1, E2. field. split; [assumption|]. assumption.
Qed.

(* ---- transposition: tr((M M^T)^2) = tr((M^T M)^2) by cyclicity of the trace *)
Theorem schmidt_transpose n M : schmidt_K ROps n (mT M) = schmidt_K ROps n M.
Proof.
  rewrite !K_unfold, !trG_mtr, !trG2_mtr, !G_mmul.
  assert (E1 : mtr n (mmul n (mT (mT M)) (mT M)) = mtr n (mmul n (mT M) M)).
  { rewrite (mT_mT n M). apply mtr_comm. }
  assert (E2 : mtr n (mmul n (mmul n (mT (mT M)) (mT M)) (mmul n (mT (mT M)) (mT M)))
             = mtr n (mmul n (mmul n (mT M) M) (mmul n (mT M) M))).
  { rewrite (mT_mT n M).
    rewrite (mmul_assoc n M (mT M) (mmul n M (mT M))).
    rewrite mtr_comm.
    rewrite (mmul_assoc n (mT M) (mmul n M (mT M)) M).
    rewrite (mmul_assoc n M (mT M) M).
    rewrite <- (mmul_assoc n (mT M) M (mmul n (mT M) M)). reflexivity. }
  rewrite E1, E2. reflexivity.
Qed.

(* ---- complex modulus: multiplicative, so phases drop out and a complex scale factor acts as its modulus *)
Lemma cmod_nonneg a : 0 <= cmod a.
Proof. apply sqrt_pos. Qed.

Lemma cmod_mul (z a : cx R) : cmod (cmul ROps z a) = cmod z * cmod a.
Proof.
  unfold cmod, cmul; cbn [fst snd ROps osub oadd omul]. destruct z as [x y], a as [u v]; cbn [fst snd].
  rewrite <- sqrt_mult by nra. f_equal. ring.
Qed.

Lemma cmod_polar theta : cmod (cpolar 1 theta) = 1.
Proof.
  unfold cmod, cpolar; cbn [fst snd]. replace (1 * cos theta * (1 * cos theta) + 1 * sin theta * (1 * sin theta))
    with ((sin theta)² + (cos theta)²) by (unfold Rsqr; ring).
  rewrite sin2_cos2. apply sqrt_1.
Qed.

Lemma cmod_conj a : cmod (cconj ROps a) = cmod a.
Proof. unfold cmod, cconj; cbn [fst snd ROps oopp]. f_equal. ring. Qed.

Lemma cmod_zero_iff a : cmod a = 0 <-> a = (0, 0).
Proof.
  destruct a as [x y]; unfold cmod; cbn [fst snd]. split.
  - intros H. apply sqrt_eq_0 in H; [|nra]. assert (x = 0) by nra. assert (y = 0) by nra. subst. reflexivity.
  - intros H. inversion H. subst. replace (0 * 0 + 0 * 0) with 0 by ring. apply sqrt_0.
Qed.

(* element-wise phases (any unit-modulus factors) *)
Theorem schmidt_phases n (a b : nat -> cx R) :
  (forall k, (k < n * n)%nat -> cmod (b k) = cmod (a k)) ->
  schmidt_K ROps n (mag_matrix n b) = schmidt_K ROps n (mag_matrix n a).
Proof.
  intros H. apply schmidt_K_ext. intros i j Hi Hj. unfold mag_matrix, mat_of. apply H. nia.
Qed.

Corollary schmidt_phase_factors n (a : nat -> cx R) (phi : nat -> R) :
  schmidt_K ROps n (mag_matrix n (fun k => cmul ROps (cpolar 1 (phi k)) (a k))) = schmidt_K ROps n (mag_matrix n a).
Proof. apply schmidt_phases. intros k _. rewrite cmod_mul, cmod_polar. ring. Qed.

(* global complex scale factor *)
Corollary schmidt_complex_scale n (a : nat -> cx R) (z : cx R) :
  z <> (0, 0) -> trG2 ROps n (mag_matrix n a) <> 0 ->
  schmidt_K ROps n (mag_matrix n (fun k => cmul ROps z (a k))) = schmidt_K ROps n (mag_matrix n a).
Proof.
  intros Hz H2. rewrite <- (schmidt_scale n (cmod z) (mag_matrix n a)).
  - apply schmidt_K_ext. intros i j _ _. unfold mag_matrix, mat_of. apply cmod_mul.
  - intros H0. apply Hz. apply cmod_zero_iff. exact H0.
  - exact H2.
Qed.

(* transposition of the flat array *)
Lemma mag_matrix_transpose n (a : nat -> cx R) :
  meq n (mag_matrix n (transpose_arr n a)) (mT (mag_matrix n a)).
Proof.
  intros i j Hi Hj. unfold mag_matrix, mat_of, mT, transpose_arr, get_2d_indices, get_1d_index. cbn [fst snd].
  assert (E1 : ((i * n + j) mod n = j)%nat).
  { rewrite Nat.add_comm, Nat.mod_add by lia. apply Nat.mod_small; assumption. }
  assert (E2 : ((i * n + j) / n = i)%nat).
  { rewrite Nat.add_comm, Nat.div_add by lia. rewrite Nat.div_small by assumption. reflexivity. }
  rewrite E1, E2. reflexivity.
Qed.

Corollary schmidt_transpose_arr n (a : nat -> cx R) :
  schmidt_K ROps n (mag_matrix n (transpose_arr n a)) = schmidt_K ROps n (mag_matrix n a).
Proof. rewrite (schmidt_K_ext n _ _ (mag_matrix_transpose n a)). apply schmidt_transpose. Qed.

(* ---- the extremes stated on the flat complex array *)
(* separable: a[r*n + c] = u_r * v_c (complex), not identically zero *)
Theorem schmidt_separable_complex n (u v : nat -> cx R) (a : nat -> cx R) :
  (forall r c, (r < n)%nat -> (c < n)%nat -> a (r * n + c)%nat = cmul ROps (u r) (v c)) ->
  (exists r c, (r < n)%nat /\ (c < n)%nat /\ a (r * n + c)%nat <> (0, 0)) ->
  schmidt_K ROps n (mag_matrix n a) = 1.
Proof.
  intros Ha (r & c & Hr & Hc & Hne).
  rewrite (schmidt_K_ext n (mag_matrix n a) (outer (fun r => cmod (u r)) (fun c => cmod (v c)))).
  - apply schmidt_separable. exists r, c. repeat split; try assumption.
    unfold outer. rewrite <- cmod_mul, <- (Ha r c Hr Hc). intros H0. apply Hne. apply cmod_zero_iff. exact H0.
  - intros i j Hi Hj. unfold mag_matrix, mat_of, outer. rewrite (Ha i j Hi Hj). apply cmod_mul.
Qed.

(* equal moduli m <> 0 on a permuted diagonal, arbitrary phases, zero elsewhere *)
Theorem schmidt_perm_diag_complex n p q m (a : nat -> cx R) :
  is_perm n p q -> (0 < n)%nat -> m <> 0 ->
  (forall r c, (r < n)%nat -> (c < n)%nat -> cmod (a (r * n + c)%nat) = if Nat.eqb c (p r) then m else 0) ->
  schmidt_K ROps n (mag_matrix n a) = INR n.
Proof.
  intros Hp Hn Hm Ha.
  rewrite (schmidt_K_ext n (mag_matrix n a) (perm_diag p (fun _ => m))).
  - apply (schmidt_perm_diag n p q m Hp Hn Hm).
  - intros i j Hi Hj. unfold mag_matrix, mat_of, perm_diag. apply Ha; assumption.
Qed.
