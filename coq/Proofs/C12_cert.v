(* C12 — executable moment certificate for a rule with dyadic nodes and weights (f64 values read off the running code).
   nodes x_i = X_i / 2^E, weights w_i = W_i / 2^F with integers X_i, W_i.  [cert_check] computes, for k = 0..d,
   M_k = sum_i W_i X_i^k exactly and tests  |M_k/2^(F+kE) - int_{-1}^{1} x^k| <= en/ed  in integer arithmetic.
   [cert_check_sound] turns `cert_check … = true` into the hypothesis of the rule certificate theorem.
   [cert_check_big] is the same loop on Bignums' BigZ (machine-integer limbs; ~50x faster under vm_compute), proved equal. *)
From Coq Require Import Reals ZArith List Bool Lra Lia.
From Bignums Require Import BigZ.
From Coquelicot Require Import Coquelicot.
From SpdVerif Require Import Base.NumOps Gen.Integration Model.Quadrature Proofs.C12_base Proofs.C12_rule.
Import ListNotations.

Fixpoint dotZ (ws ps : list Z) : Z :=
  match ws, ps with w :: ws', p :: ps' => (w * p + dotZ ws' ps')%Z | _, _ => 0%Z end.
Fixpoint mulsZ (xs ps : list Z) : list Z :=
  match xs, ps with x :: xs', p :: ps' => (x * p)%Z :: mulsZ xs' ps' | _, _ => nil end.

(* k: current degree; c = 1 - (-1)^(k+1) (2, 0, 2, 0, …); ps_i = X_i^k; pw = 2^(F + k E) *)
Fixpoint cert_loop (fuel : nat) (k c : Z) (xs ws ps : list Z) (pw twoE en ed : Z) : bool :=
  match fuel with
  | O => true
  | S fuel' =>
    let M := dotZ ws ps in
    (Z.abs (M * (k + 1) - c * pw) * ed <=? en * (k + 1) * pw)%Z
    && cert_loop fuel' (k + 1)%Z (2 - c)%Z xs ws (mulsZ xs ps) (pw * twoE)%Z twoE en ed
  end.

Definition cert_check (E F : Z) (d : nat) (en ed : Z) (xs ws : list Z) : bool :=
  cert_loop (S d) 0 2 xs ws (map (fun _ => 1%Z) xs) (2 ^ F) (2 ^ E) en ed.

Definition mk_rule (E F : Z) (xs ws : list Z) : rule Rops :=
  map (fun xw => (IZR (fst xw) / IZR (2 ^ E), IZR (snd xw) / IZR (2 ^ F))%R) (combine xs ws).

Local Open Scope R_scope.

Lemma mulsZ_pow : forall xs (j : nat), mulsZ xs (map (fun x => (x ^ Z.of_nat j)%Z) xs) = map (fun x => (x ^ Z.of_nat (S j))%Z) xs.
Proof.
  induction xs as [|x xs IH]; intros j; cbn [map mulsZ]; [reflexivity|].
  rewrite IH. f_equal. rewrite Nat2Z.inj_succ, Z.pow_succ_r by lia. reflexivity.
Qed.

Lemma moment_mk_rule : forall E F xs ws (j : nat), (0 <= E)%Z -> (0 <= F)%Z ->
  moment (mk_rule E F xs ws) j = IZR (dotZ ws (map (fun x => (x ^ Z.of_nat j)%Z) xs)) / (IZR (2 ^ F) * IZR (2 ^ E) ^ j).
Proof.
  intros E F xs ws j HE HF. unfold moment, mk_rule.
  assert (HpE : IZR (2 ^ E) <> 0) by (apply not_0_IZR; pose proof (Z.pow_pos_nonneg 2 E); lia).
  assert (HpF : IZR (2 ^ F) <> 0) by (apply not_0_IZR; pose proof (Z.pow_pos_nonneg 2 F); lia).
  revert ws. induction xs as [|x xs IH]; intros [|w ws]; cbn [combine map rapply fold_right dotZ fst snd];
    try (unfold Rdiv; rewrite Rmult_0_l; reflexivity).
  fold (rapply (map (fun xw : Z * Z => (IZR (fst xw) / IZR (2 ^ E), IZR (snd xw) / IZR (2 ^ F))) (combine xs ws)) (fun x0 => x0 ^ j)).
  rewrite IH. rewrite plus_IZR, mult_IZR.
  replace (IZR (x ^ Z.of_nat j)) with (IZR x ^ j) by (rewrite <- pow_IZR; reflexivity).
  unfold Rdiv. rewrite Rpow_mult_distr, pow_inv.
  field. split; [apply pow_nonzero|]; assumption.
Qed.

Lemma leg_moment_c : forall j : nat, exists c : Z,
  (c = 2 \/ c = 0)%Z /\ leg_moment j = IZR c / IZR (Z.of_nat j + 1) /\
  leg_moment (S j) = IZR (2 - c) / IZR (Z.of_nat (S j) + 1).
Proof.
  intros j. unfold leg_moment.
  assert (P : forall n : nat, (-1) ^ n = 1 \/ (-1) ^ n = -1).
  { induction n as [|n [H|H]]; cbn [pow]; [left; lra | right; lra | left; lra]. }
  replace (S j + 1)%nat with (S (j + 1)) by lia.
  rewrite !INR_IZR_INZ. replace (Z.of_nat (S (j + 1))) with (Z.of_nat (S j) + 1)%Z by lia.
  replace (Z.of_nat (j + 1)) with (Z.of_nat j + 1)%Z by lia.
  cbn [pow]. destruct (P (j + 1)%nat) as [H|H]; rewrite H.
  - exists 0%Z. repeat split; [right; reflexivity | f_equal; lra | f_equal; cbn; lra].
  - exists 2%Z. repeat split; [left; reflexivity | f_equal; lra | f_equal; cbn; lra].
Qed.

Lemma cert_step : forall (M k c pw en ed : Z),
  (0 <= k)%Z -> (0 < pw)%Z -> (0 < ed)%Z ->
  (Z.abs (M * (k + 1) - c * pw) * ed <=? en * (k + 1) * pw)%Z = true ->
  Rabs (IZR M / IZR pw - IZR c / IZR (k + 1)) <= IZR en / IZR ed.
Proof.
  intros M k c pw en ed Hk Hpw Hed H. apply Z.leb_le in H. apply IZR_le in H.
  rewrite !mult_IZR, abs_IZR, minus_IZR, !mult_IZR, plus_IZR in H.
  assert (P1 : 0 < IZR pw) by (apply IZR_lt; lia).
  assert (P2 : 0 < IZR ed) by (apply IZR_lt; lia).
  assert (P3 : 0 < IZR k + 1) by (apply (IZR_le 0) in Hk; lra).
  rewrite plus_IZR.
  replace (IZR M / IZR pw - IZR c / (IZR k + 1)) with ((IZR M * (IZR k + 1) - IZR c * IZR pw) / (IZR pw * (IZR k + 1)))
    by (field; repeat split; lra).
  unfold Rdiv at 1. rewrite Rabs_mult, (Rabs_right (/ _)).
  2:{ apply Rle_ge, Rlt_le, Rinv_0_lt_compat. apply Rmult_lt_0_compat; assumption. }
  apply (Rmult_le_reg_r (IZR pw * (IZR k + 1) * IZR ed)); [apply Rmult_lt_0_compat; [apply Rmult_lt_0_compat|]; assumption|].
  replace (Rabs (IZR M * (IZR k + 1) - IZR c * IZR pw) * / (IZR pw * (IZR k + 1)) * (IZR pw * (IZR k + 1) * IZR ed))
    with (Rabs (IZR M * (IZR k + 1) - IZR c * IZR pw) * IZR ed) by (field; repeat split; lra).
  replace (IZR en / IZR ed * (IZR pw * (IZR k + 1) * IZR ed)) with (IZR en * (IZR k + 1) * IZR pw) by (field; repeat split; lra).
  exact H.
Qed.

Lemma cert_loop_sound : forall E F xs ws en ed, (0 <= E)%Z -> (0 <= F)%Z -> (0 < ed)%Z ->
  forall (fuel j : nat) (c : Z),
  leg_moment j = IZR c / IZR (Z.of_nat j + 1) ->
  cert_loop fuel (Z.of_nat j) c xs ws (map (fun x => (x ^ Z.of_nat j)%Z) xs) (2 ^ F * (2 ^ E) ^ Z.of_nat j) (2 ^ E) en ed = true ->
  forall i, (i < fuel)%nat ->
  Rabs (moment (mk_rule E F xs ws) (j + i) - leg_moment (j + i)) <= IZR en / IZR ed.
Proof.
  intros E F xs ws en ed HE HF Hed. induction fuel as [|fuel IH]; intros j c Hc H i Hi; [lia|].
  cbn [cert_loop] in H. apply andb_true_iff in H. destruct H as [H1 H2].
  assert (Hpw : (0 < 2 ^ F * (2 ^ E) ^ Z.of_nat j)%Z).
  { apply Z.mul_pos_pos; [apply Z.pow_pos_nonneg; lia|]. apply Z.pow_pos_nonneg; [apply Z.pow_pos_nonneg|]; lia. }
  destruct i as [|i].
  - replace (j + 0)%nat with j by lia. rewrite (moment_mk_rule E F xs ws j HE HF), Hc.
    replace (IZR (2 ^ F) * IZR (2 ^ E) ^ j) with (IZR (2 ^ F * (2 ^ E) ^ Z.of_nat j)).
    2:{ rewrite mult_IZR. f_equal. rewrite <- pow_IZR. reflexivity. }
    apply cert_step; try assumption. lia.
  - replace (j + S i)%nat with (S j + i)%nat by lia.
    destruct (leg_moment_c j) as [c' [Hc'2 [Hc'a Hc'b]]].
    assert (c' = c).
    { rewrite Hc in Hc'a. assert (Hk : IZR (Z.of_nat j + 1) <> 0) by (apply not_0_IZR; lia).
      apply eq_IZR. apply (Rmult_eq_reg_r (/ IZR (Z.of_nat j + 1))); [symmetry; exact Hc'a|].
      apply Rinv_neq_0_compat. exact Hk. }
    subst c'.
    apply (IH (S j) (2 - c)%Z); [exact Hc'b | | lia].
    replace (Z.of_nat (S j)) with (Z.of_nat j + 1)%Z by lia.
    replace (map (fun x : Z => (x ^ (Z.of_nat j + 1))%Z) xs) with (map (fun x : Z => (x ^ Z.of_nat (S j))%Z) xs)
      by (apply map_ext; intros x; f_equal; lia).
    rewrite <- (mulsZ_pow xs j).
    replace (2 ^ F * (2 ^ E) ^ (Z.of_nat j + 1))%Z with (2 ^ F * (2 ^ E) ^ Z.of_nat j * 2 ^ E)%Z.
    2:{ rewrite Z.pow_add_r by lia. rewrite Z.pow_1_r. ring. }
    exact H2.
Qed.

Theorem cert_check_sound : forall (E F : Z) (d : nat) (en ed : Z) (xs ws : list Z),
  (0 <= E)%Z -> (0 <= F)%Z -> (0 < ed)%Z ->
  cert_check E F d en ed xs ws = true ->
  forall k, (k <= d)%nat -> Rabs (moment (mk_rule E F xs ws) k - leg_moment k) <= IZR en / IZR ed.
Proof.
  intros E F d en ed xs ws HE HF Hed H k Hk. unfold cert_check in H.
  apply (cert_loop_sound E F xs ws en ed HE HF Hed (S d) 0%nat 2%Z); [| | lia].
  - unfold leg_moment. cbn. lra.
  - cbn [Z.of_nat]. rewrite Z.pow_0_r, Z.mul_1_r.
    replace (map (fun x : Z => (x ^ 0)%Z) xs) with (map (fun _ : Z => 1%Z) xs) by (apply map_ext; intros x; rewrite Z.pow_0_r; reflexivity).
    exact H.
Qed.

(* ------------------------------------------------------------------ the same loop on BigZ *)
Local Open Scope bigZ_scope.

Fixpoint dotB (ws ps : list bigZ) : bigZ :=
  match ws, ps with w :: ws', p :: ps' => w * p + dotB ws' ps' | _, _ => BigZ.zero end.
Fixpoint mulsB (xs ps : list bigZ) : list bigZ :=
  match xs, ps with x :: xs', p :: ps' => x * p :: mulsB xs' ps' | _, _ => nil end.
Fixpoint cert_loop_big (fuel : nat) (k c : bigZ) (xs ws ps : list bigZ) (pw twoE en ed : bigZ) : bool :=
  match fuel with
  | O => true
  | S fuel' =>
    let M := dotB ws ps in
    (BigZ.abs (M * (k + BigZ.one) - c * pw) * ed <=? en * (k + BigZ.one) * pw)
    && cert_loop_big fuel' (k + BigZ.one) (BigZ.two - c) xs ws (mulsB xs ps) (pw * twoE) twoE en ed
  end.
Definition cert_check_big (E F : Z) (d : nat) (en ed : Z) (xs ws : list bigZ) : bool :=
  cert_loop_big (S d) BigZ.zero BigZ.two xs ws (map (fun _ => BigZ.one) xs) (BigZ.of_Z (2 ^ F)) (BigZ.of_Z (2 ^ E)) (BigZ.of_Z en) (BigZ.of_Z ed).

Lemma dotB_spec : forall ws ps, BigZ.to_Z (dotB ws ps) = dotZ (map BigZ.to_Z ws) (map BigZ.to_Z ps).
Proof.
  induction ws as [|w ws IH]; intros [|p ps]; cbn [dotB dotZ map]; try reflexivity.
  rewrite BigZ.spec_add, BigZ.spec_mul, IH. reflexivity.
Qed.
Lemma mulsB_spec : forall xs ps, map BigZ.to_Z (mulsB xs ps) = mulsZ (map BigZ.to_Z xs) (map BigZ.to_Z ps).
Proof.
  induction xs as [|x xs IH]; intros [|p ps]; cbn [mulsB mulsZ map]; try reflexivity.
  rewrite BigZ.spec_mul, IH. reflexivity.
Qed.
Lemma cert_loop_big_spec : forall fuel k c xs ws ps pw twoE en ed,
  cert_loop_big fuel k c xs ws ps pw twoE en ed =
  cert_loop fuel (BigZ.to_Z k) (BigZ.to_Z c) (map BigZ.to_Z xs) (map BigZ.to_Z ws) (map BigZ.to_Z ps) (BigZ.to_Z pw) (BigZ.to_Z twoE) (BigZ.to_Z en) (BigZ.to_Z ed).
Proof.
  induction fuel as [|fuel IH]; intros; cbn [cert_loop_big cert_loop]; [reflexivity|].
  rewrite IH, BigZ.spec_leb. rewrite !BigZ.spec_mul, BigZ.spec_abs, BigZ.spec_sub, !BigZ.spec_mul, !BigZ.spec_add,
    BigZ.spec_sub, dotB_spec, mulsB_spec, BigZ.spec_1, BigZ.spec_2. reflexivity.
Qed.

Theorem cert_check_big_sound : forall (E F : Z) (d : nat) (en ed : Z) (xs ws : list bigZ),
  (0 <= E)%Z -> (0 <= F)%Z -> (0 < ed)%Z ->
  cert_check_big E F d en ed xs ws = true ->
  forall k, (k <= d)%nat ->
  (Rabs (moment (mk_rule E F (map BigZ.to_Z xs) (map BigZ.to_Z ws)) k - leg_moment k) <= IZR en / IZR ed)%R.
Proof.
  intros E F d en ed xs ws HE HF Hed H. apply cert_check_sound; try assumption.
  unfold cert_check_big in H. rewrite cert_loop_big_spec in H. rewrite !BigZ.spec_of_Z in H.
  unfold cert_check. rewrite map_map in H. rewrite map_map.
  replace (map (fun x : bigZ => BigZ.to_Z BigZ.one) xs) with (map (fun _ : bigZ => 1%Z) xs) in H
    by (apply map_ext; intros; symmetry; apply BigZ.spec_1).
  rewrite BigZ.spec_0, BigZ.spec_2 in H. exact H.
Qed.

Local Close Scope bigZ_scope.
Local Open Scope R_scope.

(* the rule a certificate speaks about, and the end-to-end statement used by the generated per-rule files *)
Definition big_rule (E F : Z) (xs ws : list bigZ) : rule Rops := mk_rule E F (map BigZ.to_Z xs) (map BigZ.to_Z ws).

Theorem certified_rule_exact : forall (E F : Z) (d : nat) (en ed : Z) (xs ws : list bigZ),
  (0 <=? E)%Z = true -> (0 <=? F)%Z = true -> (0 <? ed)%Z = true ->
  cert_check_big E F d en ed xs ws = true ->
  forall (a b : R) (cs : list C), (length cs <= S d)%nat ->
  Cmod (Cminus (apply_rule Rops (gq_transfer Rops (big_rule E F xs ws) a b) (cpeval Rops cs)) (cpint Rops cs a b))
    <= IZR en / IZR ed * Rabs (tr_u a b) * scale_cmod cs (tr_M a b).
Proof.
  intros E F d en ed xs ws HE HF Hed H a b cs Hl.
  apply Z.leb_le in HE, HF. apply Z.ltb_lt in Hed.
  apply (rule_certificate_transfer (big_rule E F xs ws) d (IZR en / IZR ed)); [|exact Hl].
  apply cert_check_big_sound; assumption.
Qed.

Lemma transfer_scale : forall a b : R, tr_u a b = (b - a) / 2 /\ tr_M a b = Rmax (Rabs a) (Rabs b).
Proof. intros a b; split; [reflexivity | apply tr_M_max]. Qed.

(* non-vacuity: the midpoint rule {(0, 2)} is certified to degree 1 with eps = 0 *)
Lemma cert_example : cert_check_big 0 0 1 0 1 (BigZ.zero :: nil) (BigZ.two :: nil) = true.
Proof. vm_compute. reflexivity. Qed.
Lemma cert_example_moments : forall k, (k <= 1)%nat ->
  Rabs (moment (big_rule 0 0 (BigZ.zero :: nil) (BigZ.two :: nil)) k - leg_moment k) <= IZR 0 / IZR 1.
Proof. apply cert_check_big_sound; [discriminate | discriminate | reflexivity | exact cert_example]. Qed.


(* non-vacuity on a real rule: the 3-point Gauss-Legendre rule in binary64 (the values gauss-quad 0.2.4 returns: nodes
   0.7745966692414834, 6.123233995736766e-17, -0.7745966692414833; weights 0.5555555555555556, 0.8888888888888888,
   0.5555555555555556) is certified to degree 5 within 1e-13 *)
Definition gl3_xs : list bigZ := (62842747692720237858896947970048 :: 4967757600021511 :: (-62842747692720228851697693229056) :: nil)%bigZ.
Definition gl3_ws : list bigZ := (2501999792983609 :: 4003199668773774 :: 2501999792983609 :: nil)%bigZ.
Lemma cert_example_gl3 : cert_check_big 106 52 5 1 (10 ^ 13) gl3_xs gl3_ws = true.
Proof. vm_compute. reflexivity. Qed.
Lemma cert_example_gl3_moments : forall k, (k <= 5)%nat ->
  Rabs (moment (big_rule 106 52 gl3_xs gl3_ws) k - leg_moment k) <= IZR 1 / IZR (10 ^ 13).
Proof. apply cert_check_big_sound; [discriminate | discriminate | reflexivity | exact cert_example_gl3]. Qed.

(* ------------------------------------------------------------------ the gauss-quad adapter: the TRANSLATED arms
   Integrator::GaussLegendre of integrate / integrate2d (Gen/Integration.v), with the external crate as the oracle
   [rule_oracle table] — any table of fixed linear rules, applied with gauss-quad's affine transfer *)
Lemma ssum_R : forall l : list R, ssum Rops l = rsum l.
Proof.
  intros l. unfold ssum. cbn [s_of_Z Rops sadd].
  assert (G : forall acc, fold_left Rplus l acc = acc + rsum l).
  { induction l as [|x l IH]; intros acc; cbn [fold_left rsum]; [lra | rewrite IH; lra]. }
  rewrite G. lra.
Qed.

Lemma rule_oracle_R : forall (table : Z -> rule Rops) n (a b : R) (g : R -> R),
  rule_oracle Rops table n a b g = rapply (gq_transfer Rops (table n) a b) g.
Proof. intros. unfold rule_oracle. rewrite ssum_R, fold_rapply. reflexivity. Qed.

Theorem gl_adapter_is_rule : forall (table : Z -> rule Rops) (func : R -> C) (a b : R) degree,
  integrate_GaussLegendre Rops (rule_oracle Rops table) func a b degree =
  apply_rule Rops (gq_transfer Rops (table (gl_points degree)) a b) func.
Proof.
  intros. unfold integrate_GaussLegendre. cbv zeta. rewrite !rule_oracle_R, apply_rule_R. reflexivity.
Qed.

Lemma rapply_swap : forall (rx ry : rule Rops) (g : R -> R -> R),
  rapply rx (fun x => rapply ry (fun y => g x y)) = rapply ry (fun y => rapply rx (fun x => g x y)).
Proof.
  intros rx ry g. induction rx as [|[x w] rx IH].
  - cbn [rapply fold_right]. rewrite (rapply_ext' ry _ (fun _ => 0 * 1)) by (intros y; ring). rewrite rapply_scal. ring.
  - change (rapply ((x, w) :: rx) (fun x0 => rapply ry (fun y => g x0 y)))
      with (w * rapply ry (fun y => g x y) + rapply rx (fun x0 => rapply ry (fun y => g x0 y))).
    rewrite IH. rewrite <- rapply_scal, <- rapply_plus. apply rapply_ext'. intros y. reflexivity.
Qed.

Theorem gl_adapter_2d_is_rule : forall (table : Z -> rule Rops) (func : R -> R -> C) (a b c d : R) degree,
  integrate2d_GaussLegendre Rops (rule_oracle Rops table) func a b c d degree =
  apply_rule2 Rops (tensor Rops (gq_transfer Rops (table (gl_points degree)) a b) (gq_transfer Rops (table (gl_points degree)) c d)) func.
Proof.
  intros. unfold integrate2d_GaussLegendre. cbv zeta. rewrite apply_rule2_tensor_R.
  cbn [vmk Rops]. f_equal.
  - rewrite rule_oracle_R. rewrite (rapply_ext' _ _ (fun z => rapply (gq_transfer Rops (table (gl_points degree)) c d) (fun w => fst (func z w))))
      by (intros z; apply rule_oracle_R). apply rapply_swap.
  - rewrite rule_oracle_R. rewrite (rapply_ext' _ _ (fun z => rapply (gq_transfer Rops (table (gl_points degree)) c d) (fun w => snd (func z w))))
      by (intros z; apply rule_oracle_R). apply rapply_swap.
Qed.

(* 1-D: if the [gl_points degree]-point rule of the table carries a certificate, the adapter integrates every complex
   polynomial of degree <= d within the certificate bound *)
Theorem gl_adapter_exact : forall (table : Z -> rule Rops) (degree : Z) (d : nat) (eps : R),
  (forall k, (k <= d)%nat -> Rabs (moment (table (gl_points degree)) k - leg_moment k) <= eps) ->
  forall (a b : R) (cs : list C), (length cs <= S d)%nat ->
  Cmod (Cminus (integrate_GaussLegendre Rops (rule_oracle Rops table) (cpeval Rops cs) a b degree) (cpint Rops cs a b))
    <= eps * Rabs (tr_u a b) * scale_cmod cs (tr_M a b).
Proof. intros table degree d eps H a b cs Hl. rewrite gl_adapter_is_rule. apply (rule_certificate_transfer _ d eps H a b cs Hl). Qed.

Theorem gl_adapter_linear : forall (table : Z -> rule Rops) (degree : Z) (alpha beta : C) (f g : R -> C) (a b : R),
  integrate_GaussLegendre Rops (rule_oracle Rops table) (fun x => Cplus (Cmult alpha (f x)) (Cmult beta (g x))) a b degree =
  Cplus (Cmult alpha (integrate_GaussLegendre Rops (rule_oracle Rops table) f a b degree))
        (Cmult beta (integrate_GaussLegendre Rops (rule_oracle Rops table) g a b degree)).
Proof. intros. rewrite !gl_adapter_is_rule. apply rule_linear. Qed.

(* 2-D: the nested adapter on a separable integrand is the product of the two 1-D adapters *)
Theorem gl_adapter_2d_separable : forall (table : Z -> rule Rops) (degree : Z) (p q : R -> C) (a b c d : R),
  integrate2d_GaussLegendre Rops (rule_oracle Rops table) (fun x y => Cmult (p x) (q y)) a b c d degree =
  Cmult (integrate_GaussLegendre Rops (rule_oracle Rops table) p a b degree)
        (integrate_GaussLegendre Rops (rule_oracle Rops table) q c d degree).
Proof. intros. rewrite gl_adapter_2d_is_rule, !gl_adapter_is_rule. apply tensor_separable. Qed.

(* the Clenshaw-Curtis and Gauss-Kronrod arms: what the translated adapters hand to the external integrators *)
Lemma cc_gk_adapters : forall (cc : (R -> R) -> R -> R -> R -> R) (gk : R -> nat -> (C -> C) -> C -> C -> C)
    (f : R -> C) (g : R -> R -> C) (a b c d tol : R) iters,
  integrate_ClenshawCurtis Rops cc f a b tol = (cc (fun x => fst (f x)) a b tol, cc (fun x => snd (f x)) a b tol) /\
  integrate2d_ClenshawCurtis Rops cc g a b c d tol =
    (cc (fun x => cc (fun y => fst (g x y)) c d tol) a b tol, cc (fun x => cc (fun y => snd (g x y)) c d tol) a b tol) /\
  integrate_GaussKonrod Rops gk f a b tol iters = gk tol iters (fun z => f (fst z)) (a, 0) (b, 0) /\
  integrate2d_GaussKonrod Rops gk g a b c d tol iters =
    gk tol iters (fun z => gk tol iters (fun w => g (fst z) (fst w)) (c, 0) (d, 0)) (a, 0) (b, 0).
Proof. intros. repeat split; reflexivity. Qed.

(* degree 0 and 1 are served by the 2-point rule *)
Lemma gl_points_small : forall degree, (degree <= 2)%Z -> gl_points degree = 2%Z.
Proof. intros degree H. unfold gl_points. lia. Qed.

(* 2-D adapter on a product of polynomials: from the two 1-D bounds Bp, Bq,
   |X Y - Ip Iq| <= Bp (|Iq| + Bq) + |Ip| Bq *)
Lemma product_error : forall (X Y Ip Iq : C) (Bp Bq : R),
  Cmod (Cminus X Ip) <= Bp -> Cmod (Cminus Y Iq) <= Bq ->
  Cmod (Cminus (Cmult X Y) (Cmult Ip Iq)) <= Bp * (Cmod Iq + Bq) + Cmod Ip * Bq.
Proof.
  intros X Y Ip Iq Bp Bq HX HY.
  replace (Cminus (Cmult X Y) (Cmult Ip Iq)) with (Cplus (Cmult (Cminus X Ip) Y) (Cmult Ip (Cminus Y Iq))).
  2:{ destruct X, Y, Ip, Iq. cbv [Cminus Cplus Copp Cmult fst snd]. f_equal; ring. }
  eapply Rle_trans; [apply Cmod_triangle|]. rewrite !Cmod_mult.
  assert (HYn : Cmod Y <= Cmod Iq + Bq).
  { replace Y with (Cplus Iq (Cminus Y Iq)) at 1 by (destruct Y, Iq; cbv [Cminus Cplus Copp fst snd]; f_equal; ring).
    eapply Rle_trans; [apply Cmod_triangle|]. lra. }
  pose proof (Cmod_ge_0 (Cminus X Ip)). pose proof (Cmod_ge_0 Y). pose proof (Cmod_ge_0 Ip). pose proof (Cmod_ge_0 (Cminus Y Iq)).
  apply Rplus_le_compat.
  - eapply Rle_trans; [apply Rmult_le_compat; [assumption | assumption | exact HX | exact HYn]|]. lra.
  - apply Rmult_le_compat_l; assumption.
Qed.

Theorem gl_adapter_2d_exact : forall (table : Z -> rule Rops) (degree : Z) (d : nat) (eps : R),
  (forall k, (k <= d)%nat -> Rabs (moment (table (gl_points degree)) k - leg_moment k) <= eps) ->
  forall (a b c e : R) (cp cq : list C), (length cp <= S d)%nat -> (length cq <= S d)%nat ->
  let Bp := eps * Rabs (tr_u a b) * scale_cmod cp (tr_M a b) in
  let Bq := eps * Rabs (tr_u c e) * scale_cmod cq (tr_M c e) in
  Cmod (Cminus (integrate2d_GaussLegendre Rops (rule_oracle Rops table) (fun x y => Cmult (cpeval Rops cp x) (cpeval Rops cq y)) a b c e degree)
               (Cmult (cpint Rops cp a b) (cpint Rops cq c e)))
    <= Bp * (Cmod (cpint Rops cq c e) + Bq) + Cmod (cpint Rops cp a b) * Bq.
Proof.
  intros table degree d eps H a b c e cp cq Hp Hq Bp Bq. rewrite gl_adapter_2d_separable.
  apply product_error; apply gl_adapter_exact with (d := d); assumption.
Qed.
