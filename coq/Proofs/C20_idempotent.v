(* C20: SPDC::try_as_optimum is idempotent (model Model/Config.v at the real-number instance), for ALL oracles that
   satisfy the collinear contracts:
     - the external angle of a collinear beam (internal angle 0 or pi) does not depend on the crystal angle;
     - the optimum idler angle of a collinear signal does not depend on the poling (so computing the idler with the OLD
       poling, as the code does, is harmless);
   and for setups whose idler is already energy-conserving with the polarization of the phase-matching type (the code
   computes the idler waist position from the OLD idler; without that hypothesis the statement is refuted,
   Findings/C20_old_idler.v).  After ONE optimisation the hypothesis holds, so optimising twice is always a fixed point. *)
From Coq Require Import Reals QArith Qreals Lra Lia ZArith String List Bool.
From SpdVerif Require Import Base.Rx Base.CfgNumOps Model.NumInst Spec.ConfigSpec Gen.ConfigTables Gen.ConfigSites Spec.ConfigUnits
  Model.ConfigTypes Model.Config Proofs.C16_round Proofs.C16_stable.
Import ListNotations.
Local Open Scope R_scope.

Definition collinear (b : beam R) : Prop := b_theta b = 0 \/ b_theta b = PI.

Definition collinear_contract (K : oracles R) : Prop :=
  (forall b cs th, collinear b -> o_snell_ext K b (set_crystal_theta cs th) = o_snell_ext K b cs) /\
  (forall b p cs pp1 pp2, collinear b -> o_idler_theta K b p cs pp1 = o_idler_theta K b p cs pp2).

Definition idler_consistent (s : spdc R) : Prop :=
  b_wavelength (s_idler s) = idler_wavelength R_ops (s_signal s) (s_pump s) /\
  b_pol (s_idler s) = idler_polarization (cs_pm (s_crystal s)).

Lemma zero_deg : n0 R_ops * u_deg R_ops = 0.
Proof. rewrite n0_R. ring. Qed.

Lemma normalize_signed_0 : normalize_angle_signed R_ops 0 = 0.
Proof. replace 0 with (0 * deg) by ring. apply normalize_signed_deg. lra. Qed.
Lemma normalize_signed_180 : normalize_angle_signed R_ops (nZ R_ops 180 * u_deg R_ops) = PI.
Proof.
  rewrite nZ_R, u_deg_R. rewrite normalize_signed_deg by lra. unfold deg. field.
Qed.

Lemma opt_signal_collinear s : collinear (opt_signal R_ops s).
Proof.
  unfold opt_signal, collinear. cbn [nmul R_ops].
  destruct (cs_counter (s_crystal s)); [destruct (nltb R_ops _ _) |];
    cbn [set_angles b_theta]; rewrite ?zero_deg, ?normalize_signed_0, ?normalize_signed_180; auto.
Qed.

Lemma opt_signal_keeps s :
  b_wavelength (opt_signal R_ops s) = b_wavelength (s_signal s) /\ b_waist (opt_signal R_ops s) = b_waist (s_signal s) /\
  b_pol (opt_signal R_ops s) = b_pol (s_signal s).
Proof.
  unfold opt_signal. destruct (cs_counter (s_crystal s)).
  - destruct (nltb R_ops (b_theta (s_signal s)) (ninety_deg R_ops)); repeat split; reflexivity.
  - repeat split; reflexivity.
Qed.

Lemma ninety_deg_R : ninety_deg R_ops = PI / 2.
Proof. unfold ninety_deg. cbn [nmul R_ops]. rewrite nZ_R, u_deg_R. unfold deg. field. Qed.

(* opt_signal only reads the crystal's counter-propagation flag and the signal; applied to its own result it is a fixed point *)
Lemma opt_signal_fixed s s' :
  cs_counter (s_crystal s') = cs_counter (s_crystal s) -> s_signal s' = opt_signal R_ops s ->
  opt_signal R_ops s' = opt_signal R_ops s.
Proof.
  intros Hc Hs. unfold opt_signal at 1. rewrite Hc, Hs. unfold opt_signal.
  pose proof PI_RGT_0 as Hpi.
  destruct (cs_counter (s_crystal s)).
  - destruct (nltb R_ops (b_theta (s_signal s)) (ninety_deg R_ops)).
    + cbn [set_angles b_theta b_pol b_wavelength b_waist nmul R_ops]. rewrite zero_deg, normalize_signed_0, ninety_deg_R.
      cbn [nltb R_ops]. destruct (Rlt_dec 0 (PI / 2)); [reflexivity | exfalso; lra].
    + cbn [set_angles b_theta b_pol b_wavelength b_waist nmul R_ops]. rewrite normalize_signed_180, ninety_deg_R.
      cbn [nltb R_ops]. destruct (Rlt_dec PI (PI / 2)); [exfalso; lra | reflexivity].
  - reflexivity.
Qed.

Section Idempotent.
  Variable K : oracles R.
  Variable minpos : R.
  (* the two source-derived flags of try_as_optimum (Gen/ConfigSites.v); both true on the current tree *)
  Variable op oi : bool.
  Local Notation try_as_optimum := (try_as_optimum R_ops K minpos op oi).

  Lemma poling_new_on per a : exists p sg, poling_new R_ops per a = PolOn p sg a.
  Proof. unfold poling_new. destruct (nltb R_ops (n0 R_ops) per); eauto. Qed.

  Lemma erase_set cs th : erase_theta R_ops (set_crystal_theta cs th) = erase_theta R_ops cs.
  Proof. reflexivity. Qed.

  Lemma optimum_theta_set cs th signal pump : collinear_contract K -> collinear signal ->
    optimum_theta R_ops K (set_crystal_theta cs th) signal pump = optimum_theta R_ops K cs signal pump.
  Proof.
    intros [H1 _] Hc. unfold optimum_theta. rewrite (H1 signal cs th Hc), erase_set. reflexivity.
  Qed.

  Lemma idler_optimum_pp signal pump cs pp1 pp2 : collinear_contract K -> collinear signal ->
    idler_optimum R_ops K signal pump cs pp1 = idler_optimum R_ops K signal pump cs pp2.
  Proof.
    intros [_ H2] Hc. unfold idler_optimum. rewrite (H2 signal pump cs pp1 pp2 Hc). reflexivity.
  Qed.

  Lemma idler_optimum_fields signal pump cs pp b nf :
    idler_optimum R_ops K signal pump cs pp = Ok (b, nf) ->
    b_wavelength b = idler_wavelength R_ops signal pump /\ b_pol b = idler_polarization (cs_pm cs).
  Proof.
    unfold idler_optimum. destruct (signal_le_pump R_ops signal pump); [discriminate |].
    destruct (o_idler_theta K signal pump cs pp); intros H; inversion H; subst; cbn [beam_new b_wavelength b_pol]; auto.
  Qed.

  (* the hypothesis on the idler is only needed when the code computes the idler waist position from the OLD idler *)
  (* the contract PER INPUT: only what optimising THIS setup asks of the oracles -- the external angle of its (collinear)
     optimised signal does not depend on the crystal angle, and the emission angle of its optimum idler is the same under the
     poling before and after optimisation (for the composed model: it is DEFINED under both) *)
  Definition optimum_contract_at (s : spdc R) : Prop :=
    (forall th, o_snell_ext K (opt_signal R_ops s) (set_crystal_theta (s_crystal s) th) = o_snell_ext K (opt_signal R_ops s) (s_crystal s)) /\
    (forall cs pp nfp, opt_crystal_poling R_ops K minpos s (opt_signal R_ops s) = Ok (cs, pp, nfp) ->
       o_idler_theta K (opt_signal R_ops s) (s_pump s) cs pp = o_idler_theta K (opt_signal R_ops s) (s_pump s) cs (s_pp s)).

  Lemma collinear_contract_every s : collinear_contract K -> optimum_contract_at s.
  Proof.
    intros [H1 H2]. pose proof (opt_signal_collinear s) as Hcol. split.
    - intros th. apply H1. exact Hcol.
    - intros cs pp nfp _. apply H2. exact Hcol.
  Qed.

  Theorem optimum_idempotent_at s s' nf :
    optimum_contract_at s -> (oi = true -> idler_consistent s) ->
    try_as_optimum s = Ok (s', nf) -> try_as_optimum s' = Ok (s', nf).
  Proof.
    intros [HK1 HK2] Hcons H.
    pose proof (opt_signal_collinear s) as Hcol.
    revert H. unfold Config.try_as_optimum at 1. cbv zeta.
    destruct (opt_crystal_poling R_ops K minpos s (opt_signal R_ops s)) as [[[cs pp] nfp] | |] eqn:Hcp; cbn [bind fst snd]; try discriminate.
    destruct (idler_optimum R_ops K (opt_signal R_ops s) (s_pump s) cs (if op then s_pp s else pp)) as [[idler0 nfi] | |] eqn:Hi; cbn [bind fst snd]; try discriminate.
    unfold finish_optimum. intros H. injection H. intros Hnf Hs'. clear H.
    assert (Hcounter : cs_counter cs = cs_counter (s_crystal s) /\ cs_pm cs = cs_pm (s_crystal s)).
    { revert Hcp. unfold opt_crystal_poling. destruct (s_pp s) as [| per0 sg0 a].
      - destruct (optimum_theta R_ops K (s_crystal s) _ _); cbn [bind]; try discriminate. intros H; inversion H; subst. split; reflexivity.
      - destruct (optimum_poling_period R_ops K minpos _ _ _) as [[per | []] | |]; cbn [bind]; try discriminate;
          intros H; inversion H; subst; split; reflexivity. }
    destruct Hcounter as [Hcounter Hpm].
    set (sig := opt_signal R_ops s) in *.
    unfold Config.try_as_optimum. cbv zeta.
    assert (Hsig2 : opt_signal R_ops s' = sig).
    { apply opt_signal_fixed; subst s'; cbn [s_crystal s_signal]; [exact Hcounter | reflexivity]. }
    rewrite Hsig2.
    assert (Hcp2 : opt_crystal_poling R_ops K minpos s' sig = Ok (cs, pp, nfp)).
    { revert Hcp. unfold opt_crystal_poling. subst s'. cbn [s_pp s_crystal s_pump].
      destruct (s_pp s) as [| per0 sg0 a].
      - destruct (optimum_theta R_ops K (s_crystal s) sig (s_pump s)) as [th | |] eqn:Hth; cbn [bind]; try discriminate.
        intros H; inversion H; subst cs pp nfp.
        unfold optimum_theta at 1. fold sig in HK1. rewrite (HK1 th), erase_set. fold (optimum_theta R_ops K (s_crystal s) sig (s_pump s)).
        rewrite Hth. cbn [bind]. reflexivity.
      - destruct (optimum_poling_period R_ops K minpos sig (s_pump s) (s_crystal s)) as [[per | []] | |] eqn:Hper; cbn [bind]; try discriminate.
        + intros H; inversion H; subst cs pp nfp.
          destruct (poling_new_on per a) as (p1 & sg1 & Hpn). rewrite Hpn at 1. rewrite Hper. cbn [bind]. reflexivity.
        + intros H; inversion H; subst cs pp nfp. rewrite Hper. cbn [bind]. reflexivity. }
    rewrite Hcp2. cbn [bind fst snd].
    assert (Hi2 : idler_optimum R_ops K sig (s_pump s') cs (if op then s_pp s' else pp) = Ok (idler0, nfi)).
    { subst s'. cbn [s_pump s_pp]. rewrite <- Hi. destruct op; [| reflexivity].
      unfold idler_optimum. fold sig in HK2. rewrite (HK2 cs pp nfp eq_refl). reflexivity. }
    rewrite Hi2. cbn [bind fst snd].
    destruct (idler_optimum_fields _ _ _ _ _ _ Hi) as [Hw0 Hp0].
    unfold finish_optimum. f_equal. rewrite <- Hnf. subst s'. cbn [s_idler s_pump s_bandwidth s_power s_threshold s_deff b_waist set_waist].
    assert (Hwp : waist_position R_ops K cs
                    (if oi then set_waist idler0 (b_waist (s_idler s)) else set_waist idler0 (b_waist (s_idler s))) NFWaistIdler
                  = waist_position R_ops K cs (if oi then s_idler s else set_waist idler0 (b_waist (s_idler s))) NFWaistIdler).
    { destruct oi; [| reflexivity]. destruct (Hcons eq_refl) as [Hwl Hpol].
      unfold waist_position. cbn [set_waist b_wavelength b_pol]. rewrite Hw0, Hp0, Hwl, Hpol, Hpm.
      unfold sig, idler_wavelength. rewrite (proj1 (opt_signal_keeps s)). reflexivity. }
    rewrite Hwp. reflexivity.
  Qed.

  Theorem optimum_idempotent s s' nf :
    collinear_contract K -> (oi = true -> idler_consistent s) ->
    try_as_optimum s = Ok (s', nf) -> try_as_optimum s' = Ok (s', nf).
  Proof. intros HK. apply optimum_idempotent_at. apply collinear_contract_every. exact HK. Qed.

  (* after one optimisation the idler IS consistent *)
  Lemma optimum_idler_consistent s s' nf : try_as_optimum s = Ok (s', nf) -> idler_consistent s'.
  Proof.
    unfold Config.try_as_optimum. cbv zeta.
    destruct (opt_crystal_poling R_ops K minpos s (opt_signal R_ops s)) as [[[cs pp] nfp] | |]; cbn [bind fst snd]; try discriminate.
    destruct (idler_optimum R_ops K (opt_signal R_ops s) (s_pump s) cs (if op then s_pp s else pp)) as [[idler0 nfi] | |] eqn:Hi; cbn [bind fst snd]; try discriminate.
    intros H. inversion H. subst. unfold idler_consistent, finish_optimum.
    cbn [s_idler s_signal s_pump s_crystal set_waist b_wavelength b_pol].
    destruct (idler_optimum_fields _ _ _ _ _ _ Hi) as [Hw0 Hp0]. split; assumption.
  Qed.

  (* optimising twice is a fixed point, for EVERY setup *)
  Theorem optimum_idempotent_after_two s s1 nf1 s2 nf2 :
    collinear_contract K -> try_as_optimum s = Ok (s1, nf1) -> try_as_optimum s1 = Ok (s2, nf2) ->
    try_as_optimum s2 = Ok (s2, nf2).
  Proof.
    intros HK H1 H2. apply (optimum_idempotent s1 s2 nf2 HK (fun _ => optimum_idler_consistent s s1 nf1 H1) H2).
  Qed.

  (* the optimised setup: collinear signal, everything that is not optimised is kept *)
  Theorem optimum_keeps s s' nf :
    try_as_optimum s = Ok (s', nf) ->
    collinear (s_signal s') /\ b_wavelength (s_signal s') = b_wavelength (s_signal s) /\
    b_waist (s_signal s') = b_waist (s_signal s) /\ b_waist (s_idler s') = b_waist (s_idler s) /\
    s_pump s' = s_pump s /\ s_bandwidth s' = s_bandwidth s /\ s_power s' = s_power s /\ s_threshold s' = s_threshold s /\
    s_deff s' = s_deff s /\ cs_length (s_crystal s') = cs_length (s_crystal s) /\
    cs_temperature (s_crystal s') = cs_temperature (s_crystal s) /\ cs_kind (s_crystal s') = cs_kind (s_crystal s) /\
    (s_pp s = PolOff <-> s_pp s' = PolOff) /\ (s_pp s <> PolOff -> s_crystal s' = s_crystal s).
  Proof.
    unfold Config.try_as_optimum. cbv zeta.
    destruct (opt_crystal_poling R_ops K minpos s (opt_signal R_ops s)) as [[[cs pp] nfp] | |] eqn:Hcp; cbn [bind fst snd]; try discriminate.
    destruct (idler_optimum R_ops K (opt_signal R_ops s) (s_pump s) cs (if op then s_pp s else pp)) as [[idler0 nfi] | |]; cbn [bind fst snd]; try discriminate.
    intros H. inversion H. subst s' nf. clear H. unfold finish_optimum.
    cbn [s_signal s_idler s_pump s_bandwidth s_power s_threshold s_deff s_crystal s_pp set_waist b_waist].
    destruct (opt_signal_keeps s) as (Hsw1 & Hsw2 & _).
    revert Hcp. unfold opt_crystal_poling. destruct (s_pp s) as [| per0 sg0 a].
    - destruct (optimum_theta R_ops K (s_crystal s) _ _); cbn [bind]; try discriminate. intros H; inversion H; subst.
      repeat split; auto using opt_signal_collinear; try (intros; congruence).
    - destruct (optimum_poling_period R_ops K minpos _ _ _) as [[per | []] | |]; cbn [bind]; try discriminate;
        intros H; inversion H; subst; unfold poling_new; try destruct (nltb R_ops _ _);
        repeat split; auto using opt_signal_collinear; try discriminate; try (intros; congruence).
  Qed.
  (* ... and the rest of what is NOT optimised: the crystal's azimuth, phase-matching type and propagation mode, the signal's
     polarization, the apodization of the poling; and what the new idler is: energy-conserving wavelength, the type's idler
     polarization, azimuth opposite to the (optimised) signal's *)
  Theorem optimum_keeps_more s s' nf :
    try_as_optimum s = Ok (s', nf) ->
    cs_phi (s_crystal s') = cs_phi (s_crystal s) /\ cs_pm (s_crystal s') = cs_pm (s_crystal s) /\
    cs_counter (s_crystal s') = cs_counter (s_crystal s) /\
    b_pol (s_signal s') = b_pol (s_signal s) /\
    b_pol (s_idler s') = idler_polarization (cs_pm (s_crystal s)) /\
    b_phi (s_idler s') = normalize_angle R_ops (nadd R_ops (b_phi (s_signal s')) (npi R_ops)) /\
    b_wavelength (s_idler s') = idler_wavelength R_ops (s_signal s') (s_pump s) /\
    match s_pp s, s_pp s' with
    | PolOff, PolOff => True
    | PolOn _ _ a, PolOn _ _ a' => a' = a
    | _, _ => False
    end.
  Proof.
    unfold Config.try_as_optimum. cbv zeta.
    destruct (opt_crystal_poling R_ops K minpos s (opt_signal R_ops s)) as [[[cs pp] nfp] | |] eqn:Hcp; cbn [bind fst snd]; try discriminate.
    destruct (idler_optimum R_ops K (opt_signal R_ops s) (s_pump s) cs (if op then s_pp s else pp)) as [[idler0 nfi] | |] eqn:Hi; cbn [bind fst snd]; try discriminate.
    intros H. inversion H. subst s' nf. clear H. unfold finish_optimum.
    cbn [s_signal s_idler s_pump s_crystal s_pp set_waist b_pol b_phi b_wavelength].
    destruct (opt_signal_keeps s) as (_ & _ & Hpol).
    assert (Hid : b_pol idler0 = idler_polarization (cs_pm cs) /\
                  b_phi idler0 = normalize_angle R_ops (nadd R_ops (b_phi (opt_signal R_ops s)) (npi R_ops)) /\
                  b_wavelength idler0 = idler_wavelength R_ops (opt_signal R_ops s) (s_pump s)).
    { revert Hi. unfold idler_optimum. destruct (signal_le_pump R_ops _ _); [discriminate |].
      destruct (o_idler_theta K _ _ _ _); intros H; inversion H; subst; cbn [beam_new b_pol b_phi b_wavelength]; repeat split; reflexivity. }
    destruct Hid as (Hp & Hph & Hw).
    revert Hcp. unfold opt_crystal_poling. destruct (s_pp s) as [| per0 sg0 a].
    - destruct (optimum_theta R_ops K (s_crystal s) _ _); cbn [bind]; try discriminate. intros H; inversion H; subst cs pp nfp.
      cbn [set_crystal_theta cs_phi cs_pm cs_counter] in *. repeat split; auto.
    - destruct (optimum_poling_period R_ops K minpos _ _ _) as [[per | []] | |]; cbn [bind]; try discriminate;
        intros H; inversion H; subst cs pp nfp; unfold poling_new; try destruct (nltb R_ops _ _); repeat split; auto.
  Qed.
End Idempotent.

(* FULL STRENGTH for the code as it is now (flags read off the source): the idler waist position is computed from the NEW idler,
   so optimising is idempotent for EVERY setup.  `discriminate` below is the obligation optimum_waist_sees_old_idler = false. *)
Definition try_as_optimum_now (K : oracles R) (minpos : R) (s : spdc R) : outcome (spdc R * list nonfinite) :=
  try_as_optimum R_ops K minpos optimum_idler_sees_old_poling optimum_waist_sees_old_idler s.

Theorem optimum_idempotent_now_at K minpos s s' nf :
  optimum_contract_at K minpos s -> try_as_optimum_now K minpos s = Ok (s', nf) -> try_as_optimum_now K minpos s' = Ok (s', nf).
Proof. intros HK. apply optimum_idempotent_at; [exact HK | discriminate]. Qed.

Theorem optimum_idempotent_now K minpos s s' nf :
  collinear_contract K -> try_as_optimum_now K minpos s = Ok (s', nf) -> try_as_optimum_now K minpos s' = Ok (s', nf).
Proof. intros HK. apply optimum_idempotent; [exact HK | discriminate]. Qed.

(* non-vacuity: a concrete idler-consistent setup that optimises (constant oracles) *)
Definition ex_K0 : oracles R := {|
  o_snell_inv := fun _ _ _ => Some 0; o_snell_ext := fun _ _ => Some 0; o_nm_theta := fun _ _ _ _ => Some (1 / 2);
  o_dkz0 := fun _ _ _ => 1; o_nm_period := fun _ _ _ => Some 1;
  o_idler_theta := fun _ _ _ _ => Some 0; o_waist_pos := fun _ _ _ => Some 0 |}.
Definition ex_beam (p : polarization) (l : R) : beam R := {| b_pol := p; b_phi := 0; b_theta := 0; b_wavelength := l; b_waist := 1 |}.
Definition ex_s : spdc R :=
  {| s_crystal := {| cs_kind := "KTP"; cs_pm := Type2_e_eo; cs_phi := 0; cs_theta := 1; cs_length := 1; cs_temperature := 293; cs_counter := false |};
     s_signal := ex_beam Extraordinary 2; s_idler := ex_beam Ordinary (2 * 1 / (2 - 1)); s_pump := ex_beam Extraordinary 1;
     s_bandwidth := 1; s_power := 1; s_threshold := 1; s_pp := PolOff; s_zs := 0; s_zi := 0; s_deff := 1 |}.
Lemma ex_optimises op oi : exists s s' nf, idler_consistent s /\ try_as_optimum R_ops ex_K0 0 op oi s = Ok (s', nf).
Proof.
  exists ex_s. eexists. eexists. split.
  - split; reflexivity.
  - unfold try_as_optimum. cbv zeta. unfold opt_crystal_poling, ex_s at 1. cbn [s_pp].
    unfold optimum_theta. cbn [o_snell_ext ex_K0].
    assert (Hle : signal_le_pump R_ops (opt_signal R_ops ex_s) (s_pump ex_s) = false).
    { unfold signal_le_pump. rewrite (proj1 (opt_signal_keeps ex_s)). cbn. destruct (Rle_dec 2 1); [exfalso; lra | reflexivity]. }
    rewrite Hle. cbn [o_nm_theta ex_K0 bind fst snd].
    unfold idler_optimum. rewrite Hle. cbn [o_idler_theta ex_K0 bind fst snd]. destruct op; reflexivity.
Qed.
