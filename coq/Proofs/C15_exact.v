(* C15 — the exact-size contract of the grid iterators AT ANY TIME (after /repo a05fe3f): len() is the number of remaining items
   after every schedule of next()/next_back(); hence std's Zip::next_back (rayon's enumerate().rev()) never reaches unreachable!()
   and pairs every position with its own point. *)
From Coq Require Import List Arith Bool Lia.
From SpdVerif Require Import Base.GridOps Gen.Grid Model.Grid Model.Producer Model.C15_Zip Proofs.C14_iter.
Import ListNotations.

Section Window.
Context {A : Type} (v : nat -> A).

Lemma sched_state_window : forall sched i ib, i <= ib ->
  fst (sched_state (wnext v) (wback v) sched (i, ib)) <= snd (sched_state (wnext v) (wback v) sched (i, ib)) /\
  i <= fst (sched_state (wnext v) (wback v) sched (i, ib)) /\ snd (sched_state (wnext v) (wback v) sched (i, ib)) <= ib.
Proof.
  induction sched as [|b rest IH]; intros i ib H; cbn [sched_state]; [cbn; lia|].
  destruct b.
  - destruct (Nat.le_gt_cases ib i) as [Hc|Hc].
    + rewrite wnext_none by assumption. cbn [snd]. apply IH; exact H.
    + rewrite wnext_some by assumption. cbn [snd]. destruct (IH (S i) ib ltac:(lia)) as (H1 & H2 & H3). lia.
  - destruct (Nat.le_gt_cases ib i) as [Hc|Hc].
    + rewrite wback_none by assumption. cbn [snd]. apply IH; exact H.
    + rewrite wback_some by assumption. cbn [snd]. destruct (IH i (ib - 1) ltac:(lia)) as (H1 & H2 & H3). lia.
Qed.

(* Zip::next_back over an index range and a window iterator whose len() is the remaining count *)
Variable b_back : nat * nat -> option A * (nat * nat).
Variable b_len : nat * nat -> nat.
Hypothesis b_back_window : forall st, b_back st = wback v st.
Hypothesis b_len_exact : forall st, b_len st = snd st - fst st.

Lemma zip_next_back_some lo hi i ib : hi - lo = ib - i -> i < ib ->
  zip_next_back b_back b_len ((lo, hi), (i, ib)) = Ok (Some (hi - 1, v (ib - 1)), ((lo, hi - 1), (i, ib - 1))).
Proof.
  intros Hsz Hlt. unfold zip_next_back. rewrite b_len_exact. unfold a_len. cbn [fst snd].
  replace (hi - lo - (ib - i)) with 0 by lia. replace (ib - i - (hi - lo)) with 0 by lia. unfold Nat.iter; cbn [nat_rect].
  rewrite b_back_window, wback_some by exact Hlt. unfold a_back. cbn [fst snd].
  destruct (Nat.leb_spec hi lo); [lia | reflexivity].
Qed.

Lemma zip_next_back_none lo hi i ib : hi - lo = ib - i -> ib <= i ->
  exists st, zip_next_back b_back b_len ((lo, hi), (i, ib)) = Ok (None, st).
Proof.
  intros Hsz Hle. unfold zip_next_back. rewrite b_len_exact. unfold a_len. cbn [fst snd].
  replace (hi - lo - (ib - i)) with 0 by lia. replace (ib - i - (hi - lo)) with 0 by lia. unfold Nat.iter; cbn [nat_rect].
  rewrite b_back_window, wback_none by exact Hle. unfold a_back. cbn [fst snd].
  destruct (Nat.leb_spec hi lo); [eexists; reflexivity | lia].
Qed.

Theorem zip_rev_collect_window : forall fuel lo hi i ib, hi - lo = ib - i -> ib - i < fuel ->
  zip_rev_collect b_back b_len fuel ((lo, hi), (i, ib)) = Ok (map (fun k => (hi - 1 - k, v (ib - 1 - k))) (seq 0 (ib - i))).
Proof.
  induction fuel as [|f IH]; intros lo hi i ib Hsz Hf; [lia|]. cbn [zip_rev_collect].
  destruct (Nat.le_gt_cases ib i) as [Hc|Hc].
  - destruct (zip_next_back_none lo hi i ib Hsz Hc) as (st & ->). replace (ib - i) with 0 by lia. reflexivity.
  - rewrite zip_next_back_some by assumption.
    rewrite IH by lia. cbn [obind]. f_equal.
    replace (ib - i) with (S (ib - 1 - i)) by lia. cbn [seq map]. f_equal; [f_equal; [lia | f_equal; lia]|].
    rewrite <- seq_shift, map_map. apply map_ext. intros k. f_equal; [lia | f_equal; lia].
Qed.
End Window.

Section Inst.
Context {T : Type} (O : ops T).

(* 1-D: after ANY schedule of calls on a fresh iterator, len() = number of items a drain still yields *)
Theorem it1d_len_any_time s e n sched :
  let st := sched_state (it1d_nxt O s e n) (it1d_bck O s e n) sched (it1d_new n) in
  it1d_len n (fst st) (snd st) = length (drain (it1d_nxt O s e n) (S n) st).
Proof.
  cbn zeta. unfold it1d_new.
  assert (E : forall sc st, sched_state (it1d_nxt O s e n) (it1d_bck O s e n) sc st = sched_state (wnext (steps_value O s e n)) (wback (steps_value O s e n)) sc st).
  { induction sc as [|b r IH]; intros st; cbn [sched_state]; [reflexivity|]. destruct b; [rewrite it1d_nxt_window | rewrite it1d_bck_window]; apply IH. }
  rewrite E. destruct (sched_state_window (steps_value O s e n) sched 0 n ltac:(lia)) as (H1 & H2 & H3).
  destruct (sched_state (wnext (steps_value O s e n)) (wback (steps_value O s e n)) sched (0, n)) as [i ib] eqn:Est. cbn [fst snd] in *.
  rewrite (drain_ext _ _ (it1d_nxt_window O s e n)). rewrite drain_window by lia. rewrite map_length, seq_length. reflexivity.
Qed.

Theorem it2d_len_any_time x0 x1 nx y0 y1 ny sched :
  let part := fst (it2d_new nx ny) in
  let st := sched_state (it2d_nxt O x0 x1 nx y0 y1 ny part) (it2d_bck O x0 x1 nx y0 y1 ny part) sched (snd (it2d_new nx ny)) in
  it2d_len (fst part) (snd part) (fst st) (snd st) = length (drain (it2d_nxt O x0 x1 nx y0 y1 ny part) (S (nx * ny)) st).
Proof.
  cbn zeta. unfold it2d_new. cbn [fst snd].
  set (v := steps2d_value O x0 x1 nx y0 y1 ny).
  assert (E : forall sc st, sched_state (it2d_nxt O x0 x1 nx y0 y1 ny (0, nx * ny)) (it2d_bck O x0 x1 nx y0 y1 ny (0, nx * ny)) sc st = sched_state (wnext v) (wback v) sc st).
  { induction sc as [|b r IH]; intros st; cbn [sched_state]; [reflexivity|]. destruct b; [rewrite it2d_nxt_window | rewrite it2d_bck_window]; apply IH. }
  rewrite E. destruct (sched_state_window v sched 0 (nx * ny) ltac:(lia)) as (H1 & H2 & H3).
  destruct (sched_state (wnext v) (wback v) sched (0, nx * ny)) as [i ib] eqn:Est. cbn [fst snd] in *.
  rewrite (drain_ext _ _ (it2d_nxt_window O x0 x1 nx y0 y1 ny (0, nx * ny))). fold v. rewrite drain_window by lia. rewrite map_length, seq_length. reflexivity.
Qed.

(* enumerate().rev() on a leaf of either producer: positions and points paired as in the sequential traversal, no panic *)
Theorem enumerate_rev_1d s e n offset :
  zip_rev_collect (fun st => it1d_next_back O s e n (fst st) (snd st)) (fun st => it1d_len n (fst st) (snd st)) (S n) ((offset, offset + n), it1d_new n) =
  Ok (map (fun k => (offset + n - 1 - k, steps_value O s e n (n - 1 - k))) (seq 0 n)).
Proof.
  unfold it1d_new.
  pose proof (zip_rev_collect_window (steps_value O s e n) (it1d_bck O s e n) (fun st => it1d_len n (fst st) (snd st))
                (fun st => it1d_bck_window O s e n st) (fun st => eq_refl) (S n) offset (offset + n) 0 n ltac:(lia) ltac:(lia)) as H.
  rewrite Nat.sub_0_r in H. exact H.
Qed.

Theorem enumerate_rev_2d x0 x1 nx y0 y1 ny offset :
  zip_rev_collect (fun st => it2d_next_back O x0 x1 nx y0 y1 ny 0 (nx * ny) (fst st) (snd st)) (fun st => it2d_len 0 (nx * ny) (fst st) (snd st)) (S (nx * ny))
    ((offset, offset + nx * ny), (0, nx * ny)) =
  Ok (map (fun k => (offset + nx * ny - 1 - k, steps2d_value O x0 x1 nx y0 y1 ny (nx * ny - 1 - k))) (seq 0 (nx * ny))).
Proof.
  pose proof (zip_rev_collect_window (steps2d_value O x0 x1 nx y0 y1 ny) (it2d_bck O x0 x1 nx y0 y1 ny (0, nx * ny)) (fun st => it2d_len 0 (nx * ny) (fst st) (snd st))
                (fun st => it2d_bck_window O x0 x1 nx y0 y1 ny (0, nx * ny) st) (fun st => eq_refl)
                (S (nx * ny)) offset (offset + nx * ny) 0 (nx * ny) ltac:(lia) ltac:(lia)) as H.
  rewrite Nat.sub_0_r in H. exact H.
Qed.
End Inst.
