(* C12 — the end-to-end statement used by the generated per-rule files for exp(ikx): a moment certificate
   (cert_check_big) plus a range check (nodes in [-1,1], weights >= 0) of the extracted dyadic rule give, on every
   interval and for every k <> 0 and complex amplitude,
     |GL(amp exp(ik.); a, b) - integral| <= |amp| |b-a|/2 (eps sum_{m<=d} |ku|^m/m! + (4 + eps) |ku|^(d+1)/(d+1)!),  ku = k (b-a)/2. *)
From Coq Require Import Reals ZArith List Bool Lra Lia.
From Bignums Require Import BigZ.
From Coquelicot Require Import Coquelicot.
From SpdVerif Require Import Base.NumOps Gen.Integration Model.Quadrature Proofs.C12_base Proofs.C12_rule Proofs.C12_cert
  Proofs.C12_expi Proofs.C12_gl_expi.
Import ListNotations.
Local Open Scope R_scope.

Definition range_check (E : Z) (xs ws : list Z) : bool :=
  forallb (fun X => (Z.abs X <=? 2 ^ E)%Z) xs && forallb (fun W => (0 <=? W)%Z) ws.
Definition range_check_big (E : Z) (xs ws : list bigZ) : bool := range_check E (map BigZ.to_Z xs) (map BigZ.to_Z ws).

Lemma range_check_sound : forall E F xs ws, (0 <= E)%Z -> (0 <= F)%Z -> range_check E xs ws = true ->
  nodes_in_unit (mk_rule E F xs ws) /\ (forall nw, In nw (mk_rule E F xs ws) -> 0 <= snd nw).
Proof.
  intros E F xs ws HE HF H. unfold range_check in H. apply andb_true_iff in H. destruct H as [Hx Hw].
  rewrite forallb_forall in Hx, Hw.
  assert (PE : 0 < IZR (2 ^ E)) by (apply IZR_lt, Z.pow_pos_nonneg; lia).
  assert (PF : 0 < IZR (2 ^ F)) by (apply IZR_lt, Z.pow_pos_nonneg; lia).
  split.
  - intros nw Hin. unfold mk_rule in Hin. apply in_map_iff in Hin. destruct Hin as [[X W] [<- Hc]]. cbn [fst snd].
    apply in_combine_l in Hc. specialize (Hx X Hc). apply Z.leb_le in Hx. apply IZR_le in Hx. rewrite abs_IZR in Hx.
    unfold Rdiv. rewrite Rabs_mult, Rabs_inv, (Rabs_right (IZR (2 ^ E))) by lra.
    apply (Rmult_le_reg_r (IZR (2 ^ E))); [exact PE|]. rewrite Rmult_assoc, Rinv_l by lra. lra.
  - intros nw Hin. unfold mk_rule in Hin. apply in_map_iff in Hin. destruct Hin as [[X W] [<- Hc]]. cbn [fst snd].
    apply in_combine_r in Hc. specialize (Hw W Hc). apply Z.leb_le in Hw. apply (IZR_le 0) in Hw.
    apply Rmult_le_pos; [exact Hw | apply Rlt_le, Rinv_0_lt_compat; exact PF].
Qed.

Lemma abs_weight_moment0 : forall r : rule Rops, (forall nw, In nw r -> 0 <= snd nw) -> abs_weight r = moment r 0.
Proof.
  intros r H. unfold abs_weight, moment. rewrite fold_rapply. apply rsum_ext.
  intros nw Hin. rewrite Rabs_right by (apply Rle_ge, H; exact Hin). destruct nw as [x w]. cbn [fst snd pow]. change (Sc Rops) with R in *. lra.
Qed.

Theorem certified_rule_expi_exact : forall (E F : Z) (d : nat) (en ed : Z) (xs ws : list bigZ),
  (0 <=? E)%Z = true -> (0 <=? F)%Z = true -> (0 <? ed)%Z = true ->
  cert_check_big E F d en ed xs ws = true -> range_check_big E xs ws = true ->
  forall (a b k : R) (amp : C), k <> 0 -> a <> b ->
  let ku := k * tr_u a b in
  Cmod (Cminus (apply_rule Rops (gq_transfer Rops (big_rule E F xs ws) a b) (fun x => Cmult amp (expi k x))) (Cmult amp (expi_int k a b)))
    <= Cmod amp * Rabs (tr_u a b) *
       (IZR en / IZR ed * expsum (Rabs ku) d + (4 + IZR en / IZR ed) * (Rabs ku ^ S d / INR (fact (S d)))).
Proof.
  intros E F d en ed xs ws HE HF Hed Hc Hr a b k amp Hk Hab ku.
  apply Z.leb_le in HE, HF. apply Z.ltb_lt in Hed.
  pose proof (cert_check_big_sound E F d en ed xs ws HE HF Hed Hc) as Hm.
  destruct (range_check_sound E F _ _ HE HF Hr) as [Hn Hp]. fold (big_rule E F xs ws) in Hn, Hp.
  pose proof (certified_rule_expi_transfer (big_rule E F xs ws) d (IZR en / IZR ed) k a b amp Hm Hn Hk Hab) as H.
  cbv zeta in H. fold ku in H.
  assert (HW : abs_weight (big_rule E F xs ws) <= 2 + IZR en / IZR ed).
  { rewrite (abs_weight_moment0 _ Hp). pose proof (Hm 0%nat ltac:(lia)) as H0.
    assert (L0 : leg_moment 0 = 2) by (unfold leg_moment; cbn; field). rewrite L0 in H0.
    apply Rabs_le_between in H0. unfold big_rule. lra. }
  eapply Rle_trans; [exact H|].
  pose proof (Cmod_ge_0 amp). pose proof (Rabs_pos (tr_u a b)).
  apply Rmult_le_compat_l; [apply Rmult_le_pos; assumption|].
  apply Rplus_le_compat_l. apply Rmult_le_compat_r; [|lra].
  pose proof (INR_fact_lt_0 (S d)). pose proof (pow_le (Rabs ku) (S d) (Rabs_pos ku)).
  apply Rmult_le_pos; [assumption | apply Rlt_le, Rinv_0_lt_compat; assumption].
Qed.

Lemma range_example_gl3 : range_check_big 106 gl3_xs gl3_ws = true.
Proof. vm_compute. reflexivity. Qed.
