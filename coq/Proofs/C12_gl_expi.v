(* C12 — a certified rule on exp(ikx): from the moment certificate (degree d, eps) plus the Taylor remainder of exp(it),
     |rule(exp(ik.)) - int_{-1}^{1} exp(ikx) dx| <= eps * sum_{m<=d} |k|^m/m! + (W + 2) |k|^(d+1)/(d+1)!,   W = sum |w_j|,
   for nodes in [-1,1]; with gauss-quad's affine transfer the same on [a,b] with k (b-a)/2 in place of k and a factor |b-a|/2.
   The Taylor remainder |exp(it) - T_d(t)| <= |t|^(d+1)/(d+1)! is proved for the complex modulus by bounding every
   real projection c Re + s Im (c^2 + s^2 = 1), whose derivative is a projection of the previous remainder. *)
From Coq Require Import Reals QArith ZArith List Bool Lra Lia.
From Coquelicot Require Import Coquelicot.
From SpdVerif Require Import Base.NumOps Gen.Integration Model.Quadrature Proofs.C12_base Proofs.C12_rule Proofs.C12_expi.
Import ListNotations.
Local Open Scope R_scope.

(* ------------------------------------------------------------------ integrating a derivative bound *)
Lemma pow_fact_derive : forall (d : nat) (x : R), is_derive (fun t => t ^ S d / INR (fact (S d))) x (x ^ d / INR (fact d)).
Proof.
  intros d x.
  apply (is_derive_ext_R (fun t => / INR (fact (S d)) * t ^ S d)); [intros; unfold Rdiv; ring|].
  pose proof (INR_fact_lt_0 d). assert (0 < INR (S d)) by (apply lt_0_INR; lia).
  replace (x ^ d / INR (fact d)) with (/ INR (fact (S d)) * (INR (S d) * 1 * x ^ Nat.pred (S d))).
  - apply is_derive_scal. apply (is_derive_pow (fun y => y) (S d) x 1). apply (is_derive_id (K := R_AbsRing)).
  - rewrite fact_simpl, mult_INR. cbn [Nat.pred]. field. split; lra.
Qed.

Lemma neg_derive : forall x : R, is_derive (fun y : R => - y) x (-1).
Proof. intros x. auto_derive; [trivial | ring]. Qed.

Lemma bound_from_deriv_pos : forall (f df : R -> R) (d : nat),
  (forall x, is_derive f x (df x)) -> f 0 = 0 -> (forall x, 0 <= x -> Rabs (df x) <= x ^ d / INR (fact d)) ->
  forall t, 0 <= t -> Rabs (f t) <= t ^ S d / INR (fact (S d)).
Proof.
  intros f df d Hd H0 Hb t Ht.
  assert (U : 0 <= t ^ S d / INR (fact (S d)) - f t).
  { apply (nonneg_from_deriv (fun x => x ^ S d / INR (fact (S d)) - f x) (fun x => x ^ d / INR (fact d) - df x) t).
    - intros x _. apply (is_derive_minus (V := R_NormedModule)); [apply pow_fact_derive | apply Hd].
    - intros x Hx. specialize (Hb x (proj1 Hx)). apply Rabs_le_between in Hb. lra.
    - rewrite H0. cbn [pow]. unfold Rdiv. ring.
    - lra. }
  assert (L : 0 <= t ^ S d / INR (fact (S d)) + f t).
  { apply (nonneg_from_deriv (fun x => x ^ S d / INR (fact (S d)) + f x) (fun x => x ^ d / INR (fact d) + df x) t).
    - intros x _. apply (is_derive_plus (V := R_NormedModule)); [apply pow_fact_derive | apply Hd].
    - intros x Hx. specialize (Hb x (proj1 Hx)). apply Rabs_le_between in Hb. lra.
    - rewrite H0. cbn [pow]. unfold Rdiv. ring.
    - lra. }
  apply Rabs_le. lra.
Qed.

Lemma bound_from_deriv : forall (f df : R -> R) (d : nat),
  (forall x, is_derive f x (df x)) -> f 0 = 0 -> (forall x, Rabs (df x) <= Rabs x ^ d / INR (fact d)) ->
  forall t, Rabs (f t) <= Rabs t ^ S d / INR (fact (S d)).
Proof.
  intros f df d Hd H0 Hb t. destruct (Rle_dec 0 t) as [Ht|Ht].
  - rewrite (Rabs_right t) by lra. apply (bound_from_deriv_pos f df d Hd H0); [|exact Ht].
    intros x Hx. specialize (Hb x). rewrite (Rabs_right x) in Hb by lra. exact Hb.
  - rewrite (Rabs_left t) by lra.
    replace (f t) with ((fun x => f (- x)) (- t)) by (cbv beta; f_equal; ring).
    apply (bound_from_deriv_pos (fun x => f (- x)) (fun x => - df (- x)) d); [| rewrite Ropp_0; exact H0 | | lra].
    + intros x. replace (- df (- x)) with (scal (-1) (df (- x))) by (unfold scal; cbn; unfold mult; cbn; ring).
      apply (is_derive_comp f (fun y => - y) x (df (- x)) (-1)); [apply Hd|].
      apply neg_derive.
    + intros x Hx. rewrite Rabs_Ropp. specialize (Hb (- x)). rewrite Rabs_Ropp, (Rabs_right x) in Hb by lra. exact Hb.
Qed.

(* ------------------------------------------------------------------ Taylor polynomial of exp(it), real and imaginary part *)
(* i^m = cr m + i ci m *)
Fixpoint cr (m : nat) : R := match m with O => 1 | S m' => - ci m' end
with ci (m : nat) : R := match m with O => 0 | S m' => cr m' end.

Lemma cr_ci_unit : forall m, (cr m = 0 /\ (ci m = 1 \/ ci m = -1)) \/ (ci m = 0 /\ (cr m = 1 \/ cr m = -1)).
Proof.
  induction m as [|m IH]; cbn [cr ci]; [right; split; [reflexivity | left; reflexivity]|].
  destruct IH as [[A [B|B]]|[A [B|B]]]; rewrite ?A, ?B; [right|right|left|left]; split; try lra; (left; lra) || (right; lra).
Qed.

Fixpoint TR (d : nat) (t : R) : R := match d with O => 1 | S d' => TR d' t + cr (S d') * (t ^ S d' / INR (fact (S d'))) end.
Fixpoint TI (d : nat) (t : R) : R := match d with O => 0 | S d' => TI d' t + ci (S d') * (t ^ S d' / INR (fact (S d'))) end.
Definition ER (d : nat) (t : R) : R := cos t - TR d t.
Definition EI (d : nat) (t : R) : R := sin t - TI d t.

Lemma TR_TI_derive : forall d x, is_derive (TR (S d)) x (- TI d x) /\ is_derive (TI (S d)) x (TR d x).
Proof.
  induction d as [|d IH]; intros x.
  - split; cbn [TR TI cr ci fact pow]; auto_derive; trivial; cbn; field.
  - destruct (IH x) as [IHr IHi]. split.
    + change (TR (S (S d))) with (fun t => TR (S d) t + cr (S (S d)) * (t ^ S (S d) / INR (fact (S (S d))))).
      replace (- TI (S d) x) with (- TI d x + cr (S (S d)) * (x ^ S d / INR (fact (S d)))) by (cbn [TI cr]; ring).
      apply (is_derive_plus (V := R_NormedModule)); [apply IHr|]. apply is_derive_scal. apply pow_fact_derive.
    + change (TI (S (S d))) with (fun t => TI (S d) t + ci (S (S d)) * (t ^ S (S d) / INR (fact (S (S d))))).
      replace (TR (S d) x) with (TR d x + ci (S (S d)) * (x ^ S d / INR (fact (S d)))) by (cbn [TR ci]; ring).
      apply (is_derive_plus (V := R_NormedModule)); [apply IHi|]. apply is_derive_scal. apply pow_fact_derive.
Qed.

Lemma ER_EI_derive : forall d x, is_derive (ER (S d)) x (- EI d x) /\ is_derive (EI (S d)) x (ER d x).
Proof.
  intros d x. destruct (TR_TI_derive d x) as [Hr Hi]. unfold ER, EI. split.
  - replace (- (sin x - TI d x)) with (minus (- sin x) (- TI d x)) by (unfold minus, plus, opp; cbn; ring).
    apply (is_derive_minus (V := R_NormedModule)); [apply is_derive_cos | exact Hr].
  - apply (is_derive_minus (V := R_NormedModule)); [apply is_derive_sin | exact Hi].
Qed.

Lemma TR_TI_0 : forall d, TR d 0 = 1 /\ TI d 0 = 0.
Proof. induction d as [|d [A B]]; cbn [TR TI]; [split; reflexivity|]. rewrite A, B, pow_i by lia. split; unfold Rdiv; ring. Qed.

(* every real projection of the remainder *)
Theorem taylor_projection : forall (d : nat) (c s : R), c * c + s * s = 1 ->
  forall t, Rabs (c * ER d t + s * EI d t) <= Rabs t ^ S d / INR (fact (S d)).
Proof.
  induction d as [|d IH]; intros c s Hu t.
  - (* d = 0: remainder exp(it) - 1, derivative i exp(it) *)
    apply (bound_from_deriv (fun x => c * ER 0 x + s * EI 0 x) (fun x => - c * sin x + s * cos x) 0).
    + intros x. unfold ER, EI. cbn [TR TI]. auto_derive; [trivial | ring].
    + unfold ER, EI. cbn [TR TI]. rewrite cos_0, sin_0. ring.
    + intros x. cbn [pow fact INR]. replace (1 / 1) with 1 by field.
      pose proof (sin2_cos2 x) as E. unfold Rsqr in E.
      assert (Q : (- c * sin x + s * cos x) * (- c * sin x + s * cos x) + (c * cos x + s * sin x) * (c * cos x + s * sin x) = 1).
      { transitivity ((c * c + s * s) * (sin x * sin x + cos x * cos x)); [ring | rewrite Hu, E; ring]. }
      set (A := - c * sin x + s * cos x) in *. set (Bv := c * cos x + s * sin x) in *. clearbody A Bv.
      pose proof (Rle_0_sqr Bv) as HB. unfold Rsqr in HB. assert (HA : A * A <= 1) by lra.
      apply Rabs_le. split; nra.
  - apply (bound_from_deriv (fun x => c * ER (S d) x + s * EI (S d) x) (fun x => s * ER d x + (- c) * EI d x) (S d)).
    + intros x. destruct (ER_EI_derive d x) as [Hr Hi].
      replace (s * ER d x + - c * EI d x) with (c * (- EI d x) + s * ER d x) by ring.
      apply (is_derive_plus (V := R_NormedModule)); apply is_derive_scal; assumption.
    + unfold ER, EI. destruct (TR_TI_0 (S d)) as [-> ->]. rewrite cos_0, sin_0. ring.
    + intros x. apply IH. nra.
Qed.

Lemma Cmod_le_projections : forall (z : C) (B : R),
  (forall c s, c * c + s * s = 1 -> c * fst z + s * snd z <= B) -> 0 <= B -> Cmod z <= B.
Proof.
  intros [x y] B H HB. cbn [fst snd] in H.
  destruct (Req_dec (Cmod (x, y)) 0) as [E|E]; [rewrite E; exact HB|].
  pose proof (Cmod_ge_0 (x, y)) as Hp. set (n := Cmod (x, y)) in *.
  assert (Hn2 : n * n = x * x + y * y).
  { unfold n, Cmod. cbn [fst snd]. rewrite sqrt_sqrt; [ring | nra]. }
  specialize (H (x / n) (y / n)).
  assert (Hu : x / n * (x / n) + y / n * (y / n) = 1) by (field_simplify_eq; [lra | exact E]).
  specialize (H Hu). replace (x / n * x + y / n * y) with n in H; [exact H|].
  field_simplify_eq; [lra | exact E].
Qed.

Theorem taylor_remainder : forall (d : nat) (t : R), Cmod (ER d t, EI d t) <= Rabs t ^ S d / INR (fact (S d)).
Proof.
  intros d t. apply Cmod_le_projections.
  - intros c s Hu. cbn [fst snd]. eapply Rle_trans; [apply Rle_abs | apply taylor_projection; exact Hu].
  - pose proof (INR_fact_lt_0 (S d)). pose proof (pow_le (Rabs t) (S d) (Rabs_pos t)). apply Rmult_le_pos; [assumption | apply Rlt_le, Rinv_0_lt_compat; assumption].
Qed.

(* ------------------------------------------------------------------ the Taylor polynomial as a complex polynomial in x *)
Definition tco (k : R) (m : nat) : C := (cr m * (k ^ m / INR (fact m)), ci m * (k ^ m / INR (fact m))).
Definition tcoefs (k : R) (d : nat) : list C := map (tco k) (seq 0 (S d)).
Fixpoint expsum (a : R) (d : nat) : R := match d with O => 1 | S d' => expsum a d' + a ^ S d' / INR (fact (S d')) end.

Fixpoint psum (g : nat -> R) (n : nat) (x : R) : R := match n with O => 0 | S n' => psum g n' x + g n' * x ^ n' end.

Lemma peval_map_seq : forall (g : nat -> R) n x, peval (map g (seq 0 n)) x = psum g n x.
Proof.
  intros g n x. induction n as [|n IH]; [reflexivity|].
  rewrite seq_S, map_app, peval_app, IH, map_length, seq_length. cbn [Nat.add map peval psum]. ring.
Qed.

Lemma TR_psum : forall k d x, TR d (k * x) = psum (fun m => cr m * (k ^ m / INR (fact m))) (S d) x.
Proof.
  intros k d x. induction d as [|d IH]; [cbn; field|].
  cbn [TR]. rewrite IH. cbn [psum]. rewrite Rpow_mult_distr. unfold Rdiv. ring.
Qed.
Lemma TI_psum : forall k d x, TI d (k * x) = psum (fun m => ci m * (k ^ m / INR (fact m))) (S d) x.
Proof.
  intros k d x. induction d as [|d IH]; [cbn; field|].
  cbn [TI]. rewrite IH. cbn [psum]. rewrite Rpow_mult_distr. unfold Rdiv. ring.
Qed.

Lemma cpeval_tcoefs : forall k d x, cpeval Rops (tcoefs k d) x = (TR d (k * x), TI d (k * x)).
Proof.
  intros k d x. apply pair_eq; cbn [fst snd].
  - rewrite cpeval_fst. unfold tcoefs. rewrite map_map. cbn [tco fst]. rewrite peval_map_seq, TR_psum. reflexivity.
  - rewrite cpeval_snd. unfold tcoefs. rewrite map_map. cbn [tco snd]. rewrite peval_map_seq, TI_psum. reflexivity.
Qed.

Lemma Cmod_tco : forall k m, Cmod (tco k m) = Rabs k ^ m / INR (fact m).
Proof.
  intros k m. unfold tco, Cmod. cbn [fst snd]. set (a := k ^ m / INR (fact m)).
  assert (Ha : Rabs a = Rabs k ^ m / INR (fact m)).
  { unfold a, Rdiv. rewrite Rabs_mult, <- RPow_abs, Rabs_inv. rewrite (Rabs_right (INR (fact m))); [reflexivity|].
    apply Rle_ge, Rlt_le, INR_fact_lt_0. }
  rewrite <- Ha. destruct (cr_ci_unit m) as [[A [B|B]]|[A [B|B]]]; rewrite A, B;
    [replace ((0 * a) ^ 2 + (1 * a) ^ 2) with (a²) by (unfold Rsqr; ring)
    |replace ((0 * a) ^ 2 + (-1 * a) ^ 2) with (a²) by (unfold Rsqr; ring)
    |replace ((1 * a) ^ 2 + (0 * a) ^ 2) with (a²) by (unfold Rsqr; ring)
    |replace ((-1 * a) ^ 2 + (0 * a) ^ 2) with (a²) by (unfold Rsqr; ring)]; apply sqrt_Rsqr_abs.
Qed.

Lemma sum_cmod_tcoefs : forall k d, sum_cmod (tcoefs k d) = expsum (Rabs k) d.
Proof.
  intros k d. unfold tcoefs.
  assert (G : forall n, sum_cmod (map (tco k) (seq 0 n)) = match n with O => 0 | S n' => expsum (Rabs k) n' end).
  { induction n as [|n IH]; [reflexivity|]. rewrite seq_S, map_app.
    assert (A : forall l1 l2, sum_cmod (l1 ++ l2) = sum_cmod l1 + sum_cmod l2).
    { unfold sum_cmod. induction l1 as [|z l1 IH1]; intros l2; cbn [app fold_right]; [lra | rewrite IH1; ring]. }
    rewrite A, IH. cbn [Nat.add map sum_cmod fold_right]. rewrite Cmod_tco.
    destruct n as [|n]; cbn [expsum pow fact INR]; [field | ring]. }
  apply (G (S d)).
Qed.

(* ------------------------------------------------------------------ pieces of the error *)
Lemma Cmod_apply_rule_le : forall (r : rule Rops) (f : R -> C) (M : R),
  (forall nw, In nw r -> Cmod (f (fst nw)) <= M) -> 0 <= M ->
  Cmod (apply_rule Rops r f) <= rsum (map (fun nw => Rabs (snd nw)) r) * M.
Proof.
  intros r f M H HM. rewrite apply_rule_R. induction r as [|[x w] r IH].
  - cbn [rapply fold_right map rsum]. change (0, 0) with (RtoC 0). rewrite Cmod_0. lra.
  - replace (rapply ((x, w) :: r) (fun x0 => fst (f x0)), rapply ((x, w) :: r) (fun x0 => snd (f x0)))
      with (Cplus (Cmult (RtoC w) (f x)) (rapply r (fun x0 => fst (f x0)), rapply r (fun x0 => snd (f x0)))).
    2:{ destruct (f x) as [u v] eqn:E. unfold rapply. cbn [fold_right fst snd]. rewrite E. cbv [Cplus Cmult RtoC fst snd]. f_equal; ring. }
    eapply Rle_trans; [apply Cmod_triangle|]. rewrite Cmod_mult, Cmod_R. cbn [map rsum snd].
    assert (H1 : Cmod (f x) <= M) by (apply (H (x, w)); left; reflexivity).
    assert (H2 : Cmod (rapply r (fun x0 => fst (f x0)), rapply r (fun x0 => snd (f x0))) <= rsum (map (fun nw => Rabs (snd nw)) r) * M).
    { apply IH. intros nw Hin. apply H. right. exact Hin. }
    pose proof (Rabs_pos w). nra.
Qed.

Lemma apply_rule_ext_C : forall (r : rule Rops) (f g : R -> C), (forall x, f x = g x) -> apply_rule Rops r f = apply_rule Rops r g.
Proof. intros r f g H. rewrite !apply_rule_R. f_equal; apply rapply_ext'; intros x; rewrite H; reflexivity. Qed.

Lemma apply_rule_plus : forall (r : rule Rops) (f g : R -> C),
  apply_rule Rops r (fun x => Cplus (f x) (g x)) = Cplus (apply_rule Rops r f) (apply_rule Rops r g).
Proof.
  intros r f g. rewrite !apply_rule_R. unfold Cplus. cbn [fst snd]. f_equal; apply rapply_plus.
Qed.

Definition taylor_rem (k : R) (d : nat) (x : R) : C := (ER d (k * x), EI d (k * x)).

Lemma expi_split : forall k d x, expi k x = Cplus (cpeval Rops (tcoefs k d) x) (taylor_rem k d x).
Proof. intros. rewrite cpeval_tcoefs. unfold expi, taylor_rem, ER, EI, Cplus. cbn [fst snd]. f_equal; ring. Qed.

Lemma taylor_rem_bound : forall k d x, Rabs x <= 1 -> Cmod (taylor_rem k d x) <= Rabs k ^ S d / INR (fact (S d)).
Proof.
  intros k d x Hx. unfold taylor_rem. eapply Rle_trans; [apply taylor_remainder|].
  pose proof (INR_fact_lt_0 (S d)). unfold Rdiv. apply Rmult_le_compat_r; [apply Rlt_le, Rinv_0_lt_compat; assumption|].
  rewrite Rabs_mult. apply pow_incr. split; [apply Rmult_le_pos; apply Rabs_pos|]. pose proof (Rabs_pos k). nra.
Qed.

(* the integral of the remainder over [-1,1] *)
Lemma remainder_integral : forall k d, k <> 0 ->
  Cmod (Cminus (expi_int k (-1) 1) (cpint Rops (tcoefs k d) (-1) 1)) <= 2 * (Rabs k ^ S d / INR (fact (S d))).
Proof.
  intros k d Hk. set (M := Rabs k ^ S d / INR (fact (S d))).
  assert (HM : 0 <= M).
  { unfold M. pose proof (INR_fact_lt_0 (S d)). pose proof (pow_le (Rabs k) (S d) (Rabs_pos k)).
    apply Rmult_le_pos; [assumption | apply Rlt_le, Rinv_0_lt_compat; assumption]. }
  apply Cmod_le_projections; [|lra].
  intros c s Hu. unfold Cminus, Cplus, Copp. cbn [fst snd].
  destruct (expi_int_is_RInt k (-1) 1 Hk) as [Er Ei]. destruct (cpint_is_RInt (tcoefs k d) (-1) 1) as [Pr Pi_].
  set (h := fun x => c * ER d (k * x) + s * EI d (k * x)).
  assert (Hh : is_RInt h (-1) 1 (c * (fst (expi_int k (-1) 1) + - fst (cpint Rops (tcoefs k d) (-1) 1)) +
                                s * (snd (expi_int k (-1) 1) + - snd (cpint Rops (tcoefs k d) (-1) 1)))).
  { apply (is_RInt_ext (fun x => plus (scal c (minus (fst (expi k x)) (fst (cpeval Rops (tcoefs k d) x))))
                                      (scal s (minus (snd (expi k x)) (snd (cpeval Rops (tcoefs k d) x)))))).
    - intros x _. rewrite cpeval_tcoefs. unfold h, expi, ER, EI, plus, scal, minus, opp. cbn. unfold mult. cbn. ring.
    - apply (is_RInt_plus (V := R_NormedModule)); apply (is_RInt_scal (V := R_NormedModule)); apply (is_RInt_minus (V := R_NormedModule)); assumption. }
  assert (Hb : forall x : R, -1 <= x <= 1 -> norm (h x) <= M).
  { intros x Hx. unfold h. change (norm ?z) with (Rabs z). eapply Rle_trans; [apply taylor_projection; exact Hu|].
    unfold M, Rdiv. pose proof (INR_fact_lt_0 (S d)). apply Rmult_le_compat_r; [apply Rlt_le, Rinv_0_lt_compat; assumption|].
    rewrite Rabs_mult. apply pow_incr. split; [apply Rmult_le_pos; apply Rabs_pos|].
    assert (Rabs x <= 1) by (apply Rabs_le; lra). pose proof (Rabs_pos k). nra. }
  assert (H01 : -1 <= 1) by lra.
  pose proof (norm_RInt_le_const h (-1) 1 _ M H01 Hb Hh) as N. change (norm ?z) with (Rabs z) in N.
  eapply Rle_trans; [apply Rle_abs|]. eapply Rle_trans; [exact N|]. lra.
Qed.

(* ------------------------------------------------------------------ the bound on [-1,1] *)
Definition abs_weight (r : rule Rops) : R := rsum (map (fun nw => Rabs (snd nw)) r).
Definition nodes_in_unit (r : rule Rops) : Prop := forall nw, In nw r -> Rabs (fst nw) <= 1.

Theorem certified_rule_expi : forall (r : rule Rops) (d : nat) (eps k : R),
  (forall m, (m <= d)%nat -> Rabs (moment r m - leg_moment m) <= eps) -> nodes_in_unit r -> k <> 0 ->
  Cmod (Cminus (apply_rule Rops r (expi k)) (expi_int k (-1) 1))
    <= eps * expsum (Rabs k) d + (abs_weight r + 2) * (Rabs k ^ S d / INR (fact (S d))).
Proof.
  intros r d eps k Hc Hn Hk. set (M := Rabs k ^ S d / INR (fact (S d))).
  assert (HM : 0 <= M).
  { unfold M. pose proof (INR_fact_lt_0 (S d)). pose proof (pow_le (Rabs k) (S d) (Rabs_pos k)).
    apply Rmult_le_pos; [assumption | apply Rlt_le, Rinv_0_lt_compat; assumption]. }
  rewrite (apply_rule_ext_C r (expi k) (fun x => Cplus (cpeval Rops (tcoefs k d) x) (taylor_rem k d x))) by (intros x; apply expi_split).
  rewrite apply_rule_plus.
  set (P := apply_rule Rops r (cpeval Rops (tcoefs k d))). set (E := apply_rule Rops r (taylor_rem k d)).
  set (Ip := cpint Rops (tcoefs k d) (-1) 1). set (I := expi_int k (-1) 1).
  replace (Cminus (Cplus P E) I) with (Cplus (Cplus (Cminus P Ip) E) (Copp (Cminus I Ip))).
  2:{ clearbody P E Ip I. destruct P, E, Ip, I. cbv [Cminus Cplus Copp fst snd]. f_equal; ring. }
  eapply Rle_trans; [apply Cmod_triangle|]. rewrite Cmod_opp.
  eapply Rle_trans; [apply Rplus_le_compat_r, Cmod_triangle|].
  assert (H1 : Cmod (Cminus P Ip) <= eps * expsum (Rabs k) d).
  { rewrite <- sum_cmod_tcoefs. apply (rule_certificate r d eps Hc). unfold tcoefs. rewrite map_length, seq_length. lia. }
  assert (H2 : Cmod E <= abs_weight r * M).
  { apply Cmod_apply_rule_le; [|exact HM]. intros nw Hin. apply taylor_rem_bound. apply Hn. exact Hin. }
  pose proof (remainder_integral k d Hk) as H3. fold M I Ip in H3. lra.
Qed.

(* ------------------------------------------------------------------ affine transfer to [a,b], complex amplitude *)
Lemma apply_rule_transfer_C : forall (r : rule Rops) (a b : R) (f : R -> C),
  apply_rule Rops (gq_transfer Rops r a b) f = Cmult (RtoC (tr_u a b)) (apply_rule Rops r (fun x => f (tr_u a b * x + tr_v a b))).
Proof.
  intros r a b f. rewrite !apply_rule_R, !rapply_transfer. unfold Cmult, RtoC. cbn [fst snd]. f_equal; ring.
Qed.

Lemma Cmod_expi : forall k x, Cmod (expi k x) = 1.
Proof.
  intros k x. unfold expi, Cmod. cbn [fst snd]. replace (cos (k * x) ^ 2 + sin (k * x) ^ 2) with 1; [apply sqrt_1|].
  pose proof (sin2_cos2 (k * x)) as H. unfold Rsqr in H. lra.
Qed.

Lemma expi_int_transfer : forall k a b : R, k <> 0 -> a <> b ->
  expi_int k a b = Cmult (RtoC (tr_u a b)) (Cmult (expi k (tr_v a b)) (expi_int (k * tr_u a b) (-1) 1)).
Proof.
  intros k a b Hk Hab. set (u := tr_u a b). set (v := tr_v a b).
  assert (Hu : u <> 0) by (unfold u, tr_u; lra).
  assert (Ha : k * a = k * v - k * u) by (unfold u, v, tr_u, tr_v; field).
  assert (Hb : k * b = k * v + k * u) by (unfold u, v, tr_u, tr_v; field).
  unfold expi_int, expi, Cmult, RtoC. cbn [fst snd]. rewrite Ha, Hb.
  replace (k * u * 1) with (k * u) by ring. replace (k * u * -1) with (- (k * u)) by ring.
  rewrite cos_neg, sin_neg, cos_plus, cos_minus, sin_plus, sin_minus. f_equal; field; split; assumption.
Qed.

Theorem certified_rule_expi_transfer : forall (r : rule Rops) (d : nat) (eps k : R) (a b : R) (amp : C),
  (forall m, (m <= d)%nat -> Rabs (moment r m - leg_moment m) <= eps) -> nodes_in_unit r -> k <> 0 -> a <> b ->
  let ku := k * tr_u a b in
  Cmod (Cminus (apply_rule Rops (gq_transfer Rops r a b) (fun x => Cmult amp (expi k x))) (Cmult amp (expi_int k a b)))
    <= Cmod amp * Rabs (tr_u a b) * (eps * expsum (Rabs ku) d + (abs_weight r + 2) * (Rabs ku ^ S d / INR (fact (S d)))).
Proof.
  intros r d eps k a b amp Hc Hn Hk Hab ku. set (u := tr_u a b) in *. set (v := tr_v a b).
  assert (Hu : u <> 0) by (unfold u, tr_u; lra).
  assert (Hku : ku <> 0) by (unfold ku; apply Rmult_integral_contrapositive_currified; assumption).
  rewrite rule_cscal, apply_rule_transfer_C. fold u v.
  change (Sc Rops) with R. rewrite (apply_rule_ext_C r (fun x => expi k (u * x + v)) (fun x => Cmult (expi k v) (expi ku x))).
  2:{ intros x. rewrite expi_shift. f_equal. unfold expi, ku. f_equal; f_equal; ring. }
  rewrite rule_cscal. rewrite (expi_int_transfer k a b Hk Hab). fold u v ku.
  set (X := apply_rule Rops r (expi ku)). set (I := expi_int ku (-1) 1).
  replace (Cminus (Cmult amp (Cmult (RtoC u) (Cmult (expi k v) X))) (Cmult amp (Cmult (RtoC u) (Cmult (expi k v) I))))
    with (Cmult amp (Cmult (RtoC u) (Cmult (expi k v) (Cminus X I)))).
  2:{ clearbody X I. destruct amp, (expi k v), X, I. cbv [Cminus Cplus Copp Cmult RtoC fst snd]. f_equal; ring. }
  rewrite !Cmod_mult, Cmod_R, Cmod_expi.
  pose proof (certified_rule_expi r d eps ku Hc Hn Hku) as H. fold X I in H.
  pose proof (Cmod_ge_0 amp). pose proof (Rabs_pos u).
  rewrite Rmult_assoc. apply Rmult_le_compat_l; [assumption|]. apply Rmult_le_compat_l; [assumption|]. lra.
Qed.
