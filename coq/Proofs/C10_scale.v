(* C10 — brightness invariance: multiplying the second source's amplitude by a non-zero complex constant (pump power,
   d_eff, a global phase) leaves all three two-source rates unchanged; in particular two sources that differ only in
   brightness behave as identical sources. *)
From Coq Require Import Reals Lra Lia Arith.
From SpdVerif Require Import Model.FinSum Model.Hom Model.Hom2 Proofs.FinSum_lemmas Proofs.Cx_lemmas Proofs.C09_range
  Proofs.CMat Proofs.C10_sums Proofs.C10_svd Proofs.C10_expand.
Local Open Scope R_scope.

Definition scale_second (c : cx R) (A : ts_arrays R) : ts_arrays R :=
  mkTs (first_s1_i1 A) (fun k => c *c second_s2_i2 A k) (first_s2_i1 A) (fun k => c *c second_s1_i2 A k)
       (first_s1_i2 A) (fun k => c *c second_s2_i1 A k) (first_i2_i1 A) (fun k => c *c second_s2_s1 A k).

Lemma ts_term_scale (c a b u : cx R) : ts_term ROps (c *c a) (c *c b) u = cnorm2 ROps c * ts_term ROps a b u.
Proof. unfold ts_term. cx_destruct. cx_unfold. ring. Qed.

Lemma mul_scale_r (c x y : cx R) : x *c (c *c y) = c *c (x *c y).
Proof. cx_ring. Qed.

Lemma ts_a_scale c A i j : ts_a ROps (scale_second c A) i j = c *c ts_a ROps A i j.
Proof. unfold ts_a, scale_second. cbn [first_s1_i1 second_s2_i2]. apply mul_scale_r. Qed.

Lemma ts_b_ss_scale c n A i j : ts_b_ss ROps n (scale_second c A) i j = c *c ts_b_ss ROps n A i j.
Proof.
  unfold ts_b_ss, scale_second. cbn [first_s2_i1 second_s1_i2]. destruct (get_2d_indices i n), (get_2d_indices j n). apply mul_scale_r.
Qed.

Lemma ts_b_ii_scale c n A i j : ts_b_ii ROps n (scale_second c A) i j = c *c ts_b_ii ROps n A i j.
Proof.
  unfold ts_b_ii, scale_second. cbn [first_s1_i2 second_s2_i1]. destruct (get_2d_indices i n), (get_2d_indices j n). apply mul_scale_r.
Qed.

Lemma ts_b_si_scale c n A i j : ts_b_si ROps n (scale_second c A) i j = c *c ts_b_si ROps n A i j.
Proof.
  unfold ts_b_si, scale_second. cbn [first_i2_i1 second_s2_s1]. destruct (get_2d_indices i n), (get_2d_indices j n). apply mul_scale_r.
Qed.

Lemma ts_rate_scale c n A b b' u :
  c <> (0, 0) -> (forall i j, b' i j = c *c b i j) ->
  jsi_norm ROps (n * n) (first_s1_i1 A) * jsi_norm ROps (n * n) (second_s2_i2 A) <> 0 ->
  ts_rate ROps n (scale_second c A) b' u = ts_rate ROps n A b u.
Proof.
  intros Hc Hb HN. rewrite !ts_rate_unfold.
  assert (Hc2 : cnorm2 ROps c <> 0).
  { intros H0. apply Hc. destruct c as [x y]. cx_unfold. assert (x = 0) by nra. assert (y = 0) by nra. subst. reflexivity. }
  assert (ES : ts_sum n (scale_second c A) b' u = cnorm2 ROps c * ts_sum n A b u).
  { unfold ts_sum. rewrite <- rsum_scal_l. apply rsum_ext; intros i _. rewrite <- rsum_scal_l. apply rsum_ext; intros j _.
    rewrite ts_a_scale, Hb. apply ts_term_scale. }
  assert (EN : jsi_norm ROps (n * n) (second_s2_i2 (scale_second c A)) = cnorm2 ROps c * jsi_norm ROps (n * n) (second_s2_i2 A)).
  { rewrite !jsi_norm_rsum, <- rsum_scal_l. apply rsum_ext; intros k _. unfold scale_second. cbn [second_s2_i2]. apply cnorm2_cmul. }
  rewrite ES, EN. change (first_s1_i1 (scale_second c A)) with (first_s1_i1 A).
  assert (H1 : jsi_norm ROps (n * n) (first_s1_i1 A) <> 0) by (intros H0; apply HN; rewrite H0; ring).
  assert (H2 : jsi_norm ROps (n * n) (second_s2_i2 A) <> 0) by (intros H0; apply HN; rewrite H0; ring).
  field. repeat split; assumption.
Qed.

Theorem ts_rates_brightness_invariant c n A u_ss u_ii u_si :
  c <> (0, 0) ->
  jsi_norm ROps (n * n) (first_s1_i1 A) * jsi_norm ROps (n * n) (second_s2_i2 A) <> 0 ->
  ts_rate_ss ROps n (scale_second c A) u_ss = ts_rate_ss ROps n A u_ss /\
  ts_rate_ii ROps n (scale_second c A) u_ii = ts_rate_ii ROps n A u_ii /\
  ts_rate_si ROps n (scale_second c A) u_si = ts_rate_si ROps n A u_si.
Proof.
  intros Hc HN. unfold ts_rate_ss, ts_rate_ii, ts_rate_si. repeat split; apply ts_rate_scale; try assumption; intros.
  - apply ts_b_ss_scale.
  - apply ts_b_ii_scale.
  - apply ts_b_si_scale.
Qed.

(* at setup level: the second source's amplitude is c times the first's *)
Lemma ts_tabulate_scaled J c ls1 li1 ls2 li2 n :
  ts_tabulate J (fun a b => c *c J a b) ls1 li1 ls2 li2 n = scale_second c (ts_tabulate J J ls1 li1 ls2 li2 n).
Proof. reflexivity. Qed.

Theorem setup_brightness_invariant J c ls1 li1 ls2 li2 n dt :
  c <> (0, 0) ->
  jsi_norm ROps (n * n) (tabulate J (axes_grid ls1 li1 n)) * jsi_norm ROps (n * n) (tabulate J (axes_grid ls2 li2 n)) <> 0 ->
  setup_ts_rates J (fun a b => c *c J a b) ls1 li1 ls2 li2 n dt = setup_ts_rates J J ls1 li1 ls2 li2 n dt.
Proof.
  intros Hc HN. unfold setup_ts_rates. rewrite ts_tabulate_scaled.
  destruct (ts_rates_brightness_invariant c n (ts_tabulate J J ls1 li1 ls2 li2 n)
              (ts_phase_ss (axes_grid ls1 li1 n) (axes_grid ls2 li2 n) dt) (ts_phase_ii (axes_grid ls1 li1 n) (axes_grid ls2 li2 n) dt)
              (ts_phase_si (axes_grid ls1 li1 n) (axes_grid ls2 li2 n) dt) Hc HN) as (E1 & E2 & E3).
  rewrite E1, E2, E3. reflexivity.
Qed.
