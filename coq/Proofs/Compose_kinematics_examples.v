(* Non-vacuity of the hypotheses of the kinematics theorems (Compose_kinematics.v, Compose_kinematics_links.v): a birefringent,
   dispersion-free medium (ordinary index 3/2, extraordinary index 7/4), beams along z. *)
From Coq Require Import Reals Lra Lia List FunctionalExtensionality.
From Coquelicot Require Import Coquelicot.
From SpdVerif Require Import Base.Rx Model.Optics Model.Fresnel Gen.Fresnel Gen.Kinematics Proofs.C02_gen Proofs.Compose_kinematics
  Proofs.Compose_kinematics_links.
From SpdVerif Require Import Base.CxPM Model.PMParams Gen.PMIntegrand Model.Hom2 Gen.HomSrc.
From SpdVerif Require Import Spec.CrystalTypes Gen.Crystals Proofs.Sellmeier.
Local Open Scope R_scope.

Definition ex_index : R -> vec -> polarization -> R :=
  fun _ _ p => match p with Ordinary => 3 / 2 | Extraordinary => 7 / 4 end.
Definition ez : vec := (0, 0, 1).

Lemma ex_slope : forall w d p, slope ex_index w d p = 0.
Proof.
  intros. unfold slope, derivative_at_gen, fd_quotient_gen, ex_index.
  destruct p; match goal with |- _ * (?c - ?c) / _ = 0 => replace (c - c) with 0 by lra end;
    unfold Rdiv; rewrite Rmult_0_r, Rmult_0_l; reflexivity.
Qed.

Lemma ex_n : forall w d, n_at ex_index w d Ordinary = 3 / 2 /\ n_at ex_index w d Extraordinary = 7 / 4.
Proof. intros. split; reflexivity. Qed.

Lemma ex_lam_pos : forall w, 0 < w -> 0 < lam w.
Proof.
  intros w Hw. unfold lam. apply Rdiv_lt_0_compat; [|lra].
  pose proof PI_RGT_0. lra.
Qed.

Lemma ex_unit : unit_vec ez /\ vz ez <> 0.
Proof. unfold unit_vec, vnorm2, vdot, ez, vx, vy, vz; cbn [fst snd]. split; lra. Qed.

(* group index, group velocity: hypotheses of kin_group_index_off, kin_positive_off, kin_vg_ng_off hold, and the values are n, c/n *)
Lemma kin_basic_nonvacuous : forall w, 0 < w ->
  n_at ex_index w ez Extraordinary <> 0 /\ 0 < n_at ex_index w ez Extraordinary /\
  1 + lam w / n_at ex_index w ez Extraordinary * slope ex_index w ez Extraordinary <> 0 /\
  -1 < lam w / n_at ex_index w ez Extraordinary * slope ex_index w ez Extraordinary /\
  beam_group_index_off_gen ex_index w ez Extraordinary = 7 / 4 /\
  beam_group_velocity_off_gen ex_index w ez Extraordinary <> 0.
Proof.
  intros w Hw. destruct (ex_n w ez) as [_ E]. rewrite ex_slope, E.
  assert (Hg : beam_group_index_off_gen ex_index w ez Extraordinary = 7 / 4).
  { rewrite kin_group_index_off; rewrite ?ex_slope, ?E; [field | lra | lra]. }
  repeat split; try lra.
  destruct (kin_positive_off ex_index w ez Extraordinary) as (_ & Hv & _); [rewrite E; lra | rewrite ex_slope, E; lra | lra].
Qed.

(* the local smoothness hypotheses of kin_slope_vs_derivative / kin_group_velocity_vs_derivative with a genuinely dispersive index:
   n(lambda) = 2 - 100000 lambda (1.845 at 1.55 um, normal dispersion).  It is smooth on every interval, its third derivative is 0
   (M = 0), and the code's slope is its derivative, -100000: not zero. *)
Definition lin_index : R -> vec -> polarization -> R := fun lm _ _ => 2 - 100000 * lm.

Lemma lin_D1 : Derive (fun lm : R => 2 - 100000 * lm) = fun _ => -100000.
Proof. apply functional_extensionality. intro t. apply is_derive_unique. auto_derive; [exact I | ring]. Qed.
Lemma const_D : forall c : R, Derive (fun _ : R => c) = fun _ => 0.
Proof. intro c. apply functional_extensionality. intro t. apply Derive_const. Qed.

Lemma kin_smooth_nonvacuous : forall w d p, 0 < w ->
  let l := lam w in let h := fd_step_gen l in
  l - 2 * h < l - h /\ l + h < l + 2 * h /\
  (forall t, l - 2 * h < t < l + 2 * h -> forall k, (k <= 3)%nat -> ex_derive_n (fun lm => lin_index lm d p) k t) /\
  (forall t, l - h < t < l + h -> Rabs (Derive_n (fun lm => lin_index lm d p) 3 t) <= 0) /\
  slope lin_index w d p = -100000 /\ Derive (fun lm => lin_index lm d p) l = -100000.
Proof.
  intros w d p Hw l h. pose proof (fd_step_pos l) as Hh. fold h in Hh. unfold lin_index.
  split; [lra|]. split; [lra|]. split; [|split; [|split]].
  - intros t _ k Hk.
    destruct k as [|[|[|[|k]]]]; [exact I | | | | lia].
    + cbn. auto_derive. exact I.
    + cbn. rewrite lin_D1. apply ex_derive_const.
    + cbn. rewrite lin_D1, const_D. apply ex_derive_const.
  - intros t _. cbn. rewrite lin_D1, const_D, Derive_const, Rabs_R0. lra.
  - unfold slope, derivative_at_gen, fd_quotient_gen, fd_forward_point_gen, fd_backward_point_gen.
    replace (lam w / 1) with l by (unfold l; field). fold h.
    replace 0.5 with (/ 2) by lra. field. lra.
  - rewrite lin_D1. reflexivity.
Qed.

(* F14: a parameter record whose nine rate-level scalars are read off three beams *)
Definition pm_with_beams (index : R -> vec -> polarization -> R) (ws wi wp : R) (ds di dp : vec) (ps pi_ pp_ : polarization)
  (b : pm_params) : pm_params := {|
  p_L := p_L b; p_phi_s := p_phi_s b; p_phi_i := p_phi_i b; p_theta_s := p_theta_s b; p_theta_i := p_theta_i b;
  p_theta_s_e := p_theta_s_e b; p_theta_i_e := p_theta_i_e b;
  p_wsx := p_wsx b; p_wsy := p_wsy b; p_wix := p_wix b; p_wiy := p_wiy b; p_wpx := p_wpx b; p_wpy := p_wpy b;
  p_z0s := p_z0s b; p_z0i := p_z0i b; p_dirz_s := p_dirz_s b; p_dirz_i := p_dirz_i b;
  p_omega_s := p_omega_s b; p_omega_i := p_omega_i b; p_n_p := p_n_p b; p_n_s := p_n_s b; p_n_i := p_n_i b;
  p_rho := p_rho b; p_k_eff := p_k_eff b; p_apod := p_apod b;
  p_pp_on := p_pp_on b; p_lambda_p := lam wp; p_omega_p0 := p_omega_p0 b; p_bw := p_bw b;
  p_power := p_power b; p_deff := p_deff b; p_thr := p_thr b;
  p_lambda_s := lam ws; p_lambda_i := lam wi; p_omega_s0 := p_omega_s0 b; p_omega_i0 := p_omega_i0 b;
  p_n_s0 := n_at index ws ds ps; p_n_i0 := n_at index wi di pi_; p_n_p0 := n_at index wp dp pp_;
  p_ng_s := beam_group_index_off_gen index ws ds ps; p_ng_i := beam_group_index_off_gen index wi di pi_;
  p_ng_p := beam_group_index_off_gen index wp dp pp_
|}.

Definition ex_q : pm_params :=
  pm_with_beams ex_index 1.2e15 1.23e15 2.43e15 ez ez ez Ordinary Extraordinary Extraordinary pm_example.

Lemma ex_ng : forall w, 0 < w ->
  beam_group_index_off_gen ex_index w ez Ordinary = 3 / 2 /\ beam_group_index_off_gen ex_index w ez Extraordinary = 7 / 4.
Proof.
  intros w Hw. destruct (ex_n w ez) as [Eo Ee].
  split; rewrite kin_group_index_off; rewrite ?ex_slope, ?Eo, ?Ee; try lra; field.
Qed.

(* every hypothesis of F14_counts_correction_generated / F14_counts_ratio_generated holds for ex_q, and the exchanged correction is
   (7/4) / (3/2) times the original one: the asymmetry is real *)
Lemma kin_F14_nonvacuous :
  counts_scalars_from_beams ex_index 1.2e15 1.23e15 2.43e15 ez ez ez Ordinary Extraordinary Extraordinary ex_q /\
  lam 2.43e15 <> 0 /\ n_at ex_index 1.2e15 ez Ordinary <> 0 /\ n_at ex_index 1.23e15 ez Extraordinary <> 0 /\
  n_at ex_index 2.43e15 ez Extraordinary <> 0 /\
  1 + lam 1.2e15 / n_at ex_index 1.2e15 ez Ordinary * slope ex_index 1.2e15 ez Ordinary <> 0 /\
  1 + lam 1.23e15 / n_at ex_index 1.23e15 ez Extraordinary * slope ex_index 1.23e15 ez Extraordinary <> 0 /\
  pm_counts_correction ex_q <> 0 /\
  pm_counts_correction (pm_swap ex_q) / pm_counts_correction ex_q = (7 / 4) / (3 / 2).
Proof.
  assert (Hs : counts_scalars_from_beams ex_index 1.2e15 1.23e15 2.43e15 ez ez ez Ordinary Extraordinary Extraordinary ex_q)
    by (repeat split; reflexivity).
  assert (Lp : 0 < lam 2.43e15) by (apply ex_lam_pos; lra).
  assert (Ls : 0 < lam 1.2e15) by (apply ex_lam_pos; lra).
  assert (Li : 0 < lam 1.23e15) by (apply ex_lam_pos; lra).
  destruct (ex_n 1.2e15 ez) as [Ns _]. destruct (ex_n 1.23e15 ez) as [_ Ni]. destruct (ex_n 2.43e15 ez) as [_ Np].
  destruct (ex_ng 1.2e15 ltac:(lra)) as [Gs _]. destruct (ex_ng 2.43e15 ltac:(lra)) as [_ Gp].
  assert (Hc : 0 < pm_counts_correction ex_q).
  { unfold pm_counts_correction, ex_q, pm_with_beams.
    cbn [p_lambda_i p_lambda_s p_ng_s p_ng_p p_lambda_p p_n_s0 p_n_i0 p_n_p0].
    rewrite Ns, Ni, Np, Gs, Gp.
    set (ls := lam 1.2e15) in *. set (li := lam 1.23e15) in *. set (lp := lam 2.43e15) in *.
    assert (0 < li * ls) by (apply Rmult_lt_0_compat; assumption).
    assert (0 < lp * lp) by (apply Rmult_lt_0_compat; assumption).
    apply Rdiv_lt_0_compat; nra. }
  assert (H1 : 1 + lam 1.2e15 / n_at ex_index 1.2e15 ez Ordinary * slope ex_index 1.2e15 ez Ordinary <> 0) by (rewrite ex_slope; lra).
  assert (H2 : 1 + lam 1.23e15 / n_at ex_index 1.23e15 ez Extraordinary * slope ex_index 1.23e15 ez Extraordinary <> 0) by (rewrite ex_slope; lra).
  repeat split; try lra; try assumption.
  rewrite (F14_counts_ratio_generated ex_index 1.2e15 1.23e15 2.43e15 ez ez ez Ordinary Extraordinary Extraordinary ex_q);
    try assumption; try lra.
  rewrite !ex_slope, Ns, Ni. field.
Qed.

(* HOM delays: unit directions with a z component, a crystal of positive length *)
Lemma kin_hom_nonvacuous : unit_vec ez /\ vz ez <> 0 /\ 0 <= 0.002.
Proof. destruct ex_unit. repeat split; try assumption; lra. Qed.

(* a frequency whose vacuum wavelength (1.55 um) lies in KTP's window *)
Definition ex_omega : R := 2 * PI * 1 * 299792458 / (155 / 100000000).
Lemma ex_omega_lam : lam ex_omega = 155 / 100000000.
Proof. unfold lam, ex_omega. pose proof PI_RGT_0. field. lra. Qed.
Lemma kin_builtin_nonvacuous : in_window KTP (lam ex_omega / 1e-6) /\ temp_ok 20 /\ unit_vec ez.
Proof.
  rewrite ex_omega_lam. destruct ex_unit as [U _]. repeat split; try exact U; unfold in_window, temp_ok; cbn; lra.
Qed.

Print Assumptions kin_builtin_nonvacuous.
Print Assumptions kin_basic_nonvacuous.
Print Assumptions kin_smooth_nonvacuous.
Print Assumptions kin_F14_nonvacuous.
Print Assumptions kin_hom_nonvacuous.
