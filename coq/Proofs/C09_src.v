(* C09 — the functions translated from src/spdc/hom.rs on this run (Gen/HomSrc.v) are the hand-written model. *)
From Coq Require Import Reals Lra List.
From SpdVerif Require Import Model.FinSum Model.Hom Gen.HomSrc Proofs.FinSum_lemmas Proofs.C09_range.
Local Open Scope R_scope.

Lemma src_jsi_norm_eq {T} (o : Ops T) N f : src_jsi_norm o N f = jsi_norm o N f.
Proof. reflexivity. Qed.

Lemma src_hom_rate_term_eq {T} (o : Ops T) f gs k u : src_hom_rate_term o f gs k u = hom_term o (f k) (gs k) u.
Proof. reflexivity. Qed.

Lemma src_hom_rate_shift_eq g tau k :
  src_hom_rate_shift (grid_ws ROps g k) (grid_wi ROps g k) tau = hom_phase g tau k.
Proof. unfold src_hom_rate_shift, hom_phase. f_equal. field. Qed.

Lemma src_hom_rate_final_eq {T} (o : Ops T) N f gs u nrm :
  src_hom_rate_final o (hom_sum o N f gs u) nrm = hom_rate_gen o N f gs u nrm.
Proof. reflexivity. Qed.

Theorem src_hom_rate_eq g f gs tau norm : src_hom_rate g f gs tau norm = hom_rate g f gs tau norm.
Proof.
  unfold src_hom_rate, hom_rate. cbv zeta. rewrite src_jsi_norm_eq.
  rewrite <- src_hom_rate_final_eq. f_equal.
  rewrite hom_sum_rsum. apply rsum_ext. intros k _.
  rewrite src_hom_rate_term_eq, src_hom_rate_shift_eq. reflexivity.
Qed.

Theorem src_hom_rate_series_eq g f gs taus : src_hom_rate_series g f gs taus = hom_rate_series g f gs taus.
Proof.
  unfold src_hom_rate_series, hom_rate_series. cbv zeta. rewrite src_jsi_norm_eq.
  apply map_ext. intros tau. apply src_hom_rate_eq.
Qed.

Corollary src_hom_rate_range n g f gs tau :
  square_sym n g -> (forall k, (k < n * n)%nat -> gs k = transpose_arr n f k) -> 0 < jsi_norm ROps (n * n) f ->
  0 <= src_hom_rate g f gs tau None <= 1.
Proof. intros Hg Hgs Hn. rewrite src_hom_rate_eq. apply (hom_rate_range n g f gs tau Hg Hgs Hn). Qed.

(* ---- the setup-level wrappers (spdc_obj.rs SPDC::hom_rate_series, hom.rs hom_visibility, joint_spectrum.rs jsa_range) *)
Lemma src_jsa_range_eq J g : src_jsa_range J g = tabulate J g.
Proof. reflexivity. Qed.

Theorem src_setup_hom_rate_series_eq J g taus : src_setup_hom_rate_series J g taus = setup_hom_rate_series J g taus.
Proof. unfold src_setup_hom_rate_series. cbv zeta. rewrite src_hom_rate_series_eq. reflexivity. Qed.

Theorem src_hom_visibility_eq J g dt : src_hom_visibility J g dt = setup_hom_visibility J g dt.
Proof. unfold src_hom_visibility. cbv zeta. rewrite src_hom_rate_eq. reflexivity. Qed.

Theorem src_is_model g f gs tau norm taus :
  src_hom_rate g f gs tau norm = hom_rate g f gs tau norm /\ src_hom_rate_series g f gs taus = hom_rate_series g f gs taus.
Proof. split; [apply src_hom_rate_eq|apply src_hom_rate_series_eq]. Qed.

Theorem src_wrappers J g taus delta_t :
  src_setup_hom_rate_series J g taus = setup_hom_rate_series J g taus /\ src_hom_visibility J g delta_t = setup_hom_visibility J g delta_t.
Proof. split; [apply src_setup_hom_rate_series_eq|apply src_hom_visibility_eq]. Qed.
