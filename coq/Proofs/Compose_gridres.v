(* set_resolution / with_resolution of the three signal-idler spaces, SumDiffFrequencySpace::new, Steps2D::new and Steps2D::ranges
   (Gen/GridRes.v, translated by tools/gen/gridres.py), connected to the grid theorems of C14 (Gen/Grid.v, Model/Grid.v,
   Proofs/C14_steps.v, Proofs/C14_spaces.v):

   - set_resolution writes res into BOTH counts and leaves the four endpoints alone; with_resolution is the same function;
   - the grid then has res * res points, its first point is (x0, y0) and, for res >= 2, its last point is (x1, y1);
   - changing the resolution commutes with every conversion between the wavelength, frequency and sum/difference
     representations (the conversions carry the counts through unchanged), so it does not matter at which point of a
     conversion chain the resolution is set. *)
From Coq Require Import List Arith Bool Lia Reals Lra.
From SpdVerif Require Import Base.GridOps Gen.Grid Model.Grid Gen.GridRes Proofs.C14_steps Proofs.C14_spaces.
Import ListNotations.
Local Open Scope R_scope.

Section Generic.
Variable T : Type.

Definition fs_res (s : space T) (res : nat) : space T := on_space (fun a b n c d m => fs_set_resolution a b n c d m res) s.
Definition sd_res (s : space T) (res : nat) : space T := on_space (fun a b n c d m => sd_set_resolution a b n c d m res) s.
Definition ws_res (s : space T) (res : nat) : space T := on_space (fun a b n c d m => ws_set_resolution a b n c d m res) s.

(* the three representations share one set_resolution, and with_resolution is set_resolution on the moved value *)
Lemma gridres_same : forall (x0 x1 : T) nx (y0 y1 : T) ny res,
  fs_set_resolution x0 x1 nx y0 y1 ny res = ((x0, x1, res), (y0, y1, res)) /\
  sd_set_resolution x0 x1 nx y0 y1 ny res = ((x0, x1, res), (y0, y1, res)) /\
  ws_set_resolution x0 x1 nx y0 y1 ny res = ((x0, x1, res), (y0, y1, res)) /\
  fs_with_resolution x0 x1 nx y0 y1 ny res = fs_set_resolution x0 x1 nx y0 y1 ny res /\
  sd_with_resolution x0 x1 nx y0 y1 ny res = sd_set_resolution x0 x1 nx y0 y1 ny res /\
  ws_with_resolution x0 x1 nx y0 y1 ny res = ws_set_resolution x0 x1 nx y0 y1 ny res.
Proof. repeat split; reflexivity. Qed.

(* counts become (res, res); the ranges (Steps2D::ranges) are untouched; the old counts are forgotten *)
Lemma gridres_counts_ranges : forall (s : space T) res,
  ax_n (fst (fs_res s res)) = res /\ ax_n (snd (fs_res s res)) = res /\
  on_space steps2d_ranges (fs_res s res) = on_space steps2d_ranges s.
Proof. intros [[[x0 x1] nx] [[y0 y1] ny]] res. repeat split. Qed.

Lemma gridres_len : forall (s : space T) res, on_space (fun _ _ n _ _ m => steps2d_len n m) (fs_res s res) = (res * res)%nat.
Proof. intros [[[x0 x1] nx] [[y0 y1] ny]] res. reflexivity. Qed.

Lemma gridres_idempotent : forall (s : space T) r1 r2, fs_res (fs_res s r1) r2 = fs_res s r2.
Proof. intros [[[x0 x1] nx] [[y0 y1] ny]] r1 r2. reflexivity. Qed.

(* the constructors store their two axes in the order given (x first) *)
Lemma gridres_new : forall (xa xb : T) xn (ya yb : T) yn,
  sd_new xa xb xn ya yb yn = ((xa, xb, xn), (ya, yb, yn)) /\ steps2d_new xa xb xn ya yb yn = ((xa, xb, xn), (ya, yb, yn)) /\
  steps2d_ranges xa xb xn ya yb yn = ((xa, xb), (ya, yb)).
Proof. repeat split; reflexivity. Qed.
End Generic.

Arguments fs_res {T}.
Arguments sd_res {T}.
Arguments ws_res {T}.

(* ---------------------------------------------------------------- with the C14 grid theorems *)
(* the first and the last point of the re-sampled grid are the corners of the original ranges *)
Theorem gridres_corners : forall (s : space R) res, (1 <= res)%nat ->
  on_space (fun a b n c d m => steps2d_value Rops a b n c d m 0) (fs_res s res) = (ax_lo (fst s), ax_lo (snd s)) /\
  ((2 <= res)%nat ->
   on_space (fun a b n c d m => steps2d_value Rops a b n c d m (res * res - 1)) (fs_res s res) = (ax_hi (fst s), ax_hi (snd s))).
Proof.
  intros [[[x0 x1] nx] [[y0 y1] ny]] res H1.
  destruct (seq2d_corners x0 x1 res y0 y1 res H1 H1) as [A B]. split.
  - exact A.
  - intro H2. exact (B H2 H2).
Qed.

(* the re-sampled grid enumerates res * res points *)
Theorem gridres_seq_length : forall (s : space R) res, length (on_space (seq2d Rops) (fs_res s res)) = (res * res)%nat.
Proof.
  intros [[[x0 x1] nx] [[y0 y1] ny]] res. unfold on_space, fs_res, seq2d. cbn.
  rewrite map_length, seq_length. reflexivity.
Qed.

(* set_resolution commutes with the conversions of C14 (to_fs: wavelength -> frequency, to_ws: back, to_sd / of_sd: frequency <->
   sum/difference) *)
Theorem gridres_commutes_with_conversions : forall (s : space R) res,
  to_fs (ws_res s res) = fs_res (to_fs s) res /\
  to_ws (fs_res s res) = ws_res (to_ws s) res /\
  to_sd (fs_res s res) = sd_res (to_sd s) res /\
  of_sd (sd_res s res) = fs_res (of_sd s) res.
Proof. intros [[[x0 x1] nx] [[y0 y1] ny]] res. repeat split. Qed.

(* hence a frequency grid taken to sum/difference coordinates and back keeps the requested resolution *)
Corollary gridres_roundtrip_counts : forall (s : space R) res,
  ax_n (fst (of_sd (to_sd (fs_res s res)))) = res /\ ax_n (snd (of_sd (to_sd (fs_res s res)))) = res.
Proof. intros [[[x0 x1] nx] [[y0 y1] ny]] res. split; reflexivity. Qed.

(* the three representations: fs_res / sd_res / ws_res are, by definition, the three GENERATED set_resolution functions applied to the
   six components of a space (on_space); since the three generated functions coincide, so do they — and the grid statements hold for
   FrequencySpace, SumDiffFrequencySpace and WavelengthSpace alike *)
Lemma gridres_three_spaces : forall (T : Type) (s : space T) res, sd_res s res = fs_res s res /\ ws_res s res = fs_res s res.
Proof. intros T [[[x0 x1] nx] [[y0 y1] ny]] res. split; reflexivity. Qed.

Theorem gridres_grid_all : forall (s : space R) res,
  length (on_space (seq2d Rops) (fs_res s res)) = (res * res)%nat /\
  length (on_space (seq2d Rops) (sd_res s res)) = (res * res)%nat /\
  length (on_space (seq2d Rops) (ws_res s res)) = (res * res)%nat.
Proof.
  intros s res. destruct (gridres_three_spaces R s res) as [-> ->]. pose proof (gridres_seq_length s res). repeat split; assumption.
Qed.

Definition first_point (s : space R) : R * R := on_space (fun a b n c d m => steps2d_value Rops a b n c d m 0) s.
Definition last_point (s : space R) (res : nat) : R * R := on_space (fun a b n c d m => steps2d_value Rops a b n c d m (res * res - 1)) s.

Theorem gridres_corners_all : forall (s : space R) res, (1 <= res)%nat ->
  (first_point (fs_res s res) = (ax_lo (fst s), ax_lo (snd s)) /\ first_point (sd_res s res) = (ax_lo (fst s), ax_lo (snd s)) /\
   first_point (ws_res s res) = (ax_lo (fst s), ax_lo (snd s))) /\
  ((2 <= res)%nat ->
   last_point (fs_res s res) res = (ax_hi (fst s), ax_hi (snd s)) /\ last_point (sd_res s res) res = (ax_hi (fst s), ax_hi (snd s)) /\
   last_point (ws_res s res) res = (ax_hi (fst s), ax_hi (snd s))).
Proof.
  intros s res H1. destruct (gridres_three_spaces R s res) as [-> ->]. destruct (gridres_corners s res H1) as [A B]. split.
  - repeat split; exact A.
  - intro H2. repeat split; exact (B H2).
Qed.

(* an instance: 1500..1600 nm x 1500..1600 nm sampled 5 x 7, re-sampled at resolution 2: four points, corners kept *)
Lemma gridres_example :
  let s : space R := ((1500, 1600, 5%nat), (1500, 1600, 7%nat)) in
  (1 <= 2)%nat /\ (2 <= 2)%nat /\ fs_res s 2 = ((1500, 1600, 2%nat), (1500, 1600, 2%nat)) /\
  length (on_space (seq2d Rops) (sd_res s 2)) = 4%nat /\
  first_point (ws_res s 2) = (1500, 1500) /\ last_point (ws_res s 2) 2 = (1600, 1600).
Proof.
  intro s. destruct (gridres_grid_all s 2) as (_ & L & _). destruct (gridres_corners_all s 2 ltac:(lia)) as [(_ & _ & F) Lst].
  destruct (Lst ltac:(lia)) as (_ & _ & La).
  repeat split; try lia; assumption.
Qed.

Print Assumptions gridres_three_spaces.
Print Assumptions gridres_grid_all.
Print Assumptions gridres_corners_all.
Print Assumptions gridres_example.
Print Assumptions gridres_same.
Print Assumptions gridres_counts_ranges.
Print Assumptions gridres_len.
Print Assumptions gridres_idempotent.
Print Assumptions gridres_new.
Print Assumptions gridres_corners.
Print Assumptions gridres_seq_length.
Print Assumptions gridres_commutes_with_conversions.
Print Assumptions gridres_roundtrip_counts.
