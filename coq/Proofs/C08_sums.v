(* C08: rates are non-negative sums; pointwise JSI <= singles on the grid  ==>  C <= Rs, C <= Ri  ==>  efficiencies in [0,1].
   The per-point functions are the GENERATED spectrum_jsi / spectrum_jsi_singles over the oracle integrals. *)
From Coq Require Import Reals Bool Lra List.
From SpdVerif Require Import Base.Rx Model.SpectrumSetup Gen.Spectrum Gen.Efficiencies Model.Spectrum
  Proofs.C07_defined Proofs.C08_efficiency.
Import ListNotations.
Local Open Scope R_scope.

Lemma grid_sum_nonneg f pts dw2 :
  0 <= dw2 -> (forall p, In p pts -> 0 <= f (fst p) (snd p)) -> 0 <= grid_sum f pts dw2.
Proof.
  intros Hd H. induction pts as [|p r IH]; cbn [grid_sum]; [lra|].
  assert (0 <= f (fst p) (snd p) * dw2) by (apply Rmult_le_pos; [apply H; left; reflexivity|assumption]).
  assert (0 <= grid_sum f r dw2) by (apply IH; intros q Hq; apply H; right; assumption). lra.
Qed.

Lemma grid_sum_le f g pts dw2 :
  0 <= dw2 -> (forall p, In p pts -> f (fst p) (snd p) <= g (fst p) (snd p)) -> grid_sum f pts dw2 <= grid_sum g pts dw2.
Proof.
  intros Hd H. induction pts as [|p r IH]; cbn [grid_sum]; [lra|].
  assert (f (fst p) (snd p) * dw2 <= g (fst p) (snd p) * dw2) by (apply Rmult_le_compat_r; [assumption|apply H; left; reflexivity]).
  assert (grid_sum f r dw2 <= grid_sum g r dw2) by (apply IH; intros q Hq; apply H; right; assumption). lra.
Qed.

(* rates are non-negative: a non-negative factor times a sum of non-negative terms *)
Lemma counts_nonneg corr pts dw2 s sw :
  0 <= corr -> 0 <= dw2 ->
  (forall p, In p pts -> 0 <= spectrum_jsi (fst p) (snd p) s /\ 0 <= spectrum_jsi_singles (fst p) (snd p) s
                         /\ 0 <= spectrum_jsi_singles (snd p) (fst p) sw) ->
  0 <= counts_coincidences corr pts dw2 s /\ 0 <= counts_singles_signal corr pts dw2 s /\ 0 <= counts_singles_idler corr pts dw2 sw.
Proof.
  intros Hc Hd H. unfold counts_coincidences, counts_singles_signal, counts_singles_idler.
  repeat split; apply Rmult_le_pos; try assumption; apply grid_sum_nonneg; try assumption; intros p Hp; apply (H p Hp).
Qed.

(* the pointwise spectra are non-negative for physical setups whose singles integral is non-negative (C07) *)
Lemma spectra_nonneg ws wi s :
  physical s -> (invalid_frequencies ws wi s = false -> indices_pos s ws wi) -> 0 <= pm_singles s ws wi ->
  0 <= spectrum_jsi ws wi s /\ 0 <= spectrum_jsi_singles ws wi s.
Proof. exact (spectrum_nonneg ws wi s). Qed.

(* conditional chain: pointwise order on the grid ==> ordered rates ==> efficiencies in [0,1].
   The hypothesis Hpt (coincidence intensity <= both singles intensities at every grid point) is validated by the oracle
   over the property's box, not proved: it is a statement about the two fibre-coupling integrals. *)
Lemma pointwise_implies_unit corr pts dw2 s sw :
  0 <= corr -> 0 <= dw2 ->
  (forall p, In p pts ->
     0 <= spectrum_jsi (fst p) (snd p) s /\
     spectrum_jsi (fst p) (snd p) s <= spectrum_jsi_singles (fst p) (snd p) s /\
     spectrum_jsi (fst p) (snd p) s <= spectrum_jsi_singles (snd p) (fst p) sw) ->
  let c := counts_coincidences corr pts dw2 s in
  let rs := counts_singles_signal corr pts dw2 s in
  let ri := counts_singles_idler corr pts dw2 sw in
  let e := efficiencies_from_counts c rs ri in
  0 <= c /\ c <= rs /\ c <= ri /\
  efficiencies_from_counts_defined c rs ri /\
  0 <= eff_signal e <= 1 /\ 0 <= eff_idler e <= 1 /\ 0 <= eff_symmetric e <= 1.
Proof.
  intros Hc Hd Hpt. cbn zeta.
  assert (H0 : 0 <= counts_coincidences corr pts dw2 s).
  { unfold counts_coincidences. apply Rmult_le_pos; [assumption|]. apply grid_sum_nonneg; [assumption|]. intros p Hp; apply (Hpt p Hp). }
  assert (H1 : counts_coincidences corr pts dw2 s <= counts_singles_signal corr pts dw2 s).
  { unfold counts_coincidences, counts_singles_signal. apply Rmult_le_compat_l; [assumption|].
    apply grid_sum_le; [assumption|]. intros p Hp; apply (Hpt p Hp). }
  assert (H2 : counts_coincidences corr pts dw2 s <= counts_singles_idler corr pts dw2 sw).
  { unfold counts_coincidences, counts_singles_idler. apply Rmult_le_compat_l; [assumption|].
    apply (grid_sum_le (fun ws wi => spectrum_jsi ws wi s) (fun ws wi => spectrum_jsi_singles wi ws sw)); [assumption|].
    intros p Hp; apply (Hpt p Hp). }
  split; [assumption|]. split; [assumption|]. split; [assumption|].
  split; [apply efficiencies_defined; lra|].
  apply efficiencies_in_unit; assumption.
Qed.

(* closed form of the two generated spectra on the support (also right when the raw value happens to be zero) *)
Lemma spectrum_on_support ws wi s :
  invalid_frequencies ws wi s = false -> threshold s <= pump_spectral_amplitude (ws + wi) s ->
  spectrum_jsi ws wi s = jsi_normalization ws wi s / 1 *
    ((pump_spectral_amplitude (ws + wi) s * pm_re s ws wi) ^ 2 + (pump_spectral_amplitude (ws + wi) s * pm_im s ws wi) ^ 2) /\
  spectrum_jsi_singles ws wi s = jsi_singles_normalization ws wi s / 1 * (pump_spectral_amplitude (ws + wi) s ^ 2 * pm_singles s ws wi).
Proof.
  intros Hi Ht. unfold spectrum_jsi, spectrum_jsi_singles, jsa_raw, jsi_singles_raw. rewrite Hi.
  destruct (bool_dec false true) as [F|_]; [discriminate F|].
  destruct (Rlt_dec _ (threshold s)) as [L|_]; [lra|]. cbn [fst snd].
  set (a := pump_spectral_amplitude (ws + wi) s). split.
  - destruct (bool_dec _ true) as [E|_]; [|unfold Rdiv; rewrite Rinv_1; ring].
    apply andb_true_iff in E. destruct E as [E1 E2].
    destruct (Req_EM_T (a * (pm_re s ws wi / 1)) 0) as [Z1|]; [|discriminate E1].
    destruct (Req_EM_T (a * (pm_im s ws wi / 1)) 0) as [Z2|]; [|discriminate E2].
    replace (a * pm_re s ws wi) with (a * (pm_re s ws wi / 1)) by (unfold Rdiv; rewrite Rinv_1; ring).
    replace (a * pm_im s ws wi) with (a * (pm_im s ws wi / 1)) by (unfold Rdiv; rewrite Rinv_1; ring).
    rewrite Z1, Z2. ring.
  - destruct (Req_EM_T _ 0) as [Z|_]; [|unfold Rdiv; rewrite Rinv_1; ring].
    replace (a ^ 2 * pm_singles s ws wi) with (a ^ 2 * (pm_singles s ws wi / 1)) by (unfold Rdiv; rewrite Rinv_1; ring).
    rewrite Z. ring.
Qed.

(* structure of the ratio the no-diffraction clause is about: on the support the envelope, the pump power, deff and every
   common constant cancel; what remains is sec(theta_i) · Wi² · |pm|² / pm_singles *)
Lemma ratio_structure ws wi s :
  invalid_frequencies ws wi s = false -> threshold s <= pump_spectral_amplitude (ws + wi) s ->
  common_norm ws wi s <> 0 -> cos (theta_s_e s / 1) <> 0 -> cos (theta_i_e s / 1) <> 0 -> wsx s * wsy s <> 0 -> pm_singles s ws wi <> 0 ->
  (pm_re s ws wi <> 0 \/ pm_im s ws wi <> 0) ->
  spectrum_jsi ws wi s / spectrum_jsi_singles ws wi s =
  (1 / cos (theta_i_e s / 1)) * (wix s * wiy s) * (pm_re s ws wi ^ 2 + pm_im s ws wi ^ 2) / pm_singles s ws wi.
Proof.
  intros Hi Ht Hn Hc Hci Hw Hs Hpm.
  assert (Hwx : wsx s <> 0) by (intros E; apply Hw; rewrite E; ring).
  assert (Hwy : wsy s <> 0) by (intros E; apply Hw; rewrite E; ring).
  assert (Ha : 0 < pump_spectral_amplitude (ws + wi) s) by (unfold pump_spectral_amplitude; apply exp_pos).
  unfold spectrum_jsi, spectrum_jsi_singles, jsa_raw, jsi_singles_raw. rewrite Hi.
  destruct (bool_dec false true) as [F|_]; [discriminate F|].
  destruct (Rlt_dec _ (threshold s)) as [L|_]; [lra|]. cbn [fst snd].
  set (a := pump_spectral_amplitude (ws + wi) s) in *.
  destruct (bool_dec _ true) as [E|_].
  - exfalso. apply andb_true_iff in E. destruct E as [E1 E2].
    destruct (Req_EM_T (a * (pm_re s ws wi / 1)) 0) as [Z1|]; [|discriminate E1].
    destruct (Req_EM_T (a * (pm_im s ws wi / 1)) 0) as [Z2|]; [|discriminate E2].
    apply Rmult_integral in Z1, Z2. unfold Rdiv in Z1, Z2. destruct Hpm; [destruct Z1|destruct Z2]; lra.
  - destruct (Req_EM_T _ 0) as [Z|_].
    + exfalso. apply Rmult_integral in Z. destruct Z as [Z|Z]; [assert (0 < a ^ 2) by (apply pow_lt; assumption); lra|].
      unfold Rdiv in Z. lra.
    + unfold jsi_normalization, jsi_singles_normalization. field. repeat split; try assumption; try lra.
Qed.
