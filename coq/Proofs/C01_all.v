(* Assembly of the per-crystal C01 lemmas into statements quantified over all built-in crystals,
   plus the metadata clauses (window, identifiers). *)
From Coq Require Import Reals List Lra String Bool.
From SpdVerif Require Import Base.Rx Spec.CrystalTypes Spec.Published Gen.Crystals Proofs.Sellmeier.
From SpdVerif Require Proofs.C01_BBO_1 Proofs.C01_KTP Proofs.C01_BiBO_1 Proofs.C01_LiNbO3_1 Proofs.C01_LiNb_MgO
  Proofs.C01_KDP_1 Proofs.C01_AgGaSe2_1 Proofs.C01_AgGaSe2_2 Proofs.C01_LiIO3_2 Proofs.C01_LiIO3_1 Proofs.C01_AgGaS2_1.
Import ListNotations.
Local Open Scope R_scope.

Lemma matches_published c ax l T : in_window c l -> temp_ok T -> n_of c ax l T = published c ax l T.
Proof.
  destruct c;
  [ apply C01_BBO_1.matches | apply C01_KTP.matches | apply C01_BiBO_1.matches | apply C01_LiNbO3_1.matches
  | apply C01_LiNb_MgO.matches | apply C01_KDP_1.matches | apply C01_AgGaSe2_1.matches | apply C01_AgGaSe2_2.matches
  | apply C01_LiIO3_2.matches | apply C01_LiIO3_1.matches | apply C01_AgGaS2_1.matches ].
Qed.

Lemma defined c ax l T : in_window c l -> temp_ok T -> sell_defined (pub_sell c ax l T) (l ^ 2).
Proof.
  destruct c;
  [ apply C01_BBO_1.defined | apply C01_KTP.defined | apply C01_BiBO_1.defined | apply C01_LiNbO3_1.defined
  | apply C01_LiNb_MgO.defined | apply C01_KDP_1.defined | apply C01_AgGaSe2_1.defined | apply C01_AgGaSe2_2.defined
  | apply C01_LiIO3_2.defined | apply C01_LiIO3_1.defined | apply C01_AgGaS2_1.defined ].
Qed.

Lemma bounds c ax l T : in_window c l -> temp_ok T -> 1 < n_of c ax l T < 4.
Proof.
  destruct c;
  [ apply C01_BBO_1.bounds | apply C01_KTP.bounds | apply C01_BiBO_1.bounds | apply C01_LiNbO3_1.bounds
  | apply C01_LiNb_MgO.bounds | apply C01_KDP_1.bounds | apply C01_AgGaSe2_1.bounds | apply C01_AgGaSe2_2.bounds
  | apply C01_LiIO3_2.bounds | apply C01_LiIO3_1.bounds | apply C01_AgGaS2_1.bounds ].
Qed.

Lemma decreasing c ax l1 l2 T :
  in_window c l1 -> in_window c l2 -> temp_ok T -> l1 < l2 -> n_of c ax l2 T < n_of c ax l1 T.
Proof.
  destruct c;
  [ apply C01_BBO_1.decreasing | apply C01_KTP.decreasing | apply C01_BiBO_1.decreasing | apply C01_LiNbO3_1.decreasing
  | apply C01_LiNb_MgO.decreasing | apply C01_KDP_1.decreasing | apply C01_AgGaSe2_1.decreasing
  | apply C01_AgGaSe2_2.decreasing | apply C01_LiIO3_2.decreasing | apply C01_LiIO3_1.decreasing
  | apply C01_AgGaS2_1.decreasing ].
Qed.

(* the optical class a META record declares, as a statement about three indices *)
Definition class_ok (a : OpticAxisType) (nx ny nz : R) : Prop :=
  match a with
  | NegativeUniaxial => nx = ny /\ nz < nx
  | PositiveUniaxial => nx = ny /\ nx < nz
  | PositiveBiaxial => nx < nz /\ ny < nz
  | NegativeBiaxial => True     (* the property states no index ordering for this class; no built-in crystal declares it *)
  end.

Lemma class c l T : in_window c l -> temp_ok T ->
  class_ok (meta_axis (get_meta c)) (n_of c AX l T) (n_of c AY l T) (n_of c AZ l T).
Proof.
  destruct c; cbn [get_meta meta_axis meta_BBO_1 meta_KTP meta_BiBO_1 meta_LiNbO3_1 meta_LiNb_MgO meta_KDP_1
                   meta_AgGaSe2_1 meta_AgGaSe2_2 meta_LiIO3_2 meta_LiIO3_1 meta_AgGaS2_1 class_ok];
  [ apply C01_BBO_1.class | apply C01_KTP.class | apply C01_BiBO_1.class | apply C01_LiNbO3_1.class
  | apply C01_LiNb_MgO.class | apply C01_KDP_1.class | apply C01_AgGaSe2_1.class | apply C01_AgGaSe2_2.class
  | apply C01_LiIO3_2.class | apply C01_LiIO3_1.class | apply C01_AgGaS2_1.class ].
Qed.

(* temperature behaviour: declared temperature-independent => constant; otherwise the published law *)
Definition linear_law (c : crystal) : bool :=
  match c with LiNb_MgO => false | _ => meta_temp_known (get_meta c) end.

Lemma temperature_independent c ax l T T' :
  meta_temp_known (get_meta c) = false -> in_window c l -> temp_ok T -> temp_ok T' -> n_of c ax l T = n_of c ax l T'.
Proof.
  destruct c; cbn; intros Hk; try discriminate Hk;
  [ apply C01_BiBO_1.temperature | apply C01_KDP_1.temperature | apply C01_LiIO3_2.temperature
  | apply C01_LiIO3_1.temperature ].
Qed.

Lemma temperature_linear c ax l T :
  linear_law c = true -> in_window c l -> temp_ok T -> n_of c ax l T = n_of c ax l 20 + pub_dn c ax * (T - 20).
Proof.
  destruct c; cbn; intros Hk; try discriminate Hk;
  [ apply C01_BBO_1.temperature | apply C01_KTP.temperature | apply C01_LiNbO3_1.temperature
  | apply C01_AgGaSe2_1.temperature | apply C01_AgGaSe2_2.temperature | apply C01_AgGaS2_1.temperature ].
Qed.

Lemma temperature_reference_MgO ax l :
  in_window LiNb_MgO l -> n_of LiNb_MgO ax l 24.5 = sqrt (sell_eval (C01_LiNb_MgO.ref_sell ax) (l ^ 2)).
Proof. apply C01_LiNb_MgO.temperature. Qed.

(* every crystal is either declared temperature independent, or linear, or LiNb_MgO (published law of Gayer et al.) *)
Lemma temperature_cases c : meta_temp_known (get_meta c) = false \/ linear_law c = true \/ c = LiNb_MgO.
Proof. destruct c; cbn; auto. Qed.

(* --- metadata *)
Definition window_ok (m : crystal_meta) : Prop :=
  exists lo hi, meta_range m = Some (lo, hi) /\ optical_lo <= lo /\ lo < hi /\ hi <= optical_hi.

Lemma window c : window_ok (get_meta c).
Proof.
  unfold window_ok, optical_lo, optical_hi.
  destruct c; cbn; eexists; eexists; (split; [reflexivity | lra]).
Qed.

Lemma id_roundtrip c : from_string (to_string c) = Some c.
Proof. destruct c; vm_compute; reflexivity. Qed.

Lemma meta_roundtrip c : option_map get_meta (from_string (meta_id (get_meta c))) = Some (get_meta c).
Proof. fold (to_string c). rewrite id_roundtrip. reflexivity. Qed.

Lemma from_string_inj s c : from_string s = Some c -> s = to_string c.
Proof.
  unfold from_string.
  repeat match goal with
  | |- (if String.eqb s ?lit then _ else _) = _ -> _ =>
      destruct (String.eqb_spec s lit) as [->|_]; [intros [= <-]; reflexivity|]
  end.
  discriminate.
Qed.

Lemma ids_unique : NoDup (map to_string all_crystals).
Proof.
  assert (H : forall a b, to_string a = to_string b -> a = b).
  { intros a b E. pose proof (id_roundtrip a) as Ha. rewrite E, id_roundtrip in Ha. congruence. }
  assert (N : NoDup all_crystals).
  { unfold all_crystals. repeat (constructor; [simpl; intuition discriminate|]). constructor. }
  revert N. generalize all_crystals. induction l as [|a l IH]; simpl; intros N; [constructor|].
  inversion N as [|? ? Hn Hl]; subst. constructor; [|auto].
  intros Hin. apply in_map_iff in Hin as (b & Hb & Hin). apply H in Hb. subst. contradiction.
Qed.

(* the public list of metadata is the metadata of every built-in crystal, once each *)
Lemma all_meta_listed : forall c, In (get_meta c) get_all_meta.
Proof. destruct c; cbn; tauto. Qed.

Lemma all_meta_length : List.length get_all_meta = List.length all_crystals.
Proof. reflexivity. Qed.
