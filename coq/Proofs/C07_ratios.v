(* C07: the ratio quantities (HOM rate / visibility, two-source HOM rates, Schmidt number) of the GENERATED definitions of
   src/spdc/hom.rs and src/math/schmidt.rs (Gen/HomSrc.v, Gen/SchmidtSrc.v, grpF) do not depend on pump power / deff:
   composed with the generated amplitude  J s = fun ws wi => spectrum_jsa ws wi s  of Gen/Spectrum.v, for which
   J (scale_setup a b s) = (sqrt a |b|) · J s  (C07_amplitude_scales). *)
From Coq Require Import Reals Lra Lia Arith List FunctionalExtensionality.
From SpdVerif Require Import Base.Rx Model.SpectrumSetup Gen.Spectrum Model.Spectrum Proofs.C07_scaling Proofs.C07_defined.
From SpdVerif Require Import Model.FinSum Model.Hom Model.Hom2 Model.Schmidt Proofs.FinSum_lemmas Proofs.Cx_lemmas Proofs.C09_range
  Proofs.CMat Proofs.C10_sums Proofs.C10_svd Proofs.C10_expand Proofs.C10_scale Gen.HomSrc Proofs.C09_src Proofs.C10_src
  Gen.SchmidtSrc Proofs.C11_svd Proofs.C11_families.
Local Open Scope R_scope.

(* ---- the generated amplitude as a two-argument complex function, and its scaling law *)
Definition jsa_fun (s : setup) : R -> R -> cx R := fun ws wi => spectrum_jsa ws wi s.

Lemma cscale_cmul c (z : cx R) : cscale c z = cmul ROps (c, 0) z.
Proof. destruct z as [x y]. unfold cscale. cx_unfold. apply injective_projections; cbn [fst snd]; ring. Qed.

Definition amp_factor (a b : R) : cx R := (sqrt a * Rabs b, 0).

Lemma amp_factor_nonzero a b : 0 < a -> b <> 0 -> amp_factor a b <> (0, 0).
Proof.
  intros Ha Hb E. injection E as E. assert (0 < sqrt a) by (apply sqrt_lt_R0; assumption).
  assert (0 < Rabs b) by (apply Rabs_pos_lt; assumption). nra.
Qed.

(* the norm has to be non-negative only ON the support box (off it the amplitude is exactly zero on both sides): this is
   what physical setups with positive indices give (on_support_norm_nonneg), for every frequency pair *)
Definition norm_nonneg_on_support (s : setup) : Prop :=
  forall ws wi, invalid_frequencies ws wi s = false -> 0 <= jsi_normalization ws wi s.

Lemma spectrum_jsa_scale_box a b ws wi s :
  0 <= a -> norm_nonneg_on_support s ->
  spectrum_jsa ws wi (scale_setup a b s) = cscale (sqrt a * Rabs b) (spectrum_jsa ws wi s).
Proof.
  intros Ha Hn. destruct (invalid_frequencies ws wi s) eqn:Ei.
  - unfold spectrum_jsa. rewrite jsa_raw_scale. unfold jsa_raw. rewrite Ei.
    destruct (Bool.bool_dec true true) as [_|F]; [|exfalso; apply F; reflexivity]. cbn [fst snd].
    destruct (Req_EM_T 0 0) as [_|N]; [|exfalso; apply N; reflexivity]. cbn [andb].
    destruct (Bool.bool_dec true true) as [_|F]; [|exfalso; apply F; reflexivity]. unfold cscale. cbn [fst snd]. f_equal; ring.
  - apply spectrum_jsa_scale; [assumption|apply Hn; assumption].
Qed.

Lemma on_support_norm_nonneg s :
  Proofs.C07_defined.physical s -> (forall ws wi, Proofs.C07_defined.indices_pos s ws wi) -> norm_nonneg_on_support s.
Proof.
  intros Hph Hidx ws wi Hi.
  assert (Hpos : 0 < ws /\ 0 < wi).
  { revert Hi. unfold invalid_frequencies. rewrite !Bool.orb_false_iff. intros ((((A & B) & _) & _) & _).
    destruct (Rle_dec ws 0); [discriminate A|]. destruct (Rle_dec wi 0); [discriminate B|]. lra. }
  destruct (Proofs.C07_defined.normalization_defined_pos ws wi s Hph (proj1 Hpos) (proj2 Hpos) (Hidx ws wi)) as (_ & Q & _). lra.
Qed.

Lemma jsa_fun_scale a b s :
  0 <= a -> norm_nonneg_on_support s ->
  jsa_fun (scale_setup a b s) = fun ws wi => cmul ROps (amp_factor a b) (jsa_fun s ws wi).
Proof.
  intros Ha Hn. apply functional_extensionality; intros ws. apply functional_extensionality; intros wi.
  unfold jsa_fun, amp_factor. rewrite spectrum_jsa_scale_box by assumption. apply cscale_cmul.
Qed.

(* ---- single-source HOM: rate, rate series, visibility of the generated definitions *)
Lemma hom_term_scale (c f h u : cx R) : hom_term ROps (cmul ROps c f) (cmul ROps c h) u = cnorm2 ROps c * hom_term ROps f h u.
Proof. unfold hom_term. cx_destruct. cx_unfold. ring. Qed.

Lemma cnorm2_nonzero (c : cx R) : c <> (0, 0) -> cnorm2 ROps c <> 0.
Proof. intros Hc H0. apply Hc. destruct c as [x y]. cx_unfold. assert (x = 0) by nra. assert (y = 0) by nra. subst. reflexivity. Qed.

Lemma hom_rate_scale c g f gs tau :
  c <> (0, 0) -> jsi_norm ROps (grid_len g) f <> 0 ->
  hom_rate g (fun k => cmul ROps c (f k)) (fun k => cmul ROps c (gs k)) tau None = hom_rate g f gs tau None.
Proof.
  intros Hc HN. pose proof (cnorm2_nonzero c Hc) as Hc2. unfold hom_rate, hom_rate_gen.
  rewrite !hom_sum_rsum, !jsi_norm_rsum.
  rewrite (rsum_ext _ (fun k => hom_term ROps (cmul ROps c (f k)) (cmul ROps c (gs k)) (hom_phase g tau k))
                      (fun k => cnorm2 ROps c * hom_term ROps (f k) (gs k) (hom_phase g tau k))) by (intros; apply hom_term_scale).
  rewrite (rsum_ext _ (fun k => cnorm2 ROps (cmul ROps c (f k))) (fun k => cnorm2 ROps c * cnorm2 ROps (f k))) by (intros; apply cnorm2_cmul).
  rewrite !rsum_scal_l. rewrite jsi_norm_rsum in HN. cbn [omul ohalf osub odiv o1 otwo oadd ROps]. field. split; assumption.
Qed.

Lemma hom_rate_series_scale c g f gs taus :
  c <> (0, 0) -> jsi_norm ROps (grid_len g) f <> 0 ->
  hom_rate_series g (fun k => cmul ROps c (f k)) (fun k => cmul ROps c (gs k)) taus = hom_rate_series g f gs taus.
Proof.
  intros Hc HN. pose proof (cnorm2_nonzero c Hc) as Hc2. unfold hom_rate_series. apply map_ext; intros tau.
  unfold hom_rate, hom_rate_gen. rewrite !hom_sum_rsum, !jsi_norm_rsum.
  rewrite (rsum_ext _ (fun k => hom_term ROps (cmul ROps c (f k)) (cmul ROps c (gs k)) (hom_phase g tau k))
                      (fun k => cnorm2 ROps c * hom_term ROps (f k) (gs k) (hom_phase g tau k))) by (intros; apply hom_term_scale).
  rewrite (rsum_ext _ (fun k => cnorm2 ROps (cmul ROps c (f k))) (fun k => cnorm2 ROps c * cnorm2 ROps (f k))) by (intros; apply cnorm2_cmul).
  rewrite !rsum_scal_l. rewrite jsi_norm_rsum in HN. cbn [omul ohalf osub odiv o1 otwo oadd ROps]. field. split; assumption.
Qed.

(* the generated wrappers of a setup (src_setup_hom_rate_series = SPDC::hom_rate_series, src_hom_visibility), composed with
   the generated spectrum: independent of pump power and deff *)
Theorem generated_hom_power_deff_invariant a b s g taus dt :
  0 < a -> b <> 0 -> norm_nonneg_on_support s ->
  jsi_norm ROps (grid_len g) (tabulate (jsa_fun s) g) <> 0 ->
  src_setup_hom_rate_series (jsa_fun (scale_setup a b s)) g taus = src_setup_hom_rate_series (jsa_fun s) g taus /\
  src_hom_visibility (jsa_fun (scale_setup a b s)) g dt = src_hom_visibility (jsa_fun s) g dt.
Proof.
  intros Ha Hb Hn HN. rewrite !src_setup_hom_rate_series_eq, !src_hom_visibility_eq.
  rewrite jsa_fun_scale by (try lra; assumption).
  pose proof (amp_factor_nonzero a b Ha Hb) as Hc.
  unfold setup_hom_rate_series, setup_hom_visibility, tabulate, swap_args. split.
  - apply (hom_rate_series_scale (amp_factor a b) g (fun k => jsa_fun s (grid_ws ROps g k) (grid_wi ROps g k))
             (fun k => jsa_fun s (grid_wi ROps g k) (grid_ws ROps g k)) taus Hc HN).
  - f_equal. f_equal.
    apply (hom_rate_scale (amp_factor a b) g (fun k => jsa_fun s (grid_ws ROps g k) (grid_wi ROps g k))
             (fun k => jsa_fun s (grid_wi ROps g k) (grid_ws ROps g k)) dt Hc HN).
Qed.

(* ---- two-source HOM: the two sources scaled INDEPENDENTLY *)
Definition scale_first (c : cx R) (A : ts_arrays R) : ts_arrays R :=
  mkTs (fun k => c *c first_s1_i1 A k) (second_s2_i2 A) (fun k => c *c first_s2_i1 A k) (second_s1_i2 A)
       (fun k => c *c first_s1_i2 A k) (second_s2_i1 A) (fun k => c *c first_i2_i1 A k) (second_s2_s1 A).

Lemma mul_scale_l (c x y : cx R) : (c *c x) *c y = c *c (x *c y).
Proof. cx_ring. Qed.

Lemma ts_rate_scale_first c n A b b' u :
  c <> (0, 0) -> (forall i j, b' i j = c *c b i j) ->
  jsi_norm ROps (n * n) (first_s1_i1 A) * jsi_norm ROps (n * n) (second_s2_i2 A) <> 0 ->
  ts_rate ROps n (scale_first c A) b' u = ts_rate ROps n A b u.
Proof.
  intros Hc Hb HN. rewrite !ts_rate_unfold. pose proof (cnorm2_nonzero c Hc) as Hc2.
  assert (ES : ts_sum n (scale_first c A) b' u = cnorm2 ROps c * ts_sum n A b u).
  { unfold ts_sum. rewrite <- rsum_scal_l. apply rsum_ext; intros i _. rewrite <- rsum_scal_l. apply rsum_ext; intros j _.
    rewrite Hb. unfold ts_a, scale_first. cbn [first_s1_i1 second_s2_i2]. rewrite mul_scale_l. apply ts_term_scale. }
  assert (EN : jsi_norm ROps (n * n) (first_s1_i1 (scale_first c A)) = cnorm2 ROps c * jsi_norm ROps (n * n) (first_s1_i1 A)).
  { rewrite !jsi_norm_rsum, <- rsum_scal_l. apply rsum_ext; intros k _. unfold scale_first. cbn [first_s1_i1]. apply cnorm2_cmul. }
  rewrite ES, EN. change (second_s2_i2 (scale_first c A)) with (second_s2_i2 A).
  assert (H1 : jsi_norm ROps (n * n) (first_s1_i1 A) <> 0) by (intros H0; apply HN; rewrite H0; ring).
  assert (H2 : jsi_norm ROps (n * n) (second_s2_i2 A) <> 0) by (intros H0; apply HN; rewrite H0; ring).
  field. repeat split; assumption.
Qed.

Lemma ts_rates_scale_first c n A u_ss u_ii u_si :
  c <> (0, 0) ->
  jsi_norm ROps (n * n) (first_s1_i1 A) * jsi_norm ROps (n * n) (second_s2_i2 A) <> 0 ->
  ts_rate_ss ROps n (scale_first c A) u_ss = ts_rate_ss ROps n A u_ss /\
  ts_rate_ii ROps n (scale_first c A) u_ii = ts_rate_ii ROps n A u_ii /\
  ts_rate_si ROps n (scale_first c A) u_si = ts_rate_si ROps n A u_si.
Proof.
  intros Hc HN. unfold ts_rate_ss, ts_rate_ii, ts_rate_si. repeat split; apply ts_rate_scale_first; try assumption; intros i j.
  - unfold ts_b_ss, scale_first. cbn [first_s2_i1 second_s1_i2]. destruct (get_2d_indices i n), (get_2d_indices j n). apply mul_scale_l.
  - unfold ts_b_ii, scale_first. cbn [first_s1_i2 second_s2_i1]. destruct (get_2d_indices i n), (get_2d_indices j n). apply mul_scale_l.
  - unfold ts_b_si, scale_first. cbn [first_i2_i1 second_s2_s1]. destruct (get_2d_indices i n), (get_2d_indices j n). apply mul_scale_l.
Qed.

Theorem setup_ts_rates_independent_scaling J1 J2 c1 c2 ls1 li1 ls2 li2 n dt :
  c1 <> (0, 0) -> c2 <> (0, 0) ->
  jsi_norm ROps (n * n) (tabulate J1 (axes_grid ls1 li1 n)) * jsi_norm ROps (n * n) (tabulate J2 (axes_grid ls2 li2 n)) <> 0 ->
  setup_ts_rates (fun x y => c1 *c J1 x y) (fun x y => c2 *c J2 x y) ls1 li1 ls2 li2 n dt = setup_ts_rates J1 J2 ls1 li1 ls2 li2 n dt.
Proof.
  intros H1 H2 HN. unfold setup_ts_rates.
  change (ts_tabulate (fun x y => c1 *c J1 x y) (fun x y => c2 *c J2 x y) ls1 li1 ls2 li2 n)
    with (scale_first c1 (scale_second c2 (ts_tabulate J1 J2 ls1 li1 ls2 li2 n))).
  set (A := ts_tabulate J1 J2 ls1 li1 ls2 li2 n).
  assert (HNA : jsi_norm ROps (n * n) (first_s1_i1 A) * jsi_norm ROps (n * n) (second_s2_i2 A) <> 0) by exact HN.
  assert (HNB : jsi_norm ROps (n * n) (first_s1_i1 (scale_second c2 A)) * jsi_norm ROps (n * n) (second_s2_i2 (scale_second c2 A)) <> 0).
  { change (first_s1_i1 (scale_second c2 A)) with (first_s1_i1 A).
    assert (E : jsi_norm ROps (n * n) (second_s2_i2 (scale_second c2 A)) = cnorm2 ROps c2 * jsi_norm ROps (n * n) (second_s2_i2 A)).
    { rewrite !jsi_norm_rsum, <- rsum_scal_l. apply rsum_ext; intros k _. unfold scale_second. cbn [second_s2_i2]. apply cnorm2_cmul. }
    rewrite E. pose proof (cnorm2_nonzero c2 H2). intros H0.
    apply HNA. apply Rmult_integral in H0. destruct H0 as [H0|H0]; [rewrite H0; ring|].
    apply Rmult_integral in H0. destruct H0 as [H0|H0]; [contradiction|rewrite H0; ring]. }
  destruct (ts_rates_scale_first c1 n (scale_second c2 A) (ts_phase_ss (axes_grid ls1 li1 n) (axes_grid ls2 li2 n) dt)
              (ts_phase_ii (axes_grid ls1 li1 n) (axes_grid ls2 li2 n) dt) (ts_phase_si (axes_grid ls1 li1 n) (axes_grid ls2 li2 n) dt) H1 HNB) as (E1 & E2 & E3).
  destruct (ts_rates_brightness_invariant c2 n A (ts_phase_ss (axes_grid ls1 li1 n) (axes_grid ls2 li2 n) dt)
              (ts_phase_ii (axes_grid ls1 li1 n) (axes_grid ls2 li2 n) dt) (ts_phase_si (axes_grid ls1 li1 n) (axes_grid ls2 li2 n) dt) H2 HNA) as (F1 & F2 & F3).
  rewrite E1, E2, E3, F1, F2, F3. reflexivity.
Qed.

(* two setups s1, s2 (their amplitudes generated), power/deff of each scaled independently *)
Theorem two_source_power_deff_invariant a1 b1 a2 b2 s1 s2 ls1 li1 ls2 li2 n dt :
  0 < a1 -> b1 <> 0 -> 0 < a2 -> b2 <> 0 ->
  norm_nonneg_on_support s1 -> norm_nonneg_on_support s2 ->
  jsi_norm ROps (n * n) (tabulate (jsa_fun s1) (axes_grid ls1 li1 n)) * jsi_norm ROps (n * n) (tabulate (jsa_fun s2) (axes_grid ls2 li2 n)) <> 0 ->
  setup_ts_rates (jsa_fun (scale_setup a1 b1 s1)) (jsa_fun (scale_setup a2 b2 s2)) ls1 li1 ls2 li2 n dt
  = setup_ts_rates (jsa_fun s1) (jsa_fun s2) ls1 li1 ls2 li2 n dt.
Proof.
  intros Ha1 Hb1 Ha2 Hb2 Hn1 Hn2 HN. rewrite !jsa_fun_scale by (try lra; assumption).
  apply setup_ts_rates_independent_scaling; try assumption; apply amp_factor_nonzero; assumption.
Qed.

(* ---- Schmidt number of the generated amplitude on a grid (grpF: schmidt_K of the magnitude matrix; C11_scale) *)
Theorem schmidt_power_deff_invariant a b s g n :
  0 < a -> b <> 0 -> norm_nonneg_on_support s ->
  trG2 ROps n (mag_matrix n (src_jsa_range (jsa_fun s) g)) <> 0 ->
  schmidt_K ROps n (mag_matrix n (src_jsa_range (jsa_fun (scale_setup a b s)) g))
  = schmidt_K ROps n (mag_matrix n (src_jsa_range (jsa_fun s) g)).
Proof.
  intros Ha Hb Hn HT. rewrite jsa_fun_scale by (try lra; assumption).
  change (src_jsa_range (fun ws wi => cmul ROps (amp_factor a b) (jsa_fun s ws wi)) g)
    with (fun k => cmul ROps (amp_factor a b) (src_jsa_range (jsa_fun s) g k)).
  apply schmidt_complex_scale; [apply amp_factor_nonzero; assumption|exact HT].
Qed.
