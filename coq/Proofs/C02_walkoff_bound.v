(* C02 — the 1e-6 rad walk-off clause in real arithmetic: explicit bound on the third theta-derivative of the uniaxial
   index n(theta) = (a_o s_z^2 + a_e (1 - s_z^2))^(-1/2), s_z = -sin theta dx + cos theta dz, for 1 <= n_o, n_e <= 4,
   fed into the central-difference truncation theorem (Proofs/C02_gen.v, walkoff_gen_truncation). *)
From Coq Require Import Reals Lra Psatz Lia.
From Coquelicot Require Import Coquelicot.
From Interval Require Import Tactic.
From SpdVerif Require Import Model.Optics Model.Fresnel Gen.Fresnel Proofs.C02_fresnel Proofs.C02_index Proofs.C02_frame
  Proofs.C02_fd Proofs.C02_gen Proofs.C02_walkoff.
Local Open Scope R_scope.

Lemma Rabs_le_inv' x y : Rabs x <= y -> - y <= x <= y.
Proof. intros H. unfold Rabs in H. destruct (Rcase_abs x); lra. Qed.

(* ---- derivatives of w with w' = -1/2 w^3 u1 *)
Section Chain.
Variables w u1 u2 u3 : R -> R.
Hypothesis Hw : forall t, is_derive w t (- / 2 * w t ^ 3 * u1 t).
Hypothesis Hu1 : forall t, is_derive u1 t (u2 t).
Hypothesis Hu2 : forall t, is_derive u2 t (u3 t).

Definition d1 (t : R) : R := - / 2 * w t ^ 3 * u1 t.
Definition d2 (t : R) : R := 3 / 4 * w t ^ 5 * u1 t ^ 2 - / 2 * w t ^ 3 * u2 t.
Definition d3 (t : R) : R :=
  - (15 / 8) * w t ^ 7 * u1 t ^ 3 + 9 / 4 * w t ^ 5 * u1 t * u2 t - / 2 * w t ^ 3 * u3 t.

Lemma exw t : ex_derive w t. Proof. eexists; apply Hw. Qed.
Lemma exu1 t : ex_derive u1 t. Proof. eexists; apply Hu1. Qed.
Lemma exu2 t : ex_derive u2 t. Proof. eexists; apply Hu2. Qed.
Lemma Dw t : Derive w t = - / 2 * w t ^ 3 * u1 t. Proof. apply is_derive_unique, Hw. Qed.
Lemma Du1 t : Derive u1 t = u2 t. Proof. apply is_derive_unique, Hu1. Qed.
Lemma Du2 t : Derive u2 t = u3 t. Proof. apply is_derive_unique, Hu2. Qed.

Lemma d1_derive t : is_derive d1 t (d2 t).
Proof.
  unfold d1, d2. auto_derive.
  - split; [apply exw | split; [apply exu1 | trivial]].
  - change (Derive (fun x : R => w x) t) with (Derive w t). change (Derive (fun x : R => u1 x) t) with (Derive u1 t).
    rewrite Dw, Du1. field.
Qed.

Lemma d2_derive t : is_derive d2 t (d3 t).
Proof.
  unfold d2, d3. auto_derive.
  - repeat split; try apply exw; try apply exu1; try apply exu2.
  - change (Derive (fun x : R => w x) t) with (Derive w t). change (Derive (fun x : R => u1 x) t) with (Derive u1 t).
    change (Derive (fun x : R => u2 x) t) with (Derive u2 t). rewrite Dw, Du1, Du2. field.
Qed.

Lemma Dn1 t : Derive_n w 1 t = d1 t.
Proof. simpl. apply Dw. Qed.
Lemma Dn2 t : Derive_n w 2 t = d2 t.
Proof.
  change (Derive_n w 2 t) with (Derive (Derive_n w 1) t).
  rewrite (Derive_ext _ d1 t Dn1). apply is_derive_unique, d1_derive.
Qed.
Lemma Dn3 t : Derive_n w 3 t = d3 t.
Proof.
  change (Derive_n w 3 t) with (Derive (Derive_n w 2) t).
  rewrite (Derive_ext _ d2 t Dn2). apply is_derive_unique, d2_derive.
Qed.

Lemma smooth3 t k : (k <= 3)%nat -> ex_derive_n w k t.
Proof.
  intros Hk. destruct k as [| [| [| [| k]]]]; try lia.
  - exact I.
  - simpl. apply exw.
  - change (ex_derive (Derive_n w 1) t). apply (ex_derive_ext d1); [intros; symmetry; apply Dn1 |]. eexists; apply d1_derive.
  - change (ex_derive (Derive_n w 2) t). apply (ex_derive_ext d2); [intros; symmetry; apply Dn2 |]. eexists; apply d2_derive.
Qed.
End Chain.

(* ---- the uniaxial index along a beam (dx, _, dz), as a function of the crystal angle *)
Section Uniaxial.
Variables no ne dx dz : R.
Hypothesis Hno : 1 <= no <= 4.
Hypothesis Hne : 1 <= ne <= 4.
Hypothesis Hd : dx * dx + dz * dz <= 1.

Let ao := inv2 no.
Let ae := inv2 ne.
Let sz (t : R) : R := sz_of dx dz t.
Let sp (t : R) : R := - cos t * dx - sin t * dz.
Definition uu1 (t : R) : R := (ao - ae) * (2 * sz t * sp t).
Definition uu2 (t : R) : R := (ao - ae) * (2 * (sp t ^ 2 - sz t ^ 2)).
Definition uu3 (t : R) : R := (ao - ae) * (- 8 * (sz t * sp t)).

Lemma no_pos : 0 < no. Proof. lra. Qed.
Lemma ne_pos : 0 < ne. Proof. lra. Qed.

Lemma inv2_range n : 1 <= n <= 4 -> / 16 <= inv2 n <= 1.
Proof.
  intros [H1 H4]. unfold inv2. split.
  - replace (/ 16) with (/ (4 ^ 2)) by (simpl; field). apply Rinv_le_contravar; [simpl; nra | simpl; nra].
  - rewrite <- Rinv_1 at 1. apply Rinv_le_contravar; [lra | simpl; nra].
Qed.

Lemma ao_range : / 16 <= ao <= 1. Proof. apply inv2_range, Hno. Qed.
Lemma ae_range : / 16 <= ae <= 1. Proof. apply inv2_range, Hne. Qed.

Lemma sz_sp_circle t : sz t ^ 2 + sp t ^ 2 = dx * dx + dz * dz.
Proof. unfold sz, sp, sz_of. pose proof (sc2 t). nra. Qed.

Lemma w_derive t : is_derive (n_of no ne dx dz) t (- / 2 * n_of no ne dx dz t ^ 3 * uu1 t).
Proof. apply (n_of_derive no ne no_pos ne_pos dx dz t Hd). Qed.

Lemma uu1_derive t : is_derive uu1 t (uu2 t).
Proof. unfold uu1, uu2, sz, sp, sz_of. auto_derive; [trivial | ring]. Qed.

Lemma uu2_derive t : is_derive uu2 t (uu3 t).
Proof. unfold uu2, uu3, sz, sp, sz_of. auto_derive; [trivial | ring]. Qed.

(* ranges *)
Lemma w_range t : 1 <= n_of no ne dx dz t <= 4.
Proof.
  pose proof ao_range as [Ha1 Ha2]. pose proof ae_range as [Hb1 Hb2].
  pose proof (sz_of_bound dx dz t Hd) as Hs. pose proof (pow2_ge_0 (sz_of dx dz t)) as Hs0.
  unfold n_of, y_of, y_uniaxial. fold ao ae.
  set (c2 := sz_of dx dz t ^ 2) in *.
  set (y := c2 * ao + (1 - c2) * ae).
  assert (Hy : / 16 <= y <= 1) by (unfold y; split; nra).
  assert (Hsq : / 4 <= sqrt y <= 1).
  { split.
    - replace (/ 4) with (sqrt (/ 16)).
      + apply sqrt_le_1_alt. lra.
      + replace (/ 16) with (/ 4 * / 4) by field. apply sqrt_square. lra.
    - rewrite <- sqrt_1. apply sqrt_le_1_alt. lra. }
  split.
  - apply Rmult_le_reg_r with (sqrt y); [lra |]. unfold Rdiv. rewrite Rmult_assoc, Rinv_l by lra. lra.
  - apply Rmult_le_reg_r with (sqrt y); [lra |]. unfold Rdiv. rewrite Rmult_assoc, Rinv_l by lra. lra.
Qed.

Lemma uu_ranges t :
  Rabs (uu1 t) <= 15 / 16 /\ Rabs (uu2 t) <= 15 / 8 /\ Rabs (uu3 t) <= 15 / 4.
Proof.
  pose proof ao_range as [Ha1 Ha2]. pose proof ae_range as [Hb1 Hb2].
  pose proof (sz_sp_circle t) as Hc. pose proof (pow2_ge_0 (sz t)). pose proof (pow2_ge_0 (sp t)).
  assert (Hprod : - / 2 <= sz t * sp t <= / 2).
  { pose proof (pow2_ge_0 (sz t - sp t)). pose proof (pow2_ge_0 (sz t + sp t)). split; nra. }
  assert (Hdiff : -1 <= sp t ^ 2 - sz t ^ 2 <= 1) by lra.
  assert (Hab : - (15 / 16) <= ao - ae <= 15 / 16) by lra.
  unfold uu1, uu2, uu3. repeat split; apply Rabs_le; split; nra.
Qed.

(* |n'''| <= 29500 everywhere *)
Theorem third_derivative_bound t : Rabs (Derive_n (n_of no ne dx dz) 3 t) <= 29500.
Proof.
  rewrite (Dn3 _ uu1 uu2 uu3 w_derive uu1_derive uu2_derive t). unfold d3.
  pose proof (w_range t) as Hw. destruct (uu_ranges t) as (H1 & H2 & H3).
  apply Rabs_le_inv' in H1. apply Rabs_le_inv' in H2. apply Rabs_le_inv' in H3.
  generalize dependent (n_of no ne dx dz t). generalize dependent (uu1 t). generalize dependent (uu2 t). generalize dependent (uu3 t).
  intros c Hc b Hb a Ha x Hx. interval.
Qed.

Lemma smooth t k : (k <= 3)%nat -> ex_derive_n (n_of no ne dx dz) k t.
Proof. apply (smooth3 _ uu1 uu2 uu3 w_derive uu1_derive uu2_derive). Qed.

(* the code's central-difference walk-off against the exact one *)
Theorem walkoff_code_vs_exact theta : Rabs theta <= PI / 2 ->
  Rabs (walkoff_gen (n_of no ne dx dz) theta - walkoff_exact (n_of no ne dx dz) theta) <= 1e-6.
Proof.
  intros Hth.
  pose proof (w_range theta) as [Hw1 Hw4].
  pose proof (walkoff_gen_truncation (n_of no ne dx dz) theta 29500 ltac:(lra) smooth third_derivative_bound) as H.
  eapply Rle_trans; [exact H |].
  pose proof cbrt_eps_pos as Hp.
  assert (Hm : Rmax (Rabs theta) 1 <= PI / 2) by (apply Rmax_lub; [exact Hth | pose proof PI2_1; lra]).
  assert (Hm0 : 0 < Rmax (Rabs theta) 1) by (eapply Rlt_le_trans; [| apply Rmax_r]; lra).
  set (hm := Rpower eps64 (1 / 3) * Rmax (Rabs theta) 1) in *.
  assert (Hhm0 : 0 < hm) by (unfold hm; apply Rmult_lt_0_compat; assumption).
  assert (Hhmax : hm <= 9.52e-6).
  { apply Rle_trans with (Rpower eps64 (1 / 3) * (PI / 2)).
    - unfold hm. apply Rmult_le_compat_l; [lra | exact Hm].
    - unfold Rpower, eps64. interval. }
  assert (hm ^ 2 <= 9.52e-6 ^ 2) by (apply pow_incr; lra).
  apply Rle_trans with (29500 * 9.52e-6 ^ 2 / 6).
  - unfold Rdiv. apply Rmult_le_compat; try lra.
    + apply Rmult_le_pos; [lra | apply pow2_ge_0].
    + left. apply Rinv_0_lt_compat. lra.
    + apply Rinv_le_contravar; lra.
  - lra.
Qed.

(* ---- crystal angles up to 180 deg (the property measures 12..90 deg between optic axis and BEAM: a crystal angle of 143 deg with a
   pump along z is 37 deg from the axis).  The step eps^(1/3)|theta| doubles, so the crude bound above gives 1.8e-6; with
   |1/no^2 - 1/ne^2| <= 0.7 (any pair of indices >= 1.2; every built-in crystal) the third derivative is below 12900 and 1e-6 holds *)
Hypothesis Hdl : Rabs (ao - ae) <= 0.7.

Lemma uu_ranges_wide t :
  Rabs (uu1 t) <= 0.7 /\ Rabs (uu2 t) <= 1.4 /\ Rabs (uu3 t) <= 2.8.
Proof.
  pose proof (sz_sp_circle t) as Hc. pose proof (pow2_ge_0 (sz t)). pose proof (pow2_ge_0 (sp t)).
  assert (Hprod : - / 2 <= sz t * sp t <= / 2).
  { pose proof (pow2_ge_0 (sz t - sp t)). pose proof (pow2_ge_0 (sz t + sp t)). split; nra. }
  assert (Hdiff : -1 <= sp t ^ 2 - sz t ^ 2 <= 1) by lra.
  pose proof (Rabs_le_inv' _ _ Hdl) as Hab.
  unfold uu1, uu2, uu3. repeat split; apply Rabs_le; split; nra.
Qed.

Theorem third_derivative_bound_wide t : Rabs (Derive_n (n_of no ne dx dz) 3 t) <= 12900.
Proof.
  rewrite (Dn3 _ uu1 uu2 uu3 w_derive uu1_derive uu2_derive t). unfold d3.
  pose proof (w_range t) as Hw. destruct (uu_ranges_wide t) as (H1 & H2 & H3).
  apply Rabs_le_inv' in H1. apply Rabs_le_inv' in H2. apply Rabs_le_inv' in H3.
  generalize dependent (n_of no ne dx dz t). generalize dependent (uu1 t). generalize dependent (uu2 t). generalize dependent (uu3 t).
  intros c Hc b Hb a Ha x Hx. interval.
Qed.

Theorem walkoff_code_vs_exact_wide theta : Rabs theta <= PI ->
  Rabs (walkoff_gen (n_of no ne dx dz) theta - walkoff_exact (n_of no ne dx dz) theta) <= 1e-6.
Proof.
  intros Hth.
  pose proof (w_range theta) as [Hw1 Hw4].
  pose proof (walkoff_gen_truncation (n_of no ne dx dz) theta 12900 ltac:(lra) smooth third_derivative_bound_wide) as H.
  eapply Rle_trans; [exact H |].
  pose proof cbrt_eps_pos as Hp.
  assert (Hm : Rmax (Rabs theta) 1 <= PI) by (apply Rmax_lub; [exact Hth | pose proof PI2_1; pose proof PI_RGT_0; lra]).
  assert (Hm0 : 0 < Rmax (Rabs theta) 1) by (eapply Rlt_le_trans; [| apply Rmax_r]; lra).
  set (hm := Rpower eps64 (1 / 3) * Rmax (Rabs theta) 1) in *.
  assert (Hhm0 : 0 < hm) by (unfold hm; apply Rmult_lt_0_compat; assumption).
  assert (Hhmax : hm <= 1.9025e-5).
  { apply Rle_trans with (Rpower eps64 (1 / 3) * PI).
    - unfold hm. apply Rmult_le_compat_l; [lra | exact Hm].
    - unfold Rpower, eps64. interval. }
  assert (hm ^ 2 <= 1.9025e-5 ^ 2) by (apply pow_incr; lra).
  apply Rle_trans with (12900 * 1.9025e-5 ^ 2 / 6).
  - unfold Rdiv. apply Rmult_le_compat; try lra.
    + apply Rmult_le_pos; [lra | apply pow2_ge_0].
    + left. apply Rinv_0_lt_compat. lra.
    + apply Rinv_le_contravar; lra.
  - lra.
Qed.
End Uniaxial.

(* ---- the statement on the generated index_along, any unit beam direction *)
Definition direction_dependent (no ne : R) (p : polarization) : Prop :=
  (ne <= no /\ p = Extraordinary) \/ (no <= ne /\ p = Ordinary).
Definition direction_independent (no ne : R) (p : polarization) : Prop :=
  (ne <= no /\ p = Ordinary) \/ (no <= ne /\ p = Extraordinary).

Lemma index_along_gen_uniaxial no ne phi d p t :
  0 < no -> 0 < ne -> unit_vec d ->
  (direction_dependent no ne p -> index_along_gen t phi no no ne d p = n_of no ne (vx d) (vz d) t) /\
  (direction_independent no ne p -> index_along_gen t phi no no ne d p = no).
Proof.
  intros Hno Hne Hd. rewrite index_along_is_model by assumption. unfold index_model. cbv zeta.
  pose proof (unit_vec_components _ (crystal_frame_unit t phi d Hd)) as Hu.
  destruct (uniaxial_closed_form_sz no ne _ _ _ Hno Hne Hu) as [Hneg Hpos].
  assert (Hdep : 1 / sqrt (y_uniaxial (inv2 no) (inv2 ne) (vz (crystal_frame t phi d) * vz (crystal_frame t phi d))) =
                 n_of no ne (vx d) (vz d) t).
  { unfold n_of, y_of. rewrite crystal_frame_z. unfold sz_of. f_equal. f_equal. f_equal. ring. }
  split; intros [[Ho ->] | [Ho ->]].
  - rewrite (proj2 (Hneg Ho)). exact Hdep.
  - rewrite (proj1 (Hpos Ho)). exact Hdep.
  - apply (proj1 (Hneg Ho)).
  - apply (proj2 (Hpos Ho)).
Qed.

Lemma walkoff_exact_n_of no ne d theta :
  0 < no -> 0 < ne -> unit_vec d ->
  walkoff_exact (n_of no ne (vx d) (vz d)) theta = walkoff_uniaxial_general no ne d theta.
Proof.
  intros Hno Hne Hd.
  assert (Hdxz : vx d * vx d + vz d * vz d <= 1).
  { pose proof (unit_vec_components d Hd). pose proof (sq_nonneg (vy d)). lra. }
  unfold walkoff_exact, walkoff_uniaxial_general. cbv zeta.
  rewrite (walkoff_general no ne Hno Hne (vx d) (vz d) theta Hdxz). unfold n_of, y_of, sz_of. reflexivity.
Qed.

Lemma walkoff_general_pump no ne theta : walkoff_uniaxial_general no ne (0, 0, 1) theta = walkoff_uniaxial_closed no ne theta.
Proof.
  unfold walkoff_uniaxial_general, walkoff_uniaxial_closed, n_uniaxial, vx, vz; cbn [fst snd]. cbv zeta.
  replace (- sin theta * 0 + cos theta * 1) with (cos theta) by ring. rewrite sin_2a. f_equal. ring.
Qed.

Lemma walkoff_gen_const c theta : c <> 0 -> walkoff_gen (fun _ => c) theta = 0.
Proof.
  intros Hc. destruct (walkoff_gen_unfold (fun _ => c) theta) as (h & [Hh _] & E). rewrite E.
  replace (- ((c - c) / (2 * h)) / c) with 0 by (field; split; lra). apply atan_0.
Qed.

(* THE CLAUSE, in real arithmetic: for every uniaxial medium with 1 <= n_o, n_e <= 4, every crystal azimuth, every unit beam
   direction and every crystal angle |theta| <= 90 deg, the walk-off the code computes (central difference with its own
   step eps^(1/3)|theta|, evaluated exactly) is within 1e-6 rad of the closed form for the direction-dependent polarization
   and exactly 0 for the other one. *)
Theorem walkoff_1e6_real no ne phi d theta p :
  1 <= no <= 4 -> 1 <= ne <= 4 -> unit_vec d -> Rabs theta <= PI / 2 ->
  (direction_dependent no ne p ->
     Rabs (walkoff_gen (fun t => index_along_gen t phi no no ne d p) theta - walkoff_uniaxial_general no ne d theta) <= 1e-6) /\
  (direction_independent no ne p ->
     walkoff_gen (fun t => index_along_gen t phi no no ne d p) theta = 0).
Proof.
  intros Hno Hne Hd Hth.
  assert (Pno : 0 < no) by lra. assert (Pne : 0 < ne) by lra.
  assert (Hdxz : vx d * vx d + vz d * vz d <= 1).
  { pose proof (unit_vec_components d Hd). pose proof (sq_nonneg (vy d)). lra. }
  split; intros Hp.
  - rewrite (walkoff_gen_ext _ (n_of no ne (vx d) (vz d)) theta)
      by (intros t; apply (proj1 (index_along_gen_uniaxial no ne phi d p t Pno Pne Hd) Hp)).
    rewrite <- (walkoff_exact_n_of no ne d theta Pno Pne Hd).
    apply walkoff_code_vs_exact; assumption.
  - rewrite (walkoff_gen_ext _ (fun _ => no) theta)
      by (intros t; apply (proj2 (index_along_gen_uniaxial no ne phi d p t Pno Pne Hd) Hp)).
    apply walkoff_gen_const. lra.
Qed.

(* pump along lab z: the property's formula atan(1/2 n^2 (1/ne^2 - 1/no^2) sin 2 theta) *)
Corollary walkoff_1e6_real_pump no ne phi theta p :
  1 <= no <= 4 -> 1 <= ne <= 4 -> Rabs theta <= PI / 2 -> direction_dependent no ne p ->
  Rabs (walkoff_gen (fun t => index_along_gen t phi no no ne (0, 0, 1) p) theta - walkoff_uniaxial_closed no ne theta) <= 1e-6.
Proof.
  intros Hno Hne Hth Hp. rewrite <- walkoff_general_pump.
  apply (walkoff_1e6_real no ne phi (0, 0, 1) theta p); try assumption.
  unfold unit_vec, vnorm2, vdot, vx, vy, vz; cbn [fst snd]. ring.
Qed.

(* the same for every crystal angle up to 180 deg, for index pairs with |1/no^2 - 1/ne^2| <= 0.7 *)
Theorem walkoff_1e6_real_wide no ne phi d theta p :
  1 <= no <= 4 -> 1 <= ne <= 4 -> Rabs (inv2 no - inv2 ne) <= 0.7 -> unit_vec d -> Rabs theta <= PI ->
  (direction_dependent no ne p ->
     Rabs (walkoff_gen (fun t => index_along_gen t phi no no ne d p) theta - walkoff_uniaxial_general no ne d theta) <= 1e-6) /\
  (direction_independent no ne p ->
     walkoff_gen (fun t => index_along_gen t phi no no ne d p) theta = 0).
Proof.
  intros Hno Hne Hdl Hd Hth.
  assert (Pno : 0 < no) by lra. assert (Pne : 0 < ne) by lra.
  assert (Hdxz : vx d * vx d + vz d * vz d <= 1).
  { pose proof (unit_vec_components d Hd). pose proof (sq_nonneg (vy d)). lra. }
  split; intros Hp.
  - rewrite (walkoff_gen_ext _ (n_of no ne (vx d) (vz d)) theta)
      by (intros t; apply (proj1 (index_along_gen_uniaxial no ne phi d p t Pno Pne Hd) Hp)).
    rewrite <- (walkoff_exact_n_of no ne d theta Pno Pne Hd).
    apply walkoff_code_vs_exact_wide; assumption.
  - rewrite (walkoff_gen_ext _ (fun _ => no) theta)
      by (intros t; apply (proj2 (index_along_gen_uniaxial no ne phi d p t Pno Pne Hd) Hp)).
    apply walkoff_gen_const. lra.
Qed.

(* the derivative behind walkoff_exact EXISTS for the uniaxial model (no conclusion rests on Coq's totalised Derive) *)
Theorem index_model_derivable no ne phi d p th :
  0 < no -> 0 < ne -> unit_vec d -> ex_derive (fun t => index_model t phi no no ne d p) th.
Proof.
  intros Hno Hne Hd.
  assert (Hdxz : vx d * vx d + vz d * vz d <= 1).
  { pose proof (unit_vec_components d Hd). pose proof (sq_nonneg (vy d)). lra. }
  assert (Hm : forall t, index_along_gen t phi no no ne d p = index_model t phi no no ne d p)
    by (intros t; apply index_along_is_model; assumption).
  assert (Hcase : direction_dependent no ne p \/ direction_independent no ne p).
  { unfold direction_dependent, direction_independent. destruct (Rle_dec ne no) as [H | H]; destruct p; try (left; left; split; [exact H | reflexivity]);
      try (right; left; split; [exact H | reflexivity]); apply Rnot_le_lt in H;
      try (left; right; split; [lra | reflexivity]); try (right; right; split; [lra | reflexivity]). }
  destruct Hcase as [Hp | Hp].
  - apply (ex_derive_ext (n_of no ne (vx d) (vz d))).
    + intros t. rewrite <- Hm. symmetry. apply (proj1 (index_along_gen_uniaxial no ne phi d p t Hno Hne Hd) Hp).
    + eexists. apply (n_of_derive no ne Hno Hne (vx d) (vz d) th Hdxz).
  - apply (ex_derive_ext (fun _ => no)).
    + intros t. rewrite <- Hm. symmetry. apply (proj2 (index_along_gen_uniaxial no ne phi d p t Hno Hne Hd) Hp).
    + apply ex_derive_const.
Qed.
