(* C16: the five regular languages of PMType::from_str are PAIRWISE DISJOINT (on all byte strings), so the order of the
   if-chain is irrelevant: a string parses to t iff SOME table entry for t matches it.
   Read off the compiled (generated) regexes through the verified matcher: nine pairs differ in the last two letters, the pair
   (Type0_o_oo, Type1_e_oo) in the first letter after the optional "type<d>" prefix / in the digit. *)
From Coq Require Import Ascii String List Bool Arith Lia.
From SpdVerif Require Import Spec.ConfigSpec Gen.ConfigTables Model.Regex Model.Names Proofs.Regex Proofs.C16_names.
Import ListNotations.

Definition sepset : cset := CUnion CSpace (CChar "_").
Definition sep (c : ascii) : bool := cs_match true sepset c.

Definition all_ascii_list : list ascii := map ascii_of_nat (seq 0 256).
Lemma in_all_ascii c : In c all_ascii_list.
Proof.
  unfold all_ascii_list. rewrite <- (ascii_nat_embedding c). apply in_map. apply in_seq.
  pose proof (nat_ascii_bounded c). lia.
Qed.

Definition is_key (x : ascii) : bool := existsb (Ascii.eqb x) ["o"; "e"; "t"; "0"; "1"; "2"]%char.

(* a character that is a letter / digit of the regexes (any case) is not a separator *)
Lemma nonsep_table : forallb (fun c => implb (is_key (lower c)) (negb (sep c))) all_ascii_list = true.
Proof. vm_compute. reflexivity. Qed.

Lemma nonsep_of_lower c x : In x ["o"; "e"; "t"; "0"; "1"; "2"]%char -> lower c = x -> sep c = false.
Proof.
  intros Hin Hl. pose proof nonsep_table as H. rewrite forallb_forall in H. specialize (H c (in_all_ascii c)).
  assert (Hk : is_key (lower c) = true).
  { rewrite Hl. unfold is_key. apply existsb_exists. exists x. split; [exact Hin | apply Ascii.eqb_refl]. }
  rewrite Hk in H. cbn [implb] in H. destruct (sep c); [discriminate H | reflexivity].
Qed.

(* Star of a single character class: every character is in the class *)
Lemma lang_star_chr ci cs w : lang ci (Star (Chr cs)) w -> Forall (fun c => cs_match ci cs c = true) w.
Proof.
  cbn [lang]. intros (ss & -> & Hss). induction Hss as [| x ss [Hne (c & -> & Hc)] _ IH]; cbn [concat app]; [constructor |].
  constructor; assumption.
Qed.

Lemma space_is_sep c : cs_match true CSpace c = true -> sep c = true.
Proof. unfold sep, sepset. cbn [cs_match]. intros ->. reflexivity. Qed.

(* the first non-separator character of a string is unique *)
Lemma first_nonsep_unique s1 c1 r1 s2 c2 r2 :
  (s1 ++ c1 :: r1 = s2 ++ c2 :: r2)%list -> Forall (fun c => sep c = true) s1 -> Forall (fun c => sep c = true) s2 ->
  sep c1 = false -> sep c2 = false -> c1 = c2.
Proof.
  revert s2. induction s1 as [| a s1 IH]; intros s2 H H1 H2 Hc1 Hc2.
  - destruct s2 as [| b s2]; cbn in H.
    + inversion H. reflexivity.
    + inversion H. subst. inversion H2. congruence.
  - destruct s2 as [| b s2]; cbn in H.
    + inversion H. subst. inversion H1. congruence.
    + inversion H. subst. inversion H1. inversion H2. subst. eapply IH; eauto.
Qed.

(* ---- the head of a match: optional "type<sep-run or _><digit>", separators, the pump letter *)
Definition mid_re : re := Alt (Cat (Cat (Star (Chr CSpace)) Eps) Eps) (Cat (Alt Eps (Chr (CChar "_"))) Eps).
Definition prefix_re (d : ascii) : re :=
  Alt Eps (Cat (Chr (CChar "t")) (Cat (Chr (CChar "y")) (Cat (Chr (CChar "p")) (Cat (Chr (CChar "e")) (Cat mid_re (Cat (Chr (CChar d)) Eps)))))).
Definition pm_re (d a x y : ascii) : re :=
  Cat Eps (Cat (Cat (prefix_re d) (Cat (Star (Chr sepset)) (Cat (Cat (Chr (CChar a)) Eps)
    (Cat (Cat Eps (Cat (Alt Eps (Chr CDot)) (Cat (Alt Eps (Chr CDot)) Eps))) (Cat (Cat (Chr (CChar x)) Eps) (Cat (Cat (Chr (CChar y)) Eps) Eps)))))) Eps).

Lemma mid_seps w : lang true mid_re w -> Forall (fun c => sep c = true) w.
Proof.
  unfold mid_re. cbn [lang]. intros [(s1 & s2 & -> & (s3 & s4 & -> & Hst & ->) & ->) | (s1 & s2 & -> & [-> | (c & -> & Hc)] & ->)].
  - rewrite !app_nil_r. apply lang_star_chr in Hst. eapply Forall_impl; [| exact Hst]. intros c. apply space_is_sep.
  - constructor.
  - cbn. constructor; [| constructor]. unfold sep, sepset. cbn [cs_match] in *. rewrite Hc. apply orb_true_r.
Qed.

Inductive head (d a : ascii) (w : list ascii) : Prop :=
| head_plain seps c rest : w = (seps ++ c :: rest)%list -> Forall (fun c => sep c = true) seps -> lower c = lower a -> head d a w
| head_typed t y p e mid dg rest :
    w = (t :: y :: p :: e :: mid ++ dg :: rest)%list -> lower t = "t"%char -> Forall (fun c => sep c = true) mid -> lower dg = lower d ->
    head d a w.

Lemma pm_re_head d a x y w : lang true (pm_re d a x y) w -> head d a w.
Proof.
  unfold pm_re. intros H.
  apply lang_cat_inv in H. destruct H as (e1 & w1 & -> & He1 & H). apply lang_eps_inv in He1. subst e1. cbn [app].
  apply lang_cat_inv in H. destruct H as (w2 & e2 & -> & H & He2). apply lang_eps_inv in He2. subst e2. rewrite app_nil_r.
  apply lang_cat_inv in H. destruct H as (pw & w3 & -> & Hp & H).
  apply lang_cat_inv in H. destruct H as (sw & w4 & -> & Hs & H).
  apply lang_cat_inv in H. destruct H as (aw & w5 & -> & Ha & _).
  apply lang_cat_inv in Ha. destruct Ha as (a1 & ea & -> & Ha & Hea). apply lang_eps_inv in Hea. subst ea.
  apply lang_chr_inv in Ha. destruct Ha as (c & -> & Hc).
  apply lang_star_chr in Hs. apply chr_ci_lower in Hc.
  unfold prefix_re in Hp. cbn [lang] in Hp. destruct Hp as [-> | Hp].
  - cbn [app]. eapply head_plain with (seps := sw) (c := c); [reflexivity | exact Hs | exact Hc].
  - destruct Hp as (t1 & r1 & -> & (t & -> & Ht) & (y1 & r2 & -> & (yc & -> & _) & (p1 & r3 & -> & (pc & -> & _) &
      (e1 & r4 & -> & (ec & -> & _) & (mw & r5 & -> & Hm & (d1 & r6 & -> & (dc & -> & Hd) & ->)))))).
    apply chr_ci_lower in Ht. apply chr_ci_lower in Hd. apply mid_seps in Hm.
    eapply head_typed with (t := t) (y := yc) (p := pc) (e := ec) (mid := mw) (dg := dc); [| exact Ht | exact Hm | exact Hd].
    cbn [app]. rewrite <- !app_assoc. cbn [app]. reflexivity.
Qed.

(* two heads of the same string with different pump letters AND different digits are impossible *)
Lemma head_conflict d1 a1 d2 a2 w :
  In (lower a1) ["o"; "e"]%char -> In (lower a2) ["o"; "e"]%char -> In (lower d1) ["0"; "1"; "2"]%char -> In (lower d2) ["0"; "1"; "2"]%char ->
  lower a1 <> lower a2 -> lower d1 <> lower d2 -> head d1 a1 w -> head d2 a2 w -> False.
Proof.
  intros Ha1 Ha2 Hd1 Hd2 Hna Hnd H1 H2.
  assert (Hl : forall x c, In x ["o"; "e"]%char -> lower c = x -> sep c = false).
  { intros x c Hx. apply nonsep_of_lower. cbn in *. tauto. }
  assert (Hg : forall x c, In x ["0"; "1"; "2"]%char -> lower c = x -> sep c = false).
  { intros x c Hx. apply nonsep_of_lower. cbn in *. tauto. }
  assert (Ht : forall c, lower c = "t"%char -> sep c = false).
  { intros c. apply nonsep_of_lower. cbn. tauto. }
  destruct H1 as [s1 c1 r1 E1 F1 L1 | t1 y1 p1 e1 m1 g1 r1 E1 T1 F1 L1]; destruct H2 as [s2 c2 r2 E2 F2 L2 | t2 y2 p2 e2 m2 g2 r2 E2 T2 F2 L2].
  - rewrite E1 in E2. assert (c1 = c2) by (eapply first_nonsep_unique; eauto). subst. congruence.
  - rewrite E1 in E2. change (t2 :: y2 :: p2 :: e2 :: m2 ++ g2 :: r2)%list with ([] ++ t2 :: (y2 :: p2 :: e2 :: m2 ++ g2 :: r2))%list in E2.
    assert (c1 = t2) by (eapply first_nonsep_unique; eauto). subst.
    rewrite T2 in L1. cbn in Ha1. destruct Ha1 as [H | [H | []]]; rewrite <- L1 in H; discriminate H.
  - rewrite E2 in E1. change (t1 :: y1 :: p1 :: e1 :: m1 ++ g1 :: r1)%list with ([] ++ t1 :: (y1 :: p1 :: e1 :: m1 ++ g1 :: r1))%list in E1.
    assert (c2 = t1) by (eapply first_nonsep_unique; eauto). subst.
    rewrite T1 in L2. cbn in Ha2. destruct Ha2 as [H | [H | []]]; rewrite <- L2 in H; discriminate H.
  - rewrite E1 in E2. inversion E2 as [[Et Ey Ep Ee Em]].
    assert (g1 = g2) by (eapply first_nonsep_unique; eauto). subst. congruence.
Qed.

(* two tails of the same string *)
Lemma tail_conflict x1 y1 x2 y2 w pre1 cx1 cy1 pre2 cx2 cy2 :
  w = (pre1 ++ [cx1; cy1])%list -> lower cx1 = lower x1 -> lower cy1 = lower y1 ->
  w = (pre2 ++ [cx2; cy2])%list -> lower cx2 = lower x2 -> lower cy2 = lower y2 ->
  lower x1 = lower x2 /\ lower y1 = lower y2.
Proof.
  intros -> Hx1 Hy1 E Hx2 Hy2.
  change [cx1; cy1] with ([cx1] ++ [cy1])%list in E. change [cx2; cy2] with ([cx2] ++ [cy2])%list in E.
  rewrite !app_assoc in E. apply app_inj_tail in E. destruct E as [E ->]. apply app_inj_tail in E. destruct E as [_ ->].
  split; congruence.
Qed.

(* the compiled table, in the shape the inversion lemmas speak about *)
Lemma pm_compiled_shape :
  compile_table pm_regex_table =
  [ (Some {| c_ci := true; c_re := pm_re "0" "o" "o" "o" |}, Type0_o_oo);
    (Some {| c_ci := true; c_re := pm_re "0" "e" "e" "e" |}, Type0_e_ee);
    (Some {| c_ci := true; c_re := pm_re "1" "e" "o" "o" |}, Type1_e_oo);
    (Some {| c_ci := true; c_re := pm_re "2" "e" "e" "o" |}, Type2_e_eo);
    (Some {| c_ci := true; c_re := pm_re "2" "e" "o" "e" |}, Type2_e_oe) ].
Proof. vm_compute. reflexivity. Qed.

Definition pm_entries : list (ascii * ascii * ascii * ascii * pm_type) :=
  [ ("0", "o", "o", "o", Type0_o_oo); ("0", "e", "e", "e", Type0_e_ee); ("1", "e", "o", "o", Type1_e_oo);
    ("2", "e", "e", "o", Type2_e_eo); ("2", "e", "o", "e", Type2_e_oe) ]%char.

(* pairwise disjointness: no string is matched by the regexes of two different table entries *)
Theorem pm_regexes_disjoint d1 a1 x1 y1 t1 d2 a2 x2 y2 t2 w :
  In (d1, a1, x1, y1, t1) pm_entries -> In (d2, a2, x2, y2, t2) pm_entries ->
  matches true (pm_re d1 a1 x1 y1) w = true -> matches true (pm_re d2 a2 x2 y2) w = true -> t1 = t2.
Proof.
  intros H1 H2 M1 M2.
  apply matches_correct in M1. apply matches_correct in M2.
  pose proof (pm_re_head _ _ _ _ _ M1) as Hh1. pose proof (pm_re_head _ _ _ _ _ M2) as Hh2.
  apply tail2_inv in M1. apply tail2_inv in M2.
  destruct M1 as (p1 & cx1 & cy1 & E1 & Lx1 & Ly1). destruct M2 as (p2 & cx2 & cy2 & E2 & Lx2 & Ly2).
  destruct (tail_conflict _ _ _ _ _ _ _ _ _ _ _ E1 Lx1 Ly1 E2 Lx2 Ly2) as [Tx Ty].
  clear E1 E2 Lx1 Ly1 Lx2 Ly2.
  cbn [pm_entries In] in H1, H2.
  repeat (destruct H1 as [H1 | H1]; [inversion H1; subst; clear H1 |]); try contradiction;
  repeat (destruct H2 as [H2 | H2]; [inversion H2; subst; clear H2 |]); try contradiction;
  try reflexivity; try (exfalso; vm_compute in Tx; discriminate Tx); try (exfalso; vm_compute in Ty; discriminate Ty);
  exfalso; (eapply (head_conflict _ _ _ _ w); [| | | | | | exact Hh1 | exact Hh2]; vm_compute; try tauto; discriminate).
Qed.

(* hence: the order of the if-chain is irrelevant -- a string parses to t iff some entry for t matches *)
Theorem pm_from_str_iff s t :
  pm_from_str s = Some t <->
  exists d a x y, In (d, a, x, y, t) pm_entries /\ matches true (pm_re d a x y) (list_ascii_of_string s) = true.
Proof.
  unfold pm_from_str, first_match. rewrite pm_compiled_shape. generalize (list_ascii_of_string s). intros w.
  cbn [first_match_c c_ci c_re]. split.
  - repeat match goal with
    | |- (if matches true (pm_re ?d ?a ?x ?y) w then Some ?v else _) = Some t -> _ =>
        let H := fresh "H" in destruct (matches true (pm_re d a x y) w) eqn:H;
        [ intros Ht; inversion Ht; subst t; exists d, a, x, y; split; [cbn; tauto | exact H] | clear H ]
    end. discriminate.
  - intros (d & a & x & y & Hin & Hm).
    repeat match goal with
    | |- (if matches true (pm_re ?d' ?a' ?x' ?y') w then Some ?v else _) = Some t =>
        let H := fresh "H" in destruct (matches true (pm_re d' a' x' y') w) eqn:H;
        [ f_equal; eapply (pm_regexes_disjoint d' a' x' y' v d a x y t w); [cbn; tauto | exact Hin | exact H | exact Hm] | ]
    end.
    exfalso. cbn [pm_entries In] in Hin.
    repeat (destruct Hin as [Hin | Hin]; [inversion Hin; subst; congruence |]). contradiction.
Qed.
