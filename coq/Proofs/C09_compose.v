(* C09 / C10 x C06 — composition with the generated spectrum model (Gen/PMIntegrand.v): the abstract amplitude J of the HOM
   theorems is instantiated with  J_S (ws, wi) = pm_jsa Q (S ws wi),  S : the scalars of a setup at a frequency pair,
   Q : the quadrature (any functional).  C06_jsa_exchange supplies  pm_jsa Q (pm_swap p) = pm_jsa Q p  for physical p. *)
From Coq Require Import Reals Lra Lia Arith List.
From Coquelicot Require Import Coquelicot.
From SpdVerif Require Import Base.Rx Base.CxPM Model.PMParams Gen.PMIntegrand Proofs.C06_swap Proofs.C06_defined Proofs.C06_spectrum.
From SpdVerif Require Import Model.FinSum Model.Hom Model.Hom2 Proofs.FinSum_lemmas Proofs.Cx_lemmas Proofs.C09_range Proofs.C09_dip
  Proofs.C09_struct Proofs.CMat Proofs.C10_svd Proofs.C10_identical Proofs.C10_setup.
Local Open Scope R_scope.

(* the sampled amplitude of a setup: JointSpectrum::jsa at (ws, wi) *)
Definition jsa_of (Q : (R -> C) -> R -> R -> C) (S : R -> R -> pm_params) : R -> R -> cx R := fun ws wi => pm_jsa Q (S ws wi).

(* a setup that is its own exchanged twin: the scalars at (wi, ws) are the signal<->idler permutation of those at (ws, wi) *)
Definition self_exchange (S : R -> R -> pm_params) : Prop := exchange_tie S S.

(* what that says field by field (the fields the amplitude reads) *)
Lemma self_exchange_fields S : self_exchange S -> forall ws wi,
  p_phi_s (S wi ws) = p_phi_i (S ws wi) /\ p_theta_s (S wi ws) = p_theta_i (S ws wi) /\ p_theta_s_e (S wi ws) = p_theta_i_e (S ws wi) /\
  p_wsx (S wi ws) = p_wix (S ws wi) /\ p_wsy (S wi ws) = p_wiy (S ws wi) /\ p_z0s (S wi ws) = p_z0i (S ws wi) /\
  p_dirz_s (S wi ws) = p_dirz_i (S ws wi) /\ p_n_s (S wi ws) = p_n_i (S ws wi) /\ p_n_p (S wi ws) = p_n_p (S ws wi) /\
  p_omega_s (S wi ws) = p_omega_i (S ws wi) /\ p_omega_i (S wi ws) = p_omega_s (S ws wi) /\
  p_L (S wi ws) = p_L (S ws wi) /\ p_k_eff (S wi ws) = p_k_eff (S ws wi) /\ p_rho (S wi ws) = p_rho (S ws wi).
Proof. intros H ws wi. rewrite (H ws wi). repeat split. Qed.

Lemma exchange_tie_sym S Ssw : exchange_tie S Ssw -> exchange_tie Ssw S.
Proof. intros H a b. rewrite <- (swap_involutive (S b a)). f_equal. symmetry. apply H. Qed.

(* C06 on the amplitude functions: the twin's amplitude with exchanged arguments is the setup's amplitude *)
Lemma jsa_of_exchange Q S Ssw ws wi :
  exchange_tie S Ssw -> pm_physical (S ws wi) -> jsa_of Q Ssw wi ws = jsa_of Q S ws wi.
Proof. intros H Hp. unfold jsa_of. rewrite (H ws wi). apply jsa_exchange. exact Hp. Qed.

Definition physical_on (S : R -> R -> pm_params) (g : grid R) : Prop :=
  forall k, (k < grid_len g)%nat -> pm_physical (S (grid_ws ROps g k) (grid_wi ROps g k)).

(* ---- general (asymmetric) setups: the second array the wrappers build, sp.jsa(wi, ws) on the grid, is the exchanged twin's
   jsa_range on the SAME grid — any grid; on a square grid with identical axes it is also the transposed first array *)
Theorem setup_second_array_is_twin Q S Ssw g k :
  exchange_tie S Ssw -> (k < grid_len g)%nat -> pm_physical (Ssw (grid_ws ROps g k) (grid_wi ROps g k)) ->
  tabulate (swap_args (jsa_of Q S)) g k = tabulate (jsa_of Q Ssw) g k.
Proof.
  intros H Hk Hp. unfold tabulate, swap_args.
  apply (jsa_of_exchange Q Ssw S (grid_ws ROps g k) (grid_wi ROps g k) (exchange_tie_sym S Ssw H) Hp).
Qed.

Theorem setup_hom_is_array_hom_with_twin Q S Ssw g taus :
  exchange_tie S Ssw -> physical_on Ssw g ->
  setup_hom_rate_series (jsa_of Q S) g taus = hom_rate_series g (tabulate (jsa_of Q S) g) (tabulate (jsa_of Q Ssw) g) taus /\
  forall delta_t, setup_hom_visibility (jsa_of Q S) g delta_t =
    (delta_t, visibility_of_rate (hom_rate g (tabulate (jsa_of Q S) g) (tabulate (jsa_of Q Ssw) g) delta_t None)).
Proof.
  intros H Hp. split.
  - unfold setup_hom_rate_series. rewrite !hom_rate_series_map. apply map_ext. intros tau.
    apply hom_rate_ext; [reflexivity|]. intros k Hk. apply setup_second_array_is_twin; auto.
  - intros dt. unfold setup_hom_visibility. f_equal. f_equal.
    apply hom_rate_ext; [reflexivity|]. intros k Hk. apply setup_second_array_is_twin; auto.
Qed.

Corollary twin_array_is_transpose Q S Ssw n g :
  square_sym n g -> exchange_tie S Ssw -> physical_on Ssw g ->
  forall k, (k < n * n)%nat -> tabulate (jsa_of Q Ssw) g k = transpose_arr n (tabulate (jsa_of Q S) g) k.
Proof.
  intros Hg H Hp k Hk. rewrite <- (tabulate_swap_transpose n g (jsa_of Q S) Hg k Hk). symmetry.
  assert (Hk' : (k < grid_len g)%nat) by (rewrite (grid_len_sq n g Hg); exact Hk).
  apply setup_second_array_is_twin; [exact H|exact Hk'|apply Hp; exact Hk'].
Qed.

(* ---- exchange-symmetric setups: the sampled amplitude is symmetric, the zero-delay rate is exactly 0, the visibility 1 —
   for every quadrature, crystal, length, waists ... (whatever S reads), on every square grid with identical axes *)
Theorem symmetric_setup_amplitude Q S ws wi :
  self_exchange S -> pm_physical (S ws wi) -> jsa_of Q S wi ws = jsa_of Q S ws wi.
Proof. intros H Hp. apply (jsa_of_exchange Q S S ws wi H Hp). Qed.

Theorem symmetric_setup_dip Q S g :
  self_exchange S -> physical_on S g ->
  jsi_norm ROps (grid_len g) (tabulate (jsa_of Q S) g) <> 0 ->
  setup_hom_rate_series (jsa_of Q S) g (0 :: nil) = 0 :: nil /\
  setup_hom_visibility (jsa_of Q S) g 0 = (0, 1).
Proof.
  intros Hs Hp HN.
  assert (E : forall k, (k < grid_len g)%nat -> tabulate (swap_args (jsa_of Q S)) g k = tabulate (jsa_of Q S) g k).
  { intros k Hk. apply setup_second_array_is_twin; auto. }
  destruct (hom_rate_symmetric_zero g (tabulate (jsa_of Q S) g) (tabulate (swap_args (jsa_of Q S)) g) E HN) as [R0 V1].
  split.
  - unfold setup_hom_rate_series. rewrite hom_rate_series_map. cbn [map]. rewrite R0. reflexivity.
  - unfold setup_hom_visibility. rewrite V1. reflexivity.
Qed.

(* non-vacuity: a degenerate type-0/type-1-like setup (equal indices, waists, angles, waist positions for signal and idler) *)
Definition pm_sym_example (ws wi : R) : pm_params := {|
  p_L := 0.002; p_phi_s := 0; p_phi_i := 0; p_theta_s := 0; p_theta_i := 0; p_theta_s_e := 0; p_theta_i_e := 0;
  p_wsx := 0.0001; p_wsy := 0.0001; p_wix := 0.0001; p_wiy := 0.0001; p_wpx := 0.0002; p_wpy := 0.0002;
  p_z0s := -0.0005; p_z0i := -0.0005; p_dirz_s := 1; p_dirz_i := 1;
  p_omega_s := ws; p_omega_i := wi; p_n_p := 1.78; p_n_s := 1.74; p_n_i := 1.74;
  p_rho := 0.003; p_k_eff := 136000; p_apod := fun z => 1;
  p_pp_on := true; p_lambda_p := 7.75e-7; p_omega_p0 := 2.43e15; p_bw := 1e-9; p_power := 100; p_deff := 7.6e-9; p_thr := 0.01;
  p_lambda_s := 1.55e-6; p_lambda_i := 1.55e-6; p_omega_s0 := 1.215e15; p_omega_i0 := 1.215e15;
  p_n_s0 := 1.74; p_n_i0 := 1.74; p_n_p0 := 1.78; p_ng_s := 1.76; p_ng_i := 1.76; p_ng_p := 1.83 |}.

Lemma pm_sym_example_self_exchange : self_exchange pm_sym_example.
Proof. intros ws wi. reflexivity. Qed.
