(* C09 — the executable rational twin at zero delay computes the real-valued hom_rate (Q2R homomorphism). *)
From Coq Require Import Reals Lra Lia QArith Qreals List.
From SpdVerif Require Import Model.FinSum Model.Hom Proofs.FinSum_lemmas Proofs.FinSum_morph Proofs.Cx_lemmas Proofs.C09_range.

Section Morph.
  Context {A B : Type} (phi : A -> B) (oa : Ops A) (ob : Ops B) (Hm : OpsMorph phi oa ob).
  Let cm := cmap phi.

  Lemma hom_term_morph f h u : phi (hom_term oa f h u) = hom_term ob (cm f) (cm h) (cm u).
  Proof.
    unfold hom_term, cre, cm.
    change (phi (fst (cmul oa (cmul oa (cconj oa f) h) u))) with (fst (cmap phi (cmul oa (cmul oa (cconj oa f) h) u))).
    rewrite !(cmul_morph phi oa ob Hm), (cconj_morph phi oa ob Hm). reflexivity.
  Qed.

  Lemma hom_sum_morph N f gs u :
    phi (hom_sum oa N f gs u) = hom_sum ob N (fun k => cm (f k)) (fun k => cm (gs k)) (fun k => cm (u k)).
  Proof.
    unfold hom_sum. rewrite (gsum_morph phi oa ob Hm). apply (gsum_ext_gen ob). intros k _. apply hom_term_morph.
  Qed.

  Lemma jsi_norm_morph N f : phi (jsi_norm oa N f) = jsi_norm ob N (fun k => cm (f k)).
  Proof.
    unfold jsi_norm. rewrite (gsum_morph phi oa ob Hm). apply (gsum_ext_gen ob). intros k _.
    apply (cnorm2_morph phi oa ob Hm).
  Qed.

  Lemma hom_rate_gen_morph N f gs u nrm :
    otwo ob <> o0 ob -> phi nrm <> o0 ob ->
    phi (hom_rate_gen oa N f gs u nrm)
    = hom_rate_gen ob N (fun k => cm (f k)) (fun k => cm (gs k)) (fun k => cm (u k)) (phi nrm).
  Proof.
    intros H2 Hn. unfold hom_rate_gen, ohalf.
    rewrite (mmul _ _ _ Hm), (msub _ _ _ Hm), (m1 _ _ _ Hm).
    rewrite (mdiv _ _ _ Hm) by (rewrite (otwo_morph phi oa ob Hm); exact H2).
    rewrite (mdiv _ _ _ Hm) by exact Hn.
    rewrite (m1 _ _ _ Hm), (otwo_morph phi oa ob Hm), hom_sum_morph. reflexivity.
  Qed.
End Morph.

Definition RC (l : list (cx Q)) : nat -> cx R := arr (0, 0)%R (map Q2C l).

Lemma RC_arr l k : cmap Q2R (arr (0, 0)%Q l k) = RC l k.
Proof.
  unfold RC. change (cmap Q2R) with Q2C. rewrite (arr_map Q2C). unfold Q2C at 1. cbn [fst snd]. rewrite Q2R_0. reflexivity.
Qed.

Lemma otwo_R_neq : otwo ROps <> o0 ROps.
Proof. unfold otwo. cbn. lra. Qed.

Lemma hom_rate_gen_ext N f f' gs gs' u u' nrm :
  (forall k, (k < N)%nat -> f k = f' k) -> (forall k, (k < N)%nat -> gs k = gs' k) -> (forall k, (k < N)%nat -> u k = u' k) ->
  hom_rate_gen ROps N f gs u nrm = hom_rate_gen ROps N f' gs' u' nrm.
Proof.
  intros Hf Hg Hu. rewrite !hom_rate_gen_R, !hom_sum_rsum.
  rewrite (rsum_ext N _ (fun k => hom_term ROps (f' k) (gs' k) (u' k))); [reflexivity|].
  intros k Hk. rewrite (Hf k Hk), (Hg k Hk), (Hu k Hk). reflexivity.
Qed.

Theorem hom_rate_Q0_normed_correct (g : grid R) (f gs : list (cx Q)) (norm : Q) :
  Q2R norm <> 0%R ->
  Q2R (hom_rate_Q0_normed (grid_len g) f gs norm) = hom_rate g (RC f) (RC gs) 0 (Some (Q2R norm)).
Proof.
  intros Hn. unfold hom_rate_Q0_normed, hom_rate.
  rewrite (hom_rate_gen_morph Q2R QOps ROps Q2R_morph _ _ _ _ _ otwo_R_neq Hn).
  apply hom_rate_gen_ext; intros k _; try apply RC_arr.
  rewrite hom_phase_zero. unfold cmap, cone. cbn [fst snd QOps o0 o1]. rewrite Q2R_0, Q2R_1. reflexivity.
Qed.

Lemma jsi_norm_Q_correct N (f : list (cx Q)) :
  Q2R (jsi_norm QOps N (arr (0, 0)%Q f)) = jsi_norm ROps N (RC f).
Proof.
  rewrite (jsi_norm_morph Q2R QOps ROps Q2R_morph). unfold jsi_norm. apply (gsum_ext_gen ROps).
  intros k _. rewrite RC_arr. reflexivity.
Qed.

Theorem hom_rate_Q0_correct (g : grid R) (f gs : list (cx Q)) :
  jsi_norm ROps (grid_len g) (RC f) <> 0%R ->
  Q2R (hom_rate_Q0 (grid_len g) f gs) = hom_rate g (RC f) (RC gs) 0 None.
Proof.
  intros Hn. unfold hom_rate_Q0.
  change (hom_rate_gen QOps (grid_len g) (arr (0, 0)%Q f) (arr (0, 0)%Q gs) (fun _ => cone QOps) (jsi_norm QOps (grid_len g) (arr (0, 0)%Q f)))
    with (hom_rate_Q0_normed (grid_len g) f gs (jsi_norm QOps (grid_len g) (arr (0, 0)%Q f))).
  rewrite hom_rate_Q0_normed_correct by (rewrite jsi_norm_Q_correct; exact Hn).
  unfold hom_rate. rewrite jsi_norm_Q_correct. reflexivity.
Qed.
