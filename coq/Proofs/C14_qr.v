(* C14 / C15 — the executable Q instance of the generated grid formulas is the real instance on rational arguments:
   what the correspondence cases RUN (vm_compute over Q) is the function the theorems are ABOUT (over R). *)
From Coq Require Import List Arith Bool Lia ZArith QArith Qreals Reals Lra.
From SpdVerif Require Import Base.GridOps Gen.Grid Model.Grid.
Local Open Scope R_scope.

Lemma Q2R_nat n : Q2R (o_nat Qops n) = o_nat Rops n.
Proof.
  cbn [Qops Rops o_nat]. unfold Q2R, inject_Z; cbn [Qnum Qden]. rewrite INR_IZR_INZ. field.
Qed.

Lemma Q2R_z z : Q2R (o_z Qops z) = o_z Rops z.
Proof. cbn [Qops Rops o_z]. unfold Q2R, inject_Z; cbn [Qnum Qden]. field. Qed.

Lemma Qnat_nonzero n : (1 <= n)%nat -> ~ (o_nat Qops n == 0)%Q.
Proof.
  intros H. cbn [Qops o_nat]. unfold Qeq, inject_Z; cbn [Qnum Qden]. lia.
Qed.

Theorem steps_value_Q2R s e n i :
  Q2R (steps_value Qops s e n i) = steps_value Rops (Q2R s) (Q2R e) n i.
Proof.
  unfold steps_value. destruct (Nat.ltb_spec 1 n) as [Hn|Hn]; [|reflexivity].
  change (o_div Qops ?a ?b) with (Qdiv a b). change (o_add Qops ?a ?b) with (Qplus a b).
  change (o_mul Qops ?a ?b) with (Qmult a b). change (o_sub Qops ?a ?b) with (Qminus a b).
  rewrite Q2R_div by (apply Qnat_nonzero; lia).
  rewrite Q2R_plus, !Q2R_mult, Q2R_minus, !Q2R_nat. reflexivity.
Qed.

Theorem steps2d_value_Q2R x0 x1 nx y0 y1 ny k :
  (Q2R (fst (steps2d_value Qops x0 x1 nx y0 y1 ny k)), Q2R (snd (steps2d_value Qops x0 x1 nx y0 y1 ny k))) =
  steps2d_value Rops (Q2R x0) (Q2R x1) nx (Q2R y0) (Q2R y1) ny k.
Proof.
  unfold steps2d_value. cbn [fst snd].
  change (o_div Qops ?a ?b) with (Qdiv a b). change (o_add Qops ?a ?b) with (Qplus a b).
  change (o_mul Qops ?a ?b) with (Qmult a b). change (o_sub Qops ?a ?b) with (Qminus a b).
  f_equal.
  - rewrite Q2R_plus, !Q2R_mult, Q2R_minus, Q2R_z.
    destruct (Nat.ltb_spec 1 nx) as [Hn|Hn].
    + rewrite Q2R_div by (apply Qnat_nonzero; lia). rewrite !Q2R_nat. reflexivity.
    + rewrite Q2R_z. reflexivity.
  - rewrite Q2R_plus, !Q2R_mult, Q2R_minus, Q2R_z.
    destruct (Nat.ltb_spec 1 ny) as [Hn|Hn].
    + rewrite Q2R_div by (apply Qnat_nonzero; lia). rewrite !Q2R_nat. reflexivity.
    + rewrite Q2R_z. reflexivity.
Qed.

(* the sum/difference conversions (pure field expressions) *)
Theorem sd_from_frequency_Q2R x0 x1 nx y0 y1 ny :
  let q := sd_from_frequency_space Qops x0 x1 nx y0 y1 ny in
  let r := sd_from_frequency_space Rops (Q2R x0) (Q2R x1) nx (Q2R y0) (Q2R y1) ny in
  Q2R (ax_lo (fst q)) = ax_lo (fst r) /\ Q2R (ax_hi (fst q)) = ax_hi (fst r) /\
  Q2R (ax_lo (snd q)) = ax_lo (snd r) /\ Q2R (ax_hi (snd q)) = ax_hi (snd r).
Proof.
  cbn zeta. unfold sd_from_frequency_space; cbn [fst snd ax_lo ax_hi].
  change (o_div Qops ?a ?b) with (Qdiv a b). change (o_add Qops ?a ?b) with (Qplus a b).
  change (o_sub Qops ?a ?b) with (Qminus a b).
  assert (H2 : ~ (o_z Qops 2 == 0)%Q) by (cbn; unfold Qeq; cbn; lia).
  repeat split; rewrite Q2R_div by exact H2; rewrite ?Q2R_plus, ?Q2R_minus, Q2R_z; reflexivity.
Qed.
