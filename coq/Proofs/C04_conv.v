(* C04 — a convergence theorem for the two-vertex Nelder–Mead model (Model/NM1d.v) in exact real arithmetic on V-shaped costs:
   cost x = |h x| inside [lo, hi] and +infinity outside, h strictly monotone on [lo, hi] with a root r in [lo, hi].

   Write b, w for the best and worst vertex, delta = |w - b|.
     * a DOUBLING step (reflection better than b AND expansion better than the reflection) needs |r - b| > delta; along
       consecutive doubling steps delta doubles while |r - b| does not grow, so there are fewer than log2(|r - b0| / delta0) + 1
       of them at the start;
     * the first step that is not a doubling step establishes the BRACKET invariant  |r - b| <= 2 delta  (B2 below);
     * B2 is preserved by every later step, delta never grows again and halves at least once every TWO steps
       (a reflection step is always followed by a contraction), so after 2 m further steps
              |r - best| <= 2 delta <= 2 delta_bracket / 2^m :            the true rate is a factor sqrt(1/2) per iteration.
   The executor may stop earlier when the standard deviation of the two costs drops below the tolerance; what that implies
   is characterised at the end (same side of the root: delta is small; straddling the root with nearly equal costs: nothing).
   The angle-search cost of finding F4 violates the hypothesis "h strictly monotone on the bounds": Findings/C04_bibo_kink.v. *)
From Coq Require Import Reals Lra Lia Bool List.
From SpdVerif Require Import Model.NM1d Model.AutoCalc Proofs.C04_nm Proofs.C04_poling.
Local Open Scope R_scope.

(* ---------------------------------------------------------------- order facts on extended real costs *)
Notation relt := (elt Rltb).
Notation rele := (ele Rltb).

Lemma relt_ele a b : relt a b = true -> rele a b = true.
Proof. apply (elt_ele Rltb Rltb_irrefl Rltb_trans). Qed.
Lemma rele_trans a b c : rele a b = true -> rele b c = true -> rele a c = true.
Proof. apply (ele_trans Rltb Rltb_cotrans). Qed.
Lemma rele_not a b : rele a b = true <-> relt b a = false.
Proof. unfold ele. rewrite negb_true_iff. tauto. Qed.
Lemma relt_ele_trans a b c : relt a b = true -> rele b c = true -> relt a c = true.
Proof.
  destruct a as [x|], b as [y|], c as [z|]; cbn; unfold ele; cbn; try discriminate; try reflexivity; intros H1 H2.
  apply negb_true_iff in H2. destruct (Rltb_cotrans x z y H1) as [H|H]; [exact H | congruence].
Qed.
Lemma rele_elt_trans a b c : rele a b = true -> relt b c = true -> relt a c = true.
Proof.
  destruct a as [x|], b as [y|], c as [z|]; cbn; unfold ele; cbn; try discriminate; try reflexivity; intros H1 H2.
  apply negb_true_iff in H1. destruct (Rltb_cotrans y x z H2) as [H|H]; [congruence | exact H].
Qed.
Lemma elt_trans_ext a b c : relt a b = true -> relt b c = true -> relt a c = true.
Proof. intros H1 H2. eapply relt_ele_trans; [exact H1 | apply relt_ele; exact H2]. Qed.
Lemma relt_finite a b : relt a b = true -> is_inf a = false.
Proof. destruct a, b; cbn; auto; discriminate. Qed.

Section VCost.
  Variables (lo hi r : R) (h : R -> R).
  Hypothesis Hr : lo <= r <= hi.
  Hypothesis Hroot : h r = 0.
  Hypothesis Hmono : forall x y, lo <= x -> x < y -> y <= hi -> h x < h y.

  Definition inb (x : R) : bool := if Rle_dec lo x then (if Rle_dec x hi then true else false) else false.
  Definition vcost (x : R) : @ecost R := if inb x then CFin (Rabs (h x)) else CInf.
  Notation c := vcost.

  Lemma inb_iff x : inb x = true <-> lo <= x <= hi.
  Proof. unfold inb. destruct (Rle_dec lo x), (Rle_dec x hi); split; intros; try reflexivity; try discriminate; lra. Qed.
  Lemma finite_iff x : is_inf (c x) = false <-> lo <= x <= hi.
  Proof. unfold vcost. rewrite <- inb_iff. destruct (inb x); cbn; split; intros; congruence. Qed.

  (* strictly decreasing up to the root, strictly increasing after it (on the finite part) *)
  Lemma left_strict x y : x < y -> y <= r -> lo <= y -> relt (c y) (c x) = true.
  Proof.
    intros Hxy Hy Hl. unfold vcost. rewrite (proj2 (inb_iff y)) by lra.
    destruct (inb x) eqn:E; [|reflexivity]. apply inb_iff in E. cbn. apply Rltb_iff.
    assert (h x < h y) by (apply Hmono; lra).
    assert (h y <= 0).
    { destruct (Req_dec y r) as [->|Hne]; [lra|]. assert (h y < h r) by (apply Hmono; lra). lra. }
    rewrite !Rabs_left1 by lra. lra.
  Qed.
  Lemma right_strict x y : r <= x -> x < y -> x <= hi -> relt (c x) (c y) = true.
  Proof.
    intros Hx Hxy Hh. unfold vcost. rewrite (proj2 (inb_iff x)) by lra.
    destruct (inb y) eqn:E; [|reflexivity]. apply inb_iff in E. cbn. apply Rltb_iff.
    assert (h x < h y) by (apply Hmono; lra).
    assert (0 <= h x).
    { destruct (Req_dec x r) as [->|Hne]; [lra|]. assert (h r < h x) by (apply Hmono; lra). lra. }
    rewrite !Rabs_right by lra. lra.
  Qed.
  Lemma right_mono x y : r <= x -> x <= y -> rele (c x) (c y) = true.
  Proof.
    intros Hx Hxy. destruct (Req_dec x y) as [->|Hne]; [apply (ele_refl Rltb Rltb_irrefl)|].
    destruct (Rle_dec x hi) as [Hh|Hh].
    - apply relt_ele, right_strict; lra.
    - unfold vcost. assert (E1 : inb x = false) by (destruct (inb x) eqn:E; [apply inb_iff in E; lra | reflexivity]).
      assert (E2 : inb y = false) by (destruct (inb y) eqn:E; [apply inb_iff in E; lra | reflexivity]).
      rewrite E1, E2. reflexivity.
  Qed.
  Lemma left_mono x y : x <= y -> y <= r -> rele (c y) (c x) = true.
  Proof.
    intros Hxy Hy. destruct (Req_dec x y) as [->|Hne]; [apply (ele_refl Rltb Rltb_irrefl)|].
    destruct (Rle_dec lo y) as [Hl|Hl].
    - apply relt_ele, left_strict; lra.
    - unfold vcost. assert (E1 : inb x = false) by (destruct (inb x) eqn:E; [apply inb_iff in E; lra | reflexivity]).
      assert (E2 : inb y = false) by (destruct (inb y) eqn:E; [apply inb_iff in E; lra | reflexivity]).
      rewrite E1, E2. reflexivity.
  Qed.

  (* bracket lemmas: b has a finite cost *)
  Lemma root_not_beyond_right b p : is_inf (c b) = false -> b < p -> rele (c b) (c p) = true -> r <= p.
  Proof.
    intros Hb Hbp Hle. apply finite_iff in Hb. apply Rnot_lt_le. intros Hp.
    assert (relt (c p) (c b) = true) by (apply left_strict; lra). apply rele_not in Hle. congruence.
  Qed.
  Lemma root_not_beyond_left b p : is_inf (c b) = false -> p < b -> rele (c b) (c p) = true -> p <= r.
  Proof.
    intros Hb Hbp Hle. apply finite_iff in Hb. apply Rnot_lt_le. intros Hp.
    assert (relt (c p) (c b) = true) by (apply right_strict; lra). apply rele_not in Hle. congruence.
  Qed.
  Lemma root_on_better_side_right b p : b < p -> relt (c p) (c b) = true -> b < r.
  Proof.
    intros Hbp Hlt. apply Rnot_le_lt. intros Hrb.
    assert (rele (c b) (c p) = true) by (apply right_mono; lra). apply rele_not in H. congruence.
  Qed.
  Lemma root_on_better_side_left b p : p < b -> relt (c p) (c b) = true -> r < b.
  Proof.
    intros Hbp Hlt. apply Rnot_le_lt. intros Hrb.
    assert (rele (c b) (c p) = true) by (apply left_mono; lra). apply rele_not in H. congruence.
  Qed.

  (* ------------------------------------------------------------ one step on the pair (best b, worst w), exact arithmetic *)
  Definition next_point (b w : R) : R :=
    if relt (c (2 * b - w)) (c b) then (if relt (c (3 * b - 2 * w)) (c (2 * b - w)) then 3 * b - 2 * w else 2 * b - w)
    else if relt (c (2 * b - w)) (c w) then (if rele (c (b - (w - b) / 2)) (c (2 * b - w)) then b - (w - b) / 2 else b + (w - b) / 2)
    else b + (w - b) / 2.
  Definition nb (b w : R) : R := if relt (c (next_point b w)) (c b) then next_point b w else b.
  Definition nw (b w : R) : R := if relt (c (next_point b w)) (c b) then b else next_point b w.

  Lemma step_points s : vc (s0 s) = c (vp (s0 s)) -> vc (s1 s) = c (vp (s1 s)) ->
    vp (s0 (step Rltb real_ops c s)) = nb (vp (s0 s)) (vp (s1 s)) /\ vp (s1 (step Rltb real_ops c s)) = nw (vp (s0 s)) (vp (s1 s)).
  Proof.
    intros H0 H1. destruct s as [[b cb] [w cw] best tr]. cbn [s0 s1 vp vc] in *. subst cb cw.
    unfold step, replace_worst. cbn [s0 s1 vp vc real_ops op_centroid op_reflect op_expand op_contract op_shrink].
    replace (b * 1 + (b * 1 - w) * 1) with (2 * b - w) by ring.
    replace (b * 1 + (2 * b - w - b * 1) * 2) with (3 * b - 2 * w) by ring.
    replace (b * 1 + (2 * b - w - b * 1) * / 2) with (b - (w - b) / 2) by field.
    replace (b * 1 + (w - b * 1) * / 2) with (b + (w - b) / 2) by field.
    replace (b + (w - b) * / 2) with (b + (w - b) / 2) by field.
    unfold nb, nw, next_point, eval, sort2.
    destruct (relt (c (2 * b - w)) (c b)) eqn:E1.
    - destruct (relt (c (3 * b - 2 * w)) (c (2 * b - w))) eqn:E2; cbn [vc vp];
        match goal with |- context [if relt ?a ?b then _ else _] => destruct (relt a b) end; cbn; split; reflexivity.
    - destruct (relt (c (2 * b - w)) (c w)) eqn:E2.
      + destruct (rele (c (b - (w - b) / 2)) (c (2 * b - w))) eqn:E3; cbn [vc vp];
          match goal with |- context [if relt ?a ?b then _ else _] => destruct (relt a b) end; cbn; split; reflexivity.
      + destruct (relt (c (b + (w - b) / 2)) (c w)) eqn:E3; cbn [vc vp];
          match goal with |- context [if relt ?a ?b then _ else _] => destruct (relt a b) end; cbn; split; reflexivity.
  Qed.

  (* ------------------------------------------------------------ the bracket invariants on a sorted pair *)
  Definition Sp (b w : R) : Prop := is_inf (c b) = false /\ rele (c b) (c w) = true /\ w <> b.
  Definition B1 (b w : R) : Prop := Rabs (r - b) <= Rabs (w - b) /\ rele (c b) (c (2 * b - w)) = true.
  Definition B2 (b w : R) : Prop :=
    Rabs (r - b) <= 2 * Rabs (w - b) /\
    (relt (c (2 * b - w)) (c b) = true -> rele (c (2 * b - w)) (c (3 * b - 2 * w)) = true).
  Definition doubling (b w : R) : Prop :=
    relt (c (2 * b - w)) (c b) = true /\ relt (c (3 * b - 2 * w)) (c (2 * b - w)) = true.

  Ltac abs_lra := unfold Rabs in *; repeat (destruct (Rcase_abs _)); lra.

  Lemma B1_B2 b w : B1 b w -> B2 b w.
  Proof.
    intros [H1 H2]. split; [pose proof (Rabs_pos (w - b)); lra|].
    intros H. apply rele_not in H2. congruence.
  Qed.

  Lemma Sp_next b w : Sp b w -> Sp (nb b w) (nw b w).
  Proof.
    intros (Hf & Hle & Hne). unfold nb, nw.
    assert (Hp : next_point b w <> b).
    { unfold next_point. repeat (match goal with |- context [if ?x then _ else _] => destruct x end); intros E; apply Hne; lra. }
    destruct (relt (c (next_point b w)) (c b)) eqn:E.
    - split; [eapply relt_finite; exact E | split; [apply relt_ele; exact E | auto]].
    - split; [exact Hf | split; [apply rele_not; exact E | exact Hp]].
  Qed.

  (* both neighbours of b at distance |w - b| are no better than b: the root is within that distance *)
  Lemma bracket b w : Sp b w -> rele (c b) (c (2 * b - w)) = true -> Rabs (r - b) <= Rabs (w - b).
  Proof.
    intros (Hf & Hle & Hne) Hx. destruct (Rlt_dec b w) as [Hbw|Hbw].
    - pose proof (root_not_beyond_right b w Hf Hbw Hle). pose proof (root_not_beyond_left b (2 * b - w) Hf ltac:(lra) Hx). abs_lra.
    - assert (w < b) by lra.
      pose proof (root_not_beyond_left b w Hf H Hle). pose proof (root_not_beyond_right b (2 * b - w) Hf ltac:(lra) Hx). abs_lra.
  Qed.

  (* a contraction-type new point p = b + e with |e| = |w - b| / 2, whose mirror b + 2 e is w or the reflection point *)
  Lemma contract_step b w e : Sp b w -> Rabs (r - b) <= Rabs (w - b) -> rele (c b) (c (2 * b - w)) = true ->
    (e = (w - b) / 2 \/ e = - (w - b) / 2) ->
    let p := b + e in
    let b' := if relt (c p) (c b) then p else b in
    let w' := if relt (c p) (c b) then b else p in
    Rabs (w' - b') = Rabs (w - b) / 2 /\ B2 b' w'.
  Proof.
    intros (Hf & Hle & Hne) Hb Hx He p b' w'. unfold b', w'.
    assert (Hmirror : rele (c b) (c (b + 2 * e)) = true).
    { destruct He as [-> | ->]; [replace (b + 2 * ((w - b) / 2)) with w by field | replace (b + 2 * (- (w - b) / 2)) with (2 * b - w) by field]; assumption. }
    assert (Hew : Rabs e = Rabs (w - b) / 2) by (destruct He as [-> | ->]; abs_lra).
    destruct (relt (c p) (c b)) eqn:E.
    - (* p is the new best *)
      split; [replace (b - p) with (- e) by (unfold p; ring); rewrite Rabs_Ropp; exact Hew|].
      apply B1_B2. split.
      + replace (b - p) with (- e) by (unfold p; ring). rewrite Rabs_Ropp.
        destruct (Rlt_dec 0 e) as [He0|He0].
        * pose proof (root_on_better_side_right b p ltac:(unfold p; lra) E). unfold p. abs_lra.
        * assert (e < 0) by (destruct (Req_dec e 0) as [E0|E0]; [rewrite E0, Rabs_R0 in Hew; pose proof (Rabs_pos_lt (w - b) ltac:(lra)); lra | lra]).
          pose proof (root_on_better_side_left b p ltac:(unfold p; lra) E). unfold p. abs_lra.
      + replace (2 * p - b) with (b + 2 * e) by (unfold p; ring).
        apply relt_ele. eapply relt_ele_trans; eassumption.
    - (* b stays the best *)
      split; [replace (p - b) with e by (unfold p; ring); exact Hew|].
      split.
      + replace (p - b) with e by (unfold p; ring). lra.
      + intros Hbetter. replace (3 * b - 2 * p) with (b + 2 * (- e)) by (unfold p; ring).
        apply relt_ele. eapply relt_ele_trans; [exact Hbetter|].
        destruct He as [-> | ->].
        * replace (b + 2 * - ((w - b) / 2)) with (2 * b - w) by field. exact Hx.
        * replace (b + 2 * - (- (w - b) / 2)) with w by field. exact Hle.
  Qed.

  Lemma next_point_contract b w : relt (c (2 * b - w)) (c b) = false ->
    next_point b w = b + (w - b) / 2 \/ next_point b w = b + - (w - b) / 2.
  Proof.
    intros E. unfold next_point. rewrite E.
    repeat (match goal with |- context [if ?x then _ else _] => destruct x end); [right; field | left; reflexivity | left; reflexivity].
  Qed.

  (* C1: from the tight bracket the step is a contraction: the width halves *)
  Lemma step_B1 b w : Sp b w -> B1 b w -> Rabs (nw b w - nb b w) = Rabs (w - b) / 2 /\ B2 (nb b w) (nw b w).
  Proof.
    intros HS [Hb Hx]. assert (E : relt (c (2 * b - w)) (c b) = false) by (apply rele_not; exact Hx).
    unfold nb, nw. destruct (next_point_contract b w E) as [-> | ->].
    - apply (contract_step b w ((w - b) / 2) HS Hb Hx). left; reflexivity.
    - apply (contract_step b w (- (w - b) / 2) HS Hb Hx). right; reflexivity.
  Qed.

  (* C0/C2: a step that is not a doubling step establishes / keeps the bracket; the width does not grow, and it halves
     unless the step is a plain reflection, after which the pair is tightly bracketed (so the next step halves it) *)
  Lemma step_not_doubling b w : Sp b w -> ~ doubling b w ->
    (B1 (nb b w) (nw b w) /\ Rabs (nw b w - nb b w) = Rabs (w - b)) \/
    (B2 (nb b w) (nw b w) /\ Rabs (nw b w - nb b w) = Rabs (w - b) / 2).
  Proof.
    intros HS Hnd. destruct (relt (c (2 * b - w)) (c b)) eqn:E1.
    - (* reflection better than b, expansion not better than the reflection: the reflection point becomes the best *)
      assert (E2 : relt (c (3 * b - 2 * w)) (c (2 * b - w)) = false).
      { destruct (relt (c (3 * b - 2 * w)) (c (2 * b - w))) eqn:E; [exfalso; apply Hnd; split; assumption | reflexivity]. }
      left. unfold nb, nw, next_point. rewrite E1, E2, E1.
      destruct HS as (Hf & Hle & Hne).
      assert (HS' : Sp (2 * b - w) b).
      { split; [eapply relt_finite; exact E1 | split; [apply relt_ele; exact E1 | lra]]. }
      assert (Hx' : rele (c (2 * b - w)) (c (2 * (2 * b - w) - b)) = true).
      { replace (2 * (2 * b - w) - b) with (3 * b - 2 * w) by ring. apply rele_not. exact E2. }
      split; [split; [|exact Hx'] | ].
      + pose proof (bracket (2 * b - w) b HS' Hx'). exact H.
      + replace (b - (2 * b - w)) with (w - b) by ring. reflexivity.
    - right. assert (Hx : rele (c b) (c (2 * b - w)) = true) by (apply rele_not; exact E1).
      pose proof (bracket b w HS Hx) as Hb.
      destruct (step_B1 b w HS (conj Hb Hx)) as [H1 H2]. split; assumption.
  Qed.

  (* from the loose bracket no step is a doubling step *)
  Lemma B2_not_doubling b w : B2 b w -> ~ doubling b w.
  Proof. intros [_ H] [D1 D2]. apply H in D1. apply rele_not in D1. congruence. Qed.

  (* ... but the plain-reflection case needs the loose bound to give the tight one *)
  Lemma step_B2 b w : Sp b w -> B2 b w ->
    (B1 (nb b w) (nw b w) /\ Rabs (nw b w - nb b w) = Rabs (w - b)) \/
    (B2 (nb b w) (nw b w) /\ Rabs (nw b w - nb b w) = Rabs (w - b) / 2).
  Proof. intros HS HB. apply step_not_doubling; [exact HS | apply B2_not_doubling; exact HB]. Qed.

  (* a doubling step needs the root farther than the width, and does not move the best point away from the root *)
  Lemma step_doubling b w : Sp b w -> doubling b w ->
    Rabs (w - b) < Rabs (r - b) /\ Rabs (nw b w - nb b w) = 2 * Rabs (w - b) /\ Rabs (r - nb b w) <= Rabs (r - b).
  Proof.
    intros (Hf & Hle & Hne) [D1 D2].
    assert (Hnb : nb b w = 3 * b - 2 * w /\ nw b w = b).
    { unfold nb, nw, next_point. rewrite D1, D2.
      assert (relt (c (3 * b - 2 * w)) (c b) = true) by (eapply (elt_trans_ext); eassumption).
      rewrite H. split; reflexivity. }
    destruct Hnb as [-> ->].
    (* the root is strictly beyond the reflection point *)
    destruct (Rlt_dec b w) as [Hbw|Hbw].
    - assert (Hr1 : r < 2 * b - w).
      { apply Rnot_le_lt. intros Hc.
        assert (rele (c (2 * b - w)) (c (3 * b - 2 * w)) = true) by (apply left_mono; lra).
        apply rele_not in H. congruence. }
      split; [abs_lra | split; abs_lra].
    - assert (w < b) by lra.
      assert (Hr1 : 2 * b - w < r).
      { apply Rnot_le_lt. intros Hc.
        assert (rele (c (2 * b - w)) (c (3 * b - 2 * w)) = true) by (apply right_mono; lra).
        apply rele_not in H0. congruence. }
      split; [abs_lra | split; abs_lra].
  Qed.

  (* ------------------------------------------------------------ states and iterations *)
  Notation stepc := (step Rltb real_ops c).
  Definition bs (s : @state R R) : R := vp (s0 s).
  Definition ws (s : @state R R) : R := vp (s1 s).
  Definition width (s : @state R R) : R := Rabs (ws s - bs s).
  Definition stI (s : @state R R) : Prop := Inv Rltb c s /\ Sp (bs s) (ws s).

  Fixpoint steps (n : nat) (s : @state R R) : @state R R :=
    match n with O => s | S k => steps k (stepc s) end.

  Lemma steps_add n k s : steps (n + k) s = steps k (steps n s).
  Proof. revert s. induction n as [|n IH]; intros s; cbn; [reflexivity | apply IH]. Qed.

  Lemma step_pts s : stI s -> bs (stepc s) = nb (bs s) (ws s) /\ ws (stepc s) = nw (bs s) (ws s).
  Proof. intros [(H0 & H1 & _) _]. apply step_points; assumption. Qed.

  Lemma stI_step s : stI s -> stI (stepc s).
  Proof.
    intros HI. destruct (step_pts s HI) as [Eb Ew]. destruct HI as [Hinv HS]. split.
    - apply (proj1 (step_inv Rltb Rltb_irrefl Rltb_trans real_ops c s Hinv)).
    - rewrite Eb, Ew. apply Sp_next. exact HS.
  Qed.

  Lemma stI_steps n s : stI s -> stI (steps n s).
  Proof. revert s. induction n as [|n IH]; intros s H; cbn; [exact H | apply IH, stI_step, H]. Qed.

  Definition B2s (s : @state R R) : Prop := B2 (bs s) (ws s).
  Definition B1s (s : @state R R) : Prop := B1 (bs s) (ws s).
  Definition doublings (s : @state R R) : Prop := doubling (bs s) (ws s).

  (* the bracket bounds the error of the best vertex *)
  Theorem bracket_error s : B2s s -> Rabs (r - bs s) <= 2 * width s.
  Proof. intros [H _]. exact H. Qed.

  (* the first step that is not a doubling step establishes the bracket, without growing the width *)
  Theorem bracket_established s : stI s -> ~ doublings s -> B2s (stepc s) /\ width (stepc s) <= width s.
  Proof.
    intros HI Hnd. destruct (step_pts s HI) as [Eb Ew]. unfold B2s, width. rewrite Eb, Ew.
    destruct HI as [_ HS]. pose proof (Rabs_pos (ws s - bs s)).
    destruct (step_not_doubling (bs s) (ws s) HS Hnd) as [[HB ->] | [HB ->]]; split; try lra; [apply B1_B2|]; exact HB.
  Qed.

  (* the bracket is kept by every step; the width never grows and halves within two steps *)
  Theorem bracket_step s : stI s -> B2s s -> B2s (stepc s) /\ width (stepc s) <= width s.
  Proof. intros HI HB. apply bracket_established; [exact HI | apply B2_not_doubling; exact HB]. Qed.

  Theorem bracket_two_steps s : stI s -> B2s s ->
    B2s (stepc (stepc s)) /\ width (stepc (stepc s)) <= width s / 2.
  Proof.
    intros HI HB. pose proof (stI_step s HI) as HI'.
    destruct (step_pts s HI) as [Eb Ew]. destruct (step_pts _ HI') as [Eb' Ew'].
    pose proof (Rabs_pos (ws s - bs s)) as Hpos.
    destruct HI as [_ HS]. destruct HI' as [_ HS'].
    destruct (step_B2 (bs s) (ws s) HS HB) as [[H1 Hw] | [H2 Hw]].
    - (* plain reflection, then a contraction *)
      rewrite <- Eb, <- Ew in H1, Hw.
      destruct (step_B1 _ _ HS' H1) as [Hw2 H2']. rewrite <- Eb', <- Ew' in Hw2, H2'.
      split; [exact H2'|]. unfold width. rewrite Hw2, Hw. lra.
    - rewrite <- Eb, <- Ew in H2, Hw.
      destruct (step_B2 _ _ HS' H2) as [[H1' Hw2] | [H2' Hw2]]; rewrite <- Eb', <- Ew' in *.
      + split; [apply B1_B2; exact H1'|]. unfold width. rewrite Hw2, Hw. lra.
      + split; [exact H2'|]. unfold width. rewrite Hw2, Hw. lra.
  Qed.

  (* rate: after 2 m steps inside the bracket the width is at most width / 2^m, the error at most twice that *)
  Theorem bracket_rate m s : stI s -> B2s s ->
    B2s (steps (2 * m) s) /\ width (steps (2 * m) s) <= width s / 2 ^ m /\
    Rabs (r - bs (steps (2 * m) s)) <= 2 * width s / 2 ^ m.
  Proof.
    revert s. induction m as [|m IH]; intros s HI HB.
    - cbn. split; [exact HB | split; [lra|]]. pose proof (bracket_error s HB). lra.
    - replace (2 * S m)%nat with (2 + 2 * m)%nat by lia. rewrite steps_add. cbn [steps plus].
      destruct (bracket_two_steps s HI HB) as [HB2 Hw2].
      destruct (IH _ (stI_step _ (stI_step _ HI)) HB2) as (HB' & Hw' & He').
      assert (Hp : 0 < 2 ^ m) by (apply pow_lt; lra).
      assert (Hdiv : width (stepc (stepc s)) / 2 ^ m <= width s / 2 ^ S m).
      { cbn [pow]. unfold Rdiv. rewrite Rinv_mult. apply Rmult_le_reg_r with (2 ^ m); [exact Hp|].
        rewrite !Rmult_assoc, !Rinv_l by lra. lra. }
      split; [exact HB' | split; [lra|]].
      replace (2 * width s / 2 ^ S m) with (2 * (width s / 2 ^ S m)) by (unfold Rdiv; ring).
      replace (2 * width (stepc (stepc s)) / 2 ^ m) with (2 * (width (stepc (stepc s)) / 2 ^ m)) in He' by (unfold Rdiv; ring). lra.
  Qed.

  (* the approach phase: along consecutive doubling steps the width doubles and the best point does not move away from the root;
     each of them needs the root farther than the current width, so J of them at the start force 2^(J-1) width0 < |r - b0| *)
  Lemma doubling_run J s : stI s -> (forall j, (j < J)%nat -> doublings (steps j s)) ->
    width (steps J s) = 2 ^ J * width s /\ Rabs (r - bs (steps J s)) <= Rabs (r - bs s).
  Proof.
    revert s. induction J as [|J IH]; intros s HI Hall.
    - cbn. split; lra.
    - assert (Hd0 : doublings s) by (apply (Hall O); lia).
      destruct (step_pts s HI) as [Eb Ew]. destruct HI as [Hinv HS].
      destruct (step_doubling (bs s) (ws s) HS Hd0) as (_ & Hw & He).
      destruct (IH (stepc s) (stI_step s (conj Hinv HS))) as [Hw' He'].
      { intros j Hj. apply (Hall (S j)). lia. }
      cbn [steps]. split.
      + rewrite Hw'. rewrite <- Eb, <- Ew in Hw. fold (width (stepc s)) (width s) in Hw. rewrite Hw. cbn [pow]. ring.
      + rewrite Eb in He'. lra.
  Qed.

  Theorem doubling_count J s : stI s -> (forall j, (j <= J)%nat -> doublings (steps j s)) ->
    2 ^ J * width s < Rabs (r - bs s).
  Proof.
    intros HI Hall.
    destruct (doubling_run J s HI) as [Hw He]; [intros j Hj; apply Hall; lia|].
    pose proof (stI_steps J s HI) as [_ HSJ].
    destruct (step_doubling _ _ HSJ (Hall J (le_n J))) as (Hlt & _ & _).
    fold (width (steps J s)) in Hlt. lra.
  Qed.

  (* ------------------------------------------------------------ the executor: run_loop is `steps k` for some k <= fuel,
     and k < fuel only when the termination test fired *)
  Lemma run_loop_steps sd fuel s :
    exists k, (k <= fuel)%nat /\ run_loop Rltb real_ops c sd fuel s = steps k s /\
              (k = fuel \/ terminated sd (steps k s) = true).
  Proof.
    revert s. induction fuel as [|f IH]; intros s; cbn.
    - exists O. repeat split; auto.
    - destruct (terminated sd s) eqn:E.
      + exists O. cbn. repeat split; [lia | auto].
      + destruct (IH (stepc s)) as (k & Hk & Hrun & Hend). exists (S k). cbn. repeat split; [lia | exact Hrun |].
        destruct Hend as [-> | Ht]; [left; reflexivity | right; exact Ht].
  Qed.

  (* ------------------------------------------------------------ what an early stop of the standard-deviation test implies.
     Exact arithmetic: the test is (ca - cb)^2 / 2 < tol^2.  With a lower slope m of h:  if the two vertices are on the same
     side of the root their distance is below sqrt 2 tol / m; if they straddle the root with nearly equal costs the test says
     nothing about the distance to the root (e.g. a symmetric pair around the root of a symmetric V stops at once). *)
  Definition sd_real (tol : R) (a b : @ecost R) : bool :=
    match a, b with CFin x, CFin y => Rltb ((x - y) * (x - y)) (2 * tol * tol) | _, _ => false end.

  Theorem sd_stop_same_side tol m s : 0 < m ->
    (forall x y, lo <= x -> x <= y -> y <= hi -> m * (y - x) <= h y - h x) ->
    stI s -> terminated (sd_real tol) s = true -> 0 <= (bs s - r) * (ws s - r) ->
    (m * width s) * (m * width s) < 2 * tol * tol.
  Proof.
    intros Hm Hslope [(H0 & H1 & _) (Hf & _ & _)] Ht Hside.
    unfold terminated in Ht. rewrite H0, H1 in Ht. fold (bs s) (ws s) in Ht.
    unfold vcost in Ht. destruct (inb (bs s)) eqn:Eb; [|discriminate]. destruct (inb (ws s)) eqn:Ew; [|discriminate].
    cbn in Ht. apply Rltb_iff in Ht. apply inb_iff in Eb, Ew.
    assert (Hd : m * width s <= Rabs (Rabs (h (bs s)) - Rabs (h (ws s)))).
    { unfold width.
      assert (Hsign : forall x, lo <= x <= hi -> (r <= x -> 0 <= h x) /\ (x <= r -> h x <= 0)).
      { intros x Hx. split; intros Hc; [pose proof (Hslope r x ltac:(lra) Hc ltac:(lra)) | pose proof (Hslope x r ltac:(lra) Hc ltac:(lra))]; nra. }
      destruct (Hsign _ Eb) as [Hbp Hbn]. destruct (Hsign _ Ew) as [Hwp Hwn].
      destruct (Rle_dec (bs s) (ws s)) as [Hle|Hle].
      - pose proof (Hslope (bs s) (ws s) ltac:(lra) Hle ltac:(lra)).
        destruct (Rle_dec r (bs s)) as [Hrb|Hrb].
        + assert (r <= ws s) by lra. rewrite (Rabs_right (h (bs s))), (Rabs_right (h (ws s))) by (apply Rle_ge; auto). abs_lra.
        + assert (ws s <= r) by nra. rewrite (Rabs_left1 (h (bs s))), (Rabs_left1 (h (ws s))) by (auto; apply Hbn; lra). abs_lra.
      - assert (Hle' : ws s <= bs s) by lra. pose proof (Hslope (ws s) (bs s) ltac:(lra) Hle' ltac:(lra)).
        destruct (Rle_dec r (ws s)) as [Hrb|Hrb].
        + assert (r <= bs s) by lra. rewrite (Rabs_right (h (bs s))), (Rabs_right (h (ws s))) by (apply Rle_ge; auto). abs_lra.
        + assert (bs s <= r) by nra. rewrite (Rabs_left1 (h (bs s))), (Rabs_left1 (h (ws s))) by (auto; apply Hwn; lra). abs_lra. }
    assert (Hpos : 0 <= m * width s) by (apply Rmult_le_pos; [lra | apply Rabs_pos]).
    set (a := Rabs (h (bs s)) - Rabs (h (ws s))) in *.
    assert (Rabs a * Rabs a = a * a) by (unfold Rabs; destruct (Rcase_abs a); ring).
    nra.
  Qed.

  (* ------------------------------------------------------------ from the seeds *)
  Lemma bracket_steps k s : stI s -> B2s s -> B2s (steps k s) /\ width (steps k s) <= width s.
  Proof.
    revert s. induction k as [|k IH]; intros s HI HB; cbn; [split; [exact HB | lra]|].
    destruct (bracket_step s HI HB) as [HB' Hw']. destruct (IH _ (stI_step s HI) HB') as [HB'' Hw'']. split; [exact HB'' | lra].
  Qed.

  Lemma init_stI g0 g1 : g0 <> g1 -> (lo <= g0 <= hi \/ lo <= g1 <= hi) ->
    stI (init Rltb c g0 g1) /\ width (init Rltb c g0 g1) = Rabs (g1 - g0) /\
    (bs (init Rltb c g0 g1) = g0 \/ bs (init Rltb c g0 g1) = g1).
  Proof.
    intros Hne Hin.
    pose proof (init_inv Rltb Rltb_irrefl Rltb_trans c g0 g1) as Hinv.
    assert (Hfin : is_inf (c g0) = false \/ is_inf (c g1) = false) by (destruct Hin; [left | right]; apply finite_iff; assumption).
    unfold stI, width, bs, ws, Sp. revert Hinv. unfold init, sort2, eval. cbn [vc vp].
    destruct (relt (c g1) (c g0)) eqn:E; cbn [s0 s1 vp vc]; intros Hinv.
    - split; [split; [exact Hinv | split; [eapply relt_finite; exact E | split; [apply relt_ele; exact E | auto]]]|].
      split; [rewrite <- Rabs_Ropp; f_equal; ring | right; reflexivity].
    - split; [split; [exact Hinv | split; [| split; [apply rele_not; exact E | auto]]]|].
      + destruct Hfin as [H|H]; [exact H|]. apply (ele_finite Rltb (c g0) (c g1)); [apply rele_not; exact E | exact H].
      + split; [reflexivity | left; reflexivity].
  Qed.

  (* CONVERGENCE.  J doubling steps at the start (the approach to a far root), then a step that is not one; from there on
     the best vertex is within 2 width of the root and the width halves at least every two steps *)
  Theorem nm_converges g0 g1 J m : g0 <> g1 -> (lo <= g0 <= hi \/ lo <= g1 <= hi) ->
    let s := init Rltb c g0 g1 in
    (forall j, (j < J)%nat -> doublings (steps j s)) -> ~ doublings (steps J s) ->
    (forall k, (J + 1 + 2 * m <= k)%nat ->
       B2s (steps k s) /\ Rabs (r - bs (steps k s)) <= 2 * (2 ^ J * Rabs (g1 - g0)) / 2 ^ m) /\
    ((1 <= J)%nat -> 2 ^ (J - 1) * Rabs (g1 - g0) < Rabs (r - bs s)).
  Proof.
    intros Hne Hin s Hdbl Hnot.
    destruct (init_stI g0 g1 Hne Hin) as (HI & Hw0 & _). fold s in HI, Hw0.
    destruct (doubling_run J s HI Hdbl) as [HwJ _].
    pose proof (stI_steps J s HI) as HIJ.
    destruct (bracket_established _ HIJ Hnot) as [HB Hw1].
    pose proof (stI_step _ HIJ) as HI1.
    split.
    - intros k Hk. replace k with (J + (1 + (2 * m + (k - (J + 1 + 2 * m)))))%nat by lia.
      rewrite steps_add. cbn [steps plus]. rewrite steps_add.
      destruct (bracket_rate m _ HI1 HB) as (HBm & Hwm & _).
      destruct (bracket_steps (k - (J + 1 + 2 * m)) _ (stI_steps _ _ HI1) HBm) as [HBk Hwk].
      split; [exact HBk|]. pose proof (bracket_error _ HBk) as He.
      assert (Hp : 0 < 2 ^ m) by (apply pow_lt; lra).
      assert (width (stepc (steps J s)) / 2 ^ m <= 2 ^ J * Rabs (g1 - g0) / 2 ^ m).
      { unfold Rdiv. apply Rmult_le_compat_r; [left; apply Rinv_0_lt_compat; exact Hp | rewrite <- Hw0, <- HwJ; exact Hw1]. }
      replace (2 * (2 ^ J * Rabs (g1 - g0)) / 2 ^ m) with (2 * (2 ^ J * Rabs (g1 - g0) / 2 ^ m)) by (unfold Rdiv; ring). lra.
    - intros HJ. destruct J as [|J']; [lia|]. replace (S J' - 1)%nat with J' by lia.
      rewrite <- Hw0. apply (doubling_count J' s HI). intros j Hj. apply Hdbl. lia.
  Qed.

  (* the same for the executor: unless the termination test fires before iteration J + 1 + 2 m, the returned point obeys the bound *)
  Theorem nm_run_converges sd g0 g1 n J m : g0 <> g1 -> (lo <= g0 <= hi \/ lo <= g1 <= hi) ->
    let s := init Rltb c g0 g1 in
    (forall j, (j < J)%nat -> doublings (steps j s)) -> ~ doublings (steps J s) -> (J + 1 + 2 * m <= n)%nat ->
    (exists k, (k < J + 1 + 2 * m)%nat /\ terminated sd (steps k s) = true) \/
    Rabs (r - nm_result Rltb real_ops c sd g0 g1 n) <= 2 * (2 ^ J * Rabs (g1 - g0)) / 2 ^ m.
  Proof.
    intros Hne Hin s Hdbl Hnot Hn.
    destruct (nm_converges g0 g1 J m Hne Hin Hdbl Hnot) as [Hconv _]. fold s in Hconv.
    unfold nm_result, nm_run. fold s.
    destruct (run_loop_steps sd n s) as (k & Hk & Hrun & Hend).
    destruct (le_lt_dec (J + 1 + 2 * m) k) as [Hge|Hlt].
    - right. rewrite Hrun.
      destruct (init_stI g0 g1 Hne Hin) as (HI & _ & _). fold s in HI.
      pose proof (stI_steps k s HI) as [(_ & _ & _ & Hbest & _) _]. rewrite Hbest.
      apply (Hconv k Hge).
    - left. exists k. split; [exact Hlt|]. destruct Hend as [-> | Ht]; [lia | exact Ht].
  Qed.

  (* with an upper slope M of h at the root the cost of the returned point is bounded as well: the residual contract *)
  Theorem bracket_cost M s : (forall x, lo <= x <= hi -> Rabs (h x) <= M * Rabs (x - r)) -> 0 <= M ->
    stI s -> B2s s -> exists v, vc (s0 s) = CFin v /\ v <= M * (2 * width s).
  Proof.
    intros Hlip HM [(H0 & _) (Hf & _)] HB. rewrite H0. fold (bs s) in *. apply finite_iff in Hf.
    unfold vcost. rewrite (proj2 (inb_iff (bs s)) Hf). eexists; split; [reflexivity|].
    pose proof (Hlip _ Hf). pose proof (bracket_error s HB). rewrite <- Rabs_Ropp in H1. replace (- (r - bs s)) with (bs s - r) in H1 by ring.
    apply Rle_trans with (M * Rabs (bs s - r)); [exact H | apply Rmult_le_compat_l; assumption].
  Qed.
End VCost.

(* non-vacuity: h x = x on [-10, 10] (root 0), seeds 1 and 2: the very first step is not a doubling step (J = 0) *)
Lemma conv_nonvacuous :
  let h := fun x : R => x in
  (-10 <= 0 <= 10 /\ h 0 = 0 /\ (forall x y, -10 <= x -> x < y -> y <= 10 -> h x < h y)) /\
  (1 : R) <> 2 /\ (-10 <= 1 <= 10 \/ -10 <= 2 <= 10) /\
  ~ doublings (-10) 10 h (steps (-10) 10 h 0 (init Rltb (vcost (-10) 10 h) 1 2)).
Proof.
  intros h. split; [split; [lra | split; [reflexivity | intros; unfold h; lra]]|].
  split; [lra | split; [left; lra|]].
  assert (Hc : forall x, -10 <= x <= 10 -> vcost (-10) 10 h x = CFin (Rabs x)).
  { intros x Hx. unfold vcost. rewrite (proj2 (inb_iff (-10) 10 x) Hx). reflexivity. }
  cbn [steps]. unfold init, sort2, eval. cbn [vc vp].
  rewrite (Hc 1), (Hc 2) by lra. cbn [elt].
  assert (E : Rltb (Rabs 2) (Rabs 1) = false).
  { destruct (Rltb (Rabs 2) (Rabs 1)) eqn:E; [|reflexivity]. apply Rltb_iff in E. rewrite !Rabs_right in E by lra. lra. }
  rewrite E. unfold doublings, doubling, bs, ws. cbn [s0 s1 vp].
  intros [_ D2]. replace (3 * 1 - 2 * 2) with (-1) in D2 by ring. replace (2 * 1 - 2) with 0 in D2 by ring.
  rewrite (Hc (-1)), (Hc 0) in D2 by lra. cbn [elt] in D2. apply Rltb_iff in D2.
  rewrite Rabs_R0, Rabs_left in D2 by lra. lra.
Qed.

(* ---------------------------------------------------------------- the statements used by Props/C04.v, with uniform hypotheses *)
Section Uniform.
  Variables (lo hi r : R) (h : R -> R).
  Hypothesis Hr : lo <= r <= hi.
  Hypothesis Hroot : h r = 0.
  Hypothesis Hmono : forall x y, lo <= x -> x < y -> y <= hi -> h x < h y.
  Notation stepc := (step Rltb real_ops (vcost lo hi h)).

  Lemma u_bracket_established s : stI lo hi h s -> ~ doublings lo hi h s ->
    B2s lo hi r h (stepc s) /\ width (stepc s) <= width s /\ Rabs (r - bs (stepc s)) <= 2 * width (stepc s).
  Proof.
    intros HI Hn. destruct (bracket_established lo hi r h Hr Hroot Hmono s HI Hn) as [HB Hw].
    split; [exact HB | split; [exact Hw | apply (bracket_error lo hi r h _ HB)]].
  Qed.
  Lemma u_bracket_rate m s : stI lo hi h s -> B2s lo hi r h s ->
    B2s lo hi r h (steps lo hi h (2 * m) s) /\ width (steps lo hi h (2 * m) s) <= width s / 2 ^ m /\
    Rabs (r - bs (steps lo hi h (2 * m) s)) <= 2 * width s / 2 ^ m.
  Proof. apply (bracket_rate lo hi r h Hr Hroot Hmono). Qed.
  Lemma u_doubling_count J s : stI lo hi h s -> (forall j, (j <= J)%nat -> doublings lo hi h (steps lo hi h j s)) ->
    2 ^ J * width s < Rabs (r - bs s).
  Proof. apply (doubling_count lo hi r h Hr Hroot Hmono). Qed.
  Lemma u_sd_stop_same_side tol m s : 0 < m -> (forall x y, lo <= x -> x <= y -> y <= hi -> m * (y - x) <= h y - h x) ->
    stI lo hi h s -> terminated (sd_real tol) s = true -> 0 <= (bs s - r) * (ws s - r) ->
    (m * width s) * (m * width s) < 2 * tol * tol.
  Proof. apply (sd_stop_same_side lo hi r h Hr Hroot). Qed.
  Lemma u_bracket_cost M s : (forall x, lo <= x <= hi -> Rabs (h x) <= M * Rabs (x - r)) -> 0 <= M ->
    stI lo hi h s -> B2s lo hi r h s -> exists v, vc (s0 s) = CFin v /\ v <= M * (2 * width s).
  Proof. apply (bracket_cost lo hi r h). Qed.
End Uniform.
