(* C12 — 2-D Simpson: the translated `simpson2d` is the tensor product of two composite Simpson rules with `divs`
   divisions each (NOT the normalised count the 1-D entry point uses); separable integrands factor; bicubics are exact;
   numbers of integrand calls of the fixed rules. *)
From Coq Require Import Reals QArith ZArith List Bool Lra Lia.
From Coquelicot Require Import Coquelicot.
From SpdVerif Require Import Base.NumOps Gen.Integration Model.Quadrature Proofs.C12_base Proofs.C12_simpson Proofs.C12_rule.
Import ListNotations.
Local Open Scope R_scope.

Lemma steps_value_R : forall (a b : R) n i, (0 < n)%Z ->
  steps_value Rops a b (n + 1) i = a + IZR i * ((b - a) / IZR n).
Proof.
  intros a b n i Hn. unfold steps_value.
  replace (1 <? n + 1)%Z with true by (symmetry; apply Z.ltb_lt; lia).
  cbv zeta. cbn [sdiv sadd smul ssub s_of_Z Rops]. replace (n + 1 - 1)%Z with n by lia.
  change (Sc Rops) with R. field. apply not_0_IZR. lia.
Qed.

Lemma rapply_simpson_rule_n' : forall (a b : R) n (g : R -> R),
  rapply (simpson_rule_n Rops a b n) g =
  rsum (map (fun i => (b - a) / IZR n / 3 * wR i n * g (a + IZR i * ((b - a) / IZR n))) (zseq 0 (Z.to_nat (n + 1)))).
Proof.
  intros a b n g. rewrite fold_rapply. unfold simpson_rule_n, zrange_incl. cbv zeta. rewrite map_map.
  cbn [fst snd sadd smul sdiv ssub s_of_Z Rops]. replace (n - 0 + 1)%Z with (n + 1)%Z by lia. reflexivity.
Qed.

(* the translated simpson2d with the normalised count abstracted: the body only depends on n = simpson2d_norm divs *)
Theorem simpson2d_is_tensor : forall (f : R -> R -> C) (ax bx ay by_ : R) divs, (0 < simpson2d_norm divs)%Z ->
  simpson2d Rops f ax bx ay by_ divs =
  apply_rule2 Rops (tensor Rops (simpson_rule_n Rops ax bx (simpson2d_norm divs)) (simpson_rule_n Rops ay by_ (simpson2d_norm divs))) f.
Proof.
  intros f ax bx ay by_ divs Hd. rewrite apply_rule2_tensor_R.
  unfold simpson2d, simpson2d_norm, simpson2d_norm_divs in *. cbv zeta in *.
  match type of Hd with (0 < ?e)%Z => set (n := e) in * end. clearbody n.
  unfold zrange. replace (n + 1 - 0)%Z with (n + 1)%Z by lia.
  rewrite !zenumerate_map_zseq.
  rewrite vsum_R, !map_map. cbn [vscale Rops fst snd smul sdiv ssub s_of_Z].
  apply pair_eq; cbn [fst snd].
  - rewrite rapply_simpson_rule_n'. rewrite rsum_scal. apply rsum_ext. intros iy _.
    rewrite vsum_R, !map_map. cbn [fst snd vscale Rops].
    rewrite rapply_simpson_rule_n'. rewrite !rsum_scal. apply rsum_ext. intros ix _.
    rewrite !steps_value_R by exact Hd. unfold wR. field. apply not_0_IZR. lia.
  - rewrite rapply_simpson_rule_n'. rewrite rsum_scal. apply rsum_ext. intros iy _.
    rewrite vsum_R, !map_map. cbn [fst snd vscale Rops].
    rewrite rapply_simpson_rule_n'. rewrite !rsum_scal. apply rsum_ext. intros ix _.
    rewrite !steps_value_R by exact Hd. unfold wR. field. apply not_0_IZR. lia.
Qed.

(* accepted divs give an even count >= 2 (independent of how the source obtains it) *)
Lemma simpson2d_accepts_norm : forall d, simpson2d_accepts d = true ->
  Z.even (simpson2d_norm d) = true /\ (2 <= simpson2d_norm d)%Z.
Proof.
  intros d H. unfold simpson2d_accepts, simpson2d_norm, simpson2d_norm_divs in *. cbv zeta in *. bool_facts.
  split; [bool_goal; zmod_lia | zmod_lia].
Qed.

(* separable integrand: product of the two 1-D rule values (same count on both axes) *)
Theorem simpson2d_separable : forall (p q : R -> C) (ax bx ay by_ : R) divs, simpson2d_accepts divs = true ->
  simpson2d Rops (fun x y => Cmult (p x) (q y)) ax bx ay by_ divs =
  Cmult (apply_rule Rops (simpson_rule_n Rops ax bx (simpson2d_norm divs)) p)
        (apply_rule Rops (simpson_rule_n Rops ay by_ (simpson2d_norm divs)) q).
Proof.
  intros p q ax bx ay by_ divs Ha. apply simpson2d_accepts_norm in Ha. destruct Ha as [He Hd].
  rewrite simpson2d_is_tensor by lia. apply tensor_separable.
Qed.

(* product of two complex cubics: exact *)
Theorem simpson2d_exact_bicubic : forall (cp cq : list C) (ax bx ay by_ : R) divs,
  simpson2d_accepts divs = true -> (length cp <= 4)%nat -> (length cq <= 4)%nat ->
  simpson2d Rops (fun x y => Cmult (cpeval Rops cp x) (cpeval Rops cq y)) ax bx ay by_ divs =
  Cmult (cpint Rops cp ax bx) (cpint Rops cq ay by_).
Proof.
  intros cp cq ax bx ay by_ divs Ha Hp Hq. rewrite simpson2d_separable by exact Ha.
  apply simpson2d_accepts_norm in Ha. destruct Ha as [He Hd].
  rewrite !simpson_rule_n_exact by (try assumption; lia). reflexivity.
Qed.

(* whenever both entry points accept divs, 2-D on a separable bicubic = product of the 1-D results *)
Theorem simpson_2d_product_of_1d : forall (cp cq : list C) (ax bx ay by_ : R) divs,
  simpson_accepts divs = true -> simpson2d_accepts divs = true -> (length cp <= 4)%nat -> (length cq <= 4)%nat ->
  simpson2d Rops (fun x y => Cmult (cpeval Rops cp x) (cpeval Rops cq y)) ax bx ay by_ divs =
  Cmult (simpson Rops (cpeval Rops cp) ax bx divs) (simpson Rops (cpeval Rops cq) ay by_ divs).
Proof.
  intros. rewrite simpson2d_exact_bicubic, !simpson_exact by assumption. reflexivity.
Qed.

(* reversal of either axis negates, for every integrand *)
Theorem simpson2d_reverse_x : forall (f : R -> R -> C) (ax bx ay by_ : R) divs, simpson2d_accepts divs = true ->
  simpson2d Rops f bx ax ay by_ divs = Copp (simpson2d Rops f ax bx ay by_ divs).
Proof.
  intros f ax bx ay by_ divs Ha. apply simpson2d_accepts_norm in Ha. destruct Ha as [He Hd].
  rewrite !simpson2d_is_tensor by lia. rewrite !apply_rule2_tensor_R. unfold Copp. cbn [fst snd].
  f_equal.
  - rewrite (rapply_ext' _ _ (fun y => -1 * rapply (simpson_rule_n Rops ax bx (simpson2d_norm divs)) (fun x => fst (f x y)))).
    2:{ intros y. rewrite simpson_rule_n_reverse_real by (try assumption; lia). ring. }
    rewrite rapply_scal. ring.
  - rewrite (rapply_ext' _ _ (fun y => -1 * rapply (simpson_rule_n Rops ax bx (simpson2d_norm divs)) (fun x => snd (f x y)))).
    2:{ intros y. rewrite simpson_rule_n_reverse_real by (try assumption; lia). ring. }
    rewrite rapply_scal. ring.
Qed.

Theorem simpson2d_reverse_y : forall (f : R -> R -> C) (ax bx ay by_ : R) divs, simpson2d_accepts divs = true ->
  simpson2d Rops f ax bx by_ ay divs = Copp (simpson2d Rops f ax bx ay by_ divs).
Proof.
  intros f ax bx ay by_ divs Ha. apply simpson2d_accepts_norm in Ha. destruct Ha as [He Hd].
  rewrite !simpson2d_is_tensor by lia. rewrite !apply_rule2_tensor_R. unfold Copp. cbn [fst snd].
  f_equal; apply simpson_rule_n_reverse_real; try assumption; lia.
Qed.

(* ------------------------------------------------------------------ accepted parameters *)
(* the even-divs special case (it already held before 8ae06cd; the general statement is [accept_1d_2d] below) *)
Theorem accept_1d_2d_even : forall d, Z.even d = true -> simpson_accepts d = true -> simpson2d_accepts d = true.
Proof.
  intros d He Ha. unfold simpson_accepts, simpson2d_accepts in *. cbv zeta in *. bool_facts. bool_goal; zmod_lia.
Qed.

(* ------------------------------------------------------------------ number of integrand calls of the fixed rules *)
Lemma list_sum_const : forall {A} (l : list A) (k : nat), list_sum (map (fun _ => k) l) = (length l * k)%nat.
Proof. intros A l k; unfold list_sum; induction l as [|x l IH]; cbn [map fold_right length]; [reflexivity | rewrite IH; lia]. Qed.

Theorem simpson_calls_count : forall (f : R -> C) (a b : R) divs, simpson_accepts divs = true ->
  simpson_calls Rops f (fun _ => 1%nat) a b divs = Z.to_nat (simpson_norm divs + 1).
Proof.
  intros f a b divs Ha. apply simpson_accepts_norm in Ha. unfold simpson_calls, simpson_norm, simpson_norm_divs in *. cbv zeta in *.
  rewrite map_map. rewrite (list_sum_const _ 1%nat). unfold zrange_incl. rewrite zseq_length. lia.
Qed.

Theorem simpson2d_calls_count : forall (f : R -> R -> C) (ax bx ay by_ : R) divs, simpson2d_accepts divs = true ->
  simpson2d_calls Rops f (fun _ _ => 1%nat) ax bx ay by_ divs =
  (Z.to_nat (simpson2d_norm divs + 1) * Z.to_nat (simpson2d_norm divs + 1))%nat.
Proof.
  intros f ax bx ay by_ divs Ha. apply simpson2d_accepts_norm in Ha. destruct Ha as [He Hd].
  unfold simpson2d_calls, simpson2d_norm, simpson2d_norm_divs in *. cbv zeta in *.
  match type of Hd with (2 <= ?e)%Z => set (n := e) in * end. clearbody n.
  unfold zrange. rewrite !zenumerate_map_zseq, !map_map.
  rewrite (map_ext _ (fun _ => Z.to_nat (n + 1))).
  2:{ intros iy. rewrite (list_sum_const _ 1%nat), zseq_length. lia. }
  rewrite list_sum_const, zseq_length. replace (n + 1 - 0)%Z with (n + 1)%Z by lia. reflexivity.
Qed.

(* ------------------------------------------------------------------ linearity of the translated entry points *)
Theorem simpson_linear : forall (alpha beta : C) (f g : R -> C) (a b : R) divs,
  simpson Rops (fun x => Cplus (Cmult alpha (f x)) (Cmult beta (g x))) a b divs =
  Cplus (Cmult alpha (simpson Rops f a b divs)) (Cmult beta (simpson Rops g a b divs)).
Proof. intros. rewrite !simpson_is_rule. apply rule_linear. Qed.

Theorem simpson2d_linear : forall (alpha beta : C) (f g : R -> R -> C) (ax bx ay by_ : R) divs, (0 < simpson2d_norm divs)%Z ->
  simpson2d Rops (fun x y => Cplus (Cmult alpha (f x y)) (Cmult beta (g x y))) ax bx ay by_ divs =
  Cplus (Cmult alpha (simpson2d Rops f ax bx ay by_ divs)) (Cmult beta (simpson2d Rops g ax bx ay by_ divs)).
Proof. intros. rewrite !simpson2d_is_tensor by assumption. apply rule2_linear. Qed.

Lemma simpson2d_reverse : forall (f : R -> R -> C) (ax bx ay by_ : R) divs, simpson2d_accepts divs = true ->
  simpson2d Rops f bx ax ay by_ divs = Copp (simpson2d Rops f ax bx ay by_ divs) /\
  simpson2d Rops f ax bx by_ ay divs = Copp (simpson2d Rops f ax bx ay by_ divs).
Proof. intros; split; [apply simpson2d_reverse_x | apply simpson2d_reverse_y]; assumption. Qed.

Lemma accept_norm : forall d,
  (simpson_accepts d = true -> Z.even (simpson_norm d) = true /\ (2 <= simpson_norm d)%Z) /\
  (simpson2d_accepts d = true -> Z.even (simpson2d_norm d) = true /\ (2 <= simpson2d_norm d)%Z).
Proof.
  intros d. split; intros H.
  - split; [apply simpson_norm_even | apply simpson_accepts_norm; exact H].
  - apply simpson2d_accepts_norm; exact H.
Qed.

(* the Simpson arms of Integrator::integrate / integrate2d (translated) forward their arguments unchanged *)
Lemma dispatch_simpson : forall (f : R -> C) (g : R -> R -> C) (a b c d eps : R) divs depth,
  integrate_Simpson Rops f a b divs = simpson Rops f a b divs /\
  integrate2d_Simpson Rops g a b c d divs = simpson2d Rops g a b c d divs /\
  integrate_AdaptiveSimpson Rops f a b eps depth = simpson_adaptive Rops f a b eps depth /\
  integrate2d_AdaptiveSimpson Rops g a b c d eps depth = simpson_adaptive_2d Rops g a b c d eps depth.
Proof. intros. repeat split; reflexivity. Qed.

(* ------------------------------------------------------------------ accepted parameters, full strength (repaired tree) *)
Lemma accept_from4 : forall d, (4 <= d)%Z -> simpson_accepts d = true /\ simpson2d_accepts d = true.
Proof. intros d H. unfold simpson_accepts, simpson2d_accepts. cbv zeta. split; bool_goal; zmod_lia. Qed.

Lemma accept_1d_2d : forall d, simpson_accepts d = true -> simpson2d_accepts d = true.
Proof. intros d Ha. unfold simpson_accepts, simpson2d_accepts in *. cbv zeta in *. bool_facts. bool_goal; zmod_lia. Qed.

(* the division counts the entry points really use stay within 2 of the requested one *)
Lemma norm_bounds : forall d, (4 <= d)%Z ->
  (d - 2 <= simpson_norm d <= d)%Z /\ (d <= simpson2d_norm d <= d + 1)%Z.
Proof.
  intros d H. unfold simpson_norm, simpson_norm_divs, simpson2d_norm, simpson2d_norm_divs. cbv zeta. split; zmod_lia.
Qed.
