(* C13 — the Snell inversion without an oracle: grpE's executable model of argmin's two-vertex Nelder–Mead (Model/NM1d.v,
   theorems Proofs/C04_nm.v) instantiated over the reals for Beam::calc_internal_theta_from_external:
   cost |sin theta_e - n(theta) sin theta| (generated snell_cost_gen), seeds (theta_e, theta_e + 1), bounds [0, pi/2] —
   for EVERY iteration budget and EVERY termination test.  Plus the bracketing fact (intermediate value theorem): with a
   continuous index >= 1 the cost has a zero in [0, theta_e]. *)
From Coq Require Import Reals Lra List Bool.
From Coquelicot Require Import Coquelicot.
From SpdVerif Require Import Base.Rx Model.Optics Model.Fresnel Gen.Beam Model.Beam Model.NM1d Proofs.C04_nm
  Proofs.C02_frame Proofs.C13_norm Proofs.C13_beam Proofs.C13_snell.
Local Open Scope R_scope.

(* strict order on real costs *)
Definition Rltb (a b : R) : bool := if Rlt_dec a b then true else false.
Lemma Rltb_true a b : Rltb a b = true <-> a < b.
Proof. unfold Rltb. destruct (Rlt_dec a b); split; intros; try assumption; try reflexivity; try discriminate; contradiction. Qed.
Lemma Rltb_irrefl a : Rltb a a = false.
Proof. unfold Rltb. destruct (Rlt_dec a a); [lra | reflexivity]. Qed.
Lemma Rltb_trans a b c : Rltb a b = true -> Rltb b c = true -> Rltb a c = true.
Proof. rewrite !Rltb_true. lra. Qed.
Lemma Rltb_cotrans a b c : Rltb a c = true -> Rltb a b = true \/ Rltb b c = true.
Proof. rewrite !Rltb_true. intros H. destruct (Rlt_dec a b); [left; assumption | right; lra]. Qed.

(* the point operations of argmin over the reals (x * 1, x0 + (x0 - w) * 1, …) *)
Definition real_ops : @ops R :=
  mkOps (fun p => p * 1) (fun x0 w => x0 + (x0 - w) * 1) (fun x0 xr => x0 + (xr - x0) * 2)
        (fun x0 x => x0 + (x - x0) * 0.5) (fun b p => b + (p - b) * 0.5).

(* Cost1d::cost: +infinity outside [lo, hi] *)
Definition in_range (lo hi x : R) : bool := if Rle_dec lo x then (if Rle_dec x hi then true else false) else false.
Definition bounded_cost (lo hi : R) (g : R -> R) (x : R) : @ecost R := if in_range lo hi x then CFin (g x) else CInf.

(* math::nelder_mead_1d over the reals: sd is NelderMead::terminate (any test), fuel the iteration budget (any) *)
Definition nm_real (sd : R -> @ecost R -> @ecost R -> bool) (fuel : R -> nat)
  (cost : R -> R) (g0 g1 max_iter lo hi tol : R) : R :=
  nm_result Rltb real_ops (bounded_cost lo hi cost) (sd tol) g0 g1 (fuel max_iter).

Lemma in_range_spec lo hi x : in_range lo hi x = true <-> lo <= x <= hi.
Proof.
  unfold in_range. destruct (Rle_dec lo x), (Rle_dec x hi); split; intros H; try reflexivity; try discriminate; try lra.
Qed.

Section Instance.
Variable sd : R -> @ecost R -> @ecost R -> bool.
Variable fuel : R -> nat.
Variable n_along : vec -> R.
Variable s : beam.
Variable e : R.
Hypothesis He : Rabs e <= PI / 2.

Let nm := nm_real sd fuel.
Let star := theta_star nm n_along s e.
Let cost := snell_cost_gen n_along s e.

Lemma seed_in_range : in_range snell_lower_gen snell_upper_gen (snell_seed0_gen e) = true.
Proof. apply in_range_spec. unfold snell_lower_gen, snell_upper_gen, snell_seed0_gen. rewrite div1. split; [apply Rabs_pos | exact He]. Qed.

(* PROVED, no oracle: the returned angle lies in the bounds and its residual does not exceed the residual at the seed |theta_e| *)
Theorem snell_nm_bounds_and_residual :
  0 <= star <= PI / 2 /\ cost star <= cost (Rabs e).
Proof.
  unfold star, theta_star, nm, nm_real.
  set (f := bounded_cost snell_lower_gen snell_upper_gen (snell_cost_gen n_along s e)).
  set (g0 := snell_seed0_gen e). set (g1 := snell_seed1_gen e). set (n := fuel snell_max_iter_gen).
  set (sdt := sd snell_tolerance_gen).
  assert (Hf0 : f g0 = CFin (snell_cost_gen n_along s e g0)).
  { unfold f, bounded_cost, g0. rewrite seed_in_range. reflexivity. }
  destruct (nm_bounds Rltb Rltb_irrefl Rltb_trans Rltb_cotrans real_ops f sdt
              (in_range snell_lower_gen snell_upper_gen) g0 g1 n) as [Hin Hfin].
  { intros x Hx. unfold f, bounded_cost. rewrite Hx. reflexivity. }
  { left. rewrite Hf0. reflexivity. }
  apply in_range_spec in Hin. unfold snell_lower_gen, snell_upper_gen in Hin.
  split; [exact Hin |].
  destruct (nm_monotone Rltb Rltb_irrefl Rltb_trans Rltb_cotrans real_ops f sdt g0 g1 n) as (Hc & H0 & _).
  rewrite Hc in H0. unfold nm_result in *.
  set (r := vp (sbest (nm_run Rltb real_ops f sdt g0 g1 n))) in *.
  assert (Hfr : f r = CFin (snell_cost_gen n_along s e r)).
  { unfold f, bounded_cost. replace (in_range snell_lower_gen snell_upper_gen r) with true; [reflexivity |].
    symmetry. apply in_range_spec. exact Hin. }
  rewrite Hfr, Hf0 in H0. unfold ele, elt in H0. apply negb_true_iff in H0.
  unfold cost. replace (Rabs e) with g0 by (unfold g0, snell_seed0_gen; rewrite div1; reflexivity).
  destruct (Rlt_dec (snell_cost_gen n_along s e g0) (snell_cost_gen n_along s e r)) as [Hlt | Hge]; [| lra].
  apply Rltb_true in Hlt. rewrite Hlt in H0. discriminate.
Qed.

(* the residual at the seed: (n(theta_e) - 1) sin|theta_e| when n >= 1 (n along the direction of polar angle theta_e itself) *)
Lemma residual_at_seed :
  1 <= n_along (normalize (polar_dir (b_phi s) e)) ->
  cost (Rabs e) = (n_along (normalize (polar_dir (b_phi s) e)) - 1) * sin (Rabs e).
Proof.
  intros Hn. unfold cost, snell_cost_gen. rewrite !div1, !mul1. rewrite signum_abs.
  rewrite abs_sin_small by (pose proof PI_RGT_0; lra).
  change (sin e * cos (b_phi s), sin e * sin (b_phi s), cos e) with (polar_dir (b_phi s) e).
  set (n := n_along (normalize (polar_dir (b_phi s) e))) in *.
  assert (0 <= sin (Rabs e)) by (apply sin_ge_0; pose proof PI_RGT_0; pose proof (Rabs_pos e); lra).
  replace (sin (Rabs e) - n * sin (Rabs e)) with (- ((n - 1) * sin (Rabs e))) by ring. rewrite Rabs_Ropp, Rabs_right; [reflexivity | nra].
Qed.
End Instance.

(* ---- bracketing: a continuous index >= 1 along the path t |-> (phi, sign(theta_e) t), 0 <= t <= |theta_e|, gives a zero of the cost *)
Theorem snell_root_exists n_along s e :
  Rabs e <= PI / 2 ->
  (forall t, 0 <= t <= Rabs e -> continuity_pt (fun u => n_along (normalize (polar_dir (b_phi s) (signum e * u)))) t) ->
  1 <= n_along (normalize (polar_dir (b_phi s) e)) ->
  exists t, 0 <= t <= Rabs e /\ snell_cost_gen n_along s e t = 0.
Proof.
  intros He Hcont Hn. set (a := Rabs e). assert (Ha0 : 0 <= a) by apply Rabs_pos.
  assert (Hcost : forall t, snell_cost_gen n_along s e t = Rabs (sin a - n_along (normalize (polar_dir (b_phi s) (signum e * t))) * sin t)).
  { intros t. unfold snell_cost_gen. rewrite !div1, !mul1. rewrite abs_sin_small by (pose proof PI_RGT_0; lra). reflexivity. }
  set (g := fun t => n_along (normalize (polar_dir (b_phi s) (signum e * t))) * sin t - sin a).
  assert (Hse : 0 <= sin a) by (apply sin_ge_0; pose proof PI_RGT_0; unfold a in *; lra).
  assert (Hg0 : g 0 = - sin a) by (unfold g; rewrite sin_0; ring).
  assert (Hge : 0 <= g a).
  { unfold g. unfold a at 1. rewrite signum_abs. set (n := n_along (normalize (polar_dir (b_phi s) e))) in *. nra. }
  assert (Hz : forall t, g t = 0 -> snell_cost_gen n_along s e t = 0).
  { intros t Ht. rewrite Hcost. unfold g in Ht.
    replace (sin a - n_along (normalize (polar_dir (b_phi s) (signum e * t))) * sin t) with 0 by lra. apply Rabs_R0. }
  destruct (Req_dec (sin a) 0) as [Hs0 | Hsn].
  { exists 0. split; [lra |]. apply Hz. rewrite Hg0. lra. }
  destruct (Req_dec (g a) 0) as [Hge0 | Hgen].
  { exists a. split; [lra |]. apply Hz, Hge0. }
  assert (He0 : 0 < a).
  { destruct (Req_dec a 0) as [E | Hne]; [rewrite E, sin_0 in Hsn; lra | lra]. }
  destruct (Ranalysis5.IVT_interv g 0 a) as [z [Hz1 Hz2]].
  - intros x Hx. unfold g. apply continuity_pt_minus.
    + apply continuity_pt_mult; [apply Hcont; exact Hx | apply continuity_sin].
    + apply continuity_pt_const. intros u v. reflexivity.
  - exact He0.
  - rewrite Hg0. lra.
  - lra.
  - exists z. split; [exact Hz1 | apply Hz, Hz2].
Qed.

(* the round-trip theorem with the optimiser modelled: only the residual bound r (convergence) remains a hypothesis *)
Theorem snell_roundtrip_model sd fuel n_along s e r M :
  beam_inv s -> Rabs e <= M -> M < PI / 2 ->
  snell_cost_gen n_along s e (theta_star (nm_real sd fuel) n_along s e) <= r ->
  sin (Rabs e) + r <= sin M ->
  let s' := set_theta_external_gen (snell_inv_of (nm_real sd fuel) n_along) s e in
  Rabs (b_theta s') <= PI / 2 /\
  Rabs (sin (Rabs e) - n_along (normalize (polar_dir (b_phi s) (b_theta s'))) * sin (Rabs (b_theta s'))) <= r /\
  Rabs (theta_external_gen n_along s' - e) <= r / cos M.
Proof.
  intros Hs He HM Hc HrM s'.
  assert (He2 : Rabs e <= PI / 2) by lra.
  destruct (snell_nm_bounds_and_residual sd fuel n_along s e He2) as [Hb _].
  pose proof (abs_theta_after (nm_real sd fuel) n_along s e Hs Hb) as Ea.
  pose proof (stored_angle_satisfies_snell (nm_real sd fuel) n_along s e r M Hs He HM Hb Hc) as H2.
  pose proof (snell_roundtrip (nm_real sd fuel) n_along s e r M Hs He HM Hb Hc HrM) as H3.
  fold s' in Ea, H2, H3. split; [rewrite Ea; lra | split; [exact H2 | exact H3]].
Qed.
