(* C10 — identical sources (the six main grids are one array F) at zero delay:
   rate_ss = rate_ii = 1/2 (1 - P),  visibility = P,  P = Re tr((F F^dagger)^2) / (tr F F^dagger)^2. *)
From Coq Require Import Reals Lra Lia Arith Psatz.
From SpdVerif Require Import Model.FinSum Model.Hom Model.Hom2 Proofs.FinSum_lemmas Proofs.Cx_lemmas Proofs.C09_range
  Proofs.CMat Proofs.C10_sums Proofs.C10_svd Proofs.C10_expand.
Local Open Scope R_scope.

Section Identical.
  Variables (n : nat) (F AI BS : nat -> cx R).
  Let A := ts_identical F AI BS.
  Let Fm := Fmat n F.
  Let N := jsi_norm ROps (n * n) F.

  Lemma frob2_N : frob2 ROps n Fm = N.
  Proof. unfold frob2, N. rewrite jsi_norm_rsum, rsum_flat. reflexivity. Qed.

  Lemma cross_term_identity (p q r t : cx R) :
    cre ((p *c q) *c ((r *c t) *c (1, 0))^*) = cre ((p *c r^*) *c (q *c t^*)).
  Proof. cx_destruct. cx_unfold. ring. Qed.

  Lemma re_tr_sq_FFh_rsum4 :
    re_tr_sq ROps n (FFh ROps n Fm)
    = rsum4 n (fun s1 s2 i1 i2 => cre ((Fm s1 i1 *c (Fm s2 i1)^*) *c (Fm s2 i2 *c (Fm s1 i2)^*))).
  Proof.
    unfold re_tr_sq, rsum4. change (gsum ROps) with rsum.
    apply rsum_ext; intros s1 _. apply rsum_ext; intros s2 _.
    unfold FFh. change (gcsum ROps) with csum. apply re_csum_mul.
  Qed.

  Lemma ts_sum_ss_identical u :
    (forall k l, u k l = (1, 0)) ->
    ts_sum n A (ts_b_ss ROps n A) u = 2 * (N * N) - 2 * re_tr_sq ROps n (FFh ROps n Fm).
  Proof.
    intros Hu. unfold ts_sum. rewrite rsum_flat2.
    rewrite (rsum4_ext n _ (fun i1 s1 i2 s2 =>
      (cnorm2 ROps (F (i1 * n + s1)%nat) * cnorm2 ROps (F (i2 * n + s2)%nat)
       + cnorm2 ROps (F (i1 * n + s2)%nat) * cnorm2 ROps (F (i2 * n + s1)%nat))
      - 2 * cre ((Fm s1 i1 *c (Fm s2 i1)^*) *c (Fm s2 i2 *c (Fm s1 i2)^*)))).
    - rewrite rsum4_sub, rsum4_add, rsum4_scal.
      rewrite (rsum4_pairs_ab_cd n (fun k => cnorm2 ROps (F k)) (fun k => cnorm2 ROps (F k))).
      rewrite (rsum4_pairs_ad_cb n (fun k => cnorm2 ROps (F k)) (fun k => cnorm2 ROps (F k))).
      rewrite re_tr_sq_FFh_rsum4.
      rewrite (rsum4_perm_bdac n (fun i1 s1 i2 s2 => cre ((Fm s1 i1 *c (Fm s2 i1)^*) *c (Fm s2 i2 *c (Fm s1 i2)^*)))).
      unfold N. rewrite jsi_norm_rsum. ring.
    - intros i1 s1 i2 s2 _ Hs1 _ Hs2.
      rewrite ts_b_ss_flat by assumption. rewrite ts_term_expand, Hu.
      unfold ts_a, A, ts_identical. cbn [first_s1_i1 second_s2_i2 first_s2_i1 second_s1_i2].
      rewrite !cnorm2_cmul. replace (cnorm2 ROps (1, 0)) with 1 by (cx_unfold; ring).
      rewrite cross_term_identity. unfold Fm, Fmat, get_1d_index. ring.
  Qed.

  Lemma ts_b_ii_identical i1 i2 : ts_b_ii ROps n A i1 i2 = ts_b_ss ROps n A i1 i2.
  Proof.
    unfold ts_b_ii, ts_b_ss, A, ts_identical. cbn [first_s1_i2 second_s2_i1 first_s2_i1 second_s1_i2].
    destruct (get_2d_indices i1 n), (get_2d_indices i2 n). apply cmul_comm.
  Qed.

  Lemma ts_sum_ii_identical u : ts_sum n A (ts_b_ii ROps n A) u = ts_sum n A (ts_b_ss ROps n A) u.
  Proof.
    unfold ts_sum. apply rsum_ext; intros i1 _. apply rsum_ext; intros i2 _. rewrite ts_b_ii_identical. reflexivity.
  Qed.

  Theorem identical_zero_delay u :
    (forall k l, u k l = (1, 0)) -> N <> 0 ->
    ts_rate_ss ROps n A u = 1 / 2 * (1 - purity_s ROps n Fm) /\
    ts_rate_ii ROps n A u = 1 / 2 * (1 - purity_i ROps n Fm) /\
    visibility_of_rate (ts_rate_ss ROps n A u) = purity_s ROps n Fm /\
    visibility_of_rate (ts_rate_ii ROps n A u) = purity_i ROps n Fm /\
    purity_s ROps n Fm = purity_i ROps n Fm.
  Proof.
    intros Hu HN.
    assert (Ess : ts_rate_ss ROps n A u = 1 / 2 * (1 - purity_s ROps n Fm)).
    { unfold ts_rate_ss. rewrite ts_rate_unfold, (ts_sum_ss_identical u Hu), purity_s_unfold, frob2_N.
      unfold A, ts_identical. cbn [first_s1_i1 second_s2_i2]. fold N. field. assumption. }
    assert (Eii : ts_rate_ii ROps n A u = 1 / 2 * (1 - purity_i ROps n Fm)).
    { rewrite <- purity_s_eq_i, <- Ess. unfold ts_rate_ii, ts_rate_ss. rewrite !ts_rate_unfold, ts_sum_ii_identical. reflexivity. }
    repeat split; try assumption.
    - rewrite Ess. unfold visibility_of_rate. field.
    - rewrite Eii. unfold visibility_of_rate. field.
    - apply purity_s_eq_i.
  Qed.

  (* range for identical sources at every delay: ss and ii always; si when the two auxiliary grids are not larger *)
  Theorem identical_range u_ss u_ii u_si :
    unit_phases u_ss -> unit_phases u_ii -> unit_phases u_si -> 0 < N ->
    0 <= ts_rate_ss ROps n A u_ss <= 1 /\ 0 <= ts_rate_ii ROps n A u_ii <= 1 /\
    (jsi_norm ROps (n * n) AI * jsi_norm ROps (n * n) BS <= N * N -> 0 <= ts_rate_si ROps n A u_si <= 1).
  Proof.
    intros U1 U2 U3 HN.
    destruct (ts_rates_range n A u_ss u_ii u_si U1 U2 U3) as (Hss & Hii & Hsi); try exact HN.
    repeat split; try (apply Hss; apply Rle_refl); try (apply Hii; apply Rle_refl); apply Hsi; assumption.
  Qed.
End Identical.
