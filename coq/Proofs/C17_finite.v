(* C17: "succeeds with every derived angle, index, waist position and poling period finite (the period is infinite only
   when poling is off)" on the L4 model: the list of non-finite fields is empty under the oracle contracts
   [geometry_defined] (idler angle and waist position defined) and "delta k of the unpoled crystal is not exactly 0". *)
From Coq Require Import String List Bool ZArith QArith.
From SpdVerif Require Import Base.CfgNumOps Spec.ConfigSpec Gen.ConfigTables Model.ConfigTypes Model.Config.
Import ListNotations.

Section Finite.
  Variable num : Type.
  Variable o : NumOps num.
  Variable U : units num.
  Variable K : oracles num.
  Variable minpos : num.
  Variable rj : bool.

  Local Notation try_as_spdc := (try_as_spdc_steps o U K minpos rj).

  Definition geometry_defined : Prop :=
    (forall s p cs pp, o_idler_theta K s p cs pp <> None) /\ (forall cs l p, o_waist_pos K cs l p <> None).

  Lemma focus_step_nf cs b f w : geometry_defined -> snd (focus_step o K cs b f w) = [].
  Proof.
    intros [_ H]. unfold focus_step, waist_position. destruct f; [| reflexivity].
    specialize (H cs (b_wavelength b) (b_pol b)). destruct (o_waist_pos K _ _ _); [reflexivity | congruence].
  Qed.

  (* PER INPUT: the waist positions are defined (the index along z is not 0) and the emission angle of THIS configuration's
     optimum idler is defined *)
  Definition geometry_defined_at (c : spdc_cfg num) : Prop :=
    (forall cs l p, o_waist_pos K cs l p <> None) /\
    (forall signal pp nfp cs, signal_step o K c = Ok signal -> poling_step o K minpos rj c signal = Ok (pp, nfp) ->
       theta_step o K c signal pp = Ok cs -> o_idler_theta K signal (cfg_pump o c) cs pp <> None).

  Lemma geometry_defined_every c : geometry_defined -> geometry_defined_at c.
  Proof. intros [H1 H2]. split; [exact H2 |]. intros; apply H1. Qed.

  Lemma focus_step_nf' cs b f w : (forall cs l p, o_waist_pos K cs l p <> None) -> snd (focus_step o K cs b f w) = [].
  Proof.
    intros H. unfold focus_step, waist_position. destruct f; [| reflexivity].
    specialize (H cs (b_wavelength b) (b_pol b)). destruct (o_waist_pos K _ _ _); [reflexivity | congruence].
  Qed.

  Theorem finite_at c s nf :
    geometry_defined_at c ->
    (forall signal, signal_step o K c = Ok signal -> neqb o (o_dkz0 K signal (cfg_pump o c) (cfg_cs0 o c)) (n0 o) = false) ->
    try_as_spdc c = Ok (s, nf) -> nf = [].
  Proof.
    intros [Hw Hg] Hz. unfold Config.try_as_spdc_steps.
    destruct (signal_step o K c) as [signal | |] eqn:Hs; cbn [bind]; try discriminate.
    specialize (Hz signal eq_refl).
    destruct (poling_step o K minpos rj c signal) as [[pp nfp] | |] eqn:Hp; cbn [bind fst snd]; try discriminate.
    assert (Hnfp : nfp = []).
    { revert Hp. unfold poling_step, poling_of_cfg. destruct (c_pp c) as [| [| pu] a].
      - intros H; inversion H; reflexivity.
      - unfold optimum_poling_period. destruct (signal_le_pump o _ _); cbn [bind]; try discriminate. rewrite Hz.
        destruct (o_nm_period K _ _ _); cbn [bind]; try discriminate.
        destruct (_ || _); cbn [bind]; try discriminate. intros H; inversion H; reflexivity.
      - destruct (rj && neqb o pu (n0 o)); try discriminate.
        destruct (compute_sign o K _ _ _); cbn [bind]; try discriminate. intros H; inversion H; reflexivity. }
    destruct (theta_step o K c signal pp) as [cs | |] eqn:Ht; cbn [bind]; try discriminate.
    destruct (idler_step o K c signal cs pp) as [[idler nfi] | |] eqn:Hi; cbn [bind fst snd]; try discriminate.
    assert (Hnfi : nfi = []).
    { revert Hi. unfold idler_step. destruct (c_idler c) as [| ic].
      - unfold idler_optimum. destruct (signal_le_pump o _ _); try discriminate.
        specialize (Hg signal pp nfp cs eq_refl Hp Ht).
        destruct (o_idler_theta K _ _ _ _); [| congruence]. intros H; inversion H; reflexivity.
      - destruct (beam_of_cfg o K _ ic cs); cbn [bind]; try discriminate. intros H; inversion H; reflexivity. }
    unfold finish_spdc. intros H. inversion H. subst.
    rewrite !(focus_step_nf' _ _ _ _ Hw). reflexivity.
  Qed.

  Theorem finite_partial c s nf :
    geometry_defined ->
    (forall signal, signal_step o K c = Ok signal -> neqb o (o_dkz0 K signal (cfg_pump o c) (cfg_cs0 o c)) (n0 o) = false) ->
    try_as_spdc c = Ok (s, nf) -> nf = [].
  Proof. intros Hg. apply finite_at. apply geometry_defined_every. exact Hg. Qed.

  (* poling is on in the setup exactly when the configuration asks for it *)
  Theorem poling_off_iff c s nf : try_as_spdc c = Ok (s, nf) -> (s_pp s = PolOff <-> c_pp c = PCOff).
  Proof.
    unfold Config.try_as_spdc_steps.
    destruct (signal_step o K c) as [signal | |]; cbn [bind]; try discriminate.
    destruct (poling_step o K minpos rj c signal) as [[pp nfp] | |] eqn:Hp; cbn [bind fst snd]; try discriminate.
    destruct (theta_step o K c signal pp) as [cs | |]; cbn [bind]; try discriminate.
    destruct (idler_step o K c signal cs pp) as [[idler nfi] | |]; cbn [bind fst snd]; try discriminate.
    unfold finish_spdc. intros H. inversion H. subst. cbn [s_pp].
    revert Hp. unfold poling_step, poling_of_cfg. destruct (c_pp c) as [| [| pu] a].
    - intros Hp; inversion Hp. split; reflexivity.
    - destruct (optimum_poling_period o K minpos _ _ _) as [[per | []] | |]; cbn [bind]; try discriminate;
        intros Hp; inversion Hp; unfold poling_new; try destruct (nltb o _ _); split; discriminate.
    - destruct (rj && neqb o pu (n0 o)); try discriminate.
      destruct (compute_sign o K _ _ _); cbn [bind]; try discriminate.
      intros Hp; inversion Hp; unfold poling_new; destruct (nltb o _ _); split; discriminate.
  Qed.

  (* an infinite period (flagged NFPeriodInfinite) can only come from the automatic period with delta k exactly 0 *)
  Theorem infinite_period_only_if c s nf :
    try_as_spdc c = Ok (s, nf) -> In NFPeriodInfinite nf ->
    exists a signal, c_pp c = PCConfig Auto a /\ signal_step o K c = Ok signal /\
                     neqb o (o_dkz0 K signal (cfg_pump o c) (cfg_cs0 o c)) (n0 o) = true.
  Proof.
    unfold Config.try_as_spdc_steps.
    destruct (signal_step o K c) as [signal | |] eqn:Hs; cbn [bind]; try discriminate.
    destruct (poling_step o K minpos rj c signal) as [[pp nfp] | |] eqn:Hp; cbn [bind fst snd]; try discriminate.
    destruct (theta_step o K c signal pp) as [cs | |]; cbn [bind]; try discriminate.
    destruct (idler_step o K c signal cs pp) as [[idler nfi] | |] eqn:Hi; cbn [bind fst snd]; try discriminate.
    unfold finish_spdc. intros H Hin. inversion H. subst. clear H.
    assert (Hnfi : ~ In NFPeriodInfinite nfi).
    { revert Hi. unfold idler_step. destruct (c_idler c) as [| ic].
      - unfold idler_optimum. destruct (signal_le_pump o _ _); try discriminate.
        destruct (o_idler_theta K _ _ _ _); intros H; inversion H; cbn; intuition discriminate.
      - destruct (beam_of_cfg o K _ ic cs); cbn [bind]; try discriminate. intros H; inversion H; cbn; tauto. }
    assert (Hf : forall cs b f w, w <> NFPeriodInfinite -> ~ In NFPeriodInfinite (snd (focus_step o K cs b f w))).
    { intros cs' b f w Hw. unfold focus_step, waist_position. destruct f; cbn; [| tauto].
      destruct (o_waist_pos K _ _ _); cbn; intuition congruence. }
    rewrite !in_app_iff in Hin. destruct Hin as [Hin | [Hin | [Hin | Hin]]];
      [| contradiction | exfalso; revert Hin; apply Hf; discriminate | exfalso; revert Hin; apply Hf; discriminate].
    revert Hp. unfold poling_step, poling_of_cfg. destruct (c_pp c) as [| [| pu] a].
    - intros Hp; inversion Hp; subst. destruct Hin.
    - unfold optimum_poling_period. destruct (signal_le_pump o _ _); cbn [bind]; try discriminate.
      destruct (neqb o _ _) eqn:Hz.
      + intros _. exists a, signal. repeat split; auto.
      + destruct (o_nm_period K _ _ _); cbn [bind]; try discriminate.
        destruct (_ || _); cbn [bind]; try discriminate. intros Hp; inversion Hp; subst. destruct Hin.
    - destruct (rj && neqb o pu (n0 o)); try discriminate.
      destruct (compute_sign o K _ _ _); cbn [bind]; try discriminate. intros Hp; inversion Hp; subst. destruct Hin.
  Qed.
End Finite.

Arguments geometry_defined {num} K.
Arguments geometry_defined_at {num} o K minpos rj c.
