(* C12 — adaptive Simpson (translated quad_asr / simpson_adaptive / simpson_adaptive_2d over R and C):
   exact on cubics for every tolerance and depth; the accepted (Richardson-corrected) value is exact up to degree 5 and
   the acceptance test bounds the error of the uncorrected value; the number of integrand calls is at most
   2^(depth+1)+1 for EVERY integrand (1-D) and its square (2-D); reversing the interval (either axis in 2-D) negates the
   result for every integrand (finding F5c, repaired by 09f84fe; the old witness is in Findings/retired/).
   The proofs below do not depend on whether the panel value carries |b - a| or (b - a): they are stated for a <= b. *)
From Coq Require Import Reals QArith ZArith List Bool Lra Lia FunctionalExtensionality.
From Coquelicot Require Import Coquelicot.
From SpdVerif Require Import Base.NumOps Gen.Integration Model.Quadrature Proofs.C12_base Proofs.C12_simpson Proofs.C12_rule.
Import ListNotations.
Local Open Scope R_scope.

(* one Simpson panel as the translated quad_simpsons_mem computes it *)
Definition S3 (f : R -> C) (a b : R) : C := snd (quad_simpsons_mem Rops f a (f a) b (f b)).

Lemma qsm_eq : forall (f : R -> C) (a b : R),
  quad_simpsons_mem Rops f a (f a) b (f b) = ((a + b) / 2, f ((a + b) / 2), S3 f a b).
Proof. intros. reflexivity. Qed.

Definition asr (f : R -> C) (a b eps : R) (d : nat) : C :=
  quad_asr Rops f a (f a) b (f b) eps (S3 f a b) ((a + b) / 2) (f ((a + b) / 2)) d.
Definition asr_calls (f : R -> C) (fc : R -> nat) (a b eps : R) (d : nat) : nat :=
  quad_asr_calls Rops f fc a (f a) b (f b) eps (S3 f a b) ((a + b) / 2) (f ((a + b) / 2)) d.

Definition f64_eps : R := Q2R (1 # 4503599627370496).
Definition stop (eps a b : R) : bool := (Rbool_eq (eps / 2) eps || Rbool_lt (Rabs (b - a)) f64_eps)%bool.
Definition delta (f : R -> C) (a b : R) : C :=
  vsub Rops (vadd Rops (S3 f a ((a + b) / 2)) (S3 f ((a + b) / 2) b)) (S3 f a b).
Definition accept (f : R -> C) (a b eps : R) : bool := Rbool_le (Cmod (delta f a b)) (15 * eps).
Definition richardson (f : R -> C) (a b : R) : C :=
  vadd Rops (vadd Rops (S3 f a ((a + b) / 2)) (S3 f ((a + b) / 2) b)) (vdiv Rops (delta f a b) 15).

Lemma simpson_adaptive_asr : forall (f : R -> C) (a b eps : R) d, simpson_adaptive Rops f a b eps d = asr f a b eps d.
Proof. intros. unfold simpson_adaptive. cbv zeta. rewrite qsm_eq. reflexivity. Qed.

Lemma asr_0 : forall f a b eps, asr f a b eps 0 = S3 f a b.
Proof. reflexivity. Qed.

Lemma asr_S : forall (f : R -> C) (a b eps : R) d,
  asr f a b eps (S d) =
  if stop eps a b then S3 f a b
  else if accept f a b eps then richardson f a b
  else vadd Rops (asr f a ((a + b) / 2) (eps / 2) d) (asr f ((a + b) / 2) b (eps / 2) d).
Proof. intros. unfold asr at 1. cbn [quad_asr]. rewrite !qsm_eq. reflexivity. Qed.

Lemma asr_calls_0 : forall f fc a b eps, asr_calls f fc a b eps 0 = 0%nat.
Proof. reflexivity. Qed.

Lemma asr_calls_S : forall (f : R -> C) fc (a b eps : R) d,
  asr_calls f fc a b eps (S d) =
  if stop eps a b then 0%nat
  else (fc ((a + (a + b) / 2) / 2)%R + (fc (((a + b) / 2 + b) / 2)%R +
        (if accept f a b eps then 0 else asr_calls f fc a ((a + b) / 2)%R (eps / 2)%R d + asr_calls f fc ((a + b) / 2)%R b (eps / 2)%R d)))%nat.
Proof. intros. unfold asr_calls at 1. cbn [quad_asr_calls]. rewrite !qsm_eq. reflexivity. Qed.

Lemma simpson_adaptive_calls_asr : forall (f : R -> C) fc (a b eps : R) d,
  simpson_adaptive_calls Rops f fc a b eps d = (fc a + (fc b + (fc ((a + b) / 2)%R + asr_calls f fc a b eps d)))%nat.
Proof. intros. unfold simpson_adaptive_calls. cbv zeta. rewrite qsm_eq. reflexivity. Qed.

(* ------------------------------------------------------------------ exactness on cubics *)
Lemma S3_components : forall (f : R -> C) (a b : R), a <= b ->
  fst (S3 f a b) = (b - a) / 6 * (fst (f a) + 4 * fst (f ((a + b) / 2)) + fst (f b)) /\
  snd (S3 f a b) = (b - a) / 6 * (snd (f a) + 4 * snd (f ((a + b) / 2)) + snd (f b)).
Proof.
  intros f a b Hab. unfold S3, quad_simpsons_mem. cbv zeta.
  cbn [fst snd vscale vadd sdiv sadd ssub sabs s_of_Z Rops]. try rewrite (Rabs_right (b - a)) by lra.
  split; reflexivity.
Qed.
Lemma S3_fst : forall f (a b : R), a <= b -> fst (S3 f a b) = (b - a) / 6 * (fst (f a) + 4 * fst (f ((a + b) / 2)) + fst (f b)).
Proof. intros f a b H. apply (S3_components f a b H). Qed.
Lemma S3_snd : forall f (a b : R), a <= b -> snd (S3 f a b) = (b - a) / 6 * (snd (f a) + 4 * snd (f ((a + b) / 2)) + snd (f b)).
Proof. intros f a b H. apply (S3_components f a b H). Qed.

Lemma S3_real_cubic : forall cs (a b : R), a <= b -> (length cs <= 4)%nat ->
  (b - a) / 6 * (peval cs a + 4 * peval cs ((a + b) / 2) + peval cs b) = pint cs a b.
Proof.
  intros cs a b Hab Hl. unfold pint.
  pose proof (panel_exact_cubic cs a ((b - a) / 2) Hl) as H.
  replace (a + (b - a) / 2) with ((a + b) / 2) in H by field.
  replace (a + 2 * ((b - a) / 2)) with b in H by field.
  rewrite <- H. field.
Qed.

Lemma S3_cubic : forall cs (a b : R), a <= b -> (length cs <= 4)%nat -> S3 (cpeval Rops cs) a b = cpint Rops cs a b.
Proof.
  intros cs a b Hab Hl. apply pair_eq.
  - rewrite S3_fst by exact Hab. rewrite cpint_fst, !cpeval_fst. apply S3_real_cubic; [exact Hab | rewrite map_length; exact Hl].
  - rewrite S3_snd by exact Hab. rewrite cpint_snd, !cpeval_snd. apply S3_real_cubic; [exact Hab | rewrite map_length; exact Hl].
Qed.

Lemma cpint_split : forall cs (a m b : R), vadd Rops (cpint Rops cs a m) (cpint Rops cs m b) = cpint Rops cs a b.
Proof.
  intros cs a m b. apply pair_eq; cbn [vadd Rops fst snd].
  - rewrite !cpint_fst. unfold pint. ring.
  - rewrite !cpint_snd. unfold pint. ring.
Qed.

Lemma delta_cubic : forall cs (a b : R), a <= b -> (length cs <= 4)%nat -> delta (cpeval Rops cs) a b = (0, 0).
Proof.
  intros cs a b Hab Hl. unfold delta. rewrite !S3_cubic by (try assumption; lra). rewrite cpint_split.
  apply pair_eq; cbn [vsub Rops fst snd]; ring.
Qed.

Lemma richardson_cubic : forall cs (a b : R), a <= b -> (length cs <= 4)%nat ->
  richardson (cpeval Rops cs) a b = cpint Rops cs a b.
Proof.
  intros cs a b Hab Hl. unfold richardson. rewrite delta_cubic by assumption.
  rewrite !S3_cubic by (try assumption; lra). rewrite cpint_split.
  apply pair_eq; cbn [vadd vdiv Rops fst snd]; field.
Qed.

Theorem asr_cubic_exact : forall cs, (length cs <= 4)%nat ->
  forall d (a b eps : R), a <= b -> asr (cpeval Rops cs) a b eps d = cpint Rops cs a b.
Proof.
  intros cs Hl. induction d as [|d IH]; intros a b eps Hab.
  - rewrite asr_0. apply S3_cubic; assumption.
  - rewrite asr_S. destruct (stop eps a b); [apply S3_cubic; assumption|].
    destruct (accept _ a b eps); [apply richardson_cubic; assumption|].
    rewrite !IH by lra. apply cpint_split.
Qed.

Theorem simpson_adaptive_cubic_exact : forall cs (a b eps : R) d, a <= b -> (length cs <= 4)%nat ->
  simpson_adaptive Rops (cpeval Rops cs) a b eps d = cpint Rops cs a b.
Proof. intros. rewrite simpson_adaptive_asr. apply asr_cubic_exact; assumption. Qed.

(* ------------------------------------------------------------------ Richardson step: exact to degree 5 *)
Lemma richardson_real_quintic : forall cs (a b : R), a <= b -> (length cs <= 6)%nat ->
  let p := peval cs in
  let m := (a + b) / 2 in
  let L := (m - a) / 6 * (p a + 4 * p ((a + m) / 2) + p m) in
  let Rr := (b - m) / 6 * (p m + 4 * p ((m + b) / 2) + p b) in
  let W := (b - a) / 6 * (p a + 4 * p ((a + b) / 2) + p b) in
  L + Rr + (L + Rr - W) / 15 = pint cs a b.
Proof.
  intros cs a b Hab Hl. cbv zeta. unfold pint, prim.
  destruct cs as [|c0 [|c1 [|c2 [|c3 [|c4 [|c5 [|c6 cs]]]]]]]; cbn [length] in Hl; try lia;
  cbn [prim_from peval Z.add Pos.add Pos.succ]; field.
Qed.

Theorem richardson_quintic : forall cs (a b : R), a <= b -> (length cs <= 6)%nat ->
  richardson (cpeval Rops cs) a b = cpint Rops cs a b.
Proof.
  intros cs a b Hab Hl. unfold richardson, delta.
  apply pair_eq; cbn [vadd vsub vdiv Rops fst snd].
  - rewrite !S3_fst by lra. rewrite cpint_fst, !cpeval_fst.
    apply (richardson_real_quintic (map fst cs) a b Hab). rewrite map_length. exact Hl.
  - rewrite !S3_snd by lra. rewrite cpint_snd, !cpeval_snd.
    apply (richardson_real_quintic (map snd cs) a b Hab). rewrite map_length. exact Hl.
Qed.

(* when the acceptance test passes on a polynomial of degree <= 5, the uncorrected two-panel value is within eps *)
Theorem accepted_error_quintic : forall cs (a b eps : R), a <= b -> (length cs <= 6)%nat ->
  accept (cpeval Rops cs) a b eps = true ->
  Cmod (Cminus (vadd Rops (S3 (cpeval Rops cs) a ((a + b) / 2)) (S3 (cpeval Rops cs) ((a + b) / 2) b)) (cpint Rops cs a b)) <= eps.
Proof.
  intros cs a b eps Hab Hl Hacc. unfold accept, Rbool_le in Hacc.
  destruct (Rle_dec (Cmod (delta (cpeval Rops cs) a b)) (15 * eps)) as [Hle|]; [|discriminate].
  rewrite <- (richardson_quintic cs a b Hab Hl). unfold richardson.
  set (LR := vadd Rops _ _) in *. set (D := delta _ a b) in *.
  replace (Cminus LR (vadd Rops LR (vdiv Rops D 15))) with (Cmult (RtoC (- / 15)) D).
  2:{ destruct LR as [x y], D as [u v]. unfold Cminus, Cplus, Copp, Cmult, RtoC. cbn [vadd vdiv Rops fst snd]. f_equal; field. }
  rewrite Cmod_mult, Cmod_R, Rabs_left by lra. lra.
Qed.

(* ------------------------------------------------------------------ number of integrand calls *)
Theorem asr_calls_bound : forall (f : R -> C) (fc : R -> nat) (K : nat), (forall x, (fc x <= K)%nat) ->
  forall d (a b eps : R), (asr_calls f fc a b eps d + 2 * K <= K * 2 ^ (d + 1))%nat.
Proof.
  intros f fc K HK. induction d as [|d IH]; intros a b eps.
  - rewrite asr_calls_0. cbn. lia.
  - rewrite asr_calls_S. replace (S d + 1)%nat with (S (d + 1)) by lia. cbn [Nat.pow].
    pose proof (IH a ((a + b) / 2) (eps / 2)) as H1. pose proof (IH ((a + b) / 2) b (eps / 2)) as H2.
    pose proof (HK ((a + (a + b) / 2) / 2)) as H3. pose proof (HK (((a + b) / 2 + b) / 2)) as H4.
    assert (2 <= 2 ^ (d + 1))%nat by (replace (d + 1)%nat with (S d) by lia; cbn [Nat.pow]; pose proof (Nat.pow_nonzero 2 d ltac:(lia)); lia).
    destruct (stop eps a b); [nia|]. destruct (accept f a b eps); nia.
Qed.

Theorem simpson_adaptive_calls_bound : forall (f : R -> C) (fc : R -> nat) (K : nat), (forall x, (fc x <= K)%nat) ->
  forall (a b eps : R) d, (simpson_adaptive_calls Rops f fc a b eps d <= K * (2 ^ (d + 1) + 1))%nat.
Proof.
  intros f fc K HK a b eps d. rewrite simpson_adaptive_calls_asr.
  pose proof (asr_calls_bound f fc K HK d a b eps). pose proof (HK a). pose proof (HK b). pose proof (HK ((a + b) / 2)). nia.
Qed.

Theorem simpson_adaptive_2d_calls_bound : forall (f : R -> R -> C) (ax bx ay by_ eps : R) d,
  (simpson_adaptive_2d_calls Rops f (fun _ _ => 1%nat) ax bx ay by_ eps d <= (2 ^ (d + 1) + 1) * (2 ^ (d + 1) + 1))%nat.
Proof.
  intros. unfold simpson_adaptive_2d_calls.
  apply simpson_adaptive_calls_bound. intros x.
  pose proof (simpson_adaptive_calls_bound (fun y => f x y) (fun _ => 1%nat) 1 (fun _ => le_n 1) ay by_ eps d) as H.
  rewrite Nat.mul_1_l in H. exact H.
Qed.

(* a cubic is accepted at the first level: at most 5 calls whatever the depth and the (non-negative) tolerance *)
Theorem simpson_adaptive_cubic_calls : forall cs (a b eps : R) d, a <= b -> 0 <= eps -> (length cs <= 4)%nat ->
  (simpson_adaptive_calls Rops (cpeval Rops cs) (fun _ => 1%nat) a b eps d <= 5)%nat.
Proof.
  intros cs a b eps d Hab He Hl. rewrite simpson_adaptive_calls_asr. destruct d as [|d]; [rewrite asr_calls_0; lia|].
  rewrite asr_calls_S. destruct (stop eps a b); [lia|].
  unfold accept. rewrite delta_cubic by assumption. change (0, 0) with (RtoC 0). rewrite Cmod_0.
  unfold Rbool_le. destruct (Rle_dec 0 (15 * eps)); [lia | lra].
Qed.

(* ------------------------------------------------------------------ reversal, conditionally on the panel formula
   The recursion itself is orientation-correct: IF one panel changes sign when its endpoints are swapped (true once
   quad_simpsons_mem uses (b - a) instead of |b - a| — the repair proposed for finding F5c) THEN the adaptive result is
   negated by reversing the interval, for every integrand, tolerance and depth.  Before 09f84fe the hypothesis was
   false (Findings/retired/C12_adaptive_reverse.v), which localised the defect to that one expression; since then it is
   [S3_antisym] below. *)
Lemma stop_swap : forall eps a b, stop eps b a = stop eps a b.
Proof. intros. unfold stop. rewrite (Rabs_minus_sym a b). reflexivity. Qed.

Lemma copp_vadd : forall u v : C, vadd Rops (Copp u) (Copp v) = Copp (vadd Rops u v).
Proof. intros [a b] [c d]. cbv [Copp vadd Rops fst snd]. f_equal; ring. Qed.

Theorem asr_reverse_if_panel_antisymmetric :
  (forall (f : R -> C) (a b : R), S3 f b a = Copp (S3 f a b)) ->
  forall (f : R -> C) d (a b eps : R), asr f b a eps d = Copp (asr f a b eps d).
Proof.
  intros HS f. induction d as [|d IH]; intros a b eps.
  - rewrite !asr_0. apply HS.
  - rewrite !asr_S. rewrite stop_swap, HS. destruct (stop eps a b); [reflexivity|].
    assert (Hd : delta f b a = Copp (delta f a b)).
    { unfold delta. replace ((b + a) / 2) with ((a + b) / 2) by field.
      rewrite (HS f a b), (HS f ((a + b) / 2) b), (HS f a ((a + b) / 2)).
      destruct (S3 f a ((a + b) / 2)), (S3 f ((a + b) / 2) b), (S3 f a b). cbv [Copp vadd vsub Rops fst snd]. f_equal; ring. }
    unfold accept, richardson. rewrite Hd, Cmod_opp.
    replace ((b + a) / 2) with ((a + b) / 2) by field.
    destruct (Rbool_le _ _).
    + rewrite (HS f ((a + b) / 2) b), (HS f a ((a + b) / 2)).
      destruct (S3 f a ((a + b) / 2)), (S3 f ((a + b) / 2) b), (delta f a b). cbv [Copp vadd vdiv Rops fst snd]. f_equal; field.
    + rewrite (IH ((a + b) / 2) b), (IH a ((a + b) / 2)). rewrite copp_vadd.
      f_equal. destruct (asr f a ((a + b) / 2) (eps / 2) d), (asr f ((a + b) / 2) b (eps / 2) d). cbv [vadd Rops fst snd]. f_equal; ring.
Qed.

Theorem simpson_adaptive_reverse_if_panel_antisymmetric :
  (forall (f : R -> C) (a b : R), S3 f b a = Copp (S3 f a b)) ->
  forall (f : R -> C) (a b eps : R) d, simpson_adaptive Rops f b a eps d = Copp (simpson_adaptive Rops f a b eps d).
Proof. intros HS f a b eps d. rewrite !simpson_adaptive_asr. apply asr_reverse_if_panel_antisymmetric. exact HS. Qed.

(* ------------------------------------------------------------------ reversal (the panel carries (b - a), signed) *)
Lemma S3_antisym : forall (f : R -> C) (a b : R), S3 f b a = Copp (S3 f a b).
Proof.
  intros f a b. unfold S3, quad_simpsons_mem. cbv zeta. cbn [fst snd sdiv sadd ssub sabs s_of_Z Rops].
  replace ((b + a) / 2) with ((a + b) / 2) by field.
  destruct (f a) as [x y], (f b) as [u v], (f ((a + b) / 2)) as [s t]. cbv [Copp vscale vadd Rops fst snd]. f_equal; field.
Qed.

Theorem simpson_adaptive_reverse : forall (f : R -> C) (a b eps : R) d,
  simpson_adaptive Rops f b a eps d = Copp (simpson_adaptive Rops f a b eps d).
Proof. exact (simpson_adaptive_reverse_if_panel_antisymmetric S3_antisym). Qed.

(* negating the integrand negates the result (the acceptance test only sees |delta|) *)
Lemma S3_opp : forall (g : R -> C) (a b : R), S3 (fun x => Copp (g x)) a b = Copp (S3 g a b).
Proof.
  intros g a b. unfold S3, quad_simpsons_mem. cbv zeta. cbn [fst snd sdiv sadd ssub sabs s_of_Z Rops].
  destruct (g a) as [x y], (g b) as [u v], (g ((a + b) / 2)) as [s t]. cbv [Copp vscale vadd Rops fst snd]. f_equal; field.
Qed.

Lemma asr_opp : forall (g : R -> C) d (a b eps : R), asr (fun x => Copp (g x)) a b eps d = Copp (asr g a b eps d).
Proof.
  intros g. induction d as [|d IH]; intros a b eps.
  - rewrite !asr_0. apply S3_opp.
  - rewrite !asr_S. rewrite S3_opp. destruct (stop eps a b); [reflexivity|].
    assert (Hd : delta (fun x => Copp (g x)) a b = Copp (delta g a b)).
    { unfold delta. rewrite !S3_opp.
      destruct (S3 g a ((a + b) / 2)), (S3 g ((a + b) / 2) b), (S3 g a b). cbv [Copp vadd vsub Rops fst snd]. f_equal; ring. }
    unfold accept, richardson. rewrite Hd, Cmod_opp. destruct (Rbool_le _ _).
    + rewrite !S3_opp. destruct (S3 g a ((a + b) / 2)), (S3 g ((a + b) / 2) b), (delta g a b).
      cbv [Copp vadd vdiv Rops fst snd]. f_equal; field.
    + rewrite !IH. apply copp_vadd.
Qed.

Theorem simpson_adaptive_2d_reverse : forall (f : R -> R -> C) (ax bx ay by_ eps : R) d,
  simpson_adaptive_2d Rops f bx ax ay by_ eps d = Copp (simpson_adaptive_2d Rops f ax bx ay by_ eps d) /\
  simpson_adaptive_2d Rops f ax bx by_ ay eps d = Copp (simpson_adaptive_2d Rops f ax bx ay by_ eps d).
Proof.
  intros f ax bx ay by_ eps d. unfold simpson_adaptive_2d. cbv beta. split.
  - apply simpson_adaptive_reverse.
  - change (Sc Rops) with R.
    replace (fun x : R => simpson_adaptive Rops (fun y : R => f x y) by_ ay eps d)
      with (fun x : R => Copp (simpson_adaptive Rops (fun y : R => f x y) ay by_ eps d))
      by (apply functional_extensionality; intros x; symmetry; apply simpson_adaptive_reverse).
    rewrite !simpson_adaptive_asr. apply asr_opp.
Qed.

(* ------------------------------------------------------------------ statements in the form Props/C12.v exports *)
Lemma simpson_adaptive_step : forall (f : R -> C) (a b eps : R) d,
  simpson_adaptive Rops f a b eps (S d) =
  if stop eps a b then S3 f a b
  else if accept f a b eps then richardson f a b
  else vadd Rops (simpson_adaptive Rops f a ((a + b) / 2) (eps / 2) d) (simpson_adaptive Rops f ((a + b) / 2) b (eps / 2) d).
Proof. intros. rewrite !simpson_adaptive_asr. apply asr_S. Qed.

Lemma simpson_adaptive_terminates : forall (f : R -> C) (a b eps : R) d,
  (simpson_adaptive_calls Rops f (fun _ => 1%nat) a b eps d <= 2 ^ (d + 1) + 1)%nat.
Proof.
  intros. pose proof (simpson_adaptive_calls_bound f (fun _ => 1%nat) 1 (fun _ => le_n 1) a b eps d) as H.
  rewrite Nat.mul_1_l in H. exact H.
Qed.

Lemma accept_zero_example : accept (fun _ => (0, 0)) 0 1 1 = true.
Proof.
  unfold accept, Rbool_le.
  destruct (Rle_dec _ _) as [|H]; [reflexivity|]. exfalso. apply H.
  replace (delta (fun _ => (0, 0)) 0 1) with (RtoC 0); [rewrite Cmod_0; lra|].
  symmetry. unfold delta. apply pair_eq; cbn [vsub vadd Rops fst snd RtoC].
  - rewrite !S3_fst by lra. cbn [fst]. field.
  - rewrite !S3_snd by lra. cbn [snd]. field.
Qed.

(* ------------------------------------------------------------------ 2-D adaptive Simpson on a product of cubics *)
Lemma cpeval_scale : forall (z : C) (cs : list C) (y : R),
  Cmult z (cpeval Rops cs y) = cpeval Rops (map (Cmult z) cs) y.
Proof.
  intros z cs y. induction cs as [|c cs IH]; cbn [map cpeval].
  - unfold vzero. cbn [vmk Rops s_of_Z]. destruct z. unfold Cmult. cbn [fst snd]. f_equal; ring.
  - rewrite <- IH. destruct z as [zr zi], c as [cr ci], (cpeval Rops cs y) as [pr pi_].
    unfold Cmult. cbn [vadd vscale Rops fst snd]. f_equal; ring.
Qed.

Lemma cpint_scale : forall (z : C) (cs : list C) (a b : R),
  cpint Rops (map (Cmult z) cs) a b = Cmult z (cpint Rops cs a b).
Proof.
  intros z cs a b. unfold cpint, cprim.
  assert (G : forall k, cprim_from Rops k (map (Cmult z) cs) = map (Cmult z) (cprim_from Rops k cs)).
  { induction cs as [|c cs IH]; intros k; cbn [map cprim_from]; [reflexivity|]. rewrite IH.
    apply (f_equal2 (@cons C)); [|reflexivity].
    destruct z, c. unfold Cmult. cbn [vdiv Rops fst snd]. apply pair_eq; cbn [fst snd]; unfold Rdiv; ring. }
  rewrite G.
  replace (vzero Rops :: map (Cmult z) (cprim_from Rops 1 cs)) with (map (Cmult z) (vzero Rops :: cprim_from Rops 1 cs)).
  2:{ cbn [map]. apply (f_equal2 (@cons C)); [|reflexivity].
      unfold vzero. cbn [vmk Rops s_of_Z]. destruct z. unfold Cmult. cbn [fst snd]. apply pair_eq; cbn [fst snd]; ring. }
  rewrite <- !cpeval_scale.
  destruct z, (cpeval Rops (vzero Rops :: cprim_from Rops 1 cs) b), (cpeval Rops (vzero Rops :: cprim_from Rops 1 cs) a).
  unfold Cmult. cbn [vsub Rops fst snd]. f_equal; ring.
Qed.

Theorem simpson_adaptive_2d_bicubic_exact : forall (cp cq : list C) (ax bx ay by_ eps : R) d,
  ax <= bx -> ay <= by_ -> (length cp <= 4)%nat -> (length cq <= 4)%nat ->
  simpson_adaptive_2d Rops (fun x y => Cmult (cpeval Rops cp x) (cpeval Rops cq y)) ax bx ay by_ eps d =
  Cmult (cpint Rops cp ax bx) (cpint Rops cq ay by_).
Proof.
  intros cp cq ax bx ay by_ eps d Hx Hy Hp Hq. unfold simpson_adaptive_2d. cbv beta.
  (* inner integral: for every x the integrand is the cubic (p x) * q in y *)
  assert (Hin : (fun x : R => simpson_adaptive Rops (fun y : R => Cmult (cpeval Rops cp x) (cpeval Rops cq y)) ay by_ eps d) =
                (fun x : R => cpeval Rops (map (fun c => Cmult c (cpint Rops cq ay by_)) cp) x)).
  { apply functional_extensionality. intros x.
    replace (fun y : R => Cmult (cpeval Rops cp x) (cpeval Rops cq y)) with (cpeval Rops (map (Cmult (cpeval Rops cp x)) cq))
      by (apply functional_extensionality; intros y; symmetry; apply cpeval_scale).
    rewrite simpson_adaptive_cubic_exact by (try assumption; rewrite map_length; exact Hq).
    rewrite cpint_scale.
    (* (p x) * Iq = sum_k (c_k * Iq) x^k *)
    set (Iq := cpint Rops cq ay by_). clear. induction cp as [|c cp IH]; cbn [map cpeval].
    - unfold vzero. cbn [vmk Rops s_of_Z]. destruct Iq. unfold Cmult. cbn [fst snd]. f_equal; ring.
    - rewrite <- IH. destruct c as [cr ci], Iq as [qr qi], (cpeval Rops cp x) as [pr pi_].
      unfold Cmult. cbn [vadd vscale Rops fst snd]. f_equal; ring. }
  change (Sc Rops) with R. rewrite Hin. rewrite simpson_adaptive_cubic_exact by (try assumption; rewrite map_length; exact Hp).
  set (Iq := cpint Rops cq ay by_).
  replace (map (fun c : C => Cmult c Iq) cp) with (map (Cmult Iq) cp) by (apply map_ext; intros c; apply Cmult_comm).
  rewrite cpint_scale. apply Cmult_comm.
Qed.

(* the 2-D form is the nest of two 1-D adaptive integrations with the SAME tolerance and the SAME depth at both levels *)
Lemma simpson_adaptive_2d_nest : forall (f : R -> R -> C) (ax bx ay by_ eps : R) d,
  simpson_adaptive_2d Rops f ax bx ay by_ eps d =
  simpson_adaptive Rops (fun x => simpson_adaptive Rops (fun y => f x y) ay by_ eps d) ax bx eps d.
Proof. intros. reflexivity. Qed.

Lemma simpson_adaptive_2d_calls_nest : forall (f : R -> R -> C) (ax bx ay by_ eps : R) d,
  simpson_adaptive_2d_calls Rops f (fun _ _ => 1%nat) ax bx ay by_ eps d =
  simpson_adaptive_calls Rops (fun x => simpson_adaptive Rops (fun y => f x y) ay by_ eps d)
    (fun x => simpson_adaptive_calls Rops (fun y => f x y) (fun _ => 1%nat) ay by_ eps d) ax bx eps d.
Proof. intros. reflexivity. Qed.
