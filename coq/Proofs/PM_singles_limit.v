(* PM singles (for C08) — large-waist limit of the GENERATED singles closure at fixed walk-off-to-waist ratio:
   s^6 x closure(waists x s, walk-off length x s) -> apod(z1) apod(z2) exp(R_exponent + i c3 (z1 - z2)/2) / (8 sqrt P0). *)
From Coq Require Import Reals Lra Psatz QArith.
From Coquelicot Require Import Coquelicot.
From SpdVerif Require Import Base.Rx Base.CxPM Base.CxCont Model.PMParams Gen.PMSingles Proofs.C06_algebra Proofs.C06_defined Proofs.C05_limit Proofs.C05_waistlimit Proofs.PM_singles_core.
Local Open Scope R_scope.

Lemma Cconj_scal_R (l : R) (x : C) : Cconj (Cmult (RtoC l) x) = Cmult (RtoC l) (Cconj x).
Proof. destruct x as [a b]. unfold Cconj, Cmult, RtoC; cbn [fst snd]. apply C_pair_eq; ring. Qed.

Section SinglesLimit.
  Variables (apod : R -> R) (kp ks L wx wy ss dl ell c3 c4 z1 z2 : R).
  Hypothesis Hkp : kp <> 0.
  Hypothesis Hks : ks <> 0.
  Hypothesis Hss : 0 < ss.
  Hypothesis Hwx : 0 < wx.
  Hypothesis Hwy : 0 < wy.

  Let K := kp * ks.
  Let J : C := (0, 1).
  Let g1 := - (kp * L) * (1 - z1) / 1 + ks * (2 * 0 - L * z1) / 1.
  Let g2 := - (kp * L) * (1 - z2) / 1 + ks * (2 * 0 - L * z2) / 1.

  Definition sscaled (s : R) : C :=
    Cmult (RtoC ((s * s) * (s * s) * (s * s)))
      (pms_closure apod L 1 ((s * s) * wx) ((s * s) * wy) ks 0 0 K c3 c4 (ks / kp) (kp * ((s * s) * wx), 0) (kp * ((s * s) * wy), 0)
                   (s * ell) ((s * ell) * (s * ell)) (Cmult (RtoC (4 * K)) (- ((s * s) * ss) / 4, - dl))
                   (Cmult (RtoC (4 * K)) (- ((s * s) * ss) / 4, - dl)) (RtoC 0) (kp * L) (1 / (4 * K)) J z1 z2).

  Definition al (e : R) : C := Cmult (RtoC (4 * K)) (- ss / 4, - (e * dl)).
  Definition Ha_e (e : R) : C := Cplus (al e) (Cmult (RtoC (e * g1)) J).
  Definition Hc_e (e : R) : C := Cminus (Cconj (al e)) (Cmult (RtoC (e * g2)) J).
  Definition C9e : C := (kp * wx, 0).
  Definition C10e : C := (kp * wy, 0).
  Definition ksc : C := RtoC (ks * 1 / 1).
  Definition X11e (e : R) : C := Cminus (Cmult C9e ksc) (Ha_e e).
  Definition X12e (e : R) : C := Cmult (Cminus (Hc_e e) (Cmult C9e ksc)) J.
  Definition Y21e (e : R) : C := Cminus (Cmult C10e ksc) (Ha_e e).
  Definition Y22e (e : R) : C := Cmult (Cminus (Hc_e e) (Cmult C10e ksc)) J.
  Definition AA1e (e : R) : C := Cmult (Cminus (Ha_e e) (Cmult C9e ksc)) (RtoC (1 / (4 * K))).
  Definition AA2e (e : R) : C := Cmult (Cminus (Hc_e e) (Cmult C9e ksc)) (RtoC (1 / (4 * K))).
  Definition BB1e (e : R) : C := Cmult (Cminus (Ha_e e) (Cmult C10e ksc)) (RtoC (1 / (4 * K))).
  Definition BB2e (e : R) : C := Cmult (Cminus (Hc_e e) (Cmult C10e ksc)) (RtoC (1 / (4 * K))).
  Definition a1c (e : R) : C := RtoC (e * ((2 * 0 - L * z1) / 1)).
  Definition a2c (e : R) : C := RtoC (e * ((2 * 0 - L * z2) / 1)).
  Definition b6c (e : R) : C := RtoC (e * (c4 * (z1 - z2) * 1 / 1)).
  Definition EEe (e : R) : C := sEE J (2 * (wx / 1), 0) (b6c e) (RtoC (ks / kp)) (X11e e) (X12e e) C9e (a1c e) (a2c e).
  Definition FFe (e : R) : C := sFF J (2 * (wy / 1), 0) (b6c e) (RtoC (ks / kp)) (Y21e e) (Y22e e) C10e (a1c e) (a2c e).
  Definition HHe (e : R) : C :=
    sHH J (RtoC (0.5 * (ell / 1))) (RtoC (z1 - z2)) ksc (RtoC (1 + z1)) (RtoC (1 + z2)) (Y21e e) (Y22e e) C10e (a1c e) (a2c e).
  Definition IIe (e : R) : C :=
    sIIrho J (RtoC (0.25 * K * (ell * ell / 1))) (RtoC (- (1 + z1) ^ 2)) (RtoC ((1 + z2) ^ 2)) (Y21e e) (Y22e e).
  Definition IId : C := Cplus (RtoC (2 * (0 / 1 / 1))) (Cmult (Cmult (Cmult (RtoC 0.5) J) (RtoC (c3 / 1))) (RtoC (z1 - z2))).
  Definition Ees (e : R) : C :=
    Cplus (Copp (Cmult (Cmult (HHe e) (HHe e)) (Cinv (Cmult (RtoC 4) (FFe e))))) (Cplus (IIe e) IId).
  Definition Pe (e : R) : C := Cmult (Cmult (Cmult (Cmult (Cmult (AA1e e) (BB1e e)) (AA2e e)) (BB2e e)) (EEe e)) (FFe e).
  Definition GSe (e : R) : C :=
    Cmult (RtoC (apod z1 * apod z2)) (Cmult (Cexp (Ees e)) (Cinv (Cmult (RtoC 8) (Csqrt (Pe e))))).

  Lemma K_neq : K <> 0. Proof. unfold K. apply Rmult_integral_contrapositive_currified; assumption. Qed.

  (* real parts: AA1e, AA2e have real part -(ss + wx)/4; X11e = -4K AA1e, ... *)
  Lemma AA1e_re e : fst (AA1e e) = - (ss + wx) / 4.
  Proof.
    pose proof K_neq. unfold AA1e, Ha_e, al, C9e, ksc, J, Cminus, Cplus, Copp, Cmult, RtoC; cbn [fst snd]. unfold K. field. split; assumption.
  Qed.
  Lemma AA2e_re e : fst (AA2e e) = - (ss + wx) / 4.
  Proof.
    pose proof K_neq. unfold AA2e, Hc_e, al, C9e, ksc, J, Cconj, Cminus, Cplus, Copp, Cmult, RtoC; cbn [fst snd]. unfold K. field. split; assumption.
  Qed.
  Lemma BB1e_re e : fst (BB1e e) = - (ss + wy) / 4.
  Proof.
    pose proof K_neq. unfold BB1e, Ha_e, al, C10e, ksc, J, Cminus, Cplus, Copp, Cmult, RtoC; cbn [fst snd]. unfold K. field. split; assumption.
  Qed.
  Lemma BB2e_re e : fst (BB2e e) = - (ss + wy) / 4.
  Proof.
    pose proof K_neq. unfold BB2e, Hc_e, al, C10e, ksc, J, Cconj, Cminus, Cplus, Copp, Cmult, RtoC; cbn [fst snd]. unfold K. field. split; assumption.
  Qed.

  Lemma J_neq : J <> RtoC 0. Proof. intro H. apply (f_equal snd) in H. cbn in H. lra. Qed.
  Lemma RK_neq : RtoC (4 * K) <> RtoC 0. Proof. apply RtoC_neq_0. pose proof K_neq. lra. Qed.

  Lemma inv4K : RtoC (1 / (4 * K)) = Cinv (RtoC (4 * K)).
  Proof. rewrite <- RtoC_inv by (pose proof K_neq; lra). f_equal. field. pose proof K_neq; lra. Qed.

  Lemma X11e_eq e : X11e e = Cmult (Copp (RtoC (4 * K))) (AA1e e).
  Proof. unfold X11e, AA1e. rewrite inv4K. pose proof RK_neq. set (Q := RtoC (4 * K)) in *. field. assumption. Qed.
  Lemma X12e_eq e : X12e e = Cmult (Cmult (RtoC (4 * K)) (AA2e e)) J.
  Proof. unfold X12e, AA2e. rewrite inv4K. pose proof RK_neq. set (Q := RtoC (4 * K)) in *. field. assumption. Qed.
  Lemma Y21e_eq e : Y21e e = Cmult (Copp (RtoC (4 * K))) (BB1e e).
  Proof. unfold Y21e, BB1e. rewrite inv4K. pose proof RK_neq. set (Q := RtoC (4 * K)) in *. field. assumption. Qed.
  Lemma Y22e_eq e : Y22e e = Cmult (Cmult (RtoC (4 * K)) (BB2e e)) J.
  Proof. unfold Y22e, BB2e. rewrite inv4K. pose proof RK_neq. set (Q := RtoC (4 * K)) in *. field. assumption. Qed.

  Lemma Copp_neq_0 (x : C) : x <> RtoC 0 -> Copp x <> RtoC 0.
  Proof. intros H E. apply H. destruct x as [a b]. unfold Copp, RtoC in *; cbn [fst snd] in *. injection E as E1 E2. apply C_pair_eq; lra. Qed.

  Lemma AA1e_neq e : AA1e e <> RtoC 0. Proof. apply C_neq_0_of_re. rewrite AA1e_re. lra. Qed.
  Lemma AA2e_neq e : AA2e e <> RtoC 0. Proof. apply C_neq_0_of_re. rewrite AA2e_re. lra. Qed.
  Lemma BB1e_neq e : BB1e e <> RtoC 0. Proof. apply C_neq_0_of_re. rewrite BB1e_re. lra. Qed.
  Lemma BB2e_neq e : BB2e e <> RtoC 0. Proof. apply C_neq_0_of_re. rewrite BB2e_re. lra. Qed.
  Lemma X11e_neq e : X11e e <> RtoC 0.
  Proof. rewrite X11e_eq. apply Cmult_neq_0; [apply Copp_neq_0, RK_neq | apply AA1e_neq]. Qed.
  Lemma X12e_neq e : X12e e <> RtoC 0.
  Proof. rewrite X12e_eq. apply Cmult_neq_0; [apply Cmult_neq_0; [apply RK_neq | apply AA2e_neq] | apply J_neq]. Qed.
  Lemma Y21e_neq e : Y21e e <> RtoC 0.
  Proof. rewrite Y21e_eq. apply Cmult_neq_0; [apply Copp_neq_0, RK_neq | apply BB1e_neq]. Qed.
  Lemma Y22e_neq e : Y22e e <> RtoC 0.
  Proof. rewrite Y22e_eq. apply Cmult_neq_0; [apply Cmult_neq_0; [apply RK_neq | apply BB2e_neq] | apply J_neq]. Qed.

  Lemma scaled_eq s : 0 < s -> sscaled s = GSe (/ (s * s)).
  Proof.
    intros Hs. unfold sscaled. rewrite closure_as_core. cbv zeta.
    set (e := / (s * s)). assert (Hle : s * s * e = 1) by (unfold e; field; lra).
    assert (Hl0 : s * s <> 0) by nra.
    set (lc := RtoC (s * s)).
    assert (Hlc : lc <> RtoC 0) by (apply RtoC_neq_0; assumption).
    assert (E_al : Cmult (RtoC (4 * K)) (- (s * s * ss) / 4, - dl) = Cmult lc (al e)).
    { unfold al, lc, Cmult, RtoC; cbn [fst snd]. apply C_pair_eq; [field|].
      replace (s * s * (4 * K * - (e * dl) + 0 * (- ss / 4)) + 0 * (4 * K * (- ss / 4) - 0 * - (e * dl))) with ((s * s * e) * (4 * K * - dl)) by ring.
      rewrite Hle. ring. }
    assert (E_g1 : RtoC (- (kp * L) * (1 - z1) / 1 + ks * (2 * 0 - L * z1) / 1) = Cmult lc (RtoC (e * g1))).
    { unfold lc. rewrite <- RtoC_mult. f_equal. fold g1. replace (s * s * (e * g1)) with ((s * s * e) * g1) by ring. rewrite Hle. ring. }
    assert (E_g2 : RtoC (- (kp * L) * (1 - z2) / 1 + ks * (2 * 0 - L * z2) / 1) = Cmult lc (RtoC (e * g2))).
    { unfold lc. rewrite <- RtoC_mult. f_equal. fold g2. replace (s * s * (e * g2)) with ((s * s * e) * g2) by ring. rewrite Hle. ring. }
    assert (E_C9 : ((kp * (s * s * wx), 0) : C) = Cmult lc C9e).
    { unfold lc, C9e, Cmult, RtoC; cbn [fst snd]. apply C_pair_eq; ring. }
    assert (E_C10 : ((kp * (s * s * wy), 0) : C) = Cmult lc C10e).
    { unfold lc, C10e, Cmult, RtoC; cbn [fst snd]. apply C_pair_eq; ring. }
    assert (E_w2x : ((2 * (s * s * wx / 1), 0) : C) = Cmult lc (2 * (wx / 1), 0)).
    { unfold lc, Cmult, RtoC; cbn [fst snd]. apply C_pair_eq; field. }
    assert (E_w2y : ((2 * (s * s * wy / 1), 0) : C) = Cmult lc (2 * (wy / 1), 0)).
    { unfold lc, Cmult, RtoC; cbn [fst snd]. apply C_pair_eq; field. }
    assert (E_b6 : RtoC (c4 * (z1 - z2) * 1 / 1) = Cmult lc (b6c e)).
    { unfold lc, b6c. rewrite <- RtoC_mult. f_equal.
      replace (s * s * (e * (c4 * (z1 - z2) * 1 / 1))) with ((s * s * e) * (c4 * (z1 - z2) * 1 / 1)) by ring. rewrite Hle. ring. }
    assert (E_a1 : RtoC ((2 * 0 - L * z1) / 1) = Cmult lc (a1c e)).
    { unfold lc, a1c. rewrite <- RtoC_mult. f_equal.
      replace (s * s * (e * ((2 * 0 - L * z1) / 1))) with ((s * s * e) * ((2 * 0 - L * z1) / 1)) by ring. rewrite Hle. ring. }
    assert (E_a2 : RtoC ((2 * 0 - L * z2) / 1) = Cmult lc (a2c e)).
    { unfold lc, a2c. rewrite <- RtoC_mult. f_equal.
      replace (s * s * (e * ((2 * 0 - L * z2) / 1))) with ((s * s * e) * ((2 * 0 - L * z2) / 1)) by ring. rewrite Hle. ring. }
    assert (E_hl : RtoC (0.5 * (s * ell / 1)) = Cmult (RtoC s) (RtoC (0.5 * (ell / 1)))).
    { rewrite <- RtoC_mult. f_equal. field. }
    assert (E_q : RtoC (0.25 * K * (s * ell * (s * ell) / 1)) = Cmult lc (RtoC (0.25 * K * (ell * ell / 1)))).
    { unfold lc. rewrite <- RtoC_mult. f_equal. field. }
    rewrite !E_al, !E_g1, !E_g2, !E_C9, !E_C10, !E_w2x, !E_w2y, !E_b6, !E_a1, !E_a2, E_hl, E_q.
    fold ksc.
    assert (EHa : Cplus (Cmult lc (al e)) (Cmult (Cmult lc (RtoC (e * g1))) J) = Cmult lc (Ha_e e)) by (unfold Ha_e; ring).
    assert (EHc : Cminus (Cconj (Cmult lc (al e))) (Cmult (Cmult lc (RtoC (e * g2))) J) = Cmult lc (Hc_e e)).
    { unfold lc. rewrite Cconj_scal_R. unfold Hc_e. ring. }
    rewrite !EHa, !EHc.
    assert (EX11 : Cminus (Cmult (Cmult lc C9e) ksc) (Cmult lc (Ha_e e)) = Cmult lc (X11e e)) by (unfold X11e; ring).
    assert (EX12 : Cmult (Cminus (Cmult lc (Hc_e e)) (Cmult (Cmult lc C9e) ksc)) J = Cmult lc (X12e e)) by (unfold X12e; ring).
    assert (EY21 : Cminus (Cmult (Cmult lc C10e) ksc) (Cmult lc (Ha_e e)) = Cmult lc (Y21e e)) by (unfold Y21e; ring).
    assert (EY22 : Cmult (Cminus (Cmult lc (Hc_e e)) (Cmult (Cmult lc C10e) ksc)) J = Cmult lc (Y22e e)) by (unfold Y22e; ring).
    assert (EA1 : Cmult (Cminus (Cmult lc (Ha_e e)) (Cmult (Cmult lc C9e) ksc)) (RtoC (1 / (4 * K))) = Cmult lc (AA1e e)) by (unfold AA1e; ring).
    assert (EA2 : Cmult (Cminus (Cmult lc (Hc_e e)) (Cmult (Cmult lc C9e) ksc)) (RtoC (1 / (4 * K))) = Cmult lc (AA2e e)) by (unfold AA2e; ring).
    assert (EB1 : Cmult (Cminus (Cmult lc (Ha_e e)) (Cmult (Cmult lc C10e) ksc)) (RtoC (1 / (4 * K))) = Cmult lc (BB1e e)) by (unfold BB1e; ring).
    assert (EB2 : Cmult (Cminus (Cmult lc (Hc_e e)) (Cmult (Cmult lc C10e) ksc)) (RtoC (1 / (4 * K))) = Cmult lc (BB2e e)) by (unfold BB2e; ring).
    rewrite !EX11, !EX12, !EY21, !EY22, EA1, EA2, EB1, EB2.
    rewrite !(hom_EE J lc) by first [assumption | apply X11e_neq | apply X12e_neq].
    rewrite !(hom_FF J lc) by first [assumption | apply Y21e_neq | apply Y22e_neq].
    rewrite (hom_HH J lc) by first [assumption | apply Y21e_neq | apply Y22e_neq].
    rewrite (hom_IIrho J lc) by first [assumption | apply Y21e_neq | apply Y22e_neq].
    rewrite sGG_0, sIIgam_0.
    fold (EEe e) (FFe e) (HHe e) (IIe e) IId.
    assert (Hinv : Cmult lc (Cinv lc) = RtoC 1) by (field; assumption).
    (* exponent *)
    assert (Enum : sNum (RtoC 0) (Cmult lc (EEe e)) (Cmult (RtoC s) (HHe e)) (Cmult lc (FFe e)) (Cplus (Cplus (IIe e) (RtoC 0)) IId) = Cexp (Ees e)).
    { unfold sNum, Ees. f_equal. unfold Cdiv. rewrite !Cinv_mult_total.
      replace (Cmult (RtoC s) (HHe e)) with (Cmult (RtoC s) (HHe e)) by reflexivity.
      assert (Ess : Cmult (RtoC s) (RtoC s) = lc) by (unfold lc; rewrite RtoC_mult; reflexivity).
      replace (Cmult (Cmult (Cmult (RtoC s) (HHe e)) (Cmult (RtoC s) (HHe e))) (Cmult (Cinv (RtoC 4)) (Cmult (Cinv lc) (Cinv (FFe e)))))
        with (Cmult (Cmult (Cmult (RtoC s) (RtoC s)) (Cinv lc)) (Cmult (Cmult (HHe e) (HHe e)) (Cmult (Cinv (RtoC 4)) (Cinv (FFe e))))) by ring.
      rewrite Ess, Hinv. ring. }
    rewrite Enum.
    (* denominator *)
    set (l3 := (s * s) * (s * s) * (s * s)).
    assert (Hl3pos : 0 < l3) by (unfold l3; repeat apply Rmult_lt_0_compat; assumption).
    assert (Eden : sDen (Cmult lc (AA1e e)) (Cmult lc (BB1e e)) (Cmult lc (AA2e e)) (Cmult lc (BB2e e)) (Cmult lc (EEe e)) (Cmult lc (FFe e)) =
                   Cmult (RtoC 8) (Cmult (RtoC l3) (Csqrt (Pe e)))).
    { unfold sDen. f_equal. rewrite <- Csqrt_scale by assumption. f_equal. unfold Pe, lc, l3. rewrite !RtoC_mult. ring. }
    rewrite Eden. unfold GSe, Cdiv. rewrite !Cinv_mult_total.
    assert (Hl3 : RtoC l3 <> RtoC 0) by (apply RtoC_neq_0; lra).
    assert (Hinv3 : Cmult (RtoC l3) (Cinv (RtoC l3)) = RtoC 1) by (field; assumption).
    replace (Cmult (RtoC l3) (Cmult (Cmult (RtoC (apod z1 * apod z2)) (Cexp (Ees e))) (Cmult (Cinv (RtoC 8)) (Cmult (Cinv (RtoC l3)) (Cinv (Csqrt (Pe e)))))))
      with (Cmult (Cmult (RtoC l3) (Cinv (RtoC l3))) (Cmult (RtoC (apod z1 * apod z2)) (Cmult (Cexp (Ees e)) (Cmult (Cinv (RtoC 8)) (Cinv (Csqrt (Pe e))))))) by ring.
    rewrite Hinv3. ring.
  Qed.

  (* ---- continuity in e *)
  Lemma cont_Cconj (f : R -> C) x : continuous f x -> continuous (fun t => Cconj (f t)) x.
  Proof.
    intros Hf. unfold Cconj. apply (continuous_Cpair (U := R_UniformSpace)).
    - apply cont_fst_comp; assumption.
    - apply (continuous_opp (V := R_NormedModule)). apply cont_snd_comp; assumption.
  Qed.
  Lemma cont_RtoC_lin (c : R) x : continuous (fun t : R => RtoC (t * c)) x.
  Proof.
    apply (continuous_comp (fun t : R => t * c) RtoC); [|apply continuous_RtoC].
    apply (ex_derive_continuous (fun t : R => t * c)). auto_derive. exact I.
  Qed.
  Lemma cont_pair_lin (a c : R) x : continuous (fun t : R => ((a, - (t * c)) : C)) x.
  Proof.
    apply (continuous_Cpair (U := R_UniformSpace) (fun _ => a) (fun t => - (t * c))); [apply continuous_const|].
    apply (ex_derive_continuous (fun t : R => - (t * c))). auto_derive. exact I.
  Qed.
  Lemma cont_Cinv_comp (f : R -> C) x : continuous f x -> f x <> RtoC 0 -> continuous (fun t => Cinv (f t)) x.
  Proof. intros Hf H0. apply (continuous_comp f Cinv); [assumption | apply continuous_Cinv; assumption]. Qed.

  Ltac cstep :=
    lazymatch goal with
    | |- continuous (fun _ => ?c) _ => apply cont_Cconst
    | |- continuous (fun t => Cmult _ _) _ => apply cont_Cmult
    | |- continuous (fun t => Cplus _ _) _ => apply cont_Cplus
    | |- continuous (fun t => Cminus _ _) _ => apply cont_Cminus
    | |- continuous (fun t => Copp _) _ => apply cont_Copp
    | |- continuous (fun t => Cconj _) _ => apply cont_Cconj
    | |- continuous (fun t => RtoC (t * _)) _ => apply cont_RtoC_lin
    | |- continuous (fun t => (_, - (t * _))) _ => apply cont_pair_lin
    end.

  Lemma cont_al x : continuous al x. Proof. unfold al. repeat cstep. Qed.
  Lemma cont_Ha x : continuous Ha_e x. Proof. unfold Ha_e. repeat cstep. apply cont_al. Qed.
  Lemma cont_Hc x : continuous Hc_e x. Proof. unfold Hc_e. repeat cstep. apply cont_al. Qed.
  Lemma cont_X11 x : continuous X11e x. Proof. unfold X11e. repeat cstep. apply cont_Ha. Qed.
  Lemma cont_X12 x : continuous X12e x. Proof. unfold X12e. repeat cstep. apply cont_Hc. Qed.
  Lemma cont_Y21 x : continuous Y21e x. Proof. unfold Y21e. repeat cstep. apply cont_Ha. Qed.
  Lemma cont_Y22 x : continuous Y22e x. Proof. unfold Y22e. repeat cstep. apply cont_Hc. Qed.
  Lemma cont_AA1 x : continuous AA1e x. Proof. unfold AA1e. repeat cstep. apply cont_Ha. Qed.
  Lemma cont_AA2 x : continuous AA2e x. Proof. unfold AA2e. repeat cstep. apply cont_Hc. Qed.
  Lemma cont_BB1 x : continuous BB1e x. Proof. unfold BB1e. repeat cstep. apply cont_Ha. Qed.
  Lemma cont_BB2 x : continuous BB2e x. Proof. unfold BB2e. repeat cstep. apply cont_Hc. Qed.
  Lemma cont_a1c x : continuous a1c x. Proof. unfold a1c. repeat cstep. Qed.
  Lemma cont_a2c x : continuous a2c x. Proof. unfold a2c. repeat cstep. Qed.
  Lemma cont_b6c x : continuous b6c x. Proof. unfold b6c. repeat cstep. Qed.

  Ltac cleaf :=
    lazymatch goal with
    | |- continuous (fun t => Cinv (X11e t)) _ => apply cont_Cinv_comp; [apply cont_X11 | apply X11e_neq]
    | |- continuous (fun t => Cinv (X12e t)) _ => apply cont_Cinv_comp; [apply cont_X12 | apply X12e_neq]
    | |- continuous (fun t => Cinv (Y21e t)) _ => apply cont_Cinv_comp; [apply cont_Y21 | apply Y21e_neq]
    | |- continuous (fun t => Cinv (Y22e t)) _ => apply cont_Cinv_comp; [apply cont_Y22 | apply Y22e_neq]
    | |- continuous (fun t => b6c t) _ => apply cont_b6c
    | |- continuous (fun t => a1c t) _ => apply cont_a1c
    | |- continuous (fun t => a2c t) _ => apply cont_a2c
    | |- continuous b6c _ => apply cont_b6c
    | |- continuous a1c _ => apply cont_a1c
    | |- continuous a2c _ => apply cont_a2c
    | |- continuous (fun t => AA1e t) _ => apply cont_AA1 | |- continuous (fun t => AA2e t) _ => apply cont_AA2
    | |- continuous (fun t => BB1e t) _ => apply cont_BB1 | |- continuous (fun t => BB2e t) _ => apply cont_BB2
    | |- continuous AA1e _ => apply cont_AA1 | |- continuous AA2e _ => apply cont_AA2
    | |- continuous BB1e _ => apply cont_BB1 | |- continuous BB2e _ => apply cont_BB2
    end.

  Lemma cont_EEe x : continuous EEe x.
  Proof. unfold EEe, sEE, Cdiv. repeat cstep; cleaf. Qed.
  Lemma cont_FFe x : continuous FFe x.
  Proof. unfold FFe, sFF, Cdiv. repeat cstep; cleaf. Qed.
  Lemma cont_HHe x : continuous HHe x.
  Proof. unfold HHe, sHH, Cdiv. repeat cstep; cleaf. Qed.
  Lemma cont_IIe x : continuous IIe x.
  Proof. unfold IIe, sIIrho, Cdiv. repeat cstep; cleaf. Qed.

  (* ---- values at e = 0 *)
  Ltac cval := unfold EEe, FFe, HHe, IIe, sEE, sFF, sHH, sIIrho, X11e, X12e, Y21e, Y22e, AA1e, AA2e, BB1e, BB2e, Ha_e, Hc_e, al, C9e, C10e, ksc,
                  a1c, a2c, b6c, J, Cdiv, Cinv, Cconj, Cminus, Cplus, Copp, Cmult, RtoC; cbn [fst snd].

  Lemma AA1e_0 : AA1e 0 = RtoC (- (ss + wx) / 4).
  Proof. cval. unfold K. apply C_pair_eq; field; split; assumption. Qed.
  Lemma AA2e_0 : AA2e 0 = RtoC (- (ss + wx) / 4).
  Proof. cval. unfold K. apply C_pair_eq; field; split; assumption. Qed.
  Lemma BB1e_0 : BB1e 0 = RtoC (- (ss + wy) / 4).
  Proof. cval. unfold K. apply C_pair_eq; field; split; assumption. Qed.
  Lemma BB2e_0 : BB2e 0 = RtoC (- (ss + wy) / 4).
  Proof. cval. unfold K. apply C_pair_eq; field; split; assumption. Qed.

  Ltac nzside :=
    match goal with
    | |- ?e <> 0 =>
        first [ replace e with (kp * ks * (- (ss + wx))) by ring | replace e with (kp * ks * (ss + wx)) by ring
              | replace e with (kp * ks * (- (ss + wy))) by ring | replace e with (kp * ks * (ss + wy)) by ring ];
        apply Rmult_integral_contrapositive_currified; [apply Rmult_integral_contrapositive_currified; assumption | lra]
    end.
  Ltac cfield := apply C_pair_eq; (unfold Q2R; cbn [Qnum Qden]); field; repeat split; try assumption; try lra; try nzside.

  Lemma X11e_0 : X11e 0 = RtoC (K * (ss + wx)).
  Proof. rewrite X11e_eq, AA1e_0, <- RtoC_opp, <- RtoC_mult. f_equal. field. Qed.
  Lemma X12e_0 : X12e 0 = Cmult (RtoC (- (K * (ss + wx)))) J.
  Proof. rewrite X12e_eq, AA2e_0, <- RtoC_mult. do 2 f_equal. field. Qed.
  Lemma Y21e_0 : Y21e 0 = RtoC (K * (ss + wy)).
  Proof. rewrite Y21e_eq, BB1e_0, <- RtoC_opp, <- RtoC_mult. f_equal. field. Qed.
  Lemma Y22e_0 : Y22e 0 = Cmult (RtoC (- (K * (ss + wy)))) J.
  Proof. rewrite Y22e_eq, BB2e_0, <- RtoC_mult. do 2 f_equal. field. Qed.
  Lemma a1c_0 : a1c 0 = RtoC 0. Proof. unfold a1c. f_equal. ring. Qed.
  Lemma a2c_0 : a2c 0 = RtoC 0. Proof. unfold a2c. f_equal. ring. Qed.
  Lemma b6c_0 : b6c 0 = RtoC 0. Proof. unfold b6c. f_equal. ring. Qed.

  Lemma Kx_neq : K * (ss + wx) <> 0.
  Proof. apply Rmult_integral_contrapositive_currified; [apply K_neq | lra]. Qed.
  Lemma Ky_neq : K * (ss + wy) <> 0.
  Proof. apply Rmult_integral_contrapositive_currified; [apply K_neq | lra]. Qed.

  Lemma EEe_0 : EEe 0 = RtoC (- (wx * ss / (wx + ss)) / 2).
  Proof.
    unfold EEe. rewrite X11e_0, X12e_0, a1c_0, a2c_0, b6c_0.
    change ((2 * (wx / 1), 0) : C) with (RtoC (2 * (wx / 1))). change C9e with (RtoC (kp * wx)). unfold J.
    rewrite (sEE_axis _ _ _ _ Kx_neq). f_equal. unfold K. unfold Q2R; cbn [Qnum Qden]. field. repeat split; try assumption; lra.
  Qed.
  Lemma FFe_0 : FFe 0 = RtoC (- (wy * ss / (wy + ss)) / 2).
  Proof.
    unfold FFe. rewrite Y21e_0, Y22e_0, a1c_0, a2c_0, b6c_0.
    change ((2 * (wy / 1), 0) : C) with (RtoC (2 * (wy / 1))). change C10e with (RtoC (kp * wy)). unfold J.
    rewrite (sFF_axis _ _ _ _ Ky_neq). f_equal. unfold K. unfold Q2R; cbn [Qnum Qden]. field. repeat split; try assumption; lra.
  Qed.
  Lemma HHe_0 : HHe 0 = (0, 0.5 * ell * (z1 - z2) * ss / (wy + ss)).
  Proof.
    unfold HHe. rewrite Y21e_0, Y22e_0, a1c_0, a2c_0. change C10e with (RtoC (kp * wy)). unfold ksc, J.
    rewrite (sHH_axis _ _ _ _ _ _ _ Ky_neq). apply C_pair_eq; [reflexivity|]. unfold K. unfold Q2R; cbn [Qnum Qden]. field.
    repeat split; try assumption; lra.
  Qed.
  Lemma IIe_0 : IIe 0 = RtoC (- (ell * ell) * ((1 + z1) ^ 2 + (1 + z2) ^ 2) / (4 * (wy + ss))).
  Proof.
    unfold IIe. rewrite Y21e_0, Y22e_0. unfold J. rewrite (sIIrho_axis _ _ _ _ Ky_neq). f_equal.
    unfold K. unfold Q2R; cbn [Qnum Qden]. field. repeat split; try assumption; lra.
  Qed.

  Lemma FFe_0_neq : Cmult (RtoC 4) (FFe 0) <> RtoC 0.
  Proof.
    rewrite FFe_0, <- RtoC_mult. apply RtoC_neq_0.
    assert (0 < wy * ss / (wy + ss)) by (apply Rdiv_lt_0_compat; [apply Rmult_lt_0_compat; assumption | lra]). lra.
  Qed.

  Ltac cleaf2 :=
    lazymatch goal with
    | |- continuous (fun t => EEe t) _ => apply cont_EEe | |- continuous EEe _ => apply cont_EEe
    | |- continuous (fun t => FFe t) _ => apply cont_FFe | |- continuous FFe _ => apply cont_FFe
    | |- continuous (fun t => HHe t) _ => apply cont_HHe | |- continuous HHe _ => apply cont_HHe
    | |- continuous (fun t => IIe t) _ => apply cont_IIe | |- continuous IIe _ => apply cont_IIe
    | |- continuous (fun t => Cinv (Cmult (RtoC 4) (FFe t))) 0 =>
        apply (cont_Cinv_comp (fun e => Cmult (RtoC 4) (FFe e))); [apply cont_Cmult; [apply cont_Cconst | apply cont_FFe] | apply FFe_0_neq]
    | |- _ => cleaf
    end.

  Lemma cont_Ees : continuous Ees 0.
  Proof. unfold Ees. repeat cstep; cleaf2. Qed.

  Lemma cont_Pe x : continuous Pe x.
  Proof. unfold Pe. repeat cstep; cleaf2. Qed.

  (* the radicand at e = 0 is a positive real *)
  Definition P0 : R := (ss + wx) * (ss + wy) * wx * wy * (ss * ss) / 1024.
  Lemma P0_pos : 0 < P0.
  Proof. unfold P0. apply Rdiv_lt_0_compat; [|lra]. repeat apply Rmult_lt_0_compat; lra. Qed.
  Lemma Pe_0 : Pe 0 = RtoC P0.
  Proof.
    unfold Pe. rewrite AA1e_0, AA2e_0, BB1e_0, BB2e_0, EEe_0, FFe_0. rewrite <- !RtoC_mult. f_equal. unfold P0. field. lra.
  Qed.

  Lemma cont_GSe : continuous GSe 0.
  Proof.
    unfold GSe.
    apply (cont_Cmult (fun _ => RtoC (apod z1 * apod z2)) (fun e => Cmult (Cexp (Ees e)) (Cinv (Cmult (RtoC 8) (Csqrt (Pe e)))))); [apply cont_Cconst|].
    apply (cont_Cmult (fun e => Cexp (Ees e)) (fun e => Cinv (Cmult (RtoC 8) (Csqrt (Pe e))))).
    - apply (continuous_comp Ees Cexp); [apply cont_Ees | apply continuous_Cexp].
    - apply (cont_Cinv_comp (fun e => Cmult (RtoC 8) (Csqrt (Pe e)))).
      + apply (cont_Cmult (fun _ => RtoC 8) (fun e => Csqrt (Pe e))); [apply cont_Cconst|].
        apply (continuous_comp Pe Csqrt); [apply cont_Pe | rewrite Pe_0; apply continuous_Csqrt_pos, P0_pos].
      + rewrite Pe_0, Csqrt_real_nonneg by (left; apply P0_pos). rewrite <- RtoC_mult. apply RtoC_neq_0.
        pose proof (sqrt_lt_R0 _ P0_pos). lra.
  Qed.

  (* the limit integrand: R_exponent of the property text (Wp^2 = wy, Ws^2 = ss, d_j = (ell / 2)(1 + z_j)) and the residual
     phase-mismatch phase c3 (z1 - z2) / 2 *)
  Definition singles_limit_exponent : R :=
    - (ell * ell) * ((1 + z1) ^ 2 + (1 + z2) ^ 2) / (4 * (wy + ss)) - (ell * ell) * ((z1 - z2) * (z1 - z2)) * ss / (8 * wy * (wy + ss)).
  Definition singles_limit_value : C :=
    Cmult (RtoC (apod z1 * apod z2 / (8 * sqrt P0))) (Cexp (singles_limit_exponent, 0.5 * c3 * (z1 - z2))).

  Lemma Ees_0 : Ees 0 = (singles_limit_exponent, 0.5 * c3 * (z1 - z2)).
  Proof.
    unfold Ees. rewrite HHe_0, FFe_0, IIe_0. unfold IId, J, singles_limit_exponent, Cinv, Cplus, Copp, Cmult, RtoC; cbn [fst snd].
    apply C_pair_eq; (unfold Q2R; cbn [Qnum Qden]); field; repeat split; lra.
  Qed.

  Lemma GSe_0 : GSe 0 = singles_limit_value.
  Proof.
    unfold GSe, singles_limit_value. rewrite Ees_0, Pe_0, Csqrt_real_nonneg by (left; apply P0_pos).
    pose proof (sqrt_lt_R0 _ P0_pos) as Hs. set (sq := sqrt P0) in *. set (ph := Cexp _). destruct ph as [pr pi].
    unfold Cinv, Cmult, RtoC; cbn [fst snd]. apply C_pair_eq; field; lra.
  Qed.

  Lemma filterlim_inv_sqr : filterlim (fun s : R => / (s * s)) (Rbar_locally p_infty) (locally 0).
  Proof.
    apply (filterlim_comp _ _ _ (fun s : R => s * s) Rinv (Rbar_locally p_infty) (Rbar_locally p_infty) (locally 0)).
    - apply filterlim_sqr_p_infty.
    - apply (filterlim_Rbar_inv p_infty). discriminate.
  Qed.

  (* singles: s^6 x integrand(waists x s, walk-off length x s) -> limit value *)
  Theorem singles_waist_limit : filterlim sscaled (Rbar_locally p_infty) (locally singles_limit_value).
  Proof.
    rewrite <- GSe_0.
    apply (filterlim_ext_loc (fun s => GSe (/ (s * s)))).
    - exists 0. intros s Hs. symmetry. apply scaled_eq. exact Hs.
    - apply (filterlim_comp _ _ _ (fun s : R => / (s * s)) GSe (Rbar_locally p_infty) (locally 0) (locally (GSe 0))).
      + apply filterlim_inv_sqr.
      + apply cont_GSe.
  Qed.
End SinglesLimit.
