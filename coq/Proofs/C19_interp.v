(* C19 — interpolated profile: end samples, nodes, piecewise linearity, for every sample vector. *)
From Coq Require Import Reals Lra Lia List ZArith.
From SpdVerif Require Import Base.Rx Base.PolingBase Gen.Poling Model.Poling Proofs.C19_base.
Local Open Scope R_scope.

(* the fractional index the code computes *)
Definition interp_index (n : nat) (z : R) : R := 0.5 * (z + 1) * (INR n - 1).

Lemma interp_unfold values z L :
  apod_Interpolate values z L =
  if Req_EM_T (INR (length values)) 0 then 1
  else let i := interp_index (length values) z in
       vec_at values (Rfloor i) * (1 - (i - Rfloor i)) + vec_at values (Rceil i) * (i - Rfloor i).
Proof. reflexivity. Qed.

Lemma interp_empty z L : integration_constant (ApInterpolate nil) z L = 1.
Proof.
  cbn [integration_constant]. rewrite interp_unfold. cbn [length INR].
  destruct (Req_EM_T 0 0); [reflexivity | contradiction].
Qed.

(* at a node (the index is the integer k) the profile returns sample k *)
Lemma interp_node values z L k :
  (k < length values)%nat -> interp_index (length values) z = INR k ->
  integration_constant (ApInterpolate values) z L = nth k values 0.
Proof.
  intros Hk Hi. cbn [integration_constant]. rewrite interp_unfold.
  destruct (Req_EM_T (INR (length values)) 0) as [E | _].
  - exfalso. assert (0 < INR (length values)) by (apply lt_0_INR; lia). lra.
  - cbv zeta. rewrite Hi, Rfloor_INR, Rceil_INR, vec_at_INR. ring.
Qed.

(* strictly between nodes k and k+1 *)
Lemma interp_between values z L k t :
  (k + 1 < length values)%nat -> 0 < t < 1 -> interp_index (length values) z = INR k + t ->
  integration_constant (ApInterpolate values) z L = nth k values 0 * (1 - t) + nth (k + 1) values 0 * t.
Proof.
  intros Hk Ht Hi. cbn [integration_constant]. rewrite interp_unfold.
  destruct (Req_EM_T (INR (length values)) 0) as [E | _].
  - exfalso. assert (0 < INR (length values)) by (apply lt_0_INR; lia). lra.
  - cbv zeta. rewrite Hi, Rfloor_INR_plus, Rceil_INR_plus by lra.
    rewrite !vec_at_INR. replace (S k) with (k + 1)%nat by lia. ring.
Qed.

(* piecewise linearity on the closed segment [k, k+1] *)
Lemma interp_linear values z L k t :
  (k + 1 < length values)%nat -> 0 <= t <= 1 -> interp_index (length values) z = INR k + t ->
  integration_constant (ApInterpolate values) z L = nth k values 0 * (1 - t) + nth (k + 1) values 0 * t.
Proof.
  intros Hk [[Ht0 | Ht0] [Ht1 | Ht1]] Hi.
  - apply interp_between; auto.
  - subst t. rewrite (interp_node values z L (k + 1)); [ring | lia |].
    rewrite Hi, plus_INR. simpl INR. ring.
  - subst t. rewrite (interp_node values z L k); [ring | lia |]. rewrite Hi. ring.
  - lra.
Qed.

Lemma interp_index_position n k t : (2 <= n)%nat -> interp_index n (interp_position n k t) = INR k + t.
Proof.
  intros Hn. unfold interp_index, interp_position.
  assert (H2 : 2 <= INR n) by (change 2 with (INR 2); apply le_INR; lia).
  replace 0.5 with (/ 2) by lra. field. lra.
Qed.

Lemma interp_position_range n k t : (2 <= n)%nat -> (k + 1 < n)%nat -> 0 <= t <= 1 -> -1 <= interp_position n k t <= 1.
Proof.
  intros Hn Hk Ht. unfold interp_position.
  assert (H2 : 2 <= INR n) by (change 2 with (INR 2); apply le_INR; lia).
  assert (Hk' : INR k + 1 + 1 <= INR n).
  { replace (INR k + 1 + 1) with (INR (k + 2)) by (rewrite plus_INR; simpl; ring). apply le_INR. lia. }
  assert (Hk0 : 0 <= INR k) by apply pos_INR.
  assert (Hd : 0 < / (INR n - 1)) by (apply Rinv_0_lt_compat; lra).
  assert (Hq : 0 <= (INR k + t) / (INR n - 1) <= 1).
  { split.
    - unfold Rdiv. apply Rmult_le_pos; lra.
    - apply Rmult_le_reg_r with (INR n - 1); [lra|]. unfold Rdiv. rewrite Rmult_assoc, Rinv_l; lra. }
  unfold Rdiv in *. lra.
Qed.

(* explicit form: z = -1 + 2 (k + t) / (n - 1) *)
Lemma interp_linear_position values L k t :
  (k + 1 < length values)%nat -> 0 <= t <= 1 ->
  integration_constant (ApInterpolate values) (interp_position (length values) k t) L =
  nth k values 0 * (1 - t) + nth (k + 1) values 0 * t.
Proof.
  intros Hk Ht. apply interp_linear; auto. apply interp_index_position. lia.
Qed.

Lemma interp_first values L :
  (1 <= length values)%nat -> integration_constant (ApInterpolate values) (-1) L = nth 0 values 0.
Proof.
  intros Hn. apply interp_node; [lia|]. unfold interp_index. simpl INR. ring.
Qed.

Lemma interp_last values L :
  (1 <= length values)%nat -> integration_constant (ApInterpolate values) 1 L = nth (length values - 1) values 0.
Proof.
  intros Hn. apply interp_node; [lia|]. unfold interp_index.
  rewrite minus_INR by lia. simpl INR. lra.
Qed.

(* a single sample is a constant profile *)
Lemma interp_single v z L : integration_constant (ApInterpolate (v :: nil)) z L = v.
Proof.
  rewrite (interp_node (v :: nil) z L 0); [reflexivity | simpl; lia |].
  unfold interp_index. simpl. ring.
Qed.

(* hence values stay within the hull of the samples: if every sample is in [lo, hi], so is the profile on [-1, 1] *)
Lemma interp_hull values L k t lo hi :
  (k + 1 < length values)%nat -> 0 <= t <= 1 ->
  (forall j, (j < length values)%nat -> lo <= nth j values 0 <= hi) ->
  lo <= integration_constant (ApInterpolate values) (interp_position (length values) k t) L <= hi.
Proof.
  intros Hk Ht Hall. rewrite interp_linear_position by auto.
  pose proof (Hall k ltac:(lia)) as H1. pose proof (Hall (k + 1)%nat ltac:(lia)) as H2.
  set (a := nth k values 0) in *. set (b := nth (k + 1) values 0) in *. nra.
Qed.

(* every z in [-1,1] is such a position (for n >= 2): k = floor of the index (clamped to n-2) *)
Lemma interp_position_surjective n z :
  (2 <= n)%nat -> -1 <= z <= 1 -> exists k t, (k + 1 < n)%nat /\ 0 <= t <= 1 /\ z = interp_position n k t.
Proof.
  intros Hn Hz.
  assert (H2 : 2 <= INR n) by (change 2 with (INR 2); apply le_INR; lia).
  set (i := interp_index n z).
  assert (Hi : 0 <= i <= INR n - 1) by (unfold i, interp_index; nra).
  assert (Hz' : forall k t, i = INR k + t -> z = interp_position n k t).
  { intros k t E. unfold interp_position. rewrite <- E. unfold i, interp_index.
    replace 0.5 with (/ 2) by lra. field. lra. }
  destruct (Req_dec i (INR n - 1)) as [E | NE].
  - exists (n - 2)%nat, 1. repeat split; try lia; try lra.
    apply Hz'. rewrite E, minus_INR by lia. simpl INR. lra.
  - pose proof (Rfloor_spec i) as [F1 F2].
    assert (Hnat : exists k : nat, Rfloor i = INR k).
    { unfold Rfloor in *. exists (Z.to_nat (Int_part i)).
      rewrite INR_IZR_INZ, Z2Nat.id; [reflexivity|].
      apply le_IZR. apply Rnot_lt_le. intros Hneg.
      assert (IZR (Int_part i) <= -1).
      { replace (-1) with (IZR (-1)) by reflexivity. apply IZR_le.
        apply lt_IZR in Hneg. lia. }
      lra. }
    destruct Hnat as [k Ek]. rewrite Ek in *.
    exists k, (i - INR k). repeat split; try lra.
    + assert (INR k < INR n - 1) by lra.
      assert (INR (k + 1) < INR n) by (rewrite plus_INR; simpl INR; lra).
      apply INR_lt in H0. lia.
    + apply Hz'. ring.
Qed.
