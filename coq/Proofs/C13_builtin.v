(* C13 — composed corollaries for the built-in crystals: the index oracle n_along of the Snell / waist-position theorems
   instantiated with the generated index_along over the generated crystal tables (Proofs/Compose_index.v). *)
From Coq Require Import Reals Lra.
From SpdVerif Require Import Base.Rx Spec.CrystalTypes Spec.Published Gen.Crystals Proofs.Sellmeier Proofs.C01_all.
From SpdVerif Require Import Model.Optics Model.Fresnel Gen.Fresnel Gen.Beam Model.Beam Proofs.C02_frame Proofs.C02_gen
  Proofs.Compose_index Proofs.C13_norm Proofs.C13_beam Proofs.C13_snell.
Local Open Scope R_scope.

Definition builtin_index (c : crystal) (l T theta phi : R) (p : polarization) : vec -> R :=
  fun d => crystal_index c l T theta phi d p.

Lemma unit_normalize_polar ph th : unit_vec (normalize (polar_dir ph th)).
Proof. rewrite normalize_polar. apply polar_dir_unit. Qed.

Lemma unit_z : unit_vec (0, 0, 1).
Proof. unfold unit_vec, vnorm2, vdot, vx, vy, vz; cbn [fst snd]. ring. Qed.

(* (a) internal angle not larger than the external one: the hypothesis n >= 1 is discharged *)
Theorem internal_not_larger_builtin nm c l T theta phi p s e r M :
  in_window c l -> temp_ok T ->
  beam_inv s -> Rabs e <= M -> M < PI / 2 ->
  0 <= theta_star nm (builtin_index c l T theta phi p) s e <= PI / 2 ->
  snell_cost_gen (builtin_index c l T theta phi p) s e (theta_star nm (builtin_index c l T theta phi p) s e) <= r ->
  sin (Rabs (b_theta (set_theta_external_gen (snell_inv_of nm (builtin_index c l T theta phi p)) s e))) <= sin (Rabs e) + r.
Proof.
  intros Hw HT Hs He HM Hb Hc.
  apply (internal_not_larger nm (builtin_index c l T theta phi p) s e r M Hs He HM Hb Hc).
  unfold builtin_index.
  pose proof (crystal_index_bounds c l T theta phi _ p Hw HT (unit_normalize_polar (b_phi s) (signum e * theta_star nm (builtin_index c l T theta phi p) s e))).
  unfold builtin_index in H. lra.
Qed.

(* (b) automatic waist position: guard discharged, and the position lies strictly inside the crystal's second half *)
Theorem waist_position_builtin c l T theta phi p L :
  in_window c l -> temp_ok T ->
  let nz := crystal_index c l T theta phi (0, 0, 1) p in
  optimal_waist_position_gen L (builtin_index c l T theta phi p) = - L / (2 * nz) /\
  1 < nz < 4 /\
  (0 < L -> - L / 2 < optimal_waist_position_gen L (builtin_index c l T theta phi p) < - L / 8).
Proof.
  intros Hw HT nz.
  pose proof (crystal_index_bounds c l T theta phi (0, 0, 1) p Hw HT unit_z) as Hn. fold nz in Hn.
  assert (E : optimal_waist_position_gen L (builtin_index c l T theta phi p) = - L / (2 * nz)).
  { apply optimal_waist_position_gen_eq. unfold builtin_index. fold nz. lra. }
  split; [exact E | split; [exact Hn |]].
  intros HL. rewrite E.
  assert (H2 : / 8 < / (2 * nz) < / 2).
  { split; apply Rinv_lt_contravar; nra. }
  unfold Rdiv. split; nra.
Qed.

(* (c) Snell forward: the asin-domain guard reduced to a condition on the internal angle alone (n < 4) *)
Theorem snell_forward_builtin c l T theta phi p s theta_i :
  in_window c l -> temp_ok T -> Rabs (sin theta_i) <= / 4 ->
  sin (calc_external_theta_from_internal_gen (builtin_index c l T theta phi p) s theta_i) =
  crystal_index c l T theta phi (normalize (polar_dir (b_phi s) theta_i)) p * sin theta_i.
Proof.
  intros Hw HT Hs.
  pose proof (crystal_index_bounds c l T theta phi _ p Hw HT (unit_normalize_polar (b_phi s) theta_i)) as Hn.
  apply (snell_forward_relation (builtin_index c l T theta phi p) s theta_i).
  unfold builtin_index. apply Rabs_le_inv in Hs.
  set (n := crystal_index c l T theta phi (normalize (polar_dir (b_phi s) theta_i)) p) in *.
  split; nra.
Qed.

(* |theta_i| <= |theta_e| as angles (up to r / cos M) for the built-in crystals *)
Theorem internal_angle_not_larger_builtin nm c l T theta phi p s e r M :
  in_window c l -> temp_ok T ->
  beam_inv s -> Rabs e <= M -> M < PI / 2 ->
  0 <= theta_star nm (builtin_index c l T theta phi p) s e <= PI / 2 ->
  snell_cost_gen (builtin_index c l T theta phi p) s e (theta_star nm (builtin_index c l T theta phi p) s e) <= r ->
  sin (Rabs e) + r <= sin M ->
  Rabs (b_theta (set_theta_external_gen (snell_inv_of nm (builtin_index c l T theta phi p)) s e)) <= Rabs e + r / cos M.
Proof.
  intros Hw HT Hs He HM Hb Hc HrM.
  apply (internal_angle_not_larger nm (builtin_index c l T theta phi p) s e r M Hs He HM Hb Hc HrM).
  unfold builtin_index.
  pose proof (crystal_index_bounds c l T theta phi _ p Hw HT (unit_normalize_polar (b_phi s) (signum e * theta_star nm (builtin_index c l T theta phi p) s e))).
  unfold builtin_index in H. lra.
Qed.
