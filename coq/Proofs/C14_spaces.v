(* C14 — conversions between the wavelength, frequency and sum/difference representations (over the reals, two_pi = 2*PI),
   and the flat (signal, idler) list. *)
From Coq Require Import List Arith Bool Lia Reals Lra.
From SpdVerif Require Import Base.GridOps Gen.Grid Model.Grid.
Import ListNotations.
Local Open Scope R_scope.

Definition TWO_PI : R := 2 * PI.
Definition w_of (x : R) : R := vacuum_wavelength_to_frequency Rops TWO_PI x.
Definition l_of (x : R) : R := frequency_to_vacuum_wavelength Rops TWO_PI x.

Lemma two_pi_c_pos : 0 < TWO_PI * 1 * 299792458.
Proof. unfold TWO_PI. pose proof PI_RGT_0. lra. Qed.

Lemma w_of_eq x : w_of x = TWO_PI * 1 * 299792458 / (x * 1).
Proof. reflexivity. Qed.
Lemma l_of_eq x : l_of x = TWO_PI * 1 * 299792458 / (x * 1).
Proof. reflexivity. Qed.

Lemma w_of_pos x : 0 < x -> 0 < w_of x.
Proof. intros H. rewrite w_of_eq. pose proof two_pi_c_pos. apply Rdiv_lt_0_compat; lra. Qed.
Lemma l_of_pos x : 0 < x -> 0 < l_of x.
Proof. intros H. rewrite l_of_eq. pose proof two_pi_c_pos. apply Rdiv_lt_0_compat; lra. Qed.

Lemma l_of_w_of x : x <> 0 -> l_of (w_of x) = x.
Proof. intros H. rewrite l_of_eq, w_of_eq. pose proof two_pi_c_pos. field. split; lra. Qed.
Lemma w_of_l_of x : x <> 0 -> w_of (l_of x) = x.
Proof. intros H. rewrite l_of_eq, w_of_eq. pose proof two_pi_c_pos. field. split; lra. Qed.

(* the conversion reverses order on positive arguments: the longer wavelength is the lower frequency *)
Lemma w_of_decreasing a b : 0 < a -> a < b -> w_of b < w_of a.
Proof.
  intros Ha Hab. rewrite !w_of_eq. pose proof two_pi_c_pos as HK.
  unfold Rdiv. apply Rmult_lt_compat_l; [exact HK|].
  apply Rinv_lt_contravar; [nra | lra].
Qed.
Lemma l_of_decreasing a b : 0 < a -> a < b -> l_of b < l_of a.
Proof. intros Ha Hab. rewrite !l_of_eq, <- !w_of_eq. apply w_of_decreasing; assumption. Qed.

(* spaces as pairs of axes *)
Definition to_fs (s : space R) : space R := on_space (fs_from_wavelength_space Rops TWO_PI) s.
Definition to_ws (s : space R) : space R := on_space (fs_as_wavelength_space Rops TWO_PI) s.
Definition to_sd (s : space R) : space R := on_space (sd_from_frequency_space Rops) s.
Definition of_sd (s : space R) : space R := on_space (sd_as_frequency_space Rops) s.

Definition mk_space (x0 x1 : R) (nx : nat) (y0 y1 : R) (ny : nat) : space R := ((x0, x1, nx), (y0, y1, ny)).

(* wavelength -> frequency: each axis' endpoints are the images of the endpoints, in swapped position *)
Theorem to_fs_endpoints x0 x1 nx y0 y1 ny :
  to_fs (mk_space x0 x1 nx y0 y1 ny) = mk_space (w_of x1) (w_of x0) nx (w_of y1) (w_of y0) ny.
Proof. reflexivity. Qed.
Theorem to_ws_endpoints x0 x1 nx y0 y1 ny :
  to_ws (mk_space x0 x1 nx y0 y1 ny) = mk_space (l_of x1) (l_of x0) nx (l_of y1) (l_of y0) ny.
Proof. reflexivity. Qed.

(* an ascending axis of positive values stays ascending *)
Definition ascending (a : axis R) : Prop := 0 < ax_lo a /\ ax_lo a < ax_hi a.
Theorem to_fs_ascending s : ascending (fst s) -> ascending (snd s) -> ascending (fst (to_fs s)) /\ ascending (snd (to_fs s)).
Proof.
  destruct s as [[[x0 x1] nx] [[y0 y1] ny]]. unfold ascending; cbn [fst snd ax_lo ax_hi]. intros [Hx0 Hx] [Hy0 Hy].
  change (to_fs (x0, x1, nx, (y0, y1, ny))) with (mk_space (w_of x1) (w_of x0) nx (w_of y1) (w_of y0) ny).
  unfold mk_space; cbn [fst snd]. repeat split; try (apply w_of_pos; lra); apply w_of_decreasing; lra.
Qed.
Theorem to_ws_ascending s : ascending (fst s) -> ascending (snd s) -> ascending (fst (to_ws s)) /\ ascending (snd (to_ws s)).
Proof.
  destruct s as [[[x0 x1] nx] [[y0 y1] ny]]. unfold ascending; cbn [fst snd ax_lo ax_hi]. intros [Hx0 Hx] [Hy0 Hy].
  change (to_ws (x0, x1, nx, (y0, y1, ny))) with (mk_space (l_of x1) (l_of x0) nx (l_of y1) (l_of y0) ny).
  unfold mk_space; cbn [fst snd]. repeat split; try (apply l_of_pos; lra); apply l_of_decreasing; lra.
Qed.

Definition nonzero_axes (s : space R) : Prop :=
  ax_lo (fst s) <> 0 /\ ax_hi (fst s) <> 0 /\ ax_lo (snd s) <> 0 /\ ax_hi (snd s) <> 0.

Theorem ws_fs_roundtrip s : nonzero_axes s -> to_ws (to_fs s) = s.
Proof.
  destruct s as [[[x0 x1] nx] [[y0 y1] ny]]. unfold nonzero_axes; cbn [fst snd ax_lo ax_hi]. intros (H1 & H2 & H3 & H4).
  change (to_fs (x0, x1, nx, (y0, y1, ny))) with (mk_space (w_of x1) (w_of x0) nx (w_of y1) (w_of y0) ny).
  unfold mk_space. change (to_ws (w_of x1, w_of x0, nx, (w_of y1, w_of y0, ny)))
    with (mk_space (l_of (w_of x0)) (l_of (w_of x1)) nx (l_of (w_of y0)) (l_of (w_of y1)) ny).
  unfold mk_space. rewrite !l_of_w_of by assumption. reflexivity.
Qed.
Theorem fs_ws_roundtrip s : nonzero_axes s -> to_fs (to_ws s) = s.
Proof.
  destruct s as [[[x0 x1] nx] [[y0 y1] ny]]. unfold nonzero_axes; cbn [fst snd ax_lo ax_hi]. intros (H1 & H2 & H3 & H4).
  change (to_ws (x0, x1, nx, (y0, y1, ny))) with (mk_space (l_of x1) (l_of x0) nx (l_of y1) (l_of y0) ny).
  unfold mk_space. change (to_fs (l_of x1, l_of x0, nx, (l_of y1, l_of y0, ny)))
    with (mk_space (w_of (l_of x0)) (w_of (l_of x1)) nx (w_of (l_of y0)) (w_of (l_of y1)) ny).
  unfold mk_space. rewrite !w_of_l_of by assumption. reflexivity.
Qed.

(* the other named conversions are these compositions *)
Theorem conversions_compose x0 x1 nx y0 y1 ny :
  ws_as_frequency_space Rops TWO_PI x0 x1 nx y0 y1 ny = fs_from_wavelength_space Rops TWO_PI x0 x1 nx y0 y1 ny /\
  ws_from_frequency_space Rops TWO_PI x0 x1 nx y0 y1 ny = fs_as_wavelength_space Rops TWO_PI x0 x1 nx y0 y1 ny /\
  fs_as_sum_diff_space Rops x0 x1 nx y0 y1 ny = sd_from_frequency_space Rops x0 x1 nx y0 y1 ny /\
  fs_from_sum_diff_space Rops x0 x1 nx y0 y1 ny = sd_as_frequency_space Rops x0 x1 nx y0 y1 ny /\
  on_space (sd_from_wavelength_space Rops TWO_PI) (mk_space x0 x1 nx y0 y1 ny) = to_sd (to_fs (mk_space x0 x1 nx y0 y1 ny)) /\
  on_space (ws_as_sum_diff_space Rops TWO_PI) (mk_space x0 x1 nx y0 y1 ny) = to_sd (to_fs (mk_space x0 x1 nx y0 y1 ny)) /\
  on_space (sd_as_wavelength_space Rops TWO_PI) (mk_space x0 x1 nx y0 y1 ny) = to_ws (of_sd (mk_space x0 x1 nx y0 y1 ny)) /\
  on_space (ws_from_sum_diff_space Rops TWO_PI) (mk_space x0 x1 nx y0 y1 ny) = to_ws (of_sd (mk_space x0 x1 nx y0 y1 ny)).
Proof. repeat split. Qed.

(* ------------------------------------------------------------------------------------------------ sum / difference *)
Definition centre (a : axis R) : R := (ax_lo a + ax_hi a) / 2.
Definition span (a : axis R) : R := ax_hi a - ax_lo a.

Theorem sd_counts s :
  ax_n (fst (to_sd s)) = ax_n (fst s) /\ ax_n (snd (to_sd s)) = ax_n (snd s) /\
  ax_n (fst (of_sd s)) = ax_n (fst s) /\ ax_n (snd (of_sd s)) = ax_n (snd s).
Proof. destruct s as [[[x0 x1] nx] [[y0 y1] ny]]. repeat split. Qed.

(* the centre of the sum/difference grid is the image of the centre of the frequency grid: mapped back through the
   representation's own point map (w_s = s - d, w_i = s + d) it is the centre of the frequency grid *)
Theorem to_sd_centre s :
  sd_point Rops (centre (fst (to_sd s))) (centre (snd (to_sd s))) = (centre (fst s), centre (snd s)).
Proof.
  destruct s as [[[x0 x1] nx] [[y0 y1] ny]].
  unfold to_sd, on_space, sd_from_frequency_space, sd_point, centre; cbn [fst snd ax_lo ax_hi Rops o_add o_sub o_mul o_div o_z].
  f_equal; field.
Qed.
Theorem of_sd_centre s :
  (centre (fst (of_sd s)), centre (snd (of_sd s))) = sd_point Rops (centre (fst s)) (centre (snd s)).
Proof.
  destruct s as [[[x0 x1] nx] [[y0 y1] ny]].
  unfold of_sd, on_space, sd_as_frequency_space, sd_point, centre; cbn [fst snd ax_lo ax_hi Rops o_add o_sub o_mul o_div o_z].
  f_equal; field.
Qed.

(* both conversions produce axes of equal span *)
Theorem sd_equal_spans s :
  span (fst (to_sd s)) = span (snd (to_sd s)) /\ span (fst (of_sd s)) = span (snd (of_sd s)).
Proof.
  destruct s as [[[x0 x1] nx] [[y0 y1] ny]].
  unfold to_sd, of_sd, on_space, sd_from_frequency_space, sd_as_frequency_space, span;
    cbn [fst snd ax_lo ax_hi Rops o_add o_sub o_mul o_div o_z]. split; field.
Qed.

(* frequency -> sum/diff -> frequency is the identity exactly when signal and idler spans are equal *)
Lemma mk_space_eq a b n c d m a' b' c' d' :
  a = a' -> b = b' -> c = c' -> d = d' -> mk_space a b n c d m = mk_space a' b' n c' d' m.
Proof. intros -> -> -> ->. reflexivity. Qed.

Theorem fs_sd_roundtrip_iff s : of_sd (to_sd s) = s <-> span (fst s) = span (snd s).
Proof.
  destruct s as [[[x0 x1] nx] [[y0 y1] ny]].
  unfold to_sd, of_sd, on_space, sd_from_frequency_space, sd_as_frequency_space, span;
    cbn [fst snd ax_lo ax_hi ax_n Rops o_add o_sub o_mul o_div o_z].
  split.
  - intros H. injection H. intros. lra.
  - intros H. apply mk_space_eq; lra.
Qed.
Theorem sd_fs_roundtrip_iff s : to_sd (of_sd s) = s <-> span (fst s) = span (snd s).
Proof.
  destruct s as [[[x0 x1] nx] [[y0 y1] ny]].
  unfold to_sd, of_sd, on_space, sd_from_frequency_space, sd_as_frequency_space, span;
    cbn [fst snd ax_lo ax_hi ax_n Rops o_add o_sub o_mul o_div o_z].
  split.
  - intros H. injection H. intros. lra.
  - intros H. apply mk_space_eq; lra.
Qed.

(* hence a second round trip changes nothing *)
Theorem sd_roundtrip_idempotent s : to_sd (of_sd (to_sd s)) = to_sd s /\ of_sd (to_sd (of_sd s)) = of_sd s.
Proof.
  split.
  - apply sd_fs_roundtrip_iff. apply (sd_equal_spans s).
  - apply fs_sd_roundtrip_iff. apply (sd_equal_spans s).
Qed.

(* the corners of the frequency rectangle in sum/diff coordinates: the sum axis runs from the (min,min) corner to the
   (max,max) corner, the difference axis from (max signal, min idler) to (min signal, max idler) *)
Theorem to_sd_endpoints x0 x1 nx y0 y1 ny :
  to_sd (mk_space x0 x1 nx y0 y1 ny) = mk_space ((y0 + x0) / 2) ((y1 + x1) / 2) nx ((y0 - x1) / 2) ((y1 - x0) / 2) ny.
Proof. reflexivity. Qed.

(* ------------------------------------------------------------------------------------------------ flat lists *)
Theorem chunk2_flatten2 {A} (l : list (A * A)) : chunk2 (flatten2 l) = l.
Proof.
  induction l as [|[a b] t IH]; [reflexivity|].
  unfold flatten2 in *. cbn [flat_map fst snd app chunk2]. rewrite IH. reflexivity.
Qed.

(* a range evaluator over the flat list visits the same (signal, idler) pairs, in the same order, as over the grid *)
Theorem flat_list_is_grid {A B} (f : A * A -> B) (grid : list (A * A)) :
  map f (chunk2 (flatten2 grid)) = map f grid.
Proof. rewrite chunk2_flatten2. reflexivity. Qed.

Theorem chunk2_length {A} (l : list A) : length (chunk2 l) = Nat.div2 (length l).
Proof.
  assert (H : forall n (l : list A), (length l <= n)%nat -> length (chunk2 l) = Nat.div2 (length l)).
  { induction n as [|n IH]; intros [|a [|b t]] Hl; cbn in *; try reflexivity; try lia.
    f_equal. apply IH. lia. }
  apply (H (length l)). lia.
Qed.

(* the generated description of the flat arrays is the pairing model: chunks of 2, positions 0 and 1 *)
Lemma chunks_pairs_chunk2 {A} : forall fuel (l : list A), (length l <= fuel)%nat ->
  flat_map (fun c => match nth_error c 0, nth_error c 1 with Some a, Some b => [(a, b)] | _, _ => [] end) (chunks fuel 2 l) = chunk2 l.
Proof.
  induction fuel as [|f IH]; intros l Hl.
  - destruct l; [reflexivity | cbn in Hl; lia].
  - destruct l as [|a [|b t]]; try reflexivity.
    cbn [chunks length Nat.eqb orb Nat.ltb Nat.leb firstn skipn flat_map nth_error chunk2 app].
    f_equal. apply IH. cbn in Hl. lia.
Qed.

Theorem array_pairs_chunk2 {A} (l : list A) : array_pairs (2, (0, 1))%nat l = chunk2 l.
Proof. unfold array_pairs. cbn [fst snd]. apply chunks_pairs_chunk2. lia. Qed.

Theorem chunk2_odd {A} (grid : list (A * A)) (x : A) : chunk2 (flatten2 grid ++ [x]) = grid.
Proof.
  induction grid as [|[a b] t IH]; [reflexivity|].
  unfold flatten2 in *. cbn [flat_map fst snd app chunk2]. rewrite IH. reflexivity.
Qed.

Theorem arrays_generated :
  farr_chunk = (2, (0, 1))%nat /\ warr_chunk = (2, (0, 1))%nat /\
  (forall a b : R, farr_point a b = fs_point a b) /\ (forall a b : R, warr_point Rops TWO_PI a b = ws_point Rops TWO_PI a b).
Proof. repeat split. Qed.

(* every `impl From<space> for space` is the named conversion *)
Theorem from_impls_delegate x0 x1 nx y0 y1 ny :
  from_ws_for_fs Rops TWO_PI x0 x1 nx y0 y1 ny = fs_from_wavelength_space Rops TWO_PI x0 x1 nx y0 y1 ny /\
  from_sd_for_fs Rops x0 x1 nx y0 y1 ny = sd_as_frequency_space Rops x0 x1 nx y0 y1 ny /\
  from_ws_for_sd Rops TWO_PI x0 x1 nx y0 y1 ny = sd_from_wavelength_space Rops TWO_PI x0 x1 nx y0 y1 ny /\
  from_fs_for_sd Rops x0 x1 nx y0 y1 ny = sd_from_frequency_space Rops x0 x1 nx y0 y1 ny /\
  from_fs_for_ws Rops TWO_PI x0 x1 nx y0 y1 ny = fs_as_wavelength_space Rops TWO_PI x0 x1 nx y0 y1 ny /\
  from_sd_for_ws Rops TWO_PI x0 x1 nx y0 y1 ny = sd_as_wavelength_space Rops TWO_PI x0 x1 nx y0 y1 ny.
Proof. repeat split. Qed.

(* descending axes: the conversion swaps the endpoints, it does not sort — a descending positive axis stays descending (the
   orientation is kept, which is what makes the round trip the identity; sorting and round-tripping are incompatible) *)
Definition descending (a : axis R) : Prop := 0 < ax_hi a /\ ax_hi a < ax_lo a.
Theorem to_fs_descending s : descending (fst s) -> descending (snd s) -> descending (fst (to_fs s)) /\ descending (snd (to_fs s)).
Proof.
  destruct s as [[[x0 x1] nx] [[y0 y1] ny]]. unfold descending; cbn [fst snd ax_lo ax_hi]. intros [Hx0 Hx] [Hy0 Hy].
  change (to_fs (x0, x1, nx, (y0, y1, ny))) with (mk_space (w_of x1) (w_of x0) nx (w_of y1) (w_of y0) ny).
  unfold mk_space; cbn [fst snd]. repeat split; try (apply w_of_pos; lra); apply w_of_decreasing; lra.
Qed.

(* the constructors keep their arguments: first tuple = first axis, second tuple = second axis *)
Theorem constructors_keep_order (x0 x1 : R) nx (y0 y1 : R) ny :
  fs_new x0 x1 nx y0 y1 ny = mk_space x0 x1 nx y0 y1 ny /\ sd_new x0 x1 nx y0 y1 ny = mk_space x0 x1 nx y0 y1 ny /\
  ws_new x0 x1 nx y0 y1 ny = mk_space x0 x1 nx y0 y1 ny.
Proof. repeat split. Qed.
