(* Tie #1 for the L4 model of the normalised spectra: the translations of JointSpectrum::new, the accessors, the range / idler
   variants and SPDCIter::jsi_values(_normalized) GENERATED from the source (Gen/C20_SpectrumSteps.v) are EQUAL to the
   hand-written model Model/NormSpectrum.v, instantiated with the flags of try_as_optimum read off the source.
   Using `spdc` instead of `spdc_optimal` for a reference value, the wrong centre frequencies, amplitude instead of intensity,
   (ws, wi) not swapped in the idler variant ... change the generated definitions and break this file. *)
From Coq Require Import Reals List.
From Coquelicot Require Import Complex.
From SpdVerif Require Import Base.CfgNumOps Model.NumInst Spec.ConfigSpec Gen.ConfigSites Model.ConfigTypes Model.Config Model.NormSpectrum
  Gen.CfgSteps Gen.C20_SpectrumSteps Proofs.CfgSteps_eq.
Import ListNotations.
Local Open Scope R_scope.

Section Eq.
  Variable K : oracles R.
  Variable minpos : R.
  Variable jsa_raw : spdc R -> R -> R -> C.
  Variable singles_raw : spdc R -> R -> R -> R.
  Variable norm_jsi : spdc R -> R -> R -> R.
  Variable norm_singles : spdc R -> R -> R -> R.
  Variable freq : beam R -> R.
  Variable pm_inv : pm_type -> pm_type.

  Local Notation op := optimum_idler_sees_old_poling.
  Local Notation oi := optimum_waist_sees_old_idler.

  Theorem gen_new_eq s :
    gen_joint_spectrum_new K minpos jsa_raw singles_raw norm_jsi norm_singles freq s =
    joint_spectrum_new K minpos op oi jsa_raw singles_raw norm_jsi norm_singles freq s.
  Proof.
    unfold gen_joint_spectrum_new, joint_spectrum_new. rewrite gen_try_as_optimum_eq.
    destruct (try_as_optimum R_ops K minpos op oi s) as [[so nf] | |]; reflexivity.
  Qed.

  Theorem gen_accessors_eq j ws wi :
    gen_jsa jsa_raw norm_jsi j ws wi = jsa jsa_raw norm_jsi j ws wi /\
    gen_jsi jsa_raw norm_jsi j ws wi = jsi jsa_raw norm_jsi j ws wi /\
    gen_jsi_singles singles_raw norm_singles j ws wi = jsi_singles singles_raw norm_singles j ws wi /\
    gen_jsa_normalized jsa_raw norm_jsi j ws wi = jsa_normalized jsa_raw norm_jsi j ws wi /\
    gen_jsi_normalized jsa_raw norm_jsi j ws wi = jsi_normalized jsa_raw norm_jsi j ws wi /\
    gen_jsi_singles_normalized singles_raw norm_singles j ws wi = jsi_singles_normalized singles_raw norm_singles j ws wi.
  Proof. repeat split; reflexivity. Qed.

  Theorem gen_ranges_eq j grid :
    gen_jsa_normalized_range jsa_raw norm_jsi j grid = jsa_normalized_range jsa_raw norm_jsi j grid /\
    gen_jsi_normalized_range jsa_raw norm_jsi j grid = jsi_normalized_range jsa_raw norm_jsi j grid /\
    gen_jsi_singles_normalized_range singles_raw norm_singles j grid = jsi_singles_normalized_range singles_raw norm_singles j grid.
  Proof. repeat split; reflexivity. Qed.

  Theorem gen_idler_range_eq j grid :
    gen_jsi_singles_idler_normalized_range K minpos jsa_raw singles_raw norm_jsi norm_singles freq pm_inv j grid =
    jsi_singles_idler_normalized_range K minpos op oi jsa_raw singles_raw norm_jsi norm_singles freq pm_inv j grid.
  Proof.
    unfold gen_jsi_singles_idler_normalized_range, jsi_singles_idler_normalized_range. rewrite gen_new_eq.
    destruct (joint_spectrum_new _ _ _ _ _ _ _ _ _ _); reflexivity.
  Qed.

  Theorem gen_sweeps_eq base setups :
    gen_jsi_values jsa_raw norm_jsi freq setups = jsi_values jsa_raw norm_jsi freq setups /\
    gen_jsi_values_normalized K minpos jsa_raw norm_jsi freq base setups =
    jsi_values_normalized K minpos op oi jsa_raw norm_jsi freq base setups.
  Proof.
    split; [reflexivity |].
    unfold gen_jsi_values_normalized, jsi_values_normalized. rewrite gen_try_as_optimum_eq.
    destruct (try_as_optimum R_ops K minpos op oi base) as [[so nf] | |]; reflexivity.
  Qed.
End Eq.
