(* C11 — link between the code path (singular values from an SVD oracle) and the trace form:
   for ANY factorisation M = U diag(sv) V^T with orthonormal columns, sum sv^2 = tr G and sum sv^4 = tr G^2. *)
From Coq Require Import Reals Lra Lia Arith NArith Setoid Morphisms.
From SpdVerif Require Import Model.FinSum Model.Schmidt Proofs.FinSum_lemmas Proofs.RMat Proofs.C11_len Proofs.C11_trace.
Local Open Scope R_scope.

Lemma orthonormal_meq n U : orthonormal_cols n U -> meq n (mmul n (mT U) U) mI.
Proof. intros H k l Hk Hl. unfold mmul, mT, mI. apply H; assumption. Qed.

Lemma tr_conj n V d : meq n (mmul n (mT V) V) mI -> mtr n (mmul n V (mmul n (mdiag d) (mT V))) = rsum n d.
Proof.
  intros HV. rewrite mtr_comm. rewrite (mmul_assoc n (mdiag d) (mT V) V). rewrite HV.
  rewrite (mmul_I_r n (mdiag d)). apply mtr_diag.
Qed.

Lemma conj_mul n V d e :
  meq n (mmul n (mT V) V) mI ->
  meq n (mmul n (mmul n V (mmul n (mdiag d) (mT V))) (mmul n V (mmul n (mdiag e) (mT V))))
        (mmul n V (mmul n (mdiag (fun k => d k * e k)) (mT V))).
Proof.
  intros HV.
  rewrite (mmul_assoc n V (mmul n (mdiag d) (mT V)) _).
  rewrite (mmul_assoc n (mdiag d) (mT V) _).
  rewrite <- (mmul_assoc n (mT V) V _).
  rewrite HV. rewrite (mmul_I_l n _).
  rewrite <- (mmul_assoc n (mdiag d) (mdiag e) (mT V)).
  rewrite (mdiag_mul n d e). reflexivity.
Qed.

Lemma svd_gram n M sv U V :
  meq n (mmul n (mT U) U) mI ->
  meq n M (mmul n (mmul n U (mdiag sv)) (mT V)) ->
  meq n (G n M) (mmul n V (mmul n (mdiag (fun k => sv k * sv k)) (mT V))).
Proof.
  intros HU HM. rewrite G_mmul. rewrite HM.
  rewrite (mT_mmul n (mmul n U (mdiag sv)) (mT V)).
  rewrite (mT_mmul n U (mdiag sv)). rewrite (mT_mT n V). rewrite (mT_diag n sv).
  rewrite (mmul_assoc n V (mmul n (mdiag sv) (mT U)) _).
  rewrite (mmul_assoc n (mdiag sv) (mT U) _).
  rewrite <- (mmul_assoc n (mT U) (mmul n U (mdiag sv)) (mT V)).
  rewrite <- (mmul_assoc n (mT U) U (mdiag sv)).
  rewrite HU. rewrite (mmul_I_l n (mdiag sv)).
  rewrite <- (mmul_assoc n (mdiag sv) (mdiag sv) (mT V)).
  rewrite (mdiag_mul n sv sv). reflexivity.
Qed.

Lemma is_svd_factor n M sv U V :
  (forall i j, (i < n)%nat -> (j < n)%nat -> M i j = rsum n (fun k => U i k * sv k * V j k)) ->
  meq n M (mmul n (mmul n U (mdiag sv)) (mT V)).
Proof.
  intros H i j Hi Hj. rewrite (H i j Hi Hj). unfold mmul, mT, mdiag. apply rsum_ext; intros l Hl.
  f_equal. rewrite <- (rsum_delta_l n l (fun k => U i k * sv k) Hl).
  apply rsum_ext; intros k _. destruct (Nat.eqb k l); ring.
Qed.

Theorem svd_power_sums n M sv :
  is_svd n M sv -> sv_norm_squared n sv = trG ROps n M /\ sv_kinv n sv = trG2 ROps n M.
Proof.
  intros (U & V & HU & HV & HM).
  apply orthonormal_meq in HU. apply orthonormal_meq in HV. apply is_svd_factor in HM.
  pose proof (svd_gram n M sv U V HU HM) as HG.
  split.
  - rewrite trG_mtr, HG, (tr_conj n V _ HV). reflexivity.
  - rewrite trG2_mtr, HG, (conj_mul n V _ _ HV), (tr_conj n V _ HV).
    unfold sv_kinv. apply rsum_ext; intros k _. ring.
Qed.

Theorem schmidt_of_sv_trace n M sv : is_svd n M sv -> schmidt_of_sv n sv = schmidt_K ROps n M.
Proof.
  intros H. destruct (svd_power_sums n M sv H) as [E2 E4].
  unfold schmidt_of_sv. rewrite E2, E4, K_unfold. reflexivity.
Qed.

(* The code path, with the SVD routine as an oracle that may fail (None) and, when it answers, returns the singular
   values of some orthogonal factorisation of the matrix it was given. *)
Section WithOracle.
  Variable svd : nat -> (nat -> nat -> R) -> option (nat -> R).
  Hypothesis svd_contract : forall n M sv, svd n M = Some sv -> is_svd n M sv.

  Theorem schmidt_number_spec (len : nat) (a : nat -> cx R) :
    match schmidt_number svd len a with
    | ErrNotSquare => forall d : nat, len <> (d * d)%nat
    | ErrSvd => (exists d : nat, len = (d * d)%nat) /\ svd (side_of_len (N.of_nat len)) (mag_matrix (side_of_len (N.of_nat len)) a) = None
    | OkNaN => exists d : nat, len = (d * d)%nat /\ forall i j, (i < d)%nat -> (j < d)%nat -> mag_matrix d a i j = 0
    | OkK k => exists d : nat, len = (d * d)%nat /\ trG2 ROps d (mag_matrix d a) <> 0 /\ k = schmidt_K ROps d (mag_matrix d a)
    end.
  Proof.
    unfold schmidt_number. destruct (accepted_len (N.of_nat len)) eqn:E.
    - apply accepted_len_nat in E. destruct E as [d ->]. rewrite side_of_len_square.
      destruct (svd d (mag_matrix d a)) as [sv|] eqn:Es.
      + pose proof (svd_contract _ _ _ Es) as Hsv. destruct (svd_power_sums d _ sv Hsv) as [_ E4].
        destruct (Req_EM_T (sv_kinv d sv) 0) as [Z|NZ].
        * exists d. split; [reflexivity|]. apply trG2_zero_iff. rewrite <- E4. exact Z.
        * exists d. split; [reflexivity|]. split; [rewrite <- E4; exact NZ|]. apply schmidt_of_sv_trace. exact Hsv.
      + split; [exists d; reflexivity|reflexivity].
    - intros d Hd. assert (accepted_len (N.of_nat len) = true) by (apply accepted_len_nat; exists d; exact Hd). congruence.
  Qed.

  (* Ok(NaN) exactly for an all-zero magnitude matrix *)
  Theorem schmidt_number_nan_iff (d : nat) (a : nat -> cx R) :
    svd d (mag_matrix d a) <> None ->
    (schmidt_number svd (d * d) a = OkNaN <-> forall i j, (i < d)%nat -> (j < d)%nat -> mag_matrix d a i j = 0).
  Proof.
    intros Hs. unfold schmidt_number.
    assert (E : accepted_len (N.of_nat (d * d)) = true) by (apply accepted_len_nat; exists d; reflexivity).
    rewrite E, side_of_len_square. destruct (svd d (mag_matrix d a)) as [sv|] eqn:Es; [|contradiction Hs; reflexivity].
    pose proof (svd_contract _ _ _ Es) as Hsv. destruct (svd_power_sums d _ sv Hsv) as [_ E4].
    rewrite <- trG2_zero_iff, <- E4. destruct (Req_EM_T (sv_kinv d sv) 0); split; intros H; try reflexivity; try discriminate; try assumption; contradiction.
  Qed.

  (* a non-square length is rejected whatever the content; a square one never is *)
  Theorem schmidt_number_rejects (len : nat) (a : nat -> cx R) :
    schmidt_number svd len a = ErrNotSquare <-> forall d : nat, len <> (d * d)%nat.
  Proof.
    split.
    - intros H. pose proof (schmidt_number_spec len a) as S. rewrite H in S. exact S.
    - intros H. unfold schmidt_number. destruct (accepted_len (N.of_nat len)) eqn:E; [|reflexivity].
      apply accepted_len_nat in E. destruct E as [d Hd]. exfalso. exact (H d Hd).
  Qed.
End WithOracle.

Theorem svd_link n M sv :
  is_svd n M sv ->
  sv_norm_squared n sv = trG ROps n M /\ sv_kinv n sv = trG2 ROps n M /\
  (trG2 ROps n M <> 0 -> sv_kinv n sv <> 0 /\ schmidt_of_sv n sv = schmidt_K ROps n M).
Proof.
  intros H. destruct (svd_power_sums n M sv H) as [E2 E4]. repeat split; try assumption.
  - rewrite E4. assumption.
  - apply schmidt_of_sv_trace; assumption.
Qed.

(* non-vacuity with a genuinely two-dimensional factorisation: [[0,2],[3,0]] = I diag(2,3) P^T, P the swap *)
Example svd_example_2 : is_svd 2 (fun i j => if Nat.eqb i j then 0 else if Nat.eqb i 0 then 2 else 3) (fun k => if Nat.eqb k 0 then 2 else 3).
Proof.
  exists (fun i k => if Nat.eqb i k then 1 else 0), (fun j k => if Nat.eqb j k then 0 else 1).
  unfold orthonormal_cols, rsum. repeat split; intros;
  repeat match goal with
  | H : (?x < 2)%nat |- _ => (destruct x as [|[|?]]; [| |lia]); clear H
  end; cbn; lra.
Qed.
