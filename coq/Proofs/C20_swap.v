(* C20: SPDC::with_swapped_signal_idler is an involution (for an involutive type inverse: PMType::inverse is one, C16), so the
   "idler singles" of the swapped setup's spectrum are the signal singles of the original one: the idler variants use the same
   references as the signal variants, seen from the other side.  For all oracles. *)
From Coq Require Import Reals List.
From Coquelicot Require Import Complex.
From SpdVerif Require Import Base.CfgNumOps Model.NumInst Spec.ConfigSpec Gen.ConfigTables Gen.ConfigSites Model.ConfigTypes Model.Config Model.NormSpectrum
  Proofs.C20_idempotent Proofs.C20_spectrum.
Import ListNotations.
Local Open Scope R_scope.

Section Swap.
  Variable pm_inv : pm_type -> pm_type.
  Hypothesis pm_inv_involutive : forall t, pm_inv (pm_inv t) = t.

  Theorem swap_involutive (s : spdc R) : swap_signal_idler pm_inv (swap_signal_idler pm_inv s) = s.
  Proof.
    destruct s as [[kind pm phi theta len temp counter] sig idl pump bw pw thr pp zs zi deff].
    unfold swap_signal_idler. cbn. rewrite pm_inv_involutive. reflexivity.
  Qed.

  Variable K : oracles R.
  Variable minpos : R.
  Variable op oi : bool.
  Variable jsa_raw : spdc R -> R -> R -> C.
  Variable singles_raw : spdc R -> R -> R -> R.
  Variable norm_jsi : spdc R -> R -> R -> R.
  Variable norm_singles : spdc R -> R -> R -> R.
  Variable freq : beam R -> R.
  Local Notation new := (joint_spectrum_new K minpos op oi jsa_raw singles_raw norm_jsi norm_singles freq).

  (* the spectrum object is a function of the setup *)
  Lemma new_functional s j j' : new s = Ok j -> new s = Ok j' -> j = j'.
  Proof. intros H H'. rewrite H in H'. inversion H'. reflexivity. Qed.

  (* idler singles of the swapped setup = signal singles of the original setup, at the same (signal, idler) grid points *)
  Theorem idler_of_swapped_is_signal s j ji grid :
    new s = Ok j -> new (swap_signal_idler pm_inv s) = Ok ji ->
    jsi_singles_idler_normalized_range K minpos op oi jsa_raw singles_raw norm_jsi norm_singles freq pm_inv ji grid =
    Ok (map (fun p => jsi_singles_normalized singles_raw norm_singles j (snd p) (fst p)) grid).
  Proof.
    intros Hj Hji.
    destruct (new_ok K minpos op oi jsa_raw singles_raw norm_jsi norm_singles freq _ _ Hji) as (_ & _ & _ & Hs & _).
    unfold jsi_singles_idler_normalized_range. rewrite Hs, swap_involutive, Hj. reflexivity.
  Qed.
End Swap.

(* the instance of the code: PMType::inverse as the generator reads it off the source *)
(* proved here on the generated table (not imported from C16's proofs, so that a C16-only regression does not stop C20) *)
Lemma pm_inverse_involutive_c20 t : pm_inverse (pm_inverse t) = t.
Proof. destruct t; reflexivity. Qed.

Theorem swap_involutive_now (s : spdc R) : swap_signal_idler pm_inverse (swap_signal_idler pm_inverse s) = s.
Proof. exact (swap_involutive pm_inverse pm_inverse_involutive_c20 s). Qed.
