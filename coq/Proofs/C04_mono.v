(* C04 — the longitudinal mismatch of the period search, with the optimum idler recomputed for every period as the closure
   does, in closed form, and its strict monotonicity — for a NON-collinear signal, when the idler's index does not depend on
   its direction (an ordinary idler in a uniaxial crystal, or any isotropic medium).

   With K = 2 pi / ls, u = n_s sin(theta_s) (transverse size of the closing vector in units of K), w(pp) = n_p ls/lp - n_s cos(theta_s)
   - ls/(sign period) (its longitudinal component) and kap = n_i ls / li:
         dkz(pp) = K * phi(w(pp)),    phi(t) = t * (1 - kap / sqrt(t^2 + u^2)),
   and phi is strictly increasing on t >= t1 > 0 as soon as  kap u^2 < (t1^2 + u^2)^(3/2)  (always true near the root, where
   sqrt(t^2 + u^2) = kap > u).  Since w is strictly monotone in the period, so is dkz: the hypothesis of the convergence
   theorem (Proofs/C04_conv.v) holds on every period bracket that keeps the closing vector forward and satisfies that bound. *)
From Coq Require Import Reals Lra Bool.
From SpdVerif Require Import Base.Rx Base.Vec3 Gen.Idler Gen.AutoCalc Model.Idler Model.NM1d Model.AutoCalc
  Proofs.C03_base Proofs.C03_idler Proofs.C03_all Proofs.C04_poling.
Local Open Scope R_scope.

Definition phi_mis (kap u t : R) : R := t * (1 - kap / sqrt (t ^ 2 + u ^ 2)).

Lemma phi_mis_increasing kap u t1 t2 : 0 <= kap -> 0 < t1 -> t1 < t2 ->
  kap * u ^ 2 < sqrt (t1 ^ 2 + u ^ 2) ^ 3 -> phi_mis kap u t1 < phi_mis kap u t2.
Proof.
  intros Hk H1 H12 Hb. unfold phi_mis.
  assert (P1 : 0 < t1 ^ 2 + u ^ 2) by nra. assert (P2 : 0 < t2 ^ 2 + u ^ 2) by nra.
  pose proof (sqrt_lt_R0 _ P1) as Hs1. pose proof (sqrt_lt_R0 _ P2) as Hs2.
  pose proof (sqrt_sqrt _ (Rlt_le _ _ P1)) as E1. pose proof (sqrt_sqrt _ (Rlt_le _ _ P2)) as E2.
  set (s1 := sqrt (t1 ^ 2 + u ^ 2)) in *. set (s2 := sqrt (t2 ^ 2 + u ^ 2)) in *.
  assert (Hs12 : s1 < s2).
  { apply Rnot_le_lt. intros Hc. assert (s2 * s2 <= s1 * s1) by nra. nra. }
  (* t2/s2 - t1/s1 <= u^2 (t2 - t1) / s1^3 *)
  assert (Hcross : (t2 * s1 - t1 * s2) * (t2 * s1 + t1 * s2) = u ^ 2 * (t2 - t1) * (t2 + t1)).
  { replace ((t2 * s1 - t1 * s2) * (t2 * s1 + t1 * s2)) with (t2 * t2 * (s1 * s1) - t1 * t1 * (s2 * s2)) by ring. rewrite E1, E2. ring. }
  assert (Ht2 : 0 < t2) by lra.
  assert (Hpos : 0 < t2 * s1 + t1 * s2) by (apply Rplus_lt_0_compat; apply Rmult_lt_0_compat; assumption).
  assert (Hden : s1 * s1 * (t1 + t2) <= s2 * (t2 * s1 + t1 * s2)).
  { assert (0 <= t2 * s1 * (s2 - s1)) by (apply Rmult_le_pos; [apply Rmult_le_pos|]; lra).
    assert (0 <= t1 * (s2 - s1) * (s2 + s1)) by (apply Rmult_le_pos; [apply Rmult_le_pos|]; lra).
    nra. }
  assert (Hdiff : (t2 * s1 - t1 * s2) * (s1 * s1) <= u ^ 2 * (t2 - t1) * s2).
  { (* multiply by (t2 s1 + t1 s2) > 0 *)
    apply Rmult_le_reg_r with (t2 * s1 + t1 * s2); [exact Hpos|].
    replace ((t2 * s1 - t1 * s2) * (s1 * s1) * (t2 * s1 + t1 * s2)) with ((t2 * s1 - t1 * s2) * (t2 * s1 + t1 * s2) * (s1 * s1)) by ring.
    rewrite Hcross.
    assert (0 <= u ^ 2 * (t2 - t1)) by (apply Rmult_le_pos; [apply pow2_ge_0 | lra]).
    replace (u ^ 2 * (t2 - t1) * (t2 + t1) * (s1 * s1)) with (u ^ 2 * (t2 - t1) * (s1 * s1 * (t1 + t2))) by ring.
    replace (u ^ 2 * (t2 - t1) * s2 * (t2 * s1 + t1 * s2)) with (u ^ 2 * (t2 - t1) * (s2 * (t2 * s1 + t1 * s2))) by ring.
    apply Rmult_le_compat_l; assumption. }
  (* goal: t1 - kap t1/s1 < t2 - kap t2/s2 *)
  assert (Hgoal : kap * (t2 * s1 - t1 * s2) < (t2 - t1) * (s1 * s2)).
  { (* kap (t2 s1 - t1 s2) s1^2 <= kap u^2 (t2 - t1) s2 < s1^3 (t2 - t1) s2 *)
    apply Rmult_lt_reg_r with (s1 * s1); [apply Rmult_lt_0_compat; assumption|].
    apply Rle_lt_trans with (kap * (u ^ 2 * (t2 - t1) * s2)).
    - replace (kap * (t2 * s1 - t1 * s2) * (s1 * s1)) with (kap * ((t2 * s1 - t1 * s2) * (s1 * s1))) by ring.
      apply Rmult_le_compat_l; assumption.
    - replace (kap * (u ^ 2 * (t2 - t1) * s2)) with ((kap * u ^ 2) * ((t2 - t1) * s2)) by ring.
      replace ((t2 - t1) * (s1 * s2) * (s1 * s1)) with (s1 ^ 3 * ((t2 - t1) * s2)) by ring.
      apply Rmult_lt_compat_r; [apply Rmult_lt_0_compat; lra | exact Hb]. }
  assert (Hinv : t2 * (kap / s2) - t1 * (kap / s1) = kap * (t2 * s1 - t1 * s2) / (s1 * s2)) by (field; lra).
  assert (kap * (t2 * s1 - t1 * s2) / (s1 * s2) < t2 - t1).
  { assert (Hss : 0 < s1 * s2) by (apply Rmult_lt_0_compat; assumption).
    apply Rmult_lt_reg_r with (s1 * s2); [exact Hss|]. unfold Rdiv. rewrite Rmult_assoc, Rinv_l by lra. lra. }
  lra.
Qed.

Section IsotropicIdler.
  Variable index : R -> vec -> polarization -> R.
  Variables (pm : pm_type) (spol ppol : polarization) (phis ths ls lp : R) (ws wp : R * R).
  Variable nio : R -> R.
  Hypothesis Hlp : 0 < lp.
  Hypothesis Hgt : lp < ls.
  Hypothesis Hth : 0 <= ths < PI / 2.
  (* the idler's index does not depend on its direction *)
  Hypothesis Hiso : forall l d, index l d (idler_polarization pm) = nio l.

  Notation signal := (sigb spol phis ths ls ws).
  Notation pump := (pumpb ppol lp wp).
  Notation wz := (w_z index spol ppol phis ths ls lp ws wp).
  Notation ut := (u_t index spol phis ths ls ws).

  Definition omega_i : R := beam_new_frequency (idler_wavelength (b_lambda signal) (b_lambda pump)).
  Definition kappa : R := nio (frequency_to_vacuum_wavelength omega_i) * omega_i / c_light.

  Lemma Hth' : - (PI / 2) < ths < PI / 2.
  Proof. pose proof PI_RGT_0. lra. Qed.

  (* closed form of the closure's mismatch, optimum idler recomputed for the poling pp *)
  Lemma dkz_closed pp : pp_defined pp -> 0 < wz pp ->
    dkz_of index pm false signal pump pp = Kq ls * phi_mis (kappa / Kq ls) ut (wz pp).
  Proof.
    intros Hpp Hw. assert (Hls : 0 < ls) by lra.
    pose proof (Kq_pos ths ls Hls (range_pi ths Hth')) as HK.
    unfold dkz_of. rewrite (optimum_idler_some index pm spol ppol phis ths ls lp ws wp pp Hls Hlp false Hgt).
    set (ib := idler_b index pm spol ppol phis ths ls lp ws wp pp false).
    set (q := closing_vector index signal pump pp).
    assert (Hqz : vz q = Kq ls * wz pp) by apply (closing_z index spol ppol phis ths ls lp ws wp pp Hls Hlp Hpp).
    assert (Hz : 0 < vz q) by (rewrite Hqz; apply Rmult_lt_0_compat; assumption).
    assert (Hn2 : vnorm2 q = Kq ls ^ 2 * (wz pp ^ 2 + ut ^ 2)) by apply (closing_norm2 index spol ppol phis ths ls lp ws wp pp Hls Hlp Hpp).
    assert (Hpos : 0 < wz pp ^ 2 + ut ^ 2) by nra.
    assert (Hn : vnorm q = Kq ls * sqrt (wz pp ^ 2 + ut ^ 2)).
    { unfold vnorm. rewrite Hn2. apply sqrt_lem_1; [nra | apply Rmult_le_pos; [lra | apply sqrt_pos] |].
      replace (Kq ls * sqrt (wz pp ^ 2 + ut ^ 2) * (Kq ls * sqrt (wz pp ^ 2 + ut ^ 2)))
        with (Kq ls ^ 2 * (sqrt (wz pp ^ 2 + ut ^ 2) * sqrt (wz pp ^ 2 + ut ^ 2))) by ring.
      rewrite sqrt_sqrt by lra. reflexivity. }
    assert (Hdir : b_dir ib = vscale (/ vnorm q) q).
    { apply (idler_parallel_forward index pm spol ppol phis ths ls lp ws wp pp Hls Hlp (range_pi ths Hth') Hpp false
               (cos_pos_of_range ths Hth') eq_refl Hz). }
    assert (Hq2 : 0 < vnorm2 q) by (rewrite Hn2; apply Rmult_lt_0_compat; [nra | exact Hpos]).
    destruct (residual_parallel index signal ib pump pp Hq2 Hdir) as [Hdk _].
    rewrite Hdk.
    assert (Hk : refractive_index index ib (b_omega ib) * b_omega ib / c_light = kappa).
    { unfold kappa, refractive_index, beam_refractive_index. fold (frequency_to_vacuum_wavelength (b_omega ib)).
      assert (Hp : b_pol ib = idler_polarization pm) by reflexivity. rewrite Hp, Hiso. reflexivity. }
    rewrite Hk, Hdir. fold q. unfold vscale. unfold vz at 1. cbn [snd]. rewrite Hn, Hqz.
    assert (Hs : 0 < sqrt (wz pp ^ 2 + ut ^ 2)) by (apply sqrt_lt_R0; exact Hpos).
    unfold phi_mis, vz; cbn [snd]. field. split; lra.
  Qed.

  (* strict monotonicity in the period, positive and negative poling sign; t-bound taken at the smaller longitudinal component *)
  Lemma wz_on p s : wz (PPOn p s) = wz PPOff - ls / (sign_val s * p).
  Proof. unfold w_z, kpp. rewrite !pp_k_pp_eq. ring. Qed.

  Theorem dkz_monotone_positive p1 p2 : 0 < p1 -> p1 < p2 -> 0 <= kappa ->
    0 < wz (PPOn p1 true) ->
    (kappa / Kq ls) * ut ^ 2 < sqrt (wz (PPOn p1 true) ^ 2 + ut ^ 2) ^ 3 ->
    dkz_of index pm false signal pump (PPOn p1 true) < dkz_of index pm false signal pump (PPOn p2 true).
  Proof.
    intros H1 H12 Hk Hw Hb. assert (Hls : 0 < ls) by lra.
    pose proof (Kq_pos ths ls Hls (range_pi ths Hth')) as HK.
    assert (Hw12 : wz (PPOn p1 true) < wz (PPOn p2 true)).
    { rewrite !wz_on. unfold sign_val. rewrite !Rmult_1_l.
      assert (/ p2 < / p1) by (apply Rinv_lt_contravar; [apply Rmult_lt_0_compat; lra | lra]).
      unfold Rdiv. nra. }
    rewrite !dkz_closed by (cbn; lra).
    apply Rmult_lt_compat_l; [exact HK|].
    apply phi_mis_increasing; try assumption. apply Rmult_le_pos; [exact Hk | left; apply Rinv_0_lt_compat; exact HK].
  Qed.

  Theorem dkz_monotone_negative p1 p2 : 0 < p1 -> p1 < p2 -> 0 <= kappa ->
    0 < wz (PPOn p2 false) ->
    (kappa / Kq ls) * ut ^ 2 < sqrt (wz (PPOn p2 false) ^ 2 + ut ^ 2) ^ 3 ->
    dkz_of index pm false signal pump (PPOn p2 false) < dkz_of index pm false signal pump (PPOn p1 false).
  Proof.
    intros H1 H12 Hk Hw Hb. assert (Hls : 0 < ls) by lra.
    pose proof (Kq_pos ths ls Hls (range_pi ths Hth')) as HK.
    assert (Hw12 : wz (PPOn p2 false) < wz (PPOn p1 false)).
    { rewrite !wz_on. unfold sign_val.
      assert (/ p2 < / p1) by (apply Rinv_lt_contravar; [apply Rmult_lt_0_compat; lra | lra]).
      replace (ls / (-1 * p2)) with (- (ls * / p2)) by (field; lra). replace (ls / (-1 * p1)) with (- (ls * / p1)) by (field; lra). nra. }
    rewrite !dkz_closed by (cbn; lra).
    apply Rmult_lt_compat_l; [exact HK|].
    apply phi_mis_increasing; try assumption. apply Rmult_le_pos; [exact Hk | left; apply Rinv_0_lt_compat; exact HK].
  Qed.
End IsotropicIdler.

Lemma mono_nonvacuous : (0 : R) <= 1 /\ (0 : R) < 1 /\ 1 * (1 / 10) ^ 2 < sqrt (1 ^ 2 + (1 / 10) ^ 2) ^ 3.
Proof.
  split; [lra | split; [lra|]].
  assert (1 < sqrt (1 ^ 2 + (1 / 10) ^ 2)) by (rewrite <- sqrt_1 at 1; apply sqrt_lt_1; lra).
  set (s := sqrt (1 ^ 2 + (1 / 10) ^ 2)) in *. assert (1 < s ^ 3) by nra. lra.
Qed.
