(* C04 — collinear signal: the idler stays collinear for every poling, so the longitudinal mismatch is
   dkz(period) = dkz(unpoled) - 2 pi / (sign * period); the seed 2 pi / |dkz(unpoled)| is an exact root and is returned. *)
From Coq Require Import Reals Lra Bool List.
From SpdVerif Require Import Base.Rx Base.Vec3 Gen.Idler Gen.AutoCalc Model.Idler Model.NM1d Model.AutoCalc
  Proofs.C03_base Proofs.C03_idler Proofs.C04_nm Proofs.C04_poling.
Local Open Scope R_scope.

Section Collinear.
  Variable index : R -> vec -> polarization -> R.
  Variables (pm : pm_type) (spol ppol : polarization) (phis ls lp : R) (ws wp : R * R).
  Hypothesis Hlp : 0 < lp.
  Hypothesis Hgt : lp < ls.

  Notation signal := (sigb spol phis 0 ls ws).
  Notation pump := (pumpb ppol lp wp).
  Notation wz := (w_z index spol ppol phis 0 ls lp ws wp).
  Definition dkz_c (pp : poling) : R := dkz_of index pm false signal pump pp.

  Lemma th0 : - PI < 0 <= PI.
  Proof. pose proof PI_RGT_0. lra. Qed.
  Lemma cos0 : 0 < cos 0.
  Proof. rewrite cos_0. lra. Qed.

  (* the mismatch with a collinear idler: everything but the poling term is independent of the poling *)
  Lemma dkz_c_eq pp : wz pp <> 0 ->
    dkz_c pp = vz (vsub (vsub (wavevector index pump (b_omega pump)) (wavevector index signal (b_omega signal)))
                        (beam_wavevector ez (index (frequency_to_vacuum_wavelength (beam_new_frequency (idler_wavelength (b_lambda signal) (b_lambda pump))))
                                                   ez (idler_polarization pm))
                                         (beam_new_frequency (idler_wavelength (b_lambda signal) (b_lambda pump)))))
              - pp_k_eff pp.
  Proof.
    intros Hw. unfold dkz_c, dkz_of.
    rewrite (optimum_idler_some index pm spol ppol phis 0 ls lp ws wp pp ltac:(lra) Hlp false Hgt).
    destruct (idler_collinear index pm spol ppol phis 0 ls lp ws wp pp ltac:(lra) Hlp th0 false cos0 eq_refl eq_refl Hw) as [_ Hd].
    set (ib := idler_b index pm spol ppol phis 0 ls lp ws wp pp false) in *.
    assert (Hk : wavevector index ib (b_omega ib) =
                 beam_wavevector ez (index (frequency_to_vacuum_wavelength (beam_new_frequency (idler_wavelength (b_lambda signal) (b_lambda pump))))
                                           ez (idler_polarization pm))
                                 (beam_new_frequency (idler_wavelength (b_lambda signal) (b_lambda pump)))).
    { unfold wavevector, refractive_index. rewrite Hd. reflexivity. }
    unfold delta_k_model, delta_k. rewrite Hk.
    unfold vsub, vx, vy, vz; cbn [fst snd]. ring.
  Qed.

  Lemma collinear_dkz p s : 0 < p -> wz PPOff <> 0 -> wz (PPOn p s) <> 0 ->
    dkz_c (PPOn p s) = dkz_c PPOff - 2 * PI / (sign_val s * p).
  Proof.
    intros Hp H0 H1. rewrite (dkz_c_eq _ H0), (dkz_c_eq _ H1), !pp_k_eff_eq. ring.
  Qed.

  (* Clause: for a collinear signal the returned period is exactly 2 pi / dkz(unpoled) (signed), and it nulls the mismatch —
     for any simplex operations and termination test *)
  Variable o : @ops R.
  Variable sd : @ecost R -> @ecost R -> bool.
  Variable L : R.

  Lemma collinear_root :
    let z := dkz_c PPOff in
    z <> 0 -> wz PPOff <> 0 ->
    (forall x, In x (strace (nm_run Rltb o (pol_cost dkz_c L) sd (opp_seed0 (opp_guess z)) (opp_seed1 (opp_guess z)) opp_max_iter)) ->
               opp_min_period <= x <= L -> wz (PPOn x (sign_from z)) <> 0) ->
    opp_min_period <= Rabs (2 * PI / z) <= L ->
    optimum_poling_period dkz_c o sd L = AutoOk (2 * PI / z) /\ dkz_c (poling_of (2 * PI / z)) = 0.
  Proof.
    intros z Hz H0 Hall Hr.
    apply (collinear_exact dkz_c o sd L); try assumption.
    intros x Hin Hx. unfold dkz_on. apply collinear_dkz; [pose proof min_period_pos; lra | exact H0 | apply Hall; assumption].
  Qed.
End Collinear.
