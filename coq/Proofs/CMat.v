(* Complex finite sums (by components) and a small calculus of complex matrices as index functions, with equality on
   the index range as a setoid: associativity, trace cyclicity, conjugate transpose, real diagonal matrices. *)
From Coq Require Import Reals Lra Lia Arith Setoid Morphisms.
From SpdVerif Require Import Model.FinSum Model.Hom2 Proofs.FinSum_lemmas Proofs.Cx_lemmas.
Local Open Scope R_scope.

Definition c0 : cx R := (0, 0).
Definition c1 : cx R := (1, 0).
Notation "a *c b" := (cmul ROps a b) (at level 40, left associativity).
Notation "a ^*" := (cconj ROps a) (at level 30).

Lemma csum_pair n f : csum n f = (rsum n (fun k => fst (f k)), rsum n (fun k => snd (f k))).
Proof. reflexivity. Qed.

Lemma csum_ext n f g : (forall k, (k < n)%nat -> f k = g k) -> csum n f = csum n g.
Proof.
  intros H. rewrite !csum_pair. f_equal; apply rsum_ext; intros k Hk; rewrite (H k Hk); reflexivity.
Qed.

Lemma csum_zero n f : (forall k, (k < n)%nat -> f k = c0) -> csum n f = c0.
Proof.
  intros H. rewrite csum_pair. unfold c0. f_equal; apply rsum_zero; intros k Hk; rewrite (H k Hk); reflexivity.
Qed.

Lemma csum_scal_l c n f : csum n (fun k => c *c f k) = c *c csum n f.
Proof.
  rewrite !csum_pair. unfold cmul at 3. cbn [fst snd ROps osub oadd omul].
  rewrite <- !rsum_scal_l, <- rsum_sub, <- rsum_add. reflexivity.
Qed.

Lemma csum_scal_r c n f : csum n (fun k => f k *c c) = csum n f *c c.
Proof.
  rewrite (csum_ext n _ (fun k => c *c f k)) by (intros; apply cmul_comm).
  rewrite csum_scal_l. apply cmul_comm.
Qed.

Lemma csum_switch n m (F : nat -> nat -> cx R) :
  csum n (fun i => csum m (fun j => F i j)) = csum m (fun j => csum n (fun i => F i j)).
Proof. rewrite !csum_pair. cbn [fst snd]. f_equal; apply rsum_switch. Qed.

Lemma csum_conj n f : (csum n f)^* = csum n (fun k => (f k)^*).
Proof.
  rewrite !csum_pair. unfold cconj. cbn [fst snd ROps oopp]. f_equal. rewrite rsum_opp. reflexivity.
Qed.

Lemma csum_delta_l n k f : (k < n)%nat -> csum n (fun i => (if Nat.eqb i k then c1 else c0) *c f i) = f k.
Proof.
  intros Hk. rewrite csum_pair. rewrite (surjective_pairing (f k)). f_equal.
  - rewrite <- (rsum_delta_l n k (fun i => fst (f i)) Hk). apply rsum_ext; intros i _.
    destruct (Nat.eqb i k); unfold c0, c1; cx_unfold; ring.
  - rewrite <- (rsum_delta_l n k (fun i => snd (f i)) Hk). apply rsum_ext; intros i _.
    destruct (Nat.eqb i k); unfold c0, c1; cx_unfold; ring.
Qed.

Lemma csum_delta_r n k f : (k < n)%nat -> csum n (fun i => (if Nat.eqb k i then c1 else c0) *c f i) = f k.
Proof.
  intros Hk. rewrite <- (csum_delta_l n k f Hk). apply csum_ext; intros i _. rewrite (Nat.eqb_sym k i). reflexivity.
Qed.

(* Re of a product of two complex sums as a double real sum *)
Lemma re_csum_mul n m (X Y : nat -> cx R) :
  cre (csum n X *c csum m Y) = rsum n (fun a => rsum m (fun b => cre (X a *c Y b))).
Proof.
  rewrite !csum_pair. unfold cre, cmul. cbn [fst snd ROps osub oadd omul].
  rewrite !rsum_mul, <- rsum_sub. apply rsum_ext; intros a _. rewrite <- rsum_sub. reflexivity.
Qed.

(* ---- matrices *)
Definition cmat := nat -> nat -> cx R.
Definition cmeq (n : nat) (A B : cmat) : Prop := forall i j, (i < n)%nat -> (j < n)%nat -> A i j = B i j.
Definition cmmul (n : nat) (A B : cmat) : cmat := fun i j => csum n (fun k => A i k *c B k j).
Definition cmH (A : cmat) : cmat := fun i j => (A j i)^*.
Definition cmtr (n : nat) (A : cmat) : cx R := csum n (fun i => A i i).
Definition cmI : cmat := fun i j => if Nat.eqb i j then c1 else c0.
Definition cmdiag (d : nat -> R) : cmat := fun i j => if Nat.eqb i j then (d i, 0) else c0.

Global Instance cmeq_equiv n : Equivalence (cmeq n).
Proof.
  split.
  - intros A i j _ _; reflexivity.
  - intros A B H i j Hi Hj; symmetry; apply H; assumption.
  - intros A B C H1 H2 i j Hi Hj; rewrite H1, H2 by assumption; reflexivity.
Qed.

Global Instance cmmul_proper n : Proper (cmeq n ==> cmeq n ==> cmeq n) (cmmul n).
Proof.
  intros A A' HA B B' HB i j Hi Hj. unfold cmmul. apply csum_ext. intros k Hk.
  rewrite HA, HB by assumption. reflexivity.
Qed.

Global Instance cmH_proper n : Proper (cmeq n ==> cmeq n) cmH.
Proof. intros A A' HA i j Hi Hj. unfold cmH. rewrite HA by assumption. reflexivity. Qed.

Global Instance cmtr_proper n : Proper (cmeq n ==> eq) (cmtr n).
Proof. intros A A' HA. unfold cmtr. apply csum_ext. intros i Hi. apply HA; assumption. Qed.

Lemma cmmul_assoc n A B C : cmeq n (cmmul n (cmmul n A B) C) (cmmul n A (cmmul n B C)).
Proof.
  intros i j _ _. unfold cmmul.
  transitivity (csum n (fun l => csum n (fun k => A i k *c B k l *c C l j))).
  - apply csum_ext; intros l _. rewrite <- csum_scal_r. reflexivity.
  - rewrite csum_switch. apply csum_ext; intros k _. rewrite <- csum_scal_l.
    apply csum_ext; intros l _. apply cmul_assoc.
Qed.

Lemma cmtr_comm n A B : cmtr n (cmmul n A B) = cmtr n (cmmul n B A).
Proof.
  unfold cmtr, cmmul. rewrite csum_switch. apply csum_ext; intros k _. apply csum_ext; intros i _. apply cmul_comm.
Qed.

Lemma cconj_invol (a : cx R) : (a^*)^* = a.
Proof. cx_ring. Qed.

Lemma cmH_mmul n A B : cmeq n (cmH (cmmul n A B)) (cmmul n (cmH B) (cmH A)).
Proof.
  intros i j _ _. unfold cmH, cmmul. rewrite csum_conj. apply csum_ext; intros k _.
  rewrite cconj_cmul. apply cmul_comm.
Qed.

Lemma cmH_H n A : cmeq n (cmH (cmH A)) A.
Proof. intros i j _ _. unfold cmH. apply cconj_invol. Qed.

Lemma cmmul_I_r n A : cmeq n (cmmul n A cmI) A.
Proof.
  intros i j Hi Hj. unfold cmmul, cmI.
  rewrite <- (csum_delta_l n j (fun k => A i k) Hj). apply csum_ext; intros k _. apply cmul_comm.
Qed.

Lemma cmmul_I_l n A : cmeq n (cmmul n cmI A) A.
Proof.
  intros i j Hi Hj. unfold cmmul, cmI.
  rewrite <- (csum_delta_r n i (fun k => A k j) Hi). reflexivity.
Qed.

Lemma cmH_diag n d : cmeq n (cmH (cmdiag d)) (cmdiag d).
Proof.
  intros i j _ _. unfold cmH, cmdiag. rewrite (Nat.eqb_sym j i).
  destruct (Nat.eqb i j) eqn:E.
  - apply Nat.eqb_eq in E; subst. unfold cconj; cbn [fst snd ROps oopp]. f_equal. ring.
  - unfold c0, cconj; cbn [fst snd ROps oopp]. f_equal. ring.
Qed.

Lemma cmdiag_mul n d e : cmeq n (cmmul n (cmdiag d) (cmdiag e)) (cmdiag (fun k => d k * e k)).
Proof.
  intros i j Hi Hj. unfold cmmul, cmdiag.
  transitivity (csum n (fun k => (if Nat.eqb i k then c1 else c0) *c ((d i, 0) *c (if Nat.eqb k j then (e k, 0) else c0)))).
  - apply csum_ext; intros k _. destruct (Nat.eqb i k); unfold c0, c1; cx_unfold; apply injective_projections; cbn [fst snd]; ring.
  - rewrite (csum_delta_r n i (fun k => (d i, 0) *c (if Nat.eqb k j then (e k, 0) else c0)) Hi).
    destruct (Nat.eqb i j); unfold c0; cx_unfold; apply injective_projections; cbn [fst snd]; ring.
Qed.

Lemma cmtr_diag n d : cmtr n (cmdiag d) = (rsum n d, 0).
Proof.
  unfold cmtr, cmdiag. rewrite csum_pair. f_equal.
  - apply rsum_ext; intros i _. rewrite Nat.eqb_refl. reflexivity.
  - apply rsum_zero; intros i _. rewrite Nat.eqb_refl. reflexivity.
Qed.
