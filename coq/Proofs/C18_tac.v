(* C18 — tactics used by the generated correspondence cases (coq/Cases/C18*, never committed). *)
From Coq Require Import Reals Lra Lia List String ZArith Arith.
From Interval Require Import Tactic.
From SpdVerif Require Import Base.Rx Base.PolingBase Gen.Poling Gen.Sweep Spec.SweepPaths Model.Sweep Proofs.C18_angles.
From SpdVerif Require Base.GridOps Gen.Grid.
Import ListNotations.
Local Open Scope R_scope.

Ltac head_of t := match t with ?f _ => head_of f | _ => t end.

Ltac projections :=
  cbn [s_signal s_idler s_pump s_crystal_setup s_pp s_pump_average_power s_pump_bandwidth s_pump_spectrum_threshold
       s_signal_waist_position s_idler_waist_position s_deff
       b_waist b_frequency b_polarization b_theta b_phi w_x w_y
       c_crystal c_pm_type c_phi c_theta c_length c_temperature c_counter_propagation].

(* remove the angle normalisation on a closed argument, deciding the range by interval arithmetic *)
Ltac denorm :=
  repeat first [rewrite Rdiv_one | rewrite Rmult_1_r];
  repeat match goal with
  | |- context [rem_euclid ?x ?m] =>
      first [ rewrite (rem_euclid_id x m) by (assert (0 <= x) by interval with (i_prec 80); assert (0 < m - x) by interval with (i_prec 80); lra)
            | rewrite (rem_euclid_neg x m) by (assert (0 <= x + m) by interval with (i_prec 80); assert (0 < - x) by interval with (i_prec 80); lra) ]
  end;
  repeat match goal with
  | |- context [Rgt_dec ?a ?b] =>
      destruct (Rgt_dec a b) as [Hgt | Hngt];
      [ try (exfalso; assert (0 <= b - a) by interval with (i_prec 80); lra)
      | try (exfalso; assert (0 < a - b) by interval with (i_prec 80); lra) ]
  | |- context [Rge_dec ?a ?b] =>
      destruct (Rge_dec a b) as [Hgt | Hngt];
      [ try (exfalso; assert (0 < b - a) by interval with (i_prec 80); lra)
      | try (exfalso; assert (0 <= a - b) by interval with (i_prec 80); lra) ]
  | |- context [Rlt_dec ?a ?b] =>
      destruct (Rlt_dec a b) as [Hgt | Hngt];
      [ try (exfalso; assert (0 <= a - b) by interval with (i_prec 80); lra)
      | try (exfalso; assert (0 < b - a) by interval with (i_prec 80); lra) ]
  | |- context [Rle_dec ?a ?b] =>
      destruct (Rle_dec a b) as [Hgt | Hngt];
      [ try (exfalso; assert (0 < a - b) by interval with (i_prec 80); lra)
      | try (exfalso; assert (0 <= b - a) by interval with (i_prec 80); lra) ]
  end.

(* a stored numeric field after a generated setter *)
Ltac case_field setter :=
  unfold setter;
  projections; denorm; interval with (i_prec 80).

(* the poling state after the generated poling setter, on a poled base *)
Ltac case_poling setter :=
  unfold setter;
  projections; cbn [pp_assign_period pp_with_period sign_mul]; unfold pp_new; cbn [sign_mul];
  repeat match goal with
  | |- context [Rgt_dec ?a ?b] =>
      destruct (Rgt_dec a b) as [Hgt | Hngt];
      [ try (exfalso; assert (0 <= b - a) by interval with (i_prec 80); lra)
      | try (exfalso; assert (0 < a - b) by interval with (i_prec 80); lra) ]
  end;
  split; [ interval with (i_prec 80) | reflexivity ].

Ltac case_poling_off setter := unfold setter; reflexivity.

(* the k-th grid point of a sweep: the generated Steps2D::value (Gen/Grid.v) at a closed index *)
Ltac case_grid :=
  unfold Gen.Grid.steps2d_value;
  cbn [fst snd GridOps.o_add GridOps.o_sub GridOps.o_mul GridOps.o_div GridOps.o_nat GridOps.o_z GridOps.Rops];
  repeat match goal with
  | |- context [Nat.ltb ?a ?b] => let r := eval vm_compute in (Nat.ltb a b) in change (Nat.ltb a b) with r; cbv iota
  end;
  rewrite ?INR_IZR_INZ;
  repeat match goal with |- context [Z.of_nat ?n] =>
    let r := eval vm_compute in (Z.of_nat n) in change (Z.of_nat n) with r
  end;
  split; interval with (i_prec 80).
