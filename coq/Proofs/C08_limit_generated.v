(* C08 (limit clause) — the two limit theorems stated on the GENERATED integrands of a collinear setup whose three waists and pump
   walk-off length are multiplied by s (Model/PMParams.v: pm_scale_wr):
     s^4 pm_integrand (scaled p) z        ->  apod(z) (4/sqrt(Sx Sy)) exp(-a^2 (1+z)^2) e^{i(psi0 + ff z)}
     s^6 pms_integrand (scaled p) z1 z2   ->  apod(z1) apod(z2) exp(R_exponent + i L Delta k (z1 - z2)/2) / (8 sqrt P0)
   (all diffraction coefficients of the real integrands present; s -> infinity). *)
From Coq Require Import Reals Lra Psatz QArith.
From Coquelicot Require Import Coquelicot.
From SpdVerif Require Import Base.Rx Base.CxPM Base.CxCont Model.PMParams Gen.PMIntegrand Gen.PMSingles Proofs.C06_algebra Proofs.C06_swap
  Proofs.C06_defined Proofs.C05_closure Proofs.C05_limit Proofs.C05_waistlimit Proofs.C05_waistlimit_walkoff Proofs.PM_singles_core
  Proofs.PM_singles_limit.
Local Open Scope R_scope.

Lemma tan_scaled_rho s p : tan (p_rho (pm_scale_wr s p) / 1) = s * tan (p_rho p).
Proof. cbn [pm_scale_wr p_rho]. replace (atan (s * tan (p_rho p)) / 1) with (atan (s * tan (p_rho p))) by field. apply tan_atan. Qed.

(* ---- coincidences *)
Lemma collinear_scaled_wr_integrand p s z :
  pm_collinear p ->
  Cmult (RtoC ((s * s) * (s * s))) (pm_integrand (pm_scale_wr s p) z) =
  scaledW (p_apod p) (pm_Wx_SQ p) (pm_Wy_SQ p) (pm_Ws_SQ p) (pm_Wi_SQ p) (pm_DEL2s p) (pm_DEL2i p) (pm_Cs p) (pm_Ci p) (pm_Ds p) (pm_Di p)
          (pm_m p) (0.5 * p_L p * tan (p_rho p)) (pm_ks_f p * p_z0s p + pm_ki_f p * p_z0i p) (pm_ee p) (pm_ff p) z s.
Proof.
  intros Hc. set (q := pm_scale_wr s p). assert (Hq : pm_collinear q) by exact Hc.
  unfold scaledW. f_equal. rewrite integrand_is_closure. unfold pm_closure_of.
  assert (EWx : pm_Wx_SQ q = s * s * pm_Wx_SQ p) by (unfold pm_Wx_SQ, q; cbn [pm_scale_wr p_wpx]; ring).
  assert (EWy : pm_Wy_SQ q = s * s * pm_Wy_SQ p) by (unfold pm_Wy_SQ, q; cbn [pm_scale_wr p_wpy]; ring).
  assert (EWs : pm_Ws_SQ q = s * s * pm_Ws_SQ p) by (unfold pm_Ws_SQ, q; cbn [pm_scale_wr p_wsx p_wsy]; ring).
  assert (EWi : pm_Wi_SQ q = s * s * pm_Wi_SQ p) by (unfold pm_Wi_SQ, q; cbn [pm_scale_wr p_wix p_wiy]; ring).
  assert (EM : pm_M2 q = 1) by (unfold pm_M2; ring).
  assert (EAs : pm_As q = (- (s * s) * (pm_Wx_SQ p + pm_Ws_SQ p) / 4, - pm_DEL2s p)).
  { rewrite (col_As q Hq), EWx, EWs. apply C_pair_eq; [dec_norm; field | reflexivity]. }
  assert (EAi : pm_Ai q = (- (s * s) * (pm_Wx_SQ p + pm_Wi_SQ p) / 4, - pm_DEL2i p)).
  { rewrite (col_Ai q Hq), EWx, EWi. apply C_pair_eq; [dec_norm; field | reflexivity]. }
  assert (EBs : pm_Bs q = (- (s * s) * (pm_Wy_SQ p + pm_Ws_SQ p) / 4, - pm_DEL2s p)).
  { unfold pm_Bs, pm_GAM2s. rewrite EWy, EWs, EM. apply C_pair_eq; [dec_norm; field | change (pm_DEL2s q) with (pm_DEL2s p); field]. }
  assert (EBi : pm_Bi q = (- (s * s) * (pm_Wy_SQ p + pm_Wi_SQ p) / 4, - pm_DEL2i p)).
  { unfold pm_Bi, pm_GAM2i. rewrite EWy, EWi, EM. apply C_pair_eq; [dec_norm; field | change (pm_DEL2i q) with (pm_DEL2i p); field]. }
  assert (Emx : pm_mx q = (- (s * s) * pm_Wx_SQ p / 2, 0)).
  { unfold pm_mx, pm_z0. rewrite EWx, EM. apply C_pair_eq; [dec_norm; field | unfold Rdiv; ring]. }
  assert (Emy : pm_my q = (- (s * s) * pm_Wy_SQ p / 2, 0)).
  { unfold pm_my, pm_z0. rewrite EWy, EM. apply C_pair_eq; [dec_norm; field | unfold Rdiv; ring]. }
  assert (En : pm_n q = s * (0.5 * p_L p * tan (p_rho p))).
  { unfold pm_n. unfold q. rewrite tan_scaled_rho. cbn [pm_scale_wr p_L]. ring. }
  rewrite EM, EAs, EAi, EBs, EBi, Emx, Emy, En, (col_hh q Hq), (col_A5 q Hq), (col_A5sq q Hq), (col_A7 q Hq).
  reflexivity.
Qed.

Theorem coincidence_integrand_limit p z :
  pm_collinear p -> 0 < pm_Ws_SQ p -> 0 < pm_Wi_SQ p ->
  filterlim (fun s => Cmult (RtoC ((s * s) * (s * s))) (pm_integrand (pm_scale_wr s p) z)) (Rbar_locally p_infty)
            (locally (plane_wave_valueW (p_apod p) (pm_Wx_SQ p) (pm_Wy_SQ p) (pm_Ws_SQ p) (pm_Wi_SQ p) (0.5 * p_L p * tan (p_rho p))
                                        (pm_ks_f p * p_z0s p + pm_ki_f p * p_z0i p) (pm_ee p) (pm_ff p) z)).
Proof.
  intros Hc Hs Hi.
  eapply filterlim_ext; [intros s; symmetry; apply collinear_scaled_wr_integrand, Hc|].
  apply waist_limitW; try assumption.
  - unfold pm_Wx_SQ. apply Rle_0_sqr.
  - unfold pm_Wy_SQ. apply Rle_0_sqr.
Qed.

(* ---- signal singles *)
Lemma singles_integrand_is_closure p z1 z2 : pms_integrand p z1 z2 = pms_closure_of p z1 z2.
Proof. reflexivity. Qed.

Section CollinearSingles.
  Variable p : pm_params.
  Hypothesis Hc : pm_collinear p.
  Lemma scol_PHI : pms_PHI_s p = 1.
  Proof. unfold pms_PHI_s. destruct Hc as (_ & _ & -> & _). rewrite zero_over_one, cos_0. field. Qed.
  Lemma scol_SIN : pms_SIN_THETA_s_e p = 0.
  Proof. unfold pms_SIN_THETA_s_e. destruct Hc as (_ & _ & -> & _). rewrite zero_over_one. apply sin_0. Qed.
  Lemma scol_hs : pms_hs p = 0.
  Proof. unfold pms_hs. destruct Hc as (-> & _). rewrite zero_over_one, tan_0. ring. Qed.
  Lemma scol_GAM3s : pms_GAM3s p = 0. Proof. unfold pms_GAM3s. rewrite scol_SIN. ring. Qed.
  Lemma scol_GAM4s : pms_GAM4s p = 0. Proof. unfold pms_GAM4s. rewrite scol_SIN. ring. Qed.
  Lemma scol_zhs : pms_zhs p = p_z0s p. Proof. unfold pms_zhs. rewrite scol_SIN. ring. Qed.
  Lemma scol_DEL3s : pms_DEL3s p = 0. Proof. unfold pms_DEL3s. rewrite scol_hs, scol_SIN. ring. Qed.
  Lemma scol_alpha3 : pms_alpha3 p = RtoC 0.
  Proof. unfold pms_alpha3, RtoC. rewrite scol_GAM3s, scol_DEL3s. apply C_pair_eq; field. Qed.
End CollinearSingles.

Lemma collinear_scaled_singles p s z1 z2 :
  pm_collinear p ->
  Cmult (RtoC ((s * s) * (s * s) * (s * s))) (pms_integrand (pm_scale_wr s p) z1 z2) =
  sscaled (p_apod p) (pms_k_p p) (pms_k_s p) (p_L p) (pms_Wx_SQ p) (pms_Wy_SQ p) (pms_Ws_SQ p) (pms_DEL2s p) (p_L p * tan (p_rho p))
          (pms_C3 p) (pms_C4 p) z1 z2 s.
Proof.
  intros Hc. set (q := pm_scale_wr s p). assert (Hq : pm_collinear q) by exact Hc.
  unfold sscaled. f_equal. rewrite singles_integrand_is_closure. unfold pms_closure_of.
  assert (EM : pms_M2 q = 1) by (unfold pms_M2; ring).
  assert (EWx : pms_Wx_SQ q = s * s * pms_Wx_SQ p) by (unfold pms_Wx_SQ, q; cbn [pm_scale_wr p_wpx]; ring).
  assert (EWy : pms_Wy_SQ q = s * s * pms_Wy_SQ p) by (unfold pms_Wy_SQ, q; cbn [pm_scale_wr p_wpy]; ring).
  assert (EWs : pms_Ws_SQ q = s * s * pms_Ws_SQ p) by (unfold pms_Ws_SQ, q; cbn [pm_scale_wr p_wsx p_wsy]; ring).
  assert (Ez0 : pms_z0 q = 0) by (unfold pms_z0; ring).
  assert (EK : pms_KpKs q = pms_k_p p * pms_k_s p).
  { unfold pms_KpKs. rewrite EM. change (pms_k_p q) with (pms_k_p p). change (pms_k_s q) with (pms_k_s p). field. }
  assert (EC9 : pms_C9 q = (pms_k_p p * (s * s * pms_Wx_SQ p), 0)).
  { unfold pms_C9. rewrite EWx. change (pms_k_p q) with (pms_k_p p). apply C_pair_eq; [field | reflexivity]. }
  assert (EC10 : pms_C10 q = (pms_k_p p * (s * s * pms_Wy_SQ p), 0)).
  { unfold pms_C10. rewrite EWy. change (pms_k_p q) with (pms_k_p p). apply C_pair_eq; [field | reflexivity]. }
  assert (ELR : pms_LRho q = s * (p_L p * tan (p_rho p))).
  { unfold pms_LRho, pms_RHOpx, q. rewrite tan_scaled_rho. cbn [pm_scale_wr p_L]. ring. }
  assert (ELR2 : pms_LRho_sq q = s * (p_L p * tan (p_rho p)) * (s * (p_L p * tan (p_rho p)))).
  { unfold pms_LRho_sq. rewrite ELR. reflexivity. }
  assert (ED2 : pms_DEL2s q = pms_DEL2s p) by reflexivity.
  assert (EA1 : pms_alpha1 q = Cmult (RtoC (4 * (pms_k_p p * pms_k_s p))) (- (s * s * pms_Ws_SQ p) / 4, - pms_DEL2s p)).
  { unfold pms_alpha1, pms_GAM1s, pms_GAM2s, pms_DEL1s. rewrite EK, EM, (scol_PHI q Hq), EWs, ED2. f_equal.
    apply C_pair_eq; dec_norm; field. }
  assert (EA2 : pms_alpha2 q = Cmult (RtoC (4 * (pms_k_p p * pms_k_s p))) (- (s * s * pms_Ws_SQ p) / 4, - pms_DEL2s p)).
  { unfold pms_alpha2, pms_GAM2s. rewrite EK, EM, EWs, ED2. f_equal. apply C_pair_eq; dec_norm; field. }
  assert (EK4 : pms_KpKs4inv q = 1 / (4 * (pms_k_p p * pms_k_s p))) by (unfold pms_KpKs4inv; rewrite EK; reflexivity).
  rewrite EM, EWx, EWy, Ez0, (scol_GAM4s q Hq), EK, EC9, EC10, ELR, ELR2, EA1, EA2, (scol_alpha3 q Hq), EK4.
  reflexivity.
Qed.

Theorem singles_integrand_limit p z1 z2 :
  pm_collinear p -> pms_k_p p <> 0 -> pms_k_s p <> 0 -> 0 < pms_Ws_SQ p -> 0 < pms_Wx_SQ p -> 0 < pms_Wy_SQ p ->
  filterlim (fun s => Cmult (RtoC ((s * s) * (s * s) * (s * s))) (pms_integrand (pm_scale_wr s p) z1 z2)) (Rbar_locally p_infty)
            (locally (singles_limit_value (p_apod p) (pms_Wx_SQ p) (pms_Wy_SQ p) (pms_Ws_SQ p) (p_L p * tan (p_rho p)) (pms_C3 p) z1 z2)).
Proof.
  intros Hc Hkp Hks Hs Hx Hy.
  eapply filterlim_ext; [intros s; symmetry; apply collinear_scaled_singles, Hc|].
  apply singles_waist_limit; assumption.
Qed.
