(* C03 — supporting lemmas: periodicity over Z, angle normalisation, the generated direction / frequency helpers. *)
From Coq Require Import Reals Lra Lia ZArith Bool.
From SpdVerif Require Import Base.Rx Base.Vec3 Gen.Idler Model.Idler.
Local Open Scope R_scope.

Ltac vec_cmp := apply vec_eq; unfold vsub, vadd, vscale, vcross, ez, vzero, vx, vy, vz; cbn [fst snd].

Lemma Rdiv_1 x : x / 1 = x.
Proof. field. Qed.

(* ---------------------------------------------------------------- sin / cos are 2 pi periodic over Z *)
Lemma sin_period_Z x (k : Z) : sin (x + 2 * IZR k * PI) = sin x.
Proof.
  destruct k as [|p|p].
  - replace (x + 2 * 0 * PI) with x by ring. reflexivity.
  - replace (IZR (Z.pos p)) with (INR (Pos.to_nat p)) by (rewrite INR_IZR_INZ, positive_nat_Z; reflexivity).
    apply sin_period.
  - replace (IZR (Z.neg p)) with (- INR (Pos.to_nat p)).
    + rewrite <- (sin_period (x + 2 * - INR (Pos.to_nat p) * PI) (Pos.to_nat p)). f_equal. ring.
    + rewrite INR_IZR_INZ, positive_nat_Z, <- opp_IZR. reflexivity.
Qed.

Lemma cos_period_Z x (k : Z) : cos (x + 2 * IZR k * PI) = cos x.
Proof.
  destruct k as [|p|p].
  - replace (x + 2 * 0 * PI) with x by ring. reflexivity.
  - replace (IZR (Z.pos p)) with (INR (Pos.to_nat p)) by (rewrite INR_IZR_INZ, positive_nat_Z; reflexivity).
    apply cos_period.
  - replace (IZR (Z.neg p)) with (- INR (Pos.to_nat p)).
    + rewrite <- (cos_period (x + 2 * - INR (Pos.to_nat p) * PI) (Pos.to_nat p)). f_equal. ring.
    + rewrite INR_IZR_INZ, positive_nat_Z, <- opp_IZR. reflexivity.
Qed.

Lemma two_pi_pos : 0 < 2 * PI.
Proof. pose proof PI_RGT_0. lra. Qed.

(* ---------------------------------------------------------------- normalize_angle, normalize_angle_signed *)
Lemma normalize_angle_congr a : exists k : Z, normalize_angle a = a + 2 * IZR k * PI.
Proof.
  unfold normalize_angle. destruct (rem_euclid_congr (a / 1) (2 * PI)) as [k Hk].
  exists (- k)%Z. rewrite Hk, opp_IZR. field.
Qed.

Lemma normalize_angle_range a : 0 <= normalize_angle a < 2 * PI.
Proof.
  unfold normalize_angle. pose proof (rem_euclid_range (a / 1) (2 * PI) two_pi_pos). lra.
Qed.

Lemma normalize_angle_signed_congr a : exists k : Z, normalize_angle_signed a = a + 2 * IZR k * PI.
Proof.
  unfold normalize_angle_signed. destruct (rem_euclid_congr (a / 1) (2 * PI)) as [k Hk].
  destruct (Rgt_dec _ _).
  - exists (- k - 1)%Z. rewrite Hk, minus_IZR, opp_IZR. field.
  - exists (- k)%Z. rewrite Hk, opp_IZR. field.
Qed.

Lemma normalize_angle_signed_range a : - PI < normalize_angle_signed a <= PI.
Proof.
  unfold normalize_angle_signed. pose proof (rem_euclid_range (a / 1) (2 * PI) two_pi_pos).
  destruct (Rgt_dec _ _); lra.
Qed.

Lemma rem_euclid_small x m : 0 <= x < m -> rem_euclid x m = x.
Proof.
  intros [H0 H1]. unfold rem_euclid.
  assert (Hm : 0 < m) by lra.
  rewrite (Rfloor_unique (x / m) 0).
  - ring.
  - split.
    + apply Rmult_le_pos; [lra | left; apply Rinv_0_lt_compat; lra].
    + replace (0 + 1) with (m / m) by (field; lra). unfold Rdiv.
      apply Rmult_lt_compat_r; [apply Rinv_0_lt_compat; lra | lra].
Qed.

Lemma rem_euclid_neg_small x m : - m <= x < 0 -> rem_euclid x m = x + m.
Proof.
  intros [H0 H1]. unfold rem_euclid.
  assert (Hm : 0 < m) by lra.
  rewrite (Rfloor_unique (x / m) (-1)).
  - ring.
  - assert (Hi : 0 < / m) by (apply Rinv_0_lt_compat; lra).
    split.
    + replace (-1) with (- m / m) by (field; lra). unfold Rdiv. apply Rmult_le_compat_r; lra.
    + replace (-1 + 1) with (0 * / m) by ring. unfold Rdiv. apply Rmult_lt_compat_r; lra.
Qed.

(* an angle already in (-pi, pi] is stored unchanged *)
Lemma normalize_angle_signed_id a : - PI < a <= PI -> normalize_angle_signed a = a.
Proof.
  intros [H0 H1]. unfold normalize_angle_signed. pose proof PI_RGT_0 as HPI.
  replace (a / 1) with a by field.
  destruct (Rle_dec 0 a) as [Hp|Hn].
  - rewrite rem_euclid_small by lra. destruct (Rgt_dec a PI); lra.
  - rewrite rem_euclid_neg_small by lra. destruct (Rgt_dec (a + 2 * PI) PI); lra.
Qed.

Lemma normalize_angle_id a : 0 <= a < 2 * PI -> normalize_angle a = a.
Proof.
  intros H. unfold normalize_angle. replace (a / 1) with a by field. rewrite rem_euclid_small by lra. ring.
Qed.

Lemma beam_new_phi_eq a : beam_new_phi a = normalize_angle a.
Proof. reflexivity. Qed.
Lemma beam_new_theta_eq a : beam_new_theta a = normalize_angle_signed a.
Proof. reflexivity. Qed.

(* ---------------------------------------------------------------- directions *)
Definition polar (phi theta : R) : vec := (sin theta * cos phi, sin theta * sin phi, cos theta).

Lemma polar_norm phi theta : norm3 (sin theta * cos phi) (sin theta * sin phi) (cos theta) = 1.
Proof.
  unfold norm3.
  replace (sin theta * cos phi * (sin theta * cos phi) + sin theta * sin phi * (sin theta * sin phi) + cos theta * cos theta)
    with ((sin theta)² * ((sin phi)² + (cos phi)²) + (cos theta)²) by (unfold Rsqr; ring).
  rewrite sin2_cos2, Rmult_1_r, sin2_cos2. apply sqrt_1.
Qed.

(* Unit::new_normalize does nothing to a unit vector *)
Lemma direction_from_polar_eq phi theta : direction_from_polar phi theta = polar phi theta.
Proof.
  unfold direction_from_polar, polar.
  replace (theta / 1) with theta by field. replace (phi / 1) with phi by field.
  rewrite polar_norm. vec_cmp; field.
Qed.

Lemma polar_period phi theta (k m : Z) : polar (phi + 2 * IZR k * PI) (theta + 2 * IZR m * PI) = polar phi theta.
Proof. unfold polar. rewrite !sin_period_Z, !cos_period_Z. reflexivity. Qed.

(* the stored direction of Beam::new(phi, theta) is the polar direction of the angles as given *)
Lemma beam_new_direction_eq phi theta : beam_new_direction phi theta = polar phi theta.
Proof.
  unfold beam_new_direction. rewrite direction_from_polar_eq, beam_new_phi_eq, beam_new_theta_eq.
  destruct (normalize_angle_congr phi) as [k ->]. destruct (normalize_angle_signed_congr theta) as [m ->].
  apply polar_period.
Qed.

Lemma polar_unit phi theta : vnorm2 (polar phi theta) = 1.
Proof.
  unfold vnorm2, vdot, polar, vx, vy, vz; cbn [fst snd].
  replace (sin theta * cos phi * (sin theta * cos phi) + sin theta * sin phi * (sin theta * sin phi) + cos theta * cos theta)
    with ((sin theta)² * ((sin phi)² + (cos phi)²) + (cos theta)²) by (unfold Rsqr; ring).
  rewrite sin2_cos2, Rmult_1_r, sin2_cos2. reflexivity.
Qed.

Lemma polar_0_0 : polar 0 0 = ez.
Proof. unfold polar, ez. rewrite sin_0, cos_0. vec_cmp; ring. Qed.

(* azimuth + pi flips the transverse part *)
Lemma polar_phi_pi phi theta : polar (phi + PI) theta = (- (sin theta * cos phi), - (sin theta * sin phi), cos theta).
Proof.
  unfold polar. rewrite neg_sin, neg_cos. vec_cmp; ring.
Qed.

(* ---------------------------------------------------------------- frequency <-> wavelength *)
Definition c_light : R := 299792458.

Lemma beam_new_frequency_eq l : l <> 0 -> beam_new_frequency l = 2 * PI * c_light / l.
Proof. intros H. unfold beam_new_frequency, c_light. field. exact H. Qed.

Lemma beam_lambda_roundtrip l : l <> 0 -> beam_vacuum_wavelength (beam_new_frequency l) = l.
Proof.
  intros H. unfold beam_vacuum_wavelength, beam_new_frequency. pose proof PI_RGT_0. field. split; lra.
Qed.

Lemma b_lambda_new pol phi theta l w : l <> 0 -> b_lambda (beam_new pol phi theta l w) = l.
Proof. intros H. unfold b_lambda, beam_new; cbn [b_omega]. apply beam_lambda_roundtrip, H. Qed.

Lemma frequency_to_vacuum_wavelength_new l : l <> 0 -> frequency_to_vacuum_wavelength (beam_new_frequency l) = l.
Proof.
  intros H. unfold frequency_to_vacuum_wavelength, beam_new_frequency. pose proof PI_RGT_0. field. split; lra.
Qed.

(* ---------------------------------------------------------------- wave vector = direction * n * omega / c *)
Lemma beam_wavevector_eq d n w : beam_wavevector d n w = vscale (n * w / c_light) d.
Proof.
  unfold beam_wavevector, vscale, frequency_to_wavenumber, c_light.
  apply vec_eq; unfold vx, vy, vz; cbn [fst snd]; field.
Qed.

(* ---------------------------------------------------------------- poling *)
Definition sign_val (positive : bool) : R := if positive then 1 else -1.

Lemma sign_mul_eq s x : sign_mul s x = sign_val s * x.
Proof. unfold sign_mul, sign_val. destruct s; ring. Qed.

Lemma pp_k_eff_eq pp : pp_k_eff pp = match pp with PPOff => 0 | PPOn p s => 2 * PI / (sign_val s * p) end.
Proof.
  destruct pp as [|p s]; unfold pp_k_eff, pp_k_eff_off, pp_k_eff_on.
  - field.
  - rewrite sign_mul_eq. unfold Rdiv. f_equal. ring.
Qed.

Lemma pp_k_pp_eq pp ls : pp_k_pp pp ls = match pp with PPOff => 0 | PPOn p s => ls / (sign_val s * p) end.
Proof.
  destruct pp as [|p s]; unfold pp_k_pp, idler_k_pp, pp_signed_period_on; [reflexivity|].
  rewrite sign_mul_eq. reflexivity.
Qed.

Lemma sign_val_nz s : sign_val s <> 0.
Proof. destruct s; unfold sign_val; lra. Qed.

(* k_eff = (2 pi / ls) * k_pp *)
Lemma k_eff_k_pp pp ls : ls <> 0 -> pp_defined pp -> pp_k_eff pp = 2 * PI / ls * pp_k_pp pp ls.
Proof.
  intros Hl Hd. rewrite pp_k_eff_eq, pp_k_pp_eq. destruct pp as [|p s]; [ring|].
  cbn in Hd. pose proof (sign_val_nz s). field. repeat split; try assumption; lra.
Qed.
