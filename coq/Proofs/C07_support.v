(* C07 clause 3: the support box and the threshold short-circuit (generated invalid_frequencies, jsa_raw, jsi_singles_raw,
   the spectrum_ functions): outside the support every spectrum value is EXACTLY zero; the box is exactly the property's
   (<= 0, > ωp, |Δω| > ¾ ωp, envelope < threshold: strictness included). *)
From Coq Require Import Reals Bool Lra List.
From SpdVerif Require Import Base.Rx Model.SpectrumSetup Gen.Spectrum.
Local Open Scope R_scope.

Definition outside_box (ws wi : R) (s : setup) : Prop :=
  ws <= 0 \/ wi <= 0 \/ ws > omega_p s \/ wi > omega_p s \/ Rabs (ws - wi) > 0.75 * omega_p s.

Definition off_support (ws wi : R) (s : setup) : Prop :=
  outside_box ws wi s \/ pump_spectral_amplitude (ws + wi) s < threshold s.

Lemma sumbool_true_iff (P Q : Prop) (d : {P} + {Q}) : (Q -> ~ P) -> ((if d then true else false) = true <-> P).
Proof. intros H. destruct d; split; intros; try reflexivity; try assumption; try discriminate. exfalso; eapply H; eassumption. Qed.

(* the generated boolean is exactly the property's box *)
Lemma invalid_frequencies_iff ws wi s : invalid_frequencies ws wi s = true <-> outside_box ws wi s.
Proof.
  unfold invalid_frequencies, outside_box. rewrite !orb_true_iff.
  rewrite (sumbool_true_iff _ _ (Rle_dec ws 0)) by tauto.
  rewrite (sumbool_true_iff _ _ (Rle_dec wi 0)) by tauto.
  rewrite (sumbool_true_iff _ _ (Rgt_dec ws (omega_p s))) by tauto.
  rewrite (sumbool_true_iff _ _ (Rgt_dec wi (omega_p s))) by tauto.
  rewrite (sumbool_true_iff _ _ (Rgt_dec (Rabs (ws - wi)) (0.75 * omega_p s))) by tauto.
  tauto.
Qed.

Lemma invalid_frequencies_false_iff ws wi s :
  invalid_frequencies ws wi s = false <->
  0 < ws <= omega_p s /\ 0 < wi <= omega_p s /\ Rabs (ws - wi) <= 0.75 * omega_p s.
Proof.
  rewrite <- not_true_iff_false, invalid_frequencies_iff. unfold outside_box. split.
  - intros H. repeat split; apply Rnot_gt_le || apply Rnot_le_lt; intros C; apply H; tauto.
  - intros (H1 & H2 & H3) [C|[C|[C|[C|C]]]]; lra.
Qed.

(* exact zeros off the support, for every value of the oracles *)
Lemma off_support_raw_zero ws wi s :
  off_support ws wi s -> jsa_raw ws wi s = (0, 0) /\ jsi_singles_raw ws wi s = 0.
Proof.
  intros [H|H]; unfold jsa_raw, jsi_singles_raw.
  - apply invalid_frequencies_iff in H. rewrite H.
    destruct (bool_dec true true) as [_|F]; [split; reflexivity|exfalso; apply F; reflexivity].
  - destruct (bool_dec _ true); [split; reflexivity|].
    destruct (Rlt_dec _ (threshold s)) as [_|N]; [split; reflexivity|contradiction].
Qed.

Lemma off_support_spectrum_zero ws wi s :
  off_support ws wi s ->
  spectrum_jsa ws wi s = (0, 0) /\ spectrum_jsi ws wi s = 0 /\ spectrum_jsi_singles ws wi s = 0.
Proof.
  intros H. destruct (off_support_raw_zero _ _ _ H) as [H1 H2].
  unfold spectrum_jsa, spectrum_jsi, spectrum_jsi_singles. rewrite H1, H2. cbn [fst snd].
  destruct (Req_EM_T 0 0) as [_|N]; [|exfalso; apply N; reflexivity]. cbn [andb].
  destruct (bool_dec true true) as [_|F]; [repeat split; reflexivity|exfalso; apply F; reflexivity].
Qed.

Lemma off_support_normalized_zero ws wi s c :
  off_support ws wi s ->
  spectrum_jsa_normalized ws wi s c = (0, 0) /\ spectrum_jsi_normalized ws wi s c = 0
  /\ spectrum_jsi_singles_normalized ws wi s c = 0.
Proof.
  intros H. destruct (off_support_spectrum_zero _ _ _ H) as (H1 & H2 & H3).
  unfold spectrum_jsa_normalized, spectrum_jsi_normalized, spectrum_jsi_singles_normalized.
  rewrite H1, H2, H3. cbn [fst snd]. unfold Rdiv. rewrite !Rmult_0_l. repeat split; reflexivity.
Qed.

(* converse: on the support with a non-vanishing integrand the raw values are the product form, hence non-zero exactly
   when the phasematching oracle is (so the zero set is the property's, not larger) *)
Lemma on_support_raw_nonzero ws wi s :
  ~ off_support ws wi s -> (pm_re s ws wi <> 0 \/ pm_im s ws wi <> 0) -> jsa_raw ws wi s <> (0, 0).
Proof.
  intros Hn Hpm. unfold off_support in Hn.
  assert (Hi : invalid_frequencies ws wi s = false).
  { apply not_true_iff_false. rewrite invalid_frequencies_iff. tauto. }
  assert (Ht : ~ pump_spectral_amplitude (ws + wi) s < threshold s) by tauto.
  unfold jsa_raw. rewrite Hi. destruct (bool_dec false true) as [F|_]; [discriminate F|].
  destruct (Rlt_dec _ (threshold s)) as [L|_]; [contradiction|].
  assert (Ha : 0 < pump_spectral_amplitude (ws + wi) s).
  { unfold pump_spectral_amplitude. apply exp_pos. }
  intros E. injection E as E1 E2.
  destruct Hpm as [Hp|Hp]; apply Hp.
  - apply Rmult_integral in E1. destruct E1 as [E1|E1]; [lra|]. unfold Rdiv in E1. lra.
  - apply Rmult_integral in E2. destruct E2 as [E2|E2]; [lra|]. unfold Rdiv in E2. lra.
Qed.
