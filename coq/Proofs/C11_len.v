(* C11 — the perfect-square length check of schmidt_number. *)
From Coq Require Import NArith Lia Arith.
From SpdVerif Require Import Model.FinSum Model.Schmidt.

Lemma accepted_len_iff (len : N) : accepted_len len = true <-> exists d : N, len = (d * d)%N.
Proof.
  unfold accepted_len. rewrite N.eqb_eq. split.
  - intros H. exists (N.sqrt len). exact H.
  - intros [d ->]. rewrite N.sqrt_square. reflexivity.
Qed.

Lemma rejected_len_iff (len : N) : accepted_len len = false <-> forall d : N, len <> (d * d)%N.
Proof.
  split.
  - intros H d Hd. assert (accepted_len len = true) by (apply accepted_len_iff; eauto). congruence.
  - intros H. destruct (accepted_len len) eqn:E; [|reflexivity].
    apply accepted_len_iff in E. destruct E as [d Hd]. exfalso. exact (H d Hd).
Qed.

Lemma accepted_len_nat (len : nat) : accepted_len (N.of_nat len) = true <-> exists d : nat, len = d * d.
Proof.
  rewrite accepted_len_iff. split.
  - intros [d Hd]. exists (N.to_nat d). apply Nat2N.inj. rewrite Hd, Nat2N.inj_mul, !N2Nat.id. reflexivity.
  - intros [d ->]. exists (N.of_nat d). apply Nat2N.inj_mul.
Qed.

Lemma side_of_len_square (d : nat) : side_of_len (N.of_nat (d * d)) = d.
Proof. unfold side_of_len. rewrite Nat2N.inj_mul, N.sqrt_square. apply Nat2N.id. Qed.

(* dim * dim never exceeds len: the usize product in the check cannot overflow *)
Lemma side_sq_le (len : N) : (N.sqrt len * N.sqrt len <= len)%N.
Proof. pose proof (N.sqrt_spec len (N.le_0_l len)) as [H _]. exact H. Qed.
