(* C10 — the four-index sums of hom_two_source_rate_series: bounds for arbitrary amplitude grids and unit-modulus phases,
   and the reduction to the trace form (purity) for identical sources at zero delay. *)
From Coq Require Import Reals Lra Lia Arith Psatz.
From SpdVerif Require Import Model.FinSum Model.Hom Model.Hom2 Proofs.FinSum_lemmas Proofs.Cx_lemmas Proofs.C09_range
  Proofs.CMat Proofs.C10_sums Proofs.C10_svd.
Local Open Scope R_scope.

Lemma ofour_R : ofour ROps = 4.
Proof. unfold ofour, otwo. cbn. ring. Qed.

Definition ts_sum (n : nat) (A : ts_arrays R) (b u : nat -> nat -> cx R) : R :=
  rsum (n * n) (fun i1 => rsum (n * n) (fun i2 => ts_term ROps (ts_a ROps A i1 i2) (b i1 i2) (u i1 i2))).

Lemma ts_rate_unfold n A b u :
  ts_rate ROps n A b u
  = ts_sum n A b u / 4 / (jsi_norm ROps (n * n) (first_s1_i1 A) * jsi_norm ROps (n * n) (second_s2_i2 A)).
Proof. unfold ts_rate. rewrite ofour_R. reflexivity. Qed.

(* ---- the index permutations on flattened indices: index1 = i1*n + s1, index2 = i2*n + s2 *)
Lemma ts_b_ss_flat n A i1 s1 i2 s2 : (s1 < n)%nat -> (s2 < n)%nat ->
  ts_b_ss ROps n A (i1 * n + s1) (i2 * n + s2) = first_s2_i1 A (i1 * n + s2)%nat *c second_s1_i2 A (i2 * n + s1)%nat.
Proof. intros H1 H2. unfold ts_b_ss. rewrite !idx_2d by assumption. reflexivity. Qed.

Lemma ts_b_ii_flat n A i1 s1 i2 s2 : (s1 < n)%nat -> (s2 < n)%nat ->
  ts_b_ii ROps n A (i1 * n + s1) (i2 * n + s2) = first_s1_i2 A (i2 * n + s1)%nat *c second_s2_i1 A (i1 * n + s2)%nat.
Proof. intros H1 H2. unfold ts_b_ii. rewrite !idx_2d by assumption. reflexivity. Qed.

Lemma ts_b_si_flat n A i1 s1 i2 s2 : (s1 < n)%nat -> (s2 < n)%nat ->
  ts_b_si ROps n A (i1 * n + s1) (i2 * n + s2) = first_i2_i1 A (i1 * n + i2)%nat *c second_s2_s1 A (s1 * n + s2)%nat.
Proof. intros H1 H2. unfold ts_b_si. rewrite !idx_2d by assumption. reflexivity. Qed.

(* ---- term-wise facts *)
Lemma ts_term_expand a b u :
  ts_term ROps a b u = cnorm2 ROps a + cnorm2 ROps b * cnorm2 ROps u - 2 * cre (a *c (b *c u)^*).
Proof. unfold ts_term. cx_destruct. cx_unfold. ring. Qed.

Lemma ts_term_nonneg a b u : 0 <= ts_term ROps a b u.
Proof. unfold ts_term. apply cnorm2_nonneg. Qed.

Lemma ts_term_le a b u : cnorm2 ROps u = 1 -> ts_term ROps a b u <= 2 * cnorm2 ROps a + 2 * cnorm2 ROps b.
Proof.
  intros Hu. rewrite ts_term_expand, Hu.
  (* 2 Re(a conj c) >= -(|a|^2 + |c|^2) with c = b u, |c|^2 = |b|^2 *)
  assert (H : - (cnorm2 ROps a + cnorm2 ROps (b *c u)) <= 2 * cre (a *c (b *c u)^*)).
  { generalize (b *c u). intros c. destruct a as [x y], c as [z w]. cx_unfold.
    pose proof (Rle_0_sqr (x + z)) as Q1. pose proof (Rle_0_sqr (y + w)) as Q2. unfold Rsqr in Q1, Q2. lra. }
  rewrite cnorm2_cmul, Hu in H. lra.
Qed.

(* ---- bounds for arbitrary grids *)
Definition b_norm (n : nat) (b : nat -> nat -> cx R) : R :=
  rsum (n * n) (fun i1 => rsum (n * n) (fun i2 => cnorm2 ROps (b i1 i2))).

Lemma a_norm n A :
  rsum (n * n) (fun i1 => rsum (n * n) (fun i2 => cnorm2 ROps (ts_a ROps A i1 i2)))
  = jsi_norm ROps (n * n) (first_s1_i1 A) * jsi_norm ROps (n * n) (second_s2_i2 A).
Proof.
  rewrite !jsi_norm_rsum, rsum_mul. apply rsum_ext; intros i1 _. apply rsum_ext; intros i2 _.
  unfold ts_a. apply cnorm2_cmul.
Qed.

Theorem ts_rate_bounds n A b u :
  unit_phases u ->
  0 < jsi_norm ROps (n * n) (first_s1_i1 A) -> 0 < jsi_norm ROps (n * n) (second_s2_i2 A) ->
  0 <= ts_rate ROps n A b u
    <= 1 / 2 * (1 + b_norm n b / (jsi_norm ROps (n * n) (first_s1_i1 A) * jsi_norm ROps (n * n) (second_s2_i2 A))).
Proof.
  intros Hu H1 H2. rewrite ts_rate_unfold.
  set (N1 := jsi_norm ROps (n * n) (first_s1_i1 A)) in *. set (N2 := jsi_norm ROps (n * n) (second_s2_i2 A)) in *.
  assert (HN : 0 < N1 * N2) by (apply Rmult_lt_0_compat; assumption).
  assert (Hlo : 0 <= ts_sum n A b u).
  { unfold ts_sum. apply rsum_nonneg; intros. apply rsum_nonneg; intros. apply ts_term_nonneg. }
  assert (Hhi : ts_sum n A b u <= 2 * (N1 * N2) + 2 * b_norm n b).
  { unfold N1, N2. rewrite <- a_norm. unfold b_norm, ts_sum. rewrite <- !rsum_scal_l, <- rsum_add.
    apply rsum_le; intros i1 _. rewrite <- !rsum_scal_l, <- rsum_add. apply rsum_le; intros i2 _.
    apply ts_term_le. apply Hu. }
  split.
  - apply Rmult_le_pos; [|left; apply Rinv_0_lt_compat; assumption]. lra.
  - apply Rmult_le_reg_r with (r := N1 * N2); [assumption|].
    unfold Rdiv at 1. rewrite Rmult_assoc, Rinv_l by lra.
    replace (1 / 2 * (1 + b_norm n b / (N1 * N2)) * (N1 * N2)) with (1 / 2 * (N1 * N2) + 1 / 2 * b_norm n b) by (field; lra).
    lra.
Qed.

(* the b-norms factor into the norms of the two grids involved *)
Lemma b_norm_ss n A :
  b_norm n (ts_b_ss ROps n A) = jsi_norm ROps (n * n) (first_s2_i1 A) * jsi_norm ROps (n * n) (second_s1_i2 A).
Proof.
  unfold b_norm. rewrite rsum_flat2, !jsi_norm_rsum.
  rewrite <- (rsum4_pairs_ad_cb n (fun k => cnorm2 ROps (first_s2_i1 A k)) (fun k => cnorm2 ROps (second_s1_i2 A k))).
  apply rsum4_ext; intros i1 s1 i2 s2 _ Hs1 _ Hs2. rewrite ts_b_ss_flat by assumption. apply cnorm2_cmul.
Qed.

Lemma b_norm_ii n A :
  b_norm n (ts_b_ii ROps n A) = jsi_norm ROps (n * n) (first_s1_i2 A) * jsi_norm ROps (n * n) (second_s2_i1 A).
Proof.
  unfold b_norm. rewrite rsum_flat2, !jsi_norm_rsum. rewrite Rmult_comm.
  rewrite <- (rsum4_pairs_ad_cb n (fun k => cnorm2 ROps (second_s2_i1 A k)) (fun k => cnorm2 ROps (first_s1_i2 A k))).
  apply rsum4_ext; intros i1 s1 i2 s2 _ Hs1 _ Hs2. rewrite ts_b_ii_flat by assumption. rewrite cnorm2_cmul. ring.
Qed.

Lemma b_norm_si n A :
  b_norm n (ts_b_si ROps n A) = jsi_norm ROps (n * n) (first_i2_i1 A) * jsi_norm ROps (n * n) (second_s2_s1 A).
Proof.
  unfold b_norm. rewrite rsum_flat2, !jsi_norm_rsum.
  rewrite <- (rsum4_pairs_ac_bd n (fun k => cnorm2 ROps (first_i2_i1 A k)) (fun k => cnorm2 ROps (second_s2_s1 A k))).
  apply rsum4_ext; intros i1 s1 i2 s2 _ Hs1 _ Hs2. rewrite ts_b_si_flat by assumption. apply cnorm2_cmul.
Qed.

Lemma half_bound x N : 0 < N -> x <= N -> 1 / 2 * (1 + x / N) <= 1.
Proof.
  intros HN Hx. assert (x / N <= 1).
  { apply Rmult_le_reg_r with (r := N); [assumption|]. unfold Rdiv. rewrite Rmult_assoc, Rinv_l by lra. lra. }
  lra.
Qed.

(* every rate is in [0, 1] as soon as the product of the norms of its two cross grids does not exceed norm1 * norm2 *)
Theorem ts_rates_range n A u_ss u_ii u_si :
  unit_phases u_ss -> unit_phases u_ii -> unit_phases u_si ->
  0 < jsi_norm ROps (n * n) (first_s1_i1 A) -> 0 < jsi_norm ROps (n * n) (second_s2_i2 A) ->
  let N12 := jsi_norm ROps (n * n) (first_s1_i1 A) * jsi_norm ROps (n * n) (second_s2_i2 A) in
  (jsi_norm ROps (n * n) (first_s2_i1 A) * jsi_norm ROps (n * n) (second_s1_i2 A) <= N12 -> 0 <= ts_rate_ss ROps n A u_ss <= 1) /\
  (jsi_norm ROps (n * n) (first_s1_i2 A) * jsi_norm ROps (n * n) (second_s2_i1 A) <= N12 -> 0 <= ts_rate_ii ROps n A u_ii <= 1) /\
  (jsi_norm ROps (n * n) (first_i2_i1 A) * jsi_norm ROps (n * n) (second_s2_s1 A) <= N12 -> 0 <= ts_rate_si ROps n A u_si <= 1).
Proof.
  intros U1 U2 U3 H1 H2 N12.
  assert (HN : 0 < N12) by (apply Rmult_lt_0_compat; assumption).
  split; [|split]; intros Hb; split.
  - apply (ts_rate_bounds n A (ts_b_ss ROps n A) u_ss U1 H1 H2).
  - eapply Rle_trans; [apply (ts_rate_bounds n A (ts_b_ss ROps n A) u_ss U1 H1 H2)|].
    rewrite b_norm_ss. apply half_bound; assumption.
  - apply (ts_rate_bounds n A (ts_b_ii ROps n A) u_ii U2 H1 H2).
  - eapply Rle_trans; [apply (ts_rate_bounds n A (ts_b_ii ROps n A) u_ii U2 H1 H2)|].
    rewrite b_norm_ii. apply half_bound; assumption.
  - apply (ts_rate_bounds n A (ts_b_si ROps n A) u_si U3 H1 H2).
  - eapply Rle_trans; [apply (ts_rate_bounds n A (ts_b_si ROps n A) u_si U3 H1 H2)|].
    rewrite b_norm_si. apply half_bound; assumption.
Qed.
