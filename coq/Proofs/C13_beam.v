(* C13 — the Beam state machine: normal forms of the generated setters, the invariant over all histories,
   congruence with the last requested angles, pump conversion. *)
From Coq Require Import Reals Lra List.
From SpdVerif Require Import Base.Rx Model.Optics Model.Fresnel Gen.Beam Model.Beam Proofs.C02_frame Proofs.C13_norm.
Import ListNotations.
Local Open Scope R_scope.

Ltac normal_form :=
  rewrite ?div1, ?mul1;
  repeat match goal with
  | |- context [rem_euclid ?x (2 * PI)] => change (rem_euclid x (2 * PI)) with (norm_u x)
  end;
  repeat match goal with
  | |- context [if Rgt_dec (norm_u ?x) PI then norm_u ?x - 2 * PI else norm_u ?x] =>
      change (if Rgt_dec (norm_u x) PI then norm_u x - 2 * PI else norm_u x) with (norm_s x)
  end;
  rewrite ?normalize_polar_expanded.

(* ---- what each generated setter does, in normal form *)
Lemma beam_new_nf p phi theta l w :
  beam_new_gen p phi theta l w =
  {| b_waist := w; b_frequency := 2 * PI * 299792458 / l; b_polarization := p;
     b_theta := norm_s theta; b_phi := norm_u phi; b_direction := polar_dir (norm_u phi) (norm_s theta) |}.
Proof. unfold beam_new_gen. normal_form. reflexivity. Qed.

Lemma set_phi_nf s phi :
  set_phi_gen s phi =
  {| b_waist := b_waist s; b_frequency := b_frequency s; b_polarization := b_polarization s;
     b_theta := b_theta s; b_phi := norm_u phi; b_direction := polar_dir (norm_u phi) (b_theta s) |}.
Proof. unfold set_phi_gen. normal_form. reflexivity. Qed.

Lemma set_theta_internal_nf s theta :
  set_theta_internal_gen s theta =
  {| b_waist := b_waist s; b_frequency := b_frequency s; b_polarization := b_polarization s;
     b_theta := norm_s theta; b_phi := b_phi s; b_direction := polar_dir (b_phi s) (norm_s theta) |}.
Proof. unfold set_theta_internal_gen. normal_form. reflexivity. Qed.

Lemma set_angles_nf s phi theta :
  set_angles_gen s phi theta =
  {| b_waist := b_waist s; b_frequency := b_frequency s; b_polarization := b_polarization s;
     b_theta := norm_s theta; b_phi := norm_u phi; b_direction := polar_dir (norm_u phi) (norm_s theta) |}.
Proof. unfold set_angles_gen. normal_form. reflexivity. Qed.

Lemma beam_eta s :
  {| b_waist := b_waist s; b_frequency := b_frequency s; b_polarization := b_polarization s;
     b_theta := b_theta s; b_phi := b_phi s; b_direction := b_direction s |} = s.
Proof. destruct s. reflexivity. Qed.

Lemma set_theta_external_nf snell_inv s e :
  set_theta_external_gen snell_inv s e = set_angles_gen s (b_phi s) (snell_inv s e).
Proof. unfold set_theta_external_gen, set_angles_gen. rewrite beam_eta. reflexivity. Qed.

Lemma pump_from_beam_nf s :
  pump_from_beam_gen s =
  {| b_waist := b_waist s; b_frequency := b_frequency s; b_polarization := b_polarization s;
     b_theta := 0; b_phi := 0; b_direction := (0, 0, 1) |}.
Proof.
  unfold pump_from_beam_gen. rewrite !Rmult_0_l. normal_form. rewrite norm_u_0, norm_s_0, polar_dir_0_0. reflexivity.
Qed.

(* ---- the invariant *)
Lemma inv_of_normal w f p phi theta :
  beam_inv {| b_waist := w; b_frequency := f; b_polarization := p; b_theta := norm_s theta; b_phi := norm_u phi;
              b_direction := polar_dir (norm_u phi) (norm_s theta) |}.
Proof.
  unfold beam_inv; cbn [b_direction b_phi b_theta].
  split; [reflexivity |]. split; [apply polar_dir_unit |]. split; [apply norm_u_range | apply norm_s_range].
Qed.

Theorem new_inv p phi theta l w : beam_inv (beam_new_gen p phi theta l w).
Proof. rewrite beam_new_nf. apply inv_of_normal. Qed.

Section Machine.
Variable snell_inv : beam -> R -> R.

Theorem step_inv s o : beam_inv s -> beam_inv (step snell_inv s o).
Proof.
  intros (Hd & Hu & Hphi & Hth). destruct o; cbn [step].
  - rewrite set_phi_nf. rewrite <- (norm_s_fixed (b_theta s) Hth). apply inv_of_normal.
  - rewrite set_theta_internal_nf. rewrite <- (norm_u_fixed (b_phi s) Hphi) at 1 2. apply inv_of_normal.
  - rewrite set_angles_nf. apply inv_of_normal.
  - rewrite set_theta_external_nf, set_angles_nf. apply inv_of_normal.
  - unfold set_vacuum_wavelength_gen, beam_inv; cbn [b_direction b_phi b_theta]. tauto.
  - unfold set_frequency_gen, beam_inv; cbn [b_direction b_phi b_theta]. tauto.
  - unfold set_polarization_gen, beam_inv; cbn [b_direction b_phi b_theta]. tauto.
  - unfold with_polarization_gen, beam_inv; cbn [b_direction b_phi b_theta]. tauto.
  - unfold set_waist_gen, beam_inv; cbn [b_direction b_phi b_theta]. tauto.
  - rewrite pump_from_beam_nf. unfold beam_inv; cbn [b_direction b_phi b_theta].
    pose proof PI_RGT_0. split; [symmetry; apply polar_dir_0_0 |].
    split; [unfold unit_vec, vnorm2, vdot, vx, vy, vz; cbn [fst snd]; ring | lra].
Qed.

(* ALL finite histories *)
Theorem run_inv ops : forall s, beam_inv s -> beam_inv (run snell_inv s ops).
Proof.
  induction ops as [| o rest IH]; intros s Hs; cbn [run fold_left].
  - exact Hs.
  - apply IH. apply step_inv. exact Hs.
Qed.

(* ---- congruence with the requested values *)
Lemma step_phi s o :
  match requested_phi s o with
  | Some x => congruent (b_phi (step snell_inv s o)) x
  | None => b_phi (step snell_inv s o) = b_phi s
  end.
Proof.
  destruct o; cbn [step requested_phi].
  - rewrite set_phi_nf. apply norm_u_congr.
  - rewrite set_theta_internal_nf. reflexivity.
  - rewrite set_angles_nf. apply norm_u_congr.
  - rewrite set_theta_external_nf, set_angles_nf. apply norm_u_congr.
  - reflexivity.
  - reflexivity.
  - reflexivity.
  - reflexivity.
  - reflexivity.
  - rewrite pump_from_beam_nf. apply congruent_refl.
Qed.

Lemma step_theta s o :
  match requested_theta snell_inv s o with
  | Some x => congruent (b_theta (step snell_inv s o)) x
  | None => b_theta (step snell_inv s o) = b_theta s
  end.
Proof.
  destruct o; cbn [step requested_theta].
  - rewrite set_phi_nf. reflexivity.
  - rewrite set_theta_internal_nf. apply norm_s_congr.
  - rewrite set_angles_nf. apply norm_s_congr.
  - rewrite set_theta_external_nf, set_angles_nf. apply norm_s_congr.
  - reflexivity.
  - reflexivity.
  - reflexivity.
  - reflexivity.
  - reflexivity.
  - rewrite pump_from_beam_nf. apply congruent_refl.
Qed.

Theorem run_congruent ops : forall s phi theta,
  congruent (b_phi s) phi -> congruent (b_theta s) theta ->
  congruent (b_phi (run snell_inv s ops)) (fst (last_requested snell_inv s ops phi theta)) /\
  congruent (b_theta (run snell_inv s ops)) (snd (last_requested snell_inv s ops phi theta)).
Proof.
  induction ops as [| o rest IH]; intros s phi theta Hp Ht; cbn [run fold_left last_requested fst snd].
  - split; assumption.
  - apply IH.
    + pose proof (step_phi s o) as H. destruct (requested_phi s o); [exact H | rewrite H; exact Hp].
    + pose proof (step_theta s o) as H. destruct (requested_theta snell_inv s o); [exact H | rewrite H; exact Ht].
Qed.

(* fields a step must leave alone *)
Theorem step_frame s o :
  (match o with SetVacuumWavelength _ | SetFrequency _ => True | _ => b_frequency (step snell_inv s o) = b_frequency s end) /\
  (match o with SetPolarization _ | WithPolarization _ => True | _ => b_polarization (step snell_inv s o) = b_polarization s end) /\
  (match o with SetWaist _ => True | _ => b_waist (step snell_inv s o) = b_waist s end).
Proof.
  destruct o; cbn [step];
    rewrite ?set_phi_nf, ?set_theta_internal_nf, ?set_theta_external_nf, ?set_angles_nf, ?pump_from_beam_nf;
    repeat split; reflexivity.
Qed.

(* a pump converted from any beam points along z *)
Theorem pump_points_along_z s :
  b_direction (step snell_inv s IntoPump) = (0, 0, 1) /\ b_phi (step snell_inv s IntoPump) = 0 /\
  b_theta (step snell_inv s IntoPump) = 0.
Proof. cbn [step]. rewrite pump_from_beam_nf. cbn. repeat split. Qed.
End Machine.

Lemma new_congruent p phi theta l w :
  congruent (b_phi (beam_new_gen p phi theta l w)) phi /\ congruent (b_theta (beam_new_gen p phi theta l w)) theta.
Proof. rewrite beam_new_nf. cbn [b_phi b_theta]. split; [apply norm_u_congr | apply norm_s_congr]. Qed.
