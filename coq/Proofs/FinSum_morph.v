(* The Q instance of the parametric definitions computes the R instance: Q2R is a homomorphism of [Ops]
   (division only where the divisor's image is non-zero), hence commutes with every generic definition. *)
From Coq Require Import Reals Lra Lia QArith Qreals List.
From SpdVerif Require Import Model.FinSum.

Record OpsMorph {A B} (phi : A -> B) (oa : Ops A) (ob : Ops B) : Prop := {
  m0 : phi (o0 oa) = o0 ob;
  m1 : phi (o1 oa) = o1 ob;
  madd : forall x y, phi (oadd oa x y) = oadd ob (phi x) (phi y);
  mmul : forall x y, phi (omul oa x y) = omul ob (phi x) (phi y);
  msub : forall x y, phi (osub oa x y) = osub ob (phi x) (phi y);
  mopp : forall x, phi (oopp oa x) = oopp ob (phi x);
  mdiv : forall x y, phi y <> o0 ob -> phi (odiv oa x y) = odiv ob (phi x) (phi y) }.

Lemma Q2R_Qred q : Q2R (Qred q) = Q2R q.
Proof. apply Qeq_eqR, Qred_correct. Qed.

Lemma Q2R_morph : OpsMorph Q2R QOps ROps.
Proof.
  constructor; cbn [QOps ROps o0 o1 oadd omul osub oopp odiv]; intros; rewrite ?Q2R_Qred.
  - unfold Q2R; cbn; lra.
  - unfold Q2R; cbn; lra.
  - apply Q2R_plus.
  - apply Q2R_mult.
  - apply Q2R_minus.
  - apply Q2R_opp.
  - apply Q2R_div. intros Hy. apply H. rewrite (Qeq_eqR _ _ Hy). unfold Q2R; cbn; lra.
Qed.

Section Morph.
  Context {A B : Type} (phi : A -> B) (oa : Ops A) (ob : Ops B) (Hm : OpsMorph phi oa ob).

  Definition cmap (a : cx A) : cx B := (phi (fst a), phi (snd a)).

  Lemma gsum_morph n f : phi (gsum oa n f) = gsum ob n (fun k => phi (f k)).
  Proof.
    induction n as [|n IH]; cbn [gsum]; [apply (m0 _ _ _ Hm)|].
    rewrite (madd _ _ _ Hm), IH. reflexivity.
  Qed.

  Lemma gsum_ext_gen n (f g : nat -> B) : (forall k, (k < n)%nat -> f k = g k) -> gsum ob n f = gsum ob n g.
  Proof.
    induction n as [|n IH]; intros H; cbn [gsum]; [reflexivity|].
    rewrite IH, (H n) by (intros; try apply H; lia). reflexivity.
  Qed.

  Lemma otwo_morph : phi (otwo oa) = otwo ob.
  Proof. unfold otwo. rewrite (madd _ _ _ Hm), (m1 _ _ _ Hm). reflexivity. Qed.

  Lemma ofour_morph : phi (ofour oa) = ofour ob.
  Proof. unfold ofour. rewrite (madd _ _ _ Hm), otwo_morph. reflexivity. Qed.

  Lemma cmul_morph a b : cmap (cmul oa a b) = cmul ob (cmap a) (cmap b).
  Proof.
    unfold cmap, cmul; cbn [fst snd].
    rewrite (msub _ _ _ Hm), (madd _ _ _ Hm), !(mmul _ _ _ Hm). reflexivity.
  Qed.

  Lemma csub_morph a b : cmap (csub oa a b) = csub ob (cmap a) (cmap b).
  Proof. unfold cmap, csub; cbn [fst snd]. rewrite !(msub _ _ _ Hm). reflexivity. Qed.

  Lemma cadd_morph a b : cmap (cadd oa a b) = cadd ob (cmap a) (cmap b).
  Proof. unfold cmap, cadd; cbn [fst snd]. rewrite !(madd _ _ _ Hm). reflexivity. Qed.

  Lemma cconj_morph a : cmap (cconj oa a) = cconj ob (cmap a).
  Proof. unfold cmap, cconj; cbn [fst snd]. rewrite (mopp _ _ _ Hm). reflexivity. Qed.

  Lemma cnorm2_morph a : phi (cnorm2 oa a) = cnorm2 ob (cmap a).
  Proof. unfold cmap, cnorm2; cbn [fst snd]. rewrite (madd _ _ _ Hm), !(mmul _ _ _ Hm). reflexivity. Qed.

  Lemma cone_morph : cmap (cone oa) = cone ob.
  Proof. unfold cmap, cone; cbn [fst snd]. rewrite (m0 _ _ _ Hm), (m1 _ _ _ Hm). reflexivity. Qed.
End Morph.

Lemma nth_map_default {A B} (phi : A -> B) d l k : phi (nth k l d) = nth k (map phi l) (phi d).
Proof. symmetry. apply map_nth. Qed.

Lemma arr_map {A B} (phi : A -> B) d l k : phi (arr d l k) = arr (phi d) (map phi l) k.
Proof. unfold arr. apply nth_map_default. Qed.

Lemma Q2R_0 : Q2R 0 = 0%R.
Proof. unfold Q2R; cbn; lra. Qed.

Lemma Q2R_1 : Q2R 1 = 1%R.
Proof. unfold Q2R; cbn; lra. Qed.
