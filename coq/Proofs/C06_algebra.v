(* C05/C06 — the algebra of the integrand's exponent, for arbitrary complex coefficients A1 … A10.
   [pm_expo] is literally the argument of `.exp()` in get_pm_integrand (Proofs/C06_swap.v: numerator_expo shows the generated
   definition is this function of the generated A's, by conversion). *)
From Coq Require Import Reals Lra.
From Coquelicot Require Import Coquelicot.
From SpdVerif Require Import Base.CxPM.
Local Open Scope C_scope.

Lemma RtoC_4 : RtoC 4 = (1 + 1 + 1 + 1)%C.
Proof. rewrite <- !RtoC_plus. f_equal; try ring. Qed.
Lemma RtoC_m2 : RtoC (-2) = (- (1 + 1))%C.
Proof. rewrite <- !RtoC_plus, <- RtoC_opp. f_equal; try ring. Qed.
Lemma RtoC_4_neq_0 : RtoC 4 <> RtoC 0.
Proof. intro H. apply (f_equal fst) in H. cbn in H. lra. Qed.

Lemma frac1 (a x t d n c : C) : a <> RtoC 0 -> d <> RtoC 0 -> x * d + t = c * a * n -> / a * (x + t / d) = c * n / d.
Proof.
  intros Ha Hd H. replace t with (c * a * n - x * d) by (rewrite <- H; ring). field. split; assumption.
Qed.

Lemma frac2 (a s t d n c : C) : a <> RtoC 0 -> d <> RtoC 0 -> d + t = c * a * n -> / a * s * (1 + t / d) = c * s * n / d.
Proof.
  intros Ha Hd H. replace t with (c * a * n - d) by (rewrite <- H; ring). field. split; assumption.
Qed.

(* the argument of exp in get_pm_integrand *)
Definition pm_expo (A1 A2 A3 A4 A5 A6 A7 A8 A9 A10 : C) : C :=
  Cdiv (Cminus (Cminus (Cmult (RtoC 4) A10)
     (Cmult (Cinv A1) (Cplus (Cmult A5 A5) (Cdiv (Cmult (Cplus (Cmult (Cmult (RtoC (- 2)) A1) A7) (Cmult A5 A8)) (Cplus (Cmult (Cmult (RtoC (- 2)) A1) A7) (Cmult A5 A8))) (Cminus (Cmult (Cmult (RtoC 4) A1) A3) (Cmult A8 A8))))))
     (Cmult (Cmult (Cinv A2) (Cmult A6 A6)) (Cplus (RtoC 1) (Cdiv (Cmult (Cplus (Cmult (RtoC (- 2)) A2) A9) (Cplus (Cmult (RtoC (- 2)) A2) A9)) (Cminus (Cmult (Cmult (RtoC 4) A2) A4) (Cmult A9 A9))))))
   (RtoC 4).

(* denom1 = pm_det A1 A3 A8, denom2 = pm_det A2 A4 A9 *)
Definition pm_det (A1 A3 A8 : C) : C := Cminus (Cmult (Cmult (RtoC 4) A1) A3) (Cmult A8 A8).

Lemma pm_det_sym A1 A3 A8 : pm_det A3 A1 A8 = pm_det A1 A3 A8.
Proof. unfold pm_det. ring. Qed.

(* the two identities of DESIGN §6 C06 applied: the exponent in manifestly exchange-symmetric form *)
Definition pm_expo_sym (A1 A2 A3 A4 A5 A6 A7 A8 A9 A10 : C) : C :=
  (RtoC 4 * A10 - RtoC 4 * (A3 * (A5 * A5) + A1 * (A7 * A7) - A5 * A7 * A8) / pm_det A1 A3 A8
    - RtoC 4 * (A6 * A6) * (A2 + A4 - A9) / pm_det A2 A4 A9) / RtoC 4.

Lemma pm_expo_reduced (A1 A2 A3 A4 A5 A6 A7 A8 A9 A10 : C) :
  A1 <> RtoC 0 -> A2 <> RtoC 0 -> pm_det A1 A3 A8 <> RtoC 0 -> pm_det A2 A4 A9 <> RtoC 0 ->
  pm_expo A1 A2 A3 A4 A5 A6 A7 A8 A9 A10 = pm_expo_sym A1 A2 A3 A4 A5 A6 A7 A8 A9 A10.
Proof.
  intros H1 H2 Hd1 Hd2. unfold pm_expo, pm_expo_sym. fold (pm_det A1 A3 A8). fold (pm_det A2 A4 A9).
  rewrite (frac1 A1 _ _ _ (A3 * (A5 * A5) + A1 * (A7 * A7) - A5 * A7 * A8) (RtoC 4)); auto.
  2:{ unfold pm_det. rewrite RtoC_4, RtoC_m2. ring. }
  rewrite (frac2 A2 _ _ _ (A2 + A4 - A9) (RtoC 4)); auto.
  unfold pm_det. rewrite RtoC_4, RtoC_m2. ring.
Qed.

Lemma pm_expo_sym_exchange (A1 A2 A3 A4 A5 A6 A7 A8 A9 A10 : C) :
  pm_expo_sym A3 A4 A1 A2 A7 A6 A5 A8 A9 A10 = pm_expo_sym A1 A2 A3 A4 A5 A6 A7 A8 A9 A10.
Proof.
  unfold pm_expo_sym. rewrite (pm_det_sym A1 A3 A8), (pm_det_sym A2 A4 A9).
  replace (A1 * (A7 * A7) + A3 * (A5 * A5) - A7 * A5 * A8) with (A3 * (A5 * A5) + A1 * (A7 * A7) - A5 * A7 * A8) by ring.
  replace (A4 + A2 - A9) with (A2 + A4 - A9) by ring. reflexivity.
Qed.

(* exchange symmetry of the exponent: signal coefficients (A1, A2, A5) <-> idler coefficients (A3, A4, A7) *)
Lemma pm_expo_exchange (A1 A2 A3 A4 A5 A6 A7 A8 A9 A10 : C) :
  A1 <> RtoC 0 -> A2 <> RtoC 0 -> A3 <> RtoC 0 -> A4 <> RtoC 0 ->
  pm_det A1 A3 A8 <> RtoC 0 -> pm_det A2 A4 A9 <> RtoC 0 ->
  pm_expo A3 A4 A1 A2 A7 A6 A5 A8 A9 A10 = pm_expo A1 A2 A3 A4 A5 A6 A7 A8 A9 A10.
Proof.
  intros H1 H2 H3 H4 Hd1 Hd2.
  rewrite !pm_expo_reduced; auto; try (rewrite pm_det_sym; assumption).
  apply pm_expo_sym_exchange.
Qed.
