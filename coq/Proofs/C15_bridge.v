(* C15 — every tree rayon's bridge builds, for any thread count, any min_len and ANY steal pattern, is bridge-shaped (hence
   admissible for both producers); the fuel of the model never runs out before the length does. *)
From Coq Require Import List Arith Bool Lia.
From SpdVerif Require Import Model.Grid Model.Producer Model.C15_Bridge Proofs.C15_generic.
Import ListNotations.

Lemma length_try_true min threads len splits stolen s' :
  length_try min threads len splits stolen = (true, s') -> min <= len / 2.
Proof.
  unfold length_try. destruct (Nat.leb_spec min (len / 2)) as [H|H]; [intros _; exact H | discriminate].
Qed.

Lemma bridge_tree_shaped : forall fuel min threads steal path len splits migrated, 1 <= min ->
  bridge_shaped (bridge_tree fuel min threads steal path len splits migrated) len.
Proof.
  induction fuel as [|f IH]; intros min threads steal path len splits migrated Hmin; cbn [bridge_tree]; [exact I|].
  destruct (length_try min threads len splits migrated) as [go s'] eqn:E. destruct go; [|exact I].
  apply length_try_true in E. cbn [bridge_shaped]. repeat split; try lia; apply IH; exact Hmin.
Qed.

(* more fuel than length is never used: the model's answer does not depend on the fuel *)
Lemma bridge_tree_fuel : forall fuel fuel' min threads steal path len splits migrated, 1 <= min ->
  len < fuel -> len < fuel' ->
  bridge_tree fuel min threads steal path len splits migrated = bridge_tree fuel' min threads steal path len splits migrated.
Proof.
  induction fuel as [|f IH]; intros fuel' min threads steal path len splits migrated Hmin H1 H2; [lia|].
  destruct fuel' as [|f']; [lia|]. cbn [bridge_tree].
  destruct (length_try min threads len splits migrated) as [go s'] eqn:E. destruct go; [|reflexivity].
  apply length_try_true in E.
  assert (Hh2 : 1 <= len / 2) by lia.
  assert (Hpos : 0 < len) by (destruct len; [cbn in Hh2; lia | lia]).
  assert (Hh : len / 2 < len) by (apply Nat.div_lt; lia).
  f_equal; apply IH; try exact Hmin; lia.
Qed.

Theorem bridge_shaped_any min_len threads steal len : bridge_shaped (bridge min_len threads steal len) len.
Proof. unfold bridge. apply bridge_tree_shaped. lia. Qed.

Theorem bridge_admissible_any min_len threads steal len :
  admissible 1 (bridge min_len threads steal len) len /\ admissible 0 (bridge min_len threads steal len) len.
Proof. apply bridge_admissible. apply bridge_shaped_any. Qed.

(* sanity: one thread, nothing stolen: exactly one split at len/2 (splits: 1 -> 0) *)
Example bridge_one_thread : bridge 1 1 (fun _ => false) 10 = Node 5 Leaf Leaf.
Proof. reflexivity. Qed.
Example bridge_four_threads : bridge 1 4 (fun _ => false) 10 = Node 5 (Node 2 (Node 1 Leaf Leaf) (Node 1 Leaf Leaf)) (Node 2 (Node 1 Leaf Leaf) (Node 1 Leaf Leaf)).
Proof. reflexivity. Qed.
(* a stolen right half of a 1-thread run splits again *)
Example bridge_stolen : bridge 1 1 (fun p => match p with [true] => true | _ => false end) 10 = Node 5 Leaf (Node 2 (Node 1 Leaf Leaf) (Node 1 Leaf Leaf)).
Proof. reflexivity. Qed.
