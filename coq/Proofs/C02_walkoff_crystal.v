(* C02 — the real-arithmetic walk-off clause for the built-in uniaxial crystals: generated index_along over the generated
   crystal tables (Proofs/Compose_index.v), index range 1 < n < 4 and n_x = n_y from C01. *)
From Coq Require Import Reals Lra.
From SpdVerif Require Import Base.Rx Spec.CrystalTypes Spec.Published Gen.Crystals Proofs.Sellmeier Proofs.C01_all.
From SpdVerif Require Import Model.Optics Model.Fresnel Gen.Fresnel Proofs.C02_index Proofs.C02_frame Proofs.C02_gen
  Proofs.C02_walkoff Proofs.C02_walkoff_bound Proofs.Compose_index.
Local Open Scope R_scope.

(* which polarization label carries the direction-dependent index, from the declared optical class *)
Definition dependent_polarization (a : OpticAxisType) : option polarization :=
  match a with
  | NegativeUniaxial => Some Extraordinary
  | PositiveUniaxial => Some Ordinary
  | _ => None
  end.

Theorem walkoff_1e6_real_crystal c l T phi d theta p :
  in_window c l -> temp_ok T -> unit_vec d -> Rabs theta <= PI / 2 ->
  dependent_polarization (meta_axis (get_meta c)) = Some p ->
  Rabs (walkoff_gen (fun t => crystal_index c l T t phi d p) theta -
        walkoff_uniaxial_general (nx_of c l T) (nz_of c l T) d theta) <= 1e-6 /\
  walkoff_gen (fun t => crystal_index c l T t phi d (match p with Ordinary => Extraordinary | Extraordinary => Ordinary end)) theta = 0.
Proof.
  intros Hw HT Hd Hth Hp.
  destruct (principal_bounds c l T Hw HT) as ((Hx1 & Hx4) & (Hy1 & Hy4) & (Hz1 & Hz4)).
  pose proof (class c l T Hw HT) as Hc. fold (nx_of c l T) (ny_of c l T) (nz_of c l T) in Hc.
  unfold crystal_index.
  destruct (meta_axis (get_meta c)); cbn [dependent_polarization class_ok] in Hp, Hc; try discriminate;
    injection Hp as <-; destruct Hc as [Exy Hord]; rewrite <- Exy;
    (split;
     [ apply (walkoff_1e6_real (nx_of c l T) (nz_of c l T) phi d theta); try assumption; try lra;
       unfold direction_dependent; first [left; split; [lra | reflexivity] | right; split; [lra | reflexivity]]
     | apply (walkoff_1e6_real (nx_of c l T) (nz_of c l T) phi d theta); try assumption; try lra;
       unfold direction_independent; first [left; split; [lra | reflexivity] | right; split; [lra | reflexivity]] ]).
Qed.
