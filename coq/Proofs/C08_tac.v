(* Tactics used by the generated correspondence cases of C08 (coq/Cases/, never committed). *)
From Coq Require Import Reals Bool Lra.
From Coquelicot Require Import Coquelicot.
From Interval Require Import Tactic.
From SpdVerif Require Import Base.Rx Gen.Efficiencies Spec.Overlap Proofs.C08_overlap.
Local Open Scope R_scope.

Ltac decide_eqs :=
  repeat match goal with
  | |- context [Req_EM_T ?a 0] => destruct (Req_EM_T a 0) as [?E|?E]; try (exfalso; lra)
  end;
  cbn [orb];
  repeat match goal with
  | |- context [bool_dec ?a ?b] => destruct (bool_dec a b) as [?F|?F]; try discriminate; try (exfalso; apply F; reflexivity)
  end.

Ltac case_eff :=
  unfold efficiencies_from_counts; cbn [eff_symmetric eff_signal eff_idler]; decide_eqs;
  repeat split; first [reflexivity | (unfold Rdiv; ring) | interval with (i_prec 80)].

(* the oracle's value of the walk-off factor F against the Spec definition (a Riemann integral), by verified quadrature *)
Ltac case_F := rewrite F_walkoff_eq by lra; integral with (i_fuel 400, i_prec 60).

Ltac case_Rint := unfold R_integrand, R_exponent, walk_d; interval with (i_prec 80).
