(* C09 / C10 — the Pythagorean-phase twins compute the real-valued models at the delay tau = m0 phi0 / h on arithmetic axes. *)
From Coq Require Import Reals Lra Lia Arith ZArith QArith Qreals List.
From SpdVerif Require Import Model.FinSum Model.Hom Model.Hom2 Model.C10_Pyth Proofs.FinSum_lemmas Proofs.FinSum_morph
  Proofs.Cx_lemmas Proofs.C09_range Proofs.C09_exec Proofs.C10_exec.
Local Open Scope R_scope.

Lemma onat_INR n : onat ROps n = INR n.
Proof. induction n as [|n IH]; [reflexivity|]. cbn [onat]. rewrite IH, S_INR. reflexivity. Qed.

Lemma cos_phi0 : cos phi0 = 3 / 5.
Proof.
  unfold phi0. rewrite cos_atan. replace (1 + (4 / 3)²) with ((5 / 3)²) by (unfold Rsqr; field).
  rewrite sqrt_Rsqr by lra. field.
Qed.

Lemma sin_phi0 : sin phi0 = 4 / 5.
Proof.
  unfold phi0. rewrite sin_atan. replace (1 + (4 / 3)²) with ((5 / 3)²) by (unfold Rsqr; field).
  rewrite sqrt_Rsqr by lra. field.
Qed.

Lemma pyth_base_R : pyth_base ROps = cpolar 1 phi0.
Proof.
  unfold pyth_base, cpolar. rewrite cos_phi0, sin_phi0, !onat_INR. cbn [ROps odiv]. simpl INR.
  apply injective_projections; cbn [fst snd]; field.
Qed.

Lemma cpow_polar a n : cpow ROps (cpolar 1 a) n = cpolar 1 (INR n * a).
Proof.
  induction n as [|n IH].
  - cbn [cpow]. simpl INR. rewrite Rmult_0_l, cpolar_0. reflexivity.
  - cbn [cpow]. rewrite IH, cmul_polar, S_INR. f_equal; ring.
Qed.

Lemma pyth_R m : pyth ROps m = cpolar 1 (IZR m * phi0).
Proof.
  destruct m as [|p|p]; unfold pyth.
  - rewrite Rmult_0_l, cpolar_0. reflexivity.
  - rewrite pyth_base_R, cpow_polar, INR_IPR. reflexivity.
  - rewrite pyth_base_R, cpow_polar, cconj_polar, INR_IPR. f_equal.
    change (IZR (Z.neg p)) with (- IZR (Z.pos p)). unfold IZR at 1. ring.
Qed.

(* ---- the rational instance maps to the real one *)
Section Morph.
  Context {A B : Type} (phi : A -> B) (oa : Ops A) (ob : Ops B) (Hm : OpsMorph phi oa ob).

  Lemma onat_morph n : phi (onat oa n) = onat ob n.
  Proof. induction n as [|n IH]; cbn [onat]; [apply (m0 _ _ _ Hm)|]. rewrite (madd _ _ _ Hm), IH, (m1 _ _ _ Hm). reflexivity. Qed.

  Lemma cpow_morph z n : cmap phi (cpow oa z n) = cpow ob (cmap phi z) n.
  Proof.
    induction n as [|n IH]; cbn [cpow]; [apply (cone_morph phi oa ob Hm)|].
    rewrite (cmul_morph phi oa ob Hm), IH. reflexivity.
  Qed.

  Lemma pyth_morph m : onat ob 5 <> o0 ob -> cmap phi (pyth oa m) = pyth ob m.
  Proof.
    intros H5.
    assert (Eb : cmap phi (pyth_base oa) = pyth_base ob).
    { unfold pyth_base, cmap. cbn [fst snd]. rewrite !(mdiv _ _ _ Hm) by (rewrite onat_morph; exact H5). rewrite !onat_morph. reflexivity. }
    destruct m; unfold pyth.
    - apply (cone_morph phi oa ob Hm).
    - rewrite cpow_morph, Eb. reflexivity.
    - rewrite (cconj_morph phi oa ob Hm), cpow_morph, Eb. reflexivity.
  Qed.
End Morph.

Lemma onat5_R : onat ROps 5 <> o0 ROps.
Proof. rewrite onat_INR. simpl. lra. Qed.

Lemma pyth_Q2R m : cmap Q2R (pyth QOps m) = cpolar 1 (IZR m * phi0).
Proof. rewrite (pyth_morph Q2R QOps ROps Q2R_morph m onat5_R). apply pyth_R. Qed.

(* ---- arithmetic axes *)
Lemma axis_value_arith a h n s : (1 < n)%nat -> axis_value ROps a (a + INR (n - 1) * h) n s = a + INR s * h.
Proof.
  intros Hn. unfold axis_value, lerp. replace (Nat.ltb 1 n) with true by (symmetry; apply Nat.ltb_lt; exact Hn).
  rewrite !onat_INR. cbn [ROps o1 oadd omul osub odiv].
  assert (INR (n - 1) <> 0) by (apply not_0_INR; lia). field. assumption.
Qed.

Section Grid.
  Variables (n : nat) (x0 h : R) (k r m0 : Z).
  Hypothesis Hn : (1 < n)%nat.
  Hypothesis Hh : h <> 0.
  Let g := axes_grid (pyth_ls n x0 h) (pyth_li n x0 h k r) n.
  Let dt := pyth_delay m0 h.

  Lemma pyth_grid_ws idx : grid_ws ROps g idx = x0 + IZR (zs n idx) * h.
  Proof.
    unfold grid_ws, g, axes_grid, pyth_ls, zs. cbn [g_x0 g_x1 g_cols fst snd].
    rewrite axis_value_arith by exact Hn. rewrite INR_IZR_INZ. reflexivity.
  Qed.

  Lemma pyth_grid_wi idx : grid_wi ROps g idx = x0 + IZR k * h + IZR r * (IZR (zi n idx) * h).
  Proof.
    unfold grid_wi, g, axes_grid, pyth_li, zi. cbn [g_y0 g_y1 g_cols g_rows fst snd].
    replace (x0 + IZR k * h + IZR r * (INR (n - 1) * h)) with (x0 + IZR k * h + INR (n - 1) * (IZR r * h)) by ring.
    rewrite axis_value_arith by exact Hn. rewrite INR_IZR_INZ. ring.
  Qed.

  Lemma pyth_angle (z : Z) (d : R) : d = IZR z * h -> dt * d = IZR (m0 * z) * phi0.
  Proof. intros ->. unfold dt, pyth_delay. rewrite mult_IZR. field. exact Hh. Qed.

  Lemma pyth_hom_phase idx : hom_phase g dt idx = cmap Q2R (pyth_phase_hom QOps n m0 k r idx).
  Proof.
    unfold hom_phase, pyth_phase_hom. rewrite pyth_Q2R. f_equal. rewrite Rmult_comm.
    apply pyth_angle. rewrite pyth_grid_ws, pyth_grid_wi. rewrite minus_IZR, plus_IZR, mult_IZR. ring.
  Qed.

  Lemma pyth_ts_phases i1 i2 :
    ts_phase_ss g g dt i1 i2 = cmap Q2R (pyth_phase_ss QOps n m0 i1 i2) /\
    ts_phase_ii g g dt i1 i2 = cmap Q2R (pyth_phase_ii QOps n m0 r i1 i2) /\
    ts_phase_si g g dt i1 i2 = cmap Q2R (pyth_phase_si QOps n m0 k r i1 i2).
  Proof.
    unfold ts_phase_ss, ts_phase_ii, ts_phase_si, pyth_phase_ss, pyth_phase_ii, pyth_phase_si. rewrite !pyth_Q2R.
    repeat split; f_equal; apply pyth_angle; rewrite ?pyth_grid_ws, ?pyth_grid_wi;
      rewrite ?mult_IZR, ?minus_IZR, ?plus_IZR, ?mult_IZR, ?minus_IZR; ring.
  Qed.

  (* hom_rate at tau = m0 phi0 / h *)
  Theorem hom_rate_Qpyth_correct (f gs : list (cx Q)) :
    jsi_norm ROps (n * n) (RC f) <> 0 ->
    Q2R (hom_rate_Qpyth n f gs m0 k r) = hom_rate g (RC f) (RC gs) dt None.
  Proof.
    intros HN. unfold hom_rate_Qpyth, hom_rate.
    assert (GL : grid_len g = (n * n)%nat) by reflexivity. rewrite GL.
    rewrite (hom_rate_gen_morph Q2R QOps ROps Q2R_morph _ _ _ _ _ otwo_R_neq) by (rewrite jsi_norm_Q_correct; exact HN).
    rewrite jsi_norm_Q_correct.
    apply hom_rate_gen_ext; intros idx _; try apply RC_arr. symmetry. apply pyth_hom_phase.
  Qed.

  (* the three two-source rates at delta_t = m0 phi0 / h, both ranges equal to the grid g *)
  Theorem ts_rates_Qpyth_correct (l : list (list (cx Q))) :
    jsi_norm ROps (n * n) (first_s1_i1 (ts_R l)) * jsi_norm ROps (n * n) (second_s2_i2 (ts_R l)) <> 0 ->
    let '(ss, ii, si) := ts_rates_Qpyth n l m0 k r in
    Q2R ss = ts_rate_ss ROps n (ts_R l) (ts_phase_ss g g dt) /\
    Q2R ii = ts_rate_ii ROps n (ts_R l) (ts_phase_ii g g dt) /\
    Q2R si = ts_rate_si ROps n (ts_R l) (ts_phase_si g g dt).
  Proof.
    intros HN. unfold ts_rates_Qpyth, ts_rate_ss, ts_rate_ii, ts_rate_si.
    assert (PE : forall (u : nat -> nat -> cx Q) (v : nat -> nat -> cx R), (forall i j, v i j = cmap Q2R (u i j)) ->
                 (fun i j => cmap Q2R (u i j)) = v).
    { intros u v H. apply FunctionalExtensionality.functional_extensionality. intros i.
      apply FunctionalExtensionality.functional_extensionality. intros j. symmetry. apply H. }
    repeat split.
    - rewrite (ts_rate_morph Q2R QOps ROps Q2R_morph n _ _ (ts_b_ss ROps n (ts_R l)) _ (ts_b_ss_morph Q2R QOps ROps Q2R_morph n _) ofour_R_neq HN).
      rewrite (PE _ (ts_phase_ss g g dt)); [reflexivity|]. intros i j. apply pyth_ts_phases.
    - rewrite (ts_rate_morph Q2R QOps ROps Q2R_morph n _ _ (ts_b_ii ROps n (ts_R l)) _ (ts_b_ii_morph Q2R QOps ROps Q2R_morph n _) ofour_R_neq HN).
      rewrite (PE _ (ts_phase_ii g g dt)); [reflexivity|]. intros i j. apply pyth_ts_phases.
    - rewrite (ts_rate_morph Q2R QOps ROps Q2R_morph n _ _ (ts_b_si ROps n (ts_R l)) _ (ts_b_si_morph Q2R QOps ROps Q2R_morph n _) ofour_R_neq HN).
      rewrite (PE _ (ts_phase_si g g dt)); [reflexivity|]. intros i j. apply pyth_ts_phases.
  Qed.
End Grid.
