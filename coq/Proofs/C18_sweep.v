(* C18 — the generated SPDCIter (try_new, into_iter, jsi_values, jsi_values_normalized; Gen/Sweep.v) over the generated Iterator2D
   (Gen/Grid.v, via Model.Grid.collect2d and C14's collect2d_seq / steps2d_value_rc): nx * ny setups in row-major order, first
   parameter fastest, first setter applied first; spectrum values are the kernel mapped over those setups. *)
From Coq Require Import Reals Lra Lia List Arith String.
From SpdVerif Require Import Base.Rx Base.PolingBase Gen.Poling Gen.Sweep Spec.SweepPaths Model.Sweep.
From SpdVerif Require Base.GridOps Gen.Grid Model.Grid Proofs.C14_steps Proofs.C14_iter.
Import ListNotations.
Local Open Scope R_scope.

Notation Rops := Base.GridOps.Rops.
Notation grid_value := (Gen.Grid.steps2d_value Rops).
Notation grid_seq := (Model.Grid.seq2d Rops).

(* the grid the generated Iterator2D delivers, in delivery order (C14) *)
Lemma items_are_grid x0 x1 nx y0 y1 ny :
  Model.Grid.collect2d Rops x0 x1 nx y0 y1 ny = map (grid_value x0 x1 nx y0 y1 ny) (seq 0 (nx * ny)).
Proof. rewrite Proofs.C14_iter.collect2d_seq. reflexivity. Qed.

(* the axis coordinates of the generated Steps2D::value are the property's evenly spaced values *)
Lemma xcoord_axis a b n i : (i < n)%nat -> Proofs.C14_steps.xcoord Rops a b n i = axis_value a b n i.
Proof.
  intros Hi.
  unfold Proofs.C14_steps.xcoord, Gen.Grid.steps2d_value, axis_value. cbn [fst GridOps.o_add GridOps.o_sub GridOps.o_mul GridOps.o_div GridOps.o_nat GridOps.o_z Rops].
  rewrite (Nat.mod_small i n Hi).
  destruct (lt_dec 1 n) as [H | H].
  - apply Nat.ltb_lt in H. rewrite H. reflexivity.
  - apply Nat.ltb_nlt in H. rewrite H. reflexivity.
Qed.

Lemma ycoord_axis nx a b n j : Proofs.C14_steps.ycoord Rops nx a b n j = axis_value a b n j.
Proof.
  unfold Proofs.C14_steps.ycoord, Gen.Grid.steps2d_value, axis_value. cbn [snd GridOps.o_add GridOps.o_sub GridOps.o_mul GridOps.o_div GridOps.o_nat GridOps.o_z Rops].
  rewrite Nat.div_1_r.
  destruct (lt_dec 1 n) as [H | H].
  - apply Nat.ltb_lt in H. rewrite H. reflexivity.
  - apply Nat.ltb_nlt in H. rewrite H. reflexivity.
Qed.

(* linear index j * nx + i  <->  (value i of the first axis, value j of the second) *)
Lemma value_row_major x0 x1 nx y0 y1 ny i j : (i < nx)%nat ->
  grid_value x0 x1 nx y0 y1 ny (j * nx + i) = (axis_value x0 x1 nx i, axis_value y0 y1 ny j).
Proof.
  intros Hi. rewrite (Proofs.C14_steps.steps2d_value_rc Rops) by exact Hi. now rewrite xcoord_axis, ycoord_axis by exact Hi.
Qed.

Lemma index_decompose nx ny k : (k < nx * ny)%nat ->
  exists i j, (i < nx)%nat /\ (j < ny)%nat /\ k = (j * nx + i)%nat.
Proof.
  intros Hk. assert (Hnx : (nx <> 0)%nat) by (intro; subst; lia).
  exists (k mod nx)%nat, (k / nx)%nat. split; [now apply Nat.mod_upper_bound|]. split.
  - apply Nat.div_lt_upper_bound; [exact Hnx | lia].
  - rewrite (Nat.div_mod k nx Hnx) at 1. lia.
Qed.

Lemma axis_first a b n : axis_value a b n 0 = a.
Proof. unfold axis_value. destruct (lt_dec 1 n); cbv zeta; simpl INR; unfold Rdiv; ring. Qed.

Lemma axis_last a b n : (1 < n)%nat -> axis_value a b n (n - 1) = b.
Proof.
  intros Hn. unfold axis_value. destruct (lt_dec 1 n); [|contradiction]. cbv zeta.
  assert (0 < INR (n - 1)) by (apply lt_0_INR; lia). field. lra.
Qed.

Lemma axis_single a b i : axis_value a b 1 i = a.
Proof. unfold axis_value. destruct (lt_dec 1 1); [lia|]. cbv zeta. ring. Qed.

Lemma axis_step a b n i : (1 < n)%nat -> axis_value a b n (S i) - axis_value a b n i = (b - a) / INR (n - 1).
Proof.
  intros Hn. unfold axis_value. destruct (lt_dec 1 n); [|contradiction]. cbv zeta.
  assert (0 < INR (n - 1)) by (apply lt_0_INR; lia). rewrite S_INR. field. lra.
Qed.

(* ---- SPDCIter::try_new ---- *)
Section TryNew.
Variable snell_internal : beam -> R -> crystal_setup -> R.
Variable compute_sign : beam -> beam -> crystal_setup -> sign.
Notation getter := (get_setter snell_internal compute_sign).

(* accepted iff both paths are known; the first path's setter is the FIRST component, the base is stored unchanged *)
Lemma try_new_spec spdc0 p1 p2 :
  spdc_iter_try_new snell_internal compute_sign spdc0 p1 p2 =
  match getter p1, getter p2 with
  | Some s1, Some s2 => Some (spdc0, (s1, s2))
  | _, _ => None
  end.
Proof. unfold spdc_iter_try_new. destruct (getter p1); destruct (getter p2); reflexivity. Qed.
End TryNew.

(* ---- SPDCIter::into_iter ---- *)
Section Sweep.
Variable base : spdc.
Variables setter1 setter2 : spdc -> R -> spdc.

Lemma setups_are x0 x1 nx y0 y1 ny :
  spdc_iter_into_iter base setter1 setter2 x0 x1 nx y0 y1 ny =
  map (fun k => let v := grid_value x0 x1 nx y0 y1 ny k in setter2 (setter1 base (fst v)) (snd v)) (seq 0 (nx * ny)).
Proof. unfold spdc_iter_into_iter. rewrite items_are_grid, map_map. reflexivity. Qed.

Lemma setups_length x0 x1 nx y0 y1 ny :
  List.length (spdc_iter_into_iter base setter1 setter2 x0 x1 nx y0 y1 ny) = (nx * ny)%nat.
Proof. rewrite setups_are, map_length, seq_length. reflexivity. Qed.

(* setup number j * nx + i: the FIRST setter got value i of the first axis and was applied FIRST, then the second setter *)
Lemma setups_nth x0 x1 nx y0 y1 ny i j d : (i < nx)%nat -> (j < ny)%nat ->
  nth (j * nx + i) (spdc_iter_into_iter base setter1 setter2 x0 x1 nx y0 y1 ny) d =
  setter2 (setter1 base (axis_value x0 x1 nx i)) (axis_value y0 y1 ny j).
Proof.
  intros Hi Hj.
  assert (Hk : (j * nx + i < nx * ny)%nat) by nia.
  rewrite setups_are.
  set (f := fun k => let v := grid_value x0 x1 nx y0 y1 ny k in setter2 (setter1 base (fst v)) (snd v)).
  rewrite (nth_indep _ d (f 0%nat)) by (now rewrite map_length, seq_length).
  rewrite map_nth, seq_nth by exact Hk. unfold f. cbv zeta. cbn [plus].
  rewrite value_row_major by exact Hi. reflexivity.
Qed.

(* ---- jsi_values / jsi_values_normalized ---- *)
Variable jsa_norm_sqr : R -> R -> spdc -> R.
Variable jsi_normalization : R -> R -> spdc -> R.
Variable try_as_optimum : spdc -> option spdc.

(* the raw spectrum value of ONE setup at its own centre frequencies (the expression inside the sweep) *)
Definition centre_value (s : spdc) : R :=
  let j := jsa_norm_sqr (b_frequency (s_signal s)) (b_frequency (s_idler s)) s in
  if Req_EM_T j 0 then 0 else j * jsi_normalization (b_frequency (s_signal s)) (b_frequency (s_idler s)) s.

Lemma values_are x0 x1 nx y0 y1 ny :
  spdc_iter_jsi_values jsa_norm_sqr jsi_normalization base setter1 setter2 x0 x1 nx y0 y1 ny =
  map centre_value (spdc_iter_into_iter base setter1 setter2 x0 x1 nx y0 y1 ny).
Proof.
  unfold spdc_iter_jsi_values. apply map_ext. intros s. unfold centre_value. cbv zeta.
  destruct (Req_EM_T _ 0); [reflexivity|]. unfold Rdiv. rewrite Rinv_1, Rmult_1_r. reflexivity.
Qed.

Lemma values_length x0 x1 nx y0 y1 ny :
  List.length (spdc_iter_jsi_values jsa_norm_sqr jsi_normalization base setter1 setter2 x0 x1 nx y0 y1 ny) = (nx * ny)%nat.
Proof. rewrite values_are, map_length. apply setups_length. Qed.

(* swept value number j * nx + i = the value of the individually constructed setup *)
Lemma values_nth x0 x1 nx y0 y1 ny i j d : (i < nx)%nat -> (j < ny)%nat ->
  nth (j * nx + i) (spdc_iter_jsi_values jsa_norm_sqr jsi_normalization base setter1 setter2 x0 x1 nx y0 y1 ny) d =
  centre_value (setter2 (setter1 base (axis_value x0 x1 nx i)) (axis_value y0 y1 ny j)).
Proof.
  intros Hi Hj. rewrite values_are.
  assert (Hk : (j * nx + i < nx * ny)%nat) by nia.
  rewrite (nth_indep _ d (centre_value base)) by (now rewrite map_length, setups_length).
  rewrite map_nth, (setups_nth _ _ _ _ _ _ i j base Hi Hj). reflexivity.
Qed.

(* normalised sweep: defined iff the base can be optimised; then every value is the raw value divided by the reference taken at the
   centre of the OPTIMISED BASE (guard: that reference is not zero) *)
Lemma normalized_none x0 x1 nx y0 y1 ny : try_as_optimum base = None ->
  spdc_iter_jsi_values_normalized jsa_norm_sqr jsi_normalization try_as_optimum base setter1 setter2 x0 x1 nx y0 y1 ny = None.
Proof. intros H. unfold spdc_iter_jsi_values_normalized. now rewrite H. Qed.

Definition reference (opt : spdc) : R :=
  jsa_norm_sqr (b_frequency (s_signal opt)) (b_frequency (s_idler opt)) opt *
  jsi_normalization (b_frequency (s_signal opt)) (b_frequency (s_idler opt)) opt.

Lemma normalized_some x0 x1 nx y0 y1 ny opt : try_as_optimum base = Some opt -> reference opt <> 0 ->
  spdc_iter_jsi_values_normalized jsa_norm_sqr jsi_normalization try_as_optimum base setter1 setter2 x0 x1 nx y0 y1 ny =
  Some (map (fun v => v / reference opt)
          (spdc_iter_jsi_values jsa_norm_sqr jsi_normalization base setter1 setter2 x0 x1 nx y0 y1 ny)).
Proof.
  intros H Hr. unfold spdc_iter_jsi_values_normalized. rewrite H. f_equal.
  rewrite values_are, map_map. apply map_ext. intros s. unfold centre_value, reference in *. cbv zeta.
  destruct (Req_EM_T _ 0); [unfold Rdiv; ring|]. field.
  split; intros E; apply Hr; rewrite E; ring.
Qed.
End Sweep.
