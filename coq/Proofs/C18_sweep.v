(* C18 — a two-parameter sweep yields nx * ny setups in row-major order, first parameter fastest. *)
From Coq Require Import Reals Lra Lia List Arith.
From SpdVerif Require Import Base.Rx Base.PolingBase Gen.Poling Gen.Sweep Spec.SweepPaths Model.Sweep.
Import ListNotations.
Local Open Scope R_scope.

Lemma items_length x0 x1 nx y0 y1 ny : length (sweep_items x0 x1 nx y0 y1 ny) = (nx * ny)%nat.
Proof. unfold sweep_items, steps2d_len. now rewrite map_length, seq_length. Qed.

Lemma items_nth x0 x1 nx y0 y1 ny k d : (k < nx * ny)%nat ->
  nth k (sweep_items x0 x1 nx y0 y1 ny) d = steps2d_value x0 x1 nx y0 y1 ny k.
Proof.
  intros Hk. unfold sweep_items, steps2d_len.
  rewrite (nth_indep _ d (steps2d_value x0 x1 nx y0 y1 ny 0)) by (now rewrite map_length, seq_length).
  rewrite map_nth, seq_nth by exact Hk. reflexivity.
Qed.

(* linear index j * nx + i  <->  (column i of the first parameter, row j of the second) *)
Lemma value_row_major x0 x1 nx y0 y1 ny i j : (i < nx)%nat ->
  steps2d_value x0 x1 nx y0 y1 ny (j * nx + i) = (axis_value x0 x1 nx i, axis_value y0 y1 ny j).
Proof.
  intros Hi. unfold steps2d_value, axis_value. cbv zeta.
  assert (Hm : ((j * nx + i) mod nx = i)%nat).
  { rewrite Nat.add_comm, Nat.mod_add by lia. apply Nat.mod_small. exact Hi. }
  assert (Hd : ((j * nx + i) / nx = j)%nat).
  { rewrite Nat.add_comm, Nat.div_add by lia. rewrite Nat.div_small by exact Hi. reflexivity. }
  rewrite Hm, Hd. reflexivity.
Qed.

Lemma index_decompose nx ny k : (k < nx * ny)%nat ->
  exists i j, (i < nx)%nat /\ (j < ny)%nat /\ k = (j * nx + i)%nat.
Proof.
  intros Hk. assert (Hnx : (nx <> 0)%nat) by (intro; subst; lia).
  exists (k mod nx)%nat, (k / nx)%nat. split; [now apply Nat.mod_upper_bound|]. split.
  - apply Nat.div_lt_upper_bound; [exact Hnx | lia].
  - rewrite (Nat.div_mod k nx Hnx) at 1. lia.
Qed.

Lemma axis_first a b n : axis_value a b n 0 = a.
Proof. unfold axis_value. destruct (lt_dec 1 n); cbv zeta; simpl INR; unfold Rdiv; ring. Qed.

Lemma axis_last a b n : (1 < n)%nat -> axis_value a b n (n - 1) = b.
Proof.
  intros Hn. unfold axis_value. destruct (lt_dec 1 n); [|contradiction]. cbv zeta.
  assert (0 < INR (n - 1)) by (apply lt_0_INR; lia). field. lra.
Qed.

Lemma axis_single a b i : axis_value a b 1 i = a.
Proof. unfold axis_value. destruct (lt_dec 1 1); [lia|]. cbv zeta. ring. Qed.

(* evenly spaced: consecutive values differ by (b - a) / (n - 1) *)
Lemma axis_step a b n i : (1 < n)%nat -> axis_value a b n (S i) - axis_value a b n i = (b - a) / INR (n - 1).
Proof.
  intros Hn. unfold axis_value. destruct (lt_dec 1 n); [|contradiction]. cbv zeta.
  assert (0 < INR (n - 1)) by (apply lt_0_INR; lia). rewrite S_INR. field. lra.
Qed.

Section Sweep.
Variable base : spdc.
Variables setter1 setter2 : spdc -> R -> spdc.

Lemma setups_length items : length (sweep_setups base setter1 setter2 items) = length items.
Proof. unfold sweep_setups. apply map_length. Qed.

Lemma setups_nth x0 x1 nx y0 y1 ny i j d : (i < nx)%nat -> (j < ny)%nat ->
  nth (j * nx + i) (sweep_setups base setter1 setter2 (sweep_items x0 x1 nx y0 y1 ny)) d =
  setter2 (setter1 base (axis_value x0 x1 nx i)) (axis_value y0 y1 ny j).
Proof.
  intros Hi Hj.
  assert (Hk : (j * nx + i < nx * ny)%nat) by nia.
  unfold sweep_setups.
  set (f := fun v : R * R => setter2 (setter1 base (fst v)) (snd v)).
  rewrite (nth_indep _ d (f (0, 0))) by (now rewrite map_length, items_length).
  rewrite map_nth, (items_nth _ _ _ _ _ _ _ (0, 0) Hk), value_row_major by exact Hi.
  reflexivity.
Qed.

Lemma values_nth {A} (jsi : spdc -> A) setups k d d' : (k < length setups)%nat ->
  nth k (sweep_values jsi setups) d' = jsi (nth k setups d).
Proof.
  intros Hk. unfold sweep_values.
  rewrite (nth_indep _ d' (jsi d)) by (now rewrite map_length). apply map_nth.
Qed.

Lemma values_length {A} (jsi : spdc -> A) setups : length (sweep_values jsi setups) = length setups.
Proof. apply map_length. Qed.
End Sweep.
