(* Tactics and helper lemmas used by the generated C13 correspondence cases (coq/Cases/C13, never committed): the generated
   setters / conversions of Gen/Beam.v are evaluated by `interval` on the states and arguments Rust saw. *)
From Coq Require Import Reals Lra ZArith.
From Interval Require Import Tactic.
From SpdVerif Require Import Base.Rx Model.Optics Model.Fresnel Gen.Fresnel Gen.Beam Model.Beam
  Proofs.C13_norm Proofs.C13_beam Proofs.C13_snell.
Local Open Scope R_scope.

(* rem_euclid with the quotient supplied by the case generator *)
Lemma rem_euclid_with x m (k : Z) : IZR k <= x / m < IZR k + 1 -> rem_euclid x m = x - m * IZR k.
Proof. intros H. unfold rem_euclid. rewrite (Rfloor_unique _ k H). reflexivity. Qed.

Lemma norm_u_with x (k : Z) : 0 <= x - 2 * PI * IZR k < 2 * PI -> norm_u x = x - 2 * PI * IZR k.
Proof.
  intros [H0 H1]. unfold norm_u. apply rem_euclid_with. pose proof two_pi_pos as Hp.
  assert (E : x / (2 * PI) = IZR k + (x - 2 * PI * IZR k) / (2 * PI)) by (field; lra).
  rewrite E. split.
  - assert (0 <= (x - 2 * PI * IZR k) / (2 * PI)) by (apply Rmult_le_pos; [lra | left; apply Rinv_0_lt_compat; lra]). lra.
  - assert ((x - 2 * PI * IZR k) / (2 * PI) < 1).
    { apply Rmult_lt_reg_r with (2 * PI); [lra |]. unfold Rdiv. rewrite Rmult_assoc, Rinv_l by lra. lra. }
    lra.
Qed.

Lemma norm_s_with_low x (k : Z) : 0 <= x - 2 * PI * IZR k <= PI -> norm_s x = x - 2 * PI * IZR k.
Proof.
  intros H. pose proof PI_RGT_0. unfold norm_s. rewrite (norm_u_with x k) by lra.
  destruct (Rgt_dec (x - 2 * PI * IZR k) PI); lra.
Qed.

Lemma norm_s_with_high x (k : Z) : PI < x - 2 * PI * IZR k < 2 * PI -> norm_s x = x - 2 * PI * IZR k - 2 * PI.
Proof.
  intros H. pose proof PI_RGT_0. unfold norm_s. rewrite (norm_u_with x k) by lra.
  destruct (Rgt_dec (x - 2 * PI * IZR k) PI); lra.
Qed.

(* asin x is within tol of y when sin y is within tol * cos M of x (y, asin x in [-M, M]) *)
Lemma asin_close x y M tol : 0 <= M < PI / 2 -> - M <= y <= M -> - sin M <= x <= sin M ->
  Rabs (sin y - x) <= tol * cos M -> Rabs (asin x - y) <= tol.
Proof.
  intros HM Hy Hx Hs.
  assert (HsM : sin M <= 1) by apply SIN_bound.
  pose proof (asin_bound_M x M (conj (proj1 HM) (Rlt_le _ _ (proj2 HM))) Hx) as Hb.
  assert (HcM : 0 < cos M) by (apply cos_gt_0; lra).
  pose proof (sin_expanding M y (asin x) HM Hy Hb) as He.
  rewrite sin_asin in He by lra.
  apply Rmult_le_reg_l with (cos M); [exact HcM |].
  rewrite (Rabs_minus_sym x (sin y)) in He. lra.
Qed.

(* ---- tactics *)
Ltac open_state :=
  cbn [b_waist b_frequency b_polarization b_theta b_phi b_direction]; rewrite ?div1, ?mul1.

(* one setter step: goal  Rabs (b_phi s1 - _) <= _ /\ Rabs (b_theta s1 - _) <= _ /\ direction components;
   kphi / ktheta: floor quotients of the requested angles; hi: whether the signed normalisation subtracts 2 pi *)
Ltac finish_state := repeat split; interval with (i_prec 100).

Ltac case_set_phi k :=
  rewrite set_phi_nf; open_state;
  rewrite (norm_u_with _ k) by (split; [| apply Rminus_gt_0_lt]; interval with (i_prec 100));
  unfold polar_dir, vx, vy, vz; cbn [fst snd]; finish_state.

Ltac norm_s_by k hi :=
  match hi with
  | false => rewrite (norm_s_with_low _ k) by (split; [| apply Rminus_le]; interval with (i_prec 100))
  | true => rewrite (norm_s_with_high _ k) by (split; apply Rminus_gt_0_lt; interval with (i_prec 100))
  end.

Ltac case_set_theta k hi :=
  rewrite set_theta_internal_nf; open_state; norm_s_by k hi;
  unfold polar_dir, vx, vy, vz; cbn [fst snd]; finish_state.

Ltac case_set_angles kp kt hi :=
  rewrite set_angles_nf; open_state;
  rewrite (norm_u_with _ kp) by (split; [| apply Rminus_gt_0_lt]; interval with (i_prec 100));
  norm_s_by kt hi;
  unfold polar_dir, vx, vy, vz; cbn [fst snd]; finish_state.

Ltac case_new kp kt hi :=
  rewrite beam_new_nf; open_state;
  rewrite (norm_u_with _ kp) by (split; [| apply Rminus_gt_0_lt]; interval with (i_prec 100));
  norm_s_by kt hi;
  unfold polar_dir, vx, vy, vz; cbn [fst snd]; finish_state.

Ltac case_norm k hi :=
  rewrite normalize_angle_gen_eq, normalize_angle_signed_gen_eq;
  rewrite (norm_u_with _ k) by (split; [| apply Rminus_gt_0_lt]; interval with (i_prec 100));
  norm_s_by k hi; finish_state.

Ltac case_units :=
  unfold vacuum_wavelength_to_frequency_gen, frequency_to_vacuum_wavelength_gen, from_celsius_to_kelvin_gen,
    from_kelvin_to_celsius_gen, fwhm_to_sigma_gen, fwhm_to_waist_gen, waist_to_fwhm_gen; finish_state.

Ltac case_waist := unfold optimal_waist_position_gen; finish_state.

Ltac case_freq :=
  unfold set_vacuum_wavelength_gen, set_frequency_gen, set_waist_gen, frequency_to_vacuum_wavelength_gen; open_state; finish_state.

(* theta_external read back: asin(n sin theta_i) against Rust's value *)
Ltac case_snell_forward :=
  unfold calc_external_theta_from_internal_gen; rewrite ?div1, ?mul1;
  apply (asin_close _ _ (3 / 2)); [ split; interval | split; interval | split; interval with (i_prec 80) | interval with (i_prec 80) ].
