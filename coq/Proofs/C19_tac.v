(* C19 — lemmas and tactics used by the generated correspondence cases (coq/Cases/C19*, never committed). *)
From Coq Require Import Reals Lra Lia List ZArith.
From Interval Require Import Tactic.
From SpdVerif Require Import Base.Rx Base.PolingBase Gen.Poling Model.Poling Proofs.C19_base Proofs.C19_interp.
Import ListNotations.
Local Open Scope R_scope.

Ltac unfold_windows :=
  cbn [integration_constant pp_integration_constant];
  unfold apod_Off, apod_Gaussian, apod_Bartlett, apod_Blackman, apod_Connes, apod_Cosine, apod_Hamming, apod_Welch.

(* a window value (kinds other than Interpolate) *)
Ltac case_window := unfold_windows; interval with (i_prec 80).

(* Interpolate: evaluate the generated definition once the floor kf and the ceiling kc of the index are given *)
Lemma interp_case values z L (N kf kc : Z) :
  INR (length values) = IZR N -> (0 < N)%Z ->
  let i := 0.5 * (z + 1) * (IZR N - 1) in
  IZR kf <= i < IZR kf + 1 -> IZR kc - 1 < i <= IZR kc ->
  integration_constant (ApInterpolate values) z L =
  nth (Z.to_nat kf) values 0 * (1 - (i - IZR kf)) + nth (Z.to_nat kc) values 0 * (i - IZR kf).
Proof.
  intros HN Hpos i Hf Hc. cbn [integration_constant]. rewrite interp_unfold.
  destruct (Req_EM_T (INR (length values)) 0) as [E | _].
  - exfalso. rewrite HN in E. apply eq_IZR in E. lia.
  - cbv zeta. unfold interp_index. rewrite HN. fold i.
    rewrite (Rfloor_unique i kf Hf), (Rceil_unique i kc Hc), !vec_at_IZR. reflexivity.
Qed.

Ltac case_interp N kf kc :=
  match goal with
  | |- context [integration_constant (ApInterpolate ?vs) ?z ?L] =>
      rewrite (interp_case vs z L N kf kc);
      [ cbv zeta; cbn [nth]; let t := eval vm_compute in (Z.to_nat kf) in change (Z.to_nat kf) with t;
        let t := eval vm_compute in (Z.to_nat kc) in change (Z.to_nat kc) with t; cbn [nth]
      | cbn [length]; rewrite INR_IZR_INZ; reflexivity
      | lia
      | cbv zeta; lra
      | cbv zeta; lra ]
  end.

Ltac split_ifs :=
  repeat match goal with
  | |- context [Rlt_dec ?a ?b] => destruct (Rlt_dec a b); try (exfalso; lra)
  | |- context [Rle_dec ?a ?b] => destruct (Rle_dec a b); try (exfalso; lra)
  | |- context [Rgt_dec ?a ?b] => destruct (Rgt_dec a b); try (exfalso; lra)
  | |- context [Rge_dec ?a ?b] => destruct (Rge_dec a b); try (exfalso; lra)
  end.

(* number of domains *)
Ltac case_count := cbn [pp_num_domains]; apply Rceil_unique; split; lra.

(* one update step on a literal state *)
Ltac case_step :=
  cbn [pp_step pp_with_period pp_assign_period pp_set_apodization pp_with_apodization pp_try_as_optimum pp_try_new_optimum sign_mul]; unfold pp_new;
  cbn [sign_mul]; split_ifs;
  repeat match goal with |- context [Rabs ?x] =>
    first [ rewrite (Rabs_right x) by lra | rewrite (Rabs_left x) by lra ] end;
  first [ reflexivity | f_equal; lra ].

Ltac case_signed := cbn [pp_signed_period sign_mul]; first [ reflexivity | f_equal; lra ].
Ltac case_keff := cbn [pp_k_eff sign_mul]; interval with (i_prec 80).
