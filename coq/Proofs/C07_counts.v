(* C07: the count-rate model on which linearity is proved (Model/Spectrum.v: counts = corr * Σ f·dw2) is the GENERATED
   rendering of src/spdc/counts.rs (Gen/PMIntegrand.v: pm_counts_*, emitted by tools/gen/pm_integrand.py only while the three
   Rust bodies keep the pinned shape `let (dws, dwi) = ranges.steps().division_widths(); let dw2 = dws * dwi;
   correction_factor * Σ s.<spectrum>(..) * dw2`), with the correction factor the GENERATED pm_counts_correction and the cell
   area the product of the two GENERATED division widths (Gen/Grid.v: steps_division_width over the reals). *)
From Coq Require Import Reals Bool Lra List.
From Coquelicot Require Import Coquelicot.
From SpdVerif Require Import Base.Rx Base.GridOps Gen.Grid Model.PMParams Gen.PMIntegrand.
From SpdVerif Require Import Model.SpectrumSetup Gen.Spectrum Model.Spectrum Proofs.C07_scaling.
Import ListNotations.
Local Open Scope R_scope.

(* cell area of a frequency grid as the code computes it: division_widths() = ((xe-xs)/(nx-1), (ye-ys)/(ny-1)), dw2 = dws*dwi *)
Definition cell_area (xs xe : R) (nx : nat) (ys ye : R) (ny : nat) : R :=
  steps_division_width Rops xs xe nx * steps_division_width Rops ys ye ny.

Lemma cell_area_eq xs xe nx ys ye ny :
  cell_area xs xe nx ys ye ny = (xe - xs) / INR (nx - 1) * ((ye - ys) / INR (ny - 1)).
Proof. reflexivity. Qed.

Lemma grid_sum_pm f pts dw2 : grid_sum f pts dw2 = pm_grid_sum (fun ws wi => f ws wi * dw2) pts.
Proof.
  unfold pm_grid_sum. induction pts as [|p r IH]; cbn [grid_sum map fold_right]; [reflexivity|]. rewrite IH. reflexivity.
Qed.

(* the generated rates are the model's rates, for any way the per-point spectra of the generated rendering (functions of
   grpI's scalar record) are identified with the generated per-point spectra over `setup` *)
Lemma counts_match_generated (Q : (R -> C) -> R -> R -> C) (jsis : pm_params -> R) (S Ssw : R -> R -> pm_params) (p0 : pm_params)
    pts xs xe nx ys ye ny s sw :
  let dw2 := cell_area xs xe nx ys ye ny in
  (forall ws wi, pm_jsi Q (S ws wi) = spectrum_jsi ws wi s) ->
  (forall ws wi, jsis (S ws wi) = spectrum_jsi_singles ws wi s) ->
  (forall ws wi, jsis (Ssw wi ws) = spectrum_jsi_singles wi ws sw) ->
  pm_counts_coincidences Q S p0 pts dw2 = counts_coincidences (pm_counts_correction p0) pts dw2 s /\
  pm_counts_singles_signal jsis S p0 pts dw2 = counts_singles_signal (pm_counts_correction p0) pts dw2 s /\
  pm_counts_singles_idler jsis Ssw p0 pts dw2 = counts_singles_idler (pm_counts_correction p0) pts dw2 sw.
Proof.
  cbn zeta. intros H1 H2 H3.
  unfold pm_counts_coincidences, pm_counts_singles_signal, pm_counts_singles_idler,
    counts_coincidences, counts_singles_signal, counts_singles_idler.
  rewrite !grid_sum_pm. repeat split; f_equal; unfold pm_grid_sum; f_equal; apply map_ext; intros [a b]; cbn [fst snd];
    rewrite ?H1, ?H2, ?H3; reflexivity.
Qed.

(* the correction factor does not read power / deff (it is a function of wavelengths and (group) indices only), so the
   linearity of the rates (C07_counts_linear) applies to the generated rates: stated on the generated form *)
Lemma generated_counts_linear a b (f : R -> R -> R) (p0 : pm_params) pts dw2 :
  pm_counts_correction p0 * pm_grid_sum (fun ws wi => (a * b ^ 2 * f ws wi) * dw2) pts
  = a * b ^ 2 * (pm_counts_correction p0 * pm_grid_sum (fun ws wi => f ws wi * dw2) pts).
Proof.
  rewrite <- !grid_sum_pm. rewrite (grid_sum_scale (a * b ^ 2) (fun ws wi => a * b ^ 2 * f ws wi) f pts dw2) by (intros; reflexivity). ring.
Qed.

Lemma grid_sum_area f pts d : grid_sum f pts d = d * grid_sum f pts 1.
Proof. induction pts as [|p r IH]; cbn [grid_sum]; [ring|]. rewrite IH. ring. Qed.

(* a rate computed with dws*dws instead of dws*dwi differs as soon as the two spacings differ and the sum is non-zero *)
Lemma wrong_cell_area_differs corr f pts dws dwi :
  corr * grid_sum f pts 1 <> 0 -> dws <> 0 -> dws <> dwi ->
  corr * grid_sum f pts (dws * dws) <> corr * grid_sum f pts (dws * dwi).
Proof.
  intros Hs Hd Hne.
  rewrite (grid_sum_area f pts (dws * dws)), (grid_sum_area f pts (dws * dwi)). intros H.
  assert (H' : dws * (dws - dwi) * (corr * grid_sum f pts 1) = 0) by lra.
  apply Rmult_integral in H'. destruct H' as [H'|H']; [|contradiction].
  apply Rmult_integral in H'. destruct H'; [contradiction|lra].
Qed.

(* hypothesis-free form: the generated rates are the generated correction factor times the grid sum of the generated
   per-point spectra (of grpI's scalar record) times the cell area *)
Lemma generated_counts_shape (Q : (R -> C) -> R -> R -> C) (jsis : pm_params -> R) (S Ssw : R -> R -> pm_params) (p0 : pm_params) pts dw2 :
  pm_counts_coincidences Q S p0 pts dw2 = pm_counts_correction p0 * grid_sum (fun ws wi => pm_jsi Q (S ws wi)) pts dw2 /\
  pm_counts_singles_signal jsis S p0 pts dw2 = pm_counts_correction p0 * grid_sum (fun ws wi => jsis (S ws wi)) pts dw2 /\
  pm_counts_singles_idler jsis Ssw p0 pts dw2 = pm_counts_correction p0 * grid_sum (fun ws wi => jsis (Ssw wi ws)) pts dw2.
Proof.
  unfold pm_counts_coincidences, pm_counts_singles_signal, pm_counts_singles_idler. rewrite !grid_sum_pm. repeat split.
Qed.

(* any rate of that shape scales with the per-point spectrum *)
Lemma shape_linear k corr (f g : R -> R -> R) pts dw2 :
  (forall ws wi, f ws wi = k * g ws wi) -> corr * grid_sum f pts dw2 = k * (corr * grid_sum g pts dw2).
Proof. intros H. rewrite (grid_sum_scale k f g pts dw2 H). ring. Qed.
