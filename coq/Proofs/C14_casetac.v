(* tactics for the generated correspondence goals of C14 (real-valued space conversions, closed by interval) *)
From Coq Require Import Reals List.
From Interval Require Import Tactic.
From SpdVerif Require Import Base.GridOps Gen.Grid Model.Grid Proofs.C14_spaces.
Local Open Scope R_scope.

Ltac case_space :=
  unfold to_fs, to_ws, to_sd, of_sd, w_of, l_of, on_space, mk_space, fs_from_wavelength_space, fs_as_wavelength_space,
    sd_from_frequency_space, sd_as_frequency_space, vacuum_wavelength_to_frequency, frequency_to_vacuum_wavelength,
    ws_point, sd_point, fs_point, TWO_PI;
  cbn [fst snd ax_lo ax_hi ax_n Rops o_add o_sub o_mul o_div o_nat o_z];
  interval with (i_prec 80).
